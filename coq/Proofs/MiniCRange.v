(* MiniCRange — the two rewrites the executor of Model/MiniC.v applies to decisions are
   semantics-preserving:
   * cnode: a decision on (x - c1) op c2 at an unsigned type is split on whether the subtraction
     wraps, so that the tree only compares x itself with constants (cnode_eval);
   * mk_bin: x % 2^j at an unsigned type is x & (2^j - 1) (rem_pow2_land). *)
From Coq Require Import NArith ZArith List Bool Lia.
From ISAL Require Import Model.MiniC.
Import ListNotations.
Local Open Scope N_scope.

Lemma mkNode_eval : forall w c t f,
  eval_tree w (mkNode c t f) = if truth w c then eval_tree w t else eval_tree w f.
Proof.
  intros w c t f. destruct c; try reflexivity. simpl. unfold truth. simpl.
  destruct (n =? 0); reflexivity.
Qed.

Lemma sub_unsigned : forall t x c1, signed t = false -> x < 2 ^ width t -> c1 < 2 ^ width t ->
  bin_n OSub t x c1 = if x <? c1 then x + (2 ^ width t - c1) else x - c1.
Proof.
  intros t x c1 Hs Hx Hc. unfold bin_n, ofZ, sgn. rewrite Hs. simpl.
  unfold norm. rewrite !N.mod_small by assumption.
  assert (P : 0 < 2 ^ width t) by (apply N.neq_0_lt_0; apply N.pow_nonzero; lia).
  destruct (x <? c1) eqn:E.
  - apply N.ltb_lt in E.
    replace (Z.of_N x - Z.of_N c1)%Z with (Z.of_N (x + (2 ^ width t - c1)) + (-1) * Z.of_N (2 ^ width t))%Z by lia.
    rewrite Z.mod_add by lia. rewrite Z.mod_small by lia. apply N2Z.id.
  - apply N.ltb_ge in E.
    replace (Z.of_N x - Z.of_N c1)%Z with (Z.of_N (x - c1)) by lia.
    rewrite Z.mod_small by lia. apply N2Z.id.
Qed.

Lemma cmp_unsigned : forall op t a b, signed t = false ->
  cmp_b op t a b = match op with
                   | CEq => a =? b | CNe => negb (a =? b) | CLt => a <? b | CLe => a <=? b
                   | CGt => b <? a | CGe => b <=? a end.
Proof. intros op t a b H. unfold cmp_b. rewrite H. destruct op; reflexivity. Qed.

(* in worlds that give the unknown a value of its type's width, the split decision selects the
   same subtree as the original one *)
Lemma cnode_eval : forall w c t f,
  (forall op ty ty' k c1 c2, c = SCmp op ty (SBin OSub ty' (SKey k) (SConst c1)) (SConst c2) ->
                             w k < 2 ^ width ty) ->
  eval_tree w (cnode c t f) = if truth w c then eval_tree w t else eval_tree w f.
Proof.
  intros w c t f Hr.
  destruct c as [n|k|o ty a|o ty a b|op ty a b|x y a]; try apply mkNode_eval.
  destruct a as [n|k|o' ty1 a1|o' ty' a1 a2|o' ty1 a1 a2|x y a1]; try apply mkNode_eval.
  destruct o'; try apply mkNode_eval.
  destruct a1 as [n|k|? ? ?|? ? ? ?|? ? ? ?|? ? ?]; try apply mkNode_eval.
  destruct a2 as [c1|?|? ? ?|? ? ? ?|? ? ? ?|? ? ?]; try apply mkNode_eval.
  destruct b as [c2|?|? ? ?|? ? ? ?|? ? ? ?|? ? ?]; try apply mkNode_eval.
  unfold cnode.
  destruct (negb (signed ty) && negb (signed ty') && (width ty =? width ty') && (c1 <? 2 ^ width ty) &&
            (c2 <? 2 ^ width ty) && negb (c1 =? 0)) eqn:G; [| apply mkNode_eval ].
  repeat (apply andb_prop in G; destruct G as [G ?]).
  apply negb_true_iff in G. apply negb_true_iff in H3. apply negb_true_iff in H. apply N.eqb_eq in H2.
  apply N.ltb_lt in H1. apply N.ltb_lt in H0. apply N.eqb_neq in H.
  specialize (Hr op ty ty' k c1 c2 eq_refl).
  assert (Hsub : eval w (SBin OSub ty' (SKey k) (SConst c1)) =
                 if w k <? c1 then w k + (2 ^ width ty - c1) else w k - c1).
  { simpl. rewrite H2. apply sub_unsigned; [ exact H3 | rewrite <- H2; exact Hr | rewrite <- H2; exact H1 ]. }
  assert (TC : forall o t0 a b, truth w (SCmp o t0 a b) = cmp_b o t0 (eval w a) (eval w b)).
  { intros. unfold truth. simpl. destruct (cmp_b o t0 (eval w a) (eval w b)); reflexivity. }
  cbn [eval_tree]. rewrite !mkNode_eval, !TC, Hsub. cbn [eval].
  rewrite !(cmp_unsigned _ ty _ _ G).
  set (d := 2 ^ width ty - c1) in *.
  assert (Hd : d + c1 = 2 ^ width ty) by (unfold d; lia).
  destruct (w k <? c1) eqn:E.
  - apply N.ltb_lt in E.
    destruct (d <=? c2) eqn:D.
    + apply N.leb_le in D. rewrite mkNode_eval, TC. cbn [eval]. rewrite (cmp_unsigned _ ty _ _ G).
      destruct op;
        repeat match goal with
               | |- context [?a =? ?b] => destruct (N.eqb_spec a b)
               | |- context [?a <? ?b] => destruct (N.ltb_spec a b)
               | |- context [?a <=? ?b] => destruct (N.leb_spec a b)
               end; try reflexivity; exfalso; lia.
    + apply N.leb_gt in D.
      destruct op;
        repeat match goal with
               | |- context [?a =? ?b] => destruct (N.eqb_spec a b)
               | |- context [?a <? ?b] => destruct (N.ltb_spec a b)
               | |- context [?a <=? ?b] => destruct (N.leb_spec a b)
               end; try reflexivity; exfalso; lia.
  - apply N.ltb_ge in E.
    destruct op;
      repeat match goal with
             | |- context [?a =? ?b] => destruct (N.eqb_spec a b)
             | |- context [?a <? ?b] => destruct (N.ltb_spec a b)
             | |- context [?a <=? ?b] => destruct (N.leb_spec a b)
             end; try reflexivity; exfalso; lia.
Qed.

(* x % 2^j = x & (2^j - 1) *)
Lemma rem_pow2_land : forall t x m, signed t = false -> x < 2 ^ width t -> m < 2 ^ width t ->
  forall j, m = 2 ^ j -> bin_n ORem t x m = bin_n OAnd t x (m - 1).
Proof.
  intros t x m Hs Hx Hm j Hj. unfold bin_n. rewrite Hs. unfold norm.
  rewrite (N.mod_small x) by assumption. rewrite (N.mod_small m) by assumption.
  subst m. replace (2 ^ j - 1) with (N.ones j) by (rewrite N.ones_equiv; apply N.pred_sub).
  rewrite N.land_ones. reflexivity.
Qed.
