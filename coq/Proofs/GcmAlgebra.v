(* Algebra of the GHASH field product used by every GCM family: the product of
   Spec/GF128.v is additive (xor-linear) in each argument, for ALL N arguments.
   This is what makes deferred / aggregated reduction in the PCLMULQDQ code a
   re-association of the same sum. *)
From Coq Require Import NArith List Bool Arith Lia.
From ISAL Require Import Base.Words Base.ListUtil Spec.GF128.
Import ListNotations.
Local Open Scope N_scope.

Lemma lxor_swap_mid a b c d : N.lxor (N.lxor a b) (N.lxor c d) = N.lxor (N.lxor a c) (N.lxor b d).
Proof.
  rewrite !N.lxor_assoc. f_equal. rewrite <- !N.lxor_assoc. f_equal. apply N.lxor_comm.
Qed.

Lemma gf128_mul_f_add_l n : forall x y z1 z2 v,
  gf128_mul_f n (N.lxor x y) (N.lxor z1 z2) v =
  N.lxor (gf128_mul_f n x z1 v) (gf128_mul_f n y z2 v).
Proof.
  induction n as [|n IH]; intros x y z1 z2 v; [reflexivity|].
  cbn [gf128_mul_f]. rewrite N.lxor_spec.
  destruct (N.testbit x (N.of_nat n)) eqn:Hx; destruct (N.testbit y (N.of_nat n)) eqn:Hy;
    cbn [xorb]; rewrite <- IH; f_equal.
  - rewrite lxor_swap_mid, N.lxor_nilpotent, N.lxor_0_r. reflexivity.
  - rewrite !N.lxor_assoc. f_equal. apply N.lxor_comm.
  - rewrite !N.lxor_assoc. reflexivity.
Qed.

Lemma gf128_mul_add_l x y h :
  gf128_mul (N.lxor x y) h = N.lxor (gf128_mul x h) (gf128_mul y h).
Proof.
  unfold gf128_mul. rewrite <- gf128_mul_f_add_l, N.lxor_0_r. reflexivity.
Qed.

(* one step of V is additive *)
Definition gf128_vstep (v : N) : N :=
  if N.odd v then N.lxor (N.shiftr v 1) gf128_R else N.shiftr v 1.

Lemma odd_lxor a b : N.odd (N.lxor a b) = xorb (N.odd a) (N.odd b).
Proof. rewrite <- !N.bit0_odd. apply N.lxor_spec. Qed.

Lemma gf128_vstep_add a b : gf128_vstep (N.lxor a b) = N.lxor (gf128_vstep a) (gf128_vstep b).
Proof.
  unfold gf128_vstep. rewrite odd_lxor, N.shiftr_lxor.
  destruct (N.odd a), (N.odd b); cbn [xorb].
  - rewrite lxor_swap_mid, N.lxor_nilpotent, N.lxor_0_r. reflexivity.
  - rewrite !N.lxor_assoc. f_equal. apply N.lxor_comm.
  - rewrite !N.lxor_assoc. reflexivity.
  - reflexivity.
Qed.

Lemma gf128_mul_f_add_r n : forall x z1 z2 v1 v2,
  gf128_mul_f n x (N.lxor z1 z2) (N.lxor v1 v2) =
  N.lxor (gf128_mul_f n x z1 v1) (gf128_mul_f n x z2 v2).
Proof.
  induction n as [|n IH]; intros x z1 z2 v1 v2; [reflexivity|].
  cbn [gf128_mul_f].
  change (if N.odd (N.lxor v1 v2) then N.lxor (N.shiftr (N.lxor v1 v2) 1) gf128_R
          else N.shiftr (N.lxor v1 v2) 1) with (gf128_vstep (N.lxor v1 v2)).
  change (if N.odd v1 then N.lxor (N.shiftr v1 1) gf128_R else N.shiftr v1 1) with (gf128_vstep v1).
  change (if N.odd v2 then N.lxor (N.shiftr v2 1) gf128_R else N.shiftr v2 1) with (gf128_vstep v2).
  rewrite gf128_vstep_add.
  destruct (N.testbit x (N.of_nat n)); rewrite <- IH; f_equal.
  apply lxor_swap_mid.
Qed.

Lemma gf128_mul_add_r x h1 h2 :
  gf128_mul x (N.lxor h1 h2) = N.lxor (gf128_mul x h1) (gf128_mul x h2).
Proof.
  unfold gf128_mul. rewrite <- gf128_mul_f_add_r, N.lxor_0_r. reflexivity.
Qed.




(* GHASH on numbers: Y_i = (Y_(i-1) xor X_i) . H, the recurrence of SP 800-38D 6.4 that
   ghash_step of Spec/GF128.v performs on 16-byte blocks *)
Definition ghashN_step (h y x : N) : N := gf128_mul (N.lxor y x) h.
Definition ghashN (h y : N) (xs : list N) : N := fold_left (ghashN_step h) xs y.

Lemma ghashN_step_add h y1 y2 x1 x2 :
  ghashN_step h (N.lxor y1 y2) (N.lxor x1 x2) = N.lxor (ghashN_step h y1 x1) (ghashN_step h y2 x2).
Proof. unfold ghashN_step. rewrite <- gf128_mul_add_l. f_equal. apply lxor_swap_mid. Qed.

Local Opaque gf128_mul.

Lemma ghashN_cons h y x xs : ghashN h y (x :: xs) = ghashN h (ghashN_step h y x) xs.
Proof. reflexivity. Qed.

(* additive in (state, data) jointly, for every list of blocks *)
Lemma ghashN_add_data h : forall xs ys y1 y2, length xs = length ys ->
  ghashN h (N.lxor y1 y2) (map (fun p => N.lxor (fst p) (snd p)) (combine xs ys)) =
  N.lxor (ghashN h y1 xs) (ghashN h y2 ys).
Proof.
  induction xs as [|x xs IH]; intros ys y1 y2 Hl; destruct ys as [|y ys].
  - reflexivity.
  - cbn [length] in Hl. lia.
  - cbn [length] in Hl. lia.
  - cbn [length] in Hl. cbn [combine map fst snd]. rewrite !ghashN_cons, ghashN_step_add.
    apply IH. lia.
Qed.

(* superposition: the GHASH state is affine in its starting value.  Every family relies on
   it when it folds a pending state into the next batch of blocks. *)
Lemma ghashN_affine h xs : forall y d,
  ghashN h (N.lxor y d) xs = N.lxor (ghashN h y xs) (ghashN h d (map (fun _ => 0) xs)).
Proof.
  induction xs as [|x xs IH]; intros y d; [reflexivity|].
  cbn [map]. rewrite !ghashN_cons.
  replace x with (N.lxor x 0) at 1 by apply N.lxor_0_r.
  rewrite ghashN_step_add. apply IH.
Qed.
