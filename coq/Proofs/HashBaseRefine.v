(* (B1) The base family satisfies the L0 specification of the multi-buffer hash API: the
   observed trace of the base model is accepted by Spec.HashApiSpec.accepts with K = 1
   (derived from (B3) base_eq_generic and the refinement theorem of the generic model), and the
   consequences in the form properties C01 / C06 / C11 / C15 state them. *)
From Coq Require Import NArith List Arith Lia Bool ZArith ZifyNat ZifyN ZifyBool.
From ISAL Require Import Base.Words Base.ListUtil Spec.MD
  Spec.HashApiSpec Model.HashCtx Model.HashObs Model.HashBase
  Proofs.WordsFacts Proofs.ListFacts Proofs.ChunkFacts Proofs.HashPadFacts Proofs.HashCtxFacts Proofs.HashInv
  Proofs.HashSpecFacts Proofs.HashRefine Proofs.HashProps Proofs.HashShift
  Proofs.HashBaseFacts Proofs.HashBaseGeneric Proofs.HashBaseSim.
Import ListNotations.

Section Refine.
Variable BA : base_alg.
Hypothesis OK : base_alg_ok BA.
Notation A := (ba_algo BA).
Notation Bz := (a_bsize (ba_algo BA)).

(* typing of the memory a context lives in: the partial block buffer is the declared array *)
Definition bctx_typed (b : bctx) : Prop := length (b_pbuf b) = 2 * Bz.

(* the histories quantified over: any junk in the context memory, any calls (any flags value
   that fits the C enum, any buffer) on existing contexts *)
Definition base_history (junk : list bctx) (ops : list op) : Prop :=
  Forall bctx_typed junk /\ Forall (bop_ok (length junk)) ops.

Definition ctx_of_b (b : bctx) : ctx :=
  {| c_digest := b_digest b; c_status := b_status b; c_error := b_error b; c_total := b_total b;
     c_inc := []; c_pbuf := b_pbuf b; c_plen := N.to_nat (b_plen b) |}.

Lemma b_of_ctx_of_b b : b_of_ctx (ctx_of_b b) = b.
Proof. destruct b. unfold b_of_ctx, ctx_of_b. cbn. rewrite N2Nat.id. reflexivity. Qed.

Lemma map_b_of_ctx junk : map b_of_ctx (map ctx_of_b junk) = junk.
Proof. rewrite map_map. rewrite <- (map_id junk) at 2. apply map_ext. exact b_of_ctx_of_b. Qed.

Lemma bop_ok_op_ok n o : bop_ok n o -> op_ok n o.
Proof. destruct o; cbn [bop_ok op_ok]; [intros [H _]; exact H|auto]. Qed.

Notation btrace junk ops := (base_run_obs BA (base_model_init junk) ops).

(* (B3) restated for arbitrary base junk *)
Theorem base_eq_generic_b sched junk ops : base_history junk ops ->
  run_obs A 1 sched (model_init A (map ctx_of_b junk)) ops = Some (btrace junk ops).
Proof.
  intros [Hty Hops].
  rewrite (base_eq_generic BA OK sched (map ctx_of_b junk) ops).
  - rewrite map_b_of_ctx. reflexivity.
  - apply Forall_map. eapply Forall_impl; [|exact Hty]. intros b Hb. exact Hb.
  - rewrite map_length. exact Hops.
Qed.

Lemma base_wf_history junk ops : base_history junk ops -> wf_history A 1 (map ctx_of_b junk) ops.
Proof.
  intros [Hty Hops]. split; [lia|]. split.
  - apply Forall_map. eapply Forall_impl; [|exact Hty]. intros b Hb. exact Hb.
  - rewrite map_length. eapply Forall_impl; [|exact Hops]. intros o. apply bop_ok_op_ok.
Qed.

(* (B1) *)
Theorem base_refines_spec junk ops : base_history junk ops ->
  bounded (spec_init (length junk)) (btrace junk ops) ->
  accepts A 1 (spec_init (length junk)) (btrace junk ops) = true.
Proof.
  intros H Hb.
  destruct (hash_refines A (bok_wf BA OK) 1 (fun _ _ => None) (map ctx_of_b junk) ops (base_wf_history junk ops H))
    as (tr & E & Acc).
  rewrite (base_eq_generic_b _ junk ops H) in E. injection E as <-. rewrite map_length in Acc. exact (Acc Hb).
Qed.

Theorem base_refines_spec_bytes junk ops : base_history junk ops ->
  (N.of_nat (ops_bytes ops) < 2 ^ 61)%N ->
  accepts A 1 (spec_init (length junk)) (btrace junk ops) = true.
Proof.
  intros H Hb.
  destruct (hash_refines_bytes A (bok_wf BA OK) 1 (fun _ _ => None) (map ctx_of_b junk) ops (base_wf_history junk ops H) Hb)
    as (tr & E & Acc).
  rewrite (base_eq_generic_b _ junk ops H) in E. injection E as <-. rewrite map_length in Acc. exact Acc.
Qed.

(* C01: a context handed back COMPLETE carries the standard hash of the stream accepted for
   it since its last FIRST, for every segmentation *)
Theorem base_c01_digest junk ops : base_history junk ops ->
  bounded (spec_init (length junk)) (btrace junk ops) ->
  forall t1 c o t2 r, btrace junk ops = t1 ++ (c, o) :: t2 ->
    o_ret o = Some r -> o_rc o = 0%N -> o_status o = STS_COMPLETE ->
    o_digest o = md_hash A (stream_of r (t1 ++ [(c, o)])).
Proof.
  intros H Hb. pose proof (base_eq_generic_b (fun _ _ => None) junk ops H) as E.
  pose proof (c01_digest A (bok_wf BA OK) 1 _ _ ops _ (base_wf_history junk ops H) E) as C.
  rewrite map_length in C. exact (C Hb).
Qed.

(* C15: total_length is exact *)
Theorem base_c15_total junk ops : base_history junk ops ->
  forall t1 c o t2 r, btrace junk ops = t1 ++ (c, o) :: t2 -> o_ret o = Some r -> o_rc o = 0%N ->
    let n := N.of_nat (length (stream_of r (t1 ++ [(c, o)]))) in
    o_total o = (n mod 2 ^ 64)%N /\ ((n < 2 ^ 64)%N -> o_total o = n).
Proof.
  intros H. pose proof (base_eq_generic_b (fun _ _ => None) junk ops H) as E.
  exact (c15_total A (bok_wf BA OK) 1 _ _ ops _ (base_wf_history junk ops H) E).
Qed.

(* C06: status on return *)
Theorem base_c06_status junk ops : base_history junk ops ->
  forall t1 c o t2 r, btrace junk ops = t1 ++ (c, o) :: t2 -> o_ret o = Some r -> o_rc o = 0%N ->
    o_status o = (if last_of r (t1 ++ [(c, o)]) then STS_COMPLETE else STS_IDLE) /\
    N.land (o_status o) STS_PROCESSING = 0%N.
Proof.
  intros H. pose proof (base_eq_generic_b (fun _ _ => None) junk ops H) as E.
  exact (c06_status A (bok_wf BA OK) 1 _ _ ops _ (base_wf_history junk ops H) E).
Qed.

(* C06: a submit always hands its own context back, flush always returns NULL: nothing is ever held *)
Theorem base_c06_own_context : forall ops s c o, In (c, o) (base_run_obs BA s ops) ->
  match c with CSubmit cid _ _ => o_ret o = Some cid | CFlush => o_ret o = None end.
Proof.
  induction ops as [|op ops IH]; intros s c o Hin; [destruct Hin|].
  cbn [base_run_obs] in Hin. destruct (base_step BA s op) as [[s' ret] rc] eqn:E.
  destruct Hin as [Hin|Hin]; [|exact (IH _ _ _ Hin)].
  injection Hin as <- <-. destruct op as [cid buf flags|]; cbn [base_step] in E; injection E as <- <- <-; reflexivity.
Qed.

(* C11: a rejected submit is handed straight back with the matching code; nothing is pending *)
Theorem base_c06_rejected_back junk ops : base_history junk ops ->
  forall t1 c o t2, btrace junk ops = t1 ++ (c, o) :: t2 -> o_rc o <> 0%N ->
    exists cid buf flags, c = CSubmit cid buf flags /\ o_ret o = Some cid /\ o_rc o = rc_of (o_error o) /\
                          pending (t1 ++ [(c, o)]) = pending t1.
Proof.
  intros H. pose proof (base_eq_generic_b (fun _ _ => None) junk ops H) as E.
  exact (c06_rejected_back A (bok_wf BA OK) 1 _ _ ops _ (base_wf_history junk ops H) E).
Qed.

(* ---- C11 on the submit function itself (EVERY context state, reachable or not) ------------ *)

Theorem base_reject_frame c buf flags :
  (negb (N.land flags (N.lnot FLAG_ENTIRE 32) =? 0)%N = true ->
     base_submit BA c buf flags = bset_error c ERR_INVALID_FLAGS) /\
  (negb (N.land flags (N.lnot FLAG_ENTIRE 32) =? 0)%N = false ->
   (has (b_status c) STS_PROCESSING && (flags =? FLAG_ENTIRE)%N)%bool = true ->
     base_submit BA c buf flags = bset_error c ERR_ALREADY_PROCESSING) /\
  (negb (N.land flags (N.lnot FLAG_ENTIRE 32) =? 0)%N = false ->
   (has (b_status c) STS_PROCESSING && (flags =? FLAG_ENTIRE)%N)%bool = false ->
   (has (b_status c) STS_COMPLETE && negb (has flags FLAG_FIRST))%bool = true ->
     base_submit BA c buf flags = bset_error c ERR_ALREADY_COMPLETED).
Proof.
  unfold base_submit. repeat split; intros; repeat match goal with H : _ = _ |- _ => rewrite H end; reflexivity.
Qed.

Lemma bset_error_frame c e : let c' := bset_error c e in
  b_digest c' = b_digest c /\ b_status c' = b_status c /\ b_total c' = b_total c /\
  b_pbuf c' = b_pbuf c /\ b_plen c' = b_plen c /\ b_error c' = e.
Proof. cbv zeta. repeat split. Qed.

Lemma base_update_error c buf : b_error (base_update BA c buf) = b_error c.
Proof.
  unfold base_update.
  repeat match goal with |- context [let '(_, _) := ?x in _] => destruct x end. reflexivity.
Qed.

Lemma final_with_error lv c : b_error (final_with BA lv c) = b_error c.
Proof. unfold final_with. destruct (final_blocks BA lv c). reflexivity. Qed.

(* every accepted submit hands the context back with error NONE (the F3 fix) *)
Theorem base_accept_clears_error c buf flags : (flags < 2 ^ 32)%N ->
  negb (N.land flags (N.lnot FLAG_ENTIRE 32) =? 0)%N = false ->
  (has (b_status c) STS_PROCESSING && (flags =? FLAG_ENTIRE)%N)%bool = false ->
  (has (b_status c) STS_COMPLETE && negb (has flags FLAG_FIRST))%bool = false ->
  b_error (base_submit BA c buf flags) = ERR_NONE.
Proof.
  intros Hfl H1 H2 H3. unfold base_submit. rewrite H1, H2, H3.
  apply negb_false_iff in H1. apply N.eqb_eq in H1.
  destruct (flags_cases flags Hfl H1) as [-> |[-> |[-> | ->]]]; cbn [N.eqb Pos.eqb FLAG_FIRST FLAG_LAST FLAG_ENTIRE];
    unfold base_final; rewrite ?final_with_error, ?base_update_error; reflexivity.
Qed.

(* ---- (B2) with the total as an N (a nat cannot hold 2^32) -------------------------------- *)

Theorem base_final_pad_spec_N c : (b_total c < 2 ^ 61)%N ->
  b_plen c = (b_total c mod N.of_nat Bz)%N -> length (b_pbuf c) = 2 * Bz ->
  let '(buf, i2) := final_blocks BA lenval64 c in
  length buf = 2 * Bz /\
  firstn (N.to_nat i2) buf = firstn (N.to_nat (b_plen c)) (b_pbuf c) ++ md_pad_N A (b_total c) /\
  (i2 = N.of_nat Bz \/ i2 = N.of_nat (2 * Bz)).
Proof.
  intros Ht Hp Hl. pose proof (Bz_pos BA OK) as HB.
  set (n := N.to_nat (b_total c)).
  assert (En : b_total c = N.of_nat n) by (unfold n; rewrite N2Nat.id; reflexivity).
  assert (Ep : b_plen c = N.of_nat (n mod Bz)).
  { rewrite Hp, En. rewrite Nat2N.inj_mod. reflexivity. }
  pose proof (base_final_pad_spec BA OK c n En ltac:(rewrite <- En; exact Ht) Ep Hl) as HS.
  assert (Hlt : n mod Bz < Bz) by (apply Nat.mod_upper_bound; lia).
  destruct (final_blocks_shape BA OK lenval64 c _ Ep Hlt Hl) as (buf & E & _).
  rewrite E in *. destruct HS as (L & F & _). split; [exact L|]. split.
  - rewrite F, Ep, Nat2N.id, En, (md_pad_N_nat A (bok_wf BA OK)). reflexivity.
  - destruct (pad_end_cases BA OK _ Hlt) as ([-> | ->] & _); auto.
Qed.

End Refine.
