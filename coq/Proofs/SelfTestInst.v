(* C17 for the CURRENT binary: the obligation "the thread-modular checker accepts the program
   regenerated from the built objects" (by computation), and the property statements it yields. *)
From Coq Require Import NArith List Bool Arith Lia.
From ISAL Require Import Base.ListUtil Model.SelfTestSys Model.SelfTest Model.SelfTestTM Model.SelfTestPinned
  Gen.SelfTestGen Proofs.SelfTestTMFacts Proofs.SelfTestFacts.
Import ListNotations.

(* the state after n threads (all at the entry of isal_self_tests, status word at its link-time
   value) have executed the schedule, when the self-test bodies return a and s *)
Definition c17_run (n : nat) (a s : N) (sched : list nat) : st_sys :=
  st_exec prog (a, s) (st_init init_status entry n) sched.

Definition bool_outcome (x : N) : Prop := In x [0; 1]%N.

Lemma c_checker_accepts : st_check prog init_status entry errv = true.
Proof. vm_compute. reflexivity. Qed.

Lemma c_chk a s : bool_outcome a -> bool_outcome s -> st_check1 prog init_status entry errv (a, s) = true.
Proof. apply st_check_all. exact c_checker_accepts. Qed.

Lemma c_runs_at_most_once n a s sched : 1 <= n -> bool_outcome a -> bool_outcome s ->
  runs (sg (c17_run n a s sched)) <= 1 /\ fin (sg (c17_run n a s sched)) <= runs (sg (c17_run n a s sched)).
Proof. intros Hn Ha Hs. exact (st_runs_le_1 _ _ _ _ _ (c_chk a s Ha Hs) n sched Hn). Qed.

Lemma c_return_after_run n a s sched t th v : bool_outcome a -> bool_outcome s ->
  nth_error (sths (c17_run n a s sched)) t = Some th -> returned th = Some v ->
  runs (sg (c17_run n a s sched)) = 1 /\ fin (sg (c17_run n a s sched)) = 1 /\
  v = (if pass (a, s) then 0%N else errv) /\
  (status (sg (c17_run n a s sched)) <> ST_NOT_DONE /\ status (sg (c17_run n a s sched)) <> ST_RUNNING).
Proof.
  intros Ha Hs E R. destruct (st_returned _ _ _ _ _ (c_chk a s Ha Hs) n sched t th v E R) as (H1 & H2 & H3 & H4).
  repeat split; auto; unfold st_final, final, st_hot, st_cold in H4; apply andb_true_iff in H4; destruct H4 as [H4 H5];
    apply negb_true_iff in H4, H5; apply N.eqb_neq in H4, H5; assumption.
Qed.

Lemma c_same_verdict n a s sched t1 t2 th1 th2 v1 v2 : bool_outcome a -> bool_outcome s ->
  nth_error (sths (c17_run n a s sched)) t1 = Some th1 -> returned th1 = Some v1 ->
  nth_error (sths (c17_run n a s sched)) t2 = Some th2 -> returned th2 = Some v2 -> v1 = v2.
Proof.
  intros Ha Hs E1 R1 E2 R2.
  destruct (c_return_after_run n a s sched t1 th1 v1 Ha Hs E1 R1) as (_ & _ & -> & _).
  destruct (c_return_after_run n a s sched t2 th2 v2 Ha Hs E2 R2) as (_ & _ & -> & _). reflexivity.
Qed.

Lemma c_no_early_crypto n a s sched t th : bool_outcome a -> bool_outcome s ->
  nth_error (sths (c17_run n a s sched)) t = Some th -> did_crypto th = true ->
  runs (sg (c17_run n a s sched)) = 1 /\ fin (sg (c17_run n a s sched)) = 1 /\ pass (a, s) = true.
Proof. intros Ha Hs E R. exact (st_crypto _ _ _ _ _ (c_chk a s Ha Hs) n sched t th E R). Qed.

Lemma c_nobody_waits n a s sch0 sch1 sch2 t : bool_outcome a -> bool_outcome s -> t < n ->
  (forall u, u < n -> ST_B <= steps_of sch1 u) -> ST_K <= steps_of sch2 t ->
  exists th, nth_error (sths (c17_run n a s (sch0 ++ sch1 ++ sch2))) t = Some th /\ retd th = true.
Proof. intros Ha Hs. exact (st_nobody_waits _ _ _ _ _ (c_chk a s Ha Hs) n sch0 sch1 sch2 t). Qed.

Lemma c_owner_finishes n a s sch0 sch1 w thw : bool_outcome a -> bool_outcome s ->
  nth_error (sths (c17_run n a s sch0)) w = Some thw -> own thw = true -> ST_B <= steps_of sch1 w ->
  status (sg (c17_run n a s (sch0 ++ sch1))) <> ST_NOT_DONE /\ status (sg (c17_run n a s (sch0 ++ sch1))) <> ST_RUNNING.
Proof.
  intros Ha Hs E O H. pose proof (st_owner_finishes _ _ _ _ _ (c_chk a s Ha Hs) n sch0 sch1 w thw E O H) as H4.
  unfold st_final, final, st_hot, st_cold in H4. apply andb_true_iff in H4. destruct H4 as [H4 H5].
  apply negb_true_iff in H4, H5. apply N.eqb_neq in H4, H5. split; assumption.
Qed.

(* non-vacuity: three threads, an interleaved schedule in which thread 0 wins the claim while 1 and 2
   are inside the protocol; pass and fail outcomes *)
Definition nv_sched : list nat :=
  [0;0;0;1;1;1;2;2;2;0;0;1;1;2;2;0;1;2;0;1;2;0;1;2;1;1;1;1;0;2;0;2] ++ repeat 1 10 ++ repeat 0 30 ++ repeat 1 30 ++ repeat 2 30.

Lemma c_nonvacuous :
  (let s := c17_run 3 0 0 nv_sched in
   (status (sg s), runs (sg s), fin (sg s)) = (0%N, 1, 1) /\ map ph (sths s) = [PCrypto; PCrypto; PCrypto]) /\
  (let s := c17_run 3 0 1 nv_sched in
   (status (sg s), runs (sg s), fin (sg s)) = (1%N, 1, 1) /\ map ph (sths s) = [PRet errv; PRet errv; PRet errv]) /\
  (* mid-way: one thread is running the tests, the other two are waiting, nobody has returned *)
  (let s := c17_run 3 0 0 (firstn 42 nv_sched) in
   status (sg s) = ST_RUNNING /\ map own (sths s) = [true; false; false] /\ map retd (sths s) = [false; false; false]).
Proof. vm_compute. repeat split; reflexivity. Qed.

(* The release listing (Model/SelfTestPinned.v) with a self-test body that reports failure as -1
   (what fips/sha_self_tests.c returns): the word published is 0xFFFFFFFF, which the protocol reads
   as neither done nor running, and a second caller runs the self-tests again. *)
Lemma c_pinned_nonboolean_verdict_refuted :
  exists sched, runs (sg (st_exec pinned_prog (0, 4294967295)%N (st_init pinned_init_status pinned_entry 2) sched)) = 2.
Proof. exists (repeat 0 40 ++ repeat 1 40). vm_compute. reflexivity. Qed.
