(* AES-GCM: the generic results of GcmStreamFacts instantiated with the FIPS-197 cipher and
   tied to the statements of Spec/GCM.v (gcm_ae / gcm_ad).  c_* lemmas are what
   Properties/C02.v and C07.v export. *)
From Coq Require Import NArith List Bool Arith Lia.
From ISAL Require Import Base.Words Base.ListUtil Spec.AES Spec.GF128 Spec.GCM Model.GcmStream
  Proofs.WordsFacts Proofs.ListFacts Proofs.ChunkFacts Proofs.AesFacts Proofs.GcmFacts Proofs.GcmStreamFacts.
Import ListNotations.
Local Open Scope nat_scope.

(* ------------------------------------------------------------------ GCTR is an involution *)

Section Invol.
Variable E : list N -> list N.
Hypothesis E_len : forall b, length b = 16 -> length (E b) = 16.

Lemma gctr_E_involutive : forall n X cb, length X <= n -> length cb = 16 ->
  gctr_E E cb (gctr_E E cb X) = X.
Proof.
  induction n as [|n IH]; intros X cb Hn Hc.
  - destruct X; [reflexivity|cbn in Hn; lia].
  - destruct (le_lt_dec (length X) 16) as [Hs|Hl].
    + destruct X as [|a X]; [reflexivity|].
      rewrite (gctr_E_short E cb (a :: X)) by (try exact Hs; discriminate).
      assert (Hx : length (xorb_list (a :: X) (E cb)) = length (a :: X))
        by (rewrite xorb_length, (E_len cb Hc); lia).
      rewrite gctr_E_short.
      * apply xorb_cancel. rewrite (E_len cb Hc). exact Hs.
      * intros Hnil. rewrite Hnil in Hx. discriminate.
      * rewrite Hx. exact Hs.
    + rewrite <- (firstn_skipn 16 X) at 1.
      assert (Hb : length (firstn 16 X) = 1 * 16) by (rewrite firstn_length; lia).
      rewrite (gctr_E_split E cb _ _ 1 Hb). cbn [Nat.iter].
      rewrite (gctr_E_short E cb (firstn 16 X)) by (try lia; intros Hnil; rewrite Hnil in Hb; discriminate).
      assert (Hx : length (xorb_list (firstn 16 X) (E cb)) = 1 * 16)
        by (rewrite xorb_length, (E_len cb Hc); lia).
      rewrite (gctr_E_split E cb _ _ 1 Hx). cbn [Nat.iter].
      rewrite gctr_E_short by (try lia; intros Hnil; rewrite Hnil in Hx; discriminate).
      rewrite xorb_cancel by (rewrite (E_len cb Hc); lia).
      rewrite IH by (try (apply length_inc32; exact Hc); rewrite skipn_length; lia).
      apply firstn_skipn.
Qed.
End Invol.

(* ------------------------------------------------------------------ Spec/GCM.v in terms of gctr_E *)

Lemma gctr_blocks_is_E rks bl : forall cb, gctr_blocks rks cb bl = gctr_blocks_E (cipher rks) cb bl.
Proof. induction bl as [|b r IH]; intros cb; [reflexivity|]. cbn [gctr_blocks gctr_blocks_E]. rewrite IH. reflexivity. Qed.

Lemma inc32_by_0 iv : length iv = 12 -> inc32_by (gcm_j0 iv) 0 = gcm_j0 iv.
Proof.
  intros Hiv. unfold inc32_by, gcm_j0.
  rewrite firstn_app_exact by (symmetry; exact Hiv).
  rewrite skipn_app_exact by (symmetry; exact Hiv). reflexivity.
Qed.

Lemma gcm_ae_rk_is rks iv aad p : length iv = 12 ->
  gcm_ae_rk rks iv aad p =
  (O (cipher rks) iv p,
   xorb_list (gcm_s (gcm_precomp (cipher rks)) aad (O (cipher rks) iv p)) (cipher rks (J0 iv))).
Proof.
  intros Hiv. unfold gcm_ae_rk, gcm_tag_rk, gctr_rk, ctr_block_rk, gcm_hash_key_rk, gcm_precomp, O, gctr_E.
  rewrite gctr_blocks_is_E, (inc32_by_0 iv Hiv). reflexivity.
Qed.

Lemma gcm_ad_rk_is rks iv aad c : length iv = 12 ->
  gcm_ad_rk rks iv aad c =
  (O (cipher rks) iv c,
   xorb_list (gcm_s (gcm_precomp (cipher rks)) aad c) (cipher rks (J0 iv))).
Proof.
  intros Hiv. unfold gcm_ad_rk, gcm_tag_rk, gctr_rk, ctr_block_rk, gcm_hash_key_rk, gcm_precomp, O, gctr_E.
  rewrite gctr_blocks_is_E, (inc32_by_0 iv Hiv). reflexivity.
Qed.

(* ------------------------------------------------------------------ over an expanded key *)

Section Rk.
Variable rks : list (list N).
Hypothesis rks_len : len_sched rks.
Variable defer : nat -> bool.
Variables (iv aad : list N).
Hypothesis iv_len : length iv = 12.

Let E := cipher rks.
Let Hk := gcm_precomp (cipher rks).

Lemma E_len16 : forall b, length b = 16 -> length (E b) = 16.
Proof. intros b Hb. apply cipher_len16; assumption. Qed.

Lemma stream_enc_is_38D_rk segs tag_len :
  (N.of_nat (length (concat segs)) < 2 ^ 64)%N ->
  gcm_stream E Hk defer true iv aad segs tag_len =
  (fst (gcm_ae_rk rks iv aad (concat segs)), firstn tag_len (snd (gcm_ae_rk rks iv aad (concat segs)))).
Proof.
  intros Hlt. rewrite (stream_is_spec E E_len16 Hk defer iv aad true iv_len segs tag_len Hlt).
  rewrite (gcm_ae_rk_is rks iv aad _ iv_len). reflexivity.
Qed.

Lemma stream_dec_is_38D_rk segs tag_len :
  (N.of_nat (length (concat segs)) < 2 ^ 64)%N ->
  gcm_stream E Hk defer false iv aad segs tag_len =
  (fst (gcm_ad_rk rks iv aad (concat segs)), firstn tag_len (snd (gcm_ad_rk rks iv aad (concat segs)))).
Proof.
  intros Hlt. rewrite (stream_is_spec E E_len16 Hk defer iv aad false iv_len segs tag_len Hlt).
  rewrite (gcm_ad_rk_is rks iv aad _ iv_len). reflexivity.
Qed.

Lemma concat_one {A} (x : list A) : concat [x] = x.
Proof. cbn. apply app_nil_r. Qed.

Lemma oneshot_enc_is_38D_rk p tag_len :
  (N.of_nat (length p) < 2 ^ 64)%N ->
  gcm_oneshot E Hk defer true iv aad p tag_len =
  (fst (gcm_ae_rk rks iv aad p), firstn tag_len (snd (gcm_ae_rk rks iv aad p))).
Proof.
  intros Hlt. rewrite oneshot_is_stream, stream_enc_is_38D_rk by (rewrite concat_one; exact Hlt).
  rewrite concat_one. reflexivity.
Qed.

Lemma oneshot_dec_is_38D_rk c tag_len :
  (N.of_nat (length c) < 2 ^ 64)%N ->
  gcm_oneshot E Hk defer false iv aad c tag_len =
  (fst (gcm_ad_rk rks iv aad c), firstn tag_len (snd (gcm_ad_rk rks iv aad c))).
Proof.
  intros Hlt. rewrite oneshot_is_stream, stream_dec_is_38D_rk by (rewrite concat_one; exact Hlt).
  rewrite concat_one. reflexivity.
Qed.

(* decrypting what was encrypted gives back the plaintext and the same tag *)
Lemma ad_of_ae_rk p :
  gcm_ad_rk rks iv aad (fst (gcm_ae_rk rks iv aad p)) = (p, snd (gcm_ae_rk rks iv aad p)).
Proof.
  rewrite (gcm_ae_rk_is rks iv aad p iv_len). cbn [fst snd].
  rewrite (gcm_ad_rk_is rks iv aad _ iv_len). f_equal.
  unfold O. apply (gctr_E_involutive (cipher rks) E_len16 (length p)); [reflexivity|].
  apply length_inc32. unfold J0. rewrite app_length, iv_len. reflexivity.
Qed.

Lemma length_fst_ae_rk p : length (fst (gcm_ae_rk rks iv aad p)) = length p.
Proof.
  pose proof (ad_of_ae_rk p) as Had. rewrite (gcm_ad_rk_is rks iv aad _ iv_len) in Had.
  apply (f_equal fst) in Had. cbn [fst] in Had.
  rewrite (gcm_ae_rk_is rks iv aad p iv_len) in *. cbn [fst] in *.
  (* |O X| = |X|: from the streaming invariant, one update of the whole data *)
  destruct (gcm_updates E Hk defer true (gcm_init Hk iv aad) [p]) as [c1 out] eqn:Hu.
  destruct (updates_inv E E_len16 Hk defer iv aad true iv_len [p] _ [] c1 out
              (init_inv E Hk iv aad true iv_len) ltac:(reflexivity) Hu) as (HI & _ & _).
  cbn [app] in HI. rewrite concat_one in HI.
  destruct (inv_side_split E Hk iv aad true iv_len c1 p HI) as (Xc & t & q & HX & HXc & Ht & Ht16 & Hs & _).
  unfold side in Hs. fold E. rewrite Hs, app_length.
  rewrite (length_O_exact E E_len16 iv iv_len Xc q HXc).
  rewrite xorb_length, (E_len16 _ (length_ctrs iv iv_len (S q))), HX, app_length, HXc. lia.
Qed.

Lemma oneshot_dec_inverts_enc_rk p tag_len :
  (N.of_nat (length p) < 2 ^ 64)%N ->
  let '(c, t) := gcm_oneshot E Hk defer true iv aad p tag_len in
  gcm_oneshot E Hk defer false iv aad c tag_len = (p, t).
Proof.
  intros Hlt. rewrite (oneshot_enc_is_38D_rk p tag_len Hlt).
  rewrite oneshot_dec_is_38D_rk by (rewrite length_fst_ae_rk; exact Hlt).
  rewrite ad_of_ae_rk. reflexivity.
Qed.

Lemma stream_eq_oneshot_rk enc segs tag_len :
  (N.of_nat (length (concat segs)) < 2 ^ 64)%N ->
  gcm_stream E Hk defer enc iv aad segs tag_len = gcm_oneshot E Hk defer enc iv aad (concat segs) tag_len.
Proof.
  intros Hlt. rewrite oneshot_is_stream.
  rewrite (stream_is_spec E E_len16 Hk defer iv aad enc iv_len segs tag_len Hlt).
  rewrite (stream_is_spec E E_len16 Hk defer iv aad enc iv_len [concat segs] tag_len)
    by (rewrite concat_one; exact Hlt).
  rewrite concat_one. reflexivity.
Qed.

End Rk.

(* ------------------------------------------------------------------ over a key of 16 or 32 bytes *)

Lemma key_len_sched k : length k = 16 \/ length k = 32 -> len_sched (key_expansion k).
Proof. intros [Hk|Hk]; apply key_expansion_len_sched; rewrite Hk; reflexivity. Qed.

(* C02: one-shot = SP 800-38D, every deferral policy (i.e. every family) *)
Lemma c_oneshot_enc_is_38D : forall (defer : nat -> bool) (k iv aad p : list N) (tag_len : nat),
  length k = 16 \/ length k = 32 -> length iv = 12 -> (N.of_nat (length p) < 2 ^ 64)%N ->
  let rks := key_expansion k in
  gcm_oneshot (cipher rks) (gcm_precomp (cipher rks)) defer true iv aad p tag_len =
  (fst (gcm_ae k iv aad p), firstn tag_len (snd (gcm_ae k iv aad p))).
Proof. intros defer k iv aad p tl Hk Hiv Hlt. apply oneshot_enc_is_38D_rk; [apply key_len_sched| |]; assumption. Qed.

Lemma c_oneshot_dec_is_38D : forall (defer : nat -> bool) (k iv aad c : list N) (tag_len : nat),
  length k = 16 \/ length k = 32 -> length iv = 12 -> (N.of_nat (length c) < 2 ^ 64)%N ->
  let rks := key_expansion k in
  gcm_oneshot (cipher rks) (gcm_precomp (cipher rks)) defer false iv aad c tag_len =
  (fst (gcm_ad k iv aad c), firstn tag_len (snd (gcm_ad k iv aad c))).
Proof. intros defer k iv aad c tl Hk Hiv Hlt. apply oneshot_dec_is_38D_rk; [apply key_len_sched| |]; assumption. Qed.

Lemma c_dec_inverts_enc : forall (defer : nat -> bool) (k iv aad p : list N) (tag_len : nat),
  length k = 16 \/ length k = 32 -> length iv = 12 -> (N.of_nat (length p) < 2 ^ 64)%N ->
  let rks := key_expansion k in
  let '(c, t) := gcm_oneshot (cipher rks) (gcm_precomp (cipher rks)) defer true iv aad p tag_len in
  gcm_oneshot (cipher rks) (gcm_precomp (cipher rks)) defer false iv aad c tag_len = (p, t).
Proof. intros defer k iv aad p tl Hk Hiv Hlt. apply oneshot_dec_inverts_enc_rk; [apply key_len_sched| |]; assumption. Qed.

Lemma c_ad_of_ae : forall (k iv aad p : list N),
  length k = 16 \/ length k = 32 -> length iv = 12 ->
  gcm_ad k iv aad (fst (gcm_ae k iv aad p)) = (p, snd (gcm_ae k iv aad p)).
Proof. intros k iv aad p Hk Hiv. apply ad_of_ae_rk; [apply key_len_sched|]; assumption. Qed.

(* C07: any segmentation = one-shot on the concatenation, enc and dec, every policy *)
Lemma c_stream_eq_oneshot : forall (defer : nat -> bool) (k iv aad : list N) (enc : bool)
                                   (segs : list (list N)) (tag_len : nat),
  length k = 16 \/ length k = 32 -> length iv = 12 -> (N.of_nat (length (concat segs)) < 2 ^ 64)%N ->
  let rks := key_expansion k in
  gcm_stream (cipher rks) (gcm_precomp (cipher rks)) defer enc iv aad segs tag_len =
  gcm_oneshot (cipher rks) (gcm_precomp (cipher rks)) defer enc iv aad (concat segs) tag_len.
Proof. intros defer k iv aad enc segs tl Hk Hiv Hlt. apply stream_eq_oneshot_rk; [apply key_len_sched| |]; assumption. Qed.

Lemma c_stream_is_38D : forall (defer : nat -> bool) (k iv aad : list N) (enc : bool)
                               (segs : list (list N)) (tag_len : nat),
  length k = 16 \/ length k = 32 -> length iv = 12 -> (N.of_nat (length (concat segs)) < 2 ^ 64)%N ->
  let rks := key_expansion k in
  let r := if enc then gcm_ae k iv aad (concat segs) else gcm_ad k iv aad (concat segs) in
  gcm_stream (cipher rks) (gcm_precomp (cipher rks)) defer enc iv aad segs tag_len =
  (fst r, firstn tag_len (snd r)).
Proof.
  intros defer k iv aad enc segs tl Hk Hiv Hlt. destruct enc.
  - apply stream_enc_is_38D_rk; [apply key_len_sched| |]; assumption.
  - apply stream_dec_is_38D_rk; [apply key_len_sched| |]; assumption.
Qed.

(* the invariant of the context after any list of updates (DESIGN C07), stated with the
   quantities of the standard: X = everything fed so far, split into closed blocks and the
   open block *)
Lemma c_stream_invariant : forall (defer : nat -> bool) (k iv aad : list N) (enc : bool) (segs : list (list N)),
  length k = 16 \/ length k = 32 -> length iv = 12 ->
  let E := cipher (key_expansion k) in
  let Hh := gcm_precomp E in
  let '(c, outs) := gcm_updates E Hh defer enc (gcm_init Hh iv aad) segs in
  Inv E Hh iv aad enc c (concat segs) /\ outs = O E iv (concat segs) /\
  in_length c = wrap 64 (N.of_nat (length (concat segs))).
Proof.
  intros defer k iv aad enc segs Hk Hiv E Hh.
  destruct (gcm_updates E Hh defer enc (gcm_init Hh iv aad) segs) as [c outs] eqn:Hu.
  assert (El : forall b, length b = 16 -> length (E b) = 16)
    by (intros b Hb; apply cipher_len16; [apply key_len_sched; exact Hk|exact Hb]).
  destruct (updates_inv E El Hh defer iv aad enc Hiv segs _ [] c outs
              (init_inv E Hh iv aad enc Hiv) ltac:(reflexivity) Hu) as (HI & HO & HL).
  cbn [app] in *. repeat split; [exact HI| |exact HL].
  unfold O at 2 in HO. rewrite gctr_E_nil in HO. cbn [app] in HO. symmetry. exact HO.
Qed.

(* GHASH of zero blocks from 0 is 0: the context after init with an all-zero AAD has
   aad_hash = 0 (used by the long-AAD probe of checks/c02.py) *)
Lemma gf128_mul_bytes_zero h : gf128_mul_bytes (zeros 16) h = zeros 16.
Proof.
  unfold gf128_mul_bytes, gf128_mul. change (block_to_N (zeros 16)) with 0%N.
  rewrite gf128_mul_f_zero. reflexivity.
Qed.

Lemma c_ghash_blocks_zeros : forall h n, ghash_blocks h (zeros 16) (zeros n) = zeros 16.
Proof.
  intros h n. induction n as [n IH] using lt_wf_ind.
  destruct (le_lt_dec n 16) as [Hs|Hl].
  - destruct n as [|n]; [reflexivity|].
    rewrite ghash_blocks_one by (try (rewrite length_zeros; exact Hs); discriminate).
    unfold pad16. rewrite length_zeros, <- zeros_app.
    replace (S n + (16 - S n)) with 16 by lia.
    rewrite xorb_zeros_r by (rewrite length_zeros; lia). apply gf128_mul_bytes_zero.
  - replace n with (16 + (n - 16)) by lia. rewrite zeros_app.
    rewrite ghash_blocks_app by (exists 1; rewrite length_zeros; lia).
    rewrite (IH 16) by lia. apply IH. lia.
Qed.
