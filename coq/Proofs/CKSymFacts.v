(* ckernels vertical — soundness of the symbolic equivalence checker of Model/CKSym.v:
   every smart constructor returns an index whose value is the operation applied to the values of
   its operands (whatever normalisation it chose), the symbolic interpreter simulates the concrete
   one ([sexec_sound]). *)
From Coq Require Import NArith List Bool Arith Lia.
From ISAL Require Import Base.Words Base.ListUtil Proofs.WordsFacts Proofs.ChunkFacts Model.CKernel
  Proofs.CKernelFacts Model.CKSym.
Import ListNotations.
Local Open Scope N_scope.

(* ---------------------------------------------------------------- build *)

Lemma build_spec f n i : N.testbit (build f n) i = (i <? N.of_nat n) && f i.
Proof.
  induction n as [|n IH]; cbn [build].
  - rewrite N.bits_0. destruct (N.ltb_spec i (N.of_nat 0)); [lia|reflexivity].
  - destruct (f (N.of_nat n)) eqn:E.
    + rewrite N.setbit_eqb, IH. destruct (N.eqb_spec (N.of_nat n) i) as [Heq|Hne].
      * rewrite <- Heq, E. destruct (N.ltb_spec (N.of_nat n) (N.of_nat (S n))); [reflexivity|lia].
      * cbn [orb]. destruct (N.ltb_spec i (N.of_nat n)), (N.ltb_spec i (N.of_nat (S n))); try lia; reflexivity.
    + rewrite IH. destruct (N.ltb_spec i (N.of_nat n)), (N.ltb_spec i (N.of_nat (S n))); try lia; try reflexivity.
      cbn [andb]. assert (i = N.of_nat n) by lia. subst. rewrite E. reflexivity.
Qed.

Lemma build_lt f w : build f (N.to_nat w) < 2 ^ w.
Proof.
  apply lt_pow2_of_bits. intros j Hj. rewrite build_spec.
  destruct (N.ltb_spec j (N.of_nat (N.to_nat w))); [lia|reflexivity].
Qed.

Lemma build_ext f g n : (forall i, f i = g i) -> build f n = build g n.
Proof. intros H. induction n as [|n IH]; cbn [build]; [reflexivity|]. rewrite IH, H. reflexivity. Qed.

(* a value below 2^w is rebuilt from its bits *)
Lemma build_id x w : x < 2 ^ w -> build (N.testbit x) (N.to_nat w) = x.
Proof.
  intros Hx. apply N.bits_inj. intro i. rewrite build_spec.
  destruct (N.ltb_spec i (N.of_nat (N.to_nat w))); [reflexivity|].
  cbn [andb]. symmetry. apply (testbit_high x w); [exact Hx|lia].
Qed.

(* ---------------------------------------------------------------- decision diagrams *)

Lemma bf_eqb_eq f g : bf_eqb f g = true -> f = g.
Proof.
  revert g. induction f as [a|x l IHl h IHh]; intros [b|y l' h']; cbn [bf_eqb]; try discriminate.
  - intros H. apply Bool.eqb_prop in H. congruence.
  - intros H. apply andb_true_iff in H as [H H3]. apply andb_true_iff in H as [H1 H2].
    apply N.eqb_eq in H1. f_equal; auto.
Qed.

Lemma bmk_eval b x lo hi : beval b (bmk x lo hi) = if b x then beval b hi else beval b lo.
Proof.
  unfold bmk. destruct (bf_eqb lo hi) eqn:E; [|reflexivity].
  apply bf_eqb_eq in E. subst. destruct (b x); reflexivity.
Qed.

Lemma bapply_eval op b : forall f g, beval b (bapply op f g) = op (beval b f) (beval b g).
Proof.
  induction f as [a|x fl IHl fh IHh]; intro g; induction g as [c|y gl IHgl gh IHgh].
  - reflexivity.
  - change (bapply op (BC a) (BN y gl gh)) with (bmk y (bapply op (BC a) gl) (bapply op (BC a) gh)).
    rewrite bmk_eval, IHgl, IHgh. cbn [beval]. destruct (b y); reflexivity.
  - change (bapply op (BN x fl fh) (BC c)) with (bmk x (bapply op fl (BC c)) (bapply op fh (BC c))).
    rewrite bmk_eval, IHl, IHh. cbn [beval]. destruct (b x); reflexivity.
  - change (bapply op (BN x fl fh) (BN y gl gh)) with
      (if x <? y then bmk x (bapply op fl (BN y gl gh)) (bapply op fh (BN y gl gh))
       else if y <? x then bmk y (bapply op (BN x fl fh) gl) (bapply op (BN x fl fh) gh)
       else bmk x (bapply op fl gl) (bapply op fh gh)).
    destruct (N.ltb_spec x y); [|destruct (N.ltb_spec y x)].
    + rewrite bmk_eval, IHl, IHh. cbn [beval]. destruct (b x); reflexivity.
    + rewrite bmk_eval, IHgl, IHgh. cbn [beval]. destruct (b y); reflexivity.
    + assert (x = y) by lia. subst y. rewrite bmk_eval, IHl, IHh. cbn [beval]. destruct (b x); reflexivity.
Qed.

Lemma bnot_eval b f : beval b (bnot f) = negb (beval b f).
Proof. induction f as [a|x l IHl h IHh]; cbn [beval bnot]; [reflexivity|]. rewrite IHl, IHh. destruct (b x); reflexivity. Qed.

Lemma bf_lt_BN x l h k : bf_lt (BN x l h) k = true -> x < k /\ bf_lt l k = true /\ bf_lt h k = true.
Proof.
  cbn [bf_lt]. intros E. apply andb_true_iff in E as [E E3]. apply andb_true_iff in E as [E1 E2].
  apply N.ltb_lt in E1. auto.
Qed.

Lemma bf_lt_BN_intro x l h k : x < k -> bf_lt l k = true -> bf_lt h k = true -> bf_lt (BN x l h) k = true.
Proof. intros Hx Hl Hh. cbn [bf_lt]. rewrite Hl, Hh. apply N.ltb_lt in Hx. rewrite Hx. reflexivity. Qed.

Lemma beval_ext b b' f k : (forall x, x < k -> b x = b' x) -> bf_lt f k = true -> beval b f = beval b' f.
Proof.
  intros H. induction f as [a|x l IHl h IHh]; [reflexivity|].
  intros E. apply bf_lt_BN in E as (E1 & E2 & E3). cbn [beval].
  rewrite (H x E1), IHl, IHh by assumption. reflexivity.
Qed.

Lemma bf_lt_mono f k k' : k <= k' -> bf_lt f k = true -> bf_lt f k' = true.
Proof.
  intros Hk. induction f as [a|x l IHl h IHh]; [reflexivity|].
  intros E. apply bf_lt_BN in E as (E1 & E2 & E3). apply bf_lt_BN_intro; auto. lia.
Qed.

Lemma bmk_lt x lo hi k : x < k -> bf_lt lo k = true -> bf_lt hi k = true -> bf_lt (bmk x lo hi) k = true.
Proof.
  intros Hx Hl Hh. unfold bmk. destruct (bf_eqb lo hi); [exact Hl|]. apply bf_lt_BN_intro; assumption.
Qed.

Lemma bapply_lt op k : forall f g, bf_lt f k = true -> bf_lt g k = true -> bf_lt (bapply op f g) k = true.
Proof.
  induction f as [a|x fl IHl fh IHh]; intro g; induction g as [c|y gl IHgl gh IHgh]; intros Hf Hg.
  - reflexivity.
  - change (bapply op (BC a) (BN y gl gh)) with (bmk y (bapply op (BC a) gl) (bapply op (BC a) gh)).
    apply bf_lt_BN in Hg as (? & ? & ?). apply bmk_lt; auto.
  - change (bapply op (BN x fl fh) (BC c)) with (bmk x (bapply op fl (BC c)) (bapply op fh (BC c))).
    apply bf_lt_BN in Hf as (? & ? & ?). apply bmk_lt; auto.
  - change (bapply op (BN x fl fh) (BN y gl gh)) with
      (if x <? y then bmk x (bapply op fl (BN y gl gh)) (bapply op fh (BN y gl gh))
       else if y <? x then bmk y (bapply op (BN x fl fh) gl) (bapply op (BN x fl fh) gh)
       else bmk x (bapply op fl gl) (bapply op fh gh)).
    pose proof Hf as Hf'. pose proof Hg as Hg'.
    apply bf_lt_BN in Hf' as (? & ? & ?). apply bf_lt_BN in Hg' as (? & ? & ?).
    destruct (x <? y); [|destruct (y <? x)]; apply bmk_lt; auto.
Qed.

Lemma bnot_lt f k : bf_lt f k = true -> bf_lt (bnot f) k = true.
Proof.
  induction f as [a|x l IHl h IHh]; [reflexivity|].
  intros E. apply bf_lt_BN in E as (E1 & E2 & E3). cbn [bnot]. apply bf_lt_BN_intro; auto.
Qed.

(* ---------------------------------------------------------------- tables *)

Section Tables.
Variable rho : nat -> N.
Notation nval := (nval rho).
Notation tvals := (tvals rho).
Notation V := (V rho).

Lemma tvals_snoc s e : tvals (s ++ [e]) = tvals s ++ [nval (tvals s) (fst e)].
Proof. unfold CKSym.tvals. rewrite fold_left_app. reflexivity. Qed.

Lemma tvals_length s : length (tvals s) = length s.
Proof.
  induction s as [|e s IH] using rev_ind; [reflexivity|].
  rewrite tvals_snoc, !app_length, IH. reflexivity.
Qed.

Lemma tvals_prefix s m : exists y, tvals (s ++ m) = tvals s ++ y.
Proof.
  induction m as [|e m IH] using rev_ind.
  - exists []. rewrite !app_nil_r. reflexivity.
  - destruct IH as [y Hy]. rewrite app_assoc, tvals_snoc, Hy. eexists. rewrite <- app_assoc. reflexivity.
Qed.

Lemma V_app s m i : (N.to_nat i < length s)%nat -> V (s ++ m) i = V s i.
Proof.
  intros Hi. unfold CKSym.V. destruct (tvals_prefix s m) as [y ->].
  apply app_nth1. rewrite tvals_length. exact Hi.
Qed.

Lemma psum_ext (f g : N -> N) l k :
  (forall a, a < k -> f a = g a) -> forallb (fun p : N * N => fst p <? k) l = true -> psum f l = psum g l.
Proof.
  intros H. induction l as [|[a m] l IH]; cbn [psum forallb fst]; [reflexivity|].
  intros E. apply andb_true_iff in E as [E1 E2]. apply N.ltb_lt in E1.
  rewrite (H a E1), IH by assumption. reflexivity.
Qed.

Lemma xfold_ext (f g : N -> N) l k :
  (forall a, a < k -> f a = g a) -> forallb (fun a => a <? k) l = true -> xfold f l = xfold g l.
Proof.
  intros H. induction l as [|a l IH]; cbn [xfold forallb]; [reflexivity|].
  intros E. apply andb_true_iff in E as [E1 E2]. apply N.ltb_lt in E1.
  rewrite (H a E1), IH by assumption. reflexivity.
Qed.

Lemma nval_ext vs more n : args_lt n (N.of_nat (length vs)) = true -> nval (vs ++ more) n = nval vs n.
Proof.
  assert (Hn : forall a, a < N.of_nat (length vs) -> nth (N.to_nat a) (vs ++ more) 0 = nth (N.to_nat a) vs 0)
    by (intros; apply app_nth1; lia).
  destruct n; cbn [CKSym.nval args_lt]; intros E; try reflexivity;
    try (apply N.ltb_lt in E; rewrite (Hn _ E); reflexivity).
  - f_equal. f_equal. apply (psum_ext _ _ _ (N.of_nat (length vs))); assumption.
  - apply build_ext. intro i. apply (beval_ext _ _ _ (N.of_nat (length vs))); [|exact E].
    intros x Hx. rewrite (Hn x Hx). reflexivity.
  - apply andb_true_iff in E as [E1 E2]. apply N.ltb_lt in E1. apply N.ltb_lt in E2.
    rewrite (Hn _ E1), (Hn _ E2). reflexivity.
  - f_equal. apply (xfold_ext _ _ _ (N.of_nat (length vs))); assumption.
Qed.

Definition wf (s : tbl) : Prop :=
  forall i n b, nth_error s i = Some (n, b) -> args_lt n (N.of_nat i) = true /\ V s (N.of_nat i) < 2 ^ b.

Definition ext (s s' : tbl) : Prop := exists m, s' = s ++ m.
Definition inb (s : tbl) (i : N) : Prop := i < N.of_nat (length s).

Lemma ext_refl s : ext s s.
Proof. exists []. symmetry. apply app_nil_r. Qed.
Lemma ext_trans a b c : ext a b -> ext b c -> ext a c.
Proof. intros [m ->] [m' ->]. exists (m ++ m'). symmetry. apply app_assoc. Qed.
Lemma ext_len s s' : ext s s' -> (length s <= length s')%nat.
Proof. intros [m ->]. rewrite app_length. lia. Qed.
Lemma ext_inb s s' i : ext s s' -> inb s i -> inb s' i.
Proof. intros H Hi. apply ext_len in H. unfold inb in *. lia. Qed.
Lemma ext_nth s s' i : ext s s' -> inb s i -> nth_error s' (N.to_nat i) = nth_error s (N.to_nat i).
Proof. intros [m ->] Hi. apply nth_error_app1. unfold inb in Hi. lia. Qed.
Lemma ext_V s s' i : ext s s' -> inb s i -> V s' i = V s i.
Proof. intros [m ->] Hi. apply V_app. unfold inb in Hi. lia. Qed.
Lemma ext_bw s s' i : ext s s' -> inb s i -> bw s' i = bw s i.
Proof. intros H Hi. unfold bw. rewrite (ext_nth _ _ _ H Hi). reflexivity. Qed.
Lemma ext_node_of s s' i : ext s s' -> inb s i -> node_of s' i = node_of s i.
Proof. intros H Hi. unfold node_of. rewrite (ext_nth _ _ _ H Hi). reflexivity. Qed.
Lemma ext_as_const s s' i : ext s s' -> inb s i -> as_const s' i = as_const s i.
Proof. intros H Hi. unfold as_const. rewrite (ext_node_of _ _ _ H Hi). reflexivity. Qed.

Lemma args_lt_mono n k k' : k <= k' -> args_lt n k = true -> args_lt n k' = true.
Proof.
  intros Hk. assert (L : forall a, (a <? k) = true -> (a <? k') = true).
  { intros a E. apply N.ltb_lt in E. apply N.ltb_lt. lia. }
  destruct n; cbn [args_lt]; auto.
  - intros E. rewrite forallb_forall in *. intros p Hp. apply L, E, Hp.
  - apply bf_lt_mono. exact Hk.
  - intros E. apply andb_true_iff in E as [E1 E2]. rewrite (L _ E1), (L _ E2). reflexivity.
  - intros E. rewrite forallb_forall in *. intros p Hp. apply L, E, Hp.
Qed.

Lemma V_node s i n b : wf s -> nth_error s i = Some (n, b) -> V s (N.of_nat i) = nval (tvals s) n.
Proof.
  intros Hwf Hn. destruct (Hwf i n b Hn) as [Ha _].
  destruct (nth_error_split _ _ Hn) as (l1 & l2 & -> & Hl).
  match goal with |- CKSym.V _ ?l _ = _ =>
    assert (Es : l = (l1 ++ [(n, b)]) ++ l2) by (rewrite <- app_assoc; reflexivity); rewrite Es; clear Es Hn Hwf end.
  destruct (tvals_prefix (l1 ++ [(n, b)]) l2) as [y Hy].
  unfold CKSym.V. rewrite Hy, tvals_snoc, Nat2N.id. cbn [fst].
  rewrite <- app_assoc. rewrite app_nth2 by (rewrite tvals_length; lia).
  rewrite tvals_length, Hl, Nat.sub_diag. cbn [nth app].
  symmetry. apply nval_ext. rewrite tvals_length, Hl. exact Ha.
Qed.

Lemma V_node' s i n b : wf s -> nth_error s (N.to_nat i) = Some (n, b) -> V s i = nval (tvals s) n.
Proof. intros Hwf Hn. rewrite <- (N2Nat.id i). apply (V_node _ _ _ _ Hwf Hn). Qed.

Lemma V_lt s i n b : wf s -> nth_error s (N.to_nat i) = Some (n, b) -> V s i < 2 ^ b.
Proof. intros Hwf Hn. rewrite <- (N2Nat.id i). apply (Hwf _ _ _ Hn). Qed.

Lemma list_pair_eqb_eq a b : list_pair_eqb a b = true -> a = b.
Proof.
  revert b. induction a as [|[x m] a IH]; intros [|[y n] b]; cbn [list_pair_eqb]; try discriminate; [reflexivity|].
  intros E. apply andb_true_iff in E as [E E3]. apply andb_true_iff in E as [E1 E2].
  apply N.eqb_eq in E1. apply N.eqb_eq in E2. subst. f_equal. auto.
Qed.

Lemma list_N_eqb_eq a b : list_nat_eqb a b = true -> a = b.
Proof.
  revert b. induction a as [|x a IH]; intros [|y b]; cbn [list_nat_eqb]; try discriminate; [reflexivity|].
  intros E. apply andb_true_iff in E as [E1 E2]. apply N.eqb_eq in E1. subst. f_equal. auto.
Qed.

Lemma node_eqb_eq a b : node_eqb a b = true -> a = b.
Proof.
  destruct a, b; cbn [node_eqb]; try discriminate; intros E;
    repeat match goal with
    | H : _ && _ = true |- _ => apply andb_true_iff in H as [? ?]
    | H : Nat.eqb _ _ = true |- _ => apply Nat.eqb_eq in H
    | H : N.eqb _ _ = true |- _ => apply N.eqb_eq in H
    | H : list_pair_eqb _ _ = true |- _ => apply list_pair_eqb_eq in H
    | H : list_nat_eqb _ _ = true |- _ => apply list_N_eqb_eq in H
    | H : bf_eqb _ _ = true |- _ => apply bf_eqb_eq in H
    end; subst; reflexivity.
Qed.

Lemma find_idx_sound n : forall s k i, find_idx n s k = Some i ->
  exists j b, i = k + N.of_nat j /\ nth_error s j = Some (n, b).
Proof.
  induction s as [|[m b] s IH]; intros k i; cbn [find_idx]; [discriminate|].
  destruct (node_eqb n m) eqn:E.
  - intros [= <-]. apply node_eqb_eq in E. subst m. exists 0%nat, b. split; [lia|reflexivity].
  - intros H. destruct (IH _ _ H) as (j & b' & -> & Hj). exists (S j), b'. split; [lia|exact Hj].
Qed.

(* the post-condition of a table computation returning an index *)
Definition OK (s : tbl) (r : option (N * tbl)) (v : N) : Prop :=
  match r with
  | None => True
  | Some (i, s') => wf s' /\ ext s s' /\ inb s' i /\ V s' i = v
  end.

Lemma OK_ret s i v : wf s -> inb s i -> V s i = v -> OK s (Some (i, s)) v.
Proof. intros. cbn. auto using ext_refl. Qed.

Lemma intern_ok s n b :
  wf s -> args_lt n (N.of_nat (length s)) = true -> nval (tvals s) n < 2 ^ b -> OK s (intern n b s) (nval (tvals s) n).
Proof.
  intros Hwf Ha Hb. unfold intern. destruct (find_idx n s 0) as [i|] eqn:E.
  - destruct (find_idx_sound _ _ _ _ E) as (j & b' & -> & Hj). cbn [N.add].
    apply OK_ret; [exact Hwf| |apply (V_node _ _ _ _ Hwf Hj)].
    unfold inb. assert (j < length s)%nat by (apply nth_error_Some; congruence). lia.
  - cbn [OK]. assert (Hv : V (s ++ [(n, b)]) (N.of_nat (length s)) = nval (tvals s) n).
    { unfold CKSym.V. rewrite tvals_snoc, Nat2N.id. cbn [fst]. rewrite app_nth2 by (rewrite tvals_length; lia).
      rewrite tvals_length, Nat.sub_diag. reflexivity. }
    split; [|split; [eexists; reflexivity|split; [unfold inb; rewrite app_length; cbn [length]; lia|exact Hv]]].
    intros i m c Hi. destruct (Nat.lt_ge_cases i (length s)) as [Hlt|Hge].
    + rewrite nth_error_app1 in Hi by exact Hlt. rewrite V_app by (rewrite Nat2N.id; exact Hlt). apply (Hwf i m c Hi).
    + assert (i = length s).
      { assert (i < length (s ++ [(n, b)]))%nat by (apply nth_error_Some; congruence). rewrite app_length in *. cbn [length] in *. lia. }
      subst i. rewrite nth_error_app2, Nat.sub_diag in Hi by lia. cbn in Hi. inversion Hi; subst m c.
      rewrite Hv. split; [exact Ha|exact Hb].
Qed.

End Tables.

(* ---------------------------------------------------------------- word lemmas *)

Lemma ror_rol k x r s : r + s = k -> ror k x r = rol k x s.
Proof. intros H. unfold ror, rol. replace (k - r) with s by lia. replace (k - s) with r by lia. rewrite N.lor_comm. reflexivity. Qed.

Lemma ror_from_shifts_xor k x r s :
  x < 2 ^ k -> r + s = k -> N.lxor (N.shiftr x r) (wrap k (N.shiftl x s)) = ror k x r.
Proof.
  intros Hx Hk. rewrite N.lxor_comm, (ror_rol k x r s Hk). apply rol_from_shifts_xor; [exact Hx|lia].
Qed.

Lemma wrap_add_l k a b : wrap k (wrap k a + b) = wrap k (a + b).
Proof. rewrite !wrap_mod. apply N.add_mod_idemp_l. apply N.pow_nonzero. discriminate. Qed.
Lemma wrap_add_r k a b : wrap k (a + wrap k b) = wrap k (a + b).
Proof. rewrite !wrap_mod. apply N.add_mod_idemp_r. apply N.pow_nonzero. discriminate. Qed.

Lemma shiftr_lt_sub x b k : x < 2 ^ b -> N.shiftr x k < 2 ^ (b - k).
Proof.
  intros Hx. apply lt_pow2_of_bits. intros j Hj. rewrite N.shiftr_spec by lia.
  apply (testbit_high x b); [exact Hx|lia].
Qed.

Lemma pow2_le_lt x a b : x < 2 ^ a -> a <= b -> x < 2 ^ b.
Proof. intros Hx Hab. apply N.lt_le_trans with (2 ^ a); [exact Hx|]. apply N.pow_le_mono_r; [discriminate|exact Hab]. Qed.

Lemma le_to_N_lt l : Forall (fun b => b < 2 ^ 8) l -> le_to_N l < 2 ^ (8 * N.of_nat (length l)).
Proof.
  induction 1 as [|b l Hb Hl IH]; [vm_compute; reflexivity|].
  change (le_to_N (b :: l)) with (N.lor b (N.shiftl (le_to_N l) 8)). cbn [length]. apply lor_lt.
  - apply (pow2_le_lt b 8); [exact Hb|lia].
  - replace (8 * N.of_nat (S (length l))) with (8 * N.of_nat (length l) + 8) by lia.
    rewrite N.shiftl_mul_pow2, N.pow_add_r. apply N.mul_lt_mono_pos_r; [|exact IH].
    apply N.neq_0_lt_0, N.pow_nonzero. discriminate.
Qed.

Lemma N_to_le_bytes n x : Forall (fun b => b < 2 ^ 8) (N_to_le n x).
Proof.
  revert x. induction n as [|n IH]; intro x; [constructor|].
  change (N_to_le (S n) x) with (N.land x 255 :: N_to_le n (N.shiftr x 8)). constructor; [|apply IH].
  change 255 with (N.ones 8). rewrite N.land_ones. apply N.mod_lt. discriminate.
Qed.

Lemma N_to_le_length n x : length (N_to_le n x) = n.
Proof.
  revert x. induction n as [|n IH]; intro x; [reflexivity|].
  change (N_to_le (S n) x) with (N.land x 255 :: N_to_le n (N.shiftr x 8)). cbn [length]. rewrite IH. reflexivity.
Qed.

Lemma bswap_lt w x : bswap w x < 2 ^ w.
Proof.
  unfold bswap.
  assert (H : Forall (fun b => b < 2 ^ 8) (rev (N_to_le (N.to_nat (w / 8)) x))).
  { apply Forall_rev, N_to_le_bytes. }
  apply le_to_N_lt in H. rewrite rev_length, N_to_le_length, N2Nat.id in H.
  apply (pow2_le_lt _ _ _ H). apply N.mul_div_le. discriminate.
Qed.

Lemma build_false n : build (fun _ => false) n = 0.
Proof. induction n as [|n IH]; cbn [build]; [reflexivity|exact IH]. Qed.

Lemma build_true w : build (fun _ => true) (N.to_nat w) = N.ones w.
Proof.
  apply N.bits_inj. intro i. rewrite build_spec, andb_true_r.
  destruct (N.ltb_spec i (N.of_nat (N.to_nat w))).
  - rewrite N.ones_spec_low by lia. reflexivity.
  - rewrite N.ones_spec_high by lia. reflexivity.
Qed.

Lemma build_bop o F G w :
  bop_N o (build F (N.to_nat w)) (build G (N.to_nat w)) = build (fun i => bop_b o (F i) (G i)) (N.to_nat w).
Proof.
  apply N.bits_inj. intro i. rewrite build_spec.
  destruct o; cbn [bop_N bop_b]; rewrite ?N.land_spec, ?N.lor_spec, ?N.lxor_spec, !build_spec;
    destruct (i <? N.of_nat (N.to_nat w)); cbn [andb]; reflexivity.
Qed.

Lemma build_not F w :
  N.lxor (build F (N.to_nat w)) (N.ones w) = build (fun i => negb (F i)) (N.to_nat w).
Proof.
  apply N.bits_inj. intro i. rewrite N.lxor_spec, !build_spec.
  destruct (N.ltb_spec i (N.of_nat (N.to_nat w))).
  - rewrite N.ones_spec_low by lia. cbn [andb]. destruct (F i); reflexivity.
  - rewrite N.ones_spec_high by lia. reflexivity.
Qed.

(* ---------------------------------------------------------------- smart constructors *)

Section Cons.
Variable rho : nat -> N.
Notation nval := (nval rho).
Notation tvals := (tvals rho).
Notation V := (V rho).
Notation wf := (wf rho).
Notation OK := (OK rho).

Lemma inb_nth s a : inb s a -> exists n b, nth_error s (N.to_nat a) = Some (n, b).
Proof.
  intros H. destruct (nth_error s (N.to_nat a)) as [[n b]|] eqn:E; [eauto|].
  apply nth_error_None in E. unfold inb in H. lia.
Qed.

Lemma V_bw s a : wf s -> inb s a -> V s a < 2 ^ bw s a.
Proof.
  intros Hwf Ha. destruct (inb_nth _ _ Ha) as (n & b & E). unfold bw. rewrite E. apply (V_lt _ _ _ _ _ Hwf E).
Qed.

Lemma V_le s a w : wf s -> inb s a -> (bw s a <=? w) = true -> V s a < 2 ^ w.
Proof. intros Hwf Ha Hb. apply N.leb_le in Hb. apply (pow2_le_lt _ _ _ (V_bw _ _ Hwf Ha) Hb). Qed.

Lemma node_of_nth s a n : node_of s a = Some n -> exists b, nth_error s (N.to_nat a) = Some (n, b).
Proof. unfold node_of. destruct (nth_error s (N.to_nat a)) as [[m b]|]; [|discriminate]. intros [= ->]. eauto. Qed.

Lemma node_of_V s a n : wf s -> node_of s a = Some n -> V s a = nval (tvals s) n.
Proof. intros Hwf H. destruct (node_of_nth _ _ _ H) as [b E]. apply (V_node' _ _ _ _ _ Hwf E). Qed.

Lemma node_of_args s a n : wf s -> node_of s a = Some n -> args_lt n (N.of_nat (length s)) = true.
Proof.
  intros Hwf H. destruct (node_of_nth _ _ _ H) as [b E].
  destruct (Hwf _ _ _ E) as [Ha _]. refine (args_lt_mono _ _ _ _ Ha).
  assert (N.to_nat a < length s)%nat by (apply nth_error_Some; congruence). lia.
Qed.

Lemma as_const_V s a c : wf s -> as_const s a = Some c -> V s a = c.
Proof.
  unfold as_const. intros Hwf H. destruct (node_of s a) as [[]|] eqn:E; try discriminate.
  inversion H; subst. apply (node_of_V _ _ _ Hwf E).
Qed.

Lemma mk_const_ok s c : wf s -> OK s (mk_const c s) c.
Proof. intros Hwf. apply (intern_ok rho s (NConst c) (N.size c) Hwf); [reflexivity|apply N.size_gt]. Qed.

(* linear forms *)
Lemma psum_pmerge v : forall l1 l2, psum v (pmerge l1 l2) = psum v l1 + psum v l2.
Proof.
  induction l1 as [|[a m] r1 IH]; intro l2; [destruct l2; reflexivity|].
  induction l2 as [|[b n] r2 IH2]; [cbn [pmerge psum]; lia|].
  change (pmerge ((a, m) :: r1) ((b, n) :: r2)) with
    (if b <? a then (a, m) :: pmerge r1 ((b, n) :: r2)
     else if a <? b then (b, n) :: pmerge ((a, m) :: r1) r2
     else (a, m + n) :: pmerge r1 r2).
  destruct (N.ltb_spec b a); [|destruct (N.ltb_spec a b)].
  - cbn [psum]. rewrite IH. cbn [psum]. lia.
  - cbn [psum] in *. rewrite IH2. lia.
  - assert (a = b) by lia. subst b. cbn [psum]. rewrite IH. lia.
Qed.

Lemma pmerge_forall (P : N * N -> bool) (HP : forall a m n, P (a, m) = P (a, n)) :
  forall l1 l2, forallb P l1 = true -> forallb P l2 = true -> forallb P (pmerge l1 l2) = true.
Proof.
  induction l1 as [|[a m] r1 IH]; intro l2; [destruct l2; auto|].
  induction l2 as [|[b n] r2 IH2]; intros H1 H2; [exact H1|].
  change (pmerge ((a, m) :: r1) ((b, n) :: r2)) with
    (if b <? a then (a, m) :: pmerge r1 ((b, n) :: r2)
     else if a <? b then (b, n) :: pmerge ((a, m) :: r1) r2
     else (a, m + n) :: pmerge r1 r2).
  pose proof H1 as H1'. pose proof H2 as H2'. cbn [forallb] in H1', H2'.
  apply andb_true_iff in H1' as [Ha Hr1]. apply andb_true_iff in H2' as [Hb Hr2].
  destruct (b <? a); [|destruct (a <? b)]; cbn [forallb].
  - rewrite Ha, IH by assumption. reflexivity.
  - rewrite Hb, IH2 by assumption. reflexivity.
  - rewrite (HP a (m + n) m), Ha, IH by assumption. reflexivity.
Qed.

Lemma sumform_ok s w a c l :
  wf s -> inb s a -> sumform s w a = (c, l) ->
  forallb (fun p : N * N => fst p <? N.of_nat (length s)) l = true /\ wrap w (V s a) = wrap w (c + psum (V s) l).
Proof.
  intros Hwf Ha. unfold sumform.
  assert (Hleaf : forallb (fun p : N * N => fst p <? N.of_nat (length s)) [(a, 1)] = true /\
                  wrap w (V s a) = wrap w (0 + psum (V s) [(a, 1)])).
  { split; [cbn [forallb fst]; unfold inb in Ha; apply N.ltb_lt in Ha; rewrite Ha; reflexivity|].
    cbn [psum]. f_equal. lia. }
  destruct (node_of s a) as [n|] eqn:E; [|intros [= <- <-]; exact Hleaf].
  destruct n; try (intros [= <- <-]; exact Hleaf).
  - intros [= <- <-]. rewrite (node_of_V _ _ _ Hwf E). cbn [CKSym.nval psum forallb]. split; [reflexivity|f_equal; lia].
  - destruct (N.eqb_spec w0 w) as [->|]; [|intros [= <- <-]; exact Hleaf].
    intros [= <- <-]. split; [apply (node_of_args _ _ _ Hwf E)|].
    rewrite (node_of_V _ _ _ Hwf E). cbn [CKSym.nval]. apply wrap_wrap.
Qed.

Lemma mk_add_ok s w a b : wf s -> inb s a -> inb s b -> OK s (mk_add w a b s) (wrap w (V s a + V s b)).
Proof.
  intros Hwf Ha Hb. unfold mk_add.
  destruct (sumform s w a) as [ca la] eqn:Ea. destruct (sumform s w b) as [cb lb] eqn:Eb.
  destruct (sumform_ok _ _ _ _ _ Hwf Ha Ea) as [Fa Va]. destruct (sumform_ok _ _ _ _ _ Hwf Hb Eb) as [Fb Vb].
  assert (Hv : wrap w (V s a + V s b) = wrap w (wrap w (ca + cb) + psum (V s) (pmerge la lb))).
  { rewrite <- wrap_add_l, <- wrap_add_r, Va, Vb, wrap_add_l, wrap_add_r, psum_pmerge.
    rewrite wrap_add_l. f_equal. lia. }
  assert (Hf : forallb (fun p : N * N => fst p <? N.of_nat (length s)) (pmerge la lb) = true)
    by (apply pmerge_forall; auto).
  rewrite Hv. clear Hv Va Vb.
  set (c := wrap w (ca + cb)) in *. set (l := pmerge la lb) in *.
  assert (Hgen : OK s (intern (NSum w c l) w s) (wrap w (c + psum (V s) l))).
  { apply (intern_ok rho s (NSum w c l) w Hwf); [exact Hf|apply wrap_lt]. }
  destruct l as [|[x m] [|p l']]; try exact Hgen.
  - cbn [psum]. replace (wrap w (c + 0)) with c by (rewrite N.add_0_r; unfold c; symmetry; apply wrap_wrap).
    apply mk_const_ok. exact Hwf.
  - destruct ((c =? 0) && (m =? 1) && (bw s x <=? w)) eqn:E; [|exact Hgen].
    apply andb_true_iff in E as [E E3]. apply andb_true_iff in E as [E1 E2].
    apply N.eqb_eq in E1. apply N.eqb_eq in E2.
    cbn [forallb fst] in Hf. apply andb_true_iff in Hf as [Hx _]. apply N.ltb_lt in Hx.
    apply OK_ret; [exact Hwf|exact Hx|].
    rewrite E1, E2. cbn [psum]. rewrite N.add_0_l, N.add_0_r, N.mul_1_l.
    symmetry. apply wrap_small. apply (V_le _ _ _ Hwf Hx E3).
Qed.

Lemma mk_sub_ok s w a b : wf s -> OK s (mk_sub w a b s) (wrap w (V s a + (2 ^ w - wrap w (V s b)))).
Proof.
  intros Hwf. unfold mk_sub. destruct (as_const s a) as [ca|] eqn:Ea; [|exact I].
  destruct (as_const s b) as [cb|] eqn:Eb; [|exact I].
  rewrite (as_const_V _ _ _ Hwf Ea), (as_const_V _ _ _ Hwf Eb). apply mk_const_ok. exact Hwf.
Qed.

Lemma mk_mul_ok s w a b : wf s -> inb s a -> inb s b -> OK s (mk_mul w a b s) (wrap w (V s a * V s b)).
Proof.
  intros Hwf Ha Hb. unfold mk_mul.
  assert (Hgen : OK s (intern (NMul w (N.min a b) (N.max a b)) w s) (wrap w (V s a * V s b))).
  { replace (wrap w (V s a * V s b)) with (nval (tvals s) (NMul w (N.min a b) (N.max a b))).
    - apply (intern_ok rho s _ w Hwf); [|apply wrap_lt].
      cbn [args_lt]. unfold inb in *. apply andb_true_iff. split; apply N.ltb_lt; lia.
    - cbn [CKSym.nval]. f_equal. destruct (N.le_ge_cases a b).
      + rewrite N.min_l, N.max_r by assumption. reflexivity.
      + rewrite N.min_r, N.max_l by assumption. apply N.mul_comm. }
  destruct (as_const s a) as [ca|] eqn:Ea; [|exact Hgen].
  destruct (as_const s b) as [cb|] eqn:Eb; [|exact Hgen].
  rewrite (as_const_V _ _ _ Hwf Ea), (as_const_V _ _ _ Hwf Eb). apply mk_const_ok. exact Hwf.
Qed.

Lemma mk_ror_ok s w r x : wf s -> inb s x -> OK s (mk_ror w r x s) (ror w (V s x) r).
Proof.
  intros Hwf Hx. unfold mk_ror. destruct ((bw s x <=? w) && (r <? w)); [|exact I].
  destruct (as_const s x) as [c|] eqn:Ec.
  - rewrite (as_const_V _ _ _ Hwf Ec). apply mk_const_ok. exact Hwf.
  - apply (intern_ok rho s (NRor w r x) w Hwf).
    + cbn [args_lt]. apply N.ltb_lt. exact Hx.
    + cbn [CKSym.nval]. unfold ror. apply wrap_lt.
Qed.

Lemma mk_rol_ok s w r x : wf s -> inb s x -> OK s (mk_rol w r x s) (rol w (V s x) r).
Proof.
  intros Hwf Hx. unfold mk_rol. destruct ((0 <? r) && (r <? w)) eqn:E; [|exact I].
  apply andb_true_iff in E as [E1 E2]. apply N.ltb_lt in E1. apply N.ltb_lt in E2.
  rewrite <- (ror_rol w (V s x) (w - r) r) by lia. apply mk_ror_ok; assumption.
Qed.

(* bitwise nodes *)
Definition bitval (s : tbl) (w : N) (f : bf) : N :=
  build (fun i => beval (fun x => N.testbit (V s x) i) f) (N.to_nat w).

Lemma intern_bit_ok s w f : wf s -> bf_lt f (N.of_nat (length s)) = true -> OK s (intern (NBit w f) w s) (bitval s w f).
Proof. intros Hwf Hf. apply (intern_ok rho s (NBit w f) w Hwf); [exact Hf|apply build_lt]. Qed.

Lemma mk_bitnode_ok s w f : wf s -> bf_lt f (N.of_nat (length s)) = true -> OK s (mk_bitnode w f s) (bitval s w f).
Proof.
  intros Hwf Hf. pose proof (intern_bit_ok s w f Hwf Hf) as Hgen. unfold mk_bitnode.
  destruct f as [[|]|x lo hi].
  - replace (bitval s w (BC true)) with (N.ones w); [apply mk_const_ok; exact Hwf|].
    unfold bitval. cbn [beval]. symmetry. apply build_true.
  - replace (bitval s w (BC false)) with 0; [apply mk_const_ok; exact Hwf|].
    unfold bitval. cbn [beval]. symmetry. apply build_false.
  - destruct lo as [[|]|]; try exact Hgen. destruct hi as [[|]|]; try exact Hgen.
    destruct (bw s x <=? w) eqn:E; [|exact Hgen].
    apply bf_lt_BN in Hf as (Hx & _ & _).
    apply OK_ret; [exact Hwf|exact Hx|]. unfold bitval. cbn [beval].
    rewrite (build_ext _ (N.testbit (V s x))) by (intro i; destruct (N.testbit (V s x) i); reflexivity).
    symmetry. apply build_id. apply (V_le _ _ _ Hwf Hx E).
Qed.

Lemma bfof_ok s w a :
  wf s -> inb s a -> (bw s a <=? w) = true ->
  bf_lt (bfof s w a) (N.of_nat (length s)) = true /\ V s a = bitval s w (bfof s w a).
Proof.
  intros Hwf Ha Hb.
  assert (Hleaf : bf_lt (bleaf a) (N.of_nat (length s)) = true /\ V s a = bitval s w (bleaf a)).
  { split; [apply bf_lt_BN_intro; [exact Ha|reflexivity|reflexivity]|].
    unfold bitval, bleaf. cbn [beval].
    rewrite (build_ext _ (N.testbit (V s a))) by (intro i; destruct (N.testbit (V s a) i); reflexivity).
    symmetry. apply build_id. apply (V_le _ _ _ Hwf Ha Hb). }
  unfold bfof. destruct (node_of s a) as [n|] eqn:E; [|exact Hleaf].
  destruct n; try exact Hleaf. destruct (N.eqb_spec w0 w) as [->|]; [|exact Hleaf].
  split; [apply (node_of_args _ _ _ Hwf E)|]. rewrite (node_of_V _ _ _ Hwf E). reflexivity.
Qed.

Lemma rot_pattern_ok s w a b r x :
  wf s -> rot_pattern s w a b = Some (r, x) ->
  inb s x /\ N.lxor (V s a) (V s b) = ror w (V s x) r /\ N.lor (V s a) (V s b) = ror w (V s x) r.
Proof.
  intros Hwf. unfold rot_pattern.
  destruct (node_of s a) as [[]|] eqn:Ea; try discriminate.
  destruct (node_of s b) as [[]|] eqn:Eb; try discriminate.
  match goal with |- (if ?c then _ else _) = _ -> _ => destruct c eqn:E; [|discriminate] end.
  intros [= <- <-].
  repeat match goal with H : _ && _ = true |- _ => apply andb_true_iff in H as [? ?] end.
  repeat match goal with H : N.eqb _ _ = true |- _ => apply N.eqb_eq in H end.
  repeat match goal with H : N.ltb _ _ = true |- _ => apply N.ltb_lt in H end.
  subst.
  match goal with |- inb s ?x /\ _ = ror ?ww _ _ /\ _ =>
    assert (Hx : inb s x);
    [pose proof (node_of_args _ _ _ Hwf Ea) as Hargs; cbn [args_lt] in Hargs; apply N.ltb_lt in Hargs; exact Hargs|];
    split; [exact Hx|];
    rewrite (node_of_V _ _ _ Hwf Ea), (node_of_V _ _ _ Hwf Eb); cbn [CKSym.nval];
    fold (V s x);
    assert (Hv : V s x < 2 ^ ww) by (apply (V_le _ _ _ Hwf Hx); assumption)
  end.
  split; [apply ror_from_shifts_xor|apply ror_from_shifts]; first [assumption|reflexivity].
Qed.

(* ---- xor linear forms ---- *)

Lemma lxor_cancel x A B : N.lxor (N.lxor x A) (N.lxor x B) = N.lxor A B.
Proof. apply N.bits_inj; intro i; rewrite !N.lxor_spec; destruct (N.testbit x i), (N.testbit A i), (N.testbit B i); reflexivity. Qed.
Lemma lxor_r x A B : N.lxor A (N.lxor x B) = N.lxor x (N.lxor A B).
Proof. apply N.bits_inj; intro i; rewrite !N.lxor_spec; destruct (N.testbit x i), (N.testbit A i), (N.testbit B i); reflexivity. Qed.
Lemma lxor4 a A b B : N.lxor (N.lxor a A) (N.lxor b B) = N.lxor (N.lxor a b) (N.lxor A B).
Proof.
  apply N.bits_inj; intro i; rewrite !N.lxor_spec.
  destruct (N.testbit a i), (N.testbit A i), (N.testbit b i), (N.testbit B i); reflexivity.
Qed.

Lemma xmerge_ok v : forall l1 l2, xfold v (xmerge l1 l2) = N.lxor (xfold v l1) (xfold v l2).
Proof.
  induction l1 as [|a r1 IH]; intro l2; [destruct l2; cbn [xmerge xfold]; rewrite ?N.lxor_0_l; reflexivity|].
  induction l2 as [|b r2 IH2]; [cbn [xmerge xfold]; rewrite N.lxor_0_r; reflexivity|].
  change (xmerge (a :: r1) (b :: r2)) with
    (if b <? a then a :: xmerge r1 (b :: r2) else if a <? b then b :: xmerge (a :: r1) r2 else xmerge r1 r2).
  destruct (N.ltb_spec b a); [|destruct (N.ltb_spec a b)].
  - cbn [xfold]. rewrite IH. cbn [xfold]. symmetry. apply N.lxor_assoc.
  - cbn [xfold] in *. rewrite IH2. rewrite (lxor_r (v b)). reflexivity.
  - assert (a = b) by lia. subst b. rewrite IH. cbn [xfold]. symmetry. apply lxor_cancel.
Qed.

Lemma xmerge_forall (P : N -> bool) : forall l1 l2, forallb P l1 = true -> forallb P l2 = true -> forallb P (xmerge l1 l2) = true.
Proof.
  induction l1 as [|a r1 IH]; intro l2; [destruct l2; auto|].
  induction l2 as [|b r2 IH2]; intros H1 H2; [exact H1|].
  change (xmerge (a :: r1) (b :: r2)) with
    (if b <? a then a :: xmerge r1 (b :: r2) else if a <? b then b :: xmerge (a :: r1) r2 else xmerge r1 r2).
  pose proof H1 as H1'. pose proof H2 as H2'. cbn [forallb] in H1', H2'.
  apply andb_true_iff in H1' as [Ha Hr1]. apply andb_true_iff in H2' as [Hb Hr2].
  destruct (b <? a); [|destruct (a <? b)]; cbn [forallb].
  - rewrite Ha, IH by assumption. reflexivity.
  - rewrite Hb, IH2 by assumption. reflexivity.
  - apply IH; assumption.
Qed.

Lemma xfold_app v a b : xfold v (a ++ b) = N.lxor (xfold v a) (xfold v b).
Proof. induction a as [|x a IH]; cbn [app xfold]; [rewrite N.lxor_0_l; reflexivity|]. rewrite IH. symmetry. apply N.lxor_assoc. Qed.
Lemma xfold_rev v l : xfold v (rev l) = xfold v l.
Proof.
  induction l as [|x l IH]; [reflexivity|]. cbn [rev]. rewrite xfold_app, IH. cbn [xfold].
  rewrite N.lxor_0_r. apply N.lxor_comm.
Qed.
Lemma fold_lxor_xfold v : forall l c, fold_left (fun acc x => N.lxor acc (v x)) l c = N.lxor c (xfold v l).
Proof.
  induction l as [|x l IH]; intro c; cbn [fold_left xfold]; [rewrite N.lxor_0_r; reflexivity|].
  rewrite IH. apply N.lxor_assoc.
Qed.

Lemma bleaf_eval b x : beval b (bleaf x) = b x.
Proof. unfold bleaf. cbn [beval]. destruct (b x); reflexivity. Qed.

Lemma bxor_chain_eval b : forall sup f,
  beval b (fold_left (fun acc x => bapply xorb acc (bleaf x)) sup f) = fold_left (fun acc x => xorb acc (b x)) sup (beval b f).
Proof.
  induction sup as [|x sup IH]; intro f; cbn [fold_left]; [reflexivity|].
  rewrite IH, bapply_eval, bleaf_eval. reflexivity.
Qed.

Lemma bsupport_lt f k : bf_lt f k = true -> forallb (fun x => x <? k) (bsupport f) = true.
Proof.
  induction f as [c|x l IHl h IHh]; [reflexivity|]. intros E. apply bf_lt_BN in E as (E1 & E2 & E3).
  cbn [bsupport forallb]. apply N.ltb_lt in E1. rewrite E1, IHl by assumption. reflexivity.
Qed.

Lemma build_xor_chain (v : N -> N) w : forall sup (F : N -> bool),
  Forall (fun x => v x < 2 ^ w) sup ->
  build (fun i => fold_left (fun acc x => xorb acc (N.testbit (v x) i)) sup (F i)) (N.to_nat w) =
  fold_left (fun acc x => N.lxor acc (v x)) sup (build F (N.to_nat w)).
Proof.
  induction sup as [|x sup IH]; intros F Hs; cbn [fold_left]; [reflexivity|].
  inversion Hs; subst. rewrite (IH (fun i => xorb (F i) (N.testbit (v x) i))) by assumption. f_equal.
  transitivity (N.lxor (build F (N.to_nat w)) (build (N.testbit (v x)) (N.to_nat w)));
    [symmetry; apply (build_bop OXor)|f_equal; apply build_id; assumption].
Qed.

Lemma bleaf_ok s w a : wf s -> inb s a -> (bw s a <=? w) = true ->
  bf_lt (bleaf a) (N.of_nat (length s)) = true /\ V s a = bitval s w (bleaf a).
Proof.
  intros Hwf Ha Hb. split; [apply bf_lt_BN_intro; [exact Ha|reflexivity|reflexivity]|].
  unfold bitval. rewrite (build_ext _ (N.testbit (V s a))) by (intro i; exact (bleaf_eval (fun x => N.testbit (V s x) i) a)).
  symmetry. apply build_id. apply (V_le _ _ _ Hwf Ha Hb).
Qed.

Lemma bfof_small_ok s w a :
  wf s -> inb s a -> (bw s a <=? w) = true ->
  bf_lt (bfof_small s w a) (N.of_nat (length s)) = true /\ V s a = bitval s w (bfof_small s w a).
Proof.
  intros Hwf Ha Hb. unfold bfof_small. destruct (Nat.leb (bleaves (bfof s w a)) KLEAVES);
    [apply bfof_ok|apply bleaf_ok]; assumption.
Qed.

Lemma xorform_ok s w a c l :
  wf s -> inb s a -> (bw s a <=? w) = true -> xorform s w a = (c, l) ->
  forallb (fun x => x <? N.of_nat (length s)) l = true /\ V s a = N.lxor c (xfold (V s) l).
Proof.
  intros Hwf Ha Hb. unfold xorform.
  assert (Hleaf : forallb (fun x => x <? N.of_nat (length s)) [a] = true /\ V s a = N.lxor 0 (xfold (V s) [a])).
  { split; [cbn [forallb]; unfold inb in Ha; apply N.ltb_lt in Ha; rewrite Ha; reflexivity|].
    cbn [xfold]. rewrite N.lxor_0_l, N.lxor_0_r. reflexivity. }
  destruct (node_of s a) as [n|] eqn:E; [|intros [= <- <-]; exact Hleaf].
  destruct n; try (intros [= <- <-]; exact Hleaf).
  - intros [= <- <-]. rewrite (node_of_V _ _ _ Hwf E). cbn [CKSym.nval xfold forallb]. split; [reflexivity|]. rewrite N.lxor_0_r. reflexivity.
  - destruct (N.eqb_spec w0 w) as [->|]; [|intros [= <- <-]; exact Hleaf].
    destruct (bf_pure_xor f) as [[k sup]|] eqn:Ep; [|intros [= <- <-]; exact Hleaf].
    destruct (forallb (fun x => bw s x <=? w) sup) eqn:Eb; [|intros [= <- <-]; exact Hleaf].
    intros [= <- <-].
    unfold bf_pure_xor in Ep. destruct (bf_eqb f (bxor_of (bconst0 f) (bsupport f))) eqn:Eq; [|discriminate].
    apply bf_eqb_eq in Eq. inversion Ep; subst k sup. clear Ep.
    pose proof (node_of_args _ _ _ Hwf E) as Hargs. cbn [args_lt] in Hargs.
    pose proof (bsupport_lt _ _ Hargs) as Hsup.
    assert (Hin : forall x, In x (bsupport f) -> inb s x /\ V s x < 2 ^ w).
    { intros x Hx. rewrite forallb_forall in Hsup, Eb. pose proof (Hsup x Hx) as H1. apply N.ltb_lt in H1.
      split; [exact H1|]. apply (V_le _ _ _ Hwf H1). apply Eb. apply in_rev in Hx. exact Hx. }
    split.
    + apply forallb_forall. intros x Hx. apply in_rev in Hx. apply N.ltb_lt. apply (Hin x Hx).
    + rewrite (node_of_V _ _ _ Hwf E). cbn [CKSym.nval]. fold (V s).
      rewrite (build_ext _ (fun i => fold_left (fun acc x => xorb acc (N.testbit (V s x) i)) (bsupport f) (bconst0 f))).
      2:{ intro i. rewrite Eq at 1. unfold bxor_of. rewrite bxor_chain_eval. reflexivity. }
      rewrite (build_xor_chain (V s) w (bsupport f) (fun _ => bconst0 f)).
      2:{ apply Forall_forall. intros x Hx. apply (Hin x Hx). }
      rewrite fold_lxor_xfold, xfold_rev. f_equal.
      destruct (bconst0 f); [apply build_true|apply build_false].
  - destruct (N.eqb_spec w0 w) as [->|]; [|intros [= <- <-]; exact Hleaf].
    intros [= <- <-]. split; [apply (node_of_args _ _ _ Hwf E)|].
    rewrite (node_of_V _ _ _ Hwf E). reflexivity.
Qed.

Lemma mk_xorform_ok s w a b :
  wf s -> inb s a -> inb s b -> (bw s a <=? w) = true -> (bw s b <=? w) = true ->
  OK s (mk_xorform w a b s) (N.lxor (V s a) (V s b)).
Proof.
  intros Hwf Ha Hb Ea Eb. unfold mk_xorform.
  destruct (xorform s w a) as [ca la] eqn:Xa. destruct (xorform s w b) as [cb lb] eqn:Xb.
  destruct (xorform_ok _ _ _ _ _ Hwf Ha Ea Xa) as [Fa Va]. destruct (xorform_ok _ _ _ _ _ Hwf Hb Eb Xb) as [Fb Vb].
  assert (Hv : N.lxor (V s a) (V s b) = N.lxor (N.lxor ca cb) (xfold (V s) (xmerge la lb))).
  { rewrite Va, Vb, xmerge_ok. apply lxor4. }
  assert (Hlt : N.lxor (V s a) (V s b) < 2 ^ w) by (apply lxor_lt; apply (V_le _ _ _ Hwf); assumption).
  assert (Hf : forallb (fun x => x <? N.of_nat (length s)) (xmerge la lb) = true) by (apply xmerge_forall; assumption).
  rewrite Hv in *. clear Hv Va Vb.
  destruct (xmerge la lb) as [|x l'] eqn:El.
  - cbn [xfold]. rewrite N.lxor_0_r. apply mk_const_ok. exact Hwf.
  - apply (intern_ok rho s (NXor w (N.lxor ca cb) (x :: l')) w Hwf); [exact Hf|exact Hlt].
Qed.

Lemma mk_bit2_ok s o w a b : wf s -> inb s a -> inb s b -> OK s (mk_bit2 o w a b s) (bop_N o (V s a) (V s b)).
Proof.
  intros Hwf Ha Hb. unfold mk_bit2.
  destruct ((bw s a <=? w) && (bw s b <=? w)) eqn:E; [|exact I].
  apply andb_true_iff in E as [Ea Eb].
  assert (Hbdd : OK s (mk_bitnode w (bapply (bop_b o) (bfof_small s w a) (bfof_small s w b)) s) (bop_N o (V s a) (V s b))).
  { destruct (bfof_small_ok s w a Hwf Ha Ea) as [Fa Va]. destruct (bfof_small_ok s w b Hwf Hb Eb) as [Fb Vb].
    replace (bop_N o (V s a) (V s b)) with (bitval s w (bapply (bop_b o) (bfof_small s w a) (bfof_small s w b))).
    - apply mk_bitnode_ok; [exact Hwf|apply bapply_lt; assumption].
    - rewrite Va, Vb. unfold bitval. rewrite build_bop. apply build_ext.
      intro i. apply bapply_eval. }
  assert (Hfin : OK s (match o with
                       | OXor => if Nat.leb (bleaves (bapply (bop_b o) (bfof_small s w a) (bfof_small s w b))) KLEAVES
                                 then mk_bitnode w (bapply (bop_b o) (bfof_small s w a) (bfof_small s w b)) s
                                 else mk_xorform w a b s
                       | _ => mk_bitnode w (bapply (bop_b o) (bfof_small s w a) (bfof_small s w b)) s
                       end) (bop_N o (V s a) (V s b))).
  { destruct o; try exact Hbdd.
    destruct (Nat.leb (bleaves (bapply (bop_b OXor) (bfof_small s w a) (bfof_small s w b))) KLEAVES); [exact Hbdd|].
    apply mk_xorform_ok; assumption. }
  destruct (as_const s a) as [ca|] eqn:Ca.
  - destruct (as_const s b) as [cb|] eqn:Cb.
    + rewrite (as_const_V _ _ _ Hwf Ca), (as_const_V _ _ _ Hwf Cb). apply mk_const_ok. exact Hwf.
    + destruct o; try exact Hfin;
        (destruct (rot_pattern s w a b) as [[r x]|] eqn:R;
         [destruct (rot_pattern_ok _ _ _ _ _ _ Hwf R) as (Hx & Hxor & Hor); cbn [bop_N]; rewrite ?Hxor, ?Hor; apply mk_ror_ok; assumption|];
         destruct (rot_pattern s w b a) as [[r x]|] eqn:R';
         [destruct (rot_pattern_ok _ _ _ _ _ _ Hwf R') as (Hx & Hxor & Hor); cbn [bop_N];
          rewrite 1?N.lxor_comm, 1?N.lor_comm; rewrite ?Hxor, ?Hor; apply mk_ror_ok; assumption|exact Hfin]).
  - destruct o; try exact Hfin;
        (destruct (rot_pattern s w a b) as [[r x]|] eqn:R;
         [destruct (rot_pattern_ok _ _ _ _ _ _ Hwf R) as (Hx & Hxor & Hor); cbn [bop_N]; rewrite ?Hxor, ?Hor; apply mk_ror_ok; assumption|];
         destruct (rot_pattern s w b a) as [[r x]|] eqn:R';
         [destruct (rot_pattern_ok _ _ _ _ _ _ Hwf R') as (Hx & Hxor & Hor); cbn [bop_N];
          rewrite 1?N.lxor_comm, 1?N.lor_comm; rewrite ?Hxor, ?Hor; apply mk_ror_ok; assumption|exact Hfin]).
Qed.

Lemma mk_not_ok s w a : wf s -> inb s a -> OK s (mk_not w a s) (N.lxor (wrap w (V s a)) (N.ones w)).
Proof.
  intros Hwf Ha. unfold mk_not. destruct (bw s a <=? w) eqn:E; [|exact I].
  destruct (as_const s a) as [c|] eqn:Ec.
  - rewrite (as_const_V _ _ _ Hwf Ec). apply mk_const_ok. exact Hwf.
  - destruct (bfof_ok s w a Hwf Ha E) as [Fa Va].
    replace (N.lxor (wrap w (V s a)) (N.ones w)) with (bitval s w (bnot (bfof s w a))).
    + apply mk_bitnode_ok; [exact Hwf|apply bnot_lt; exact Fa].
    + rewrite (wrap_small w (V s a)) by (apply (V_le _ _ _ Hwf Ha E)).
      rewrite Va. unfold bitval. rewrite build_not. apply build_ext. intro i. apply bnot_eval.
Qed.

Lemma mk_shl_ok s w k a : wf s -> inb s a -> OK s (mk_shl w k a s) (wrap w (N.shiftl (V s a) k)).
Proof.
  intros Hwf Ha. unfold mk_shl. destruct (as_const s a) as [c|] eqn:Ec.
  - rewrite (as_const_V _ _ _ Hwf Ec). apply mk_const_ok. exact Hwf.
  - apply (intern_ok rho s (NShl w k a) w Hwf); [cbn [args_lt]; apply N.ltb_lt; exact Ha|apply wrap_lt].
Qed.

Lemma mk_shr_ok s k a : wf s -> inb s a -> OK s (mk_shr k a s) (N.shiftr (V s a) k).
Proof.
  intros Hwf Ha. unfold mk_shr. destruct (as_const s a) as [c|] eqn:Ec.
  - rewrite (as_const_V _ _ _ Hwf Ec). apply mk_const_ok. exact Hwf.
  - destruct (N.eqb_spec k 0) as [->|].
    + apply OK_ret; [exact Hwf|exact Ha|]. symmetry. apply N.shiftr_0_r.
    + apply (intern_ok rho s (NShr k a) (bw s a - k) Hwf); [cbn [args_lt]; apply N.ltb_lt; exact Ha|].
      cbn [CKSym.nval]. apply shiftr_lt_sub. apply (V_bw _ _ Hwf Ha).
Qed.

Lemma mk_bswap_ok s w a : wf s -> inb s a -> OK s (mk_bswap w a s) (bswap w (V s a)).
Proof.
  intros Hwf Ha. unfold mk_bswap. destruct (as_const s a) as [c|] eqn:Ec.
  - rewrite (as_const_V _ _ _ Hwf Ec). apply mk_const_ok. exact Hwf.
  - apply (intern_ok rho s (NBswap w a) w Hwf); [cbn [args_lt]; apply N.ltb_lt; exact Ha|apply bswap_lt].
Qed.

Lemma mk_cast_ok s w a : wf s -> inb s a -> OK s (mk_cast w a s) (wrap w (V s a)).
Proof.
  intros Hwf Ha. unfold mk_cast. destruct (bw s a <=? w) eqn:E.
  - apply OK_ret; [exact Hwf|exact Ha|]. symmetry. apply wrap_small. apply (V_le _ _ _ Hwf Ha E).
  - destruct (as_const s a) as [c|] eqn:Ec.
    + rewrite (as_const_V _ _ _ Hwf Ec). apply mk_const_ok. exact Hwf.
    + apply (intern_ok rho s (NCast w a) w Hwf); [cbn [args_lt]; apply N.ltb_lt; exact Ha|apply wrap_lt].
Qed.

(* a result that must equal an optional value of the concrete semantics *)
Definition OK2 (s : tbl) (r : option (N * tbl)) (ov : option N) : Prop :=
  match r with
  | None => True
  | Some (i, s') => wf s' /\ ext s s' /\ inb s' i /\ ov = Some (V s' i)
  end.

Lemma OK_OK2 s r v : OK s r v -> OK2 s r (Some v).
Proof. destruct r as [[i s']|]; [|trivial]. cbn. intros (? & ? & ? & <-). auto. Qed.

Lemma mk_binop_ok s op w a b :
  wf s -> inb s a -> inb s b -> OK2 s (mk_binop op w a b s) (binop_eval op w (V s a) (V s b)).
Proof.
  intros Hwf Ha Hb. destruct op; cbn [mk_binop binop_eval].
  - apply OK_OK2, mk_add_ok; assumption.
  - apply OK_OK2, mk_sub_ok; assumption.
  - apply OK_OK2, mk_mul_ok; assumption.
  - apply OK_OK2, (mk_bit2_ok s OAnd); assumption.
  - apply OK_OK2, (mk_bit2_ok s OOr); assumption.
  - apply OK_OK2, (mk_bit2_ok s OXor); assumption.
  - destruct (as_const s b) as [c|] eqn:Ec; [|exact I]. rewrite (as_const_V _ _ _ Hwf Ec).
    destruct (c <? w); [|exact I]. apply OK_OK2, mk_shl_ok; assumption.
  - destruct (as_const s b) as [c|] eqn:Ec; [|exact I]. rewrite (as_const_V _ _ _ Hwf Ec).
    destruct (c <? w); [|exact I]. apply OK_OK2, mk_shr_ok; assumption.
  - destruct (as_const s a) as [x|] eqn:Ex; [|exact I]. destruct (as_const s b) as [y|] eqn:Ey; [|exact I].
    rewrite (as_const_V _ _ _ Hwf Ex), (as_const_V _ _ _ Hwf Ey). destruct (y =? 0); [exact I|].
    apply OK_OK2, mk_const_ok. exact Hwf.
  - destruct (as_const s a) as [x|] eqn:Ex; [|exact I]. destruct (as_const s b) as [y|] eqn:Ey; [|exact I].
    rewrite (as_const_V _ _ _ Hwf Ex), (as_const_V _ _ _ Hwf Ey). destruct (y =? 0); [exact I|].
    apply OK_OK2, mk_const_ok. exact Hwf.
Qed.

End Cons.

(* ---------------------------------------------------------------- the symbolic interpreter *)

Section Interp.
Variable rho : nat -> N.
Notation tvals := (tvals rho).
Notation V := (V rho).
Notation wf := (wf rho).
Notation OK := (OK rho).
Notation OK2 := (OK2 rho).

Definition sst_ok (s : tbl) (st : sstate) : Prop :=
  Forall (fun o : option N => match o with Some i => inb s i | None => True end) (sv st) /\
  Forall (fun p : N * list N => Forall (inb s) (snd p)) (so st).

Lemma sst_ok_ext s s' st : ext s s' -> sst_ok s st -> sst_ok s' st.
Proof.
  intros He [H1 H2]. split.
  - eapply Forall_impl; [|exact H1]. intros [i|]; [apply (ext_inb _ _ _ He)|trivial].
  - eapply Forall_impl; [|exact H2]. intros p Hp. eapply Forall_impl; [|exact Hp]. intro i. apply (ext_inb _ _ _ He).
Qed.

Lemma conc_ext s s' st : ext s s' -> sst_ok s st -> conc (tvals s') st = conc (tvals s) st.
Proof.
  intros He [H1 H2]. unfold conc. f_equal.
  - apply map_ext_in. intros [i|] Hi; [|reflexivity]. cbn [option_map]. f_equal.
    rewrite Forall_forall in H1. apply (ext_V rho _ _ _ He (H1 _ Hi)).
  - apply map_ext_in. intros [cw cells] Hp. cbn [fst snd]. f_equal.
    apply map_ext_in. intros i Hi. rewrite Forall_forall in H2. pose proof (H2 _ Hp) as Hc. cbn [snd] in Hc.
    rewrite Forall_forall in Hc. apply (ext_V rho _ _ _ He (Hc _ Hi)).
Qed.

Lemma get_var_conc vs st x :
  get_var (conc vs st) x = match nth_error (sv st) x with Some (Some i) => Some (nth (N.to_nat i) vs 0) | _ => None end.
Proof.
  unfold get_var, conc. cbn [st_vars]. rewrite nth_error_map.
  destruct (nth_error (sv st) x) as [[i|]|]; reflexivity.
Qed.

Lemma st_load_conc vs st o cw cells c :
  nth_error (so st) o = Some (cw, cells) ->
  st_load (conc vs st) o cw c =
  if c <? N.of_nat (length cells) then option_map (fun i : N => nth (N.to_nat i) vs 0) (nth_error cells (N.to_nat c)) else None.
Proof.
  intros H. unfold st_load, conc. cbn [st_objs]. rewrite nth_error_map, H. cbn [option_map fst snd].
  unfold obj_load, mkobj. cbn [o_cw o_cells]. rewrite N.eqb_refl, map_length, nth_error_map. reflexivity.
Qed.

Lemma sst_var_inb s st x i : sst_ok s st -> nth_error (sv st) x = Some (Some i) -> inb s i.
Proof. intros [H _] Hx. rewrite Forall_forall in H. apply (H _ (nth_error_In _ _ Hx)). Qed.

Lemma sst_cell_inb s st o cw cells k j :
  sst_ok s st -> nth_error (so st) o = Some (cw, cells) -> nth_error cells k = Some j -> inb s j.
Proof.
  intros [_ H] Ho Hk. rewrite Forall_forall in H. pose proof (H _ (nth_error_In _ _ Ho)) as Hc. cbn [snd] in Hc.
  rewrite Forall_forall in Hc. apply (Hc _ (nth_error_In _ _ Hk)).
Qed.

Ltac ok2_intro H i s1 Hwf1 He1 Hi1 Hv1 :=
  match type of H with
  | CKSymFacts.OK2 _ _ ?r _ => destruct r as [[i s1]|]; [destruct H as (Hwf1 & He1 & Hi1 & Hv1)|exact I]
  end.

Lemma seval_ok e : forall st s, wf s -> sst_ok s st -> OK2 s (seval st e s) (eval (conc (tvals s) st) e).
Proof.
  induction e as [c|x|o aw idx IH|op w a IHa b IHb|w a IH|w a IH|w a IH|c a IHa b IHb|a IH]; intros st s Hwf Hst; cbn [seval eval].
  - apply OK_OK2, mk_const_ok. exact Hwf.
  - rewrite get_var_conc. destruct (nth_error (sv st) x) as [[i|]|] eqn:E; try exact I.
    cbn. split; [exact Hwf|split; [apply ext_refl|split; [apply (sst_var_inb _ _ _ _ Hst E)|reflexivity]]].
  - unfold bind. pose proof (IH st s Hwf Hst) as H. ok2_intro H i s1 Hwf1 He1 Hi1 Hv1.
    rewrite Hv1. destruct (as_const s1 i) as [c|] eqn:Ec; [|exact I].
    destruct (nth_error (so st) o) as [[cw cells]|] eqn:Eo; [|exact I].
    destruct ((aw =? cw) && (c <? N.of_nat (length cells))) eqn:Ea; [|exact I].
    destruct (nth_error cells (N.to_nat c)) as [j|] eqn:Ej; [|exact I].
    apply andb_true_iff in Ea as [Ea1 Ea2]. apply N.eqb_eq in Ea1. subst cw.
    cbn. split; [exact Hwf1|split; [exact He1|split]].
    + apply (ext_inb _ _ _ He1). apply (sst_cell_inb _ _ _ _ _ _ _ Hst Eo Ej).
    + rewrite (as_const_V rho _ _ _ Hwf1 Ec). rewrite <- (conc_ext _ _ _ He1 Hst).
      rewrite (st_load_conc _ _ _ _ _ _ Eo), Ea2, Ej. reflexivity.
  - unfold bind. pose proof (IHa st s Hwf Hst) as H. ok2_intro H x s1 Hwf1 He1 Hx1 Hv1.
    pose proof (IHb st s1 Hwf1 (sst_ok_ext _ _ _ He1 Hst)) as H. ok2_intro H y s2 Hwf2 He2 Hy2 Hv2.
    rewrite (conc_ext _ _ _ He1 Hst) in Hv2. rewrite Hv1, Hv2.
    pose proof (mk_binop_ok rho s2 op w x y Hwf2 (ext_inb _ _ _ He2 Hx1) Hy2) as H.
    rewrite (ext_V rho _ _ _ He2 Hx1) in H.
    ok2_intro H z s3 Hwf3 He3 Hz3 Hv3.
    cbn. split; [exact Hwf3|split; [eauto using ext_trans|split; [exact Hz3|exact Hv3]]].
  - unfold bind. pose proof (IH st s Hwf Hst) as H. ok2_intro H x s1 Hwf1 He1 Hx1 Hv1. rewrite Hv1.
    pose proof (OK_OK2 rho _ _ _ (mk_not_ok rho s1 w x Hwf1 Hx1)) as H. ok2_intro H z s3 Hwf3 He3 Hz3 Hv3.
    cbn. split; [exact Hwf3|split; [eauto using ext_trans|split; [exact Hz3|exact Hv3]]].
  - unfold bind. pose proof (IH st s Hwf Hst) as H. ok2_intro H x s1 Hwf1 He1 Hx1 Hv1. rewrite Hv1.
    pose proof (OK_OK2 rho _ _ _ (mk_cast_ok rho s1 w x Hwf1 Hx1)) as H. ok2_intro H z s3 Hwf3 He3 Hz3 Hv3.
    cbn. split; [exact Hwf3|split; [eauto using ext_trans|split; [exact Hz3|exact Hv3]]].
  - unfold bind. pose proof (IH st s Hwf Hst) as H. ok2_intro H x s1 Hwf1 He1 Hx1 Hv1. rewrite Hv1.
    pose proof (OK_OK2 rho _ _ _ (mk_bswap_ok rho s1 w x Hwf1 Hx1)) as H. ok2_intro H z s3 Hwf3 He3 Hz3 Hv3.
    cbn. split; [exact Hwf3|split; [eauto using ext_trans|split; [exact Hz3|exact Hv3]]].
  - unfold bind. pose proof (IHa st s Hwf Hst) as H. ok2_intro H x s1 Hwf1 He1 Hx1 Hv1.
    pose proof (IHb st s1 Hwf1 (sst_ok_ext _ _ _ He1 Hst)) as H. ok2_intro H y s2 Hwf2 He2 Hy2 Hv2.
    rewrite (conc_ext _ _ _ He1 Hst) in Hv2. rewrite Hv1, Hv2.
    destruct (as_const s2 x) as [cx|] eqn:Ex; [|exact I]. destruct (as_const s2 y) as [cy|] eqn:Ey; [|exact I].
    rewrite <- (ext_V rho _ _ _ He2 Hx1), (as_const_V rho _ _ _ Hwf2 Ex), (as_const_V rho _ _ _ Hwf2 Ey).
    pose proof (OK_OK2 rho _ _ _ (mk_const_ok rho s2 (cmp_eval c cx cy) Hwf2)) as H. ok2_intro H z s3 Hwf3 He3 Hz3 Hv3.
    cbn. split; [exact Hwf3|split; [eauto using ext_trans|split; [exact Hz3|exact Hv3]]].
  - unfold bind. pose proof (IH st s Hwf Hst) as H. ok2_intro H x s1 Hwf1 He1 Hx1 Hv1. rewrite Hv1.
    destruct (as_const s1 x) as [cx|] eqn:Ex; [|exact I]. rewrite (as_const_V rho _ _ _ Hwf1 Ex).
    pose proof (OK_OK2 rho _ _ _ (mk_const_ok rho s1 (if cx =? 0 then 1 else 0) Hwf1)) as H. ok2_intro H z s3 Hwf3 He3 Hz3 Hv3.
    cbn. split; [exact Hwf3|split; [eauto using ext_trans|split; [exact Hz3|exact Hv3]]].
Qed.

Lemma map_upd {A B} (f : A -> B) k x (l : list A) : map f (upd k x l) = upd k (f x) (map f l).
Proof. revert k. induction l as [|a l IH]; intros [|k]; cbn [upd map]; try reflexivity. rewrite IH. reflexivity. Qed.

Lemma Forall_upd {A} (P : A -> Prop) k x (l : list A) : P x -> Forall P l -> Forall P (upd k x l).
Proof.
  intros Hx. revert k. induction l as [|a l IH]; intros k H; [destruct k; constructor|].
  inversion H; subst. destruct k; cbn [upd]; constructor; auto.
Qed.

Definition SOK (s : tbl) (r : option (sstate * tbl)) (fuel : nat) (ss : list stmt) (st : sstate) : Prop :=
  match r with
  | None => True
  | Some (st', s') => wf s' /\ ext s s' /\ sst_ok s' st' /\
                      exec fuel ss (conc (tvals s) st) = Some (conc (tvals s') st')
  end.

Lemma sexec_ok : forall fuel ss st s, wf s -> sst_ok s st -> SOK s (sexec fuel ss st s) fuel ss st.
Proof.
  induction fuel as [|f IH]; intros ss st s Hwf Hst.
  - destruct ss; cbn [sexec]; [|exact I]. cbn. auto using ext_refl.
  - destruct ss as [|stm r]; [cbn; auto using ext_refl|].
    unfold SOK. cbn [sexec exec]. destruct stm as [x e|o aw ie e|c a b|pre c body].
    + unfold bind. pose proof (seval_ok e st s Hwf Hst) as H. ok2_intro H i s1 Hwf1 He1 Hi1 Hv1. rewrite Hv1.
      unfold sset_var. destruct (Nat.ltb x (length (sv st))) eqn:Ex; [|exact I].
      set (st' := {| sv := upd x (Some i) (sv st); so := so st |}).
      assert (Hst' : sst_ok s1 st').
      { destruct (sst_ok_ext _ _ _ He1 Hst) as [A B]. split; [apply Forall_upd; assumption|exact B]. }
      assert (Hset : set_var (conc (tvals s) st) x (V s1 i) = Some (conc (tvals s1) st')).
      { rewrite <- (conc_ext _ _ _ He1 Hst). unfold set_var, conc. cbn [st_vars st_objs]. rewrite map_length, Ex.
        unfold st'. cbn [sv so]. rewrite map_upd. reflexivity. }
      rewrite Hset. pose proof (IH r st' s1 Hwf1 Hst') as H. unfold SOK in H.
      destruct (sexec f r st' s1) as [[st2 s2]|]; [|exact I]. destruct H as (A & B & C & D).
      cbn. split; [exact A|split; [eauto using ext_trans|split; [exact C|exact D]]].
    + unfold bind. pose proof (seval_ok ie st s Hwf Hst) as H. ok2_intro H ii s1 Hwf1 He1 Hi1 Hv1.
      pose proof (seval_ok e st s1 Hwf1 (sst_ok_ext _ _ _ He1 Hst)) as H. ok2_intro H v s2 Hwf2 He2 Hi2 Hv2.
      rewrite (conc_ext _ _ _ He1 Hst) in Hv2. rewrite Hv1, Hv2.
      destruct (as_const s2 ii) as [cc|] eqn:Ec; [|exact I].
      rewrite <- (ext_V rho _ _ _ He2 Hi1), (as_const_V rho _ _ _ Hwf2 Ec).
      unfold sstore. destruct (nth_error (so st) o) as [[cw cells]|] eqn:Eo; [|exact I].
      destruct ((aw =? cw) && (cc <? N.of_nat (length cells))) eqn:Ea; [|exact I].
      apply andb_true_iff in Ea as [Ea1 Ea2]. apply N.eqb_eq in Ea1. subst cw.
      set (st' := {| sv := sv st; so := upd o (aw, upd (N.to_nat cc) v cells) (so st) |}).
      assert (He12 : ext s s2) by eauto using ext_trans.
      assert (Hst' : sst_ok s2 st').
      { destruct (sst_ok_ext _ _ _ He12 Hst) as [A B]. split; [exact A|]. apply Forall_upd; [|exact B]. cbn [snd].
        apply Forall_upd; [exact Hi2|]. rewrite Forall_forall in B. apply (B _ (nth_error_In _ _ Eo)). }
      assert (Hsto : st_store (conc (tvals s) st) o aw cc (V s2 v) = Some (conc (tvals s2) st')).
      { rewrite <- (conc_ext _ _ _ He12 Hst). unfold st_store, conc. cbn [st_vars st_objs].
        rewrite nth_error_map, Eo. cbn [option_map fst snd]. unfold obj_store, mkobj. cbn [o_cw o_cells].
        rewrite N.eqb_refl, map_length, Ea2. unfold st'. cbn [sv so]. rewrite map_upd. cbn [fst snd]. rewrite map_upd. reflexivity. }
      rewrite Hsto. pose proof (IH r st' s2 Hwf2 Hst') as H. unfold SOK in H.
      destruct (sexec f r st' s2) as [[st3 s3]|]; [|exact I]. destruct H as (A & B & C & D).
      cbn. split; [exact A|split; [eauto using ext_trans|split; [exact C|exact D]]].
    + unfold bind. pose proof (seval_ok c st s Hwf Hst) as H. ok2_intro H ci s1 Hwf1 He1 Hi1 Hv1. rewrite Hv1.
      destruct (as_const s1 ci) as [cv|] eqn:Ec; [|exact I]. rewrite (as_const_V rho _ _ _ Hwf1 Ec).
      pose proof (IH ((if cv =? 0 then b else a) ++ r) st s1 Hwf1 (sst_ok_ext _ _ _ He1 Hst)) as H. unfold SOK in H.
      destruct (sexec f ((if cv =? 0 then b else a) ++ r) st s1) as [[st2 s2]|]; [|exact I]. destruct H as (A & B & C & D).
      rewrite (conc_ext _ _ _ He1 Hst) in D.
      cbn. split; [exact A|split; [eauto using ext_trans|split; [exact C|exact D]]].
    + apply (IH _ st s Hwf Hst).
Qed.

End Interp.
