(* The five algorithm records of the library are well formed (block size / length field
   shape by computation, the length of the length field by lemma). *)
From Coq Require Import NArith List Arith.
From ISAL Require Import Base.Words Spec.MD Spec.SHA1 Spec.SHA256 Spec.SHA512 Spec.MD5 Spec.SM3
  Proofs.HashPadFacts.

Example sha1_shape : algo_shape sha1_algo = true. Proof. vm_compute. reflexivity. Qed.
Example sha256_shape : algo_shape sha256_algo = true. Proof. vm_compute. reflexivity. Qed.
Example sha512_shape : algo_shape sha512_algo = true. Proof. vm_compute. reflexivity. Qed.
Example md5_shape : algo_shape md5_algo = true. Proof. vm_compute. reflexivity. Qed.
Example sm3_shape : algo_shape sm3_algo = true. Proof. vm_compute. reflexivity. Qed.

Lemma sha1_wf : algo_wf sha1_algo.
Proof. split; [exact sha1_shape|intros n; apply length_N_to_be]. Qed.
Lemma sha256_wf : algo_wf sha256_algo.
Proof. split; [exact sha256_shape|intros n; apply length_N_to_be]. Qed.
Lemma sha512_wf : algo_wf sha512_algo.
Proof. split; [exact sha512_shape|intros n; apply length_N_to_be]. Qed.
Lemma md5_wf : algo_wf md5_algo.
Proof. split; [exact md5_shape|intros n; apply length_N_to_le]. Qed.
Lemma sm3_wf : algo_wf sm3_algo.
Proof. split; [exact sm3_shape|intros n; apply length_N_to_be]. Qed.
