(* ckernels vertical — the symbolic specifications of SHA-512, SHA-1 and MD5 denote the Spec functions. *)
From Coq Require Import NArith List Bool Arith Lia.
From ISAL Require Import Base.Words Base.ListUtil Proofs.WordsFacts Spec.MD Spec.SHA1 Spec.SHA256 Spec.SHA512 Spec.MD5
  Model.CKernel Proofs.CKernelFacts Model.CKSym Proofs.CKSymFacts Model.CKSymSpec Proofs.CKSymSpecFacts.
From ISAL Require Import Model.CKSymSpecMore.
Import ListNotations.
Local Open Scope N_scope.

Ltac explode l H := repeat (destruct l as [|? l]; cbn [length] in H; try discriminate H).
Ltac forall_inv :=
  repeat match goal with
  | H : Forall _ (_ :: _) |- _ => inversion H; clear H; subst
  | H : Forall _ [] |- _ => clear H
  end.

Section More.
Variable rho : nat -> N.
Notation V := (V rho).
Notation wf := (wf rho).
Notation POST := (POST rho).
Notation isv := (isv rho).
Notation isl := (isl rho).
Notation tinb := (tinb).
Notation tv := (tv rho).
Notation mk_xor3_ok := (mk_xor3_ok rho).
Notation Forall_inb_ext := (Forall_inb_ext).
Notation map_V_ext := (map_V_ext rho).

Lemma sy_ch_ok w s x y z : wf s -> inb s x -> inb s y -> inb s z ->
  POST s (sy_ch w x y z s) (isv (N.lxor (N.land (V s x) (V s y)) (N.land (N.lxor (wrap w (V s x)) (N.ones w)) (V s z)))).
Proof.
  intros. unfold sy_ch. mstep (mk_bit2_ok rho). mstep (mk_not_ok rho). mstep (mk_bit2_ok rho).
  mlast (mk_bit2_ok rho).
Qed.
Lemma sy_maj_ok w s x y z : wf s -> inb s x -> inb s y -> inb s z ->
  POST s (sy_maj w x y z s) (isv (N.lxor (N.lxor (N.land (V s x) (V s y)) (N.land (V s x) (V s z))) (N.land (V s y) (V s z)))).
Proof.
  intros. unfold sy_maj. mstep (mk_bit2_ok rho). mstep (mk_bit2_ok rho). mstep (mk_bit2_ok rho).
  eapply POST_conv; [apply mk_xor3_ok; first [assumption|inb_tac]|].
  intros ? ? [? Hv]. split; [assumption|]. rewrite Hv. vnorm. reflexivity.
Qed.

(* a fold of a symbolic round function over (word index, payload) pairs *)
Lemma sy_fold_ok (ST VST P : Type) (inbS : tbl -> ST -> Prop) (tvS : tbl -> ST -> VST)
      (rnd : ST -> N * P -> M ST) (srnd : VST -> N * P -> VST)
      (Hround : forall s t w p, wf s -> inbS s t -> inb s w ->
                  POST s (rnd t (w, p) s) (fun t' s' => inbS s' t' /\ tvS s' t' = srnd (tvS s t) (V s w, p))) :
  forall l t s, wf s -> inbS s t -> Forall (fun p : N * P => inb s (fst p)) l ->
  POST s (sy_fold rnd l t s)
       (fun t' s' => inbS s' t' /\ tvS s' t' = fold_left srnd (map (fun p : N * P => (V s (fst p), snd p)) l) (tvS s t)).
Proof.
  induction l as [|[w k] l IH]; intros t s Hwf Ht Hl.
  - apply POST_ret; [exact Hwf|split; [exact Ht|reflexivity]].
  - inversion Hl as [|? ? Hw Hl']; subst. cbn [fst] in Hw. cbn [sy_fold map fold_left fst snd].
    eapply POST_bind; [apply Hround; assumption|].
    intros t1 s1 W1 E1 [T1 V1]. eapply POST_conv; [apply IH; [exact W1|exact T1|]|].
    + eapply Forall_impl; [|exact Hl']. intros p Hp. apply (ext_inb _ _ _ E1 Hp).
    + intros t2 s2 [T2 V2]. split; [exact T2|]. rewrite V2, V1. f_equal.
      apply map_ext_in. intros p Hp. rewrite Forall_forall in Hl'. rewrite (ext_V rho _ _ _ E1 (Hl' _ Hp)). reflexivity.
Qed.

Lemma combine_map_V' {P} s (l : list N) (K : list P) :
  map (fun p : N * P => (V s (fst p), snd p)) (combine l K) = combine (map (V s) l) K.
Proof. revert K. induction l as [|x l IH]; intros [|k K]; cbn [combine map fst snd]; try reflexivity. rewrite IH. reflexivity. Qed.

Lemma Forall_combine_fst' {P} (Q : N -> Prop) (l : list N) (K : list P) : Forall Q l -> Forall (fun p : N * P => Q (fst p)) (combine l K).
Proof. intros H. revert K. induction H; intros [|k K]; cbn [combine]; constructor; auto. Qed.

(* ================================================================ SHA-512 *)
Lemma sy512_S0_ok s x : wf s -> inb s x -> POST s (sy512_S0 x s) (isv (sha512_S0 (V s x))).
Proof.
  intros. unfold sy512_S0. mstep (mk_ror_ok rho). mstep (mk_ror_ok rho). mstep (mk_ror_ok rho).
  eapply POST_conv; [apply mk_xor3_ok; first [assumption|inb_tac]|].
  intros ? ? [? Hv]. split; [assumption|]. rewrite Hv. vnorm. reflexivity.
Qed.

Lemma sy512_S1_ok s x : wf s -> inb s x -> POST s (sy512_S1 x s) (isv (sha512_S1 (V s x))).
Proof.
  intros. unfold sy512_S1. mstep (mk_ror_ok rho). mstep (mk_ror_ok rho). mstep (mk_ror_ok rho).
  eapply POST_conv; [apply mk_xor3_ok; first [assumption|inb_tac]|].
  intros ? ? [? Hv]. split; [assumption|]. rewrite Hv. vnorm. reflexivity.
Qed.
Lemma sy512_s0_ok s x : wf s -> inb s x -> POST s (sy512_s0 x s) (isv (sha512_s0 (V s x))).
Proof.
  intros. unfold sy512_s0. mstep (mk_ror_ok rho). mstep (mk_ror_ok rho). mstep (mk_shr_ok rho).
  eapply POST_conv; [apply mk_xor3_ok; first [assumption|inb_tac]|].
  intros ? ? [? Hv]. split; [assumption|]. rewrite Hv. vnorm. reflexivity.
Qed.
Lemma sy512_s1_ok s x : wf s -> inb s x -> POST s (sy512_s1 x s) (isv (sha512_s1 (V s x))).
Proof.
  intros. unfold sy512_s1. mstep (mk_ror_ok rho). mstep (mk_ror_ok rho). mstep (mk_shr_ok rho).
  eapply POST_conv; [apply mk_xor3_ok; first [assumption|inb_tac]|].
  intros ? ? [? Hv]. split; [assumption|]. rewrite Hv. vnorm. reflexivity.
Qed.

Lemma sy512_sched_ok : forall n w s, wf s -> Forall (inb s) w -> length w = 16%nat ->
  POST s (sy512_sched n w s) (isl (sha512_sched n (map (V s) w))).
Proof.
  induction n as [|n IH]; intros w s Hwf Hw Hl.
  - apply POST_ret; [exact Hwf|split; constructor].
  - explode w Hl. forall_inv. cbn [sy512_sched sha512_sched map].
    pstep sy512_s1_ok. mstep (mk_add_ok rho). pstep sy512_s0_ok. mstep (mk_add_ok rho). mstep (mk_add_ok rho).
    eapply POST_bind; [apply IH; [assumption| |reflexivity]|].
    + repeat (constructor; [inb_tac|]). constructor.
    + intros r sr Wr Er [Fr Vr]. apply POST_ret; [exact Wr|]. split; [constructor; [inb_tac|exact Fr]|].
      cbn [map]. rewrite Vr. cbn [map]. vnorm. reflexivity.
Qed.

Lemma sy512_round_ok s t w k : wf s -> tinb s t -> inb s w ->
  POST s (sy512_round t (w, k) s) (fun t' s' => tinb s' t' /\ tv s' t' = sha512_round (tv s t) (V s w, k)).
Proof.
  intros Hwf Ht Hw. destruct t as [[[[[[[a b] c] d] e] f] g] h]. destruct Ht as (?&?&?&?&?&?&?&?).
  unfold sy512_round. mstep (mk_const_ok rho).
  pstep sy512_S1_ok. mstep (mk_add_ok rho). pstep (sy_ch_ok 64). mstep (mk_add_ok rho). mstep (mk_add_ok rho). mstep (mk_add_ok rho).
  pstep sy512_S0_ok. pstep (sy_maj_ok 64). mstep (mk_add_ok rho). mstep (mk_add_ok rho). mstep (mk_add_ok rho).
  apply POST_ret; [assumption|]. split.
  - unfold tinb. repeat split; inb_tac.
  - unfold tv, sha512_round. vnorm. reflexivity.
Qed.

Lemma sy512_compress_words_ok s hh m : wf s -> Forall (inb s) hh -> Forall (inb s) m -> length hh = 8%nat -> length m = 16%nat ->
  POST s (sy512_compress_words hh m s) (isl (sha512_compress_words (map (V s) hh) (map (V s) m))).
Proof.
  intros Hwf Hh Hm Lh Lm. explode hh Lh. pose proof Hh as Hh'. forall_inv.
  unfold sy512_compress_words.
  eapply POST_bind; [apply sy512_sched_ok; assumption|]. intros sch s1 W1 E1 [F1 V1].
  eapply POST_bind.
  { apply (sy_fold_ok _ _ _ tinb tv sy512_round sha512_round sy512_round_ok); [exact W1|unfold tinb; repeat split; inb_tac|].
    apply Forall_combine_fst. apply Forall_app. split; [apply (Forall_inb_ext _ _ _ E1 Hm)|exact F1]. }
  intros t s2 W2 E2 [T2 V2]. destruct t as [[[[[[[a b] c] d] e] f] g] h]. destruct T2 as (?&?&?&?&?&?&?&?).
  mstep (mk_add_ok rho). mstep (mk_add_ok rho). mstep (mk_add_ok rho). mstep (mk_add_ok rho).
  mstep (mk_add_ok rho). mstep (mk_add_ok rho). mstep (mk_add_ok rho). mstep (mk_add_ok rho).
  apply POST_ret; [assumption|]. split; [repeat (constructor; [inb_tac|]); constructor|].
  cbn [map]. unfold sha512_compress_words.
  rewrite combine_map_V, map_app, V1, (map_V_ext _ _ _ E1 Hm) in V2. unfold tv in V2. cbn [map] in V2.
  repeat match goal with Hi : inb s ?y |- _ =>
    match type of V2 with context [CKSym.V rho s1 y] => rewrite (ext_V rho s s1 y E1 Hi) in V2 end end.
  unfold sha512_W. unfold sha256_state, sha512_state in *. rewrite <- V2. unfold add64, w64. vnorm. reflexivity.
Qed.

Lemma sy512_be_compress_ok s hh mle : wf s -> Forall (inb s) hh -> Forall (inb s) mle -> length hh = 8%nat -> length mle = 16%nat ->
  POST s (sy_be_compress sy512_compress_words 64 hh mle s)
       (isl (sha512_compress_words (map (V s) hh) (map (bswap 64) (map (V s) mle)))).
Proof.
  intros Hwf Hh Hm Lh Lm. unfold sy_be_compress.
  eapply POST_bind; [apply mmap_bswap_ok; assumption|]. intros m s1 W1 E1 [F1 V1].
  eapply POST_conv; [apply sy512_compress_words_ok; [exact W1|apply (Forall_inb_ext _ _ _ E1 Hh)|exact F1|exact Lh|]|].
  - rewrite <- (map_length (V s1)), V1, !map_length. exact Lm.
  - intros l s2 [F2 V2]. split; [exact F2|]. rewrite V2, V1, (map_V_ext _ _ _ E1 Hh). reflexivity.
Qed.


(* ================================================================ SHA-1 *)

Lemma sy1_f_ok s q b c d : wf s -> inb s b -> inb s c -> inb s d ->
  POST s (sy1_f q b c d s) (isv (sha1_f q (V s b) (V s c) (V s d))).
Proof.
  intros Hwf Hb Hc Hd.
  destruct q as [|[[p|p|]|[p|p|]|]];
    first [ exact (sy_ch_ok 32 s b c d Hwf Hb Hc Hd) | exact (sy_maj_ok 32 s b c d Hwf Hb Hc Hd)
          | exact (mk_xor3_ok s 32 b c d Hwf Hb Hc Hd) ].
Qed.

Lemma sy1_sched_ok : forall n w s, wf s -> Forall (inb s) w -> length w = 16%nat ->
  POST s (sy1_sched n w s) (isl (sha1_sched n (map (V s) w))).
Proof.
  induction n as [|n IH]; intros w s Hwf Hw Hl.
  - apply POST_ret; [exact Hwf|split; constructor].
  - explode w Hl. forall_inv. cbn [sy1_sched sha1_sched map].
    mstep (mk_bit2_ok rho). mstep (mk_bit2_ok rho). mstep (mk_bit2_ok rho). mstep (mk_rol_ok rho).
    eapply POST_bind; [apply IH; [assumption| |reflexivity]|].
    + repeat (constructor; [inb_tac|]). constructor.
    + intros r sr Wr Er [Fr Vr]. apply POST_ret; [exact Wr|]. split; [constructor; [inb_tac|exact Fr]|].
      cbn [map]. rewrite Vr. cbn [map]. vnorm. reflexivity.
Qed.

Definition tinb5 (s : tbl) (t : st5) : Prop :=
  let '(a, b, c, d, e) := t in inb s a /\ inb s b /\ inb s c /\ inb s d /\ inb s e.
Definition tv5 (s : tbl) (t : st5) : sha1_state :=
  let '(a, b, c, d, e) := t in (V s a, V s b, V s c, V s d, V s e).

Lemma sy1_round_ok s t w q : wf s -> tinb5 s t -> inb s w ->
  POST s (sy1_round t (w, q) s) (fun t' s' => tinb5 s' t' /\ tv5 s' t' = sha1_round (tv5 s t) (V s w, q)).
Proof.
  intros Hwf Ht Hw. destruct t as [[[[a b] c] d] e]. destruct Ht as (?&?&?&?&?).
  unfold sy1_round. mstep (mk_const_ok rho). mstep (mk_rol_ok rho). pstep sy1_f_ok.
  mstep (mk_add_ok rho). mstep (mk_add_ok rho). mstep (mk_add_ok rho). mstep (mk_add_ok rho). mstep (mk_rol_ok rho).
  apply POST_ret; [assumption|]. split.
  - unfold tinb5. repeat split; inb_tac.
  - unfold tv5, sha1_round. vnorm. reflexivity.
Qed.

Lemma sy1_compress_words_ok s hh m : wf s -> Forall (inb s) hh -> Forall (inb s) m -> length hh = 5%nat -> length m = 16%nat ->
  POST s (sy1_compress_words hh m s) (isl (sha1_compress_words (map (V s) hh) (map (V s) m))).
Proof.
  intros Hwf Hh Hm Lh Lm. explode hh Lh. pose proof Hh as Hh'. forall_inv.
  unfold sy1_compress_words.
  eapply POST_bind; [apply sy1_sched_ok; assumption|]. intros sch s1 W1 E1 [F1 V1].
  eapply POST_bind.
  { apply (sy_fold_ok _ _ _ tinb5 tv5 sy1_round sha1_round sy1_round_ok); [exact W1|unfold tinb5; repeat split; inb_tac|].
    apply Forall_combine_fst'. apply Forall_app. split; [apply (Forall_inb_ext _ _ _ E1 Hm)|exact F1]. }
  intros t s2 W2 E2 [T2 V2]. destruct t as [[[[a b] c] d] e]. destruct T2 as (?&?&?&?&?).
  mstep (mk_add_ok rho). mstep (mk_add_ok rho). mstep (mk_add_ok rho). mstep (mk_add_ok rho). mstep (mk_add_ok rho).
  apply POST_ret; [assumption|]. split; [repeat (constructor; [inb_tac|]); constructor|].
  cbn [map]. unfold sha1_compress_words.
  rewrite combine_map_V', map_app, V1, (map_V_ext _ _ _ E1 Hm) in V2. unfold tv5 in V2. cbn [map] in V2.
  repeat match goal with Hi : inb s ?y |- _ =>
    match type of V2 with context [CKSym.V rho s1 y] => rewrite (ext_V rho s s1 y E1 Hi) in V2 end end.
  unfold sha1_W. unfold sha1_state in *. rewrite <- V2. unfold add32, w32. vnorm. reflexivity.
Qed.

Lemma sy1_be_compress_ok s hh mle : wf s -> Forall (inb s) hh -> Forall (inb s) mle -> length hh = 5%nat -> length mle = 16%nat ->
  POST s (sy_be_compress sy1_compress_words 32 hh mle s)
       (isl (sha1_compress_words (map (V s) hh) (map (bswap 32) (map (V s) mle)))).
Proof.
  intros Hwf Hh Hm Lh Lm. unfold sy_be_compress.
  eapply POST_bind; [apply mmap_bswap_ok; assumption|]. intros m s1 W1 E1 [F1 V1].
  eapply POST_conv; [apply sy1_compress_words_ok; [exact W1|apply (Forall_inb_ext _ _ _ E1 Hh)|exact F1|exact Lh|]|].
  - rewrite <- (map_length (V s1)), V1, !map_length. exact Lm.
  - intros l s2 [F2 V2]. split; [exact F2|]. rewrite V2, V1, (map_V_ext _ _ _ E1 Hh). reflexivity.
Qed.

(* ================================================================ MD5 *)

Lemma sy5_f_ok s q x y z : wf s -> inb s x -> inb s y -> inb s z ->
  POST s (sy5_f q x y z s) (isv (md5_f q (V s x) (V s y) (V s z))).
Proof.
  intros Hwf Hx Hy Hz.
  destruct q as [|[[p|p|]|[p|p|]|]]; unfold sy5_f, md5_f.
  all: try (mstep (mk_not_ok rho); mstep (mk_bit2_ok rho); mlast (mk_bit2_ok rho)).
  all: try exact (mk_xor3_ok s 32 x y z Hwf Hx Hy Hz).
  all: mstep (mk_bit2_ok rho); mstep (mk_not_ok rho); mstep (mk_bit2_ok rho); mlast (mk_bit2_ok rho).
Qed.

Definition tinb4 (s : tbl) (t : st4) : Prop :=
  let '(a, b, c, d) := t in inb s a /\ inb s b /\ inb s c /\ inb s d.
Definition tv4 (s : tbl) (t : st4) : md5_state :=
  let '(a, b, c, d) := t in (V s a, V s b, V s c, V s d).

Lemma sy5_round_ok s t w (p : N * (N * N)) : wf s -> tinb4 s t -> inb s w ->
  POST s (sy5_round t (w, p) s) (fun t' s' => tinb4 s' t' /\ tv4 s' t' = md5_round (tv4 s t) (V s w, p)).
Proof.
  intros Hwf Ht Hw. destruct t as [[[a b] c] d]. destruct Ht as (?&?&?&?). destruct p as [k [sh q]].
  unfold sy5_round. mstep (mk_const_ok rho). pstep sy5_f_ok.
  mstep (mk_add_ok rho). mstep (mk_add_ok rho). mstep (mk_add_ok rho). mstep (mk_rol_ok rho). mstep (mk_add_ok rho).
  apply POST_ret; [assumption|]. split.
  - unfold tinb4. repeat split; inb_tac.
  - unfold tv4, md5_round. vnorm. reflexivity.
Qed.

Lemma sy5_compress_words_ok s hh m : wf s -> Forall (inb s) hh -> Forall (inb s) m -> length hh = 4%nat -> length m = 16%nat ->
  POST s (sy5_compress_words hh m s) (isl (md5_compress_words (map (V s) hh) (map (V s) m))).
Proof.
  intros Hwf Hh Hm Lh Lm. explode hh Lh. explode m Lm. pose proof Hh as Hh'. pose proof Hm as Hm'. forall_inv.
  unfold sy5_compress_words.
  eapply POST_bind.
  { apply (sy_fold_ok _ _ _ tinb4 tv4 sy5_round md5_round sy5_round_ok); [exact Hwf|unfold tinb4; repeat split; assumption|].
    apply Forall_combine_fst'. cbv [map nth md5_G]. repeat (constructor; [assumption|]). constructor. }
  intros t s2 W2 E2 [T2 V2]. destruct t as [[[a b] c] d]. destruct T2 as (?&?&?&?).
  mstep (mk_add_ok rho). mstep (mk_add_ok rho). mstep (mk_add_ok rho). mstep (mk_add_ok rho).
  apply POST_ret; [assumption|]. split; [repeat (constructor; [inb_tac|]); constructor|].
  cbn [map]. unfold md5_compress_words.
  rewrite combine_map_V' in V2. unfold tv4 in V2.
  unfold md5_state in *.
  cbv [map nth md5_G] in V2. cbv [map nth md5_G].
  rewrite <- V2. unfold add32, w32. vnorm. reflexivity.
Qed.

End More.
