(* C08 — the rolling-hash footprint twin returns what the model returns, and every index it
   emits is inside the caller's buffer / the w-byte history, for every buffer length. *)
From Coq Require Import NArith ZArith List Arith Lia.
From ISAL Require Import Base.Words Base.ListUtil Spec.Rolling Model.RollRun Model.FootprintRoll.
Import ListNotations.

Section FR.
Variable T1 : N -> N.
Variables (w : nat) (mask trig : N).

Lemma phase1_fp_fst : forall hrest brest i h,
  fst (phase1_fp T1 w mask trig hrest brest i h) = phase1 T1 w mask trig hrest brest i h.
Proof.
  induction hrest as [|old hr IH]; intros brest i h; cbn [phase1_fp phase1]; [reflexivity|].
  destruct brest as [|b br]; [reflexivity|].
  destruct (hitb mask trig (hash_fn T1 w h b old)); [reflexivity|].
  specialize (IH br (S i) (hash_fn T1 w h b old)).
  destruct (phase1_fp T1 w mask trig hr br (S i) (hash_fn T1 w h b old)) as [r l]. exact IH.
Qed.

Lemma scan_fp_fst : forall news olds i h,
  fst (scan_fp T1 w mask trig news olds i h) = scan T1 w mask trig news olds i h.
Proof.
  induction news as [|b nr IH]; intros olds i h; cbn [scan_fp scan]; [reflexivity|].
  destruct olds as [|o orr]; [reflexivity|].
  destruct (hitb mask trig (hash_fn T1 w h b o)); [reflexivity|].
  specialize (IH orr (S i) (hash_fn T1 w h b o)).
  destruct (scan_fp T1 w mask trig nr orr (S i) (hash_fn T1 w h b o)) as [r l]. exact IH.
Qed.

Lemma refresh_first_ok len i : i <= w -> i <= len ->
  Forall (rh_ev_ok w len) (hist_refresh_first w i).
Proof.
  intros; unfold hist_refresh_first; repeat constructor; cbn [rh_ev_ok]; lia.
Qed.

Lemma refresh_scan_ok len j : w <= j -> j <= len ->
  Forall (rh_ev_ok w len) (hist_refresh_scan w j).
Proof.
  intros; unfold hist_refresh_scan; repeat constructor; cbn [rh_ev_ok]; lia.
Qed.

(* first loop: every buffer[i] has i < len, every history[i] has i < w *)
Lemma phase1_fp_ok len : forall hrest brest i h,
  i + length hrest = w -> i + length brest = len ->
  Forall (rh_ev_ok w len) (snd (phase1_fp T1 w mask trig hrest brest i h)).
Proof.
  induction hrest as [|old hr IH]; intros brest i h Hw Hl; cbn [phase1_fp]; [constructor|].
  cbn [length] in Hw.
  destruct brest as [|b br]; cbn [snd].
  - apply refresh_first_ok; cbn [length] in Hl; lia.
  - cbn [length] in Hl.
    assert (E : Forall (rh_ev_ok w len) [EBuf (Z.of_nat i) 1; EHistR (Z.of_nat i) 1])
      by (repeat constructor; cbn [rh_ev_ok]; lia).
    destruct (hitb mask trig (hash_fn T1 w h b old)); cbn [snd].
    + apply Forall_app; split; [exact E|]. apply refresh_first_ok; lia.
    + specialize (IH br (S i) (hash_fn T1 w h b old) ltac:(lia) ltac:(lia)).
      destruct (phase1_fp T1 w mask trig hr br (S i) (hash_fn T1 w h b old)) as [r l].
      cbn [snd] in *. apply Forall_app; split; assumption.
Qed.

(* when the first loop runs to completion: w bytes consumed, the buffer had at least w bytes,
   and the last hash computed did not hit *)
Lemma phase1_fp_go : forall hrest brest i h i' h' l,
  phase1_fp T1 w mask trig hrest brest i h = (P1Go i' h', l) ->
  i' = i + length hrest /\ length hrest <= length brest /\
  (hrest <> [] -> hitb mask trig h' = false).
Proof.
  induction hrest as [|old hr IH]; intros brest i h i' h' l E; cbn [phase1_fp] in E.
  - inversion E; subst. cbn [length]. repeat split; try lia. congruence.
  - destruct brest as [|b br]; [discriminate|].
    destruct (hitb mask trig (hash_fn T1 w h b old)) eqn:Hh; [discriminate|].
    destruct (phase1_fp T1 w mask trig hr br (S i) (hash_fn T1 w h b old)) as [r l0] eqn:Ep.
    inversion E; subst r l.
    destruct (IH _ _ _ _ _ _ Ep) as (A & B & C).
    cbn [length]. repeat split; try lia.
    intros _. destruct hr as [|x hr'].
    + cbn [phase1_fp] in Ep. inversion Ep; subst. exact Hh.
    + apply C. congruence.
Qed.

(* scan: every buffer[i] has i < len and every buffer[i - w] has i >= w *)
Lemma scan_fp_ok len : forall news olds i h,
  w <= i -> i + length news = len ->
  Forall (rh_ev_ok w len) (snd (scan_fp T1 w mask trig news olds i h)).
Proof.
  induction news as [|b nr IH]; intros olds i h Hw Hl; cbn [scan_fp]; [constructor|].
  destruct olds as [|o orr]; [constructor|].
  cbn [length] in Hl.
  assert (E : Forall (rh_ev_ok w len) [EBuf (Z.of_nat i) 1; EBuf (Z.of_nat i - Z.of_nat w) 1])
    by (repeat constructor; cbn [rh_ev_ok]; lia).
  destruct (hitb mask trig (hash_fn T1 w h b o)); cbn [snd]; [exact E|].
  specialize (IH orr (S i) (hash_fn T1 w h b o) ltac:(lia) ltac:(lia)).
  destruct (scan_fp T1 w mask trig nr orr (S i) (hash_fn T1 w h b o)) as [r l].
  cbn [snd] in *. apply Forall_app; split; assumption.
Qed.

Lemma scan_fp_res len : forall news olds i h idx h' hit l,
  i + length news = len ->
  scan_fp T1 w mask trig news olds i h = ((idx, h', hit), l) ->
  i <= idx /\
  (hit = true -> idx < len) /\
  (hit = false -> idx <= len /\ (hitb mask trig h = false -> hitb mask trig h' = false)).
Proof.
  induction news as [|b nr IH]; intros olds i h idx h' hit l Hl E; cbn [scan_fp] in E.
  - cbn [length] in Hl. inversion E; subst idx h' hit l. repeat split; try lia; try congruence; try (intros _; split; [lia|tauto]).
  - destruct olds as [|o orr].
    + cbn [length] in Hl. inversion E; subst idx h' hit l. repeat split; try lia; try congruence; try (intros _; split; [lia|tauto]).
    + cbn [length] in Hl.
      destruct (hitb mask trig (hash_fn T1 w h b o)) eqn:Hh.
      * inversion E; subst idx h' hit l. repeat split; try lia; congruence.
      * destruct (scan_fp T1 w mask trig nr orr (S i) (hash_fn T1 w h b o)) as [[[idx0 h0] hit0] l0] eqn:Es.
        inversion E; subst idx0 h0 hit0 l.
        assert (Hl' : S i + length nr = len) by lia.
        destruct (IH orr (S i) (hash_fn T1 w h b o) idx h' hit l0 Hl' Es) as (A & B & C).
        split; [lia|]. split.
        -- intros Ht; apply B in Ht; lia.
        -- intros Hf. destruct (C Hf) as (C1 & C2). split; [lia|]. intros _. apply C2. exact Hh.
Qed.

End FR.

(* the twin computes what the model computes *)
Theorem rh_run_fp_fst T1 s buf mask trig :
  fst (rh_run_fp T1 s buf mask trig) = rh_run T1 s buf mask trig.
Proof.
  unfold rh_run_fp, rh_run.
  pose proof (phase1_fp_fst T1 (rw s) mask trig (rhist s) buf 0 (rhash s)) as E1.
  destruct (phase1_fp T1 (rw s) mask trig (rhist s) buf 0 (rhash s)) as [r l]. cbn [fst] in E1. rewrite <- E1.
  destruct r as [i h|i h|i h]; try reflexivity.
  pose proof (scan_fp_fst T1 (rw s) mask trig (skipn i buf) buf i h) as E2.
  destruct (scan_fp T1 (rw s) mask trig (skipn i buf) buf i h) as [[[idx h'] hit] l2].
  cbn [fst] in E2. rewrite <- E2.
  destruct (hitb mask trig h'); reflexivity.
Qed.

(* every index emitted by a run is in range: buffer reads inside [0, max_len) — in
   particular buffer[i - w] only with i >= w — history reads and writes inside [0, w) *)
Theorem rh_run_fp_in_range T1 s buf mask trig :
  1 <= rw s -> length (rhist s) = rw s ->
  Forall (rh_ev_ok (rw s) (length buf)) (snd (rh_run_fp T1 s buf mask trig)).
Proof.
  intros Hw1 Hh. unfold rh_run_fp.
  pose proof (phase1_fp_ok T1 (rw s) mask trig (length buf) (rhist s) buf 0 (rhash s) ltac:(lia) ltac:(lia)) as P1.
  destruct (phase1_fp T1 (rw s) mask trig (rhist s) buf 0 (rhash s)) as [r l] eqn:Ep. cbn [snd] in P1.
  destruct r as [i h|i h|i h]; cbn [snd]; try exact P1.
  destruct (phase1_fp_go T1 (rw s) mask trig _ _ _ _ _ _ _ Ep) as (Ei & Hlen & Hnh).
  assert (Hi : i = rw s) by lia. clear Ei. subst i.
  assert (Hnh' : hitb mask trig h = false).
  { apply Hnh. intro E0. rewrite E0 in Hh. cbn in Hh. lia. }
  assert (Hsk : rw s + length (skipn (rw s) buf) = length buf) by (rewrite skipn_length; lia).
  pose proof (scan_fp_ok T1 (rw s) mask trig (length buf) (skipn (rw s) buf) buf (rw s) h ltac:(lia) Hsk) as P2.
  destruct (scan_fp T1 (rw s) mask trig (skipn (rw s) buf) buf (rw s) h) as [[[idx h'] hit] l2] eqn:Es.
  cbn [snd] in P2.
  destruct (scan_fp_res T1 (rw s) mask trig (length buf) _ _ _ _ _ _ _ _ Hsk Es) as (A & B & C).
  destruct (hitb mask trig h') eqn:Hh'; cbn [snd].
  - repeat (apply Forall_app; split); try assumption.
    apply refresh_scan_ok; [lia|].
    destruct hit.
    + specialize (B eq_refl). lia.
    + destruct (C eq_refl) as (_ & C2). discriminate (C2 Hnh').
  - repeat (apply Forall_app; split); try assumption.
    apply refresh_scan_ok; [lia|].
    destruct hit.
    + specialize (B eq_refl). lia.
    + destruct (C eq_refl) as (C1 & _). lia.
Qed.

Theorem rh_reset_fp_in_range (s : rh_state) (init_bytes : list N) :
  rw s <= length init_bytes ->
  Forall (rh_ev_ok (rw s) (length init_bytes)) (rh_reset_fp s).
Proof.
  intros; unfold rh_reset_fp; repeat constructor; cbn [rh_ev_ok]; lia.
Qed.
