(* The size constants of include/aes_cbc.h (regenerated into Gen/AesCfgGen.v on every run)
   against the model: the expanded schedules the model writes have exactly
   ISAL_CBC_ROUND_KEY_LEN * ISAL_CBC_<n>_KEY_ROUNDS bytes, which fit ISAL_CBC_MAX_KEYS_SIZE.
   (The XTS constants are in Proofs/XtsCfgFacts.v so that each property depends only on its own.) *)
From Coq Require Import NArith List Bool Arith Lia.
From ISAL Require Import Base.Words Base.ListUtil Spec.AES Model.KeyExp Gen.AesCfgGen
  Proofs.ChunkFacts Proofs.AesFacts Proofs.XtsFacts.
Import ListNotations.

Lemma concat_length16 (l : list (list N)) : len_sched l -> length (concat l) = (16 * length l)%nat.
Proof. intros H. induction H as [|a l Ha Hl IH]; [reflexivity|]. cbn [concat length]. rewrite app_length, IH, Ha. lia. Qed.

Lemma keyexp_lengths k : valid_key_len (length k) = true ->
  length (keyexp_enc k) = (16 * (length k / 4 + 7))%nat /\ length (keyexp_dec k) = (16 * (length k / 4 + 7))%nat.
Proof.
  intros V. destruct (key_expansion_facts k V) as (L & S & _). unfold keyexp_enc, keyexp_dec.
  rewrite !concat_length16 by (try apply dec_schedule_len_sched; exact S).
  rewrite dec_schedule_length, L. split; reflexivity.
Qed.

Definition key_bits_ok (bits rounds : N) : Prop :=
  forall k, N.of_nat (length k) = bits ->
    length (key_expansion k) = N.to_nat rounds /\
    N.of_nat (length (keyexp_enc k)) = (isal_cbc_round_key_len_src * rounds)%N /\
    N.of_nat (length (keyexp_dec k)) = (isal_cbc_round_key_len_src * rounds)%N /\
    (isal_cbc_round_key_len_src * rounds <= isal_cbc_max_keys_size_src)%N.

Lemma key_bits_ok_intro bits rounds :
  valid_key_len (N.to_nat bits) = true -> N.to_nat rounds = (N.to_nat bits / 4 + 7)%nat ->
  isal_cbc_round_key_len_src = 16%N -> (16 * rounds <= isal_cbc_max_keys_size_src)%N -> key_bits_ok bits rounds.
Proof.
  intros V R H16 Hmax k Hk. assert (Lk : length k = N.to_nat bits) by (rewrite <- Hk; symmetry; apply Nat2N.id).
  rewrite <- Lk in V, R. destruct (key_expansion_facts k V) as (L & _ & _). destruct (keyexp_lengths k V) as [Le Ld].
  rewrite Le, Ld, L, <- R, H16. repeat split; try exact Hmax; lia.
Qed.

Lemma c_cfg_schedule_sizes :
  key_bits_ok isal_cbc_128_bits_src isal_cbc_128_key_rounds_src /\
  key_bits_ok isal_cbc_192_bits_src isal_cbc_192_key_rounds_src /\
  key_bits_ok isal_cbc_256_bits_src isal_cbc_256_key_rounds_src /\
  isal_cbc_iv_data_len_src = 16%N.
Proof.
  split; [|split; [|split]]; try reflexivity;
    (apply key_bits_ok_intro; [reflexivity|reflexivity|reflexivity|vm_compute; discriminate]).
Qed.
