(* Facts about fixed-width words: wrap, rotations. *)
From Coq Require Import NArith List Lia Bool.
From ISAL Require Import Base.Words.
Local Open Scope N_scope.

Lemma testbit_high x k j : x < 2 ^ k -> k <= j -> N.testbit x j = false.
Proof.
  intros Hx Hj. destruct (N.eq_dec x 0) as [->|Hnz]; [apply N.bits_0|].
  apply N.bits_above_log2. apply N.log2_lt_pow2 in Hx; lia.
Qed.

Lemma wrap_spec k x i : N.testbit (wrap k x) i = N.testbit x i && (i <? k).
Proof.
  unfold wrap. rewrite N.land_spec. destruct (N.ltb_spec i k) as [H|H].
  - rewrite N.ones_spec_low by exact H. reflexivity.
  - rewrite N.ones_spec_high by exact H. reflexivity.
Qed.

Lemma wrap_mod k x : wrap k x = x mod 2 ^ k.
Proof. unfold wrap. apply N.land_ones. Qed.

Lemma wrap_lt k x : wrap k x < 2 ^ k.
Proof. rewrite wrap_mod. apply N.mod_lt. apply N.pow_nonzero. lia. Qed.

Lemma wrap_small k x : x < 2 ^ k -> wrap k x = x.
Proof. intros H. rewrite wrap_mod. apply N.mod_small. exact H. Qed.


Lemma lt_pow2_of_bits x k : (forall j, k <= j -> N.testbit x j = false) -> x < 2 ^ k.
Proof.
  intros H. assert (E : wrap k x = x).
  { apply N.bits_inj. intros i. rewrite wrap_spec.
    destruct (N.ltb_spec i k) as [Hi|Hi]; [apply andb_true_r|].
    rewrite (H i Hi). reflexivity. }
  rewrite <- E. apply wrap_lt.
Qed.

Lemma lxor_lt k a b : a < 2 ^ k -> b < 2 ^ k -> N.lxor a b < 2 ^ k.
Proof.
  intros Ha Hb. apply lt_pow2_of_bits. intros j Hj.
  rewrite N.lxor_spec, (testbit_high a k j Ha Hj), (testbit_high b k j Hb Hj). reflexivity.
Qed.

Lemma rol_lt k x r : rol k x r < 2 ^ k.
Proof. unfold rol. apply wrap_lt. Qed.

Lemma rol_spec k x r i :
  0 < k -> x < 2 ^ k -> r <= k ->
  N.testbit (rol k x r) i = (i <? k) && N.testbit x ((i + k - r) mod k).
Proof.
  intros Hk Hx Hr. unfold rol. rewrite wrap_spec, N.lor_spec.
  destruct (N.ltb_spec i k) as [Hi|Hi]; [|rewrite andb_false_r; reflexivity].
  rewrite andb_true_r. cbn [andb].
  rewrite N.shiftr_spec' .
  destruct (N.le_gt_cases r i) as [Hri|Hri].
  - rewrite N.shiftl_spec_high' by exact Hri.
    rewrite (testbit_high x k (i + (k - r))) by (try exact Hx; lia).
    rewrite orb_false_r. f_equal.
    assert (E : i + k - r = (i - r) + 1 * k) by lia.
    rewrite E, N.mod_add by lia. rewrite N.mod_small by lia. reflexivity.
  - rewrite N.shiftl_spec_low by exact Hri. cbn [orb]. f_equal.
    rewrite N.mod_small by lia. lia.
Qed.

Lemma rol_lxor k a b r :
  0 < k -> a < 2 ^ k -> b < 2 ^ k -> r <= k ->
  rol k (N.lxor a b) r = N.lxor (rol k a r) (rol k b r).
Proof.
  intros Hk Ha Hb Hr. apply N.bits_inj. intros i.
  rewrite N.lxor_spec, !rol_spec by (auto using lxor_lt).
  rewrite N.lxor_spec. destruct (i <? k); reflexivity.
Qed.

Lemma rol_rol k x i j :
  0 < k -> x < 2 ^ k -> i + j <= k ->
  rol k (rol k x i) j = rol k x (i + j).
Proof.
  intros Hk Hx Hij. apply N.bits_inj. intros n.
  rewrite rol_spec by (try apply rol_lt; lia).
  rewrite rol_spec by (try exact Hx; lia).
  rewrite rol_spec by (try exact Hx; lia).
  destruct (N.ltb_spec n k) as [Hn|Hn]; [|reflexivity]. cbn [andb].
  assert (Hlt : (n + k - j) mod k < k) by (apply N.mod_lt; lia).
  apply N.ltb_lt in Hlt. rewrite Hlt. cbn [andb]. f_equal.
  destruct (N.le_gt_cases j n) as [Hjn|Hjn].
  - assert (E1 : n + k - j = (n - j) + 1 * k) by lia.
    rewrite E1, N.mod_add, (N.mod_small (n - j)) by lia.
    destruct (N.le_gt_cases i (n - j)) as [H1|H1].
    + assert (E2 : n - j + k - i = (n - j - i) + 1 * k) by lia.
      assert (E3 : n + k - (i + j) = (n - j - i) + 1 * k) by lia.
      rewrite E2, E3. reflexivity.
    + f_equal. lia.
  - rewrite (N.mod_small (n + k - j)) by lia.
    assert (E2 : n + k - j + k - i = (n + k - (i + j)) + 1 * k) by lia.
    rewrite E2, N.mod_add by lia. reflexivity.
Qed.

Lemma rol_0 k x : 0 < k -> x < 2 ^ k -> rol k x 0 = x.
Proof.
  intros Hk Hx. apply N.bits_inj. intros i. rewrite rol_spec by lia.
  destruct (N.ltb_spec i k) as [Hi|Hi]; cbn [andb].
  - f_equal. rewrite N.sub_0_r. assert (E : i + k = i + 1 * k) by lia.
    rewrite E, N.mod_add by lia. apply N.mod_small; exact Hi.
  - symmetry. apply (testbit_high x k i Hx Hi).
Qed.

Lemma rol_0_l k r : rol k 0 r = 0.
Proof.
  unfold rol, wrap. rewrite N.shiftl_0_l, N.shiftr_0_l. reflexivity.
Qed.
