(* Proofs/AbiCfgTables.v — list lemmas about the verdict tables of the generated files *)
From Coq Require Import ZArith NArith PArith List Bool.
From ISAL Require Import Model.AbiCfg.
Import ListNotations.

Lemma failing_app : forall chk a b, failing chk (a ++ b) = failing chk a ++ failing chk b.
Proof. intros. unfold failing. now rewrite filter_app, map_app. Qed.

(* a function of the table that is not listed as failing passed its check *)
Lemma failing_spec : forall chk fs f, In f fs -> ~ In (fid f) (failing chk fs) -> chk f = true.
Proof.
  intros chk fs f Hin Hn. destruct (chk f) eqn:E; auto.
  exfalso. apply Hn. unfold failing. apply in_map. apply filter_In. split; auto. now rewrite E.
Qed.

Lemma mem_pos_In : forall l p, mem_pos l p = true <-> In p l.
Proof.
  intros. unfold mem_pos. rewrite existsb_exists. split.
  - intros [x [H1 H2]]. apply Pos.eqb_eq in H2. now subst.
  - intros H. exists p. split; auto. apply Pos.eqb_refl.
Qed.
