(* Concrete instances (non-vacuity) for the C03 / C04 theorems: inputs that meet every
   hypothesis, with non-trivial results, by computation. *)
From Coq Require Import NArith List Bool Arith Lia.
From ISAL Require Import Base.Words Base.ListUtil Spec.AES Spec.XTS Spec.CBC Model.KeyExp Model.Xts Model.Cbc
  Proofs.ChunkFacts Proofs.AesFacts Proofs.XtsFacts Proofs.CbcFacts.
Import ListNotations.
Local Open Scope N_scope.

Definition bytesb (l : list N) : bool := forallb (fun b => N.ltb b 256) l.
Lemma bytesb_bytes l : bytesb l = true -> bytes l.
Proof.
  unfold bytesb, bytes. rewrite forallb_forall, Forall_forall. intros H x Hx. apply N.ltb_lt, H, Hx.
Qed.
Definition wfbb (l : list N) : bool := Nat.eqb (length l) 16 && bytesb l.
Lemma wfbb_wfb l : wfbb l = true -> wfb l.
Proof. unfold wfbb. intros H. apply andb_true_iff in H. destruct H as [L B]. split; [apply Nat.eqb_eq, L|apply bytesb_bytes, B]. Qed.
Lemma valid_keyb k : valid_key_len (length k) && bytesb k = true -> valid_key k.
Proof. intros H. apply andb_true_iff in H. destruct H as [V B]. split; [exact V|apply bytesb_bytes, B]. Qed.
Lemma wf_schedb rks : forallb wfbb rks = true -> wf_sched rks.
Proof. unfold wf_sched. rewrite forallb_forall, Forall_forall. intros H x Hx. apply wfbb_wfb, H, Hx. Qed.


Ltac ex_conj := repeat match goal with |- _ /\ _ => split end.
(* goal-directed: `apply` of a lemma whose conclusion is a conjunction tries its projections
   and would evaluate the key expansion by lazy reduction *)
Ltac ex_solve :=
  lazymatch goal with
  | |- valid_key _ => apply valid_keyb; vm_compute; reflexivity
  | |- wfb _ => apply wfbb_wfb; vm_compute; reflexivity
  | |- wf_sched _ => apply wf_schedb; vm_compute; reflexivity
  | |- bytes _ => apply bytesb_bytes; vm_compute; reflexivity
  | |- _ <> _ => vm_compute; discriminate
  | |- _ => vm_compute; reflexivity
  end.

(* AES: the FIPS-197 C.1-C.3 keys are valid, their schedules well formed, and decrypting the
   C.x ciphertext with InvCipher and with the Equivalent Inverse Cipher gives the plaintext *)
Lemma c03_ex_aes :
  (valid_key (kat_c_key 16) /\ valid_key (kat_c_key 24) /\ valid_key (kat_c_key 32)) /\
  (wf_sched (key_expansion (kat_c_key 16)) /\ wf_sched (key_expansion (kat_c_key 24)) /\ wf_sched (key_expansion (kat_c_key 32))) /\
  wfb kat_c_plain /\
  (cipher (key_expansion (kat_c_key 24)) kat_c_plain = kat_C2_cipher /\ kat_C2_cipher <> kat_c_plain) /\
  inv_cipher (key_expansion (kat_c_key 24)) kat_C2_cipher = kat_c_plain /\
  eq_inv_cipher (dec_schedule (key_expansion (kat_c_key 24))) kat_C2_cipher = kat_c_plain.
Proof. ex_conj; ex_solve. Qed.

(* XTS with ciphertext stealing: IEEE 1619 vector 15 (17 bytes) and 17 (19 bytes) *)
Lemma c03_ex_xts_steal :
  valid_key v15_K1 /\ valid_key v15_K2 /\ wfb v15_TW /\ bytes v15_P /\ length v15_P = 17%nat /\
  xts_enc v15_K1 v15_K2 v15_TW v15_P = v15_C /\ firstn 17 v15_C <> v15_P /\
  xts_dec v15_K1 v15_K2 v15_TW v15_C = v15_P /\
  xts_enc_exp (keyexp_enc v15_K2) (keyexp_enc v15_K1) v15_TW v15_P = v15_C /\
  xts_dec_exp (keyexp_enc v15_K2) (keyexp_dec v15_K1) v15_TW v15_C = v15_P.
Proof. ex_conj; ex_solve. Qed.

(* XTS-AES-256, 512 bytes (IEEE 1619 vector 10): a multiple of 16 long enough for every main loop *)
Lemma c03_ex_xts_256 :
  valid_key v10_K1 /\ valid_key v10_K2 /\ wfb v10_TW /\ bytes v10_P /\ length v10_P = 512%nat /\
  xts_enc v10_K1 v10_K2 v10_TW v10_P = v10_C /\ xts_dec v10_K1 v10_K2 v10_TW v10_C = v10_P.
Proof. ex_conj; ex_solve. Qed.

(* a data unit cut into a window of two full blocks and the rest (one block + 3 stolen bytes) *)
Lemma c03_ex_window :
  let p := firstn 51 v10_P in
  let cs := chunks 16 p in
  Forall (fun b => length b = 16%nat) (firstn 2 cs) /\ xshape (skipn 2 cs) /\
  xts_enc_chunks (key_expansion v10_K1) (xts_tweak0 v10_K2 v10_TW) cs =
  xts_enc_chunks (key_expansion v10_K1) (xts_tweak0 v10_K2 v10_TW) (firstn 2 cs) ++
  xts_enc_chunks (key_expansion v10_K1) (xts_tweak_pow 2 (xts_tweak0 v10_K2 v10_TW)) (skipn 2 cs).
Proof.
  cbv zeta. split; [|split].
  - vm_compute. repeat constructor.
  - vm_compute. apply xs_steal; cbn [length]; lia.
  - vm_compute. reflexivity.
Qed.

(* CBC: SP 800-38A F.2.1/F.2.2 (AES-128), F.2.3/F.2.4 (AES-192), F.2.5/F.2.6 (AES-256), 4 blocks *)
Lemma c04_ex_cbc :
  (valid_key cbc_kat_K128 /\ valid_key cbc_kat_K192 /\ valid_key cbc_kat_K256) /\ wfb cbc_kat_IV /\ bytes cbc_kat_P /\
  length cbc_kat_P = (16 * 4)%nat /\
  (cbc_enc cbc_kat_K128 cbc_kat_IV cbc_kat_P = cbc_kat_C128 /\ cbc_kat_C128 <> cbc_kat_P) /\
  cbc_enc cbc_kat_K192 cbc_kat_IV cbc_kat_P = cbc_kat_C192 /\
  cbc_enc cbc_kat_K256 cbc_kat_IV cbc_kat_P = cbc_kat_C256 /\
  cbc_dec cbc_kat_K192 cbc_kat_IV cbc_kat_C192 = cbc_kat_P /\
  cbc_enc_model (keyexp_enc cbc_kat_K192) cbc_kat_IV cbc_kat_P = cbc_kat_C192 /\
  cbc_dec_model (keyexp_dec cbc_kat_K192) cbc_kat_IV cbc_kat_C192 = cbc_kat_P.
Proof. ex_conj; ex_solve. Qed.

(* the decryption schedule of the FIPS-197 A.2 key (AES-192): 13 round keys, Key[0] = w[48..51],
   Key[12] = the first 16 key bytes, Key[5] = InvMixColumns(round key 7), and it is not simply
   the reversed encryption schedule *)
Lemma c04_ex_dec_schedule :
  let rks := key_expansion kat_key192 in
  let d := dec_schedule rks in
  length rks = 13%nat /\ length d = 13%nat /\
  nth 0 d [] = nth 12 rks [] /\ nth 12 d [] = firstn 16 kat_key192 /\
  nth 5 d [] = inv_mix_columns (nth 7 rks []) /\ nth 5 d [] <> nth 7 rks [] /\
  length (keyexp_enc kat_key192) = 208%nat /\ length (keyexp_dec kat_key192) = 208%nat.
Proof. cbv zeta. ex_conj; ex_solve. Qed.
