(* Soundness of the thread-modular checker of Model/SelfTestTM.v: if tm_check accepts a finite
   set PL of (shared, local) pairs, then for EVERY number of threads and EVERY schedule
     - every thread's (shared, local) pair stays in PL (hence satisfies `good`),
     - there is exactly one owner while the shared state is hot and none otherwise,
     - bounded progress: once every potential owner has taken B steps the shared state is
       final, and from then on a thread returns within K of its own steps,
   whatever the other threads do in between. *)
From Coq Require Import List Bool Arith Lia.
From ISAL Require Import Base.ListUtil Model.SelfTestSys Model.SelfTestTM.
Import ListNotations.

(* ------------------------------------------------------------------ lists: upd, nth_error, counting *)

Definition cnt {A} (f : A -> bool) (l : list A) : nat := length (filter f l).

Lemma nth_error_upd_same {A} (l : list A) t a b :
  nth_error l t = Some a -> nth_error (upd t b l) t = Some b.
Proof.
  revert t; induction l as [|x l IH]; intros [|t] H; cbn in *; try discriminate; auto.
Qed.

Lemma nth_error_upd_other {A} (l : list A) t u b :
  u <> t -> nth_error (upd t b l) u = nth_error l u.
Proof.
  revert t u; induction l as [|x l IH]; intros [|t] [|u] H; cbn; auto; try congruence.
Qed.

Lemma upd_length {A} (l : list A) t b : length (upd t b l) = length l.
Proof. revert t; induction l as [|x l IH]; intros [|t]; cbn; auto. Qed.

Lemma cnt_upd {A} (f : A -> bool) (l : list A) t a b :
  nth_error l t = Some a ->
  cnt f (upd t b l) + (if f a then 1 else 0) = cnt f l + (if f b then 1 else 0).
Proof.
  unfold cnt. revert t; induction l as [|x l IH]; intros [|t] H; cbn in *; try discriminate.
  - inversion H; subst. destruct (f a), (f b); cbn; lia.
  - specialize (IH _ H). destruct (f x); cbn; lia.
Qed.

Lemma cnt_two {A} (f : A -> bool) (l : list A) t u a b :
  t <> u -> nth_error l t = Some a -> nth_error l u = Some b -> f a = true -> f b = true ->
  2 <= cnt f l.
Proof.
  unfold cnt. revert t u; induction l as [|x l IH]; intros t u Htu Ht Hu Ha Hb.
  - destruct t; discriminate.
  - assert (P1 : forall v c, nth_error l v = Some c -> f c = true -> 1 <= length (filter f l)).
    { clear. induction l as [|y l IH]; intros [|v] c H Hc; cbn in *; try discriminate.
      - inversion H; subst. rewrite Hc. cbn. lia.
      - specialize (IH _ _ H Hc). destruct (f y); cbn; lia. }
    destruct t as [|t], u as [|u]; cbn in *; try congruence.
    + inversion Ht; subst. rewrite Ha. cbn. specialize (P1 _ _ Hu Hb). lia.
    + inversion Hu; subst. rewrite Hb. cbn. specialize (P1 _ _ Ht Ha). lia.
    + assert (t <> u) by congruence. specialize (IH _ _ H Ht Hu Ha Hb). destruct (f x); cbn; lia.
Qed.

Lemma cnt_zero {A} (f : A -> bool) (l : list A) t a :
  cnt f l = 0 -> nth_error l t = Some a -> f a = false.
Proof.
  unfold cnt. revert t; induction l as [|x l IH]; intros [|t] H0 H; cbn in *; try discriminate.
  - inversion H; subst. destruct (f a); cbn in *; [discriminate | reflexivity].
  - destruct (f x); cbn in *; [discriminate | eauto].
Qed.

Lemma cnt_pos_ex {A} (f : A -> bool) (l : list A) :
  1 <= cnt f l -> exists t a, nth_error l t = Some a /\ f a = true.
Proof.
  unfold cnt. induction l as [|x l IH]; cbn; intros H; [lia|].
  destruct (f x) eqn:E.
  - exists 0, x. auto.
  - destruct (IH H) as (t & a & Ht & Ha). exists (S t), a. auto.
Qed.

Lemma cnt_repeat_false {A} (f : A -> bool) (x : A) n : f x = false -> cnt f (repeat x n) = 0.
Proof. intros H. unfold cnt. induction n; cbn; auto. rewrite H. exact IHn. Qed.

Lemma nth_error_repeat {A} (x : A) n t a : nth_error (repeat x n) t = Some a -> a = x /\ t < n.
Proof.
  revert t; induction n; intros [|t] H; cbn in *; try discriminate.
  - inversion H. split; [reflexivity | lia].
  - destruct (IHn _ H). split; [assumption | lia].
Qed.

Lemma count_occ_app_nat (l1 l2 : list nat) x :
  count_occ Nat.eq_dec (l1 ++ l2) x = count_occ Nat.eq_dec l1 x + count_occ Nat.eq_dec l2 x.
Proof. apply count_occ_app. Qed.

(* ------------------------------------------------------------------ the generic theorem *)

Section TMSound.
  Variables G L : Type.
  Variable geqb : G -> G -> bool.
  Variable leqb : L -> L -> bool.
  Hypothesis geqb_eq : forall a b, geqb a b = true <-> a = b.
  Hypothesis leqb_eq : forall a b, leqb a b = true <-> a = b.
  Variable lstep : G -> L -> G * L.
  Variable own : L -> bool.
  Variables hot cold : G -> bool.
  Variable retd : L -> bool.
  Variable good : G -> L -> bool.
  Variable dist : G -> L -> nat.
  Variables B K : nat.
  Variable PL : list (G * L).
  Variables (g0 : G) (l0 : L).
  Hypothesis Hchk : tm_check G L geqb leqb lstep own hot cold retd good dist B K PL g0 l0 = true.

  Notation inP := (inP G L geqb leqb PL).
  Notation adm := (adm G L own hot).
  Notation final := (final G hot cold).
  Notation sys := (@sys G L).
  Notation sstep := (sstep lstep).
  Notation sexec := (sexec lstep).

  Lemma inP_In g l : inP g l = true <-> In (g, l) PL.
  Proof.
    unfold SelfTestTM.inP. rewrite existsb_exists. split.
    - intros ((g', l') & Hin & H). apply andb_true_iff in H. destruct H as [H1 H2].
      apply geqb_eq in H1. apply leqb_eq in H2. cbn in *. subst. exact Hin.
    - intros Hin. exists (g, l). split; [exact Hin|]. cbn.
      apply andb_true_iff. split; [apply geqb_eq | apply leqb_eq]; reflexivity.
  Qed.

  (* unpack the check *)
  Lemma chk_parts :
    inP g0 l0 = true /\ own l0 = false /\ hot g0 = false /\
    c_own G L geqb leqb lstep own hot PL = true /\ c_interf G L geqb leqb lstep own hot PL = true /\
    c_good G L good PL = true /\ c_live G L geqb lstep own hot cold retd dist B K PL = true.
  Proof.
    pose proof Hchk as H. unfold tm_check in H.
    apply andb_true_iff in H; destruct H as [H H7]. apply andb_true_iff in H; destruct H as [H H6].
    apply andb_true_iff in H; destruct H as [H H5]. apply andb_true_iff in H; destruct H as [H H4].
    apply andb_true_iff in H; destruct H as [H H3]. apply andb_true_iff in H; destruct H as [H1 H2].
    apply negb_true_iff in H2, H3. repeat split; assumption.
  Qed.

  Lemma own_step g l : In (g, l) PL -> adm g l = true ->
    inP (fst (lstep g l)) (snd (lstep g l)) = true /\
    count_ok G L own hot g l (fst (lstep g l)) (snd (lstep g l)) = true.
  Proof.
    intros Hin Ha. destruct chk_parts as (_ & _ & _ & Hc & _).
    unfold c_own in Hc. rewrite forallb_forall in Hc. specialize (Hc _ Hin). cbn in Hc.
    rewrite Ha in Hc. destruct (lstep g l) as [g' l']. cbn. apply andb_true_iff in Hc. exact Hc.
  Qed.

  Lemma interf_step g l l2 : In (g, l2) PL -> In (g, l) PL -> adm g l2 = true ->
    compat G L own hot g l l2 = true -> inP (fst (lstep g l2)) l = true.
  Proof.
    intros Hin2 Hin Ha Hc. destruct chk_parts as (_ & _ & _ & _ & Hi & _).
    unfold c_interf in Hi. rewrite forallb_forall in Hi. specialize (Hi _ Hin2). cbn in Hi.
    rewrite Ha in Hi. destruct (geqb (fst (lstep g l2)) g) eqn:E.
    - apply geqb_eq in E. rewrite E. apply inP_In. exact Hin.
    - rewrite forallb_forall in Hi. specialize (Hi _ Hin). cbn in Hi.
      assert (R : geqb g g = true) by (apply geqb_eq; reflexivity). rewrite R, Hc in Hi. exact Hi.
  Qed.

  Lemma good_In g l : In (g, l) PL -> good g l = true.
  Proof.
    intros Hin. destruct chk_parts as (_ & _ & _ & _ & _ & Hg & _).
    unfold c_good in Hg. rewrite forallb_forall in Hg. exact (Hg _ Hin).
  Qed.

  (* ---------------------------------------------------------------- the invariant *)
  Definition Inv (s : sys) : Prop :=
    (forall u l, nth_error (sths s) u = Some l -> In (sg s, l) PL) /\
    cnt own (sths s) = (if hot (sg s) then 1 else 0).

  Lemma Inv_adm s u l : Inv s -> nth_error (sths s) u = Some l -> adm (sg s) l = true.
  Proof.
    intros [_ Hc] Hu. unfold SelfTestTM.adm. destruct (hot (sg s)) eqn:E; [reflexivity|].
    cbn. rewrite (cnt_zero own _ _ _ Hc Hu). reflexivity.
  Qed.

  Lemma Inv_one_owner s t u a b : Inv s -> t <> u -> nth_error (sths s) t = Some a ->
    nth_error (sths s) u = Some b -> own a = true -> own b = true -> False.
  Proof.
    intros [_ Hc] Htu Ht Hu Ha Hb. pose proof (cnt_two own _ _ _ _ _ Htu Ht Hu Ha Hb) as H2.
    rewrite Hc in H2. destruct (hot (sg s)); lia.
  Qed.

  Lemma Inv_init n : Inv (sinit g0 l0 n).
  Proof.
    destruct chk_parts as (Hi & Ho & Hh & _). split; cbn.
    - intros u l H. apply nth_error_repeat in H. destruct H as [-> _]. apply inP_In. exact Hi.
    - rewrite Hh. apply cnt_repeat_false. exact Ho.
  Qed.

  Lemma sstep_unfold s t l : nth_error (sths s) t = Some l ->
    sstep s t = mkSys (fst (lstep (sg s) l)) (upd t (snd (lstep (sg s) l)) (sths s)).
  Proof. intros H. unfold SelfTestSys.sstep. rewrite H. destruct (lstep (sg s) l). reflexivity. Qed.

  Lemma sstep_none s t : nth_error (sths s) t = None -> sstep s t = s.
  Proof. intros H. unfold SelfTestSys.sstep. rewrite H. reflexivity. Qed.

  Lemma Inv_step s t : Inv s -> Inv (sstep s t).
  Proof.
    intros HI. destruct (nth_error (sths s) t) as [l|] eqn:Ht; [|rewrite (sstep_none _ _ Ht); exact HI].
    rewrite (sstep_unfold _ _ _ Ht). pose proof HI as [Hin Hc].
    pose proof (Inv_adm _ _ _ HI Ht) as Ha.
    destruct (own_step _ _ (Hin _ _ Ht) Ha) as [Hp Hk].
    set (g' := fst (lstep (sg s) l)) in *. set (l' := snd (lstep (sg s) l)) in *.
    split; cbn [sg sths].
    - intros u lu Hu. destruct (Nat.eq_dec u t) as [->|Hne].
      + rewrite (nth_error_upd_same _ _ _ _ Ht) in Hu. inversion Hu; subst. apply inP_In. exact Hp.
      + rewrite (nth_error_upd_other _ _ _ _ Hne) in Hu. apply inP_In.
        apply (interf_step (sg s) lu l); [exact (Hin _ _ Ht) | exact (Hin _ _ Hu) | exact Ha |].
        unfold compat. rewrite Ha, (Inv_adm _ _ _ HI Hu). cbn.
        apply negb_true_iff. apply andb_false_iff.
        destruct (own lu) eqn:E1; [|left; reflexivity]. destruct (own l) eqn:E2; [|right; reflexivity].
        exfalso. exact (Inv_one_owner _ _ _ _ _ HI Hne Hu Ht E1 E2).
    - pose proof (cnt_upd own _ _ _ l' Ht) as Hu. rewrite Hc in Hu.
      unfold count_ok in Hk. fold g' in Hk.
      destruct (hot (sg s)), (hot g'), (own l), (own l'); cbn in *; try discriminate; lia.
  Qed.

  Lemma sexec_cons s t sch : sexec s (t :: sch) = sexec (sstep s t) sch.
  Proof. reflexivity. Qed.
  Lemma sexec_nil s : sexec s [] = s.
  Proof. reflexivity. Qed.

  Lemma Inv_exec s sch : Inv s -> Inv (sexec s sch).
  Proof.
    revert s; induction sch as [|t sch IH]; intros s H; [exact H|].
    rewrite sexec_cons. apply IH. apply Inv_step. exact H.
  Qed.

  (* ---------------------------------------------------------------- safety *)
  Theorem tm_safe n sch u l :
    nth_error (sths (sexec (sinit g0 l0 n) sch)) u = Some l ->
    good (sg (sexec (sinit g0 l0 n) sch)) l = true.
  Proof.
    intros H. apply good_In. exact (proj1 (Inv_exec _ sch (Inv_init n)) _ _ H).
  Qed.

  Lemma sstep_length s t : length (sths (sstep s t)) = length (sths s).
  Proof.
    destruct (nth_error (sths s) t) as [l|] eqn:Ht.
    - rewrite (sstep_unfold _ _ _ Ht). cbn. apply upd_length.
    - rewrite (sstep_none _ _ Ht). reflexivity.
  Qed.

  Lemma sexec_length s sch : length (sths (sexec s sch)) = length (sths s).
  Proof.
    revert s; induction sch as [|t sch IH]; intros s; [reflexivity|].
    rewrite sexec_cons, IH. apply sstep_length.
  Qed.

  (* ---------------------------------------------------------------- liveness *)
  Lemma live_In g l : In (g, l) PL -> adm g l = true ->
    negb (hot g && cold g) = true /\
    (retd l = true -> retd (snd (lstep g l)) = true) /\
    (final g = true -> fst (lstep g l) = g /\
       (retd l = true \/ (dist g l <= K /\ S (dist (fst (lstep g l)) (snd (lstep g l))) <= dist g l))) /\
    (final g = false -> hot g = true -> own l = true ->
       ((hot (fst (lstep g l)) = true /\ own (snd (lstep g l)) = true) \/ final (fst (lstep g l)) = true) /\
       1 <= dist g l <= B /\
       (final (fst (lstep g l)) = true \/ S (dist (fst (lstep g l)) (snd (lstep g l))) <= dist g l)) /\
    (final g = false -> hot g = true -> own l = false -> fst (lstep g l) = g) /\
    (final g = false -> hot g = false ->
       (fst (lstep g l) = g \/ (hot (fst (lstep g l)) = true /\ own (snd (lstep g l)) = true)) /\
       1 <= dist g l <= B /\ S (dist (fst (lstep g l)) (snd (lstep g l))) <= dist g l).
  Proof.
    intros Hin Ha. destruct chk_parts as (_ & _ & _ & _ & _ & _ & Hl).
    unfold c_live in Hl. rewrite forallb_forall in Hl. specialize (Hl _ Hin). cbv beta iota in Hl.
    rewrite Ha in Hl. destruct (lstep g l) as [g' l']. cbn [fst snd].
    apply andb_true_iff in Hl. destruct Hl as [H1 Hl]. apply andb_true_iff in Hl. destruct Hl as [H2 Hl].
    split; [exact H1|]. split.
    { intros Hr. rewrite Hr in H2. exact H2. }
    destruct (final g) eqn:Ef.
    - apply andb_true_iff in Hl. destruct Hl as [H3 H4]. apply geqb_eq in H3.
      repeat split; try discriminate. { exact H3. }
      apply orb_true_iff in H4. destruct H4 as [H4|H4]; [left; exact H4|right].
      apply andb_true_iff in H4. destruct H4 as [H4 H5]. apply Nat.leb_le in H4, H5. lia.
    - split; [discriminate|]. destruct (hot g) eqn:Eh.
      + destruct (own l) eqn:Eo.
        * repeat (apply andb_true_iff in Hl; destruct Hl as [Hl ?]).
          split; [|split; [discriminate|split; discriminate]]. intros _ _ _.
          repeat split.
          -- apply orb_true_iff in Hl. destruct Hl as [Hl|Hl]; [left|right; exact Hl].
             apply andb_true_iff in Hl. exact Hl.
          -- apply Nat.leb_le; assumption.
          -- apply Nat.leb_le; assumption.
          -- apply orb_true_iff in H. destruct H as [H|H]; [left; exact H|right; apply Nat.leb_le; exact H].
        * apply geqb_eq in Hl. split; [discriminate|]. split; [intros _ _ _; exact Hl|]. discriminate.
      + repeat (apply andb_true_iff in Hl; destruct Hl as [Hl ?]).
        split; [discriminate|]. split; [discriminate|]. intros _ _.
        repeat split.
        * apply orb_true_iff in Hl. destruct Hl as [Hl|Hl]; [left; apply geqb_eq; exact Hl|right].
          apply andb_true_iff in Hl. exact Hl.
        * apply Nat.leb_le; assumption.
        * apply Nat.leb_le; assumption.
        * apply Nat.leb_le in H. exact H.
  Qed.

  Lemma final_not_hot g : final g = true -> hot g = false /\ cold g = false.
  Proof. unfold SelfTestTM.final. intros H. apply andb_true_iff in H. destruct H as [H1 H2].
         apply negb_true_iff in H1, H2. auto. Qed.

  (* final is absorbing and freezes the shared state *)
  Lemma final_step s t : Inv s -> final (sg s) = true -> sg (sstep s t) = sg s.
  Proof.
    intros HI Hf. destruct (nth_error (sths s) t) as [l|] eqn:Ht; [|rewrite (sstep_none _ _ Ht); reflexivity].
    rewrite (sstep_unfold _ _ _ Ht). cbn.
    destruct (live_In _ _ (proj1 HI _ _ Ht) (Inv_adm _ _ _ HI Ht)) as (_ & _ & H & _).
    exact (proj1 (H Hf)).
  Qed.

  Lemma final_exec s sch : Inv s -> final (sg s) = true -> sg (sexec s sch) = sg s.
  Proof.
    revert s; induction sch as [|t sch IH]; intros s HI Hf; [reflexivity|].
    rewrite sexec_cons.
    pose proof (final_step s t HI Hf) as E. rewrite IH; [exact E| apply Inv_step; exact HI | rewrite E; exact Hf].
  Qed.

  (* a potential owner: any thread while cold, the owner while hot *)
  Definition pown (s : sys) (u : nat) : Prop :=
    exists l, nth_error (sths s) u = Some l /\
              final (sg s) = false /\ (hot (sg s) = true -> own l = true).

  Definition distT (s : sys) (u : nat) : nat :=
    match nth_error (sths s) u with Some l => dist (sg s) l | None => 0 end.

  (* one step: a potential owner after the step was one before, and its rank dropped if it moved *)
  Lemma pown_step s a u : Inv s -> final (sg (sstep s a)) = false -> pown (sstep s a) u ->
    pown s u /\ distT (sstep s a) u + (if Nat.eq_dec a u then 1 else 0) <= distT s u /\ 1 <= distT s u <= B.
  Proof.
    intros HI Hnf Hp.
    destruct (nth_error (sths s) a) as [la|] eqn:Ha.
    2:{ rewrite (sstep_none _ _ Ha) in *. destruct Hp as (l & Hu & Hf & Ho).
        split; [exists l; auto|]. unfold distT. rewrite Hu.
        assert (a <> u) by (intros ->; congruence). destruct (Nat.eq_dec a u); [contradiction|].
        pose proof (live_In _ _ (proj1 HI _ _ Hu) (Inv_adm _ _ _ HI Hu)) as (_ & _ & _ & L2 & _ & L4).
        destruct (hot (sg s)) eqn:Eh.
        - destruct (L2 Hf eq_refl (Ho eq_refl)) as (_ & Hd & _). lia.
        - destruct (L4 Hf eq_refl) as (_ & Hd & _). lia. }
    pose proof (Inv_adm _ _ _ HI Ha) as Hadm.
    pose proof (live_In _ _ (proj1 HI _ _ Ha) Hadm) as (Hx & _ & L1 & L2 & L3 & L4).
    pose proof (own_step _ _ (proj1 HI _ _ Ha) Hadm) as [_ Hk].
    rewrite (sstep_unfold _ _ _ Ha) in *. cbn [sg sths] in *.
    set (g' := fst (lstep (sg s) la)) in *. set (l' := snd (lstep (sg s) la)) in *.
    assert (Hfs : final (sg s) = false).
    { destruct (final (sg s)) eqn:E; [|reflexivity]. destruct (L1 eq_refl) as [Hg _]. fold g' in Hg.
      rewrite Hg in Hnf. congruence. }
    destruct Hp as (l & Hu & _ & Ho). cbn [sg sths] in Hu, Ho. unfold distT. cbn [sg sths]. rewrite Hu.
    destruct (Nat.eq_dec a u) as [->|Hne].
    - (* the mover itself *)
      rewrite (nth_error_upd_same _ _ _ _ Ha) in Hu. inversion Hu; subst l. rewrite Ha.
      destruct (hot (sg s)) eqn:Eh.
      + destruct (own la) eqn:Eo.
        * destruct (L2 Hfs eq_refl eq_refl) as (_ & Hd & [Hd2|Hd2]); [fold g' in Hd2; congruence|].
          split; [exists la; auto|]. fold g' l' in Hd2. lia.
        * (* a non-owner cannot become owner while hot *)
          pose proof (L3 Hfs eq_refl eq_refl) as Hg. fold g' in Hg.
          unfold count_ok in Hk. fold g' in Hk. rewrite Hg, Eh, Eo in Hk. cbn in Hk.
          rewrite Hg, Eh in Ho. specialize (Ho eq_refl). fold l' in Hk. rewrite Ho in Hk. discriminate.
      + destruct (L4 Hfs eq_refl) as (_ & Hd & Hd2). fold g' l' in Hd2.
        split; [exists la; split; [exact Ha|split; [exact Hfs|intros X; congruence]]|]. lia.
    - (* somebody else moved *)
      rewrite (nth_error_upd_other _ _ _ _ (not_eq_sym Hne)) in Hu. rewrite Hu.
      pose proof (live_In _ _ (proj1 HI _ _ Hu) (Inv_adm _ _ _ HI Hu)) as (_ & _ & _ & M2 & _ & M4).
      destruct (hot (sg s)) eqn:Eh.
      + destruct (own la) eqn:Eo.
        * (* the owner moved: then u, a potential owner afterwards, would be a second owner *)
          destruct (L2 Hfs eq_refl eq_refl) as ([[Hh _]|Hh] & _); [|fold g' in Hh; congruence].
          fold g' in Hh. specialize (Ho Hh). exfalso. exact (Inv_one_owner _ _ _ _ _ HI Hne Ha Hu Eo Ho).
        * pose proof (L3 Hfs eq_refl eq_refl) as Hg. fold g' in Hg. rewrite Hg in *.
          specialize (Ho Eh). split; [exists l; auto|].
          destruct (M2 Hfs eq_refl Ho) as (_ & Hd & _). lia.
      + destruct (L4 Hfs eq_refl) as ([Hg|[Hh Hol]] & _).
        * fold g' in Hg. rewrite Hg in *. split; [exists l; split; [exact Hu|split; [exact Hfs|intros X; congruence]]|].
          destruct (M4 Hfs eq_refl) as (_ & Hd & _). lia.
        * (* a became the owner: u cannot be one *)
          fold g' in Hh. specialize (Ho Hh). exfalso.
          pose proof (cnt_zero own _ _ _ (eq_trans (proj2 HI) ltac:(rewrite Eh; reflexivity)) Hu). congruence.
  Qed.

  Lemma final_absorb_exec s sch : Inv s -> final (sg s) = true -> final (sg (sexec s sch)) = true.
  Proof. intros HI Hf. rewrite (final_exec _ _ HI Hf). exact Hf. Qed.

  Lemma pown_exec sch : forall s u, Inv s -> final (sg (sexec s sch)) = false -> pown (sexec s sch) u ->
    pown s u /\ distT (sexec s sch) u + count_occ Nat.eq_dec sch u <= distT s u.
  Proof.
    induction sch as [|a sch IH]; intros s u HI Hnf Hp.
    - rewrite sexec_nil in *. cbn. split; [exact Hp | lia].
    - rewrite sexec_cons in *. cbn [count_occ].
      destruct (IH _ _ (Inv_step _ a HI) Hnf Hp) as [Hp1 Hd1].
      assert (Hnf1 : final (sg (sstep s a)) = false).
      { destruct (final (sg (sstep s a))) eqn:E; [|reflexivity].
        rewrite (final_absorb_exec _ sch (Inv_step _ a HI) E) in Hnf. discriminate. }
      destruct (pown_step _ _ _ HI Hnf1 Hp1) as (Hp0 & Hd0 & _).
      split; [exact Hp0|]. destruct (Nat.eq_dec a u); lia.
  Qed.

  (* Stage 1: once every potential owner of s has taken more than B steps (any other steps
     interleaved), the shared state is final *)
  Theorem tm_reaches_final s sch : Inv s -> 1 <= length (sths s) ->
    (forall u, pown s u -> B <= count_occ Nat.eq_dec sch u) ->
    final (sg (sexec s sch)) = true.
  Proof.
    intros HI Hn Hfair. destruct (final (sg (sexec s sch))) eqn:Ef; [reflexivity|exfalso].
    pose proof (Inv_exec _ sch HI) as HI'.
    (* some potential owner exists in the end state *)
    assert (Hex : exists u, pown (sexec s sch) u).
    { destruct (hot (sg (sexec s sch))) eqn:Eh.
      - pose proof (proj2 HI') as Hc. rewrite Eh in Hc.
        destruct (cnt_pos_ex own (sths (sexec s sch))) as (u & l & Hu & Ho); [lia|].
        exists u, l. auto.
      - destruct (nth_error (sths (sexec s sch)) 0) as [l|] eqn:H0.
        + exists 0, l. repeat split; auto. congruence.
        + apply nth_error_None in H0. rewrite sexec_length in H0. lia. }
    destruct Hex as [u Hp]. destruct (pown_exec sch s u HI Ef Hp) as [Hp0 Hd].
    specialize (Hfair _ Hp0).
    (* the rank of u at the end is at least 1 *)
    destruct Hp as (l & Hu & _ & Ho).
    pose proof (live_In _ _ (proj1 HI' _ _ Hu) (Inv_adm _ _ _ HI' Hu)) as (_ & _ & _ & L2 & _ & L4).
    assert (1 <= distT (sexec s sch) u).
    { unfold distT. rewrite Hu. destruct (hot (sg (sexec s sch))) eqn:Eh.
      - destruct (L2 Ef eq_refl (Ho eq_refl)) as (_ & Hd1 & _). lia.
      - destruct (L4 Ef eq_refl) as (_ & Hd1 & _). lia. }
    (* and at the start at most B *)
    destruct Hp0 as (l0' & Hu0 & Hf0 & Ho0).
    pose proof (live_In _ _ (proj1 HI _ _ Hu0) (Inv_adm _ _ _ HI Hu0)) as (_ & _ & _ & N2 & _ & N4).
    assert (distT s u <= B).
    { unfold distT. rewrite Hu0. destruct (hot (sg s)) eqn:Eh.
      - destruct (N2 Hf0 eq_refl (Ho0 eq_refl)) as (_ & Hd1 & _). lia.
      - destruct (N4 Hf0 eq_refl) as (_ & Hd1 & _). lia. }
    lia.
  Qed.

  (* Stage 2: in a final state a thread returns within K of its own steps *)
  Definition retdT (s : sys) (t : nat) : bool :=
    match nth_error (sths s) t with Some l => retd l | None => false end.

  Lemma final_thread_step s a t : Inv s -> final (sg s) = true -> t < length (sths s) ->
    (retdT s t = true -> retdT (sstep s a) t = true) /\
    (retdT s t = false -> retdT (sstep s a) t = true \/
        (distT (sstep s a) t + (if Nat.eq_dec a t then 1 else 0) <= distT s t /\ distT s t <= K)).
  Proof.
    intros HI Hf Ht.
    destruct (nth_error (sths s) t) as [lt|] eqn:Hlt; [|apply nth_error_None in Hlt; lia].
    pose proof (live_In _ _ (proj1 HI _ _ Hlt) (Inv_adm _ _ _ HI Hlt)) as (_ & T1 & T2 & _).
    destruct (nth_error (sths s) a) as [la|] eqn:Ha.
    2:{ rewrite (sstep_none _ _ Ha). split; [auto|]. intros Hr. right.
        assert (a <> t) by (intros ->; congruence). destruct (Nat.eq_dec a t); [contradiction|].
        unfold retdT in Hr. rewrite Hlt in Hr. destruct (T2 Hf) as [_ [Hr'|Hd]]; [congruence|].
        unfold distT. rewrite Hlt. lia. }
    pose proof (final_step s a HI Hf) as Hg.
    rewrite (sstep_unfold _ _ _ Ha) in *. cbn [sg sths] in *.
    unfold retdT, distT. cbn [sg sths]. rewrite Hlt.
    destruct (Nat.eq_dec a t) as [->|Hne].
    - rewrite Ha in Hlt. inversion Hlt; subst la. rewrite (nth_error_upd_same _ _ _ _ Ha).
      split; [exact T1|]. intros Hr. destruct (T2 Hf) as [Hg' [Hr'|Hd]]; [congruence|].
      right. rewrite Hg' in Hd. rewrite Hg'. lia.
    - rewrite (nth_error_upd_other _ _ _ _ (not_eq_sym Hne)), Hlt. split; [auto|].
      intros Hr. right. rewrite Hg. destruct (T2 Hf) as [_ [Hr'|Hd]]; [congruence|]. lia.
  Qed.

  Theorem tm_returns sch : forall s t, Inv s -> final (sg s) = true -> t < length (sths s) ->
    K <= count_occ Nat.eq_dec sch t -> retdT (sexec s sch) t = true.
  Proof.
    assert (Gen : forall sch s t, Inv s -> final (sg s) = true -> t < length (sths s) ->
              retdT (sexec s sch) t = true \/
              (retdT s t = false /\ distT (sexec s sch) t + count_occ Nat.eq_dec sch t <= distT s t /\ distT s t <= K)).
    { clear sch. induction sch as [|a sch IH]; intros s t HI Hf Ht; [rewrite sexec_nil | rewrite sexec_cons]; cbn [count_occ].
      - destruct (retdT s t) eqn:E; [left; reflexivity|right]. split; [reflexivity|].
        destruct (nth_error (sths s) t) as [lt|] eqn:Hlt; [|apply nth_error_None in Hlt; lia].
        pose proof (live_In _ _ (proj1 HI _ _ Hlt) (Inv_adm _ _ _ HI Hlt)) as (_ & _ & T2 & _).
        unfold retdT in E. rewrite Hlt in E. destruct (T2 Hf) as [_ [Hr|Hd]]; [congruence|].
        unfold distT. rewrite Hlt. lia.
      - pose proof (Inv_step _ a HI) as HI1.
        assert (Hf1 : final (sg (sstep s a)) = true) by (rewrite (final_step _ a HI Hf); exact Hf).
        assert (Ht1 : t < length (sths (sstep s a))) by (rewrite sstep_length; exact Ht).
        destruct (IH (sstep s a) t HI1 Hf1 Ht1) as [H|(Hr1 & Hd1 & Hk1)]; [left; exact H|].
        destruct (final_thread_step s a t HI Hf Ht) as [Hk Hs].
        destruct (retdT s t) eqn:E; [rewrite (Hk eq_refl) in Hr1; discriminate|].
        destruct (Hs eq_refl) as [Hr|[Hd0 Hk0]]; [congruence|].
        right. split; [reflexivity|]. destruct (Nat.eq_dec a t); lia. }
    intros s t HI Hf Ht Hc. destruct (Gen sch s t HI Hf Ht) as [H|(Hr & Hd & Hk)]; [exact H|].
    (* K own steps with a rank that is at most K and at least 1 while not returned *)
    destruct (retdT (sexec s sch) t) eqn:E; [reflexivity|exfalso].
    pose proof (Inv_exec _ sch HI) as HI'.
    assert (Hf' : final (sg (sexec s sch)) = true) by (apply final_absorb_exec; assumption).
    assert (Ht' : t < length (sths (sexec s sch))) by (rewrite sexec_length; exact Ht).
    destruct (nth_error (sths (sexec s sch)) t) as [lt|] eqn:Hlt; [|apply nth_error_None in Hlt; lia].
    pose proof (live_In _ _ (proj1 HI' _ _ Hlt) (Inv_adm _ _ _ HI' Hlt)) as (_ & _ & T2 & _).
    unfold retdT in E. rewrite Hlt in E. destruct (T2 Hf') as [_ [Hr'|Hd']]; [congruence|].
    unfold distT in Hd at 1. rewrite Hlt in Hd. lia.
  Qed.
End TMSound.
