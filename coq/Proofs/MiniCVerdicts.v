(* MiniCVerdicts — the verified checkers run on the tables regenerated from the current tree
   (Gen/WrappersGen.v, Gen/WrappersFipsGen.v): the obligations of C13 / C16, by vm_compute.

   known16 / known13 list the entry points with a confirmed defect on the tree this framework
   was built against (fixes/F4*.patch, F5*.patch, F6*.patch, F10*.patch, F13*.patch, reported
   at run time by ./check with a replay).  An entry point passes its obligation if the checker
   accepts it OR it is listed: so the file compiles before and after a fix is applied, and any
   other entry point that stops satisfying the property breaks the obligation.  Once the fixes
   are in /repo both lists can be emptied (the obligations then cover all 72 entry points). *)
From Coq Require Import NArith List Bool.
From ISAL Require Import Model.MiniC Model.MiniCCheck Model.MiniCInst Gen.WrappersGen Gen.WrappersFipsGen Spec.WrapperSpec.
Import ListNotations.
Local Open Scope N_scope.

(* All of F4, F5, F6, F10 and the NULL-buffer defect are fixed in /repo (known_findings.json,
   "fixed" entries): both lists are empty, so the obligations cover all 72 entry points. *)
Definition known16 : list N := [].
Definition known13 : list N := [].

Definition listed (l : list N) (e : espec) : bool := existsb (N.eqb (e_id e)) l.

Lemma verdict_covers : spec_covers = true.
Proof. vm_cast_no_check (eq_refl true). Qed.

Lemma verdict16 : forallb (fun e => listed known16 e || c16 e) specs = true.
Proof. vm_cast_no_check (eq_refl true). Qed.

Lemma verdict_legacy : forallb c16_legacy specs = true.
Proof. vm_cast_no_check (eq_refl true). Qed.

Lemma verdict13 : forallb (fun e => listed known13 e || c13 e) specs = true.
Proof. vm_cast_no_check (eq_refl true). Qed.

(* ------------------------------------------------------------------ consequences, per entry point *)
From ISAL Require Import Proofs.MiniCFacts Proofs.MiniCSound.

Definition aes_id := id_u_aes_self_tests.
Definition sha_id := id_u_sha_self_tests.

Lemma entry16 : forall e, In e specs -> listed known16 e = false -> is_neutral e = false ->
  check16 WrappersGen.table e = true.
Proof.
  intros e He Hk Hn. pose proof verdict16 as V. rewrite forallb_forall in V. specialize (V e He).
  rewrite Hk in V. unfold c16 in V. rewrite Hn in V. exact V.
Qed.

Lemma entry13 : forall e, In e specs -> listed known13 e = false ->
  check13 aes_id sha_id WrappersFipsGen.table e = true.
Proof.
  intros e He Hk. pose proof verdict13 as V. rewrite forallb_forall in V. specialize (V e He).
  rewrite Hk in V. exact V.
Qed.

Section PerEntry.
  Variable e : espec.
  Hypothesis He : In e specs.

  (* C16 on the default (SAFE_PARAM, non-FIPS) build *)
  Section Default.
    Variable d : fundef.
    Hypothesis Hd : ftab_get WrappersGen.table (e_id e) = Some d.
    Hypothesis Hk : listed known16 e = false.
    Hypothesis Hn : is_neutral e = false.

    Lemma f16_refuses : forall w, must_refuse w e -> refusal e w (run WrappersGen.table w d).
    Proof. exact (c16_refuses _ _ _ Hd (entry16 e He Hk Hn)). Qed.
    Lemma f16_serves : forall w, ~ may_refuse w e -> ~ must_refuse w e -> service e w (run WrappersGen.table w d).
    Proof. exact (c16_serves _ _ _ Hd (entry16 e He Hk Hn)). Qed.
    Lemma f16_total : forall w, refusal e w (run WrappersGen.table w d) \/ service e w (run WrappersGen.table w d).
    Proof. exact (c16_total _ _ _ Hd (entry16 e He Hk Hn)). Qed.
  End Default.

  Lemma f16_legacy : forall l, In l (e_legacy e) -> sh_inline (e_shape e) = false ->
    exists d r, ftab_get WrappersGen.table l = Some d /\
      entry_tree WrappersGen.table d = Leaf r [EvCall (sh_callee (e_shape e)) (arg_keys 0 (f_params d))] /\
      length (f_params d) = length (sh_args (e_shape e)).
  Proof.
    intros l Hl Hi. pose proof verdict_legacy as V. rewrite forallb_forall in V. specialize (V e He).
    unfold c16_legacy, check_legacy in V. rewrite forallb_forall in V.
    exact (legacy_ok_spec _ _ _ Hi (V l Hl)).
  Qed.

  (* C13 on the FIPS build *)
  Section Fips.
    Variable d : fundef.
    Hypothesis Hd : ftab_get WrappersFipsGen.table (e_id e) = Some d.
    Hypothesis Hk : listed known13 e = false.

    Lemma f13_nonapproved : e_class e = NonApproved ->
      forall w, run WrappersFipsGen.table w d = Leaf (Some (SConst ERR_FIPS_INVALID_ALGO)) [].
    Proof. exact (c13_nonapproved _ _ _ _ _ Hd (entry13 e He Hk)). Qed.
    Lemma f13_failed : e_class e = Approved -> forall w, valid e w -> w KStatus = 1 ->
      exists r tr, run WrappersFipsGen.table w d = Leaf r tr /\ no_work aes_id sha_id tr = true /\
                   (ret_is r ERR_SELF_TEST = true \/ ret_is r ERR_XTS_SAME_KEYS = true).
    Proof. exact (c13_failed_blocks _ _ _ _ _ Hd (entry13 e He Hk)). Qed.
    Lemma f13_order : e_class e = Approved -> forall w, valid e w ->
      exists r tr, run WrappersFipsGen.table w d = Leaf r tr /\
        (no_work aes_id sha_id tr = false ->
         calls B_CHECK (before_work aes_id sha_id tr) = true /\ w KStatus <> 1 /\
         (w KStatus = 0 \/
          (calls aes_id (before_work aes_id sha_id tr) = true /\ calls sha_id (before_work aes_id sha_id tr) = true /\
           w (KExt aes_id 0) = 0 /\ w (KExt sha_id 0) = 0))).
    Proof. exact (c13_no_work_before_tests _ _ _ _ _ Hd (entry13 e He Hk)). Qed.
    Lemma f13_failing_run : e_class e = Approved -> forall w, valid e w ->
      w KStatus <> 0 -> w KStatus <> 1 -> ~ (w (KExt aes_id 0) = 0 /\ w (KExt sha_id 0) = 0) ->
      exists r tr, run WrappersFipsGen.table w d = Leaf r tr /\ no_work aes_id sha_id tr = true /\
                   (ret_is r ERR_SELF_TEST = true \/ ret_is r ERR_XTS_SAME_KEYS = true).
    Proof. exact (c13_failing_run_blocks _ _ _ _ _ Hd (entry13 e He Hk)). Qed.
    Lemma f13_passed : e_class e = Approved -> forall w, valid e w -> w KStatus = 0 ->
      exists r tr, run WrappersFipsGen.table w d = Leaf r tr /\
        (refused aes_id sha_id r tr = true \/ shape_ok (e_shape e) r (core aes_id sha_id tr) = true \/
         (eval_form w (e_pre e) = false /\ ret_is r 0 = true /\ no_work aes_id sha_id tr = true)).
    Proof. exact (c13_passed_serves _ _ _ _ _ Hd (entry13 e He Hk)). Qed.
    Lemma f13_same_keys : e_class e = Approved -> forall w, valid e w -> eval_form w (e_samekey e) = true ->
      exists r tr, run WrappersFipsGen.table w d = Leaf r tr /\ ret_is r ERR_XTS_SAME_KEYS = true /\
                   no_call aes_id sha_id tr = true.
    Proof. exact (c13_same_keys_refused _ _ _ _ _ Hd (entry13 e He Hk)). Qed.
  End Fips.
End PerEntry.

(* ------------------------------------------------------------------ non-vacuity witnesses *)

Definition e_gcm := gcm_full id_isal_aes_gcm_enc_128 id_u_aes_gcm_enc_128 [id_aes_gcm_enc_128].
(* all pointers valid, len 16, aad_len 0, tag length 16 *)
Definition w_good : world := world_of [(KArg 0, 1); (KArg 1, 1); (KArg 2, 1); (KArg 3, 1); (KArg 4, 16); (KArg 5, 1);
                                       (KArg 6, 1); (KArg 7, 0); (KArg 8, 1); (KArg 9, 16)].
(* in == NULL with len 16 *)
Definition w_null_src : world := world_of [(KArg 0, 1); (KArg 1, 1); (KArg 2, 1); (KArg 3, 0); (KArg 4, 16); (KArg 5, 1);
                                           (KArg 6, 1); (KArg 7, 0); (KArg 8, 1); (KArg 9, 16)].

Lemma nonvac16 :
  In e_gcm specs /\ listed known16 e_gcm = false /\ is_neutral e_gcm = false /\
  ftab_get WrappersGen.table (e_id e_gcm) = Some WrappersGen.fn_isal_aes_gcm_enc_128 /\
  must_refuse w_null_src e_gcm /\
  (exists tr, run WrappersGen.table w_null_src WrappersGen.fn_isal_aes_gcm_enc_128 = Leaf (Some (SConst NULL_SRC)) tr /\
              quiet tr = true) /\
  ~ may_refuse w_good e_gcm /\
  (exists tr, run WrappersGen.table w_good WrappersGen.fn_isal_aes_gcm_enc_128 = Leaf (Some (SConst 0)) tr /\
              no_enter tr = [EvCall id_u_aes_gcm_enc_128 (map arg [0;1;2;3;4;5;6;7;8;9])]).
Proof.
  split; [ left; reflexivity |]. split; [ vm_compute; reflexivity |]. split; [ reflexivity |].
  split; [ vm_compute; reflexivity |].
  split; [ exists (p_src_if 3 4); split; [ vm_compute; tauto | vm_compute; reflexivity ] |].
  split; [ vm_compute; eexists; split; reflexivity |].
  split; [| vm_compute; eexists; split; reflexivity ].
  intros [p [Hp Hv]]. vm_compute in Hp.
  repeat (destruct Hp as [Hp|Hp]; [ subst p; vm_compute in Hv; discriminate |]). destruct Hp.
Qed.

Definition e_cbc := cbc_dec id_isal_aes_cbc_dec_192 id_u_aes_cbc_dec_192 [id_aes_cbc_dec_192].
Definition w_failed : world := world_of [(KArg 0, 1); (KArg 1, 1); (KArg 2, 1); (KArg 3, 1); (KArg 4, 32); (KStatus, 1)].
Definition w_notrun_aes_fails : world :=
  world_of [(KArg 0, 1); (KArg 1, 1); (KArg 2, 1); (KArg 3, 1); (KArg 4, 32); (KStatus, 2); (KExt aes_id 0, 1)].

Lemma nonvac13 :
  In e_cbc specs /\ listed known13 e_cbc = false /\ e_class e_cbc = Approved /\
  ftab_get WrappersFipsGen.table (e_id e_cbc) = Some WrappersFipsGen.fn_isal_aes_cbc_dec_192 /\
  valid e_cbc w_failed /\ w_failed KStatus = 1 /\
  (exists tr, run WrappersFipsGen.table w_failed WrappersFipsGen.fn_isal_aes_cbc_dec_192 =
      Leaf (Some (SConst ERR_SELF_TEST)) tr /\
      no_work aes_id sha_id tr = true /\ calls B_CHECK tr = true /\ calls aes_id tr = false) /\
  valid e_cbc w_notrun_aes_fails /\
  (exists tr, run WrappersFipsGen.table w_notrun_aes_fails WrappersFipsGen.fn_isal_aes_cbc_dec_192 =
      Leaf (Some (SConst ERR_SELF_TEST)) tr /\
      no_work aes_id sha_id tr = true /\ calls B_CHECK tr = true /\ calls aes_id tr = true /\
      calls B_SET tr = true).
Proof.
  assert (V : forall w, (forall p, In p (e_params e_cbc) -> eval_form w (p_may p) = false) -> valid e_cbc w)
    by (intros w H; exact H).
  split; [ vm_compute; tauto |]. split; [ vm_compute; reflexivity |]. split; [ reflexivity |].
  split; [ vm_compute; reflexivity |].
  split; [ apply V; intros p Hp; vm_compute in Hp; repeat (destruct Hp as [Hp|Hp]; [ subst p; vm_compute; reflexivity |]); destruct Hp |].
  split; [ vm_compute; reflexivity |].
  split; [ eexists; split; [ vm_compute; reflexivity | vm_compute; repeat split ] |].
  split; [ apply V; intros p Hp; vm_compute in Hp; repeat (destruct Hp as [Hp|Hp]; [ subst p; vm_compute; reflexivity |]); destruct Hp |].
  eexists; split; [ vm_compute; reflexivity | vm_compute; repeat split ].
Qed.
