(* C18 — proofs: soundness of the inventory rules, the generic commutation theorem for threads
   on private objects, and the first-call race of a dispatch stub. *)
From Coq Require Import String List Bool Arith NArith Lia.
From ISAL Require Import Base.ListUtil Model.SelfTestSys Model.Statics Proofs.SelfTestTMFacts.
Import ListNotations.

(* ------------------------------------------------------------------ 1. the rules mean what they say *)

(* what store_allowed establishes, as a proposition *)
Definition store_ok (s : store) : Prop :=
  (suffixb DISP (so_target s) = true /\ substrb "multibinary" (so_obj s) = true /\
   substrb (entry_core (so_target s)) (so_func s) = true /\ 2 <= String.length (entry_core (so_target s)))
  \/ (so_target s = "self_test_status"%string /\ so_obj s = "asm_self_tests.o"%string).

Lemma store_allowed_sound s : store_allowed s = true -> store_ok s.
Proof.
  unfold store_allowed, store_ok. intros H. apply orb_true_iff in H. destruct H as [H|H].
  - left. apply andb_true_iff in H; destruct H as [H H5]. apply andb_true_iff in H; destruct H as [H H4].
    apply andb_true_iff in H; destruct H as [H H3]. apply andb_true_iff in H; destruct H as [H1 H2].
    repeat split; auto. apply Nat.leb_le. exact H3.
  - right. apply andb_true_iff in H. destruct H as [H1 H2]. apply String.eqb_eq in H1, H2. auto.
Qed.

Lemma written_statics_allowed_sound l : written_statics_allowed l = true -> forall s, In s l -> store_ok s.
Proof.
  unfold written_statics_allowed. intros H s Hin. rewrite forallb_forall in H.
  apply store_allowed_sound. apply H. exact Hin.
Qed.

Lemma statics_ok_sound st bss cst ptrs : statics_ok st bss cst ptrs = true ->
  (forall s, In s st -> store_ok s) /\
  (forall w, In w bss -> is_version_stamp (ws_name w) = true) /\
  (forall w, In w cst -> cstatic_allowed w = true) /\
  (ptrs <> [] /\ forall p, In p ptrs -> ptr_aligned p = true).
Proof.
  unfold statics_ok. intros H. apply andb_true_iff in H; destruct H as [H H0]. apply andb_true_iff in H; destruct H as [H H1].
  apply andb_true_iff in H; destruct H as [H H2].
  split; [apply written_statics_allowed_sound; exact H|].
  split; [intros w Hw; unfold bss_allowed in H2; rewrite forallb_forall in H2; exact (H2 _ Hw)|].
  split; [intros w Hw; unfold c_statics_allowed in H1; rewrite forallb_forall in H1; exact (H1 _ Hw)|].
  unfold dispatch_ptrs_ok in H0. apply andb_true_iff in H0. destruct H0 as [Hl Hp]. split.
  - intros ->. cbn in Hl. discriminate.
  - intros p Hin. rewrite forallb_forall in Hp. exact (Hp _ Hin).
Qed.

(* ------------------------------------------------------------------ 2. threads on private objects *)

Section Disjoint.
  Variables Obj V : Type.
  Variable ro : Obj -> bool.          (* objects nobody writes: constant tables, keys shared read-only *)
  Notation mem := (Obj -> V).

  (* a step of a thread that owns `own`: it writes only what the thread owns (frame), and what it
     writes there depends only on what the thread owns and on read-only objects (locality) *)
  Definition step_wf (own : Obj -> bool) (f : mem -> mem) : Prop :=
    (forall m o, own o = false -> f m o = m o) /\
    (forall m m', (forall o, own o = true \/ ro o = true -> m o = m' o) ->
                  forall o, own o = true -> f m o = f m' o).

  Definition thread_wf (l : othread Obj V) : Prop :=
    (forall o, ot_own l o = true -> ro o = false) /\ Forall (step_wf (ot_own l)) (ot_todo l).

  Definition disjoint (ths : list (othread Obj V)) : Prop :=
    forall i j a b o, i <> j -> nth_error ths i = Some a -> nth_error ths j = Some b ->
                      ot_own a o = true -> ot_own b o = false.

  Lemma run_alone_frame own steps g o : Forall (step_wf own) steps -> own o = false ->
    run_alone steps g o = g o.
  Proof.
    revert g; induction steps as [|f r IH]; intros g Hw Ho; [reflexivity|].
    inversion Hw; subst. change (run_alone (f :: r) g) with (run_alone r (f g)).
    rewrite (IH (f g) H2 Ho). exact (proj1 H1 g o Ho).
  Qed.

  Lemma run_alone_snoc steps f (g : mem) : run_alone (steps ++ [f]) g = f (run_alone steps g).
  Proof. unfold run_alone. rewrite fold_left_app. reflexivity. Qed.

  (* the relation between the state reached by an interleaving and the threads run alone *)
  Definition related (g0 : mem) (ths0 : list (othread Obj V)) (s : sys mem (othread Obj V)) : Prop :=
    length (sths s) = length ths0 /\
    (forall o, ro o = true -> sg s o = g0 o) /\
    forall i l0, nth_error ths0 i = Some l0 ->
      exists k, nth_error (sths s) i = Some (mkOT (ot_own l0) (skipn k (ot_todo l0))) /\
                forall o, ot_own l0 o = true -> sg s o = run_alone (firstn k (ot_todo l0)) g0 o.

  Lemma firstn_S_skipn {A} (l : list A) k f r : skipn k l = f :: r ->
    firstn (S k) l = firstn k l ++ [f] /\ skipn (S k) l = r.
  Proof.
    revert l; induction k as [|k IH]; intros l H.
    - cbn in H. subst. split; reflexivity.
    - destruct l as [|x l]; [discriminate|]. cbn [skipn] in H. destruct (IH _ H) as [H1 H2].
      split; [change (firstn (S (S k)) (x :: l)) with (x :: firstn (S k) l); rewrite H1; reflexivity | exact H2].
  Qed.

  Lemma Forall_skipn_head {A} (P : A -> Prop) (l : list A) k f r :
    Forall P l -> skipn k l = f :: r -> P f.
  Proof.
    intros H E. assert (In f l). { rewrite <- (firstn_skipn k l). apply in_or_app. right. rewrite E. left. reflexivity. }
    rewrite Forall_forall in H. auto.
  Qed.

  Lemma Forall_firstn {A} (P : A -> Prop) (l : list A) k : Forall P l -> Forall P (firstn k l).
  Proof.
    intros H. rewrite Forall_forall in *. intros x Hx. apply H.
    rewrite <- (firstn_skipn k l). apply in_or_app. left. exact Hx.
  Qed.

  Lemma ostep_nil (g : mem) (own : Obj -> bool) : ostep g (mkOT own (@nil (mem -> mem))) = (g, mkOT own []).
  Proof. reflexivity. Qed.
  Lemma ostep_cons (g : mem) (own : Obj -> bool) (f : mem -> mem) r : ostep g (mkOT own (f :: r)) = (f g, mkOT own r).
  Proof. reflexivity. Qed.

  Lemma related_step g0 ths0 s a :
    Forall thread_wf ths0 -> disjoint ths0 -> related g0 ths0 s -> related g0 ths0 (sstep ostep s a).
  Proof.
    intros Hwf Hdis (Hlen & Hro & Hth).
    destruct (nth_error (sths s) a) as [la|] eqn:Ha.
    2:{ rewrite (sstep_none _ _ _ _ _ Ha). split; [exact Hlen|split; assumption]. }
    assert (Ha0 : exists l0, nth_error ths0 a = Some l0).
    { destruct (nth_error ths0 a) eqn:E; [eauto|]. apply nth_error_None in E.
      assert (a < length (sths s)) by (apply nth_error_Some; congruence). lia. }
    destruct Ha0 as [la0 Ha0]. destruct (Hth _ _ Ha0) as (k & Hk & Hm). rewrite Ha in Hk. inversion Hk; subst la.
    assert (Wa : thread_wf la0) by (rewrite Forall_forall in Hwf; apply Hwf; eapply nth_error_In; eassumption).
    rewrite (sstep_unfold _ _ _ _ _ _ Ha).
    destruct (skipn k (ot_todo la0)) as [|f r] eqn:Es.
    - (* the thread has finished: nothing changes *)
      rewrite ostep_nil. cbn [fst snd].
      split; [cbn [sths]; rewrite upd_length; exact Hlen|]. split; [exact Hro|].
      intros i l0 Hi. destruct (Hth _ _ Hi) as (k' & Hk' & Hm'). exists k'. cbn [sg sths]. split; [|exact Hm'].
      destruct (Nat.eq_dec i a) as [->|Hne].
      + rewrite (nth_error_upd_same _ _ _ _ Ha). rewrite Ha in Hk'. rewrite Ha0 in Hi. inversion Hi; subst l0.
        exact Hk'.
      + rewrite (nth_error_upd_other _ _ _ _ Hne). exact Hk'.
    - rewrite ostep_cons. cbn [fst snd].
      destruct (firstn_S_skipn _ _ _ _ Es) as [Ef Er].
      pose proof (Forall_skipn_head _ _ _ _ _ (proj2 Wa) Es) as [Fframe Floc].
      split; [cbn [sths]; rewrite upd_length; exact Hlen|]. cbn [sg sths]. split.
      + intros o Ho. rewrite Fframe; [apply Hro; exact Ho|].
        destruct (ot_own la0 o) eqn:E; [|reflexivity]. rewrite (proj1 Wa _ E) in Ho. discriminate.
      + intros i l0 Hi. destruct (Nat.eq_dec i a) as [->|Hne].
        * rewrite Ha0 in Hi. inversion Hi; subst l0. exists (S k). rewrite (nth_error_upd_same _ _ _ _ Ha).
          split; [rewrite Er; reflexivity|]. intros o Ho. rewrite Ef, run_alone_snoc.
          apply Floc; [|exact Ho]. intros o' [Ho'|Ho']; [apply Hm; exact Ho'|].
          rewrite (Hro _ Ho'). symmetry. apply (run_alone_frame (ot_own la0)); [apply Forall_firstn; exact (proj2 Wa)|].
          destruct (ot_own la0 o') eqn:E; [|reflexivity]. rewrite (proj1 Wa _ E) in Ho'. discriminate.
        * destruct (Hth _ _ Hi) as (k' & Hk' & Hm'). exists k'. rewrite (nth_error_upd_other _ _ _ _ Hne).
          split; [exact Hk'|]. intros o Ho. rewrite Fframe; [apply Hm'; exact Ho|].
          exact (Hdis _ _ _ _ _ Hne Hi Ha0 Ho).
  Qed.

  Lemma related_init g0 ths0 : related g0 ths0 (mkSys g0 ths0).
  Proof.
    split; [reflexivity|]. split; [reflexivity|]. intros i l0 Hi. exists 0. cbn.
    split; [destruct l0; exact Hi | reflexivity].
  Qed.

  (* EVERY interleaving: whatever the schedule, the objects of thread i hold exactly what thread i
     alone would have produced after the k operations it has completed, and the thread is about to
     perform its (k+1)-th operation *)
  Theorem interleave_disjoint g0 ths0 sch :
    Forall thread_wf ths0 -> disjoint ths0 ->
    forall i l0, nth_error ths0 i = Some l0 ->
      exists k, nth_error (sths (sexec ostep (mkSys g0 ths0) sch)) i = Some (mkOT (ot_own l0) (skipn k (ot_todo l0))) /\
                forall o, ot_own l0 o = true ->
                  sg (sexec ostep (mkSys g0 ths0) sch) o = run_alone (firstn k (ot_todo l0)) g0 o.
  Proof.
    intros Hwf Hdis.
    assert (R : forall sch s, related g0 ths0 s -> related g0 ths0 (sexec ostep s sch)).
    { clear sch. induction sch as [|a sch IH]; intros s H; [exact H|].
      rewrite sexec_cons. apply IH. apply related_step; assumption. }
    exact (proj2 (proj2 (R sch _ (related_init g0 ths0)))).
  Qed.

  (* a complete run: once thread i has been scheduled at least as often as it has operations, its
     objects hold the result of running it alone to completion *)
  Theorem interleave_disjoint_complete g0 ths0 sch i l0 :
    Forall thread_wf ths0 -> disjoint ths0 -> nth_error ths0 i = Some l0 ->
    length (ot_todo l0) <= count_occ Nat.eq_dec sch i ->
    forall o, ot_own l0 o = true -> sg (sexec ostep (mkSys g0 ths0) sch) o = run_alone (ot_todo l0) g0 o.
  Proof.
    intros Hwf Hdis Hi Hc.
    (* strengthen: remaining operations + times scheduled >= all operations *)
    assert (G : forall sch s, related g0 ths0 s ->
              forall k, nth_error (sths s) i = Some (mkOT (ot_own l0) (skipn k (ot_todo l0))) ->
              exists k', nth_error (sths (sexec ostep s sch)) i = Some (mkOT (ot_own l0) (skipn k' (ot_todo l0))) /\
                         (length (ot_todo l0) <= k' \/ k + count_occ Nat.eq_dec sch i <= k') /\
                         related g0 ths0 (sexec ostep s sch)).
    { clear sch Hc. induction sch as [|a sch IH]; intros s R k Hk.
      - exists k. cbn. split; [exact Hk|]. split; [right; lia | exact R].
      - rewrite sexec_cons.
        pose proof (related_step g0 ths0 s a Hwf Hdis R) as R1.
        destruct (Nat.eq_dec a i) as [->|Hne].
        + (* thread i moves *)
          destruct (skipn k (ot_todo l0)) as [|f r] eqn:Es.
          * destruct (IH _ R1 k) as (k' & H1 & H2 & H3).
            { rewrite (sstep_unfold _ _ _ _ _ _ Hk), ostep_nil. cbn [sths fst snd].
              rewrite (nth_error_upd_same _ _ _ _ Hk), Es. reflexivity. }
            exists k'. split; [exact H1|]. split; [|exact H3]. left.
            assert (length (ot_todo l0) <= k).
            { destruct (le_lt_dec (length (ot_todo l0)) k); [assumption|].
              assert (length (skipn k (ot_todo l0)) = length (ot_todo l0) - k) by apply skipn_length.
              rewrite Es in H. cbn in H. lia. }
            destruct H2 as [H2|H2]; lia.
          * destruct (firstn_S_skipn _ _ _ _ Es) as [_ Er].
            destruct (IH _ R1 (S k)) as (k' & H1 & H2 & H3).
            { rewrite (sstep_unfold _ _ _ _ _ _ Hk), ostep_cons. cbn [sths fst snd].
              rewrite (nth_error_upd_same _ _ _ _ Hk). rewrite Er. reflexivity. }
            exists k'. split; [exact H1|]. split; [|exact H3]. cbn [count_occ].
            destruct (Nat.eq_dec i i); [|contradiction]. destruct H2 as [H2|H2]; [left; exact H2|right; lia].
        + destruct (IH _ R1 k) as (k' & H1 & H2 & H3).
          { destruct (nth_error (sths s) a) as [la|] eqn:Ha.
            - rewrite (sstep_unfold _ _ _ _ _ _ Ha). cbn [sths].
              rewrite (nth_error_upd_other _ _ _ _ (not_eq_sym Hne)). exact Hk.
            - rewrite (sstep_none _ _ _ _ _ Ha). exact Hk. }
          exists k'. split; [exact H1|]. split; [|exact H3]. cbn [count_occ].
          destruct (Nat.eq_dec a i); [contradiction|]. exact H2. }
    destruct (G sch _ (related_init g0 ths0) 0) as (k' & Hk' & Hc' & R).
    { cbn. destruct l0; exact Hi. }
    destruct (proj2 (proj2 R) _ _ Hi) as (k'' & Hk'' & Hm).
    pose proof (eq_trans (eq_sym Hk') Hk'') as E1.
    intros o Ho. etransitivity; [exact (Hm o Ho)|].
    assert (Hlen : length (ot_todo l0) <= k' ) by (destruct Hc'; lia).
    (* skipn k' = skipn k'' = [] and firstn k'' = whole list *)
    inversion E1 as [E]. assert (E0 : skipn k' (ot_todo l0) = []) by (apply skipn_all2; exact Hlen).
    rewrite E0 in E. symmetry in E.
    assert (length (ot_todo l0) <= k'').
    { destruct (le_lt_dec (length (ot_todo l0)) k''); [assumption|].
      assert (length (skipn k'' (ot_todo l0)) = length (ot_todo l0) - k'') by apply skipn_length.
      rewrite E in H. cbn in H. lia. }
    rewrite firstn_all2 by assumption. reflexivity.
  Qed.
End Disjoint.

(* ------------------------------------------------------------------ 3. first-call race *)

Section Race.
  Variables Env Fn : Type.
  Variable target : Env -> Fn.
  Variable env : Env.
  Notation step := (stub_step target env).
  Notation T := (target env).

  Definition stub_ok (g : @ptrval Fn) (l : @stubst Fn) : Prop :=
    (g = Mbinit \/ g = Bound T) /\
    match l with
    | SStore f => f = T
    | SExec f => f = T /\ g = Bound T
    | _ => True
    end.

  Definition race_inv (s : sys (@ptrval Fn) (@stubst Fn)) : Prop :=
    forall u l, nth_error (sths s) u = Some l -> stub_ok (sg s) l.

  Lemma stub_ok_bound g l : stub_ok g l -> stub_ok (Bound T) l.
  Proof.
    intros [Hg Hl]. split; [right; reflexivity|]. destruct l; auto. destruct Hl as [-> _]. split; reflexivity.
  Qed.

  Lemma stub_step_ok g l : stub_ok g l ->
    stub_ok (fst (step g l)) (snd (step g l)) /\ (fst (step g l) = g \/ fst (step g l) = Bound T).
  Proof.
    intros [Hg Hl]. destruct l; cbn.
    - destruct Hg as [-> | ->]; cbn.
      + split; [split; [left; reflexivity|exact I]|left; reflexivity].
      + split; [split; [right; reflexivity|split; reflexivity]|left; reflexivity].
    - split; [split; [exact Hg|reflexivity]|left; reflexivity].
    - cbn in Hl. subst f. split; [split; [right; reflexivity|exact I]|right; reflexivity].
    - split; [split; assumption|left; reflexivity].
  Qed.

  Lemma race_inv_step s a : race_inv s -> race_inv (sstep step s a).
  Proof.
    intros HI. destruct (nth_error (sths s) a) as [la|] eqn:Ha; [|rewrite (sstep_none _ _ _ _ _ Ha); exact HI].
    rewrite (sstep_unfold _ _ _ _ _ _ Ha). destruct (stub_step_ok _ _ (HI _ _ Ha)) as [Hown Hg].
    intros u l Hu. cbn [sg sths] in *. destruct (Nat.eq_dec u a) as [->|Hne].
    - rewrite (nth_error_upd_same _ _ _ _ Ha) in Hu. inversion Hu; subst. exact Hown.
    - rewrite (nth_error_upd_other _ _ _ _ Hne) in Hu. destruct Hg as [-> | ->].
      + exact (HI _ _ Hu).
      + exact (stub_ok_bound _ _ (HI _ _ Hu)).
  Qed.

  Lemma race_inv_exec s sch : race_inv s -> race_inv (sexec step s sch).
  Proof. revert s; induction sch as [|a sch IH]; intros s H; [exact H|]. rewrite sexec_cons. apply IH. apply race_inv_step. exact H. Qed.

  Lemma race_inv_init n : race_inv (sinit Mbinit SAtStub n).
  Proof. intros u l H. apply nth_error_repeat in H. destruct H as [-> _]. split; [left; reflexivity|exact I]. Qed.

  (* safety, any number of threads, any interleaving: the pointer only ever holds the initial stub
     address or THE target; a thread that has been dispatched executes THE target, and from then
     on the pointer is bound *)
  Theorem first_call_race_safe n sch :
    let s := sexec step (sinit Mbinit SAtStub n) sch in
    (sg s = Mbinit \/ sg s = Bound T) /\
    forall u l, nth_error (sths s) u = Some l ->
      match l with SExec f => f = T /\ sg s = Bound T | SStore f => f = T | _ => True end.
  Proof.
    intros s. pose proof (race_inv_exec _ sch (race_inv_init n)) as HI. fold s in HI. split.
    - destruct (nth_error (sths s) 0) as [l|] eqn:E.
      + exact (proj1 (HI _ _ E)).
      + (* no threads at all: nothing happened *)
        apply nth_error_None in E. unfold s in *. rewrite (sexec_length _ _ step) in E. cbn in E. rewrite repeat_length in E.
        assert (n = 0) by lia. subst n. left.
        clear. induction sch as [|a sch IH]; [reflexivity|]. cbn. unfold sstep. cbn.
        destruct (nth_error [] a) eqn:E; [destruct a; discriminate|]. exact IH.
    - intros u l Hu. exact (proj2 (HI _ _ Hu)).
  Qed.

  (* progress measure: own steps a thread still needs *)
  Definition stub_rank (g : @ptrval Fn) (l : @stubst Fn) : nat :=
    match l with
    | SExec _ => 0
    | SAtStub => match g with Mbinit => 4 | Bound _ => 1 end
    | SCompute => 3
    | SStore _ => 2
    end.

  Definition rankT (s : sys (@ptrval Fn) (@stubst Fn)) (t : nat) : nat :=
    match nth_error (sths s) t with Some l => stub_rank (sg s) l | None => 0 end.

  Lemma rank_own g l : stub_rank (fst (step g l)) (snd (step g l)) + 1 <= stub_rank g l \/
                       (stub_rank g l = 0 /\ stub_rank (fst (step g l)) (snd (step g l)) = 0).
  Proof. destruct l; cbn; try destruct g; cbn; solve [left; lia | right; auto]. Qed.

  Lemma rank_other g la lt : stub_rank (fst (step g la)) lt <= stub_rank g lt.
  Proof. destruct la, lt; cbn; try destruct g; cbn; lia. Qed.

  Lemma rank_step s a t : rankT (sstep step s a) t + (if Nat.eq_dec a t then 1 else 0) <= rankT s t \/
                          (rankT s t = 0 /\ rankT (sstep step s a) t = 0).
  Proof.
    unfold rankT. destruct (nth_error (sths s) a) as [la|] eqn:Ha.
    2:{ rewrite (sstep_none _ _ _ _ _ Ha). destruct (Nat.eq_dec a t) as [->|]; [rewrite Ha; right; auto|left; lia]. }
    rewrite (sstep_unfold _ _ _ _ _ _ Ha). cbn [sg sths].
    destruct (Nat.eq_dec a t) as [->|Hne].
    - rewrite Ha, (nth_error_upd_same _ _ _ _ Ha). exact (rank_own (sg s) la).
    - rewrite (nth_error_upd_other _ _ _ _ (not_eq_sym Hne)).
      destruct (nth_error (sths s) t) as [lt|]; [|left; lia]. left. pose proof (rank_other (sg s) la lt). lia.
  Qed.

  Lemma rank_exec sch : forall s t, rankT (sexec step s sch) t + count_occ Nat.eq_dec sch t <= rankT s t \/
                                    rankT (sexec step s sch) t = 0.
  Proof.
    induction sch as [|a sch IH]; intros s t; [left; cbn; lia|].
    rewrite sexec_cons. cbn [count_occ].
    destruct (IH (sstep step s a) t) as [H|H]; [|right; exact H].
    destruct (rank_step s a t) as [H1|[H1 H2]].
    - left. destruct (Nat.eq_dec a t); lia.
    - right. lia.
  Qed.

  (* nobody is left behind: after 4 of its own steps — whatever the other threads did in between —
     a thread executes THE target and the pointer is bound to it *)
  Theorem first_call_race n sch t : t < n -> 4 <= count_occ Nat.eq_dec sch t ->
    let s := sexec step (sinit Mbinit SAtStub n) sch in
    nth_error (sths s) t = Some (SExec T) /\ sg s = Bound T.
  Proof.
    intros Ht Hc s.
    assert (R0 : rankT s t = 0).
    { destruct (rank_exec sch (sinit Mbinit SAtStub n) t) as [H|H]; [|exact H]. fold s in H.
      assert (rankT (sinit Mbinit SAtStub n) t <= 4).
      { unfold rankT. cbn. destruct (nth_error (repeat SAtStub n) t) eqn:E; [|lia].
        apply nth_error_repeat in E. destruct E as [-> _]. cbn. lia. }
      lia. }
    destruct (nth_error (sths s) t) as [l|] eqn:E.
    - unfold rankT in R0. rewrite E in R0.
      destruct (first_call_race_safe n sch) as [_ Hs]. fold s in Hs. specialize (Hs _ _ E).
      destruct l; cbn in R0; try (destruct (sg s); discriminate); try discriminate.
      destruct Hs as [-> Hg]. split; [reflexivity|exact Hg].
    - apply nth_error_None in E. unfold s in E. rewrite (sexec_length _ _ step) in E. cbn in E. rewrite repeat_length in E. lia.
  Qed.
End Race.
