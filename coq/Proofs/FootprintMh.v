(* C08 — multi-hash carry: as long as len + partial_block_len does not wrap in uint32_t every
   copy stays inside the first 1024 bytes of the partial block buffer and inside [0,len) of
   the caller's buffer, and the caller's bytes are consumed exactly once.  When the sum wraps
   the first branch copies len bytes into the 2048-byte buffer (refutation with a witness). *)
From Coq Require Import NArith List Arith Bool Lia ZifyBool ZifyNat ZifyN.
From ISAL Require Import Base.Words Model.FootprintCtx Model.FootprintMh Proofs.FootprintCtx.
Import ListNotations.

Lemma in_pairs_forall (L : list (nat * nat)) (P : nat -> nat -> Prop) :
  Forall (fun q => P (fst q) (snd q)) L -> forall o n, In (o, n) L -> P o n.
Proof. rewrite Forall_forall. intros H o n Hin. apply (H (o, n) Hin). Qed.

Ltac ranges_le := apply (in_pairs_forall _ (fun o n => o + n <= 1024)); repeat (apply Forall_cons; [cbn [fst snd]; lia|]); apply Forall_nil.

Lemma wrap_small bits x : (x < 2 ^ bits)%N -> wrap bits x = x.
Proof. intros H. unfold wrap. rewrite N.land_ones. apply N.mod_small. exact H. Qed.

Theorem mh_carry_in_range (bits total : N) (len : nat) :
  (N.of_nat len + total mod 1024 < 2 ^ bits)%N ->
  let evs := mh_update_fp bits total len in
  (forall o n, In (o, n) (mh_dst_ranges evs) -> o + n <= 1024) /\
  covers_once (mh_src_ranges evs) len.
Proof.
  intros Hw evs. unfold evs, mh_update_fp.
  destruct (N.eqb_spec (N.of_nat len) 0) as [E0|E0].
  - split; [intros o n []|]. split; [intros o n []|intros b Hb; lia].
  - rewrite (wrap_small _ _ Hw).
    assert (Hp : (total mod 1024 < 1024)%N) by (apply N.mod_upper_bound; discriminate).
    set (plen := (total mod 1024)%N) in *.
    destruct (N.ltb_spec (N.of_nat len + plen) 1024) as [Hs|Hs].
    + cbn [mh_dst_ranges mh_src_ranges flat_map app]. split.
      * ranges_le.
      * pose proof (three_ranges_cover len 0 0 len ltac:(lia)) as T.
        assert (El : (len =? 0) = false) by lia. rewrite El in T. cbn [Nat.eqb app] in T. exact T.
    + set (p := N.to_nat plen).
      assert (Hp' : p < 1024) by lia.
      destruct (N.eqb_spec plen 0) as [Ep|Ep].
      * (* no carried bytes *)
        cbv beta iota zeta. cbn [app]. rewrite Nat.sub_0_r.
        set (nb := len / 1024).
        pose proof (Nat.div_mod len 1024 ltac:(lia)) as Dm. try fold nb in Dm.
        pose proof (Nat.mod_upper_bound len 1024 ltac:(lia)) as Um.
        assert (Hnb : nb <> 0) by lia.
        assert (Enb : (nb =? 0) = false) by lia. rewrite Enb.
        set (r := len - nb * 1024).
        split.
        -- unfold r; destruct (len - nb * 1024 =? 0); cbn [mh_dst_ranges flat_map app]; ranges_le.
        -- pose proof (three_ranges_cover' 0 r (nb * 1024) len ltac:(unfold r; lia)) as T.
           cbn [Nat.eqb app Nat.add] in T.
           assert (Eb : (nb * 1024 =? 0) = false) by lia. rewrite Eb in T.
           destruct (r =? 0) eqn:Er; cbn [mh_src_ranges flat_map app] in *; exact T.
      * (* complete the carried block first *)
        assert (Hlen : 1024 - p <= len) by lia.
        cbv beta iota zeta. fold p.
        set (off := 1024 - p). set (rest := len - off).
        set (nb := rest / 1024).
        pose proof (Nat.div_mod rest 1024 ltac:(lia)) as Dm. try fold nb in Dm.
        pose proof (Nat.mod_upper_bound rest 1024 ltac:(lia)) as Um.
        set (r := rest - nb * 1024).
        split.
        -- unfold r, off in *; destruct (nb =? 0); destruct (rest - nb * 1024 =? 0); cbn [mh_dst_ranges flat_map app]; ranges_le.
        -- pose proof (three_ranges_cover' off r (nb * 1024) len ltac:(unfold r, rest, off in *; lia)) as T.
           assert (Eo : (off =? 0) = false) by (unfold off; lia). rewrite Eo in T.
           destruct (nb =? 0) eqn:En; destruct (r =? 0) eqn:Er; cbn [mh_src_ranges flat_map app] in *.
           ++ assert (nb = 0) by lia. subst nb. replace (rest / 1024 * 1024 =? 0) with true in T by lia. exact T.
           ++ assert (Z0 : nb = 0) by lia. rewrite Z0 in T. cbn [Nat.mul Nat.eqb] in T. rewrite Z0. cbn [Nat.mul]. rewrite Nat.add_0_r in *. exact T.
           ++ assert (Eb : (nb * 1024 =? 0) = false) by lia. rewrite Eb in T. exact T.
           ++ assert (Eb : (nb * 1024 =? 0) = false) by lia. rewrite Eb in T. exact T.
Qed.

(* with a 32-bit sum the no-wrap hypothesis is needed: one byte carried, then len = 2^32 - 1
   gives a sum of 0 < 1024 and a copy of len bytes to partial + 1 *)
Definition mh_wrap_witness (bits : N) : Prop :=
  exists (total : N) (len : N), (len < 2 ^ 32)%N /\
    (exists d s n, In (MhCopy d s n) (mh_update_fp bits total (N.to_nat len)) /\ d + n > 2048).

Lemma mh_carry_wrap_refuted_32 : mh_wrap_witness 32.
Proof.
  exists 1%N, (2 ^ 32 - 1)%N. split; [reflexivity|].
  exists 1, 0, (N.to_nat (2 ^ 32 - 1)). split; [|lia].
  unfold mh_update_fp. rewrite N2Nat.id.
  change (2 ^ 32 - 1 =? 0)%N with false. change (1 mod 1024)%N with 1%N.
  change (wrap 32 (2 ^ 32 - 1 + 1) <? 1024)%N with true. cbv iota. left. reflexivity.
Qed.

(* with a 64-bit sum no uint32_t length can wrap: the range theorem holds for every call *)
Lemma mh_carry_in_range_64 (total : N) (len : nat) :
  (N.of_nat len < 2 ^ 32)%N ->
  (forall o n, In (o, n) (mh_dst_ranges (mh_update_fp 64 total len)) -> o + n <= 1024) /\
  covers_once (mh_src_ranges (mh_update_fp 64 total len)) len.
Proof.
  intros Hl. apply mh_carry_in_range.
  pose proof (N.mod_upper_bound total 1024 ltac:(discriminate)).
  assert (2 ^ 32 + 1024 < 2 ^ 64)%N by reflexivity. lia.
Qed.

(* what holds of the CURRENT source (Gen/MhCarryGen.v says which width the sum has) *)
Definition mh_carry_status (bits : N) : Prop :=
  if (bits =? 32)%N then mh_wrap_witness 32
  else forall (total : N) (len : nat), (N.of_nat len < 2 ^ 32)%N ->
       (forall o n, In (o, n) (mh_dst_ranges (mh_update_fp 64 total len)) -> o + n <= 1024) /\
       covers_once (mh_src_ranges (mh_update_fp 64 total len)) len.

Lemma mh_carry_status_32 : mh_carry_status 32.
Proof. exact mh_carry_wrap_refuted_32. Qed.
Lemma mh_carry_status_64 : mh_carry_status 64.
Proof. exact mh_carry_in_range_64. Qed.

Theorem mh_tail_in_buffer total_len :
  forall o n, In (o, n) (mh_tail_ranges total_len) -> o + n <= 1024.
Proof.
  intros o n Hin. unfold mh_tail_ranges in Hin.
  pose proof (N.mod_upper_bound total_len 1024 ltac:(discriminate)) as U.
  set (p := N.to_nat (total_len mod 1024)) in *.
  assert (Hp : p < 1024) by (unfold p; lia).
  clearbody p. clear U.
  assert (H : forall q, In q [(p, 1); (p + 1, 1024 - (p + 1)); (1024 - 8, 8)] -> fst q + snd q <= 1024).
  { intros q [<-|[<-|[<-|[]]]]; cbn [fst snd]; lia. }
  apply (H (o, n) Hin).
Qed.
