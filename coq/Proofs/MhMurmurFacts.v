(* The murmur-stitched multi-hash (Model/MhMurmur.v) returns the pair
   (mh_sha1 stream, MurmurHash3_x64_128 seed stream) for every partition of the stream. *)
From Coq Require Import NArith ZArith List Arith Lia ZifyBool ZifyNat ZifyN.
From ISAL Require Import Base.Words Base.ListUtil Spec.MD Spec.SHA1 Spec.MH Spec.Murmur3
  Model.MhCtx Model.MhMurmur
  Proofs.WordsFacts Proofs.ListFacts Proofs.ChunkFacts Proofs.MhFacts Proofs.MhInst.
Import ListNotations.

(* the stitched block function advances the two halves independently *)
Lemma mhm_fold_pair blocks : forall a h,
  fold_left mhm_blockf blocks (a, h)
  = (fold_left mh_sha1_block blocks a,
     fold_left (fun h blk => mhm_mur_blocks h blk (MH_BLOCK / 16)) blocks h).
Proof.
  induction blocks as [|b blocks IH]; intros a h; cbn [fold_left]; [reflexivity|].
  unfold mhm_blockf at 2. cbn [fst snd]. apply IH.
Qed.

(* murmur body over consecutive pieces is one fold *)
Lemma mur_fold_app (a b : list N) k h : length a = k * 16 ->
  fold_left mur_body (chunks 16 (a ++ b)) h
  = fold_left mur_body (chunks 16 b) (fold_left mur_body (chunks 16 a) h).
Proof.
  intros H. rewrite chunks_app by (try lia; exists k; exact H). apply fold_left_app.
Qed.

(* 64 murmur blocks per 1024-byte multi-hash block, over k blocks = the murmur body over
   all 64 k blocks *)
Lemma mhm_mur_blocks_fold k : forall body h, length body = k * 1024 ->
  fold_left (fun h blk => mhm_mur_blocks h blk (MH_BLOCK / 16)) (chunks 1024 body) h
  = fold_left mur_body (chunks 16 body) h.
Proof.
  change (MH_BLOCK / 16) with 64.
  induction k as [|k IH]; intros body h Hl.
  - destruct body; [reflexivity|cbn [length] in Hl; lia].
  - assert (body <> []) by (intros ->; cbn [length] in Hl; lia).
    rewrite chunks_cons by (try lia; assumption). cbn [fold_left].
    rewrite IH by (rewrite skipn_length; lia).
    rewrite <- (firstn_skipn 1024 body) at 3.
    rewrite (mur_fold_app (firstn 1024 body) _ 64) by (rewrite firstn_length; lia).
    f_equal. unfold mhm_mur_blocks. f_equal. f_equal.
    change (64 * 16) with 1024. apply firstn_all2. rewrite firstn_length. lia.
Qed.

Lemma mhm_finalize_correct seed c stream :
  mh_inv mhm_state mhm_blockf (mh_flat_iv sha1_iv, mur_init seed) c stream ->
  (N.of_nat (length stream) < 2 ^ 32)%N ->
  mhm_finalize c = (mh_sha1 stream, murmur3_x64_128 seed stream).
Proof.
  intros Hi Hlt.
  pose proof Hi as (body & tail & k & Hs & Hb & Ht & Htot & Hpl & Hpt & Hst).
  assert (Hlen : length stream = k * 1024 + length tail) by (rewrite Hs, app_length; lia).
  assert (P32 : (2 ^ 32 = 4294967296)%N) by reflexivity.
  rewrite mhm_fold_pair in Hst.
  unfold mhm_finalize. f_equal.
  - (* the mh_sha1 half: the projected context satisfies the mh_sha1 invariant *)
    set (c1 := {| mc_total := mc_total c; mc_partial := mc_partial c; mc_state := fst (mc_state c) |}).
    change (mh_final sha1_algo (mhc_tail (list N) mh_sha1_block (mc_partial c1) (w32 (mc_total c1)) (mc_state c1))
            = mh_sha1 stream).
    apply mh1_tail_final_correct; [|exact Hlt].
    exists body, tail, k. unfold c1. cbn [mc_total mc_partial mc_state].
    rewrite Hst. cbn [fst]. repeat split; assumption.
  - (* the murmur half *)
    rewrite Hst. cbn [snd]. rewrite (mhm_mur_blocks_fold k body _ Hb).
    rewrite Htot. rewrite w32_small by lia.
    set (t := length tail) in *.
    assert (Hp : N.to_nat (N.of_nat (length stream) mod 1024) = t) by lia.
    rewrite Hp.
    assert (Hm16 : N.to_nat (N.of_nat (length stream) mod 16) = t mod 16) by lia.
    rewrite Hm16.
    unfold murmur3_x64_128, mur_blocks, mur_rest, mur_nbody.
    assert (Hnb : length stream / 16 * 16 = k * 1024 + t / 16 * 16) by lia.
    rewrite Hnb.
    assert (Ef : firstn (k * 1024 + t / 16 * 16) stream = body ++ firstn (t / 16 * 16) tail).
    { rewrite Hs, firstn_app, Hb. rewrite (firstn_all2 body) by lia. f_equal. f_equal. lia. }
    assert (Esk : skipn (k * 1024 + t / 16 * 16) stream = skipn (t / 16 * 16) tail).
    { rewrite Hs, skipn_app, Hb. rewrite (skipn_all2 body) by lia. cbn [app]. f_equal. lia. }
    rewrite Ef, Esk.
    rewrite (mur_fold_app body _ (k * 64)) by lia.
    f_equal.
    + (* the whole 16-byte blocks still in the partial buffer *)
      unfold mhm_mur_blocks. f_equal. f_equal.
      rewrite <- Hpt. rewrite firstn_firstn. f_equal. lia.
    + (* the tail of t mod 16 bytes *)
      replace (t - t mod 16) with (t / 16 * 16) by lia.
      rewrite firstn_skipn_comm. f_equal.
      replace (t / 16 * 16 + t mod 16) with t by lia. exact Hpt.
Qed.

Theorem mhm_run_correct (seed : N) (segs : list (list N)) :
  (N.of_nat (length (concat segs)) < 2 ^ 32)%N ->
  mhm_run seed segs = (mh_sha1 (concat segs), murmur3_x64_128 seed (concat segs)).
Proof.
  intros Hlt. unfold mhm_run. apply mhm_finalize_correct; [|exact Hlt].
  change (concat segs) with ([] ++ concat segs).
  unfold mhm_update, mhm_init.
  apply mh_inv_updates; [apply mh_inv_init|exact Hlt].
Qed.

Theorem mhm_run_split_independent (seed : N) (segsA segsB : list (list N)) :
  concat segsA = concat segsB -> (N.of_nat (length (concat segsA)) < 2 ^ 32)%N ->
  mhm_run seed segsA = mhm_run seed segsB.
Proof.
  intros E H. rewrite !mhm_run_correct by (rewrite <- ?E; exact H). rewrite E. reflexivity.
Qed.
