(* C12 — soundness of the symbolic executor, of the tree checker, of the family comparison,
   and binding stability.  Generic: nothing here depends on the regenerated files. *)
From Coq Require Import NArith List String Ascii Bool Arith Lia.
From ISAL Require Import Model.Dispatch.
Import ListNotations.
Local Open Scope string_scope.
Local Open Scope N_scope.

(* ------------------------------------------------------------------ register file *)

Lemma rget_rmap {A B} (f : A -> B) r s : rget r (rmap f s) = f (rget r s).
Proof. destruct r; reflexivity. Qed.
Lemma rmap_rset {A B} (f : A -> B) r v s : rmap f (rset r v s) = rset r (f v) (rmap f s).
Proof. destruct r; reflexivity. Qed.

Lemma conc_get e r s : rget r (c_r (conc e s)) = cval e (rget r (s_r s)).
Proof. unfold conc; cbn [c_r]. apply rget_rmap. Qed.
Lemma conc_setr e r v s : conc e (s_setr r v s) = c_setr r (cval e v) (conc e s).
Proof. unfold conc, s_setr, c_setr; cbn [s_r s_zf s_stk s_out c_r c_zf c_stk c_out]. now rewrite rmap_rset. Qed.
Lemma conc_setzf e z s : conc e (s_setzf z s) = c_setzf (ev e z =? 0) (conc e s).
Proof. reflexivity. Qed.
Lemma conc_setstk e k s : conc e (s_setstk k s) = c_setstk (map (cval e) k) (conc e s).
Proof. reflexivity. Qed.
Lemma conc_setout e x s : conc e (s_setout x s) = c_setout x (conc e s).
Proof. reflexivity. Qed.
Lemma conc_zf e s : c_zf (conc e s) = cflag e (s_zf s).
Proof. reflexivity. Qed.
Lemma conc_stk e s : c_stk (conc e s) = map (cval e) (s_stk s).
Proof. reflexivity. Qed.
Lemma conc_out e s : c_out (conc e s) = s_out s.
Proof. reflexivity. Qed.

Lemma m32_idem x : N.land (m32 x) ones32 = m32 x.
Proof. unfold m32. now rewrite <- N.land_assoc, N.land_diag. Qed.
Lemma fieldv_ones e f : N.land (fieldv e f) ones32 = fieldv e f.
Proof. unfold fieldv. apply m32_idem. Qed.

Lemma conc_leaf e a b c d s :
  conc e (s_leaf a b c d s) = c_leaf e a b c d (conc e s).
Proof. unfold s_leaf, c_leaf. now rewrite !conc_setr. Qed.

(* ------------------------------------------------------------------ sexec is exact *)

Lemma cfold_sound e x : forall n, cfold x = Some n -> ev e x = n.
Proof.
  induction x as [c|f|a IHa b IHb|a IHa b IHb|a IHa b IHb]; cbn [cfold ev]; intros n H;
    try (injection H as <-; reflexivity); try discriminate;
    destruct (cfold a) as [p|]; try discriminate; destruct (cfold b) as [q|]; try discriminate;
    injection H as <-; now rewrite (IHa p eq_refl), (IHb q eq_refl).
Qed.

Lemma eval_mkNode e c a b : eval (mkNode c a b) e = if ev e c =? 0 then eval a e else eval b e.
Proof.
  unfold mkNode. destruct (cfold c) as [n|] eqn:E; [|reflexivity].
  rewrite (cfold_sound e c n E). destruct (n =? 0); reflexivity.
Qed.

Lemma eval_on_flag e fl k :
  eval (on_flag fl k) e = match cflag e fl with Some z => eval (k z) e | None => None end.
Proof.
  destruct fl; cbn [on_flag cflag]; [reflexivity|]. rewrite eval_mkNode.
  destruct (ev e x =? 0); reflexivity.
Qed.

Lemma eval_on_num e v n yes no :
  eval (on_num v n yes no) e =
  match cval e v with
  | VNum x => if N.lxor x n =? 0 then eval yes e else eval no e
  | _ => None
  end.
Proof. destruct v; cbn [on_num cval]; try reflexivity. now rewrite eval_mkNode. Qed.

Lemma arith1_sound e d f g fc gc s k kc :
  (forall x, ev e (f x) = fc (ev e x)) -> (forall x, ev e (g x) = gc (ev e x)) ->
  (forall s' nx, eval (k s' nx) e = kc (conc e s') nx) ->
  eval (s_arith1 d f g s k) e =
  match c_arith1 d fc gc (conc e s) with Some (c', nx) => kc c' nx | None => None end.
Proof.
  intros Hf Hg H. unfold s_arith1, c_arith1. rewrite conc_get.
  destruct (rget d (s_r s)); cbn [cval eval]; try reflexivity.
  rewrite H, conc_setzf, conc_setr. cbn [cval]. now rewrite Hf, Hg.
Qed.

Lemma arith2_sound e d r f g fc gc s k kc :
  (forall x y, ev e (f x y) = fc (ev e x) (ev e y)) -> (forall x y, ev e (g x y) = gc (ev e x) (ev e y)) ->
  (forall s' nx, eval (k s' nx) e = kc (conc e s') nx) ->
  eval (s_arith2 d r f g s k) e =
  match c_arith2 d r fc gc (conc e s) with Some (c', nx) => kc c' nx | None => None end.
Proof.
  intros Hf Hg H. unfold s_arith2, c_arith2. rewrite !conc_get.
  destruct (rget d (s_r s)); cbn [cval eval]; try reflexivity;
    destruct (rget r (s_r s)); cbn [cval eval]; try reflexivity.
  rewrite H, conc_setzf, conc_setr. cbn [cval]. now rewrite Hf, Hg.
Qed.

Lemma sstep_sound self e i s k kc :
  (forall s' nx, eval (k s' nx) e = kc (conc e s') nx) ->
  eval (sstep self i s k) e =
  match cstep self e i (conc e s) with Some (c', nx) => kc c' nx | None => None end.
Proof.
  intros H. destruct i; cbn [sstep cstep];
    try (apply arith1_sound; [intro; reflexivity|intro; reflexivity|exact H]);
    try (apply arith2_sound; [intros; reflexivity|intros; reflexivity|exact H]).
  - (* Push *) rewrite H, conc_setstk, conc_get, conc_stk. reflexivity.
  - (* Pop *) rewrite conc_stk. destruct (s_stk s) as [|v tl]; cbn [map eval]; [reflexivity|].
    now rewrite H, conc_setr, conc_setstk.
  - (* LeaSym *) now rewrite H, conc_setr.
  - (* MovRR64 *) now rewrite H, conc_setr, conc_get.
  - (* MovRR32 *) rewrite H, conc_setr, conc_get. destruct (rget s0 (s_r s)); reflexivity.
  - (* MovRI *) now rewrite H, conc_setr.
  - (* XorSelf *) now rewrite H, conc_setzf, conc_setr.
  - (* NotR *) rewrite conc_get. destruct (rget r (s_r s)); cbn [cval eval]; try reflexivity.
    now rewrite H, conc_setr.
  - (* Jcc *) rewrite eval_on_flag, conc_zf. destruct (cflag e (s_zf s)); [|reflexivity]. apply H.
  - (* Jmp *) apply H.
  - (* Cmov *) rewrite eval_on_flag, conc_zf. destruct (cflag e (s_zf s)) as [z|]; [|reflexivity].
    rewrite H. destruct (holds c z); [|reflexivity]. now rewrite conc_setr, conc_get.
  - (* Cpuid *) rewrite eval_on_num, !conc_get.
    destruct (cval e (rget RAX (s_r s))) as [a| |] eqn:Ha; try reflexivity.
    destruct (N.lxor a 1 =? 0); [now rewrite H, conc_leaf|].
    rewrite eval_on_num, Ha.
    destruct (N.lxor a 7 =? 0); [|reflexivity].
    rewrite eval_on_num. destruct (cval e (rget RCX (s_r s))) as [c| |]; try reflexivity.
    destruct (N.lxor c 0 =? 0); [|reflexivity]. now rewrite H, conc_leaf.
  - (* Xgetbv *) rewrite eval_on_num, conc_get.
    destruct (cval e (rget RCX (s_r s))) as [c| |]; try reflexivity.
    destruct (N.lxor c 0 =? 0); [|reflexivity]. rewrite eval_mkNode. cbn [ev eval].
    destruct (N.lxor (N.land (fieldv e L1C) OSXSAVE_BIT) OSXSAVE_BIT =? 0); [|reflexivity].
    now rewrite H, !conc_setr.
  - (* Store *) destruct (String.eqb slot (slot_of self)); [|reflexivity].
    rewrite conc_get. destruct (rget r (s_r s)); cbn [cval eval]; try reflexivity.
    now rewrite H, conc_setout.
  - (* Ret *) rewrite conc_stk. destruct (s_stk s); cbn [map eval]; [apply H|reflexivity].
  - (* Nop *) apply H.
  - reflexivity.
  - reflexivity.
  - reflexivity.
Qed.

Lemma srun_sound self e p fuel : forall pc s,
  eval (srun self p fuel pc s) e = crun self e p fuel pc (conc e s).
Proof.
  induction fuel as [|f IH]; intros pc s; cbn [srun crun]; [reflexivity|].
  destruct (nth_error p pc) as [i|]; [|reflexivity].
  rewrite (sstep_sound self e i s _
             (fun c' nx => match nx with
                           | Stop => c_out c'
                           | Fall => crun self e p f (S pc) c'
                           | Goto t => crun self e p f t c'
                           end)).
  - destruct (cstep self e i (conc e s)) as [[c' nx]|]; reflexivity.
  - intros s' nx. destruct nx; cbn [eval]; try apply IH. now rewrite conc_out.
Qed.

(* the decision tree computed once, without an environment, evaluates to exactly what the
   concrete interpreter does in every environment (including being stuck) *)
Theorem sexec_sound self p e : exec self p e = eval (sexec self p) e.
Proof. unfold exec, sexec. now rewrite srun_sound. Qed.

(* ------------------------------------------------------------------ bit-level facts *)

Definition atomv (e : env) (f : field) (m v : N) : bool := N.land (fieldv e f) m =? v.

Definition sat (e : env) (k : known) : Prop :=
  (forall f, N.land (fieldv e f) (kset k f) = kset k f /\ N.land (fieldv e f) (kclr k f) = 0) /\
  (forall f m v, In (f, m, v) (k_neg k) -> atomv e f m v = false).

Lemma kget_kput k f p g : kget (kput k f p) g = if field_eqb g f then p else kget k g.
Proof. destruct f, g; reflexivity. Qed.
Lemma field_eqb_eq a b : field_eqb a b = true <-> a = b.
Proof. destruct a, b; cbn; split; intros H; try reflexivity; discriminate. Qed.
Lemma field_eqb_refl a : field_eqb a a = true.
Proof. now apply field_eqb_eq. Qed.

Lemma kset_kadd k f s c g : kset (kadd k f s c) g = if field_eqb g f then N.lor (kset k f) s else kset k g.
Proof. unfold kset, kadd. rewrite kget_kput. destruct (field_eqb g f); reflexivity. Qed.
Lemma kclr_kadd k f s c g : kclr (kadd k f s c) g = if field_eqb g f then N.lor (kclr k f) c else kclr k g.
Proof. unfold kclr, kadd. rewrite kget_kput. destruct (field_eqb g f); reflexivity. Qed.

Lemma kneg_kput k f p : k_neg (kput k f p) = k_neg k.
Proof. destruct f; reflexivity. Qed.
Lemma kneg_kadd k f s c : k_neg (kadd k f s c) = k_neg k.
Proof. apply kneg_kput. Qed.

Lemma sat_k0 e : sat e k0.
Proof. split; [intros f; destruct f; cbn; now rewrite N.land_0_r|intros f m v []]. Qed.

(* bit i of an equation between numbers *)
Ltac bit_of H i := let B := fresh "B" in
  pose proof (f_equal (fun x => N.testbit x i) H) as B; cbn beta in B;
  repeat (rewrite N.land_spec in B || rewrite N.lor_spec in B || rewrite N.ldiff_spec in B || rewrite N.bits_0 in B).

Lemma sat_kadd e k f s c :
  sat e k -> N.land (fieldv e f) s = s -> N.land (fieldv e f) c = 0 -> sat e (kadd k f s c).
Proof.
  intros [Hs Hn] H1 H2. split; [|now rewrite kneg_kadd].
  intros g. rewrite kset_kadd, kclr_kadd.
  destruct (field_eqb g f) eqn:E; [|apply Hs].
  apply field_eqb_eq in E; subst g. destruct (Hs f) as [A B].
  split; apply N.bits_inj; intro i; bit_of A i; bit_of B i; bit_of H1 i; bit_of H2 i;
    rewrite ?N.land_spec, ?N.lor_spec, ?N.bits_0;
    destruct (N.testbit (fieldv e f) i), (N.testbit (kset k f) i), (N.testbit (kclr k f) i),
      (N.testbit s i), (N.testbit c i); cbn in *; congruence.
Qed.

Lemma decide_true e k f m v : sat e k -> decide k f m v = DTrue -> atomv e f m v = true.
Proof.
  intros [Hs _]. unfold decide, atomv. destruct (Hs f) as [A B].
  destruct (N.ldiff v m =? 0) eqn:E1; cbn [negb]; [|discriminate].
  destruct (N.land (kset k f) (N.ldiff m v) =? 0) eqn:E2; cbn [negb]; [|discriminate].
  destruct (N.land (kclr k f) v =? 0) eqn:E3; cbn [negb]; [|discriminate].
  destruct (existsb (neg_refutes f m v) (k_neg k)); [discriminate|].
  destruct (N.ldiff m (N.lor (kset k f) (kclr k f)) =? 0) eqn:E4; [|discriminate].
  intros _. apply N.eqb_eq in E1, E2, E3, E4. apply N.eqb_eq.
  apply N.bits_inj; intro i. bit_of A i; bit_of B i; bit_of E1 i; bit_of E2 i; bit_of E3 i; bit_of E4 i.
  rewrite N.land_spec.
  destruct (N.testbit (fieldv e f) i), (N.testbit (kset k f) i), (N.testbit (kclr k f) i),
    (N.testbit m i), (N.testbit v i); cbn in *; congruence.
Qed.

Lemma decide_false e k f m v : sat e k -> decide k f m v = DFalse -> atomv e f m v = false.
Proof.
  intros [Hs Hn]. unfold decide. unfold atomv at 1. destruct (Hs f) as [A B].
  assert (Hgen : forall x, (N.land (fieldv e f) m = v -> x = 0) -> (x =? 0) = false ->
                           (N.land (fieldv e f) m =? v) = false).
  { intros x Hx Hne. apply N.eqb_neq. intros Heq. apply N.eqb_neq in Hne. apply Hne, Hx, Heq. }
  destruct (N.ldiff v m =? 0) eqn:E1; cbn [negb].
  2:{ intros _. apply (Hgen (N.ldiff v m)); [intro Heq|exact E1].
      apply N.bits_inj; intro i. bit_of Heq i. rewrite N.ldiff_spec, N.bits_0.
      destruct (N.testbit (fieldv e f) i), (N.testbit m i), (N.testbit v i); cbn in *; congruence. }
  destruct (N.land (kset k f) (N.ldiff m v) =? 0) eqn:E2; cbn [negb].
  2:{ intros _. apply (Hgen (N.land (kset k f) (N.ldiff m v))); [intro Heq|exact E2].
      apply N.bits_inj; intro i. bit_of Heq i. bit_of A i. rewrite N.land_spec, N.ldiff_spec, N.bits_0.
      destruct (N.testbit (fieldv e f) i), (N.testbit m i), (N.testbit v i), (N.testbit (kset k f) i);
        cbn in *; congruence. }
  destruct (N.land (kclr k f) v =? 0) eqn:E3; cbn [negb].
  2:{ intros _. apply (Hgen (N.land (kclr k f) v)); [intro Heq|exact E3].
      apply N.bits_inj; intro i. bit_of Heq i. bit_of B i. rewrite N.land_spec, N.bits_0.
      destruct (N.testbit (fieldv e f) i), (N.testbit m i), (N.testbit v i), (N.testbit (kclr k f) i);
        cbn in *; congruence. }
  destruct (existsb (neg_refutes f m v) (k_neg k)) eqn:E4.
  { intros _. apply existsb_exists in E4. destruct E4 as [[[f' m'] v'] [Hin Hr]].
    unfold neg_refutes in Hr. apply andb_prop in Hr. destruct Hr as [Hr Hv]. apply andb_prop in Hr.
    destruct Hr as [Hf Hm]. apply field_eqb_eq in Hf. subst f'. apply N.eqb_eq in Hm, Hv.
    specialize (Hn _ _ _ Hin). unfold atomv in Hn. apply N.eqb_neq in Hn. apply N.eqb_neq. intros Heq.
    apply Hn. subst v'. apply N.bits_inj; intro i. bit_of Heq i. bit_of Hm i. rewrite !N.land_spec.
    destruct (N.testbit (fieldv e f) i), (N.testbit m i), (N.testbit v i), (N.testbit m' i);
      cbn in *; congruence. }
  destruct (N.ldiff m (N.lor (kset k f) (kclr k f)) =? 0); discriminate.
Qed.

Lemma assume_true_sat e k f m v : sat e k -> atomv e f m v = true -> sat e (assume_true k f m v).
Proof.
  intros Hs Ha. unfold atomv in Ha. apply N.eqb_eq in Ha. unfold assume_true.
  apply sat_kadd; [exact Hs| |]; apply N.bits_inj; intro i; bit_of Ha i;
    rewrite ?N.land_spec, ?N.ldiff_spec, ?N.bits_0;
    destruct (N.testbit (fieldv e f) i), (N.testbit m i), (N.testbit v i); cbn in *; congruence.
Qed.

Lemma bit_spec j i : N.testbit (bit j) i = (j =? i).
Proof. unfold bit. rewrite N.shiftl_1_l. apply N.pow2_bits_eqb. Qed.

Lemma sat_kneg_add e k f m v : sat e k -> atomv e f m v = false -> sat e (kneg_add k f m v).
Proof.
  intros [Hs Hn] Ha. split; [exact Hs|].
  intros f' m' v' [Heq|Hin]; [injection Heq as <- <- <-; exact Ha|now apply Hn].
Qed.
Lemma kset_kneg_add k f m v g : kset (kneg_add k f m v) g = kset k g.
Proof. destruct g; reflexivity. Qed.
Lemma kclr_kneg_add k f m v g : kclr (kneg_add k f m v) g = kclr k g.
Proof. destruct g; reflexivity. Qed.

Lemma assume_false_sat e k f m v :
  sat e k -> decide k f m v = DUnknown -> atomv e f m v = false -> sat e (assume_false k f m v).
Proof.
  intros Hs Hd Ha. unfold assume_false.
  pose proof (sat_kneg_add e k f m v Hs Ha) as Hs'.
  set (u := N.ldiff m (N.lor (kset k f) (kclr k f))).
  destruct (negb (u =? 0) && (u =? bit (N.log2 u))) eqn:Eu; [|exact Hs'].
  apply andb_prop in Eu. destruct Eu as [_ Eu]. apply N.eqb_eq in Eu.
  set (j := N.log2 u) in *. clearbody j.
  (* what [decide] has established *)
  unfold decide in Hd. destruct Hs as [Hs _]. destruct (Hs f) as [A B].
  destruct (N.ldiff v m =? 0) eqn:E1; cbn [negb] in Hd; [|discriminate].
  destruct (N.land (kset k f) (N.ldiff m v) =? 0) eqn:E2; cbn [negb] in Hd; [|discriminate].
  destruct (N.land (kclr k f) v =? 0) eqn:E3; cbn [negb] in Hd; [|discriminate].
  apply N.eqb_eq in E1, E2, E3. clear Hd.
  unfold atomv in Ha. apply N.eqb_neq in Ha.
  assert (Hu : forall i, N.testbit m i && negb (N.testbit (kset k f) i || N.testbit (kclr k f) i) = (j =? i)).
  { intro i. rewrite <- bit_spec, <- Eu. unfold u. now rewrite N.ldiff_spec, N.lor_spec. }
  (* the value of bit j of the field is forced: otherwise the atom would hold *)
  assert (Hj : N.testbit (fieldv e f) j = negb (N.testbit v j)).
  { destruct (N.testbit (fieldv e f) j) eqn:Fj, (N.testbit v j) eqn:Vj; cbn; try reflexivity; exfalso; apply Ha;
      apply N.bits_inj; intro i; rewrite N.land_spec; specialize (Hu i);
      bit_of A i; bit_of B i; bit_of E1 i; bit_of E2 i; bit_of E3 i;
      (destruct (j =? i) eqn:Eji; [apply N.eqb_eq in Eji; subst j|]);
      destruct (N.testbit (fieldv e f) i), (N.testbit m i), (N.testbit v i), (N.testbit (kset k f) i),
        (N.testbit (kclr k f) i); cbn in *; congruence. }
  destruct (N.land v u =? 0) eqn:Evu.
  - apply N.eqb_eq in Evu. apply sat_kadd; [exact Hs'| |apply N.land_0_r].
    apply N.bits_inj; intro i. rewrite N.land_spec. bit_of Evu i. rewrite Eu, bit_spec in *.
    destruct (j =? i) eqn:Eji; [|now rewrite andb_false_r].
    apply N.eqb_eq in Eji; subst i. rewrite Hj. rewrite andb_true_r in B0. now rewrite B0.
  - apply N.eqb_neq in Evu. apply sat_kadd; [exact Hs'|apply N.land_0_r|].
    apply N.bits_inj; intro i. rewrite N.land_spec, N.bits_0, Eu, bit_spec.
    destruct (j =? i) eqn:Eji; [|now rewrite andb_false_r].
    apply N.eqb_eq in Eji; subst i. rewrite Hj, andb_true_r.
    destruct (N.testbit v j) eqn:Vj; [reflexivity|]. exfalso. apply Evu.
    apply N.bits_inj; intro i. rewrite N.land_spec, N.bits_0, Eu, bit_spec.
    destruct (j =? i) eqn:Eji; [|now rewrite andb_false_r].
    apply N.eqb_eq in Eji; subst i. now rewrite Vj.
Qed.

(* ------------------------------------------------------------------ consistency closure *)

Definition consistent (e : env) : Prop := consistentb e = true.

Lemma subset_land a s : N.ldiff s a = 0 -> N.land a s = s.
Proof.
  intro H. apply N.bits_inj; intro i. bit_of H i. rewrite N.land_spec.
  destruct (N.testbit a i), (N.testbit s i); cbn in *; congruence.
Qed.
Lemma land_trans F S m : N.land F S = S -> N.ldiff m S = 0 -> N.land F m = m.
Proof.
  intros A H. apply N.bits_inj; intro i. bit_of A i. bit_of H i. rewrite N.land_spec.
  destruct (N.testbit F i), (N.testbit S i), (N.testbit m i); cbn in *; congruence.
Qed.

Lemma apply_rule_sat e k r : sat e k -> rule_ok e r = true -> sat e (apply_rule k r).
Proof.
  intros Hs Hr. destruct r as [[[f1 m1] f2] m2]. unfold apply_rule, rule_ok in *.
  destruct (N.ldiff m1 (kset k f1) =? 0) eqn:E; [|exact Hs].
  apply N.eqb_eq in E. destruct (proj1 Hs f1) as [A _].
  rewrite (proj2 (N.eqb_eq _ _) (land_trans _ _ _ A E)) in Hr. cbn in Hr. apply N.eqb_eq in Hr.
  apply sat_kadd; [exact Hs|exact Hr|apply N.land_0_r].
Qed.

Lemma close1_sat e k : consistent e -> sat e k -> sat e (close1 k).
Proof.
  unfold consistent, consistentb, close1. intros Hc. rewrite forallb_forall in Hc.
  revert k. induction rules as [|r rs IH]; intros k Hs; cbn [fold_left]; [exact Hs|].
  apply IH.
  - intros x Hx. apply Hc. now right.
  - apply apply_rule_sat; [exact Hs|]. apply Hc. now left.
Qed.

Lemma closeN_sat e n : consistent e -> forall k, sat e k -> sat e (closeN n k).
Proof.
  intros Hc k Hs. induction n as [|n IH]; [exact Hs|].
  exact (close1_sat e (closeN n k) Hc IH).
Qed.
Lemma close_sat e k : consistent e -> sat e k -> sat e (close k).
Proof. intros Hc Hs. exact (closeN_sat e _ Hc k Hs). Qed.

Lemma implied_sound e k ft : sat e k -> implied k ft = true -> in_baseline ft || availb e ft = true.
Proof.
  intros Hs H. unfold implied in H. apply orb_true_iff in H. apply orb_true_iff.
  destruct H as [H|H]; [now left|right].
  unfold availb. rewrite forallb_forall in *. intros [f m] Hin. specialize (H _ Hin). cbn [fst snd] in H.
  unfold has; cbn [fst snd]. apply N.eqb_eq in H. apply N.eqb_eq.
  destruct (proj1 Hs f) as [A _]. exact (land_trans _ _ _ A H).
Qed.

(* ------------------------------------------------------------------ normal forms of tests *)

Definition fo (e : env) (o : option field) : N := match o with Some f => fieldv e f | None => 0 end.
Definition nf_ok (e : env) (n : nform) (val : N) : Prop :=
  let '(o, m, x) := n in (o = None -> m = 0) /\ val = N.lxor (N.land (fo e o) m) x.

Lemma nf_op_ok e op bop :
  (forall a b i, N.testbit (op a b) i = bop (N.testbit a i) (N.testbit b i)) ->
  forall p q r A B, nf_op op (Some p) (Some q) = Some r -> nf_ok e p A -> nf_ok e q B -> nf_ok e r (op A B).
Proof.
  intros Hop [[o1 m1] x1] [[o2 m2] x2] r A B H [N1 V1] [N2 V2]. cbn [nf_op] in H.
  destruct (nf_join o1 o2) as [o|] eqn:J; [|discriminate]. injection H as <-. cbn [nf_ok].
  (* both operands read with the joined field *)
  assert (HA : A = N.lxor (N.land (fo e o) m1) x1 /\ B = N.lxor (N.land (fo e o) m2) x2 /\
               (o = None -> m1 = 0 /\ m2 = 0)).
  { destruct o1 as [f1|], o2 as [f2|]; cbn [nf_join] in J.
    - destruct (field_eqb f1 f2) eqn:E; [|discriminate]. injection J as <-.
      apply field_eqb_eq in E. subst f2.
      split; [exact V1|split; [exact V2|intro Hn; discriminate Hn]].
    - injection J as <-. rewrite (N2 eq_refl), N.land_0_r in V2.
      split; [exact V1|split; [now rewrite (N2 eq_refl), N.land_0_r|intro Hn; discriminate Hn]].
    - injection J as <-. rewrite (N1 eq_refl), N.land_0_r in V1.
      split; [now rewrite (N1 eq_refl), N.land_0_r|split; [exact V2|intro Hn; discriminate Hn]].
    - injection J as <-. split; [exact V1|split; [exact V2|]].
      intros _. split; [now apply N1|now apply N2]. }
  destruct HA as [EA [EB HN]]. split.
  - intros ->. destruct (HN eq_refl) as [-> ->]. rewrite !N.lxor_0_l. apply N.lxor_nilpotent.
  - rewrite EA, EB. apply N.bits_inj; intro i.
    rewrite Hop, !N.lxor_spec, !N.land_spec, !N.lxor_spec, !Hop, !N.lxor_spec.
    destruct (N.testbit (fo e o) i); cbn [andb]; rewrite ?xorb_false_l.
    + destruct (bop (N.testbit x1 i) (N.testbit x2 i)),
        (bop (xorb (N.testbit m1 i) (N.testbit x1 i)) (xorb (N.testbit m2 i) (N.testbit x2 i))); reflexivity.
    + reflexivity.
Qed.

Lemma norm_sound e x : forall n, norm x = Some n -> nf_ok e n (ev e x).
Proof.
  induction x as [c|f|a IHa b IHb|a IHa b IHb|a IHa b IHb]; cbn [norm ev]; intros n H.
  - injection H as <-. split; [reflexivity|]. now rewrite N.land_0_r, N.lxor_0_l.
  - injection H as <-. split; [discriminate|]. cbn [fo]. now rewrite fieldv_ones, N.lxor_0_r.
  - destruct (norm a) as [p|]; [|discriminate]. destruct (norm b) as [q|]; [|destruct p as [[? ?] ?]; discriminate].
    exact (nf_op_ok e N.land andb N.land_spec p q n _ _ H (IHa p eq_refl) (IHb q eq_refl)).
  - destruct (norm a) as [p|]; [|discriminate]. destruct (norm b) as [q|]; [|destruct p as [[? ?] ?]; discriminate].
    exact (nf_op_ok e N.lor orb N.lor_spec p q n _ _ H (IHa p eq_refl) (IHb q eq_refl)).
  - destruct (norm a) as [p|]; [|discriminate]. destruct (norm b) as [q|]; [|destruct p as [[? ?] ?]; discriminate].
    exact (nf_op_ok e N.lxor xorb N.lxor_spec p q n _ _ H (IHa p eq_refl) (IHb q eq_refl)).
Qed.

Lemma lxor_eqb_0 a b : (N.lxor a b =? 0) = (a =? b).
Proof.
  destruct (a =? b) eqn:E.
  - apply N.eqb_eq in E. subst. rewrite N.lxor_nilpotent. reflexivity.
  - apply N.eqb_neq. intro H. apply N.lxor_eq in H. apply N.eqb_neq in E. contradiction.
Qed.

Lemma test_of_atom e c f m v : test_of c = TAtom f m v -> (ev e c =? 0) = atomv e f m v.
Proof.
  unfold test_of. destruct (norm c) as [[[o m'] x]|] eqn:E; [|discriminate].
  destruct o as [g|]; [|discriminate]. intros H. injection H as -> -> ->.
  destruct (norm_sound e c _ E) as [_ V]. rewrite V. cbn [fo]. unfold atomv. apply lxor_eqb_0.
Qed.
Lemma test_of_const e c b : test_of c = TConst b -> (ev e c =? 0) = b.
Proof.
  unfold test_of. destruct (norm c) as [[[o m'] x]|] eqn:E; [|discriminate].
  destruct o as [g|]; [discriminate|]. intros H. injection H as <-.
  destruct (norm_sound e c _ E) as [M V]. rewrite V, (M eq_refl), N.land_0_r, N.lxor_0_l. reflexivity.
Qed.

(* ------------------------------------------------------------------ the checker is sound *)

Theorem check_sound requires t : forall k,
  check requires k t = true ->
  forall e, consistent e -> sat e k -> bound_okb requires e (eval t e) = true.
Proof.
  induction t as [r|c a IHa b IHb]; intros k Hc e Hcons Hs; cbn [check eval] in *.
  - destruct r as [x|]; [|discriminate]. unfold leaf_ok in Hc. unfold bound_okb.
    destruct (requires x) as [l|]; [|discriminate].
    rewrite forallb_forall in *. intros ft Hin. apply (implied_sound e (close k)).
    + now apply close_sat.
    + now apply Hc.
  - destruct (test_of c) as [f m v|[|]|] eqn:T.
    + rewrite (test_of_atom e c f m v T). destruct (decide k f m v) eqn:D.
      * rewrite (decide_true e k f m v Hs D). now apply (IHa k).
      * rewrite (decide_false e k f m v Hs D). now apply (IHb k).
      * apply andb_prop in Hc. destruct Hc as [Ha Hb].
        destruct (atomv e f m v) eqn:At.
        -- apply (IHa _ Ha e Hcons). now apply assume_true_sat.
        -- apply (IHb _ Hb e Hcons). now apply assume_false_sat.
    + rewrite (test_of_const e c true T). now apply (IHa k).
    + rewrite (test_of_const e c false T). now apply (IHb k).
    + apply andb_prop in Hc. destruct Hc as [Ha Hb].
      destruct (ev e c =? 0); [now apply (IHa k)|now apply (IHb k)].
Qed.

Lemma sat_k_of_feats e l : forallb (availb e) l = true -> sat e (k_of_feats l).
Proof.
  unfold k_of_feats. intros H. rewrite forallb_forall in H.
  assert (G : forall k, sat e k -> sat e
            (fold_left (fun k ft => fold_left (fun k' fm => kadd k' (fst fm) (snd fm) 0) (need ft) k) l k)).
  { induction l as [|ft l IH]; intros k Hs; cbn [fold_left]; [exact Hs|].
    apply IH.
    - intros x Hx. apply H. now right.
    - assert (Hav : availb e ft = true) by (apply H; now left).
      unfold availb in Hav. rewrite forallb_forall in Hav.
      revert k Hs. induction (need ft) as [|fm fms IH2]; intros k Hs; cbn [fold_left]; [exact Hs|].
      apply IH2.
      + intros x Hx. apply Hav. now right.
      + apply sat_kadd; [exact Hs| |apply N.land_0_r].
        assert (Hh : has e fm = true) by (apply Hav; now left). unfold has in Hh. now apply N.eqb_eq in Hh. }
  apply G, sat_k0.
Qed.

(* the per-dispatcher statement: a dispatcher the checker accepts binds, in every consistent
   environment that meets the entry point's documented minimum, a symbol whose call closure
   needs only available features (baseline features excepted), and it is never stuck *)
Theorem check_disp_sound tbl d :
  check_disp tbl d = true ->
  forall e, consistent e -> doc_min_okb (d_entry d) e = true ->
  bound_okb (requires_of tbl) e (exec (d_entry d) (d_code d) e) = true.
Proof.
  unfold check_disp. intros H e Hc Hm. apply andb_prop in H. destruct H as [_ H].
  rewrite sexec_sound. apply (check_sound _ _ _ H e Hc). now apply sat_k_of_feats.
Qed.

(* ------------------------------------------------------------------ same family *)

Lemma agree2_sound e1 e2 r1 t2 : forall k,
  agree2 e1 e2 k r1 t2 = true -> forall e, sat e k ->
  fam_eqb (famo e1 r1) (famo e2 (eval t2 e)) = true.
Proof.
  induction t2 as [r|c a IHa b IHb]; intros k H e Hs; cbn [agree2 eval] in *; [exact H|].
  destruct (test_of c) as [f m v|[|]|] eqn:T.
  - rewrite (test_of_atom e c f m v T). destruct (decide k f m v) eqn:D.
    + rewrite (decide_true e k f m v Hs D). now apply (IHa k).
    + rewrite (decide_false e k f m v Hs D). now apply (IHb k).
    + apply andb_prop in H. destruct H as [Ha Hb]. destruct (atomv e f m v) eqn:At.
      * apply (IHa _ Ha). now apply assume_true_sat.
      * apply (IHb _ Hb). now apply assume_false_sat.
  - rewrite (test_of_const e c true T). now apply (IHa k).
  - rewrite (test_of_const e c false T). now apply (IHb k).
  - apply andb_prop in H. destruct H as [Ha Hb].
    destruct (ev e c =? 0); [now apply (IHa k)|now apply (IHb k)].
Qed.

Theorem agree_sound e1 e2 t1 t2 : forall k,
  agree e1 e2 k t1 t2 = true -> forall e, sat e k ->
  fam_eqb (famo e1 (eval t1 e)) (famo e2 (eval t2 e)) = true.
Proof.
  induction t1 as [r|c a IHa b IHb]; intros k H e Hs; cbn [agree eval] in *.
  - now apply (agree2_sound e1 e2 r t2 k).
  - destruct (test_of c) as [f m v|[|]|] eqn:T.
    + rewrite (test_of_atom e c f m v T). destruct (decide k f m v) eqn:D.
      * rewrite (decide_true e k f m v Hs D). now apply (IHa k).
      * rewrite (decide_false e k f m v Hs D). now apply (IHb k).
      * apply andb_prop in H. destruct H as [Ha Hb]. destruct (atomv e f m v) eqn:At.
        -- apply (IHa _ Ha). now apply assume_true_sat.
        -- apply (IHb _ Hb). now apply assume_false_sat.
    + rewrite (test_of_const e c true T). now apply (IHa k).
    + rewrite (test_of_const e c false T). now apply (IHb k).
    + apply andb_prop in H. destruct H as [Ha Hb].
      destruct (ev e c =? 0); [now apply (IHa k)|now apply (IHb k)].
Qed.

Lemma list_eqb_eq a : forall b, list_eqb a b = true -> a = b.
Proof.
  induction a as [|x a IH]; intros [|y b] H; cbn in H; try discriminate; [reflexivity|].
  apply andb_prop in H. destruct H as [H1 H2]. apply String.eqb_eq in H1. subst y. f_equal. now apply IH.
Qed.

(* all members of a group bind the same family — for every environment, no hypothesis *)
Theorem group_ok_sound ds : group_ok ds = true ->
  forall e d1 d2, In d1 ds -> In d2 ds ->
  exists fam, famo (d_entry d1) (exec (d_entry d1) (d_code d1) e) = Some fam /\
              famo (d_entry d2) (exec (d_entry d2) (d_code d2) e) = Some fam.
Proof.
  destruct ds as [|d0 r]; [intros _ e d1 d2 []|].
  cbn [group_ok]. intros H e.
  assert (G : forall d, In d (d0 :: r) ->
            fam_eqb (famo (d_entry d0) (exec (d_entry d0) (d_code d0) e))
                    (famo (d_entry d) (exec (d_entry d) (d_code d) e)) = true).
  { rewrite forallb_forall in H. intros d Hin.
    rewrite !sexec_sound. apply (agree_sound _ _ _ _ k0); [now apply H|apply sat_k0]. }
  intros d1 d2 H1 H2. pose proof (G d1 H1) as G1. pose proof (G d2 H2) as G2.
  destruct (famo (d_entry d0) (exec (d_entry d0) (d_code d0) e)) as [f0|]; [|discriminate].
  destruct (famo (d_entry d1) (exec (d_entry d1) (d_code d1) e)) as [f1|]; [|discriminate].
  destruct (famo (d_entry d2) (exec (d_entry d2) (d_code d2) e)) as [f2|]; [|discriminate].
  cbn [fam_eqb] in *. apply list_eqb_eq in G1, G2. subst. now exists f2.
Qed.

(* ------------------------------------------------------------------ binding stability *)

(* Stub model: the slot holds the stub address until the first call; the first call runs
   <entry>_dispatch_init, which stores [exec ... e]; nothing else stores to the slot (a
   regenerated fact, [ref_ok]).  Whatever the number of calls, every call runs the same
   implementation and the slot holds it from the first call on. *)
Theorem binding_stable d e x :
  exec (d_entry d) (d_code d) e = Some x ->
  forall n p, p = PInit \/ p = PTarget x ->
  call_n d e (S n) p = (PTarget x, repeat (Some x) (S n)).
Proof.
  intros Hx. induction n as [|n IH]; intros p Hp.
  - cbn [call_n repeat]. destruct Hp as [-> | ->]; cbn [call_entry]; [rewrite Hx|]; reflexivity.
  - change (call_n d e (S (S n)) p) with
      (let '(p1, r) := call_entry d e p in let '(p2, rs) := call_n d e (S n) p1 in (p2, r :: rs)).
    assert (H1 : call_entry d e p = (PTarget x, Some x)).
    { destruct Hp as [-> | ->]; cbn [call_entry]; [rewrite Hx|]; reflexivity. }
    rewrite H1, (IH (PTarget x)) by now right. reflexivity.
Qed.

(* ------------------------------------------------------------------ Prop-level reading *)

Definition avail (e : env) (ft : feat) : Prop :=
  forall f m, In (f, m) (need ft) -> N.land (fieldv e f) m = m.

Lemma availb_avail e ft : availb e ft = true <-> avail e ft.
Proof.
  unfold availb, avail. rewrite forallb_forall. split.
  - intros H f m Hin. specialize (H _ Hin). unfold has in H. now apply N.eqb_eq in H.
  - intros H [f m] Hin. unfold has. apply N.eqb_eq. now apply H.
Qed.

Lemma feat_eqb_eq a b : feat_eqb a b = true <-> a = b.
Proof.
  unfold feat_eqb. split; [|intros ->; apply Nat.eqb_refl].
  intros H. apply Nat.eqb_eq in H. destruct a, b; cbn in H; try reflexivity; discriminate.
Qed.

Lemma in_baseline_In ft : in_baseline ft = true <-> In ft baseline.
Proof.
  unfold in_baseline. rewrite existsb_exists. split.
  - intros [x [Hin Hx]]. apply feat_eqb_eq in Hx. now subst.
  - intros H. exists ft. split; [exact H|now apply feat_eqb_eq].
Qed.

(* the symbol x can be executed in environment e: every ISA extension its call closure needs
   is either part of the assumed baseline or available (CPUID bit and OS-enabled state) *)
Definition executable (tbl : list (string * list feat)) (e : env) (x : string) : Prop :=
  exists l, requires_of tbl x = Some l /\ forall ft, In ft l -> In ft baseline \/ avail e ft.

Lemma bound_okb_spec tbl e r :
  bound_okb (requires_of tbl) e r = true <-> exists x, r = Some x /\ executable tbl e x.
Proof.
  unfold bound_okb, executable. split.
  - destruct r as [x|]; [|discriminate]. destruct (requires_of tbl x) as [l|] eqn:E; [|discriminate].
    intros H. exists x. split; [reflexivity|]. exists l. split; [exact E|].
    rewrite forallb_forall in H. intros ft Hin. specialize (H _ Hin). apply orb_true_iff in H.
    destruct H as [H|H]; [left; now apply in_baseline_In|right; now apply availb_avail].
  - intros [x [-> [l [-> H]]]]. rewrite forallb_forall. intros ft Hin. apply orb_true_iff.
    destruct (H _ Hin) as [Hb|Ha]; [left; now apply in_baseline_In|right; now apply availb_avail].
Qed.

Definition doc_min_ok (entry : string) (e : env) : Prop := forall ft, In ft (doc_min entry) -> avail e ft.
Lemma doc_min_okb_spec entry e : doc_min_okb entry e = true <-> doc_min_ok entry e.
Proof.
  unfold doc_min_okb, doc_min_ok. rewrite forallb_forall. split; intros H ft Hin.
  - apply availb_avail. now apply H.
  - apply availb_avail. now apply H.
Qed.

(* C12 for one dispatcher *)
Definition safe (tbl : list (string * list feat)) (d : dispatcher) : Prop :=
  forall e, consistent e -> doc_min_ok (d_entry d) e ->
  exists x, exec (d_entry d) (d_code d) e = Some x /\ executable tbl e x.

Theorem check_disp_safe tbl d : check_disp tbl d = true -> safe tbl d.
Proof.
  intros H e Hc Hm. apply bound_okb_spec. apply check_disp_sound; [exact H|exact Hc|].
  now apply doc_min_okb_spec.
Qed.

Theorem refutes_not_safe tbl d e : refutes tbl d e = true -> ~ safe tbl d.
Proof.
  unfold refutes. intros H Hs. apply andb_prop in H. destruct H as [H Hb]. apply andb_prop in H.
  destruct H as [Hc Hm]. apply doc_min_okb_spec in Hm. specialize (Hs e Hc Hm).
  apply bound_okb_spec in Hs. rewrite Hs in Hb. discriminate.
Qed.

(* ------------------------------------------------------------------ safe or refuted *)

Section Partition.
  Variable tbl : list (string * list feat).
  Variable ds : list dispatcher.
  Hypothesis W : forallb (has_witness tbl) (unsafe_of tbl ds) = true.

  Definition refuted (d : dispatcher) : Prop :=
    exists e, consistent e /\ doc_min_ok (d_entry d) e /\
              ~ (exists x, exec (d_entry d) (d_code d) e = Some x /\ executable tbl e x).

  Theorem unsafe_refuted_gen : forall d, In d (unsafe_of tbl ds) -> refuted d.
  Proof.
    intros d Hin. rewrite forallb_forall in W. specialize (W d Hin). unfold has_witness in W.
    destruct (counterexample tbl d) as [e|] eqn:E; [|discriminate W].
    unfold counterexample in E. apply find_some in E. destruct E as [_ E].
    exists e. unfold refutes in E. apply andb_prop in E. destruct E as [E Hb]. apply andb_prop in E.
    destruct E as [Hc Hm]. split; [exact Hc|]. split; [exact (proj1 (doc_min_okb_spec _ _) Hm)|].
    intros Hx. apply bound_okb_spec in Hx. rewrite Hx in Hb. discriminate Hb.
  Qed.

  Theorem safe_or_refuted_gen : forall d, In d ds ->
    safe tbl d \/ (In d (unsafe_of tbl ds) /\ refuted d).
  Proof.
    intros d Hin. destruct (check_disp tbl d) eqn:E.
    - left. exact (check_disp_safe tbl d E).
    - right. assert (Hu : In d (unsafe_of tbl ds)).
      { unfold unsafe_of. apply (proj2 (filter_In _ d ds)). split; [exact Hin|]. rewrite E. reflexivity. }
      split; [exact Hu|exact (unsafe_refuted_gen d Hu)].
  Qed.

  Theorem safe_unless_listed_gen : forall d, In d ds -> ~ In d (unsafe_of tbl ds) -> safe tbl d.
  Proof.
    intros d Hin Hn. destruct (safe_or_refuted_gen d Hin) as [H|[H _]]; [exact H|contradiction].
  Qed.
End Partition.

Section Groups.
  Variable ds : list dispatcher.
  Variable names : list (string * list string).
  Hypothesis G : forallb (group_checked ds) names = true.

  Theorem same_family_gen : forall g l, In g names -> resolve ds (snd g) = Some l ->
    forall e d1 d2, In d1 l -> In d2 l ->
    exists fam, famo (d_entry d1) (exec (d_entry d1) (d_code d1) e) = Some fam /\
                famo (d_entry d2) (exec (d_entry d2) (d_code d2) e) = Some fam.
  Proof.
    intros g l Hg Hr. rewrite forallb_forall in G. specialize (G g Hg).
    unfold group_checked in G. rewrite Hr in G. exact (group_ok_sound l G).
  Qed.
End Groups.
