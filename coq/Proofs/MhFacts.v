(* Generic facts about the multi-hash context model (Model/MhCtx.v): for ANY block function,
   init / update* / finalize computes  finalf (fold blockf (1024-byte blocks of stream ++ pad)). *)
From Coq Require Import NArith ZArith List Arith Lia ZifyBool ZifyNat ZifyN.
From ISAL Require Import Base.Words Base.ListUtil Spec.MD Spec.MH Model.MhCtx
  Proofs.WordsFacts Proofs.ListFacts Proofs.ChunkFacts.
Import ListNotations.

Ltac Zify.zify_post_hook ::= Z.div_mod_to_equations.

(* ---- mh_memcpy ---- *)
Lemma mh_memcpy_in (dst : list N) off src : off + length src <= length dst ->
  mh_memcpy dst off src = firstn off dst ++ src ++ skipn (off + length src) dst.
Proof.
  intros H. unfold mh_memcpy. apply firstn_all2.
  rewrite !app_length, firstn_length, skipn_length. lia.
Qed.

Lemma length_mh_memcpy (dst : list N) off src : off + length src <= length dst ->
  length (mh_memcpy dst off src) = length dst.
Proof.
  intros H. rewrite mh_memcpy_in by exact H.
  rewrite !app_length, firstn_length, skipn_length. lia.
Qed.

Lemma firstn_mh_memcpy (dst : list N) off src : off + length src <= length dst ->
  firstn (off + length src) (mh_memcpy dst off src) = firstn off dst ++ src.
Proof.
  intros H. rewrite mh_memcpy_in by exact H. rewrite app_assoc.
  apply firstn_app_exact. rewrite app_length, firstn_length. lia.
Qed.

Lemma w32_small x : (x < 2 ^ 32)%N -> w32 x = x.
Proof. apply wrap_small. Qed.
Lemma w64_small x : (x < 2 ^ 64)%N -> w64 x = x.
Proof. apply wrap_small. Qed.

Section Generic.
Variable S : Type.
Variable blockf : S -> list N -> S.
Variable st0 : S.

Definition mh_inv (c : mh_ctx S) (stream : list N) : Prop :=
  exists body tail k,
    stream = body ++ tail /\ length body = k * 1024 /\ length tail < 1024 /\
    mc_total c = N.of_nat (length stream) /\ length (mc_partial c) = 1024 /\
    firstn (length tail) (mc_partial c) = tail /\
    mc_state c = fold_left blockf (chunks 1024 body) st0.

Lemma mh_inv_init : mh_inv (mhc_init S st0) [].
Proof.
  exists [], [], 0. cbn [mhc_init mc_total mc_partial mc_state app length].
  repeat split; try reflexivity; try lia.
Qed.

Lemma fold_blocks_app (a b : list N) k st : length a = k * 1024 ->
  fold_left blockf (chunks 1024 (a ++ b)) st = fold_left blockf (chunks 1024 b) (fold_left blockf (chunks 1024 a) st).
Proof.
  intros H. rewrite chunks_app by (try lia; exists k; exact H). apply fold_left_app.
Qed.

Lemma mh_inv_update c stream buf :
  mh_inv c stream -> (N.of_nat (length stream + length buf) < 2 ^ 32)%N ->
  mh_inv (mhc_update S blockf c buf) (stream ++ buf).
Proof.
  intros (body & tail & k & Hs & Hb & Ht & Htot & Hpl & Hpt & Hst) Hlt.
  assert (Hlen : length stream = k * 1024 + length tail) by (rewrite Hs, app_length; lia).
  assert (P32 : (2 ^ 32 = 4294967296)%N) by reflexivity.
  assert (P64 : (2 ^ 64 = 18446744073709551616)%N) by reflexivity.
  unfold mhc_update.
  destruct (N.eqb_spec (N.of_nat (length buf)) 0) as [E0|E0].
  { assert (buf = []) by (destruct buf; [reflexivity|cbn [length] in E0; lia]). subst buf.
    rewrite app_nil_r. exists body, tail, k. repeat split; assumption. }
  assert (Hplen : (mc_total c mod 1024 = N.of_nat (length tail))%N) by (rewrite Htot; lia).
  assert (Htot' : w64 (mc_total c + N.of_nat (length buf)) = N.of_nat (length (stream ++ buf))).
  { rewrite app_length, Htot. rewrite w64_small by lia. lia. }
  rewrite Hplen, Htot'. rewrite Nat2N.id.
  destruct (N.ltb_spec (N.of_nat (length buf) + N.of_nat (length tail)) 1024) as [Hsm|Hbig].
  - (* not enough data *)
    exists body, (tail ++ buf), k. cbn [mc_total mc_partial mc_state].
    assert (Hin : length tail + length buf <= length (mc_partial c)) by lia.
    repeat split; try assumption.
    + rewrite Hs, app_assoc. reflexivity.
    + rewrite app_length. lia.
    + rewrite length_mh_memcpy by exact Hin. exact Hpl.
    + rewrite app_length, firstn_mh_memcpy by exact Hin. rewrite Hpt. reflexivity.
  - (* at least one block *)
    remember (length tail) as t eqn:Et0.
    (* after the carried partial block *)
    assert (Hmid : exists body1 k1 data st1 part1,
      (if (N.of_nat t =? 0)%N then (mc_state c, mc_partial c, buf)
       else (blockf (mc_state c) (mh_memcpy (mc_partial c) t (firstn (MH_BLOCK - t) buf)),
             zeros MH_BLOCK, skipn (MH_BLOCK - t) buf)) = (st1, part1, data) /\
      stream ++ buf = body1 ++ data /\ length body1 = k1 * 1024 /\ length part1 = 1024 /\
      st1 = fold_left blockf (chunks 1024 body1) st0).
    { destruct (N.eqb_spec (N.of_nat t) 0) as [Et|Et].
      - exists body, k, buf, (mc_state c), (mc_partial c). repeat split; try assumption.
        assert (Hnil : tail = []) by (destruct tail; [reflexivity|cbn [length] in Et0; lia]).
        rewrite Hs, Hnil, app_nil_r. reflexivity.
      - unfold MH_BLOCK.
        assert (Hin : t + length (firstn (1024 - t) buf) <= length (mc_partial c))
          by (rewrite firstn_length; lia).
        set (pb := mh_memcpy (mc_partial c) t (firstn (1024 - t) buf)).
        assert (Hpb : pb = tail ++ firstn (1024 - t) buf).
        { unfold pb. rewrite mh_memcpy_in by exact Hin. rewrite Hpt.
          rewrite skipn_all2 by (rewrite firstn_length; lia). rewrite app_nil_r. reflexivity. }
        assert (Lpb : length pb = 1024) by (rewrite Hpb, app_length, firstn_length; lia).
        exists (body ++ pb), (Datatypes.S k), (skipn (1024 - t) buf), (blockf (mc_state c) pb), (zeros 1024).
        repeat split.
        + rewrite Hs, Hpb, <- !app_assoc. f_equal. f_equal. symmetry. apply firstn_skipn.
        + rewrite app_length. lia.
        + rewrite (fold_blocks_app body pb k) by exact Hb. rewrite <- Hst.
          rewrite chunks_exact by lia. reflexivity. }
    destruct Hmid as (body1 & k1 & data & st1 & part1 & Eq & Hsd & Hb1 & Hp1 & Hst1).
    rewrite Eq. clear Eq. cbv beta iota zeta. unfold MH_BLOCK.
    set (nb := length data / 1024).
    set (d1 := firstn (nb * 1024) data). set (rest := skipn (nb * 1024) data).
    assert (Ld1 : length d1 = nb * 1024) by (unfold d1; rewrite firstn_length; lia).
    assert (Lrest : length rest < 1024) by (unfold rest; rewrite skipn_length; lia).
    assert (Hdata : data = d1 ++ rest) by (symmetry; apply firstn_skipn).
    assert (Hst2 : (if nb =? 0 then st1 else mh_blocks_n S blockf st1 data nb)
                   = fold_left blockf (chunks 1024 (body1 ++ d1)) st0).
    { rewrite (fold_blocks_app body1 d1 k1) by exact Hb1. rewrite <- Hst1.
      destruct (Nat.eqb_spec nb 0) as [En|En].
      - assert (d1 = []) by (destruct d1; [reflexivity|cbn [length] in Ld1; lia]).
        rewrite H. reflexivity.
      - reflexivity. }
    exists (body1 ++ d1), rest, (k1 + nb). cbn [mc_total mc_partial mc_state].
    repeat split; try assumption.
    + rewrite Hsd, Hdata, app_assoc. reflexivity.
    + rewrite app_length. lia.
    + destruct rest as [|r0 rr] eqn:Er; [exact Hp1|].
      rewrite length_mh_memcpy by (rewrite Hp1; cbn [plus]; lia). exact Hp1.
    + destruct rest as [|r0 rr] eqn:Er; [reflexivity|].
      change (length (r0 :: rr)) with (0 + length (r0 :: rr)).
      rewrite firstn_mh_memcpy by (rewrite Hp1; cbn [plus]; lia). reflexivity.
Qed.

Lemma mh_inv_updates segs : forall c stream,
  mh_inv c stream -> (N.of_nat (length stream + length (concat segs)) < 2 ^ 32)%N ->
  mh_inv (fold_left (mhc_update S blockf) segs c) (stream ++ concat segs).
Proof.
  induction segs as [|s segs IH]; intros c stream Hi Hlt.
  - cbn [concat fold_left]. rewrite app_nil_r. exact Hi.
  - cbn [concat fold_left]. rewrite app_assoc. apply IH.
    + apply mh_inv_update; [exact Hi|]. cbn [concat] in Hlt. rewrite app_length in Hlt. lia.
    + cbn [concat] in Hlt. rewrite !app_length in *. lia.
Qed.

(* the tail: padding into one or two blocks *)
Lemma mh_tail_correct c stream :
  mh_inv c stream -> (N.of_nat (length stream) < 2 ^ 32)%N ->
  mhc_tail S blockf (mc_partial c) (w32 (mc_total c)) (mc_state c)
  = fold_left blockf (mh_blocks stream) st0.
Proof.
  intros (body & tail & k & Hs & Hb & Ht & Htot & Hpl & Hpt & Hst) Hlt.
  assert (Hlen : length stream = k * 1024 + length tail) by (rewrite Hs, app_length; lia).
  assert (P32 : (2 ^ 32 = 4294967296)%N) by reflexivity.
  assert (P64 : (2 ^ 64 = 18446744073709551616)%N) by reflexivity.
  unfold mhc_tail, mh_blocks. change mh_bsize with 1024. unfold MH_BLOCK.
  rewrite Htot, w32_small by lia.
  assert (Hp : N.to_nat (N.of_nat (length stream) mod 1024) = length tail) by lia.
  rewrite Hp. rewrite Hpt. set (t := length tail) in *.
  rewrite w64_small by lia.
  set (lenf := N_to_be 8 (N.of_nat (length stream) * 8)).
  assert (Llenf : length lenf = 8) by (unfold lenf, N_to_be; rewrite rev_length; reflexivity).
  set (buf1 := firstn 1024 (tail ++ [128%N] ++ zeros (1024 - (t + 1)))).
  assert (Hbuf1 : buf1 = tail ++ [128%N] ++ zeros (1024 - (t + 1))).
  { unfold buf1. apply firstn_all2. rewrite !app_length, length_zeros. cbn [length]. lia. }
  assert (Lbuf1 : length buf1 = 1024).
  { rewrite Hbuf1, !app_length, length_zeros. cbn [length]. lia. }
  unfold mh_pad, mh_padz. change mh_bsize with 1024.
  replace (N_to_be 8 (8 * N.of_nat (length stream))) with lenf by (unfold lenf; f_equal; lia).
  set (pz := (1024 - (length stream + 9) mod 1024) mod 1024).
  replace (stream ++ [128%N] ++ zeros pz ++ lenf) with (body ++ (tail ++ [128%N] ++ zeros pz ++ lenf))
    by (rewrite Hs, <- app_assoc; reflexivity).
  rewrite (fold_blocks_app body _ k) by exact Hb. rewrite <- Hst.
  destruct (Nat.ltb_spec (1024 - 8) (t + 1)) as [Htwo|Hone].
  - (* two blocks *)
    replace pz with ((1024 - (t + 1)) + 1016) by (unfold pz; lia).
    rewrite zeros_app.
    replace (tail ++ [128%N] ++ (zeros (1024 - (t + 1)) ++ zeros 1016) ++ lenf)
      with (buf1 ++ (zeros 1016 ++ lenf)) by (rewrite Hbuf1, <- !app_assoc; reflexivity).
    rewrite (fold_blocks_app buf1 _ 1) by lia.
    rewrite (chunks_exact 1024 buf1) by lia. cbn [fold_left].
    assert (E2 : mh_memcpy (zeros 1024) (1024 - 8) lenf = zeros 1016 ++ lenf).
    { rewrite mh_memcpy_in by (rewrite length_zeros; lia).
      rewrite firstn_zeros by lia. rewrite skipn_all2 by (rewrite length_zeros; lia).
      rewrite app_nil_r. reflexivity. }
    rewrite E2. rewrite chunks_exact by (rewrite ?app_length, ?length_zeros; lia). reflexivity.
  - (* one block *)
    replace pz with (1024 - (t + 9)) by (unfold pz; lia).
    assert (E1 : mh_memcpy buf1 (1024 - 8) lenf = tail ++ [128%N] ++ zeros (1024 - (t + 9)) ++ lenf).
    { rewrite mh_memcpy_in by lia. rewrite skipn_all2 by lia. rewrite app_nil_r.
      rewrite Hbuf1. replace (1024 - (t + 1)) with ((1024 - (t + 9)) + 8) by lia.
      rewrite zeros_app, !app_assoc. rewrite firstn_app_exact.
      - rewrite <- !app_assoc. reflexivity.
      - rewrite !app_length, length_zeros. cbn [length]. lia. }
    rewrite E1. rewrite chunks_exact.
    + reflexivity.
    + lia.
    + rewrite !app_length, length_zeros. cbn [length]. lia.
Qed.

Variable D : Type.
Variable finalf : S -> D.

Theorem mhc_stream_correct (segs : list (list N)) :
  (N.of_nat (length (concat segs)) < 2 ^ 32)%N ->
  mhc_finalize S blockf D finalf (fold_left (mhc_update S blockf) segs (mhc_init S st0))
  = finalf (fold_left blockf (mh_blocks (concat segs)) st0).
Proof.
  intros Hlt. unfold mhc_finalize. f_equal.
  apply (mh_tail_correct _ (concat segs)); [|exact Hlt].
  change (concat segs) with ([] ++ concat segs).
  apply mh_inv_updates; [apply mh_inv_init|exact Hlt].
Qed.

End Generic.
