(* Facts about chunks, splice, upd, zeros. *)
From Coq Require Import List Arith Lia NArith.
From ISAL Require Import Base.ListUtil Proofs.ListFacts.
Import ListNotations.

Lemma chunks_f_fuel2 {A} n : n > 0 -> forall fuel fuel' (l : list A),
  length l <= fuel -> length l <= fuel' -> chunks_f fuel n l = chunks_f fuel' n l.
Proof.
  intros Hn. induction fuel as [|f IH]; intros fuel' l Hl Hl'.
  - destruct l; [destruct fuel'; reflexivity|cbn in Hl; lia].
  - destruct l as [|a l]; [destruct fuel'; reflexivity|].
    destruct fuel' as [|f']; [cbn in Hl'; lia|].
    cbn [chunks_f]. f_equal.
    apply IH; rewrite skipn_length; cbn [length] in *; lia.
Qed.

Lemma chunks_f_fuel {A} n : n > 0 -> forall fuel (l : list A),
  length l <= fuel -> chunks_f fuel n l = chunks_f (length l) n l.
Proof. intros Hn fuel l H. apply chunks_f_fuel2; [exact Hn|exact H|lia]. Qed.

Lemma chunks_nil {A} n : @chunks A n [] = [].
Proof. reflexivity. Qed.

Lemma chunks_cons {A} n (l : list A) : n > 0 -> l <> [] ->
  chunks n l = firstn n l :: chunks n (skipn n l).
Proof.
  intros Hn Hl. unfold chunks. destruct l as [|a l]; [contradiction|].
  cbn [length chunks_f]. f_equal. apply chunks_f_fuel; [exact Hn|].
  rewrite skipn_length. cbn [length]. lia.
Qed.

Lemma chunks_exact {A} n (l : list A) : n > 0 -> length l = n -> chunks n l = [l].
Proof.
  intros Hn Hl. rewrite chunks_cons by (try lia; intros ->; cbn in Hl; lia).
  rewrite firstn_all2 by lia. rewrite skipn_all2 by lia. reflexivity.
Qed.

Lemma chunks_app {A} n (a b : list A) : n > 0 -> (exists k, length a = k * n) ->
  chunks n (a ++ b) = chunks n a ++ chunks n b.
Proof.
  intros Hn [k Hk]. revert a Hk. induction k as [|k IH]; intros a Hk.
  - destruct a; [reflexivity|cbn in Hk; lia].
  - assert (Ha : a <> []) by (intros ->; cbn in Hk; lia).
    rewrite (chunks_cons n a) by assumption.
    assert (Hab : a ++ b <> []) by (destruct a; [contradiction|discriminate]).
    rewrite (chunks_cons n (a ++ b)) by assumption.
    cbn [app]. f_equal.
    + rewrite firstn_app. replace (n - length a) with 0 by lia. cbn [firstn]. apply app_nil_r.
    + rewrite skipn_app. replace (n - length a) with 0 by lia. cbn [skipn].
      apply IH. rewrite skipn_length. lia.
Qed.

Lemma length_zeros n : length (zeros n) = n.
Proof. apply repeat_length. Qed.

Lemma zeros_app a b : zeros (a + b) = zeros a ++ zeros b.
Proof. unfold zeros. apply repeat_app. Qed.

Lemma firstn_zeros a b : a <= b -> firstn a (zeros b) = zeros a.
Proof.
  intros H. replace b with (a + (b - a)) by lia. rewrite zeros_app.
  rewrite firstn_app, length_zeros. replace (a - a) with 0 by lia.
  rewrite firstn_all2 by (rewrite length_zeros; lia). cbn. apply app_nil_r.
Qed.

Lemma length_upd {A} i (x : A) l : length (upd i x l) = length l.
Proof.
  revert i; induction l as [|a l IH]; intros i; [destruct i; reflexivity|].
  destruct i; cbn [upd length]; [reflexivity|]. f_equal. apply IH.
Qed.

Lemma nth_upd_eq {A} i (x d : A) l : i < length l -> nth i (upd i x l) d = x.
Proof.
  revert i; induction l as [|a l IH]; intros i H; cbn [length] in H; [lia|].
  destruct i; cbn [upd nth]; [reflexivity|]. apply IH. lia.
Qed.

Lemma nth_upd_neq {A} i j (x d : A) l : i <> j -> nth j (upd i x l) d = nth j l d.
Proof.
  revert i j; induction l as [|a l IH]; intros i j H; [destruct i; reflexivity|].
  destruct i, j; cbn [upd nth]; try reflexivity; try lia. apply IH. lia.
Qed.

Lemma upd_app_r {A} (a : list A) x b y : upd (length a) y (a ++ x :: b) = a ++ y :: b.
Proof. induction a as [|h a IH]; cbn [length upd app]; [reflexivity|]. f_equal. exact IH. Qed.

Lemma firstn_app_l {A} n (a b : list A) : n <= length a -> firstn n (a ++ b) = firstn n a.
Proof.
  intros H. rewrite firstn_app. replace (n - length a) with 0 by lia. cbn. apply app_nil_r.
Qed.

Lemma firstn_app_exact {A} (a b : list A) n : n = length a -> firstn n (a ++ b) = a.
Proof. intros ->. rewrite firstn_app_l by lia. apply firstn_all. Qed.

Lemma skipn_app_exact {A} (a b : list A) n : n = length a -> skipn n (a ++ b) = b.
Proof. intros ->. rewrite skipn_app, skipn_all, Nat.sub_diag. reflexivity. Qed.
