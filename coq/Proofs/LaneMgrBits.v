(* Arithmetic of the packed words of Model/LaneMgr.v: the nibble/byte stack unused_lanes
   ([enc], pop, push, terminator, the `bt` emptiness test, the run literal) and the lens[]
   words (pack, unpack, minimum, subtraction). *)
From Coq Require Import NArith List Arith Bool Lia ZifyBool ZifyNat ZifyN.
From ISAL Require Import Base.Words Base.ListUtil Model.HashCtx Model.LaneMgr.
Import ListNotations.
Local Open Scope N_scope.

Lemma wrap_mod k x : wrap k x = x mod 2 ^ k.
Proof. unfold wrap. apply N.land_ones. Qed.

Lemma pow2_pos k : 0 < 2 ^ k.
Proof. apply N.neq_0_lt_0, N.pow_nonzero. discriminate. Qed.

Lemma pow2_nz k : 2 ^ k <> 0.
Proof. apply N.pow_nonzero. discriminate. Qed.

(* small arithmetic facts, proved in a clean context (nia does not like big ones) *)
Lemma ar_digit_bound x e E P : x < E -> e < P -> x + E * e < P * E.
Proof. intros. nia. Qed.
Lemma ar_digit_eq a b x c E : a < E -> x < E -> a + E * b = x + E * c -> a = x /\ b = c.
Proof.
  intros Ha Hx H. assert (Hbc : b = c).
  { destruct (N.lt_trichotomy b c) as [Hl | [He | Hg]]; [|assumption|].
    - exfalso. assert (E * (b + 1) <= E * c) by (apply N.mul_le_mono_l; lia). lia.
    - exfalso. assert (E * (c + 1) <= E * b) by (apply N.mul_le_mono_l; lia). lia. }
  subst. split; lia.
Qed.
Lemma ar_small_split a P z x : a + P * z = x -> a < P -> x < P -> z = 0 /\ a = x.
Proof.
  intros H Ha Hx. destruct (N.eq_dec z 0) as [-> | Hz]; [split; lia|].
  exfalso. assert (P * 1 <= P * z) by (apply N.mul_le_mono_l; lia). lia.
Qed.
Lemma ar_shift_bound w i E P : w < P * E -> i < E -> w * E + i < P * E * E.
Proof. intros Hw Hi. assert (E * (w + 1) <= E * (P * E)) by (apply N.mul_le_mono_l; lia). lia. Qed.
Lemma ar_prefix x e E P lit : 2 <= E -> 0 < P -> 0 < lit -> x + E * (e + P * lit) = lit -> False.
Proof.
  intros HE HP Hl H. assert (1 * lit <= P * lit) by (apply N.mul_le_mono_r; lia).
  assert (2 * (e + P * lit) <= E * (e + P * lit)) by (apply N.mul_le_mono_r; lia). lia.
Qed.

(* (a << n) | b = a * 2^n + b when b has no bits at or above n *)
Lemma lor_shiftl_add a b n : b < 2 ^ n -> N.lor (N.shiftl a n) b = a * 2 ^ n + b.
Proof.
  intros Hb.
  assert (Hland : N.land (N.shiftl a n) b = 0).
  { apply N.bits_inj_0. intros i. rewrite N.land_spec.
    destruct (N.lt_ge_cases i n) as [Hi | Hi].
    - rewrite N.shiftl_spec_low by assumption. reflexivity.
    - rewrite andb_comm.
      replace (N.testbit b i) with false; [reflexivity|].
      symmetry. rewrite <- (N.mod_small b (2 ^ n)) by assumption.
      apply N.mod_pow2_bits_high. assumption. }
  rewrite <- N.lxor_lor by assumption.
  rewrite <- N.add_nocarry_lxor by assumption.
  rewrite N.shiftl_mul_pow2. reflexivity.
Qed.

(* ---- the stack ---------------------------------------------------------------------- *)

Lemma enc_app ent a b : enc ent (a ++ b) = enc ent a + 2 ^ (ent * N.of_nat (length a)) * enc ent b.
Proof.
  induction a as [|x a IH]; cbn [enc app length].
  - change (N.of_nat 0) with 0. rewrite N.mul_0_r, N.pow_0_r. lia.
  - rewrite IH. rewrite Nat2N.inj_succ, N.mul_succ_r, N.pow_add_r. lia.
Qed.

Lemma enc_lt ent l : (forall x, In x l -> N.of_nat x < 2 ^ ent) -> enc ent l < 2 ^ (ent * N.of_nat (length l)).
Proof.
  induction l as [|x l IH]; intros H; cbn [enc length].
  - change (N.of_nat 0) with 0. rewrite N.mul_0_r, N.pow_0_r. lia.
  - rewrite Nat2N.inj_succ, N.mul_succ_r, N.pow_add_r.
    assert (Hx : N.of_nat x < 2 ^ ent) by (apply H; left; reflexivity).
    assert (Hl : enc ent l < 2 ^ (ent * N.of_nat (length l))) by (apply IH; intros; apply H; right; assumption).
    apply ar_digit_bound; assumption.
Qed.

(* representation: the low |S| entries of w are S; [top] is what lies above them *)
Definition stack_low (ent : N) (st : list nat) (w : N) : Prop :=
  w mod 2 ^ (ent * N.of_nat (length st)) = enc ent st.
Definition stack_top (ent : N) (st : list nat) (w : N) : N := w / 2 ^ (ent * N.of_nat (length st)).

Lemma stack_low_enc ent st t :
  (forall x, In x st -> N.of_nat x < 2 ^ ent) ->
  stack_low ent st (enc ent st + 2 ^ (ent * N.of_nat (length st)) * t) /\
  stack_top ent st (enc ent st + 2 ^ (ent * N.of_nat (length st)) * t) = t.
Proof.
  intros H. pose proof (enc_lt ent st H) as Hlt. pose proof (pow2_nz (ent * N.of_nat (length st))) as Hnz.
  unfold stack_low, stack_top. split.
  - rewrite (N.mul_comm _ t), N.mod_add by assumption. apply N.mod_small. assumption.
  - rewrite (N.mul_comm _ t), N.div_add by assumption. rewrite N.div_small by assumption. lia.
Qed.

Lemma stack_value ent st w : w = enc ent st + 2 ^ (ent * N.of_nat (length st)) * stack_top ent st w <-> stack_low ent st w.
Proof.
  unfold stack_low, stack_top. pose proof (pow2_nz (ent * N.of_nat (length st))) as Hnz.
  pose proof (N.div_mod w _ Hnz) as Hdm. split; intros H.
  - lia.
  - lia.
Qed.

(* pop: the entry and what is left *)
Lemma pop_head ent pop x st w :
  stack_low ent (x :: st) w -> pop <= ent -> N.of_nat x < 2 ^ pop ->
  N.to_nat (N.land w (N.ones pop)) = x.
Proof.
  unfold stack_low. cbn [length enc]. rewrite Nat2N.inj_succ, N.mul_succ_r, N.pow_add_r.
  intros Hw Hpe Hx.
  rewrite N.land_ones.
  set (P := 2 ^ (ent * N.of_nat (length st))) in *.
  assert (HP : P <> 0) by apply pow2_nz.
  assert (He : 2 ^ ent <> 0) by apply pow2_nz.
  (* w mod 2^ent = x *)
  assert (H1 : w mod 2 ^ ent = N.of_nat x).
  { assert (Hxe : N.of_nat x < 2 ^ ent).
    { eapply N.lt_le_trans; [exact Hx|]. apply N.pow_le_mono_r; [discriminate|assumption]. }
    rewrite <- (N.mod_small (N.of_nat x) (2 ^ ent)) by assumption.
    assert (Hm : (w mod (P * 2 ^ ent)) mod 2 ^ ent = w mod 2 ^ ent).
    { rewrite (N.mul_comm P). rewrite N.mod_mul_r by assumption.
      rewrite (N.mul_comm (2 ^ ent) (_ mod P)), N.mod_add by assumption. apply N.mod_mod. assumption. }
    rewrite <- Hm, Hw. rewrite (N.mul_comm (2 ^ ent)), N.mod_add by assumption. reflexivity. }
  assert (H2 : w mod 2 ^ pop = N.of_nat x).
  { replace ent with (pop + (ent - pop)) in H1 by lia. rewrite N.pow_add_r in H1.
    assert (Hp : 2 ^ pop <> 0) by apply pow2_nz.
    assert (Hq : 2 ^ (ent - pop) <> 0) by apply pow2_nz.
    rewrite N.mod_mul_r in H1 by assumption.
    assert (Hb : w mod 2 ^ pop < 2 ^ pop) by (apply N.mod_lt; assumption).
    destruct (ar_small_split _ _ _ _ H1 Hb Hx) as [_ Hz]. exact Hz. }
  rewrite H2. apply Nat2N.id.
Qed.

Lemma pop_tail ent x st w :
  stack_low ent (x :: st) w -> N.of_nat x < 2 ^ ent ->
  stack_low ent st (N.shiftr w ent) /\ stack_top ent st (N.shiftr w ent) = stack_top ent (x :: st) w.
Proof.
  unfold stack_low, stack_top. cbn [length enc]. rewrite Nat2N.inj_succ, N.mul_succ_r, N.pow_add_r.
  intros Hw Hx. rewrite N.shiftr_div_pow2.
  set (P := 2 ^ (ent * N.of_nat (length st))) in *.
  assert (HP : P <> 0) by apply pow2_nz.
  assert (He : 2 ^ ent <> 0) by apply pow2_nz.
  split.
  - rewrite (N.mul_comm P) in Hw. rewrite N.mod_mul_r in Hw by assumption.
    assert (Hb : w mod 2 ^ ent < 2 ^ ent) by (apply N.mod_lt; assumption).
    destruct (ar_digit_eq _ _ _ _ _ Hb Hx Hw) as [_ Hc]. exact Hc.
  - rewrite N.div_div by assumption. rewrite (N.mul_comm (2 ^ ent)). reflexivity.
Qed.

(* push; [sb] = bits the code shifts through *)
Lemma push_low ent sb idx st w :
  stack_low ent st w -> N.of_nat idx < 2 ^ ent -> ent * N.of_nat (S (length st)) <= sb ->
  stack_low ent (idx :: st) (wrap sb (N.lor (N.shiftl w ent) (N.of_nat idx))).
Proof.
  unfold stack_low. cbn [length enc]. intros Hw Hi Hsb.
  rewrite wrap_mod, lor_shiftl_add by assumption.
  set (L := ent * N.of_nat (S (length st))) in *.
  (* mod 2^sb then mod 2^L = mod 2^L *)
  assert (Hmm : forall a, (a mod 2 ^ sb) mod 2 ^ L = a mod 2 ^ L).
  { intros a. replace sb with (L + (sb - L)) by lia. rewrite N.pow_add_r.
    rewrite N.mod_mul_r by apply pow2_nz.
    rewrite (N.mul_comm (2 ^ L)), N.mod_add by apply pow2_nz. apply N.mod_mod, pow2_nz. }
  rewrite Hmm. unfold L. rewrite Nat2N.inj_succ, N.mul_succ_r, N.pow_add_r.
  set (P := 2 ^ (ent * N.of_nat (length st))) in *.
  assert (HP : P <> 0) by apply pow2_nz.
  assert (He : 2 ^ ent <> 0) by apply pow2_nz.
  rewrite (N.mul_comm P). rewrite N.mod_mul_r by assumption.
  replace ((w * 2 ^ ent + N.of_nat idx) mod 2 ^ ent) with (N.of_nat idx).
  2:{ rewrite N.add_comm, N.mod_add by assumption. symmetry. apply N.mod_small. assumption. }
  replace ((w * 2 ^ ent + N.of_nat idx) / 2 ^ ent) with w.
  2:{ rewrite N.div_add_l by assumption. rewrite N.div_small by assumption. lia. }
  rewrite Hw. reflexivity.
Qed.

Lemma push_top ent sb idx st w :
  N.of_nat idx < 2 ^ ent -> w < 2 ^ (ent * N.of_nat (S (length st))) -> ent * N.of_nat (S (S (length st))) <= sb ->
  stack_top ent (idx :: st) (wrap sb (N.lor (N.shiftl w ent) (N.of_nat idx))) = stack_top ent st w.
Proof.
  unfold stack_top. cbn [length]. intros Hi Hw Hsb.
  rewrite wrap_mod, lor_shiftl_add by assumption.
  assert (He : 2 ^ ent <> 0) by apply pow2_nz.
  rewrite N.mod_small.
  2:{ eapply N.lt_le_trans; [|apply N.pow_le_mono_r; [discriminate|exact Hsb]].
      rewrite (Nat2N.inj_succ (S (length st))), N.mul_succ_r, N.pow_add_r.
      rewrite (Nat2N.inj_succ (length st)), N.mul_succ_r, N.pow_add_r in Hw |- *.
      apply ar_shift_bound; assumption. }
  rewrite Nat2N.inj_succ, N.mul_succ_r, N.pow_add_r.
  set (P := 2 ^ (ent * N.of_nat (length st))).
  assert (HP : P <> 0) by apply pow2_nz.
  rewrite (N.mul_comm P (2 ^ ent)). rewrite <- N.div_div by assumption.
  rewrite N.div_add_l by assumption. rewrite (N.div_small (N.of_nat idx)) by assumption.
  rewrite N.add_0_r. reflexivity.
Qed.

(* the run literal: a stack p ++ r whose value is that of r alone has p = [] *)
Lemma enc_prefix_nil ent p lit :
  1 <= ent -> 0 < lit -> enc ent p + 2 ^ (ent * N.of_nat (length p)) * lit = lit -> p = [].
Proof.
  intros He Hl H. destruct p as [|x q]; [reflexivity|]. exfalso.
  cbn [enc length] in H. rewrite Nat2N.inj_succ, N.mul_succ_r, N.pow_add_r in H.
  assert (H2 : 2 <= 2 ^ ent).
  { change 2 with (2 ^ 1) at 1. apply N.pow_le_mono_r; [discriminate|assumption]. }
  assert (HP : 0 < 2 ^ (ent * N.of_nat (length q))) by apply pow2_pos.
  apply (ar_prefix (N.of_nat x) (enc ent q) (2 ^ ent) (2 ^ (ent * N.of_nat (length q))) lit H2 HP Hl).
  lia.
Qed.

(* bt unused_lanes, k *)
Lemma testbit_high_false w k : w < 2 ^ k -> N.testbit w k = false.
Proof.
  intros H. rewrite <- (N.mod_small w (2 ^ k)) by assumption. apply N.mod_pow2_bits_high. lia.
Qed.

Lemma testbit_sentinel a m ent :
  1 <= ent -> a < 2 ^ m -> N.testbit (a + 2 ^ m * N.ones ent) (m + ent - 1) = true.
Proof.
  intros He Ha.
  replace (m + ent - 1) with ((ent - 1) + m) by lia.
  rewrite <- N.shiftr_spec by apply N.le_0_l.
  rewrite N.shiftr_div_pow2.
  rewrite (N.mul_comm (2 ^ m)), N.div_add by apply pow2_nz.
  rewrite N.div_small by assumption. rewrite N.add_0_l.
  apply N.ones_spec_low. lia.
Qed.

(* ---- lens[] words ----------------------------------------------------------------------- *)

Lemma min_word_in l : l <> [] -> In (min_word l) l.
Proof.
  destruct l as [|a r]; [congruence|]. intros _. cbn [min_word].
  revert a. induction r as [|b r IH]; intros a; cbn [fold_left].
  - left. reflexivity.
  - destruct (IH (N.min a b)) as [H | H].
    + rewrite <- H. destruct (N.min_spec a b) as [[_ Hm] | [_ Hm]]; rewrite Hm.
      * left. reflexivity.
      * right. left. reflexivity.
    + right. right. assumption.
Qed.

Lemma min_word_le l x : In x l -> min_word l <= x.
Proof.
  destruct l as [|a r]; [intros []|]. cbn [min_word].
  assert (Hf : forall r a, fold_left N.min r a <= a).
  { induction r0 as [|b r0 IH]; intros a0; cbn [fold_left]; [lia|].
    etransitivity; [apply IH|]. apply N.le_min_l. }
  revert a. induction r as [|b r IH]; intros a H; cbn [fold_left].
  - destruct H as [H | []]. subst. lia.
  - destruct H as [H | [H | H]].
    + subst. etransitivity; [apply Hf|]. apply N.le_min_l.
    + subst. etransitivity; [apply Hf|]. apply N.le_min_r.
    + apply IH. right. assumption.
Qed.

(* a word r * 2^s + i with i below 2^idxb <= 2^cb <= 2^s *)
Lemma unpack_idx r i s idxb : idxb <= s -> i < 2 ^ idxb -> N.land (r * 2 ^ s + i) (N.ones idxb) = i.
Proof.
  intros Hs Hi. rewrite N.land_ones.
  replace s with (idxb + (s - idxb)) by lia. rewrite N.pow_add_r.
  replace (r * (2 ^ idxb * 2 ^ (s - idxb)) + i) with (i + (r * 2 ^ (s - idxb)) * 2 ^ idxb) by lia.
  rewrite N.mod_add by apply pow2_nz. apply N.mod_small. assumption.
Qed.

Lemma unpack_len r i s cb : cb <= s -> i < 2 ^ cb -> N.shiftl (N.shiftr (r * 2 ^ s + i) cb) cb = r * 2 ^ s.
Proof.
  intros Hs Hi. rewrite N.shiftl_mul_pow2, N.shiftr_div_pow2.
  replace s with (cb + (s - cb)) by lia. rewrite N.pow_add_r.
  replace (r * (2 ^ cb * 2 ^ (s - cb)) + i) with (i + (r * 2 ^ (s - cb)) * 2 ^ cb) by lia.
  rewrite N.div_add by apply pow2_nz. rewrite N.div_small by assumption. lia.
Qed.

Lemma unpack_blocks r s : N.shiftr (r * 2 ^ s) s = r.
Proof. rewrite N.shiftr_div_pow2. apply N.div_mul, pow2_nz. Qed.

Lemma sub_word_exact F d w : d <= w -> w < 2 ^ f_W F -> sub_word F d w = w - d.
Proof.
  intros Hd Hw. unfold sub_word. rewrite wrap_mod.
  replace (w + 2 ^ f_W F - d) with ((w - d) + 1 * 2 ^ f_W F) by lia.
  rewrite N.mod_add by apply pow2_nz. apply N.mod_small. lia.
Qed.

(* comparing packed words compares the lengths *)
Lemma packed_le r1 i1 r2 i2 s : i1 < 2 ^ s -> i2 < 2 ^ s -> r1 * 2 ^ s + i1 <= r2 * 2 ^ s + i2 -> r1 <= r2.
Proof. intros H1 H2 H. assert (0 < 2 ^ s) by apply pow2_pos. nia. Qed.
