(* C08 — the inline copies/clears of include/memcpy_inline.h (as regenerated into
   Gen/MemcpyGen.v) load exactly src[0,n) and store exactly dst[0,n), for every n >= 0. *)
From Coq Require Import ZArith List Bool Lia.
From ISAL Require Import Model.FootprintMemcpy Gen.MemcpyGen.
Import ListNotations.
Local Open Scope Z_scope.

(* ---------------------------------------------------------------- ranges *)

Lemma pick_app s a b : pick s (a ++ b) = pick s a ++ pick s b.
Proof. unfold pick. apply flat_map_app. Qed.

Lemma pick_shift s d l : pick s (map (shift_acc d) l) = map (fun p => (d + fst p, snd p)) (pick s l).
Proof.
  induction l as [|a l IH]; [reflexivity|].
  cbn [map]. change (a :: l) with ([a] ++ l). change (shift_acc d a :: map (shift_acc d) l) with ([shift_acc d a] ++ map (shift_acc d) l).
  rewrite !pick_app, map_app, IH. f_equal.
  destruct a, s; reflexivity.
Qed.

Lemma pick_map_ld s (f : nat -> Z) w l :
  pick s (map (fun j => Ld (f j) w) l) = if s then map (fun j => (f j, w)) l else [].
Proof. induction l as [|a l IH]; [destruct s; reflexivity|]. cbn [map]. change (Ld (f a) w :: map (fun j => Ld (f j) w) l) with ([Ld (f a) w] ++ map (fun j => Ld (f j) w) l). rewrite pick_app, IH. destruct s; reflexivity. Qed.

Lemma pick_map_st s (f : nat -> Z) w l :
  pick s (map (fun j => St (f j) w) l) = if s then [] else map (fun j => (f j, w)) l.
Proof. induction l as [|a l IH]; [destruct s; reflexivity|]. cbn [map]. change (St (f a) w :: map (fun j => St (f j) w) l) with ([St (f a) w] ++ map (fun j => St (f j) w) l). rewrite pick_app, IH. destruct s; reflexivity. Qed.

Lemma tiles_nil a : tiles [] a a.
Proof. split; [intros o w []|intros b Hb; lia]. Qed.

(* two tilings whose intervals touch or overlap *)
Lemma tiles_overlap r1 r2 a b b' c :
  a <= b' -> b' <= b -> b <= c -> tiles r1 a b -> tiles r2 b' c -> tiles (r1 ++ r2) a c.
Proof.
  intros H1 H2 H3 [A1 A2] [B1 B2]. split.
  - intros o w Hin. apply in_app_or in Hin. destruct Hin as [Hin|Hin].
    + specialize (A1 o w Hin). lia.
    + specialize (B1 o w Hin). lia.
  - intros x Hx. destruct (Z_lt_ge_dec x b) as [Hl|Hg].
    + destruct (A2 x ltac:(lia)) as (o & w & Hin & Ho). exists o, w. split; [apply in_or_app; left; exact Hin|exact Ho].
    + destruct (B2 x ltac:(lia)) as (o & w & Hin & Ho). exists o, w. split; [apply in_or_app; right; exact Hin|exact Ho].
Qed.

Lemma tiles_app r1 r2 a b c : a <= b -> b <= c -> tiles r1 a b -> tiles r2 b c -> tiles (r1 ++ r2) a c.
Proof. intros; eapply tiles_overlap with (b := b) (b' := b); eauto; lia. Qed.

Lemma tiles_shift r d lo hi : tiles r lo hi -> tiles (map (fun p => (d + fst p, snd p)) r) (d + lo) (d + hi).
Proof.
  intros [A B]. split.
  - intros o w Hin. apply in_map_iff in Hin. destruct Hin as ([o0 w0] & E & Hin). cbn [fst snd] in E. injection E as E1 E2. subst o w.
    specialize (A o0 w0 Hin). lia.
  - intros b Hb. destruct (B (b - d) ltac:(lia)) as (o & w & Hin & Ho).
    exists (d + o), w. split; [|lia]. apply in_map_iff. exists (o, w). split; [reflexivity|exact Hin].
Qed.

Lemma tiles_one o w : 0 < w -> tiles [(o, w)] o (o + w).
Proof.
  intros Hw. split.
  - intros o' w' [E|[]]. injection E as E1 E2. subst o' w'. lia.
  - intros b Hb. exists o, w. split; [left; reflexivity|lia].
Qed.

Lemma tiles_seq base w k : 0 < w ->
  tiles (map (fun j => (base + w * Z.of_nat j, w)) (seq 0 k)) base (base + w * Z.of_nat k).
Proof.
  intros Hw. induction k as [|k IH].
  - cbn [seq map]. replace (base + w * Z.of_nat 0) with base by lia. apply tiles_nil.
  - rewrite seq_S, map_app. cbn [plus map].
    eapply tiles_app; [| |exact IH|].
    + lia.
    + lia.
    + replace (base + w * Z.of_nat (S k)) with (base + w * Z.of_nat k + w) by lia. apply tiles_one. exact Hw.
Qed.

Lemma exactb_sound r n : 0 <= n -> exactb r n = true -> exact r n.
Proof.
  intros Hn H. unfold exactb in H. apply andb_true_iff in H. destruct H as [H1 H2].
  rewrite forallb_forall in H1, H2. split.
  - intros o w Hin. specialize (H1 (o, w) Hin). cbn [fst snd] in H1.
    apply andb_true_iff in H1. destruct H1 as [H1 H3]. apply andb_true_iff in H1. destruct H1 as [H1 H4]. lia.
  - intros b Hb. specialize (H2 (Z.to_nat b)). rewrite Z2Nat.id in H2 by lia.
    assert (Hin : In (Z.to_nat b) (seq 0 (Z.to_nat n))) by (apply in_seq; lia).
    specialize (H2 Hin). apply existsb_exists in H2. destruct H2 as ([o w] & Hin2 & Hc). cbn [fst snd] in Hc.
    exists o, w. split; [exact Hin2|]. apply andb_true_iff in Hc. lia.
Qed.

(* ---------------------------------------------------------------- the generic loop *)

Lemma loop_f_tiles s body K : 0 < K -> (forall i, tiles (pick s (body i)) i (i + K)) ->
  forall fuel i n l i', n - i <= Z.of_nat fuel -> loop_f body K fuel i n = (l, i') ->
  tiles (pick s l) i i' /\ n < i' + K /\ (exists k : nat, i' = i + K * Z.of_nat k) /\ (i' <= n \/ i' = i).
Proof.
  intros HK Hb. induction fuel as [|f IH]; intros i n l i' Hf E; cbn [loop_f] in E.
  - inversion E; subst l i'. split; [apply tiles_nil|]. split; [cbn in Hf; lia|]. split; [exists 0%nat; lia|right; reflexivity].
  - destruct (Z.leb_spec (i + K) n) as [Hle|Hgt].
    + destruct (loop_f body K f (i + K) n) as [l0 i0] eqn:El. inversion E; subst l i0.
      destruct (IH (i + K) n l0 i' ltac:(lia) El) as (T & A & (k & Ek) & D).
      rewrite pick_app. split; [|split; [exact A|split; [exists (S k); lia|lia]]].
      eapply tiles_app; [| |apply Hb|exact T]; lia.
    + inversion E; subst l i'. split; [apply tiles_nil|]. split; [lia|]. split; [exists 0%nat; lia|right; reflexivity].
Qed.

(* ---------------------------------------------------------------- per configuration *)

Section Cfg.
Variable C : mc_cfg.
Variable s : bool.                           (* true: loads, false: stores *)
Hypothesis Hs : s = false \/ is_copy C = true.

Lemma pick_moves base k :
  pick s (moves C base k) = map (fun j => (base + fx_w C * Z.of_nat j, fx_w C)) (seq 0 k).
Proof.
  unfold moves. rewrite pick_app, pick_map_st.
  destruct (is_copy C) eqn:Ec.
  - rewrite pick_map_ld. destruct s; [rewrite app_nil_r|]; reflexivity.
  - destruct s; [destruct Hs; congruence|]. reflexivity.
Qed.

Lemma pick_one_move off w : pick s (one_move C off w) = [(off, w)].
Proof.
  unfold one_move. rewrite pick_app.
  destruct (is_copy C) eqn:Ec; destruct s; try reflexivity. destruct Hs; congruence.
Qed.

(* mem*_gte16_sse_fixedlen, for the constants 16 / 4 / 16 / 15 *)
Hypothesis Hfw : fx_w C = 16.
Hypothesis Hfu : fx_unroll C = 4.
Hypothesis Hft : fx_tail_sub C = 16.
Hypothesis Hfm : fx_tail_mask C = 15.

Lemma land15 x : Z.land x 15 = x mod 16.
Proof. change 15 with (Z.ones 4). rewrite Z.land_ones by lia. reflexivity. Qed.

Lemma fixed_gte16_exact n : 16 <= n -> exact (pick s (fixed_gte16 C n)) n.
Proof.
  intros Hn. unfold fixed_gte16. rewrite Hfw, Hfu, Hft, Hfm.
  destruct (loop_f (fun b => moves C b (Z.to_nat 4)) (16 * 4) (Z.to_nat n) 0 n) as [l i] eqn:El.
  assert (Hb : forall b, tiles (pick s (moves C b (Z.to_nat 4))) b (b + 16 * 4)).
  { intros b. rewrite pick_moves, Hfw. replace (b + 16 * 4) with (b + 16 * Z.of_nat (Z.to_nat 4)) by (rewrite Z2Nat.id by lia; reflexivity). apply tiles_seq; lia. }
  destruct (loop_f_tiles s _ (16 * 4) ltac:(lia) Hb (Z.to_nat n) 0 n l i ltac:(lia) El) as (T & A & (k & Ek) & D).
  rewrite !pick_app, pick_moves, Hfw.
  set (q := (n - i) / 16).
  assert (Hq : 0 <= q /\ i + 16 * q <= n /\ n - (i + 16 * q) < 16 /\ (n - (i + 16 * q)) = n mod 16).
  { unfold q. pose proof (Z.div_mod (n - i) 16 ltac:(lia)) as Dm. pose proof (Z.mod_pos_bound (n - i) 16 ltac:(lia)) as Bm.
    pose proof (Z.div_mod n 16 ltac:(lia)) as Dn. pose proof (Z.mod_pos_bound n 16 ltac:(lia)) as Bn.
    assert (0 <= (n - i) / 16) by (apply Z.div_pos; lia).
    assert (Emod : (n - i) mod 16 = n mod 16).
    { replace (n - i) with (n + (- (4 * Z.of_nat k)) * 16) by lia. apply Z.mod_add. lia. }
    lia. }
  destruct Hq as (Q0 & Q1 & Q2 & Q3).
  assert (Tm : tiles (map (fun j => (i + 16 * Z.of_nat j, 16)) (seq 0 (Z.to_nat q))) i (i + 16 * q)).
  { replace (i + 16 * q) with (i + 16 * Z.of_nat (Z.to_nat q)) by lia. apply tiles_seq; lia. }
  rewrite land15.
  destruct (Z.eqb_spec ((n - 16) mod 16) 0) as [E0|E0]; cbn [negb].
  - (* no tail move: n is a multiple of 16 *)
    assert (n mod 16 = 0).
    { replace n with ((n - 16) + 1 * 16) by lia. rewrite Z.mod_add by lia. exact E0. }
    cbn [pick flat_map]. rewrite app_nil_r.
    assert (En : i + 16 * q = n) by lia. rewrite En in Tm.
    eapply tiles_app; [| |exact T|exact Tm]; lia.
  - rewrite pick_one_move, app_assoc.
    eapply tiles_overlap with (b := i + 16 * q) (b' := n - 16); [lia|lia|lia| |].
    + eapply tiles_app with (b := i); [lia|lia|exact T|exact Tm].
    + pose proof (tiles_one (n - 16) 16 ltac:(lia)) as T1. replace (n - 16 + 16) with n in T1 by lia. exact T1.
Qed.

(* mem*_gte16_sse_varlen, for the constants 128 / 64,32,16 / nbytes - 16 *)
Hypothesis Hvl : vl_loop C = 128.
Hypothesis Hvs : vl_steps C = [(64, true); (32, true); (16, false)].
Hypothesis Hvt : vl_tail C = (1, 0, -16).
Hypothesis Hvw : vl_tail_w C = 16.

Lemma block_tiles K b : 16 <= K -> tiles (pick s (map (shift_acc b) (fixed_gte16 C K))) b (b + K).
Proof.
  intros HK. rewrite pick_shift. replace b with (b + 0) at 1 by lia. apply tiles_shift. apply fixed_gte16_exact. exact HK.
Qed.

Lemma steps_tiles i n : 0 <= i -> i <= n -> n - i < 128 ->
  exists m, i <= m /\ m <= n /\ n - m < 16 /\ tiles (pick s (steps_f C (vl_steps C) i n)) i m.
Proof.
  intros H0 H1 H2. rewrite Hvs. cbn [steps_f].
  destruct (Z.leb_spec (i + 64) n) as [A|A];
  [destruct (Z.leb_spec (i + 64 + 32) n) as [B|B]; [destruct (Z.leb_spec (i + 64 + 32 + 16) n) as [D|D]|destruct (Z.leb_spec (i + 64 + 16) n) as [D|D]]
  |destruct (Z.leb_spec (i + 32) n) as [B|B]; [destruct (Z.leb_spec (i + 32 + 16) n) as [D|D]|destruct (Z.leb_spec (i + 16) n) as [D|D]]];
  rewrite ?pick_app; cbn [pick flat_map]; rewrite ?app_nil_r.
  - exists (i + 64 + 32 + 16). split; [lia|split; [lia|split; [lia|]]].
    eapply tiles_app with (b := i + 64); [lia|lia|apply block_tiles; lia|].
    eapply tiles_app with (b := i + 64 + 32); [lia|lia|apply block_tiles; lia|apply block_tiles; lia].
  - exists (i + 64 + 32). split; [lia|split; [lia|split; [lia|]]].
    eapply tiles_app with (b := i + 64); [lia|lia|apply block_tiles; lia|apply block_tiles; lia].
  - exists (i + 64 + 16). split; [lia|split; [lia|split; [lia|]]].
    eapply tiles_app with (b := i + 64); [lia|lia|apply block_tiles; lia|apply block_tiles; lia].
  - exists (i + 64). split; [lia|split; [lia|split; [lia|]]]. apply block_tiles; lia.
  - exists (i + 32 + 16). split; [lia|split; [lia|split; [lia|]]].
    eapply tiles_app with (b := i + 32); [lia|lia|apply block_tiles; lia|apply block_tiles; lia].
  - exists (i + 32). split; [lia|split; [lia|split; [lia|]]]. apply block_tiles; lia.
  - exists (i + 16). split; [lia|split; [lia|split; [lia|]]]. apply block_tiles; lia.
  - exists i. split; [lia|split; [lia|split; [lia|]]]. apply tiles_nil.
Qed.

Lemma var_gte16_exact n : 16 <= n -> exact (pick s (var_gte16 C n)) n.
Proof.
  intros Hn. unfold var_gte16. rewrite Hvl, Hvt, Hvw.
  destruct (loop_f (fun b => map (shift_acc b) (fixed_gte16 C 128)) 128 (Z.to_nat n) 0 n) as [l i] eqn:El.
  destruct (loop_f_tiles s _ 128 ltac:(lia) (fun b => block_tiles 128 b ltac:(lia)) (Z.to_nat n) 0 n l i ltac:(lia) El) as (T & A & (k & Ek) & D).
  destruct (steps_tiles i n ltac:(lia) ltac:(lia) ltac:(lia)) as (m & M1 & M2 & M3 & TS).
  rewrite !pick_app, pick_one_move. cbn [aff_eval].
  rewrite app_assoc.
  eapply tiles_overlap with (b := m) (b' := n - 16); [lia|lia|lia| |].
  - eapply tiles_app with (b := i); [lia|lia|exact T|exact TS].
  - replace (1 * n + 0 * 0 + -16) with (n - 16) by lia.
    pose proof (tiles_one (n - 16) 16 ltac:(lia)) as T1. replace (n - 16 + 16) with n in T1 by lia. exact T1.
Qed.

Hypothesis Htv : top_var C = 16.
Hypothesis Htf : top_fix C = 16.
(* the sub-16 size classes: finite, by evaluation *)
Hypothesis Hsmall_var : forallb (fun k => exactb (pick s (ladder C (lte32_var C) (Z.of_nat k))) (Z.of_nat k)) (seq 0 16) = true.
Hypothesis Hsmall_fix : forallb (fun k => exactb (pick s (ladder C (lte32_fix C) (Z.of_nat k))) (Z.of_nat k)) (seq 0 16) = true.

Lemma small_exact (lad : list (Z * Z * bool)) :
  forallb (fun k => exactb (pick s (ladder C lad (Z.of_nat k))) (Z.of_nat k)) (seq 0 16) = true ->
  forall n, 0 <= n < 16 -> exact (pick s (ladder C lad n)) n.
Proof.
  intros H n Hn. rewrite forallb_forall in H.
  specialize (H (Z.to_nat n) ltac:(apply in_seq; lia)). rewrite Z2Nat.id in H by lia.
  apply exactb_sound; [lia|exact H].
Qed.

Theorem varlen_exact n : 0 <= n -> exact (pick s (varlen C n)) n.
Proof.
  intros Hn. unfold varlen. rewrite Htv. destruct (Z.leb_spec 16 n).
  - apply var_gte16_exact; lia.
  - apply small_exact; [exact Hsmall_var|lia].
Qed.

Theorem fixedlen_exact n : 0 <= n -> exact (pick s (fixedlen C n)) n.
Proof.
  intros Hn. unfold fixedlen. rewrite Htf. destruct (Z.leb_spec 16 n).
  - apply fixed_gte16_exact; lia.
  - apply small_exact; [exact Hsmall_fix|lia].
Qed.

End Cfg.

(* ---------------------------------------------------------------- the current header *)

Theorem memcpy_varlen_exact n : 0 <= n ->
  exact (pick true (varlen mc_copy n)) n /\ exact (pick false (varlen mc_copy n)) n.
Proof.
  intros Hn; split; apply varlen_exact; try reflexivity; try (right; reflexivity); try (left; reflexivity); try exact Hn; vm_compute; reflexivity.
Qed.

Theorem memcpy_fixedlen_exact n : 0 <= n ->
  exact (pick true (fixedlen mc_copy n)) n /\ exact (pick false (fixedlen mc_copy n)) n.
Proof.
  intros Hn; split; apply fixedlen_exact; try reflexivity; try (right; reflexivity); try (left; reflexivity); try exact Hn; vm_compute; reflexivity.
Qed.

Theorem memclr_varlen_exact n : 0 <= n -> exact (pick false (varlen mc_clear n)) n.
Proof.
  intros Hn; apply varlen_exact; try reflexivity; try (left; reflexivity); try exact Hn; vm_compute; reflexivity.
Qed.

Theorem memclr_fixedlen_exact n : 0 <= n -> exact (pick false (fixedlen mc_clear n)) n.
Proof.
  intros Hn; apply fixedlen_exact; try reflexivity; try (left; reflexivity); try exact Hn; vm_compute; reflexivity.
Qed.
