(* (B3) The base model (Model/HashBase.v) and the generic context-layer model
   (Model/HashCtx.v) with K = 1 are observationally equal on every history: simulation
   relation [sim] per context (same digest / status / error / total; between calls the same
   unhashed tail, total = tail length mod B), preserved by every submit (sim_submit), hence
   base_eq_generic. *)
From Coq Require Import NArith List Arith Lia Bool ZArith ZifyNat ZifyN ZifyBool.
From ISAL Require Import Base.Words Base.ListUtil Spec.MD
  Spec.HashApiSpec Model.HashCtx Model.HashObs Model.HashBase
  Proofs.WordsFacts Proofs.ListFacts Proofs.ChunkFacts Proofs.HashPadFacts Proofs.HashInv
  Proofs.HashSpecFacts Proofs.HashRefine Proofs.HashProps Proofs.HashBaseFacts Proofs.HashBaseGeneric.
Import ListNotations.

(* a C enum value whose bits outside FIRST|LAST are clear is one of the four flag values *)
Lemma flags_cases flags : (flags < 2 ^ 32)%N -> N.land flags (N.lnot FLAG_ENTIRE 32) = 0%N ->
  (flags = 0 \/ flags = 1 \/ flags = 2 \/ flags = 3)%N.
Proof.
  intros Hlt Hz.
  assert (H4 : (flags < 2 ^ 2)%N).
  { apply lt_pow2_of_bits. intros j Hj.
    destruct (N.lt_ge_cases j 32) as [Hj32|Hj32].
    - pose proof (f_equal (fun x => N.testbit x j) Hz) as Hb. cbv beta in Hb.
      rewrite N.land_spec, N.bits_0 in Hb. unfold FLAG_ENTIRE in Hb.
      rewrite N.lnot_spec_low in Hb by exact Hj32.
      rewrite (testbit_high 3 2 j) in Hb by (try reflexivity; exact Hj).
      cbn [negb] in Hb. rewrite andb_true_r in Hb. exact Hb.
    - apply (testbit_high flags 32 j Hlt Hj32). }
  change (2 ^ 2)%N with 4%N in H4. lia.
Qed.

Ltac Zify.zify_post_hook ::= Z.div_mod_to_equations.
Lemma total_mod_step (Bz : nat) t p len : Bz = 64 \/ Bz = 128 ->
  (t mod N.of_nat Bz)%N = N.of_nat p ->
  (w64 (t + N.of_nat len) mod N.of_nat Bz)%N = N.of_nat ((p + len) mod Bz).
Proof.
  unfold w64. rewrite wrap_mod. change (2 ^ 64)%N with 18446744073709551616%N.
  intros [-> | ->]; cbn [N.of_nat Pos.of_succ_nat Pos.succ]; intros H; lia.
Qed.
Ltac Zify.zify_post_hook ::= idtac.

Section Sim.
Variable BA : base_alg.
Hypothesis OK : base_alg_ok BA.
Notation A := (ba_algo BA).
Notation Bz := (a_bsize (ba_algo BA)).
Notation Fz := (a_lenfld (ba_algo BA)).
Let WF : algo_wf A := bok_wf BA OK.

Definition b_of_ctx (g : ctx) : bctx :=
  {| b_digest := c_digest g; b_status := c_status g; b_error := c_error g; b_total := c_total g;
     b_pbuf := c_pbuf g; b_plen := N.of_nat (c_plen g) |}.

(* the unhashed tail a context carries between calls, on both sides *)
Definition tails (b : bctx) (g : ctx) : Prop :=
  b_plen b = N.of_nat (c_plen g) /\ c_plen g < Bz /\
  firstn (c_plen g) (b_pbuf b) = firstn (c_plen g) (c_pbuf g) /\
  (c_total g mod N.of_nat Bz)%N = N.of_nat (c_plen g) /\ (c_total g < 2 ^ 64)%N.

Definition sim (b : bctx) (g : ctx) : Prop :=
  b_digest b = c_digest g /\ b_status b = c_status g /\ b_error b = c_error g /\ b_total b = c_total g /\
  length (b_pbuf b) = 2 * Bz /\ length (c_pbuf g) = 2 * Bz /\
  (c_status g = 4%N \/ (c_status g = 0%N /\ tails b g)).

(* an accepted segment, from start states that agree: update (and final when LAST) on the base
   side, accept + the resubmit loop on the generic side *)
Lemma sim_run b0 g0 buf st : (st = 1 \/ st = 3)%N ->
  b_digest b0 = c_digest g0 -> b_total b0 = c_total g0 -> b_error b0 = 0%N ->
  length (b_pbuf b0) = 2 * Bz -> length (c_pbuf g0) = 2 * Bz -> tails b0 g0 ->
  let b' := if (st =? 3)%N then base_final BA (base_update BA b0 buf) else base_update BA b0 buf in
  exists g', g_run A (accept_body A g0 buf st) = Some g' /\ sim b' g'.
Proof.
  intros Hst Hd Ht He Lb Lg (Hp & Hlt & Hpre & Hmod & H64) b'.
  set (p := c_plen g0) in *.
  destruct (g_run_body A WF g0 buf st p Hst eq_refl Hlt Lg) as (pbuf1 & EG & Lp1 & Hp1).
  destruct (base_update_spec BA OK b0 buf p Hp Hlt Lb) as (U1 & U2 & U3 & U4 & U5 & U6 & U7).
  cbv zeta in *. rewrite Hpre in *.
  set (data := firstn p (c_pbuf g0) ++ buf) in *. set (k := length data / Bz) in *.
  set (b1 := base_update BA b0 buf) in *.
  pose proof (Bz_pos BA OK) as HB.
  assert (Hm : length data mod Bz < Bz) by (apply Nat.mod_upper_bound; lia).
  assert (Ld : length data = p + length buf).
  { unfold data. rewrite app_length, firstn_length. lia. }
  set (tot1 := w64 (c_total g0 + N.of_nat (length buf))) in *.
  assert (Hmod1 : (tot1 mod N.of_nat Bz)%N = N.of_nat (length data mod Bz)).
  { rewrite Ld. apply total_mod_step; [|exact Hmod].
    destruct (Bz_cases BA OK) as [[E _]|[E _]]; auto. }
  assert (H641 : (tot1 < 2 ^ 64)%N) by apply wrap_lt.
  rewrite EG. eexists. split; [reflexivity|].
  unfold finish_ctx, mk. cbn [c_status c_digest c_error c_total c_inc c_pbuf c_plen].
  destruct Hst as [-> | ->].
  - (* UPDATE / FIRST: back to idle *)
    change (has 1 STS_LAST) with false. cbv iota. subst b'. cbn [N.eqb Pos.eqb].
    unfold set_status, sim, tails. cbn [c_status c_digest c_error c_total c_inc c_pbuf c_plen].
    rewrite U1, U2, U3, U5, U6, U7, Hd, Ht, He. fold tot1.
    repeat split; try assumption; try reflexivity. right.
    repeat split; try assumption; try reflexivity; try (symmetry; assumption).
  - (* LAST / ENTIRE: padding and final blocks *)
    change (has 3 STS_LAST) with true. cbv iota. subst b'. cbn [N.eqb Pos.eqb].
    pose proof (hash_pad_shape A WF pbuf1 tot1 (length data mod Bz) H641 Hmod1 Lp1) as HS. cbv zeta in HS.
    destruct (hash_pad A pbuf1 tot1) as [buf1 nblk]. destruct HS as (HS1 & HS2 & HS3 & HS4).
    unfold base_final.
    rewrite (final_with_spec BA OK lenval64 b1 (length data mod Bz) U2 Hm U4).
    destruct (final_blocks_shape BA OK lenval64 b1 (length data mod Bz) U2 Hm U4) as (bufb & EF & LF & HF).
    cbv zeta. rewrite EF. cbn [fst].
    assert (Ee : firstn (pad_end BA (length data mod Bz)) bufb = firstn (nblk * Bz) buf1).
    { rewrite HS1. change (pad_end_A A (length data mod Bz)) with (pad_end BA (length data mod Bz)) in *.
      rewrite HF, HS3, U3, Hp1. f_equal. f_equal. f_equal.
      rewrite (bok_len BA OK) by apply wrap_lt. f_equal. f_equal.
      unfold lenval64. rewrite U7, Ht. fold tot1. f_equal.
      rewrite N.shiftl_mul_pow2. reflexivity. }
    rewrite Ee. unfold sim. cbn [b_digest b_status b_error b_total b_pbuf b_plen c_status c_digest c_error c_total c_inc c_pbuf c_plen].
    rewrite U1, U6, U7, Hd, Ht, He. fold tot1.
    repeat split; try assumption; try reflexivity. left. reflexivity.
Qed.

End Sim.

Section Sim2.
Variable BA : base_alg.
Hypothesis OK : base_alg_ok BA.
Notation A := (ba_algo BA).
Notation Bz := (a_bsize (ba_algo BA)).
Let WF : algo_wf A := bok_wf BA OK.

Lemma base_submit_first b buf flags : has (b_status b) STS_PROCESSING = false -> (flags = 1 \/ flags = 3)%N ->
  base_submit BA b buf flags =
  if (flags =? 3)%N then base_final BA (base_update BA (base_init BA (bset_error b ERR_NONE)) buf)
  else base_update BA (base_init BA (bset_error b ERR_NONE)) buf.
Proof.
  intros H Hfl. unfold base_submit. rewrite H.
  destruct Hfl as [-> | ->].
  - change (has 1 FLAG_FIRST) with true. cbn [negb andb]. rewrite andb_false_r. reflexivity.
  - change (has 3 FLAG_FIRST) with true. cbn [negb andb]. rewrite andb_false_r. reflexivity.
Qed.

Lemma base_submit_idle b buf flags : b_status b = 0%N -> (flags = 0 \/ flags = 2)%N ->
  base_submit BA b buf flags =
  if (flags =? 2)%N then base_final BA (base_update BA (bset_error b ERR_NONE) buf)
  else base_update BA (bset_error b ERR_NONE) buf.
Proof.
  intros H Hfl. unfold base_submit. rewrite H. destruct Hfl as [-> | ->]; reflexivity.
Qed.

Lemma base_submit_completed b buf flags : b_status b = 4%N -> (flags = 0 \/ flags = 2)%N ->
  base_submit BA b buf flags = bset_error b ERR_ALREADY_COMPLETED.
Proof.
  intros H Hfl. unfold base_submit. rewrite H. destruct Hfl as [-> | ->]; reflexivity.
Qed.

Lemma ctx_accept_completed g buf flags : c_status g = 4%N -> (flags = 0 \/ flags = 2)%N ->
  ctx_accept A g buf flags = Reject ERR_ALREADY_COMPLETED.
Proof.
  intros H Hfl. unfold ctx_accept. rewrite H. destruct Hfl as [-> | ->]; reflexivity.
Qed.

Lemma sim_set_error b g e : sim BA b g -> sim BA (bset_error b e) (set_error g e).
Proof.
  intros (H1 & H2 & H3 & H4 & H5 & H6 & H7). unfold sim, tails in *.
  cbn [bset_error set_error b_digest b_status b_error b_total b_pbuf b_plen c_digest c_status c_error c_total c_pbuf c_plen].
  repeat split; assumption.
Qed.

(* one submit on one context: the two models stay in step *)
Lemma sim_submit b g buf flags : sim BA b g -> (flags < 2 ^ 32)%N ->
  exists g', g_submit A g buf flags = Some g' /\ sim BA (base_submit BA b buf flags) g'.
Proof.
  intros S Hfl. pose proof S as (H1 & H2 & H3 & H4 & H5 & H6 & H7).
  destruct (negb (N.land flags (N.lnot FLAG_ENTIRE 32) =? 0)%N) eqn:Bad.
  - (* invalid flags *)
    exists (set_error g ERR_INVALID_FLAGS). split.
    + unfold g_submit, ctx_accept. rewrite Bad. reflexivity.
    + unfold base_submit. rewrite Bad. apply sim_set_error. exact S.
  - apply negb_false_iff in Bad. apply N.eqb_eq in Bad.
    pose proof (Bz_pos BA OK) as HB.
    assert (NP : has (c_status g) STS_PROCESSING = false) by (destruct H7 as [E|[E _]]; rewrite E; reflexivity).
    assert (First : (flags = 1 \/ flags = 3)%N ->
      exists g', g_submit A g buf flags = Some g' /\ sim BA (base_submit BA b buf flags) g').
    { intros F. rewrite base_submit_first by (rewrite ?H2; assumption).
      pose proof (ctx_accept_first A g buf flags NP F) as EA.
      set (st := (if (flags =? 3)%N then 3 else 1)%N) in *.
      assert (Hst : (st = 1 \/ st = 3)%N) by (unfold st; destruct F as [-> | ->]; auto).
      assert (Est : (flags =? 3)%N = (st =? 3)%N) by (unfold st; destruct F as [-> | ->]; reflexivity).
      rewrite Est.
      destruct (sim_run BA OK (base_init BA (bset_error b ERR_NONE)) (mk (a_iv A) 0 0 0 [] (c_pbuf g) 0) buf st Hst)
        as (g' & EG & S'); try reflexivity; try assumption.
      { unfold tails. cbn [mk base_init bset_error b_plen c_plen c_total firstn]. repeat split; try reflexivity; try lia. }
      exists g'. split; [|exact S']. eapply g_submit_of_run; eassumption. }
    destruct (flags_cases flags Hfl Bad) as [F|[F|[F|F]]]; [|apply First; auto| |apply First; auto].
    all: destruct H7 as [E4|[E0 T]].
    1,3: (* UPDATE / LAST on a completed context *)
      exists (set_error g ERR_ALREADY_COMPLETED); split;
      [unfold g_submit; rewrite ctx_accept_completed by auto; reflexivity
      |rewrite base_submit_completed by (rewrite ?H2; auto); apply sim_set_error; exact S].
    all: rewrite base_submit_idle by (rewrite ?H2; auto).
    all: pose proof (ctx_accept_idle A g buf flags E0 ltac:(auto)) as EA.
    all: set (stt := (if (flags =? 2)%N then 3 else 1)%N) in *.
    all: assert (Hst : (stt = 1 \/ stt = 3)%N) by (unfold stt; rewrite F; auto).
    all: assert (Est : (flags =? 2)%N = (stt =? 3)%N) by (unfold stt; rewrite F; reflexivity).
    all: rewrite Est.
    all: destruct (sim_run BA OK (bset_error b ERR_NONE) g buf stt Hst) as (g' & EG & S'); try assumption; try reflexivity.
    all: exists g'; (split; [|exact S']); eapply g_submit_of_run; eassumption.
Qed.

End Sim2.

Lemma Forall2_nth_sim {X Y} (R : X -> Y -> Prop) l1 l2 i dx dy :
  Forall2 R l1 l2 -> i < length l2 -> R (nth i l1 dx) (nth i l2 dy).
Proof.
  intros H. revert i. induction H as [|x y l1 l2 Hxy H IH]; intros i Hi; cbn [length] in Hi; [lia|].
  destruct i; cbn [nth]; [exact Hxy|]. apply IH. lia.
Qed.

Lemma Forall2_upd_sim {X Y} (R : X -> Y -> Prop) l1 l2 i x y :
  Forall2 R l1 l2 -> R x y -> Forall2 R (upd i x l1) (upd i y l2).
Proof.
  intros H. revert i. induction H as [|x0 y0 l1 l2 Hxy H IH]; intros i Hr; [destruct i; constructor|].
  destruct i; cbn [upd]; constructor; auto.
Qed.

Lemma Forall2_length_sim {X Y} (R : X -> Y -> Prop) l1 l2 : Forall2 R l1 l2 -> length l1 = length l2.
Proof. induction 1; cbn [length]; congruence. Qed.

Section Eq.
Variable BA : base_alg.
Hypothesis OK : base_alg_ok BA.
Notation A := (ba_algo BA).
Notation Bz := (a_bsize (ba_algo BA)).
Variable sched : nat -> list nat -> option nat.

(* typing of a call: the context exists, the flags argument is a C int *)
Definition bop_ok (n : nat) (o : op) : Prop :=
  match o with Submit cid _ flags => cid < n /\ (flags < 2 ^ 32)%N | Flush => True end.

Definition sims (bs : bst) (s : st) : Prop := Forall2 (sim BA) bs (ctxs s) /\ held s = [].

Lemma sims_step bs s o : sims bs s -> bop_ok (length (ctxs s)) o ->
  exists s' r rc, step A 1 sched s o = (s', Ret r, rc) /\
    base_step BA bs o = (fst (fst (base_step BA bs o)), r, rc) /\
    sims (fst (fst (base_step BA bs o))) s' /\ length (ctxs s') = length (ctxs s) /\
    obs_of A s' (Ret r) rc = Some (base_obs_of BA (fst (fst (base_step BA bs o))) r rc).
Proof.
  intros [SF Hh] Hop. destruct o as [cid buf flags|]; cbn [step base_step bop_ok] in *.
  - destruct Hop as [Hc Hfl].
    pose proof (Forall2_nth_sim _ _ _ cid (dflt_bctx BA) (dflt_ctx A) SF Hc) as Sc.
    destruct (sim_submit BA OK _ _ buf flags Sc Hfl) as (g' & EG & S').
    destruct (ctx_submit_K1 A sched s cid buf flags g' Hh Hc EG) as (t & ES).
    unfold api_submit. rewrite ES. rewrite Nat.eqb_refl.
    assert (Lb : length bs = length (ctxs s)) by (eapply Forall2_length_sim; exact SF).
    assert (Eg : getc A {| ctxs := upd cid g' (ctxs s); held := []; tick := t |} cid = g').
    { unfold getc. cbn [ctxs]. apply nth_upd_eq. exact Hc. }
    assert (Eb : bgetc BA (upd cid (base_submit BA (bgetc BA bs cid) buf flags) bs) cid =
                 base_submit BA (bgetc BA bs cid) buf flags).
    { unfold bgetc at 1. apply nth_upd_eq. rewrite Lb. exact Hc. }
    pose proof S' as (D1 & D2 & D3 & D4 & _).
    eexists. eexists. eexists. split; [reflexivity|]. cbn [fst]. rewrite Eg, Eb.
    unfold bgetc in D3 |- *. unfold getc in D3. rewrite D3.
    split; [reflexivity|]. split; [|split].
    + split; [|reflexivity]. cbn [ctxs]. apply Forall2_upd_sim; assumption.
    + cbn [ctxs]. apply length_upd.
    + unfold obs_of, base_obs_of. rewrite Eg. fold (bgetc BA (upd cid (base_submit BA (nth cid bs (dflt_bctx BA)) buf flags) bs) cid).
      fold (bgetc BA bs cid). rewrite Eb. unfold bgetc. rewrite D1, D2, D3, D4. reflexivity.
  - rewrite ctx_flush_K1 by exact Hh. eexists. eexists. eexists. split; [reflexivity|].
    cbn [fst]. split; [reflexivity|]. split; [split; assumption|]. split; reflexivity.
Qed.

Lemma sims_run : forall ops bs s, sims bs s -> Forall (bop_ok (length (ctxs s))) ops ->
  run_obs A 1 sched s ops = Some (base_run_obs BA bs ops) /\
  sims (base_run BA bs ops) (fst (run A 1 sched s ops)).
Proof.
  induction ops as [|o ops IH]; intros bs s HS Hops; [split; [reflexivity|exact HS]|].
  inversion Hops as [|? ? Ho Hops']; subst.
  destruct (sims_step bs s o HS Ho) as (s' & r & rc & E & Eb & S' & L' & Eo).
  cbn [run_obs base_run_obs base_run run]. unfold step_obs. rewrite E, Eo.
  rewrite Eb. set (bs' := fst (fst (base_step BA bs o))) in *.
  destruct (IH bs' s' S') as [IH1 IH2]; [rewrite L'; exact Hops'|].
  rewrite IH1. split; [reflexivity|].
  destruct (run A 1 sched s' ops) as [s2 outs] eqn:Er. cbn [fst] in *. exact IH2.
Qed.

Lemma sims_init junk : Forall (ctx_typed A) junk ->
  sims (base_model_init (map (b_of_ctx) junk)) (model_init A junk).
Proof.
  intros Hty. split; [|reflexivity]. unfold base_model_init, model_init, mgr_init. cbn [ctxs].
  induction Hty as [|j junk Hj Hty IH]; [constructor|]. cbn [map]. constructor; [|exact IH].
  unfold ctx_typed, B in Hj. unfold sim, base_ctx_init, ctx_init, b_of_ctx.
  cbn [bset_error bset_status set_error set_status b_digest b_status b_error b_total b_pbuf b_plen
       c_digest c_status c_error c_total c_pbuf c_plen].
  repeat split; try assumption. left. reflexivity.
Qed.

(* (B3) the base model and the generic context-layer model with a one-job manager (K = 1,
   whatever the oracle) produce the same observations on every history *)
Theorem base_eq_generic junk ops :
  Forall (ctx_typed A) junk -> Forall (bop_ok (length junk)) ops ->
  run_obs A 1 sched (model_init A junk) ops =
  Some (base_run_obs BA (base_model_init (map b_of_ctx junk)) ops).
Proof.
  intros Hty Hops. apply sims_run; [apply sims_init; exact Hty|].
  unfold model_init, mgr_init. cbn [ctxs]. rewrite map_length. exact Hops.
Qed.

End Eq.
