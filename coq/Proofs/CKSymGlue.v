(* ckernels vertical — from the symbolic soundness statement (a valuation rho of input variables)
   to the statement about the generated Gallina function on concrete input lists: the variable
   table, its values, its well-formedness, and the concretisation of the initial symbolic state,
   all by list lemmas (nothing is computed over variables). *)
From Coq Require Import NArith List Bool Arith Lia.
From ISAL Require Import Base.Words Base.ListUtil Proofs.WordsFacts Proofs.ChunkFacts Model.CKernel
  Proofs.CKernelFacts Model.CKSym Proofs.CKSymFacts Model.CKSymSpec Proofs.CKSymSpecFacts.
Import ListNotations.
Local Open Scope N_scope.

Lemma map_fst_combine_eq {A B} (a : list A) (b : list B) : length a = length b -> map fst (combine a b) = a.
Proof. revert b. induction a as [|x a IH]; intros [|y b] H; cbn in *; try discriminate; [reflexivity|]. f_equal. apply IH. lia. Qed.

Lemma list_eta (l : list N) : map (fun k => nth k l 0) (seq 0 (length l)) = l.
Proof.
  induction l as [|x l IH]; [reflexivity|]. cbn [length seq map nth]. f_equal.
  rewrite <- seq_shift, map_map. exact IH.
Qed.

Lemma map_nth_seq_app (a b : list N) n :
  map (fun k => nth k (a ++ b) 0) (seq (length a) n) = map (fun k => nth k b 0) (seq 0 n).
Proof.
  replace (seq (length a) n) with (map (fun k => (length a + k)%nat) (seq 0 n)).
  - rewrite map_map. apply map_ext. intro k. rewrite app_nth2 by lia. f_equal. lia.
  - clear b. revert a. induction n as [|n IH]; intro a; [reflexivity|].
    rewrite !seq_S, !map_app, (IH a). cbn [map]. rewrite Nat.add_0_l. reflexivity.
Qed.

Lemma map_nth_seq_prefix (a b : list N) : map (fun k => nth k (a ++ b) 0) (seq 0 (length a)) = a.
Proof.
  rewrite <- (list_eta a) at 2. apply map_ext_in. intros k Hk. apply in_seq in Hk. apply app_nth1. lia.
Qed.

Section Glue.
Variable rho : nat -> N.

Lemma tvals_vars (l : list (nat * N)) :
  tvals rho (map (fun p : nat * N => (NVar (fst p), snd p)) l) = map (fun p => rho (fst p)) l.
Proof.
  induction l as [|x l IH] using rev_ind; [reflexivity|].
  rewrite !map_app. cbn [map]. rewrite tvals_snoc, IH. reflexivity.
Qed.

Lemma tvals_var_table ws : tvals rho (var_table ws) = map rho (seq 0 (length ws)).
Proof.
  unfold var_table. rewrite tvals_vars. rewrite <- (map_map fst rho), map_fst_combine_eq; [reflexivity|apply seq_length].
Qed.

Lemma V_var_table ws k : (k < length ws)%nat -> V rho (var_table ws) (N.of_nat k) = rho k.
Proof.
  intros Hk. unfold V. rewrite tvals_var_table, Nat2N.id.
  rewrite (nth_indep _ 0 (rho 0%nat)) by (rewrite map_length, seq_length; exact Hk).
  rewrite map_nth, seq_nth by exact Hk. reflexivity.
Qed.

Lemma map_V_ids ws a n : (a + n <= length ws)%nat -> map (V rho (var_table ws)) (ids a n) = map rho (seq a n).
Proof.
  intros H. unfold ids. rewrite map_map. apply map_ext_in. intros k Hk. apply in_seq in Hk. apply V_var_table. lia.
Qed.

Lemma wf_var_table ws :
  (forall k w, nth_error ws k = Some w -> rho k < 2 ^ w) -> wf rho (var_table ws).
Proof.
  intros Hb i n b Hi. unfold var_table in Hi. rewrite nth_error_map in Hi.
  destruct (nth_error (combine (seq 0 (length ws)) ws) i) as [[k w]|] eqn:E; [|discriminate].
  cbn in Hi. inversion Hi; subst n b. split; [reflexivity|].
  assert (Hlt : (i < length ws)%nat).
  { assert (i < length (combine (seq 0 (length ws)) ws))%nat by (apply nth_error_Some; congruence).
    rewrite combine_length, seq_length in *. lia. }
  assert (Hk : k = i /\ nth_error ws i = Some w).
  { pose proof (nth_error_nth _ _ (0%nat, 0) E) as Hn. rewrite combine_nth in Hn by apply seq_length.
    inversion Hn as [[H1 H2]]. rewrite seq_nth by exact Hlt. split; [reflexivity|].
    rewrite (nth_error_nth' ws 0 Hlt). reflexivity. }
  destruct Hk as [-> Hw]. rewrite (V_var_table ws i Hlt). apply (Hb _ _ Hw).
Qed.

Lemma inb_ids ws a n : (a + n <= length ws)%nat -> Forall (inb (var_table ws)) (ids a n).
Proof.
  intros H. unfold ids. apply Forall_forall. intros x Hx. apply in_map_iff in Hx as (k & <- & Hk). apply in_seq in Hk.
  unfold inb, var_table. rewrite map_length, combine_length, seq_length. lia.
Qed.

(* the concretisation of the cells of one object *)
Lemma cells_val ws a n : (a + n <= length ws)%nat ->
  map (fun i : N => nth (N.to_nat i) (tvals rho (var_table ws)) 0) (ids a n) = map rho (seq a n).
Proof. intros H. apply (map_V_ids ws a n H). Qed.

End Glue.

(* a valuation that reads the input words from a list *)
Definition rho_of (l : list N) : nat -> N := fun k => nth k l 0.

Lemma rho_bound (l : list N) (ws : list N) :
  length l = length ws -> Forall2 (fun x w => x < 2 ^ w) l ws ->
  forall k w, nth_error ws k = Some w -> rho_of l k < 2 ^ w.
Proof.
  intros _ H. induction H as [|x w l ws Hx H IH]; intros k w' Hk; [destruct k; discriminate|].
  destruct k; cbn in *; [inversion Hk; subst; exact Hx|apply (IH _ _ Hk)].
Qed.

Lemma Forall2_repeat (l : list N) w : Forall (fun x => x < 2 ^ w) l -> Forall2 (fun x w => x < 2 ^ w) l (repeat w (length l)).
Proof. induction 1; cbn; constructor; auto. Qed.
