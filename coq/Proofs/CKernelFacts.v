(* ckernels vertical — generic facts about the semantics of Model/CKernel.v:
   fuel monotonicity, the [runs] relation (big-step, fuel-free) with its sequencing and while
   rules, word lemmas that turn C idioms into the Words.v vocabulary (rotate from two shifts),
   and the tactics the per-kernel proofs use for symbolic execution. *)
From Coq Require Import NArith List Lia Bool Arith.
From ISAL Require Import Base.Words Base.ListUtil Proofs.WordsFacts Model.CKernel.
Import ListNotations.
Local Open Scope N_scope.

(* ---------------------------------------------------------------- fuel *)

Lemma exec_nil f st : exec f [] st = Some st.
Proof. destruct f; reflexivity. Qed.

Lemma exec_mono : forall f ss st r, exec f ss st = Some r -> forall f', (f <= f')%nat -> exec f' ss st = Some r.
Proof.
  induction f as [|f IH]; intros ss st r H f' Hle.
  - destruct ss; [|discriminate]. cbn in H. rewrite exec_nil. exact H.
  - destruct ss as [|s ss]; [cbn in H; rewrite exec_nil; exact H|].
    destruct f' as [|f']; [lia|]. assert (Hle' : (f <= f')%nat) by lia.
    cbn in H |- *. destruct s.
    + destruct (eval st e); [|discriminate]. destruct (set_var st x n); [|discriminate]. eauto.
    + destruct (eval st idx); [|discriminate]. destruct (eval st e); [|discriminate].
      destruct (st_store st o aw n n0); [|discriminate]. eauto.
    + destruct (eval st c); [|discriminate]. eauto.
    + eauto.
Qed.

(* [runs ss st st']: executing ss from st ends in st'; stated so that it composes and is
   insensitive to spare fuel: whenever the continuation succeeds with F, the whole succeeds with
   F0 + F *)
Definition runs (ss : list stmt) (st st' : state) : Prop :=
  exists F0 : nat, forall (F : nat) (r : list stmt) res,
    exec F r st' = Some res -> exec (F0 + F) (ss ++ r) st = Some res.

Lemma runs_nil st : runs [] st st.
Proof. exists 0%nat. intros F r res H. exact H. Qed.

Lemma runs_app a b st st1 st2 : runs a st st1 -> runs b st1 st2 -> runs (a ++ b) st st2.
Proof.
  intros [Fa Ha] [Fb Hb]. exists (Fa + Fb)%nat. intros F r res H.
  rewrite <- app_assoc, <- Nat.add_assoc. apply Ha, Hb, H.
Qed.

Lemma runs_cons s b st st1 st2 : runs [s] st st1 -> runs b st1 st2 -> runs (s :: b) st st2.
Proof. apply (runs_app [s] b). Qed.

Lemma runs_exec ss st st' :
  runs ss st st' -> exists F0, forall f, (F0 <= f)%nat -> exec f ss st = Some st'.
Proof.
  intros [F0 H]. exists F0. intros f Hf.
  apply (exec_mono F0); [|exact Hf].
  rewrite <- (app_nil_r ss), <- (Nat.add_0_r F0). apply H. reflexivity.
Qed.

(* a closed execution (concrete fuel, no continuation) is a run *)
Lemma exec_runs : forall f ss st st', exec f ss st = Some st' -> runs ss st st'.
Proof.
  intros f ss st st' H. exists f. revert ss st H.
  induction f as [|f IH]; intros ss st H F r res Hr.
  - destruct ss; [|discriminate]. cbn in H. inversion H; subst. exact Hr.
  - destruct ss as [|s ss].
    + cbn in H. inversion H; subst. cbn [app]. apply (exec_mono F); [exact Hr|lia].
    + cbn [Nat.add app]. cbn in H |- *. destruct s.
      * destruct (eval st e); [|discriminate]. destruct (set_var st x n); [|discriminate]. eauto.
      * destruct (eval st idx); [|discriminate]. destruct (eval st e); [|discriminate].
        destruct (st_store st o aw n n0); [|discriminate]. eauto.
      * destruct (eval st c); [|discriminate]. rewrite app_assoc. eauto.
      * match goal with |- exec _ (?p ++ ?i :: ?z ++ r) _ = _ =>
          replace (p ++ i :: z ++ r) with ((p ++ i :: z) ++ r) by (rewrite <- app_assoc; reflexivity) end.
        eauto.
Qed.

Lemma runs_while_false pre c body st st1 :
  runs pre st st1 -> eval st1 c = Some 0 -> runs [SWhile pre c body] st st1.
Proof.
  intros [Fp Hp] Hc. exists (S (Fp + 1)). intros F r res Hr.
  change (S (Fp + 1) + F)%nat with (S (Fp + 1 + F)). cbn [exec app].
  rewrite <- Nat.add_assoc. apply Hp. cbn. rewrite Hc. cbn. exact Hr.
Qed.

Lemma runs_while_true pre c body st st1 st2 st3 v :
  runs pre st st1 -> eval st1 c = Some v -> v <> 0 -> runs body st1 st2 ->
  runs [SWhile pre c body] st2 st3 -> runs [SWhile pre c body] st st3.
Proof.
  intros [Fp Hp] Hc Hv [Fb Hb] [Fw Hw]. exists (S (Fp + (1 + (Fb + Fw)))). intros F r res Hr.
  change (S (Fp + (1 + (Fb + Fw))) + F)%nat with (S (Fp + (1 + (Fb + Fw)) + F)). cbn [exec app].
  rewrite <- Nat.add_assoc. apply Hp. cbn [Nat.add exec]. rewrite Hc.
  destruct (N.eqb_spec v 0); [contradiction|].
  rewrite <- !app_assoc, <- Nat.add_assoc. apply Hb. cbn [app]. apply (Hw F r res Hr).
Qed.

(* one-statement stepping equations (the per-kernel proofs execute symbolically with them) *)
Lemma exec_assign f x e r st v st' :
  eval st e = Some v -> set_var st x v = Some st' -> exec (S f) (SAssign x e :: r) st = exec f r st'.
Proof. intros He Hs. cbn. rewrite He, Hs. reflexivity. Qed.

Lemma exec_store f o aw i e r st iv v st' :
  eval st i = Some iv -> eval st e = Some v -> st_store st o aw iv v = Some st' ->
  exec (S f) (SStore o aw i e :: r) st = exec f r st'.
Proof. intros Hi He Hs. cbn. rewrite Hi, He, Hs. reflexivity. Qed.

Lemma exec_if f c a b r st v :
  eval st c = Some v -> exec (S f) (SIf c a b :: r) st = exec f ((if v =? 0 then b else a) ++ r) st.
Proof. intros Hc. cbn. rewrite Hc. reflexivity. Qed.

Lemma exec_while f p c b r st :
  exec (S f) (SWhile p c b :: r) st = exec f (p ++ SIf c (b ++ [SWhile p c b]) [] :: r) st.
Proof. reflexivity. Qed.

(* the first top-level loop of a body: (statements before, pre, condition, body, statements after) *)
Fixpoint split_while (ss : list stmt) : option (list stmt * (list stmt * expr * list stmt) * list stmt) :=
  match ss with
  | [] => None
  | SWhile p c b :: r => Some ([], (p, c, b), r)
  | s :: r => match split_while r with
              | Some (a, w, z) => Some (s :: a, w, z)
              | None => None
              end
  end.

Lemma split_while_eq ss a p c b z :
  split_while ss = Some (a, (p, c, b), z) -> ss = a ++ SWhile p c b :: z.
Proof.
  revert a; induction ss as [|s ss IH]; intros a H; [discriminate|].
  destruct s; cbn in H;
    try (destruct (split_while ss) as [[[a' w'] z']|]; [|discriminate]; inversion H; subst;
         cbn; f_equal; apply IH; reflexivity).
  inversion H; subst. reflexivity.
Qed.

(* ---------------------------------------------------------------- words *)

Lemma wrap_wrap k x : wrap k (wrap k x) = wrap k x.
Proof. apply wrap_small, wrap_lt. Qed.

Lemma shiftr_lt k x s r : x < 2 ^ k -> r + s = k -> N.shiftr x s < 2 ^ r.
Proof.
  intros Hx Hk. apply lt_pow2_of_bits. intros j Hj. rewrite N.shiftr_spec by lia.
  apply (testbit_high x k); [exact Hx|lia].
Qed.

(* (x << r) | (x >> s) with r + s = k on a k-bit value is the rotation *)
Lemma rol_from_shifts k x r s :
  x < 2 ^ k -> r + s = k -> N.lor (wrap k (N.shiftl x r)) (N.shiftr x s) = rol k x r.
Proof.
  intros Hx Hk. unfold rol. replace (k - r) with s by lia.
  apply N.bits_inj. intro i. rewrite wrap_spec, !N.lor_spec, wrap_spec.
  destruct (N.ltb_spec i k); [rewrite !andb_true_r; reflexivity|].
  rewrite !andb_false_r. cbn. rewrite N.shiftr_spec by lia. apply (testbit_high x k); [exact Hx|lia].
Qed.

(* the same written with ^ (the two halves have no bit in common) *)
Lemma rol_from_shifts_xor k x r s :
  x < 2 ^ k -> r + s = k -> N.lxor (wrap k (N.shiftl x r)) (N.shiftr x s) = rol k x r.
Proof.
  intros Hx Hk. rewrite <- (rol_from_shifts k x r s Hx Hk).
  apply N.bits_inj. intro i. rewrite N.lxor_spec, N.lor_spec, wrap_spec, N.shiftr_spec by lia.
  destruct (N.ltb_spec i r).
  - rewrite N.shiftl_spec_low by lia. cbn. destruct (N.testbit x (i + s)); reflexivity.
  - destruct (N.testbit x (i + s)) eqn:E; [|rewrite xorb_false_r, orb_false_r; reflexivity].
    destruct (N.ltb_spec i k); [|rewrite andb_false_r; reflexivity].
    assert (N.testbit x (i + s) = false) by (apply (testbit_high x k); [exact Hx|lia]). congruence.
Qed.

Lemma ror_from_shifts k x r s :
  x < 2 ^ k -> r + s = k -> N.lor (N.shiftr x r) (wrap k (N.shiftl x s)) = ror k x r.
Proof.
  intros Hx Hk. unfold ror. replace (k - r) with s by lia.
  apply N.bits_inj. intro i. rewrite wrap_spec, !N.lor_spec, wrap_spec.
  destruct (N.ltb_spec i k); [rewrite !andb_true_r; reflexivity|].
  rewrite !andb_false_r, orb_false_r. rewrite N.shiftr_spec by lia. apply (testbit_high x k); [exact Hx|lia].
Qed.

Lemma lor_lt k a b : a < 2 ^ k -> b < 2 ^ k -> N.lor a b < 2 ^ k.
Proof.
  intros Ha Hb. apply lt_pow2_of_bits. intros j Hj. rewrite N.lor_spec.
  rewrite (testbit_high a k), (testbit_high b k) by assumption. reflexivity.
Qed.

Lemma land_lt_l k a b : a < 2 ^ k -> N.land a b < 2 ^ k.
Proof.
  intros Ha. apply lt_pow2_of_bits. intros j Hj. rewrite N.land_spec.
  rewrite (testbit_high a k) by assumption. reflexivity.
Qed.

Lemma shiftr_lt_same k x s : x < 2 ^ k -> N.shiftr x s < 2 ^ k.
Proof.
  intros Hx. apply lt_pow2_of_bits. intros j Hj. rewrite N.shiftr_spec by lia.
  apply (testbit_high x k); [exact Hx|lia].
Qed.

(* little-endian bytes: zeros at the end do not count *)
Lemma le_to_N_app_zeros l n : le_to_N (l ++ repeat 0 n) = le_to_N l.
Proof.
  induction l as [|b l IH]; cbn.
  - induction n as [|n IHn]; cbn; [reflexivity|]. rewrite IHn. reflexivity.
  - rewrite IH. reflexivity.
Qed.

(* ---------------------------------------------------------------- tactics *)

(* is the term a ground binary numeral? *)
Ltac is_pos_const p :=
  lazymatch p with
  | xH => idtac
  | xO ?q => is_pos_const q
  | xI ?q => is_pos_const q
  end.
Ltac is_N_const n :=
  lazymatch n with
  | N0 => idtac
  | Npos ?p => is_pos_const p
  end.

Ltac is_nat_const n :=
  lazymatch n with
  | O => idtac
  | S ?m => is_nat_const m
  end.
Ltac is_Nlist_const l :=
  lazymatch l with
  | nil => idtac
  | cons ?a ?r => is_N_const a; is_Nlist_const r
  end.

(* fold the arithmetic whose operands are all numerals (the reduction tactics below keep the N
   operations folded so that symbolic values stay readable) *)
Ltac cfold1 :=
  match goal with
  | |- context [?f ?a ?b] =>
      lazymatch f with
      | N.add => idtac | N.sub => idtac | N.mul => idtac | N.pow => idtac | N.modulo => idtac
      | N.div => idtac | N.lor => idtac | N.land => idtac | N.lxor => idtac | N.shiftl => idtac
      | N.shiftr => idtac | wrap => idtac
      end;
      is_N_const a; is_N_const b;
      let v := eval vm_compute in (f a b) in change (f a b) with v
  | |- context [?f ?a ?b] =>
      lazymatch f with N.ltb => idtac | N.leb => idtac | N.eqb => idtac end;
      is_N_const a; is_N_const b;
      let v := eval vm_compute in (f a b) in change (f a b) with v
  | |- context [N.ones ?a] =>
      is_N_const a; let v := eval vm_compute in (N.ones a) in change (N.ones a) with v
  | |- context [N.to_nat ?a] =>
      is_N_const a; let v := eval vm_compute in (N.to_nat a) in change (N.to_nat a) with v
  | |- context [N.of_nat ?a] =>
      is_nat_const a; let v := eval vm_compute in (N.of_nat a) in change (N.of_nat a) with v
  | |- context [N_to_le ?k ?a] =>
      is_nat_const k; is_N_const a; let v := eval vm_compute in (N_to_le k a) in change (N_to_le k a) with v
  | |- context [le_to_N ?l] =>
      is_Nlist_const l; let v := eval vm_compute in (le_to_N l) in change (le_to_N l) with v
  end.
Ltac cfold := repeat cfold1.

Global Arguments N.add : simpl never.
Global Arguments N.sub : simpl never.
Global Arguments N.mul : simpl never.
Global Arguments N.pow : simpl never.
Global Arguments N.modulo : simpl never.
Global Arguments N.div : simpl never.
Global Arguments N.lor : simpl never.
Global Arguments N.land : simpl never.
Global Arguments N.lxor : simpl never.
Global Arguments N.shiftl : simpl never.
Global Arguments N.shiftr : simpl never.
Global Arguments N.ones : simpl never.
Global Arguments N.ltb : simpl never.
Global Arguments N.leb : simpl never.
Global Arguments N.eqb : simpl never.
Global Arguments N.to_nat : simpl never.
Global Arguments N.of_nat : simpl never.
Global Arguments wrap : simpl never.
Global Arguments le_to_N : simpl never.
Global Arguments N_to_le : simpl never.

(* ---- symbolic execution, one statement at a time.  Every evaluation is done on a small
   isolated goal (cbn on a whole program is exponential in the nesting of stuck matches).
   [hook] is run when an evaluation is stuck (e.g. a load at a symbolic index). *)
Ltac ck_cbn :=
  cbn [eval get_var set_var st_load st_store get_obj obj_load obj_store binop_eval cmp_eval
       nth_error upd app length st_vars st_objs o_cw o_cells mkobj mkstate Nat.ltb Nat.leb
       andb orb negb firstn skipn].
Ltac ck_simp := repeat (progress (ck_cbn; try unfold obj_load, obj_store, cmp_eval; ck_cbn; cfold; cbv iota)).
Ltac ck_solve hook := ck_simp; repeat (progress (hook; ck_simp)); reflexivity.

(* give a computed value a name (an opaque equation in the context) unless it is a numeral or
   already a variable: states stay small however often a value is reused; [subst] at the end *)
Ltac ck_name H :=
  lazymatch type of H with
  | _ = Some ?v =>
      tryif first [ is_N_const v | is_var v ] then idtac
      else (let x := fresh "val" in remember v as x)
  end.

Ltac ck_step hook :=
  lazymatch goal with
  | |- exec (S ?f) (SAssign ?x ?e :: ?r) ?st = _ =>
      let H := fresh "Hev" in
      eassert (H : eval st e = Some _) by (ck_solve hook);
      ck_name H;
      erewrite (exec_assign f x e r st _ _ H) by (ck_solve hook); clear H
  | |- exec (S ?f) (SStore ?o ?aw ?i ?e :: ?r) ?st = _ =>
      let Hi := fresh "Hev" in let He := fresh "Hev" in
      eassert (Hi : eval st i = Some _) by (ck_solve hook);
      eassert (He : eval st e = Some _) by (ck_solve hook);
      ck_name He;
      erewrite (exec_store f o aw i e r st _ _ _ Hi He) by (ck_solve hook); clear Hi He
  | |- exec (S ?f) (SIf ?c ?a ?b :: ?r) ?st = _ =>
      let H := fresh "Hev" in
      eassert (H : eval st c = Some _) by (ck_solve hook);
      rewrite (exec_if f c a b r st _ H); clear H; try unfold cmp_eval; cfold; cbv iota; cfold; cbv iota; cbn [app]
  | |- exec (S ?f) (SWhile ?p ?c ?b :: ?r) ?st = _ =>
      rewrite (exec_while f p c b r st); cbn [app]
  | |- exec _ [] ?st = _ => rewrite exec_nil
  end.
Ltac ck_steps hook := repeat ck_step hook.

(* the same stepper for an [exec] anywhere in the goal (e.g. under the [match] of a generated
   wrapper): the names and equations it introduces stay in the context of the goal *)
Ltac ck_cstep hook :=
  lazymatch goal with
  | |- context [exec (S ?f) (SAssign ?x ?e :: ?r) ?st] =>
      let H := fresh "Hev" in
      eassert (H : eval st e = Some _) by (ck_solve hook);
      ck_name H;
      erewrite (exec_assign f x e r st _ _ H) by (ck_solve hook); clear H
  | |- context [exec (S ?f) (SStore ?o ?aw ?i ?e :: ?r) ?st] =>
      let Hi := fresh "Hev" in let He := fresh "Hev" in
      eassert (Hi : eval st i = Some _) by (ck_solve hook);
      eassert (He : eval st e = Some _) by (ck_solve hook);
      ck_name He;
      erewrite (exec_store f o aw i e r st _ _ _ Hi He) by (ck_solve hook); clear Hi He
  | |- context [exec (S ?f) (SIf ?c ?a ?b :: ?r) ?st] =>
      let H := fresh "Hev" in
      eassert (H : eval st c = Some _) by (ck_solve hook);
      rewrite (exec_if f c a b r st _ H); clear H; try unfold cmp_eval; cfold; cbv iota; cfold; cbv iota; cbn [app]
  | |- context [exec (S ?f) (SWhile ?p ?c ?b :: ?r) ?st] =>
      rewrite (exec_while f p c b r st); cbn [app]
  | |- context [exec ?f [] ?st] => rewrite (exec_nil f st)
  end.
Ltac ck_csteps hook := repeat ck_cstep hook.
