(* ckernels vertical — generic facts about the semantics of Model/CKernel.v:
   fuel monotonicity, the [runs] relation (big-step, fuel-free) with its sequencing and while
   rules, word lemmas that turn C idioms into the Words.v vocabulary (rotate from two shifts),
   and the tactics the per-kernel proofs use for symbolic execution. *)
From Coq Require Import NArith List Lia Bool Arith.
From ISAL Require Import Base.Words Base.ListUtil Proofs.WordsFacts Model.CKernel.
Import ListNotations.
Local Open Scope N_scope.

(* ---------------------------------------------------------------- fuel *)

Lemma exec_nil f st : exec f [] st = Some st.
Proof. destruct f; reflexivity. Qed.

Lemma exec_mono : forall f ss st r, exec f ss st = Some r -> forall f', (f <= f')%nat -> exec f' ss st = Some r.
Proof.
  induction f as [|f IH]; intros ss st r H f' Hle.
  - destruct ss; [|discriminate]. cbn in H. rewrite exec_nil. exact H.
  - destruct ss as [|s ss]; [cbn in H; rewrite exec_nil; exact H|].
    destruct f' as [|f']; [lia|]. assert (Hle' : (f <= f')%nat) by lia.
    cbn in H |- *. destruct s.
    + destruct (eval st e); [|discriminate]. destruct (set_var st x n); [|discriminate]. eauto.
    + destruct (eval st idx); [|discriminate]. destruct (eval st e); [|discriminate].
      destruct (st_store st o aw n n0); [|discriminate]. eauto.
    + destruct (eval st c); [|discriminate]. eauto.
    + eauto.
Qed.

(* [runs ss st st']: executing ss from st ends in st' and consumes a fixed amount F0 of fuel,
   whatever follows *)
Definition runs (ss : list stmt) (st st' : state) : Prop :=
  exists F0 : nat, forall (F : nat) (r : list stmt), exec (F0 + F) (ss ++ r) st = exec F r st'.

Lemma runs_nil st : runs [] st st.
Proof. exists 0%nat. reflexivity. Qed.

Lemma runs_app a b st st1 st2 : runs a st st1 -> runs b st1 st2 -> runs (a ++ b) st st2.
Proof.
  intros [Fa Ha] [Fb Hb]. exists (Fa + Fb)%nat. intros F r.
  rewrite <- app_assoc, <- Nat.add_assoc, Ha, Hb. reflexivity.
Qed.

Lemma runs_cons s b st st1 st2 : runs [s] st st1 -> runs b st1 st2 -> runs (s :: b) st st2.
Proof. apply (runs_app [s] b). Qed.

Lemma runs_exec ss st st' :
  runs ss st st' -> exists F0, forall f, (F0 <= f)%nat -> exec f ss st = Some st'.
Proof.
  intros [F0 H]. exists F0. intros f Hf.
  replace f with (F0 + (f - F0))%nat by lia. rewrite <- (app_nil_r ss), H. apply exec_nil.
Qed.

Lemma runs_assign x e st v st' :
  eval st e = Some v -> set_var st x v = Some st' -> runs [SAssign x e] st st'.
Proof. intros He Hs. exists 1%nat. intros F r. cbn. rewrite He, Hs. reflexivity. Qed.

Lemma runs_store o aw i e st iv v st' :
  eval st i = Some iv -> eval st e = Some v -> st_store st o aw iv v = Some st' ->
  runs [SStore o aw i e] st st'.
Proof. intros Hi He Hs. exists 1%nat. intros F r. cbn. rewrite Hi, He, Hs. reflexivity. Qed.

Lemma runs_if_true c a b st v st' :
  eval st c = Some v -> v <> 0 -> runs a st st' -> runs [SIf c a b] st st'.
Proof.
  intros Hc Hv [Fa Ha]. exists (S Fa). intros F r. cbn. rewrite Hc.
  destruct (N.eqb_spec v 0); [contradiction|]. apply Ha.
Qed.

Lemma runs_if_false c a b st st' :
  eval st c = Some 0 -> runs b st st' -> runs [SIf c a b] st st'.
Proof. intros Hc [Fb Hb]. exists (S Fb). intros F r. cbn. rewrite Hc. cbn. apply Hb. Qed.

Lemma runs_while_false pre c body st st1 :
  runs pre st st1 -> eval st1 c = Some 0 -> runs [SWhile pre c body] st st1.
Proof.
  intros [Fp Hp] Hc. exists (S (Fp + 1)). intros F r.
  change (S (Fp + 1) + F)%nat with (S (Fp + 1 + F)). cbn [exec app].
  rewrite <- Nat.add_assoc, Hp. cbn. rewrite Hc. reflexivity.
Qed.

Lemma runs_while_true pre c body st st1 st2 st3 v :
  runs pre st st1 -> eval st1 c = Some v -> v <> 0 -> runs body st1 st2 ->
  runs [SWhile pre c body] st2 st3 -> runs [SWhile pre c body] st st3.
Proof.
  intros [Fp Hp] Hc Hv [Fb Hb] [Fw Hw]. exists (S (Fp + (1 + (Fb + Fw)))). intros F r.
  change (S (Fp + (1 + (Fb + Fw))) + F)%nat with (S (Fp + (1 + (Fb + Fw)) + F)). cbn [exec app].
  rewrite <- Nat.add_assoc, Hp. cbn [Nat.add exec]. rewrite Hc.
  destruct (N.eqb_spec v 0); [contradiction|].
  rewrite <- !app_assoc, <- Nat.add_assoc, Hb. cbn [app]. apply (Hw F r).
Qed.

(* the first top-level loop of a body: (statements before, pre, condition, body, statements after) *)
Fixpoint split_while (ss : list stmt) : option (list stmt * (list stmt * expr * list stmt) * list stmt) :=
  match ss with
  | [] => None
  | SWhile p c b :: r => Some ([], (p, c, b), r)
  | s :: r => match split_while r with
              | Some (a, w, z) => Some (s :: a, w, z)
              | None => None
              end
  end.

Lemma split_while_eq ss a p c b z :
  split_while ss = Some (a, (p, c, b), z) -> ss = a ++ SWhile p c b :: z.
Proof.
  revert a; induction ss as [|s ss IH]; intros a H; [discriminate|].
  destruct s; cbn in H;
    try (destruct (split_while ss) as [[[a' w'] z']|]; [|discriminate]; inversion H; subst;
         cbn; f_equal; apply IH; reflexivity).
  inversion H; subst. reflexivity.
Qed.

(* ---------------------------------------------------------------- words *)

Lemma wrap_wrap k x : wrap k (wrap k x) = wrap k x.
Proof. apply wrap_small, wrap_lt. Qed.

Lemma shiftr_lt k x s r : x < 2 ^ k -> r + s = k -> N.shiftr x s < 2 ^ r.
Proof.
  intros Hx Hk. apply lt_pow2_of_bits. intros j Hj. rewrite N.shiftr_spec by lia.
  apply (testbit_high x k); [exact Hx|lia].
Qed.

(* (x << r) | (x >> s) with r + s = k on a k-bit value is the rotation *)
Lemma rol_from_shifts k x r s :
  x < 2 ^ k -> r + s = k -> N.lor (wrap k (N.shiftl x r)) (N.shiftr x s) = rol k x r.
Proof.
  intros Hx Hk. unfold rol. replace (k - r) with s by lia.
  apply N.bits_inj. intro i. rewrite wrap_spec, !N.lor_spec, wrap_spec.
  destruct (N.ltb_spec i k); [rewrite !andb_true_r; reflexivity|].
  rewrite !andb_false_r. cbn. rewrite N.shiftr_spec by lia. apply (testbit_high x k); [exact Hx|lia].
Qed.

(* the same written with ^ (the two halves have no bit in common) *)
Lemma rol_from_shifts_xor k x r s :
  x < 2 ^ k -> r + s = k -> N.lxor (wrap k (N.shiftl x r)) (N.shiftr x s) = rol k x r.
Proof.
  intros Hx Hk. rewrite <- (rol_from_shifts k x r s Hx Hk).
  apply N.bits_inj. intro i. rewrite N.lxor_spec, N.lor_spec, wrap_spec, N.shiftr_spec by lia.
  destruct (N.ltb_spec i r).
  - rewrite N.shiftl_spec_low by lia. cbn. destruct (N.testbit x (i + s)); reflexivity.
  - destruct (N.testbit x (i + s)) eqn:E; [|rewrite xorb_false_r, orb_false_r; reflexivity].
    destruct (N.ltb_spec i k); [|rewrite andb_false_r; reflexivity].
    assert (N.testbit x (i + s) = false) by (apply (testbit_high x k); [exact Hx|lia]). congruence.
Qed.

Lemma ror_from_shifts k x r s :
  x < 2 ^ k -> r + s = k -> N.lor (N.shiftr x r) (wrap k (N.shiftl x s)) = ror k x r.
Proof.
  intros Hx Hk. unfold ror. replace (k - r) with s by lia.
  apply N.bits_inj. intro i. rewrite wrap_spec, !N.lor_spec, wrap_spec.
  destruct (N.ltb_spec i k); [rewrite !andb_true_r; reflexivity|].
  rewrite !andb_false_r, orb_false_r. rewrite N.shiftr_spec by lia. apply (testbit_high x k); [exact Hx|lia].
Qed.

Lemma lor_lt k a b : a < 2 ^ k -> b < 2 ^ k -> N.lor a b < 2 ^ k.
Proof.
  intros Ha Hb. apply lt_pow2_of_bits. intros j Hj. rewrite N.lor_spec.
  rewrite (testbit_high a k), (testbit_high b k) by assumption. reflexivity.
Qed.

Lemma land_lt_l k a b : a < 2 ^ k -> N.land a b < 2 ^ k.
Proof.
  intros Ha. apply lt_pow2_of_bits. intros j Hj. rewrite N.land_spec.
  rewrite (testbit_high a k) by assumption. reflexivity.
Qed.

Lemma shiftr_lt_same k x s : x < 2 ^ k -> N.shiftr x s < 2 ^ k.
Proof.
  intros Hx. apply lt_pow2_of_bits. intros j Hj. rewrite N.shiftr_spec by lia.
  apply (testbit_high x k); [exact Hx|lia].
Qed.

(* little-endian bytes: zeros at the end do not count *)
Lemma le_to_N_app_zeros l n : le_to_N (l ++ repeat 0 n) = le_to_N l.
Proof.
  induction l as [|b l IH]; cbn.
  - induction n as [|n IHn]; cbn; [reflexivity|]. rewrite IHn. reflexivity.
  - rewrite IH. reflexivity.
Qed.

(* ---------------------------------------------------------------- tactics *)

(* is the term a ground binary numeral? *)
Ltac is_pos_const p :=
  lazymatch p with
  | xH => idtac
  | xO ?q => is_pos_const q
  | xI ?q => is_pos_const q
  end.
Ltac is_N_const n :=
  lazymatch n with
  | N0 => idtac
  | Npos ?p => is_pos_const p
  end.

(* fold the arithmetic whose operands are all numerals (the reduction tactics below keep the N
   operations folded so that symbolic values stay readable) *)
Ltac cfold1 :=
  match goal with
  | |- context [?f ?a ?b] =>
      lazymatch f with
      | N.add => idtac | N.sub => idtac | N.mul => idtac | N.pow => idtac | N.modulo => idtac
      | N.div => idtac | N.lor => idtac | N.land => idtac | N.lxor => idtac | N.shiftl => idtac
      | N.shiftr => idtac | wrap => idtac
      end;
      is_N_const a; is_N_const b;
      let v := eval vm_compute in (f a b) in change (f a b) with v
  | |- context [?f ?a ?b] =>
      lazymatch f with N.ltb => idtac | N.leb => idtac | N.eqb => idtac end;
      is_N_const a; is_N_const b;
      let v := eval vm_compute in (f a b) in change (f a b) with v
  | |- context [N.ones ?a] =>
      is_N_const a; let v := eval vm_compute in (N.ones a) in change (N.ones a) with v
  | |- context [N.to_nat ?a] =>
      is_N_const a; let v := eval vm_compute in (N.to_nat a) in change (N.to_nat a) with v
  end.
Ltac cfold := repeat cfold1.

Global Arguments N.add : simpl never.
Global Arguments N.sub : simpl never.
Global Arguments N.mul : simpl never.
Global Arguments N.pow : simpl never.
Global Arguments N.modulo : simpl never.
Global Arguments N.div : simpl never.
Global Arguments N.lor : simpl never.
Global Arguments N.land : simpl never.
Global Arguments N.lxor : simpl never.
Global Arguments N.shiftl : simpl never.
Global Arguments N.shiftr : simpl never.
Global Arguments N.ones : simpl never.
Global Arguments N.ltb : simpl never.
Global Arguments N.leb : simpl never.
Global Arguments N.eqb : simpl never.
Global Arguments N.to_nat : simpl never.
Global Arguments N.of_nat : simpl never.
Global Arguments wrap : simpl never.
Global Arguments le_to_N : simpl never.
Global Arguments N_to_le : simpl never.

(* symbolic execution of the interpreter on a state whose shape is explicit: unfold the
   interpreter, keep N arithmetic folded, fold what is constant, repeat *)
Ltac ck_cbn :=
  cbn [exec eval get_var set_var st_load st_store get_obj obj_load obj_store binop_eval cmp_eval
       nth_error upd app length st_vars st_objs o_cw o_cells mkobj mkstate Nat.ltb Nat.leb
       andb orb negb Nat.add firstn skipn].
Ltac ck_run := repeat (progress (ck_cbn; cfold)).
