From Coq Require Import NArith List Bool Arith Lia.
From ISAL Require Import Base.Words Base.ListUtil Proofs.WordsFacts Proofs.ChunkFacts Spec.MD Spec.SHA1 Spec.SHA256
  Model.CKernel Proofs.CKernelFacts Model.CKSym Proofs.CKSymFacts Model.CKSymSpec Proofs.CKSymSpecFacts
  Gen.CKernelGen Proofs.CKSymSha256.
From ISAL Require Import Proofs.CKSymGlue.
Import ListNotations.
Local Open Scope N_scope.

Lemma sha256_t0_eq : ck_t0 sha256_objs = var_table (repeat 32 40).
Proof. reflexivity. Qed.
Lemma sha256_cells_eq : ck_cells sha256_objs = [(32, ids 0 16); (32, ids 16 8); (32, ids 24 16)].
Proof. reflexivity. Qed.

(* the three input segments of a valuation read from data ++ h ++ J *)
Lemma segs3 (a b c : list N) na nb nc :
  length a = na -> length b = nb -> length c = nc ->
  map (rho_of (a ++ b ++ c)) (seq 0 na) = a /\
  map (rho_of (a ++ b ++ c)) (seq na nb) = b /\
  map (rho_of (a ++ b ++ c)) (seq (na + nb) nc) = c.
Proof.
  intros <- <- <-. unfold rho_of. split; [apply map_nth_seq_prefix|]. split.
  - rewrite map_nth_seq_app. apply map_nth_seq_prefix.
  - rewrite app_assoc, <- app_length, map_nth_seq_app. apply list_eta.
Qed.

Theorem ck_sha256_single_eq (h block junk : list N) :
  length h = 8%nat -> Forall (fun x => x < 2 ^ 32) h ->
  length block = 64%nat -> Forall (fun x => x < 2 ^ 8) block ->
  exists F0, forall fuel, (F0 <= fuel)%nat ->
    c_sha256_single fuel (le_words 4 block) h junk = Some (sha256_compress h block).
Proof.
  intros Hlh Hbh Hlb Hbb.
  destruct (block_words block Hlb Hbb) as (Ld & _ & Bd & Ebe).
  unfold sha256_compress. rewrite Ebe. clear Ebe.
  set (data := le_words 4 block) in *.
  set (J := map (wrap 32) (firstn 16 (junk ++ repeat 0 16))).
  assert (LJ : length J = 16%nat) by (unfold J; rewrite map_length, firstn_length, app_length, repeat_length; lia).
  assert (BJ : Forall (fun x => x < 2 ^ 32) J).
  { unfold J. apply Forall_forall. intros x Hx. apply in_map_iff in Hx as (y & <- & _). apply wrap_lt. }
  set (L := data ++ h ++ J).
  assert (HL : length L = 40%nat) by (unfold L; rewrite !app_length; lia).
  destruct (segs3 data h J 16 8 16 Ld Hlh LJ) as (S1 & S2 & S3). fold L in S1, S2, S3.
  set (rho := rho_of L) in *.
  assert (Hwf0 : wf rho (ck_t0 sha256_objs)).
  { rewrite sha256_t0_eq. apply wf_var_table. apply (rho_bound L (repeat 32 40)); [rewrite repeat_length; exact HL|].
    rewrite <- HL. apply Forall2_repeat. unfold L. rewrite !Forall_app. auto. }
  destruct (sha256_sym_sound rho Hwf0) as (st' & Hex & Hget).
  exists 5000%nat. intros fuel Hf. apply (c_sha256_single_mono _ _ _ 5000 fuel); [exact Hf|].
  unfold c_sha256_single.
  assert (Hinit : conc (tvals rho (ck_t0 sha256_objs)) (ck_st0 sha256_nvars sha256_objs) = c_sha256_single_init data h junk).
  { rewrite sha256_t0_eq. unfold conc, ck_st0, c_sha256_single_init, mkstate. cbn [sv so]. f_equal.
    rewrite sha256_cells_eq. cbn [map fst snd].
    rewrite !cells_val by (rewrite repeat_length; lia). rewrite S1, S2. change 24%nat with (16 + 8)%nat. rewrite S3. reflexivity. }
  rewrite <- Hinit, Hex, Hget. rewrite sha256_t0_eq.
  change (map N.of_nat (seq 16 8)) with (ids 16 8). change (map N.of_nat (seq 0 16)) with (ids 0 16).
  rewrite !map_V_ids by (rewrite repeat_length; lia). rewrite S1, S2. reflexivity.
Qed.
