(* ckernels vertical — the symbolic specifications of Model/CKSymSpec.v denote the Spec functions. *)
From Coq Require Import NArith List Bool Arith Lia.
From ISAL Require Import Base.Words Base.ListUtil Proofs.WordsFacts Spec.MD Spec.SHA1 Spec.SHA256
  Model.CKernel Proofs.CKernelFacts Model.CKSym Proofs.CKSymFacts Model.CKSymSpec.
Import ListNotations.
Local Open Scope N_scope.

Section Spec.
Variable rho : nat -> N.
Notation V := (V rho).
Notation wf := (wf rho).
Notation OK := (OK rho).

Definition POST {A} (s : tbl) (r : option (A * tbl)) (Q : A -> tbl -> Prop) : Prop :=
  match r with None => True | Some (a, s') => wf s' /\ ext s s' /\ Q a s' end.
Definition isv (v : N) : N -> tbl -> Prop := fun i s' => inb s' i /\ V s' i = v.
Definition isl (vs : list N) : list N -> tbl -> Prop := fun l s' => Forall (inb s') l /\ map (V s') l = vs.

Lemma POST_bind {A B} s (m : M A) (f : A -> M B) Q R :
  POST s (m s) Q -> (forall a s', wf s' -> ext s s' -> Q a s' -> POST s' (f a s') R) -> POST s (bind m f s) R.
Proof.
  unfold bind. destruct (m s) as [[a s1]|]; [|intros _ _; exact I].
  intros (W & E & HQ) Hf. specialize (Hf a s1 W E HQ). unfold POST in *.
  destruct (f a s1) as [[b s2]|]; [|exact I]. destruct Hf as (W2 & E2 & HR). eauto using ext_trans.
Qed.

Lemma POST_ret {A} s (a : A) (Q : A -> tbl -> Prop) : wf s -> Q a s -> POST s (ret a s) Q.
Proof. intros. cbn. auto using ext_refl. Qed.

Lemma OK_POST s r v : OK s r v -> POST s r (isv v).
Proof. destruct r as [[i s']|]; [|trivial]. cbn. unfold isv. tauto. Qed.

Lemma POST_conv {A} s (r : option (A * tbl)) (Q Q' : A -> tbl -> Prop) :
  POST s r Q -> (forall a s', Q a s' -> Q' a s') -> POST s r Q'.
Proof. destruct r as [[a s']|]; [|trivial]. cbn. intros (W & E & HQ) Himp. auto. Qed.

End Spec.

Ltac ext_tac := solve [ apply ext_refl | assumption | (eapply ext_trans; [eassumption|ext_tac]) ].
Ltac inb_tac :=
  solve [ assumption
        | match goal with H : inb ?h ?y |- inb ?t ?y => apply (ext_inb h t y); [ext_tac|exact H] end ].
(* bring every V t y back to the table where y was introduced, then use the defining equations *)
Ltac vnorm1 :=
  repeat match goal with
  | Hi : inb ?h ?y |- context [CKSym.V ?r ?t ?y] =>
      tryif constr_eq h t then fail else rewrite (ext_V r h t y ltac:(ext_tac) Hi)
  end;
  repeat match goal with Hv : CKSym.V _ _ _ = _ |- _ => rewrite Hv end.
Ltac vnorm := repeat (progress vnorm1).

(* one bind whose first computation is a smart constructor with lemma L (conclusion OK) *)
Ltac mstep L :=
  eapply POST_bind; [apply OK_POST; apply L; first [assumption|inb_tac] | intros ? ? ? ? [? ?]].
(* ... or a derived computation with lemma L (conclusion POST ... (isv _)) *)
Ltac pstep L :=
  eapply POST_bind; [apply L; first [assumption|inb_tac] | intros ? ? ? ? [? ?]].
Ltac mlast L :=
  eapply POST_conv; [apply OK_POST; apply L; first [assumption|inb_tac]
                    | let Hv := fresh "Hv" in intros ? ? [? Hv]; split; [assumption|rewrite Hv; vnorm; try reflexivity]].

Section Sha256.
Variable rho : nat -> N.
Notation V := (V rho).
Notation wf := (wf rho).
Notation POST := (POST rho).
Notation isv := (isv rho).
Notation isl := (isl rho).

Lemma mk_xor3_ok s w a b c : wf s -> inb s a -> inb s b -> inb s c ->
  POST s (mk_xor3 w a b c s) (isv (N.lxor (N.lxor (V s a) (V s b)) (V s c))).
Proof.
  intros. unfold mk_xor3. mstep (mk_bit2_ok rho). mlast (mk_bit2_ok rho).
Qed.

Lemma sy256_S0_ok s x : wf s -> inb s x -> POST s (sy256_S0 x s) (isv (sha256_S0 (V s x))).
Proof.
  intros. unfold sy256_S0. mstep (mk_ror_ok rho). mstep (mk_ror_ok rho). mstep (mk_ror_ok rho).
  eapply POST_conv; [apply mk_xor3_ok; first [assumption|inb_tac]|].
  intros ? ? [? Hv]. split; [assumption|]. rewrite Hv. vnorm. reflexivity.
Qed.

Lemma sy256_S1_ok s x : wf s -> inb s x -> POST s (sy256_S1 x s) (isv (sha256_S1 (V s x))).
Proof.
  intros. unfold sy256_S1. mstep (mk_ror_ok rho). mstep (mk_ror_ok rho). mstep (mk_ror_ok rho).
  eapply POST_conv; [apply mk_xor3_ok; first [assumption|inb_tac]|].
  intros ? ? [? Hv]. split; [assumption|]. rewrite Hv. vnorm. reflexivity.
Qed.
Lemma sy256_s0_ok s x : wf s -> inb s x -> POST s (sy256_s0 x s) (isv (sha256_s0 (V s x))).
Proof.
  intros. unfold sy256_s0. mstep (mk_ror_ok rho). mstep (mk_ror_ok rho). mstep (mk_shr_ok rho).
  eapply POST_conv; [apply mk_xor3_ok; first [assumption|inb_tac]|].
  intros ? ? [? Hv]. split; [assumption|]. rewrite Hv. vnorm. reflexivity.
Qed.
Lemma sy256_s1_ok s x : wf s -> inb s x -> POST s (sy256_s1 x s) (isv (sha256_s1 (V s x))).
Proof.
  intros. unfold sy256_s1. mstep (mk_ror_ok rho). mstep (mk_ror_ok rho). mstep (mk_shr_ok rho).
  eapply POST_conv; [apply mk_xor3_ok; first [assumption|inb_tac]|].
  intros ? ? [? Hv]. split; [assumption|]. rewrite Hv. vnorm. reflexivity.
Qed.

Lemma sy_ch32_ok s x y z : wf s -> inb s x -> inb s y -> inb s z ->
  POST s (sy_ch 32 x y z s) (isv (ch32 (V s x) (V s y) (V s z))).
Proof.
  intros. unfold sy_ch. mstep (mk_bit2_ok rho). mstep (mk_not_ok rho). mstep (mk_bit2_ok rho).
  mlast (mk_bit2_ok rho).
Qed.
Lemma sy_maj32_ok s x y z : wf s -> inb s x -> inb s y -> inb s z ->
  POST s (sy_maj 32 x y z s) (isv (maj32 (V s x) (V s y) (V s z))).
Proof.
  intros. unfold sy_maj. mstep (mk_bit2_ok rho). mstep (mk_bit2_ok rho). mstep (mk_bit2_ok rho).
  eapply POST_conv; [apply mk_xor3_ok; first [assumption|inb_tac]|].
  intros ? ? [? Hv]. split; [assumption|]. rewrite Hv. vnorm. reflexivity.
Qed.

Lemma Forall_inb_ext s s' l : ext s s' -> Forall (inb s) l -> Forall (inb s') l.
Proof. intros He H. eapply Forall_impl; [|exact H]. intro i. apply (ext_inb _ _ _ He). Qed.
Lemma map_V_ext s s' l : ext s s' -> Forall (inb s) l -> map (V s') l = map (V s) l.
Proof. intros He H. apply map_ext_in. intros i Hi. rewrite Forall_forall in H. apply (ext_V rho _ _ _ He (H _ Hi)). Qed.

Ltac explode l H := repeat (destruct l as [|? l]; cbn [length] in H; try discriminate H).
Ltac forall_inv :=
  repeat match goal with
  | H : Forall _ (_ :: _) |- _ => inversion H; clear H; subst
  | H : Forall _ [] |- _ => clear H
  end.

Lemma sy256_sched_ok : forall n w s, wf s -> Forall (inb s) w -> length w = 16%nat ->
  POST s (sy256_sched n w s) (isl (sha256_sched n (map (V s) w))).
Proof.
  induction n as [|n IH]; intros w s Hwf Hw Hl.
  - apply POST_ret; [exact Hwf|split; constructor].
  - explode w Hl. forall_inv. cbn [sy256_sched sha256_sched map].
    pstep sy256_s1_ok. mstep (mk_add_ok rho). pstep sy256_s0_ok. mstep (mk_add_ok rho). mstep (mk_add_ok rho).
    eapply POST_bind; [apply IH; [assumption| |reflexivity]|].
    + repeat (constructor; [inb_tac|]). constructor.
    + intros r sr Wr Er [Fr Vr]. apply POST_ret; [exact Wr|]. split; [constructor; [inb_tac|exact Fr]|].
      cbn [map]. rewrite Vr. cbn [map]. vnorm. reflexivity.
Qed.

Definition tinb (s : tbl) (t : st8) : Prop :=
  let '(a, b, c, d, e, f, g, h) := t in
  inb s a /\ inb s b /\ inb s c /\ inb s d /\ inb s e /\ inb s f /\ inb s g /\ inb s h.
Definition tv (s : tbl) (t : st8) : sha256_state :=
  let '(a, b, c, d, e, f, g, h) := t in (V s a, V s b, V s c, V s d, V s e, V s f, V s g, V s h).

Lemma sy256_round_ok s t w k : wf s -> tinb s t -> inb s w ->
  POST s (sy256_round t (w, k) s) (fun t' s' => tinb s' t' /\ tv s' t' = sha256_round (tv s t) (V s w, k)).
Proof.
  intros Hwf Ht Hw. destruct t as [[[[[[[a b] c] d] e] f] g] h]. destruct Ht as (?&?&?&?&?&?&?&?).
  unfold sy256_round. mstep (mk_const_ok rho).
  pstep sy256_S1_ok. mstep (mk_add_ok rho). pstep sy_ch32_ok. mstep (mk_add_ok rho). mstep (mk_add_ok rho). mstep (mk_add_ok rho).
  pstep sy256_S0_ok. pstep sy_maj32_ok. mstep (mk_add_ok rho). mstep (mk_add_ok rho). mstep (mk_add_ok rho).
  apply POST_ret; [assumption|]. split.
  - unfold tinb. repeat split; inb_tac.
  - unfold tv, sha256_round. vnorm. reflexivity.
Qed.

Lemma sy256_fold_ok : forall l t s, wf s -> tinb s t -> Forall (fun p : N * N => inb s (fst p)) l ->
  POST s (sy_fold sy256_round l t s)
       (fun t' s' => tinb s' t' /\ tv s' t' = fold_left sha256_round (map (fun p : N * N => (V s (fst p), snd p)) l) (tv s t)).
Proof.
  induction l as [|[w k] l IH]; intros t s Hwf Ht Hl.
  - apply POST_ret; [exact Hwf|split; [exact Ht|reflexivity]].
  - inversion Hl as [|? ? Hw Hl']; subst. cbn [fst] in Hw. cbn [sy_fold map fold_left fst snd].
    eapply POST_bind; [apply sy256_round_ok; assumption|].
    intros t1 s1 W1 E1 [T1 V1]. eapply POST_conv; [apply IH; [exact W1|exact T1|]|].
    + eapply Forall_impl; [|exact Hl']. intros p Hp. apply (ext_inb _ _ _ E1 Hp).
    + intros t2 s2 [T2 V2]. split; [exact T2|]. rewrite V2, V1. f_equal.
      apply map_ext_in. intros p Hp. rewrite Forall_forall in Hl'. rewrite (ext_V rho _ _ _ E1 (Hl' _ Hp)). reflexivity.
Qed.

Lemma combine_map_V s (l : list N) (K : list N) :
  map (fun p : N * N => (V s (fst p), snd p)) (combine l K) = combine (map (V s) l) K.
Proof. revert K. induction l as [|x l IH]; intros [|k K]; cbn [combine map fst snd]; try reflexivity. rewrite IH. reflexivity. Qed.

Lemma Forall_combine_fst (P : N -> Prop) (l K : list N) : Forall P l -> Forall (fun p : N * N => P (fst p)) (combine l K).
Proof. intros H. revert K. induction H; intros [|k K]; cbn [combine]; constructor; auto. Qed.

Lemma sy256_compress_words_ok s hh m : wf s -> Forall (inb s) hh -> Forall (inb s) m -> length hh = 8%nat -> length m = 16%nat ->
  POST s (sy256_compress_words hh m s) (isl (sha256_compress_words (map (V s) hh) (map (V s) m))).
Proof.
  intros Hwf Hh Hm Lh Lm. explode hh Lh. pose proof Hh as Hh'. forall_inv.
  unfold sy256_compress_words.
  eapply POST_bind; [apply sy256_sched_ok; assumption|]. intros sch s1 W1 E1 [F1 V1].
  eapply POST_bind.
  { apply sy256_fold_ok; [exact W1|unfold tinb; repeat split; inb_tac|].
    apply Forall_combine_fst. apply Forall_app. split; [apply (Forall_inb_ext _ _ _ E1 Hm)|exact F1]. }
  intros t s2 W2 E2 [T2 V2]. destruct t as [[[[[[[a b] c] d] e] f] g] h]. destruct T2 as (?&?&?&?&?&?&?&?).
  mstep (mk_add_ok rho). mstep (mk_add_ok rho). mstep (mk_add_ok rho). mstep (mk_add_ok rho).
  mstep (mk_add_ok rho). mstep (mk_add_ok rho). mstep (mk_add_ok rho). mstep (mk_add_ok rho).
  apply POST_ret; [assumption|]. split; [repeat (constructor; [inb_tac|]); constructor|].
  cbn [map]. unfold sha256_compress_words.
  rewrite combine_map_V, map_app, V1, (map_V_ext _ _ _ E1 Hm) in V2. unfold tv in V2. cbn [map] in V2.
  repeat match goal with Hi : inb s ?y |- _ =>
    match type of V2 with context [CKSym.V rho s1 y] => rewrite (ext_V rho s s1 y E1 Hi) in V2 end end.
  unfold sha256_W. rewrite <- V2. unfold add32, w32. vnorm. reflexivity.
Qed.

Lemma mmap_bswap_ok w : forall l s, wf s -> Forall (inb s) l ->
  POST s (mmap (mk_bswap w) l s) (isl (map (bswap w) (map (V s) l))).
Proof.
  induction l as [|x l IH]; intros s Hwf Hl.
  - apply POST_ret; [exact Hwf|split; constructor].
  - inversion Hl; subst. cbn [mmap map]. mstep (mk_bswap_ok rho).
    eapply POST_bind; [apply IH; [assumption|]|].
    + eapply Forall_inb_ext; eassumption.
    + intros ys s2 W2 E2 [F2 V2]. apply POST_ret; [exact W2|]. split; [constructor; [inb_tac|exact F2]|].
      cbn [map]. rewrite V2. rewrite (map_V_ext s s' l) by assumption. vnorm. reflexivity.
Qed.

Lemma sy256_be_compress_ok s hh mle : wf s -> Forall (inb s) hh -> Forall (inb s) mle -> length hh = 8%nat -> length mle = 16%nat ->
  POST s (sy_be_compress sy256_compress_words 32 hh mle s)
       (isl (sha256_compress_words (map (V s) hh) (map (bswap 32) (map (V s) mle)))).
Proof.
  intros Hwf Hh Hm Lh Lm. unfold sy_be_compress.
  eapply POST_bind; [apply mmap_bswap_ok; assumption|]. intros m s1 W1 E1 [F1 V1].
  eapply POST_conv; [apply sy256_compress_words_ok; [exact W1|apply (Forall_inb_ext _ _ _ E1 Hh)|exact F1|exact Lh|]|].
  - rewrite <- (map_length (V s1)), V1, !map_length. exact Lm.
  - intros l s2 [F2 V2]. split; [exact F2|]. rewrite V2, V1, (map_V_ext _ _ _ E1 Hh). reflexivity.
Qed.

End Sha256.

(* ---------------------------------------------------------------- the check is sound *)

Lemma list_nat_eqb_eq a b : list_nat_eqb a b = true -> a = b.
Proof.
  revert b. induction a as [|x a IH]; intros [|y b]; cbn [list_nat_eqb]; try discriminate; [reflexivity|].
  intros E. apply andb_true_iff in E as [E1 E2]. apply N.eqb_eq in E1. subst. f_equal. auto.
Qed.

Lemma ck_check_sound rho body fuel nvars objs out spec (tgt : list N) :
  wf rho (ck_t0 objs) -> sst_ok (ck_t0 objs) (ck_st0 nvars objs) ->
  (forall s, wf rho s -> ext (ck_t0 objs) s -> POST rho s (spec (map snd (ck_cells objs)) s) (isl rho tgt)) ->
  ck_check body fuel nvars objs out spec = true ->
  exists st', exec fuel body (conc (tvals rho (ck_t0 objs)) (ck_st0 nvars objs)) = Some st' /\ get_obj st' out = Some tgt.
Proof.
  intros Hwf Hst Hspec. unfold ck_check.
  pose proof (sexec_ok rho fuel body _ _ Hwf Hst) as H. unfold SOK in H.
  destruct (sexec fuel body (ck_st0 nvars objs) (ck_t0 objs)) as [[st1 t1]|]; [|discriminate].
  destruct H as (W1 & E1 & S1 & Hex).
  destruct (nth_error (so st1) out) as [[cw res]|] eqn:Eo; [|discriminate].
  pose proof (Hspec t1 W1 E1) as Hp. unfold POST in Hp.
  destruct (spec (map snd (ck_cells objs)) t1) as [[want t2]|]; [|discriminate].
  destruct Hp as (W2 & E2 & F2 & V2). intros Heq. apply list_nat_eqb_eq in Heq. subst want.
  eexists. split; [exact Hex|].
  unfold get_obj, conc. cbn [st_objs]. rewrite nth_error_map, Eo. cbn [option_map fst snd mkobj o_cells]. f_equal.
  rewrite <- V2. symmetry. apply map_ext_in. intros i Hi.
  destruct S1 as [_ S1]. rewrite Forall_forall in S1. pose proof (S1 _ (nth_error_In _ _ Eo)) as Hc. cbn [snd] in Hc.
  rewrite Forall_forall in Hc. apply (ext_V rho _ _ _ E2 (Hc _ Hi)).
Qed.
