(* Instantiation of the rolling-hash theorems with the regenerated table. *)
From Coq Require Import NArith List Arith Lia Bool.
From ISAL Require Import Base.Words Base.ListUtil Spec.Rolling Spec.RollingPinned Model.RollRun
  Model.RollInst Gen.RollTableGen Proofs.WordsFacts Proofs.RollingFacts.
Import ListNotations.

Lemma table_bounded : forallb (fun v => N.ltb v (2 ^ 64)) table = true.
Proof. vm_compute. reflexivity. Qed.

Lemma T1_bound : forall b, (T1 b < 2 ^ 64)%N.
Proof.
  intros b. unfold T1, tbl.
  destruct (nth_in_or_default (N.to_nat b) table 0%N) as [Hin|Hd].
  - pose proof table_bounded as Hb. rewrite forallb_forall in Hb.
    apply N.ltb_lt. apply Hb. exact Hin.
  - rewrite Hd. reflexivity.
Qed.

Lemma c_H_Hx : forall win : list N, length win <= 64 -> H T1 win = Hx T1 win.
Proof. exact (H_Hx T1 T1_bound). Qed.

Lemma c_rh_run_correct : forall (w : nat) (mask trig : N) (s : rh_state) (seen buf : list N),
  1 <= w <= 48 -> Inv T1 w s seen ->
  let '(s', off, v) := rh_run T1 s buf mask trig in
  (v, off) = run_spec T1 w mask trig seen buf /\ off <= length buf /\
  Inv T1 w s' (seen ++ firstn off buf).
Proof.
  intros w mask trig s seen buf Hw HI.
  apply (rh_run_correct T1 T1_bound w mask trig); try lia. exact HI.
Qed.

Lemma c_rh_reset_inv : forall (w : nat) (s : rh_state) (init_bytes : list N),
  1 <= w <= 48 -> rw s = w -> w <= length init_bytes ->
  Inv T1 w (rh_reset T1 s init_bytes) (firstn w init_bytes).
Proof. intros w s ib Hw. apply rh_reset_inv; lia. Qed.

Lemma c_run_stream_boundaries : forall (w : nat) (mask trig : N) (segs : list (list N)) (s : rh_state) (seen : list N),
  1 <= w <= 48 -> Inv T1 w s seen ->
  snd (run_stream T1 s segs 0 mask trig) = boundaries T1 w mask trig seen (concat segs) 0.
Proof.
  intros w mask trig segs s seen Hw HI.
  pose proof (run_stream_correct T1 T1_bound w mask trig ltac:(lia) ltac:(lia) segs s seen 0 HI) as R.
  destruct (run_stream T1 s segs 0 mask trig) as [s' bs]. cbn [snd]. apply R.
Qed.

Lemma c_split_independent : forall (w : nat) (mask trig : N) (segsA segsB : list (list N)) (s : rh_state) (seen : list N),
  1 <= w <= 48 -> Inv T1 w s seen -> concat segsA = concat segsB ->
  snd (run_stream T1 s segsA 0 mask trig) = snd (run_stream T1 s segsB 0 mask trig).
Proof.
  intros w mask trig A B s seen Hw HI E.
  apply (split_independent T1 T1_bound w mask trig ltac:(lia) ltac:(lia) A B s seen HI E).
Qed.

Lemma c_table_pinned : table = pinned_table.
Proof. vm_compute. reflexivity. Qed.

Lemma c_nonvacuous :
  let s := rh_reset T1 {| rw := 4; rhash := 0; rhist := [] |} [1;2;3;4]%N in
  Inv T1 4 s [1;2;3;4]%N /\
  snd (run_stream T1 s [[5;6;7]; [8;9;10;11;12]; []; [13;14;15;16]]%N 0 3 1) = [2; 5; 6; 12] /\
  snd (run_stream T1 s [[5;6;7;8;9;10;11;12;13;14;15;16]]%N 0 3 1) = [2; 5; 6; 12].
Proof.
  split; [|split; vm_compute; reflexivity].
  apply (c_rh_reset_inv 4 _ [1;2;3;4]%N); cbn; lia.
Qed.
