(* C20: non-interference of the GCM streaming model in the junk left in partial_block_enc_key
   by init, of the rolling hash in the state before init+reset, and the output-buffer
   convention.  For every block cipher E, hash key H, family policy defer, direction. *)
From Coq Require Import NArith List Arith Bool Lia.
From ISAL Require Import Base.Words Base.ListUtil Spec.Rolling Model.GcmStream Model.RollRun Model.JunkMisc.
Import ListNotations.

(* ---- GCM -------------------------------------------------------------------------------- *)

Definition grel (c1 c2 : gcm_ctx) : Prop :=
  aad_hash c1 = aad_hash c2 /\ aad_length c1 = aad_length c2 /\ in_length c1 = in_length c2 /\
  orig_IV c1 = orig_IV c2 /\ cur_counter c1 = cur_counter c2 /\ pb_len c1 = pb_len c2 /\
  (pb_len c1 <> 0 -> pb_enc_key c1 = pb_enc_key c2).

Lemma grel_refl c : grel c c.
Proof. unfold grel; auto 10. Qed.

Lemma grel_open c1 c2 : grel c1 c2 -> pb_len c1 <> 0 -> c1 = c2.
Proof.
  destruct c1, c2. unfold grel; cbn. intros (-> & -> & -> & -> & -> & -> & Hk) Hn.
  rewrite (Hk Hn). reflexivity.
Qed.

Lemma grel_api c1 c2 : grel c1 c2 -> gcm_ctx_api c1 = gcm_ctx_api c2.
Proof.
  intros H. pose proof H as (E1 & E2 & E3 & E4 & E5 & E6 & Hk). unfold gcm_ctx_api.
  rewrite E1, E2, E3, E4, E5, <- E6. destruct (pb_len c1) eqn:Ep; [reflexivity|].
  rewrite Hk by discriminate. reflexivity.
Qed.

Lemma grel_init H iv aad j1 j2 : grel (gcm_init_mem H iv aad j1) (gcm_init_mem H iv aad j2).
Proof.
  unfold grel, gcm_init_mem, with_pbek, gcm_init; cbn. repeat split; try reflexivity.
  intros X; contradiction X; reflexivity.
Qed.

Section Gcm.
Variable E : list N -> list N.
Variable H : list N.
Variable defer : nat -> bool.
Variable enc : bool.

Lemma partial_block_rel c1 c2 data :
  grel c1 c2 ->
  grel (fst (fst (gcm_partial_block H enc c1 data))) (fst (fst (gcm_partial_block H enc c2 data))) /\
  snd (fst (gcm_partial_block H enc c1 data)) = snd (fst (gcm_partial_block H enc c2 data)) /\
  snd (gcm_partial_block H enc c1 data) = snd (gcm_partial_block H enc c2 data).
Proof.
  intros R. destruct (Nat.eq_dec (pb_len c1) 0) as [Z|NZ].
  - pose proof R as (_ & _ & _ & _ & _ & E6 & _). unfold gcm_partial_block.
    rewrite <- E6, Z. cbn [fst snd]. auto.
  - rewrite (grel_open _ _ R NZ). split; [apply grel_refl|auto].
Qed.

Lemma main_rel c1 c2 rest :
  grel c1 c2 ->
  grel (fst (gcm_main E H defer enc c1 rest)) (fst (gcm_main E H defer enc c2 rest)) /\
  snd (gcm_main E H defer enc c1 rest) = snd (gcm_main E H defer enc c2 rest).
Proof.
  intros (E1 & E2 & E3 & E4 & E5 & E6 & Hk). unfold gcm_main.
  rewrite E1, E2, E3, E4, E5, E6.
  destruct (gcm_bulk E H enc _ _ _) as [o [ctr y]].
  destruct (skipn _ rest); cbn [fst snd]; (split; [|reflexivity]);
    unfold grel; cbn; repeat split; try reflexivity.
  rewrite <- E6. exact Hk.
Qed.

Lemma update_rel c1 c2 data :
  grel c1 c2 ->
  grel (fst (gcm_update E H defer enc c1 data)) (fst (gcm_update E H defer enc c2 data)) /\
  snd (gcm_update E H defer enc c1 data) = snd (gcm_update E H defer enc c2 data).
Proof.
  intros R. unfold gcm_update. destruct data as [|d0 dr]; [cbn [fst snd]; auto|].
  set (data := d0 :: dr).
  assert (R1 : grel (mk_gcm_ctx (aad_hash c1) (aad_length c1) (add64 (in_length c1) (N.of_nat (length data)))
                                (pb_enc_key c1) (orig_IV c1) (cur_counter c1) (pb_len c1))
                    (mk_gcm_ctx (aad_hash c2) (aad_length c2) (add64 (in_length c2) (N.of_nat (length data)))
                                (pb_enc_key c2) (orig_IV c2) (cur_counter c2) (pb_len c2))).
  { destruct R as (E1 & E2 & E3 & E4 & E5 & E6 & Hk). unfold grel; cbn. rewrite E1, E2, E3, E4, E5, E6.
    repeat split; try reflexivity. rewrite <- E6. exact Hk. }
  destruct (partial_block_rel _ _ data R1) as (R2 & Eo & Er).
  destruct (gcm_partial_block H enc _ data) as [[p1 o1] r1].
  destruct (gcm_partial_block H enc _ data) as [[p2 o2] r2]. cbn [fst snd] in *. subst o2 r2.
  destruct (main_rel _ _ r1 R2) as (R3 & Em).
  destruct (gcm_main E H defer enc p1 r1) as [q1 m1], (gcm_main E H defer enc p2 r1) as [q2 m2].
  cbn [fst snd] in *. subst m2. auto.
Qed.

Lemma updates_rel : forall segs c1 c2,
  grel c1 c2 ->
  grel (fst (gcm_updates E H defer enc c1 segs)) (fst (gcm_updates E H defer enc c2 segs)) /\
  snd (gcm_updates E H defer enc c1 segs) = snd (gcm_updates E H defer enc c2 segs).
Proof.
  induction segs as [|s r IH]; intros c1 c2 R; cbn [gcm_updates]; [cbn [fst snd]; auto|].
  destruct (update_rel _ _ s R) as (R1 & Eo).
  destruct (gcm_update E H defer enc c1 s) as [d1 o1], (gcm_update E H defer enc c2 s) as [d2 o2].
  cbn [fst snd] in *. subst o2.
  destruct (IH _ _ R1) as (R2 & Eo2).
  destruct (gcm_updates E H defer enc d1 r) as [e1 p1], (gcm_updates E H defer enc d2 r) as [e2 p2].
  cbn [fst snd] in *. subst p2. auto.
Qed.

Lemma trace_rel : forall segs c1 c2,
  grel c1 c2 ->
  map (fun co => (gcm_ctx_api (fst co), snd co)) (gcm_trace_updates E H defer enc c1 segs) =
  map (fun co => (gcm_ctx_api (fst co), snd co)) (gcm_trace_updates E H defer enc c2 segs).
Proof.
  induction segs as [|s r IH]; intros c1 c2 R; cbn [gcm_trace_updates]; [reflexivity|].
  destruct (update_rel _ _ s R) as (R1 & Eo).
  destruct (gcm_update E H defer enc c1 s) as [d1 o1], (gcm_update E H defer enc c2 s) as [d2 o2].
  cbn [fst snd map] in *. subst o2. rewrite (grel_api _ _ R1). f_equal. apply IH. exact R1.
Qed.

Lemma finalize_rel c1 c2 tag_len :
  grel c1 c2 -> snd (gcm_finalize E H c1 tag_len) = snd (gcm_finalize E H c2 tag_len).
Proof.
  intros (E1 & E2 & E3 & E4 & E5 & E6 & _). unfold gcm_finalize. cbn [snd].
  rewrite E1, E2, E3, E4, E6. reflexivity.
Qed.

(* a whole session is independent of what partial_block_enc_key held at init *)
Theorem gcm_session_noninterference iv aad j1 j2 segs tag_len :
  gcm_session E H defer enc (gcm_init_mem H iv aad j1) segs tag_len =
  gcm_session E H defer enc (gcm_init_mem H iv aad j2) segs tag_len.
Proof.
  unfold gcm_session. pose proof (grel_init H iv aad j1 j2) as R.
  rewrite (trace_rel segs _ _ R).
  destruct (updates_rel segs _ _ R) as (R2 & _).
  rewrite (finalize_rel _ _ tag_len R2). reflexivity.
Qed.

End Gcm.

(* init leaves nothing else undefined: the API-defined image right after init *)
Theorem gcm_init_defines_ctx H iv aad j1 j2 :
  gcm_ctx_api (gcm_init_mem H iv aad j1) = gcm_ctx_api (gcm_init_mem H iv aad j2).
Proof. apply grel_api, grel_init. Qed.

(* ---- rolling hash ----------------------------------------------------------------------- *)

Theorem rh_start_noninterference T1 jh1 jl1 jh2 jl2 w init_bytes :
  rh_start T1 jh1 jl1 w init_bytes = rh_start T1 jh2 jl2 w init_bytes.
Proof.
  unfold rh_start, rh_init. destruct (max_window <? w); reflexivity.
Qed.

(* hence every later observation (offsets, verdicts, boundaries, final state) coincides *)
Corollary rh_stream_noninterference T1 jh1 jl1 jh2 jl2 w init_bytes segs mask trig :
  option_map (fun s => run_stream T1 s segs 0 mask trig) (rh_start T1 jh1 jl1 w init_bytes) =
  option_map (fun s => run_stream T1 s segs 0 mask trig) (rh_start T1 jh2 jl2 w init_bytes).
Proof. rewrite (rh_start_noninterference T1 jh1 jl1 jh2 jl2). reflexivity. Qed.

(* ---- output buffers --------------------------------------------------------------------- *)

(* the produced bytes do not depend on what the buffer held, and nothing beyond them changes *)
Theorem write_out_prefix prefill out : firstn (length out) (write_out prefill out) = out.
Proof.
  unfold write_out. rewrite firstn_app, Nat.sub_diag, firstn_all. cbn. apply app_nil_r.
Qed.

Theorem write_out_tail prefill out :
  skipn (length out) (write_out prefill out) = skipn (length out) prefill.
Proof.
  unfold write_out. rewrite skipn_app, Nat.sub_diag, skipn_all. reflexivity.
Qed.

Theorem write_out_noninterference p1 p2 out :
  firstn (length out) (write_out p1 out) = firstn (length out) (write_out p2 out).
Proof. rewrite !write_out_prefix. reflexivity. Qed.
