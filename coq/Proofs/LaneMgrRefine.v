(* L6, manager level: the lane manager of Model/LaneMgr.v is an instance of the ABSTRACT manager
   of Model/HashCtx.v (mgr_submit / mgr_flush over an arbitrary scheduling oracle): for every
   history of manager calls there is an oracle - the positions, in submission order, of the jobs
   the lane manager hands back - under which the abstract manager returns the same context at
   every call with the same finished chaining value written to it. *)
From Coq Require Import NArith List Arith Bool Lia ZifyBool ZifyNat ZifyN Permutation.
From ISAL Require Import Base.Words Base.ListUtil Spec.MD Model.HashCtx Model.HashCfg Model.LaneMgr
     Proofs.LaneMgrBits Proofs.LaneMgrLists Proofs.LaneMgrInv.
Import ListNotations.

Section Refine.
Variable A : algo.
Variable K : nat.
Variable F : family_cfg.
Hypothesis Hwf : cfg_wf F = true.
Hypothesis HK : f_nlanes F < K.

Local Notation cmp := (a_compress A).

(* the abstract manager driven by manager-level calls *)
Definition astep (sched : nat -> list nat -> option nat) (s : st) (o : mop) : st * option nat :=
  match o with MSubmit j => mgr_submit A K sched s j | MFlush => mgr_flush A sched s end.

(* what the caller of the abstract manager finds: the context handed back and its digest *)
Definition view (s' : st) (r : option nat) : result :=
  match r with None => RNull | Some cid => RJob cid (c_digest (getc A s' cid)) end.

Fixpoint arun (sched : nat -> list nat -> option nat) (s : st) (ops : list mop) : st * list result :=
  match ops with
  | [] => (s, [])
  | o :: r => let '(s1, x) := astep sched s o in
              let '(s2, xs) := arun sched s1 r in (s2, view s1 x :: xs)
  end.

(* the oracle says [lg] from tick t on *)
Definition agrees (sched : nat -> list nat -> option nat) (t : nat) (lg : list (option nat)) : Prop :=
  forall k ids, k < length lg -> sched (t + k) ids = nth k lg None.

Lemma agrees_app sched t a b : agrees sched t (a ++ b) -> agrees sched t a /\ agrees sched (t + length a) b.
Proof.
  intros H. split; intros k ids Hk.
  - rewrite H by (rewrite app_length; lia). apply app_nth1. assumption.
  - replace (t + length a + k) with (t + (length a + k)) by lia.
    rewrite H by (rewrite app_length; lia). rewrite app_nth2 by lia. f_equal. lia.
Qed.

Definition SimM (s : st) (m : mgr) : Prop :=
  MRel cmp F (held s) m /\ Forall (fun j => j_ctx j < length (ctxs s)) (held s).

Definition mop_in (n : nat) (o : mop) : Prop := match o with MSubmit j => j_ctx j < n | MFlush => True end.

Lemma held_bound held m : f_immediate F = false -> MRel cmp F held m -> length held < f_nlanes F.
Proof.
  intros Hi HR. unfold MRel in HR. rewrite Hi in HR. destruct HR as [ls [st HR]].
  pose proof (cfg_wf_facts F Hwf Hi) as HW.
  destruct (rel_invariant cmp F held ls st m HW HR) as [_ [_ [_ [Hc [Hl _]]]]].
  destruct HR as [_ Hfree]. lia.
Qed.

Lemma hand_back_at s p jr : nth_error (held s) p = Some jr -> j_ctx jr < length (ctxs s) ->
  exists s', hand_back A s p = (s', Some (j_ctx jr)) /\ held s' = remove_nth p (held s) /\
             tick s' = S (tick s) /\ length (ctxs s') = length (ctxs s) /\
             c_digest (getc A s' (j_ctx jr)) = jfinish cmp jr /\
             ctxs s' = upd (j_ctx jr) (set_digest (getc A s (j_ctx jr)) (jfinish cmp jr)) (ctxs s).
Proof.
  intros Hp Hc. unfold hand_back. rewrite Hp. eexists. split; [reflexivity|].
  cbn [held tick ctxs]. split; [reflexivity|]. split; [reflexivity|]. split; [apply lm_length_upd|].
  split; [|reflexivity].
  unfold getc. cbn [ctxs]. rewrite lm_nth_upd_eq by assumption. reflexivity.
Qed.

(* the contexts after a manager call: the one handed back has its digest written *)
Definition ctxs_after (s : st) (s' : st) (r : option nat) : Prop :=
  ctxs s' = match r with
            | None => ctxs s
            | Some id => upd id (set_digest (getc A s id) (c_digest (getc A s' id))) (ctxs s)
            end.

Lemma Forall_remove_nth {X} (P : X -> Prop) l p : Forall P l -> Forall P (remove_nth p l).
Proof.
  intros H. apply Forall_forall. intros x Hx. apply lm_In_remove_nth in Hx.
  rewrite Forall_forall in H. apply H. assumption.
Qed.

Lemma sim_mstep s m o : SimM s m -> mop_ok F o -> mop_in (length (ctxs s)) o ->
  exists lg s' m' r, lm_step cmp F m o = (m', view s' r) /\
     SimM s' m' /\ tick s' = tick s + length lg /\ length (ctxs s') = length (ctxs s) /\
     ctxs_after s s' r /\
     forall sched, agrees sched (tick s) lg -> astep sched s o = (s', r).
Proof.
  intros [HR Hids] Hok Hin.
  destruct (MRel_step cmp F (held s) m o Hwf HR Hok) as [m' [r [Hs Hcase]]].
  destruct Hcase as [[-> [HR' Hfl]] | [p [jr [Hp [-> HR']]]]].
  - destruct o as [j|].
    + (* submit kept the job *)
      assert (Hi : f_immediate F = false).
      { destruct (f_immediate F) eqn:E; [|reflexivity]. unfold MRel in HR'. rewrite E in HR'. destruct HR' as [HR' _]. destruct (held s); discriminate. }
      pose proof (held_bound _ _ Hi HR') as Hb.
      exists [None], {| ctxs := ctxs s; held := held s ++ [j]; tick := S (tick s) |}, m', None.
      split; [exact Hs|]. split; [|split; [cbn; lia|split; [reflexivity|split; [reflexivity|]]]].
      * split; cbn [held ctxs]; [assumption|]. apply Forall_app. split; [assumption|]. constructor; [exact Hin|constructor].
      * intros sched Hag. cbn [astep]. unfold mgr_submit, choose. cbn [held tick ctxs].
        rewrite <- (Nat.add_0_r (tick s)), (Hag 0) by (cbn; lia). cbn [nth].
        replace (K <=? length (held s ++ [j])) with false by (symmetry; apply Nat.leb_gt; lia).
        rewrite Nat.add_0_r. reflexivity.
    + destruct (Hfl eq_refl) as [Hh ->]. exists [], s, m, None.
      split; [exact Hs|]. split; [split; assumption|]. split; [cbn; lia|]. split; [reflexivity|]. split; [reflexivity|].
      intros sched _. cbn [astep]. unfold mgr_flush. rewrite Hh. reflexivity.
  - destruct o as [j|].
    + set (s1 := {| ctxs := ctxs s; held := held s ++ [j]; tick := tick s |}).
      assert (Hids1 : Forall (fun j0 => j_ctx j0 < length (ctxs s1)) (held s1)).
      { cbn [held ctxs s1]. apply Forall_app. split; [assumption|]. constructor; [exact Hin|constructor]. }
      assert (Hc : j_ctx jr < length (ctxs s1)).
      { rewrite Forall_forall in Hids1. apply Hids1. eapply nth_error_In. exact Hp. }
      destruct (hand_back_at s1 p jr Hp Hc) as [s' [Hhb [Hheld [Htick [Hlen [Hdig Hctx]]]]]].
      exists [Some p], s', m', (Some (j_ctx jr)).
      split; [cbn [view]; rewrite Hdig; exact Hs|].
      split; [|split; [cbn [tick s1 length] in *; lia|split; [exact Hlen|split; [unfold ctxs_after; rewrite Hdig; exact Hctx|]]]].
      * split; [rewrite Hheld; exact HR'|]. rewrite Hheld, Hlen. apply Forall_remove_nth. exact Hids1.
      * intros sched Hag. cbn [astep]. unfold mgr_submit, choose. fold s1. cbn [held tick s1].
        rewrite <- (Nat.add_0_r (tick s)), (Hag 0) by (cbn; lia). cbn [nth].
        assert (Hlt : (p <? length (held s ++ [j])) = true).
        { apply Nat.ltb_lt. apply nth_error_Some. cbn [held s1] in Hp. rewrite Hp. discriminate. }
        rewrite Hlt. exact Hhb.
    + assert (Hc : j_ctx jr < length (ctxs s)).
      { rewrite Forall_forall in Hids. apply Hids. eapply nth_error_In. exact Hp. }
      destruct (hand_back_at s p jr Hp Hc) as [s' [Hhb [Hheld [Htick [Hlen [Hdig Hctx]]]]]].
      exists [Some p], s', m', (Some (j_ctx jr)).
      split; [cbn [view]; rewrite Hdig; exact Hs|].
      split; [|split; [cbn [length]; lia|split; [exact Hlen|split; [unfold ctxs_after; rewrite Hdig; exact Hctx|]]]].
      * split; [rewrite Hheld; exact HR'|]. rewrite Hheld, Hlen. apply Forall_remove_nth. exact Hids.
      * intros sched Hag. cbn [astep]. unfold mgr_flush, choose.
        rewrite <- (Nat.add_0_r (tick s)), (Hag 0) by (cbn; lia). cbn [nth].
        assert (Hlt : (p <? length (held s)) = true).
        { apply Nat.ltb_lt. apply nth_error_Some. rewrite Hp. discriminate. }
        rewrite Hlt. destruct (held s) as [|h0 hr] eqn:Hh; [destruct p; discriminate|]. exact Hhb.
Qed.

Lemma sim_mrun ops : forall s m, SimM s m -> Forall (mop_ok F) ops -> Forall (mop_in (length (ctxs s))) ops ->
  exists lg, forall sched, agrees sched (tick s) lg ->
    snd (arun sched s ops) = snd (lm_run cmp F m ops).
Proof.
  induction ops as [|o ops IH]; intros s m HS Hok Hin.
  - exists []. intros. reflexivity.
  - inversion Hok as [|? ? Ho Hops]. inversion Hin as [|? ? Hi Hins]. subst.
    destruct (sim_mstep s m o HS Ho Hi) as [lg1 [s1 [m1 [r1 [Hc1 [HS1 [Ht1 [Hl1 [_ Ha1]]]]]]]]].
    destruct (IH s1 m1 HS1 Hops) as [lg2 H2].
    { rewrite Hl1. assumption. }
    exists (lg1 ++ lg2). intros sched Hag. apply agrees_app in Hag. destruct Hag as [Hag1 Hag2].
    cbn [arun lm_run]. rewrite (Ha1 sched Hag1), Hc1.
    rewrite <- Ht1 in Hag2. specialize (H2 sched Hag2).
    destruct (arun sched s1 ops) as [s2 xs]. destruct (lm_run cmp F m1 ops) as [m2 ys]. cbn [snd] in *.
    f_equal. assumption.
Qed.

(* L6 at the manager level *)
Theorem lanes_refine_abstract_mgr (cs : list ctx) (ops : list mop) :
  Forall (mop_ok F) ops -> Forall (mop_in (length cs)) ops ->
  exists sched, snd (arun sched (mgr_init cs) ops) = snd (lm_run cmp F (lm_init F) ops).
Proof.
  intros Hok Hin.
  destruct (sim_mrun ops (mgr_init cs) (lm_init F)) as [lg H]; try assumption.
  - split; [apply MRel_init; assumption|constructor].
  - exists (fun t _ => nth t lg None). apply H. intros k ids _. reflexivity.
Qed.

End Refine.
