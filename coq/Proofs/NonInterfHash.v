(* C20, hash context layer: non-interference of the model in the junk a context held before
   isal_hash_ctx_init.  Relational invariant: the two runs have the same manager (held jobs,
   tick), and context by context either identical states, or — for a context that has not
   been started — states that agree on what isal_hash_ctx_init defines (status = COMPLETE,
   error) and on the partial block buffer.  Every operation of the model preserves it, for
   every algorithm, manager capacity and scheduling oracle. *)
From Coq Require Import NArith List Arith Bool Lia.
From ISAL Require Import Base.Words Base.ListUtil Spec.MD Model.HashCtx Model.JunkHash Proofs.ChunkFacts.
Import ListNotations.

Section NonInterf.
Variable A : algo.
Variable K : nat.
Variable sched : nat -> list nat -> option nat.

Notation getc := (getc A).
Notation dflt := (dflt_ctx A).

Definition fresh2 (c1 c2 : ctx) : Prop :=
  c_status c1 = STS_COMPLETE /\ c_status c2 = STS_COMPLETE /\ c_error c1 = c_error c2 /\
  c_pbuf c1 = c_pbuf c2.

(* b = has this context been started *)
Definition crel (b : bool) (c1 c2 : ctx) : Prop := c1 = c2 \/ (b = false /\ fresh2 c1 c2).

Definition SR (b : list bool) (s1 s2 : st) : Prop :=
  held s1 = held s2 /\ tick s1 = tick s2 /\ length (ctxs s1) = length (ctxs s2) /\
  forall i, crel (nth i b false) (getc s1 i) (getc s2 i).

Lemma crel_refl b c : crel b c c.
Proof. left; reflexivity. Qed.

Lemma crel_error b c1 c2 : crel b c1 c2 -> c_error c1 = c_error c2.
Proof. intros [->|(_ & _ & _ & E & _)]; [reflexivity|exact E]. Qed.

Lemma crel_status b c1 c2 : crel b c1 c2 -> c_status c1 = c_status c2.
Proof. intros [->|(_ & S1 & S2 & _)]; [reflexivity|congruence]. Qed.

Lemma crel_started c1 c2 : crel true c1 c2 -> c1 = c2.
Proof. intros [E|(E & _)]; [exact E|discriminate]. Qed.

Lemma crel_set_digest b c1 c2 d : crel b c1 c2 -> crel b (set_digest c1 d) (set_digest c2 d).
Proof.
  intros [->|(Hb & S1 & S2 & E & P)]; [left; reflexivity|].
  right. split; [exact Hb|]. unfold fresh2, set_digest; cbn. auto.
Qed.

Lemma crel_set_error b c1 c2 e : crel b c1 c2 -> crel b (set_error c1 e) (set_error c2 e).
Proof.
  intros [->|(Hb & S1 & S2 & E & P)]; [left; reflexivity|].
  right. split; [exact Hb|]. unfold fresh2, set_error; cbn. auto.
Qed.

(* ---- getc / setc ---------------------------------------------------------------------- *)

Lemma getc_oob (s : st) i : length (ctxs s) <= i -> getc s i = dflt.
Proof. intros H. unfold HashCtx.getc. apply nth_overflow. exact H. Qed.

Lemma getc_setc_eq (s : st) i c : i < length (ctxs s) -> getc (setc s i c) i = c.
Proof. intros H. unfold HashCtx.getc, setc; cbn [ctxs]. apply nth_upd_eq. exact H. Qed.

Lemma getc_setc_neq (s : st) i j c : i <> j -> getc (setc s i c) j = getc s j.
Proof. intros H. unfold HashCtx.getc, setc; cbn [ctxs]. apply nth_upd_neq. exact H. Qed.

Lemma getc_setc_oob (s : st) i c : length (ctxs s) <= i -> getc (setc s i c) i = dflt.
Proof. intros H. apply getc_oob. unfold setc; cbn [ctxs]. rewrite length_upd. exact H. Qed.

Lemma SR_len b s1 s2 : SR b s1 s2 -> length (ctxs s1) = length (ctxs s2).
Proof. intros (_ & _ & L & _); exact L. Qed.

Lemma SR_get b s1 s2 i : SR b s1 s2 -> crel (nth i b false) (getc s1 i) (getc s2 i).
Proof. intros (_ & _ & _ & H); apply H. Qed.

Lemma SR_setc b s1 s2 i c1 c2 :
  SR b s1 s2 -> crel (nth i b false) c1 c2 -> SR b (setc s1 i c1) (setc s2 i c2).
Proof.
  intros (Hh & Ht & Hl & Hc) Hr. unfold SR. cbn [setc held tick ctxs].
  rewrite !length_upd. repeat split; try assumption.
  intros j. destruct (Nat.eq_dec i j) as [<-|Hn].
  - destruct (Nat.lt_ge_cases i (length (ctxs s1))) as [Hi|Hi].
    + rewrite getc_setc_eq by exact Hi. rewrite getc_setc_eq by (rewrite <- Hl; exact Hi). exact Hr.
    + rewrite getc_setc_oob by exact Hi. rewrite getc_setc_oob by (rewrite <- Hl; exact Hi). apply crel_refl.
  - rewrite !getc_setc_neq by exact Hn. apply Hc.
Qed.

(* marking a context started keeps the relation provided that context is now identical *)
Lemma SR_mark b s1 s2 i : SR b s1 s2 -> getc s1 i = getc s2 i -> SR (upd i true b) s1 s2.
Proof.
  intros (Hh & Ht & Hl & Hc) He. repeat split; try assumption.
  intros j. destruct (Nat.eq_dec i j) as [<-|Hn].
  - left; exact He.
  - rewrite nth_upd_neq by exact Hn. apply Hc.
Qed.

(* ---- the abstract manager --------------------------------------------------------------- *)

Lemma hand_back_rel b s1 s2 i :
  SR b s1 s2 ->
  SR b (fst (hand_back A s1 i)) (fst (hand_back A s2 i)) /\
  snd (hand_back A s1 i) = snd (hand_back A s2 i).
Proof.
  intros H. pose proof H as (Hh & Ht & Hl & Hc). unfold hand_back. rewrite <- Hh.
  destruct (nth_error (held s1) i) as [j|]; cbn [fst snd]; [|split; [exact H|reflexivity]].
  split; [|reflexivity].
  pose proof (SR_setc b s1 s2 (j_ctx j) _ _ H (crel_set_digest _ _ _ (finish A j) (Hc (j_ctx j)))) as H2.
  destruct H2 as (_ & _ & Hl2 & Hc2). unfold SR. cbn [held tick ctxs].
  rewrite Ht. split; [reflexivity|]. split; [reflexivity|]. split; [exact Hl2|].
  intros k. exact (Hc2 k).
Qed.

Lemma choose_rel b s1 s2 : SR b s1 s2 -> choose sched s1 = choose sched s2.
Proof. intros (Hh & Ht & _). unfold choose. rewrite Hh, Ht. reflexivity. Qed.

Lemma SR_with_held b s1 s2 h t :
  SR b s1 s2 ->
  SR b {| ctxs := ctxs s1; held := h; tick := t |} {| ctxs := ctxs s2; held := h; tick := t |}.
Proof. intros (_ & _ & Hl & Hc). repeat split; try assumption. Qed.

Lemma mgr_submit_rel b s1 s2 j :
  SR b s1 s2 ->
  SR b (fst (mgr_submit A K sched s1 j)) (fst (mgr_submit A K sched s2 j)) /\
  snd (mgr_submit A K sched s1 j) = snd (mgr_submit A K sched s2 j).
Proof.
  intros H. pose proof H as (Hh & Ht & _). unfold mgr_submit.
  pose proof (SR_with_held b s1 s2 (held s1 ++ [j]) (tick s1) H) as H1.
  rewrite <- Hh, <- Ht.
  rewrite (choose_rel b _ _ H1).
  destruct (choose sched _) as [i|].
  - apply hand_back_rel. exact H1.
  - cbn [held]. destruct (K <=? length (held s1 ++ [j])).
    + apply hand_back_rel. exact H1.
    + cbn [fst snd ctxs held tick]. split; [|reflexivity].
      apply (SR_with_held b s1 s2 (held s1 ++ [j]) (S (tick s1)) H).
Qed.

Lemma mgr_flush_rel b s1 s2 :
  SR b s1 s2 ->
  SR b (fst (mgr_flush A sched s1)) (fst (mgr_flush A sched s2)) /\
  snd (mgr_flush A sched s1) = snd (mgr_flush A sched s2).
Proof.
  intros H. pose proof H as (Hh & _). unfold mgr_flush. rewrite <- Hh.
  destruct (held s1) eqn:E; [split; [exact H|reflexivity]|].
  rewrite (choose_rel b _ _ H). destruct (choose sched s2); apply hand_back_rel; exact H.
Qed.

Lemma submit_job_rel b s1 s2 cid blocks :
  SR b s1 s2 -> getc s1 cid = getc s2 cid ->
  SR b (fst (submit_job A K sched s1 cid blocks)) (fst (submit_job A K sched s2 cid blocks)) /\
  snd (submit_job A K sched s1 cid blocks) = snd (submit_job A K sched s2 cid blocks).
Proof. intros H E. unfold submit_job. rewrite E. apply mgr_submit_rel. exact H. Qed.

(* ---- the context layer ---------------------------------------------------------------- *)

Lemma ctx_next_rel b c1 c2 :
  crel b c1 c2 ->
  snd (ctx_next A c1) = snd (ctx_next A c2) /\ crel b (fst (ctx_next A c1)) (fst (ctx_next A c2)) /\
  (snd (ctx_next A c1) <> None -> fst (ctx_next A c1) = fst (ctx_next A c2)).
Proof.
  intros [->|(Hb & S1 & S2 & E & P)]; [split; [reflexivity|split; [apply crel_refl|reflexivity]]|].
  unfold ctx_next. rewrite S1, S2.
  change (has STS_COMPLETE STS_COMPLETE) with true. cbn [fst snd].
  split; [reflexivity|]. split; [|intros X; contradiction X; reflexivity].
  right. split; [exact Hb|]. unfold fresh2, set_status, set_digest; cbn. auto.
Qed.

Lemma setc_same_get (s1 s2 : st) cid c :
  length (ctxs s1) = length (ctxs s2) -> getc (setc s1 cid c) cid = getc (setc s2 cid c) cid.
Proof.
  intros Hl. destruct (Nat.lt_ge_cases cid (length (ctxs s1))) as [Hi|Hi].
  - rewrite getc_setc_eq by exact Hi. rewrite getc_setc_eq by (rewrite <- Hl; exact Hi). reflexivity.
  - rewrite getc_setc_oob by exact Hi. rewrite getc_setc_oob by (rewrite <- Hl; exact Hi). reflexivity.
Qed.

Lemma resubmit_rel b : forall fuel s1 s2 cur,
  SR b s1 s2 ->
  SR b (fst (resubmit A K sched fuel s1 cur)) (fst (resubmit A K sched fuel s2 cur)) /\
  snd (resubmit A K sched fuel s1 cur) = snd (resubmit A K sched fuel s2 cur).
Proof.
  induction fuel as [|f IH]; intros s1 s2 cur H.
  - destruct cur; cbn [resubmit fst snd]; split; (exact H || reflexivity).
  - destruct cur as [cid|]; cbn [resubmit]; [|cbn [fst snd]; split; [exact H|reflexivity]].
    destruct (ctx_next_rel _ _ _ (SR_get b s1 s2 cid H)) as (Es & Ec & Ee).
    destruct (ctx_next A (getc s1 cid)) as [c1' [bl1|]], (ctx_next A (getc s2 cid)) as [c2' [bl2|]];
      cbn [fst snd] in *; try discriminate.
    + injection Es as <-. assert (c1' = c2') as <- by (apply Ee; discriminate).
      pose proof (SR_setc b s1 s2 cid c1' c1' H (crel_refl _ _)) as H2.
      destruct (submit_job_rel b _ _ cid bl1 H2 (setc_same_get s1 s2 cid c1' (SR_len _ _ _ H))) as (H3 & E3).
      destruct (submit_job A K sched (setc s1 cid c1') cid bl1) as [t1 r1],
               (submit_job A K sched (setc s2 cid c1') cid bl1) as [t2 r2]. cbn [fst snd] in *. subst r2.
      apply IH. exact H3.
    + split; [|reflexivity]. apply SR_setc; assumption.
Qed.

Lemma fuel_for_rel b s1 s2 : SR b s1 s2 -> fuel_for s1 = fuel_for s2.
Proof. intros (Hh & _). unfold fuel_for. rewrite Hh. reflexivity. Qed.

(* verdicts: identical for identical contexts; for a fresh pair both reject with the same
   error, or both accept (necessarily with FIRST) and produce the SAME context and job *)
Lemma ctx_accept_rel b c1 c2 buf flags :
  crel b c1 c2 -> ctx_accept A c1 buf flags = ctx_accept A c2 buf flags.
Proof.
  intros [->|(Hb & S1 & S2 & E & P)]; [reflexivity|].
  unfold ctx_accept. rewrite S1, S2, P.
  change (has STS_COMPLETE STS_PROCESSING) with false.
  change (has STS_COMPLETE STS_COMPLETE) with true.
  destruct (negb (N.land flags (N.lnot FLAG_ENTIRE 32) =? 0)%N); [reflexivity|].
  destruct (has flags FLAG_FIRST); reflexivity.
Qed.

Lemma ctx_submit_rel b s1 s2 cid buf flags :
  SR b s1 s2 ->
  let b' := mark b (accepted A s1 (Submit cid buf flags)) in
  accepted A s1 (Submit cid buf flags) = accepted A s2 (Submit cid buf flags) /\
  SR b' (fst (ctx_submit A K sched s1 cid buf flags)) (fst (ctx_submit A K sched s2 cid buf flags)) /\
  snd (ctx_submit A K sched s1 cid buf flags) = snd (ctx_submit A K sched s2 cid buf flags).
Proof.
  intros H. cbn zeta. unfold accepted, ctx_submit.
  pose proof (ctx_accept_rel _ _ _ buf flags (SR_get b s1 s2 cid H)) as Ev. rewrite <- Ev.
  destruct (ctx_accept A (getc s1 cid) buf flags) as [e|c' [blocks|]]; cbn [mark].
  - split; [reflexivity|]. cbn [fst snd]. split; [|reflexivity].
    apply SR_setc; [exact H|]. apply crel_set_error. apply (SR_get b s1 s2 cid H).
  - split; [reflexivity|].
    pose proof (SR_setc b s1 s2 cid c' c' H (crel_refl _ _)) as H2.
    pose proof (SR_mark b _ _ cid H2 (setc_same_get s1 s2 cid c' (SR_len _ _ _ H))) as H3.
    destruct (submit_job_rel _ _ _ cid blocks H3 (setc_same_get s1 s2 cid c' (SR_len _ _ _ H))) as (H4 & E4).
    destruct (submit_job A K sched (setc s1 cid c') cid blocks) as [t1 r1],
             (submit_job A K sched (setc s2 cid c') cid blocks) as [t2 r2]. cbn [fst snd] in *. subst r2.
    rewrite (fuel_for_rel _ _ _ H4). apply resubmit_rel. exact H4.
  - split; [reflexivity|].
    pose proof (SR_setc b s1 s2 cid c' c' H (crel_refl _ _)) as H2.
    pose proof (SR_mark b _ _ cid H2 (setc_same_get s1 s2 cid c' (SR_len _ _ _ H))) as H3.
    rewrite (fuel_for_rel _ _ _ H). apply resubmit_rel. exact H3.
Qed.

Lemma ctx_flush_f_rel b : forall fuel s1 s2,
  SR b s1 s2 ->
  SR b (fst (ctx_flush_f A K sched fuel s1)) (fst (ctx_flush_f A K sched fuel s2)) /\
  snd (ctx_flush_f A K sched fuel s1) = snd (ctx_flush_f A K sched fuel s2).
Proof.
  induction fuel as [|f IH]; intros s1 s2 H; cbn [ctx_flush_f].
  - cbn [fst snd]. split; [exact H|reflexivity].
  - destruct (mgr_flush_rel b s1 s2 H) as (H1 & E1).
    destruct (mgr_flush A sched s1) as [t1 r1], (mgr_flush A sched s2) as [t2 r2]. cbn [fst snd] in *. subst r2.
    destruct r1 as [cid|]; [|cbn [fst snd]; split; [exact H1|reflexivity]].
    rewrite (fuel_for_rel _ _ _ H1).
    destruct (resubmit_rel b (fuel_for t2) t1 t2 (Some cid) H1) as (H2 & E2).
    destruct (resubmit A K sched (fuel_for t2) t1 (Some cid)) as [u1 o1],
             (resubmit A K sched (fuel_for t2) t2 (Some cid)) as [u2 o2]. cbn [fst snd] in *. subst o2.
    destruct o1 as [[r|]|]; try (cbn [fst snd]; split; [exact H2|reflexivity]).
    apply IH. exact H2.
Qed.

(* ---- one API step and its observation ------------------------------------------------ *)

Lemma observe_rel b s1 s2 out rc1 rc2 :
  SR b s1 s2 -> rc1 = rc2 -> observe A b s1 out rc1 = observe A b s2 out rc2.
Proof.
  intros H <-. destruct out as [[r|]|]; cbn [observe]; try reflexivity.
  pose proof (SR_get b s1 s2 r H) as Hr.
  rewrite (crel_status _ _ _ Hr), (crel_error _ _ _ Hr).
  destruct (nth r b false) eqn:Eb; [|reflexivity].
  rewrite (crel_started _ _ Hr). reflexivity.
Qed.

Lemma step_rel b s1 s2 o :
  SR b s1 s2 ->
  let b' := mark b (accepted A s1 o) in
  accepted A s1 o = accepted A s2 o /\
  SR b' (fst (fst (step A K sched s1 o))) (fst (fst (step A K sched s2 o))) /\
  snd (fst (step A K sched s1 o)) = snd (fst (step A K sched s2 o)) /\
  observe A b' (fst (fst (step A K sched s1 o))) (snd (fst (step A K sched s1 o))) (snd (step A K sched s1 o)) =
  observe A b' (fst (fst (step A K sched s2 o))) (snd (fst (step A K sched s2 o))) (snd (step A K sched s2 o)).
Proof.
  intros H. destruct o as [cid buf flags|]; cbn zeta.
  - destruct (ctx_submit_rel b s1 s2 cid buf flags H) as (Ea & Hs & Eo).
    split; [exact Ea|]. cbn [step]. unfold api_submit.
    destruct (ctx_submit A K sched s1 cid buf flags) as [t1 o1],
             (ctx_submit A K sched s2 cid buf flags) as [t2 o2]. cbn [fst snd] in *. subst o2.
    split; [exact Hs|]. split; [reflexivity|].
    apply observe_rel; [exact Hs|].
    destruct o1 as [[r|]|]; try reflexivity.
    destruct (r =? cid); [|reflexivity].
    rewrite (crel_error _ _ _ (SR_get _ t1 t2 r Hs)). reflexivity.
  - split; [reflexivity|]. cbn [step accepted mark]. unfold ctx_flush.
    rewrite (fuel_for_rel _ _ _ H).
    destruct (ctx_flush_f_rel b (fuel_for s2) s1 s2 H) as (Hs & Eo).
    destruct (ctx_flush_f A K sched (fuel_for s2) s1) as [t1 o1],
             (ctx_flush_f A K sched (fuel_for s2) s2) as [t2 o2]. cbn [fst snd] in *. subst o2.
    split; [exact Hs|]. split; [reflexivity|]. apply observe_rel; [exact Hs|reflexivity].
Qed.

Lemma run20_rel : forall ops b s1 s2,
  SR b s1 s2 -> run20 A K sched s1 b ops = run20 A K sched s2 b ops.
Proof.
  induction ops as [|o r IH]; intros b s1 s2 H; [reflexivity|].
  cbn [run20]. destruct (step_rel b s1 s2 o H) as (Ea & Hs & _ & Eobs). rewrite <- Ea.
  destruct (step A K sched s1 o) as [[t1 o1] rc1], (step A K sched s2 o) as [[t2 o2] rc2].
  cbn [fst snd] in *. rewrite Eobs. f_equal. apply IH. exact Hs.
Qed.

(* ---- the initial states ---------------------------------------------------------------- *)

Lemma F2_length {X Y} (R : X -> Y -> Prop) l l' : Forall2 R l l' -> length l = length l'.
Proof. induction 1; cbn [length]; congruence. Qed.

Lemma init_SR junk1 junk2 :
  same_pbuf junk1 junk2 -> SR (none_started (length junk1)) (init20 junk1) (init20 junk2).
Proof.
  intros Hp. unfold SR, init20, mgr_init. cbn [held tick ctxs]. rewrite !map_length.
  pose proof (F2_length _ _ _ Hp) as Hl. repeat split; try reflexivity; try exact Hl.
  intros i. unfold HashCtx.getc; cbn [ctxs].
  destruct (Nat.lt_ge_cases i (length junk1)) as [Hi|Hi].
  - right. split.
    + unfold none_started. apply nth_repeat.
    + rewrite (nth_indep _ dflt (ctx_init dflt)) by (rewrite map_length; exact Hi).
      rewrite (nth_indep (map ctx_init junk2) dflt (ctx_init dflt)) by (rewrite map_length, <- Hl; exact Hi).
      rewrite !map_nth. unfold fresh2, ctx_init, set_error, set_status; cbn.
      repeat split; try reflexivity.
      clear Hl. revert i Hi. induction Hp as [|x y l l' Hxy Hp IH]; intros i Hi; [cbn in Hi; lia|].
      destruct i; cbn [nth]; [exact Hxy|]. apply IH. cbn [length] in Hi. lia.
  - left. rewrite !nth_overflow by (rewrite map_length; lia). reflexivity.
Qed.

(* THE THEOREM: whatever two memories the n contexts were initialised in — arbitrary and
   different digests, total lengths, incoming buffers, partial lengths, previous status and
   error, equal partial-block-buffer contents — every list of API calls produces the same
   observations: same context handed back by every call, same return codes, statuses, errors,
   and same digest and total length for every context once it has been started. *)
Theorem hash_ctx_noninterference junk1 junk2 ops :
  same_pbuf junk1 junk2 ->
  run20 A K sched (init20 junk1) (none_started (length junk1)) ops =
  run20 A K sched (init20 junk2) (none_started (length junk1)) ops.
Proof. intros H. apply run20_rel. apply init_SR. exact H. Qed.

End NonInterf.
