(* C08 — hash context layer: the twins compute what the model computes; the ranges of the
   caller's buffer consumed by a submit are inside [0,len), pairwise disjoint, and by the time
   the context can be handed back their union is exactly [0,len); copies into the partial block
   buffer stay inside its first block; hash_pad writes stay inside its 2*B bytes. *)
From Coq Require Import NArith List Arith Bool Lia ZifyBool ZifyNat ZifyN Permutation.
From ISAL Require Import Base.Words Base.ListUtil Spec.MD Model.HashCtx Model.FootprintCtx.
Import ListNotations.

Ltac split_ifs :=
  repeat match goal with
         | |- context [if ?b then _ else _] => destruct b eqn:?
         end.

Lemma ctx_accept_fp_fst A c buf flags :
  fst (ctx_accept_fp A c buf flags) = ctx_accept A c buf flags.
Proof. unfold ctx_accept_fp, ctx_accept, B. split_ifs; reflexivity. Qed.

Lemma ctx_next_fp_fst A c off :
  fst (ctx_next_fp A c off) = ctx_next A c.
Proof.
  unfold ctx_next_fp, ctx_next, B.
  destruct (has (c_status c) STS_COMPLETE); [reflexivity|].
  destruct ((c_plen c =? 0)%nat && negb (length (c_inc c) =? 0)%nat)%bool.
  - destruct (negb ((length (c_inc c) - length (c_inc c) mod a_bsize A) / a_bsize A =? 0)%nat); [reflexivity|].
    cbn [c_status].
    destruct (has (c_status c) STS_LAST); [|reflexivity].
    match goal with |- context [hash_pad ?a ?b ?t] => destruct (hash_pad a b t) as [pb nb] end. reflexivity.
  - destruct (has (c_status c) STS_LAST); [|reflexivity].
    match goal with |- context [hash_pad ?a ?b ?t] => destruct (hash_pad a b t) as [pb nb] end. reflexivity.
Qed.

Lemma count_in_nil b : count_in b [] = 0.
Proof. reflexivity. Qed.

Lemma count_in_cons b o n r :
  count_in b ((o, n) :: r) = (if (o <=? b) && (b <? o + n) then 1 else 0) + count_in b r.
Proof. unfold count_in. cbn [filter fst snd]. destruct ((o <=? b) && (b <? o + n)); reflexivity. Qed.

Lemma has_proc_complete : has STS_PROCESSING STS_COMPLETE = false.
Proof. reflexivity. Qed.
Lemma has_proclast_complete : has (N.lor STS_PROCESSING STS_LAST) STS_COMPLETE = false.
Proof. reflexivity. Qed.

(* prefix [0,a), tail piece [a+body, a+body+t), whole blocks [a, a+body): each byte once *)
Lemma three_ranges_cover a t body len :
  a + body + t = len ->
  covers_once ((if (a =? 0)%nat then [] else [(0, a)]) ++
               (if (t =? 0)%nat then [] else [(a + body, t)]) ++
               (if (body =? 0)%nat then [] else [(a, body)])) len.
Proof.
  intros Hl. split.
  - intros o n Hin.
    destruct (a =? 0)%nat eqn:Ea; destruct (t =? 0)%nat eqn:Et; destruct (body =? 0)%nat eqn:Eb;
      cbn [app] in Hin; repeat (destruct Hin as [Hin|Hin]; [inversion Hin; subst; lia|]); destruct Hin.
  - intros b Hb.
    destruct (a =? 0)%nat eqn:Ea; destruct (t =? 0)%nat eqn:Et; destruct (body =? 0)%nat eqn:Eb;
      cbn [app]; rewrite ?count_in_cons, ?count_in_nil;
      repeat match goal with |- context [if ?c then _ else _] => destruct c eqn:? end; lia.
Qed.

(* the order in which the ranges are emitted does not matter *)
Lemma covers_once_perm r r' len : Permutation r r' -> covers_once r len -> covers_once r' len.
Proof.
  intros P [H1 H2]. split.
  - intros o n Hin. apply H1. eapply Permutation_in; [apply Permutation_sym; exact P|exact Hin].
  - intros b Hb. rewrite <- (H2 b Hb). unfold count_in. apply Permutation_length.
    apply Permutation_sym. clear -P. induction P; cbn [filter].
    + constructor.
    + destruct ((fst x <=? b) && (b <? fst x + snd x)); [constructor|]; assumption.
    + destruct ((fst x <=? b) && (b <? fst x + snd x)); destruct ((fst y <=? b) && (b <? fst y + snd y)); try (constructor; apply Permutation_refl); try apply Permutation_refl.
    + eapply Permutation_trans; eassumption.
Qed.

(* the same with the whole blocks listed before the tail piece *)
Lemma three_ranges_cover' a t body len :
  a + body + t = len ->
  covers_once ((if (a =? 0)%nat then [] else [(0, a)]) ++
               (if (body =? 0)%nat then [] else [(a, body)]) ++
               (if (t =? 0)%nat then [] else [(a + body, t)])) len.
Proof.
  intros H. eapply covers_once_perm; [|apply (three_ranges_cover a t body len H)].
  apply Permutation_app_head. apply Permutation_app_comm.
Qed.

Section FC.
Variable A : algo.
Notation B := (a_bsize A).
Hypothesis HB : 0 < B.

(* what an accepted submit leaves: a prefix of a bytes copied, the rest still incoming *)
Lemma accept_shape c buf flags c1 job evs :
  c_plen c < B ->
  ctx_accept_fp A c buf flags = (Accept c1 job, evs) ->
  exists a, a <= length buf /\ c_inc c1 = skipn a buf /\
            buf_ranges evs = (if (a =? 0)%nat then [] else [(0, a)]) /\
            (c_plen c1 = 0 \/ a = length buf) /\
            has (c_status c1) STS_COMPLETE = false /\
            (forall o n, In (o, n) (pbuf_ranges evs) -> o + n <= B).
Proof.
  intros Hp E. unfold ctx_accept_fp in E.
  destruct (negb (N.land flags (N.lnot FLAG_ENTIRE 32) =? 0)%N); [discriminate|].
  destruct (has (c_status c) STS_PROCESSING); [discriminate|].
  destruct (has (c_status c) STS_COMPLETE && negb (has flags FLAG_FIRST))%bool; [discriminate|].
  set (plen0 := if has flags FLAG_FIRST then 0 else c_plen c) in *.
  assert (Hp0 : plen0 < B) by (unfold plen0; destruct (has flags FLAG_FIRST); lia).
  assert (Hst : forall f : bool, has (if f then N.lor STS_PROCESSING STS_LAST else STS_PROCESSING) STS_COMPLETE = false)
    by (intros []; reflexivity).
  destruct (negb (plen0 =? 0)%nat || (length buf <? B)%nat)%bool eqn:Ec.
  - set (cl := Nat.min (B - plen0) (length buf)) in *.
    destruct (cl =? 0)%nat eqn:Ecl.
    + (* nothing to copy: len = 0 *)
      cbn [c_plen] in E.
      assert (cl = 0) by lia.
      destruct (B <=? plen0)%nat eqn:Eb; [lia|].
      inversion E; subst c1 job evs. exists 0. cbn [c_inc c_plen c_status buf_ranges pbuf_ranges flat_map skipn Nat.eqb].
      split; [lia|]. split; [reflexivity|]. split; [reflexivity|]. split; [right; unfold cl in *; lia|]. split; [apply Hst|]. intros o n [].
    + cbn [c_plen c_inc c_status c_digest c_error c_total c_pbuf] in E.
      assert (0 < cl) by lia.
      destruct (B <=? plen0 + cl)%nat eqn:Eb.
      * inversion E; subst c1 job evs. exists cl. cbn [c_inc c_plen c_status].
        split; [unfold cl; lia|]. split; [reflexivity|]. split; [cbn [buf_ranges flat_map app]; rewrite Ecl; reflexivity|].
        split; [left; reflexivity|]. split; [apply Hst|].
        cbn [pbuf_ranges flat_map app]. intros o n [E0|[]]. inversion E0; subst. unfold cl. lia.
      * inversion E; subst c1 job evs. exists cl. cbn [c_inc c_plen c_status].
        split; [unfold cl; lia|]. split; [reflexivity|]. split; [cbn [buf_ranges flat_map app]; rewrite Ecl; reflexivity|].
        split; [right; unfold cl in *; lia|]. split; [apply Hst|].
        cbn [pbuf_ranges flat_map app]. intros o n [E0|[]]. inversion E0; subst. unfold cl. lia.
  - inversion E; subst c1 job evs. exists 0. cbn [c_inc c_plen c_status buf_ranges pbuf_ranges flat_map skipn Nat.eqb].
    split; [lia|]. split; [reflexivity|]. split; [reflexivity|]. split; [left; lia|]. split; [apply Hst|]. intros o n [].
Qed.

(* what the next pass through the resubmit loop consumes *)
Lemma next_shape c off c2 job2 evs :
  has (c_status c) STS_COMPLETE = false ->
  ctx_next_fp A c off = ((c2, job2), evs) ->
  let len := length (c_inc c) in
  let t := len mod B in
  let body := len - t in
  (if ((c_plen c =? 0)%nat && negb (len =? 0)%nat)%bool
   then c_inc c2 = [] /\
        buf_ranges evs = (if (t =? 0)%nat then [] else [(off + body, t)]) ++
                         (if (body =? 0)%nat then [] else [(off, body)])
   else c_inc c2 = c_inc c /\ buf_ranges evs = []) /\
  (forall o n, In (o, n) (pbuf_ranges evs) -> o + n <= B).
Proof.
  intros Hc E len t body. unfold ctx_next_fp in E. rewrite Hc in E.
  fold len in E. fold t in E. fold body in E.
  assert (Ht : t < B) by (apply Nat.mod_upper_bound; lia).
  assert (Hbody : body = B * (len / B)).
  { unfold body, t. pose proof (Nat.div_mod len B ltac:(lia)) as Dm.
    remember (B * (len / B)) as X. remember (len mod B) as Y. lia. }
  assert (Hdiv : (body / B =? 0)%nat = (body =? 0)%nat).
  { rewrite Hbody. rewrite Nat.mul_comm, Nat.div_mul by lia.
    destruct (len / B) as [|q]; [rewrite Nat.mul_0_l; reflexivity|].
    destruct (S q * B)%nat eqn:Em; [lia|reflexivity]. }
  destruct ((c_plen c =? 0)%nat && negb (len =? 0)%nat)%bool eqn:Ecnd.
  - rewrite Hdiv in E.
    destruct (t =? 0)%nat eqn:Et; destruct (body =? 0)%nat eqn:Eb; cbn [negb app] in E; cbn [c_status] in E.
    + destruct (has (c_status c) STS_LAST).
      * destruct (hash_pad A (c_pbuf c) (c_total c)) as [pb nb]. inversion E; subst. cbn [c_inc buf_ranges pbuf_ranges flat_map app]. repeat split; try reflexivity. intros o n [].
      * inversion E; subst. cbn [c_inc set_status buf_ranges pbuf_ranges flat_map app]. repeat split; try reflexivity. intros o n [].
    + inversion E; subst. cbn [c_inc buf_ranges pbuf_ranges flat_map app]. repeat split; try reflexivity. intros o n [].
    + destruct (has (c_status c) STS_LAST).
      * match type of E with context [hash_pad ?a ?b ?x] => destruct (hash_pad a b x) as [pb nb] end.
        inversion E; subst. cbn [c_inc buf_ranges pbuf_ranges flat_map app]. repeat split; try reflexivity.
        intros o n [E0|[]]. inversion E0; subst. lia.
      * inversion E; subst. cbn [c_inc set_status buf_ranges pbuf_ranges flat_map app]. repeat split; try reflexivity.
        intros o n [E0|[]]. inversion E0; subst. lia.
    + inversion E; subst. cbn [c_inc buf_ranges pbuf_ranges flat_map app]. repeat split; try reflexivity.
      intros o n [E0|[]]. inversion E0; subst. lia.
  - destruct (has (c_status c) STS_LAST).
    + destruct (hash_pad A (c_pbuf c) (c_total c)) as [pb nb]. inversion E; subst. cbn [c_inc buf_ranges pbuf_ranges flat_map app]. repeat split; try reflexivity. intros o n [].
    + inversion E; subst. cbn [c_inc set_status buf_ranges pbuf_ranges flat_map app]. repeat split; try reflexivity. intros o n [].
Qed.

Lemma buf_ranges_app a b : buf_ranges (a ++ b) = buf_ranges a ++ buf_ranges b.
Proof. unfold buf_ranges. apply flat_map_app. Qed.
Lemma pbuf_ranges_app a b : pbuf_ranges (a ++ b) = pbuf_ranges a ++ pbuf_ranges b.
Proof. unfold pbuf_ranges. apply flat_map_app. Qed.

Theorem ctx_reads_in_range c buf flags c1 job evs1 d :
  c_plen c < B ->
  ctx_accept_fp A c buf flags = (Accept c1 job, evs1) ->
  forall c2 job2 evs2,
  ctx_next_fp A (set_digest c1 d) (length buf - length (c_inc c1)) = ((c2, job2), evs2) ->
  covers_once (buf_ranges (evs1 ++ evs2)) (length buf) /\ c_inc c2 = [] /\
  (forall o n, In (o, n) (pbuf_ranges (evs1 ++ evs2)) -> o + n <= B).
Proof.
  intros Hp Ea c2 job2 evs2 En.
  destruct (accept_shape c buf flags c1 job evs1 Hp Ea) as (a & Ha & Hinc & Hr1 & Hpl & Hst & Hpb1).
  assert (Hoff : length buf - length (c_inc c1) = a) by (rewrite Hinc, skipn_length; lia).
  rewrite Hoff in En.
  pose proof (next_shape (set_digest c1 d) a c2 job2 evs2 Hst En) as [Hs Hpb2].
  cbn [set_digest c_inc c_plen] in Hs.
  assert (Hlen : length (c_inc c1) = length buf - a) by (rewrite Hinc, skipn_length; reflexivity).
  rewrite buf_ranges_app, pbuf_ranges_app, Hr1.
  destruct ((c_plen c1 =? 0)%nat && negb (length (c_inc c1) =? 0)%nat)%bool eqn:Ec.
  - destruct Hs as [Hi Hr2]. rewrite Hr2. split; [|split; [exact Hi|]].
    + apply three_ranges_cover.
      pose proof (Nat.mod_le (length (c_inc c1)) B ltac:(lia)). lia.
    + intros o n Hin. apply in_app_or in Hin. destruct Hin; [apply Hpb1|apply Hpb2]; assumption.
  - destruct Hs as [Hi Hr2]. rewrite Hr2, app_nil_r.
    assert (Hal : a = length buf) by (destruct Hpl as [Hpl|Hpl]; [rewrite Hpl in Ec; cbn in Ec; lia|exact Hpl]).
    split; [|split].
    + pose proof (three_ranges_cover a 0 0 (length buf) ltac:(lia)) as T. cbn [Nat.eqb app] in T. rewrite app_nil_r in T. exact T.
    + rewrite Hi, Hinc, Hal. apply skipn_all.
    + intros o n Hin. apply in_app_or in Hin. destruct Hin; [apply Hpb1|apply Hpb2]; assumption.
Qed.

End FC.

