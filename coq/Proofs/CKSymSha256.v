(* ckernels vertical — sha256_single (translated from sha256_mb/sha256_ctx_base.c on every run) equals
   Spec/SHA256.v sha256_compress for EVERY chaining value and EVERY 64-byte block: one vm_compute of
   the verified symbolic equivalence checker on the regenerated body (sha256_check_true is the
   regenerated obligation) + the soundness theorems of Proofs/CKSymFacts.v, CKSymSpecFacts.v. *)
From Coq Require Import NArith List Bool Arith Lia.
From ISAL Require Import Base.Words Base.ListUtil Proofs.WordsFacts Spec.MD Spec.SHA1 Spec.SHA256
  Model.CKernel Proofs.CKernelFacts Model.CKSym Proofs.CKSymFacts Model.CKSymSpec Proofs.CKSymSpecFacts Gen.CKernelGen.
Import ListNotations.
Local Open Scope N_scope.

Lemma land_lor_shiftl_low a r : a < 2 ^ 8 -> N.land (N.lor a (N.shiftl r 8)) 255 = a.
Proof.
  intros Ha. apply N.bits_inj. intro i. rewrite N.land_spec, N.lor_spec.
  change 255 with (N.ones 8).
  destruct (N.ltb_spec i 8).
  - rewrite N.ones_spec_low, N.shiftl_spec_low by assumption. rewrite orb_false_r, andb_true_r. reflexivity.
  - rewrite N.ones_spec_high by assumption. rewrite andb_false_r. symmetry. apply (testbit_high a 8); assumption.
Qed.

Lemma shiftr_lor_shiftl_low a r : a < 2 ^ 8 -> N.shiftr (N.lor a (N.shiftl r 8)) 8 = r.
Proof.
  intros Ha. apply N.bits_inj. intro i. rewrite N.shiftr_spec, N.lor_spec by lia.
  rewrite (testbit_high a 8) by (try assumption; lia). cbn [orb].
  rewrite N.shiftl_spec_high by lia. f_equal. lia.
Qed.

Lemma be32_bswap a b c d :
  a < 2 ^ 8 -> b < 2 ^ 8 -> c < 2 ^ 8 -> d < 2 ^ 8 ->
  be32 [a; b; c; d] = bswap 32 (le_to_N [a; b; c; d]).
Proof.
  intros Ha Hb Hc Hd. unfold bswap. change (N.to_nat (32 / 8)) with 4%nat.
  cbv [le_to_N N_to_le].
  rewrite N.shiftl_0_l, N.lor_0_r.
  rewrite (land_lor_shiftl_low a) by assumption.
  rewrite (shiftr_lor_shiftl_low a) by assumption.
  rewrite (land_lor_shiftl_low b) by assumption.
  rewrite (shiftr_lor_shiftl_low b) by assumption.
  rewrite (land_lor_shiftl_low c) by assumption.
  rewrite (shiftr_lor_shiftl_low c) by assumption.
  replace (N.land d 255) with d.
  2:{ symmetry. change 255 with (N.ones 8). rewrite N.land_ones. apply N.mod_small. exact Hd. }
  cbv [rev app le_to_N be32]. rewrite N.shiftl_0_l, N.lor_0_r.
  rewrite !N.shiftl_lor, !N.shiftl_shiftl.
  cfold.
  apply N.bits_inj. intro i. rewrite !N.lor_spec.
  destruct (N.testbit (N.shiftl a 24) i), (N.testbit (N.shiftl b 16) i), (N.testbit (N.shiftl c 8) i), (N.testbit d i); reflexivity.
Qed.

Lemma shiftl_lt a k n : a < 2 ^ k -> N.shiftl a n < 2 ^ (k + n).
Proof.
  intros Ha. rewrite N.shiftl_mul_pow2, N.pow_add_r. apply N.mul_lt_mono_pos_r; [|exact Ha].
  apply N.neq_0_lt_0, N.pow_nonzero. discriminate.
Qed.

Lemma be32_lt a b c d : a < 2 ^ 8 -> b < 2 ^ 8 -> c < 2 ^ 8 -> d < 2 ^ 8 -> be32 [a; b; c; d] < 2 ^ 32.
Proof.
  intros Ha Hb Hc Hd. cbv [be32]. repeat apply lor_lt.
  - apply (shiftl_lt a 8 24 Ha).
  - apply N.lt_le_trans with (2 ^ (8 + 16)); [apply (shiftl_lt b 8 16 Hb)|apply N.pow_le_mono_r; [discriminate|]]. discriminate.
  - apply N.lt_le_trans with (2 ^ (8 + 8)); [apply (shiftl_lt c 8 8 Hc)|apply N.pow_le_mono_r; [discriminate|]]. discriminate.
  - apply N.lt_le_trans with (2 ^ 8); [exact Hd|apply N.pow_le_mono_r; discriminate].
Qed.


Definition sha256_objs : list (N * nat) := [(32, 16%nat); (32, 8%nat); (32, 16%nat)].
Definition sha256_nvars : nat := Eval vm_compute in length (st_vars (c_sha256_single_init [] [] [])).
Definition sha256_symspec (o : list (list N)) : M (list N) :=
  match o with [d; h; _] => sy_be_compress sy256_compress_words 32 h d | _ => fail end.
Definition sha256_check : bool := ck_check c_sha256_single_body 5000 sha256_nvars sha256_objs 1 sha256_symspec.

(* THE REGENERATED OBLIGATION *)
Lemma sha256_check_true :
  ck_check c_sha256_single_body 5000 sha256_nvars sha256_objs 1 sha256_symspec = true.
Proof. vm_compute. reflexivity. Qed.
Global Opaque ck_check.

Lemma c_sha256_single_mono d h j a b r :
  (a <= b)%nat -> c_sha256_single a d h j = Some r -> c_sha256_single b d h j = Some r.
Proof.
  unfold c_sha256_single. intros Hab H.
  destruct (exec a c_sha256_single_body _) eqn:E; [|discriminate].
  rewrite (exec_mono _ _ _ _ E b Hab). exact H.
Qed.

Ltac explode l H := repeat (destruct l as [|? l]; cbn [length] in H; try discriminate H).
Ltac forall_inv :=
  repeat match goal with
  | H : Forall _ (_ :: _) |- _ => inversion H; clear H; subst
  | H : Forall _ [] |- _ => clear H
  end.

(* the 16 little-endian words the C loads, and the big-endian words of the specification *)
Lemma block_words (block : list N) :
  length block = 64%nat -> Forall (fun x => x < 2 ^ 8) block ->
  length (le_words 4 block) = 16%nat /\ Forall (fun x => x < 2 ^ 32) (map (bswap 32) (le_words 4 block)) /\
  Forall (fun x => x < 2 ^ 32) (le_words 4 block) /\
  be_words32 block = map (bswap 32) (le_words 4 block).
Proof.
  intros Hl Hb. explode block Hl. forall_inv.
  cbv [be_words32 le_words chunks chunks_f length firstn skipn map].
  repeat match goal with
  | |- context [be32 [?a; ?b; ?c; ?d]] =>
      let Hw := fresh "Hbw" in
      pose proof (be32_lt a b c d ltac:(assumption) ltac:(assumption) ltac:(assumption) ltac:(assumption)) as Hw;
      rewrite (be32_bswap a b c d ltac:(assumption) ltac:(assumption) ltac:(assumption) ltac:(assumption)) in Hw |- *
  end.
  split; [reflexivity|]. split; [repeat (constructor; [assumption|]); constructor|]. split; [|reflexivity].
  repeat (constructor; [apply (le_to_N_lt [_; _; _; _]); repeat (constructor; [assumption|]); constructor|]). constructor.
Qed.

(* What the checker's answer means, for EVERY valuation of the 40 input variables that respects
   their declared 32-bit bounds: the translated body runs to completion (no out-of-bounds access,
   no shift >= width, no uninitialised scalar read) from the corresponding concrete state and
   leaves in `digest` the specification's compression of (digest words, byte-swapped data words).
   The instantiation at `c_sha256_single_init (le_words 4 block) h junk` (rho k = k-th input word)
   is the remaining, unfinished step (wip/ckernels/unfinished/CKSymSha256_glue.v.txt). *)
Theorem sha256_sym_sound (rho : nat -> N) :
  wf rho (ck_t0 sha256_objs) ->
  exists st',
    exec 5000 c_sha256_single_body (conc (tvals rho (ck_t0 sha256_objs)) (ck_st0 sha256_nvars sha256_objs)) = Some st' /\
    get_obj st' 1 =
    Some (sha256_compress_words (map (V rho (ck_t0 sha256_objs)) (map N.of_nat (seq 16 8)))
            (map (bswap 32) (map (V rho (ck_t0 sha256_objs)) (map N.of_nat (seq 0 16))))).
Proof.
  intros Hwf0.
  assert (Hst0 : sst_ok (ck_t0 sha256_objs) (ck_st0 sha256_nvars sha256_objs)).
  { split; [repeat constructor|]. unfold inb. vm_compute. repeat constructor. }
  apply (ck_check_sound rho c_sha256_single_body 5000 sha256_nvars sha256_objs 1 sha256_symspec _ Hwf0 Hst0);
    [|exact sha256_check_true].
  intros s Ws Es. unfold sha256_symspec. cbn [map snd ck_cells ck_cells_from sha256_objs ids].
  eapply POST_conv.
  + apply sy256_be_compress_ok; [exact Ws| | |reflexivity|reflexivity].
    * apply (Forall_inb_ext _ _ _ Es). unfold inb. vm_compute. repeat constructor.
    * apply (Forall_inb_ext _ _ _ Es). unfold inb. vm_compute. repeat constructor.
  + intros l s2 [F2 V2]. split; [exact F2|]. rewrite V2.
    rewrite !(map_V_ext rho _ _ _ Es) by (unfold inb; vm_compute; repeat constructor). reflexivity.
Qed.
