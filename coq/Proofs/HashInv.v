(* The representation invariant between the L1 hash model state (contexts + jobs held by
   the abstract manager + the context the resubmit loop currently works on) and the L0
   abstract state of Spec/HashApiSpec.v, and its preservation by the elementary events:
   accept, reject, job emission, hand-back by the manager, return to the caller. *)
From Coq Require Import NArith List Arith Lia Bool Permutation.
From ISAL Require Import Base.Words Base.ListUtil Spec.MD Spec.HashApiSpec Model.HashCtx
  Proofs.WordsFacts Proofs.ListFacts Proofs.ChunkFacts Proofs.HashPadFacts Proofs.HashCtxFacts.
Import ListNotations.

(* ---- generic list facts ------------------------------------------------------------ *)

Lemma remove_nth_perm {X} (l : list X) i x :
  nth_error l i = Some x -> Permutation l (x :: remove_nth i l).
Proof.
  revert i. induction l as [|h t IH]; intros [|i] H; cbn [nth_error] in H; try discriminate.
  - injection H as ->. reflexivity.
  - apply IH in H. cbn [remove_nth]. etransitivity; [apply perm_skip; exact H|apply perm_swap].
Qed.

Lemma nth_error_lt {X} (l : list X) i : i < length l -> exists x, nth_error l i = Some x.
Proof.
  intros H. destruct (nth_error l i) eqn:E; [eauto|]. apply nth_error_None in E. lia.
Qed.

Lemma upd_oob {X} i (x : X) l : length l <= i -> upd i x l = l.
Proof.
  revert i. induction l as [|h t IH]; intros i H; [destruct i; reflexivity|].
  destruct i; cbn [length] in H; [lia|]. cbn [upd]. f_equal. apply IH. lia.
Qed.

Lemma upd_upd {X} i (x y : X) l : upd i x (upd i y l) = upd i x l.
Proof.
  revert i. induction l as [|h t IH]; intros i; [destruct i; reflexivity|].
  destruct i; cbn [upd]; [reflexivity|]. f_equal. apply IH.
Qed.

Lemma n_flight_upd a i x : i < length a ->
  n_flight (upd i x a) + (if in_flight (nth i a dummy) then 1 else 0) =
  n_flight a + (if in_flight x then 1 else 0).
Proof.
  unfold n_flight. revert i. induction a as [|h t IH]; intros i H; cbn [length] in H; [lia|].
  destruct i as [|i].
  - cbn [upd filter nth]. destruct (in_flight x), (in_flight h); cbn [length]; lia.
  - cbn [upd filter nth]. specialize (IH i ltac:(lia)).
    destruct (in_flight h); cbn [length]; lia.
Qed.

Lemma list_sum_cons x l : list_sum (x :: l) = x + list_sum l.
Proof. reflexivity. Qed.

Lemma n_flight_repeat_dummy n : n_flight (repeat dummy n) = 0.
Proof. unfold n_flight. induction n; [reflexivity|]. cbn [repeat filter]. exact IHn. Qed.

Section Inv.
Variable A : algo.
Hypothesis WF : algo_wf A.
Variable K : nat.

Definition gc (cs : list ctx) (i : nat) : ctx := nth i cs (dflt_ctx A).

Lemma gc_upd_eq cs i c : i < length cs -> gc (upd i c cs) i = c.
Proof. apply nth_upd_eq. Qed.

Lemma gc_upd_neq cs i j c : i <> j -> gc (upd i c cs) j = gc cs j.
Proof. apply nth_upd_neq. Qed.

Definition cur_l (cur : option nat) : list nat := match cur with Some c => [c] | None => [] end.
Definition idsof (hs : list job) (cur : option nat) : list nat := map j_ctx hs ++ cur_l cur.

(* the contexts in flight in the abstract state are exactly [ids] *)
Definition SI (a : list actx) (ids : list nat) : Prop :=
  NoDup ids /\
  (forall i, In i ids <-> (i < length a /\ in_flight (nth i a dummy) = true)) /\
  n_flight a = length ids /\ length ids <= K.

Lemma SI_perm a ids ids' : Permutation ids ids' -> SI a ids -> SI a ids'.
Proof.
  intros P (N1 & I1 & C1 & K1). repeat split.
  - eapply Permutation_NoDup; eassumption.
  - apply I1. eapply Permutation_in; [apply Permutation_sym; exact P|assumption].
  - apply I1. eapply Permutation_in; [apply Permutation_sym; exact P|assumption].
  - intros H. eapply Permutation_in; [exact P|]. apply I1. exact H.
  - rewrite C1. apply Permutation_length. exact P.
  - rewrite <- (Permutation_length P). exact K1.
Qed.

Lemma SI_add a ids cid x : SI a ids -> cid < length a -> in_flight (nth cid a dummy) = false ->
  in_flight x = true -> length ids < K -> SI (upd cid x a) (cid :: ids).
Proof.
  intros (N1 & I1 & C1 & K1) Hc Hnf Hx HK. repeat split.
  - constructor; [|exact N1]. intros Hin. apply I1 in Hin. destruct Hin as [_ Hin]. congruence.
  - rewrite length_upd. destruct H as [<-|H]; [exact Hc|]. apply I1. exact H.
  - destruct H as [<-|H]; [rewrite nth_upd_eq by exact Hc; exact Hx|].
    assert (cid <> i) by (intros ->; apply I1 in H; destruct H; congruence).
    rewrite nth_upd_neq by assumption. apply I1. exact H.
  - intros [H1 H2]. rewrite length_upd in H1. destruct (Nat.eq_dec cid i) as [E|E]; [left; exact E|].
    right. rewrite nth_upd_neq in H2 by exact E. apply I1. split; assumption.
  - pose proof (n_flight_upd a cid x Hc) as NF. rewrite Hnf, Hx in NF. cbn [length]. lia.
  - cbn [length]. lia.
Qed.

Lemma SI_remove a ids cid x : SI a (cid :: ids) -> in_flight x = false -> SI (upd cid x a) ids.
Proof.
  intros (N1 & I1 & C1 & K1) Hx.
  assert (Hc : cid < length a /\ in_flight (nth cid a dummy) = true) by (apply I1; left; reflexivity).
  destruct Hc as [Hc Hf]. inversion N1 as [|? ? Hni N2]; subst. repeat split.
  - exact N2.
  - rewrite length_upd. apply I1. right. exact H.
  - assert (cid <> i) by (intros ->; contradiction).
    rewrite nth_upd_neq by assumption. apply I1. right. exact H.
  - intros [H1 H2]. rewrite length_upd in H1. destruct (Nat.eq_dec cid i) as [E|E].
    + subst i. rewrite nth_upd_eq in H2 by exact Hc. congruence.
    + rewrite nth_upd_neq in H2 by exact E.
      assert (Hin : In i (cid :: ids)) by (apply I1; split; assumption).
      destruct Hin as [Hin|Hin]; [contradiction|exact Hin].
  - pose proof (n_flight_upd a cid x Hc) as NF. rewrite Hf, Hx in NF. cbn [length] in C1. lia.
  - cbn [length] in K1. lia.
Qed.

(* what the fields of the contexts mean *)
Definition DI (cs : list ctx) (hs : list job) (a : list actx) (cur : option nat) : Prop :=
  (forall j, In j hs -> exists l, s_phase (nth (j_ctx j) a dummy) = AFlight l /\
      proc_ok A (gc cs (j_ctx j)) (s_stream (nth (j_ctx j) a dummy)) l (finish A j)) /\
  (forall c, cur = Some c -> exists l, s_phase (nth c a dummy) = AFlight l /\
      proc_ok A (gc cs c) (s_stream (nth c a dummy)) l (c_digest (gc cs c))) /\
  (forall i, i < length a -> in_flight (nth i a dummy) = false -> rest_ok A (gc cs i) (nth i a dummy)).

Definition RI (cs : list ctx) (hs : list job) (a : list actx) (cur : option nat) : Prop :=
  length cs = length a /\ SI a (idsof hs cur) /\ DI cs hs a cur.

Lemma idsof_None hs : idsof hs None = map j_ctx hs.
Proof. unfold idsof. cbn [cur_l]. apply app_nil_r. Qed.

Lemma idsof_Some_perm hs c : Permutation (c :: map j_ctx hs) (idsof hs (Some c)).
Proof. unfold idsof. cbn [cur_l]. apply Permutation_cons_append. Qed.

Lemma phase_in_flight a i l : s_phase (nth i a dummy) = AFlight l -> in_flight (nth i a dummy) = true.
Proof. unfold in_flight. intros ->. reflexivity. Qed.

Lemma RI_held_in_flight cs hs a cur j : RI cs hs a cur -> In j hs ->
  j_ctx j < length a /\ in_flight (nth (j_ctx j) a dummy) = true.
Proof.
  intros (_ & (_ & I1 & _) & _) Hj. apply I1. unfold idsof. apply in_or_app. left.
  apply in_map. exact Hj.
Qed.

Lemma RI_cur_in_flight cs hs a c : RI cs hs a (Some c) ->
  c < length a /\ in_flight (nth c a dummy) = true /\ ~ In c (map j_ctx hs).
Proof.
  intros (_ & S1 & _).
  apply (SI_perm _ _ _ (Permutation_sym (idsof_Some_perm hs c))) in S1.
  destruct S1 as (N1 & I1 & _). inversion N1; subst.
  destruct (proj1 (I1 c) (or_introl eq_refl)). auto.
Qed.

(* ---- the elementary events ----------------------------------------------------------- *)

(* a submit is accepted: the context becomes the current one *)
Lemma RI_accept cs hs a cid c' sg' l :
  RI cs hs a None -> cid < length a -> in_flight (nth cid a dummy) = false -> length hs < K ->
  proc_ok A c' sg' l (c_digest c') ->
  RI (upd cid c' cs) hs (upd cid {| s_stream := sg'; s_phase := AFlight l |} a) (Some cid).
Proof.
  intros R Hc Hnf HK Hp. pose proof R as (L & S1 & (D1 & D2 & D3)).
  split; [rewrite !length_upd; exact L|]. split.
  - eapply SI_perm; [apply idsof_Some_perm|]. rewrite idsof_None in S1.
    apply SI_add; try assumption; [reflexivity|rewrite map_length; exact HK].
  - split; [|split].
    + intros j Hj. destruct (RI_held_in_flight _ _ _ _ j R Hj) as [_ Hf].
      assert (cid <> j_ctx j) by (intros E; rewrite <- E in Hf; congruence).
      rewrite nth_upd_neq by assumption. unfold gc. rewrite nth_upd_neq by assumption.
      apply D1. exact Hj.
    + intros c [= <-]. rewrite nth_upd_eq by exact Hc. rewrite gc_upd_eq by (rewrite L; exact Hc).
      exists l. split; [reflexivity|exact Hp].
    + intros i Hi Hif. rewrite length_upd in Hi.
      assert (cid <> i) by (intros ->; rewrite nth_upd_eq in Hif by exact Hc; discriminate).
      rewrite nth_upd_neq in * by assumption. rewrite gc_upd_neq by assumption. apply D3; assumption.
Qed.

(* fields that the invariant does not read (error) may change *)
Lemma RI_set_error cs hs a cur cid e :
  RI cs hs a cur -> RI (upd cid (set_error (gc cs cid) e) cs) hs a cur.
Proof.
  intros (L & S1 & (D1 & D2 & D3)).
  destruct (Nat.lt_ge_cases cid (length cs)) as [Hc|Hc];
    [|rewrite upd_oob by exact Hc; split; [exact L|]; split; [exact S1|]; split; [exact D1|]; split; [exact D2|exact D3]].
  assert (G : forall i, gc (upd cid (set_error (gc cs cid) e) cs) i = gc cs i \/
                        gc (upd cid (set_error (gc cs cid) e) cs) i = set_error (gc cs i) e).
  { intros i. destruct (Nat.eq_dec cid i) as [<-|E]; [right; apply gc_upd_eq; exact Hc|].
    left. apply gc_upd_neq. exact E. }
  split; [rewrite length_upd; exact L|]. split; [exact S1|]. split; [|split].
  - intros j Hj. destruct (D1 j Hj) as (l & P1 & P2). exists l. split; [exact P1|].
    destruct (G (j_ctx j)) as [-> | ->]; [exact P2|apply proc_ok_set_error; exact P2].
  - intros c Hcur. destruct (D2 c Hcur) as (l & P1 & P2). exists l. split; [exact P1|].
    destruct (G c) as [-> | ->]; [exact P2|apply proc_ok_set_error; exact P2].
  - intros i Hi Hif. destruct (G i) as [-> | ->]; [apply D3; assumption|].
    apply rest_ok_set_error. apply D3; assumption.
Qed.

(* the current context emits a job; the manager holds it *)
Lemma RI_emit cs hs a cid c' blocks :
  RI cs hs a (Some cid) ->
  (forall l, s_phase (nth cid a dummy) = AFlight l ->
     proc_ok A c' (s_stream (nth cid a dummy)) l (fold_left (a_compress A) blocks (c_digest c'))) ->
  RI (upd cid c' cs) (hs ++ [{| j_ctx := cid; j_blocks := blocks; j_chain := c_digest c' |}]) a None.
Proof.
  intros R Hp. pose proof R as (L & S1 & (D1 & D2 & D3)).
  destruct (RI_cur_in_flight _ _ _ _ R) as (Hc & Hf & Hni).
  split; [rewrite length_upd; exact L|]. split.
  - rewrite idsof_None, map_app. exact S1.
  - split; [|split].
    + intros j Hj. apply in_app_or in Hj. destruct Hj as [Hj|[<-|[]]].
      * assert (cid <> j_ctx j) by (intros E; apply Hni; rewrite E; apply in_map; exact Hj).
        rewrite gc_upd_neq by assumption. apply D1. exact Hj.
      * cbn [j_ctx]. rewrite gc_upd_eq by (rewrite L; exact Hc).
        destruct (D2 cid eq_refl) as (l & P1 & _). exists l. split; [exact P1|].
        apply Hp. exact P1.
    + intros c [=].
    + intros i Hi Hif. assert (cid <> i) by (intros ->; congruence).
      rewrite gc_upd_neq by assumption. apply D3; assumption.
Qed.

(* a submit is accepted and its first job (the completed partial block) is held at once *)
Lemma RI_accept_emit cs hs a cid c' sg' l blocks :
  RI cs hs a None -> cid < length a -> in_flight (nth cid a dummy) = false -> length hs < K ->
  proc_ok A c' sg' l (fold_left (a_compress A) blocks (c_digest c')) ->
  RI (upd cid c' cs) (hs ++ [{| j_ctx := cid; j_blocks := blocks; j_chain := c_digest c' |}])
     (upd cid {| s_stream := sg'; s_phase := AFlight l |} a) None.
Proof.
  intros R Hc Hnf HK Hp.
  set (d := fold_left (a_compress A) blocks (c_digest c')) in *.
  pose proof (RI_accept cs hs a cid (set_digest c' d) sg' l R Hc Hnf HK) as R1.
  cbn [set_digest c_digest] in R1. specialize (R1 (proc_ok_set_digest A c' sg' l d d Hp)).
  pose proof (RI_emit _ _ _ cid c' blocks R1) as R2. rewrite upd_upd in R2. apply R2.
  intros l' Ph. rewrite nth_upd_eq in * by exact Hc. cbn [s_phase s_stream] in *.
  injection Ph as <-. exact Hp.
Qed.

(* the manager hands back held job number i: its context becomes the current one *)
Lemma RI_hand_back cs hs a i j :
  RI cs hs a None -> nth_error hs i = Some j ->
  RI (upd (j_ctx j) (set_digest (gc cs (j_ctx j)) (finish A j)) cs) (remove_nth i hs) a (Some (j_ctx j)).
Proof.
  intros R Hj. pose proof R as (L & S1 & (D1 & D2 & D3)).
  pose proof (remove_nth_perm hs i j Hj) as P.
  assert (Pm : Permutation (map j_ctx hs) (j_ctx j :: map j_ctx (remove_nth i hs))).
  { apply (Permutation_map j_ctx) in P. exact P. }
  assert (Hin : In j hs) by (eapply nth_error_In; exact Hj).
  destruct (RI_held_in_flight _ _ _ _ j R Hin) as [Hc Hf].
  rewrite idsof_None in S1.
  assert (N2 : NoDup (j_ctx j :: map j_ctx (remove_nth i hs))).
  { eapply Permutation_NoDup; [exact Pm|]. apply S1. }
  inversion N2 as [|? ? Hni _]; subst.
  split; [rewrite length_upd; exact L|]. split.
  - eapply SI_perm; [|exact S1]. etransitivity; [exact Pm|]. apply idsof_Some_perm.
  - split; [|split].
    + intros j' Hj'.
      assert (Hin' : In j' hs).
      { eapply Permutation_in; [apply Permutation_sym; exact P|]. right. exact Hj'. }
      assert (j_ctx j <> j_ctx j') by (intros E; apply Hni; rewrite E; apply in_map; exact Hj').
      rewrite gc_upd_neq by assumption. apply D1. exact Hin'.
    + intros c Hcc. injection Hcc as Hcc. subst c. rewrite gc_upd_eq by (rewrite L; exact Hc).
      destruct (D1 j Hin) as (l & P1 & P2). exists l. split; [exact P1|].
      cbn [set_digest c_digest]. apply proc_ok_set_digest. exact P2.
    + intros i' Hi Hif. assert (j_ctx j <> i') by (intros E; subst i'; congruence).
      rewrite gc_upd_neq by assumption. apply D3; assumption.
Qed.

(* the current context is returned to the caller *)
Lemma RI_return cs hs a cid c' ac' :
  RI cs hs a (Some cid) -> in_flight ac' = false -> rest_ok A c' ac' ->
  RI (upd cid c' cs) hs (upd cid ac' a) None.
Proof.
  intros R Hnf Hr. pose proof R as (L & S1 & (D1 & D2 & D3)).
  destruct (RI_cur_in_flight _ _ _ _ R) as (Hc & Hf & Hni).
  split; [rewrite !length_upd; exact L|]. split.
  - rewrite idsof_None. apply SI_remove; [|exact Hnf].
    eapply SI_perm; [apply Permutation_sym; apply idsof_Some_perm|exact S1].
  - split; [|split].
    + intros j Hj.
      assert (cid <> j_ctx j) by (intros E; apply Hni; rewrite E; apply in_map; exact Hj).
      rewrite nth_upd_neq by assumption. rewrite gc_upd_neq by assumption. apply D1. exact Hj.
    + intros c [=].
    + intros i Hi Hif. rewrite length_upd in Hi. destruct (Nat.eq_dec cid i) as [<-|E].
      * rewrite nth_upd_eq by exact Hc. rewrite gc_upd_eq by (rewrite L; exact Hc). exact Hr.
      * rewrite nth_upd_neq in * by exact E. rewrite gc_upd_neq by exact E. apply D3; assumption.
Qed.

(* ---- the measure that bounds the loops ------------------------------------------------ *)

Definition T (cs : list ctx) (ids : list nat) : nat := list_sum (map (fun i => rem A (gc cs i)) ids).

Lemma T_perm cs ids ids' : Permutation ids ids' -> T cs ids = T cs ids'.
Proof.
  intros P. unfold T. induction P; cbn [map]; rewrite ?list_sum_cons; lia.
Qed.

Lemma T_ext cs cs' ids : (forall i, In i ids -> rem A (gc cs' i) = rem A (gc cs i)) -> T cs' ids = T cs ids.
Proof.
  unfold T. induction ids as [|h t IH]; intros H; [reflexivity|]. cbn [map]. rewrite !list_sum_cons.
  rewrite H by (left; reflexivity). rewrite IH; [reflexivity|]. intros i Hi. apply H. right. exact Hi.
Qed.

Lemma T_app cs x y : T cs (x ++ y) = T cs x + T cs y.
Proof. unfold T. rewrite map_app, list_sum_app. reflexivity. Qed.

Lemma T_le2 cs ids : T cs ids <= 2 * length ids.
Proof.
  unfold T. induction ids as [|h t IH]; [cbn; lia|]. cbn [map length]. rewrite list_sum_cons.
  pose proof (rem_le2 A (gc cs h)). lia.
Qed.

End Inv.
