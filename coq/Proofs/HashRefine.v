(* The L1 hash model refines the L0 trace acceptor: for every algorithm record satisfying
   algo_wf, every manager capacity K >= 1 and EVERY scheduling oracle, every history of
   submit/flush calls produces a trace that Spec/HashApiSpec.accepts accepts, and no loop
   runs out of fuel. *)
From Coq Require Import NArith List Arith Lia Bool Permutation.
From ISAL Require Import Base.Words Base.ListUtil Spec.MD Spec.HashApiSpec Model.HashCtx Model.HashObs
  Proofs.WordsFacts Proofs.ListFacts Proofs.ChunkFacts Proofs.HashPadFacts Proofs.HashCtxFacts
  Proofs.HashInv Proofs.HashSpecFacts.
Import ListNotations.

Lemma length_remove_nth {X} (l : list X) i : i < length l -> S (length (remove_nth i l)) = length l.
Proof.
  revert i. induction l as [|h t IH]; intros i H; cbn [length] in H; [lia|].
  destruct i; cbn [remove_nth length]; [reflexivity|]. f_equal. apply IH. lia.
Qed.

Section Refine.
Variable A : algo.
Hypothesis WF : algo_wf A.
Variable K : nat.
Variable sched : nat -> list nat -> option nat.

Notation RIs s a cur := (RI A K (ctxs s) (held s) a cur).
Notation Ts s cur := (T A (ctxs s) (idsof (held s) cur)).

Lemma gc_upd_cases cs c x k :
  gc A (upd c x cs) k = gc A cs k \/ (k = c /\ c < length cs /\ gc A (upd c x cs) k = x).
Proof.
  destruct (Nat.lt_ge_cases c (length cs)) as [H|H]; [|left; rewrite upd_oob by exact H; reflexivity].
  destruct (Nat.eq_dec c k) as [<-|E]; [right; repeat split; [exact H|apply gc_upd_eq; exact H]|].
  left. apply gc_upd_neq. exact E.
Qed.

(* what the caller may rely on when context r comes back *)
Definition ret_ok (s' : st) (a : list actx) (r : option nat) : Prop :=
  match r with
  | None => True
  | Some i => i < length a /\ exists l, s_phase (nth i a dummy) = AFlight l /\
      c_status (getc A s' i) = (if l then 4 else 0)%N /\
      c_total (getc A s' i) = w64 (N.of_nat (length (s_stream (nth i a dummy)))) /\
      (l = true -> small (s_stream (nth i a dummy)) ->
       c_digest (getc A s' i) = md_hash A (s_stream (nth i a dummy)))
  end.

(* ---- the manager ------------------------------------------------------------------------ *)

Lemma hand_back_inv s a i : RIs s a None -> i < length (held s) ->
  exists s' c, hand_back A s i = (s', Some c) /\ RIs s' a (Some c) /\
    S (length (held s')) = length (held s) /\ Ts s' (Some c) = Ts s None /\
    (forall k, c_error (getc A s' k) = c_error (getc A s k)).
Proof.
  intros R Hi. destruct (nth_error_lt _ _ Hi) as [j Hj].
  unfold hand_back. rewrite Hj. eexists. eexists. split; [reflexivity|]. cbn [ctxs held].
  split; [apply RI_hand_back; assumption|]. split; [apply length_remove_nth; exact Hi|].
  split.
  - rewrite T_ext with (cs := ctxs s).
    + apply T_perm. apply Permutation_sym. rewrite idsof_None.
      etransitivity; [|apply idsof_Some_perm].
      change (j_ctx j :: map j_ctx (remove_nth i (held s))) with (map j_ctx (j :: remove_nth i (held s))).
      apply (Permutation_map j_ctx). apply remove_nth_perm. exact Hj.
    + intros k _. destruct (gc_upd_cases (ctxs s) (j_ctx j) (set_digest (getc A s (j_ctx j)) (finish A j)) k)
        as [->|(-> & _ & ->)]; reflexivity.
  - intros k. unfold getc at 1. cbn [ctxs].
    destruct (gc_upd_cases (ctxs s) (j_ctx j) (set_digest (getc A s (j_ctx j)) (finish A j)) k)
      as [E|(-> & _ & E)]; unfold gc in E; rewrite E; reflexivity.
Qed.

Lemma choose_lt s i : choose sched s = Some i -> i < length (held s).
Proof.
  unfold choose. destruct (sched (tick s) (map j_ctx (held s))) as [k|]; [|discriminate].
  destruct (k <? length (held s)) eqn:E; [|discriminate]. intros [= <-]. apply Nat.ltb_lt. exact E.
Qed.

Lemma mgr_submit_ok s j a : RI A K (ctxs s) (held s ++ [j]) a None ->
  exists s2 r, mgr_submit A K sched s j = (s2, r) /\ RIs s2 a r /\
    (r = None -> length (held s2) < K) /\
    Ts s2 r = T A (ctxs s) (map j_ctx (held s ++ [j])) /\
    (forall k, c_error (getc A s2 k) = c_error (getc A s k)) /\
    length (idsof (held s2) r) = S (length (held s)).
Proof.
  intros R. unfold mgr_submit.
  set (s1 := {| ctxs := ctxs s; held := held s ++ [j]; tick := tick s |}).
  assert (L1 : length (held s1) = S (length (held s))) by (cbn [s1 held]; rewrite app_length; cbn; lia).
  assert (HB : forall i, i < length (held s1) ->
    exists s2 r, hand_back A s1 i = (s2, r) /\ RIs s2 a r /\
    (r = None -> length (held s2) < K) /\
    Ts s2 r = T A (ctxs s) (map j_ctx (held s ++ [j])) /\
    (forall k, c_error (getc A s2 k) = c_error (getc A s k)) /\
    length (idsof (held s2) r) = S (length (held s))).
  { intros i Hi. destruct (hand_back_inv s1 a i R Hi) as (s2 & c & E & R2 & L2 & T2 & Er).
    exists s2, (Some c). split; [exact E|]. split; [exact R2|]. split; [discriminate|].
    split; [rewrite T2, idsof_None; reflexivity|]. split; [exact Er|].
    unfold idsof. rewrite app_length, map_length. cbn [cur_l length]. lia. }
  destruct (choose sched s1) as [i|] eqn:Ch.
  - apply HB. apply choose_lt. exact Ch.
  - destruct (K <=? length (held s1)) eqn:EK.
    + apply HB. lia.
    + apply Nat.leb_gt in EK. eexists. eexists. split; [reflexivity|]. cbn [ctxs held].
      split; [exact R|]. split; [intros _; exact EK|].
      split; [rewrite idsof_None; reflexivity|]. split; [reflexivity|].
      rewrite idsof_None, map_length. exact L1.
Qed.

(* ---- the resubmit loop --------------------------------------------------------------------- *)

Lemma retired_not_in_flight ac : in_flight ac = true -> in_flight (retired ac) = false.
Proof. unfold in_flight, retired. cbn [s_phase]. destruct (s_phase ac) as [| | |[|]]; try discriminate; reflexivity. Qed.

Lemma resubmit_ok : forall fuel s a cur,
  RIs s a cur -> (cur = None -> length (held s) < K) -> Ts s cur + length (cur_l cur) <= fuel ->
  exists s' r, resubmit A K sched fuel s cur = (s', Ret r) /\
    RIs s' (retire a r) None /\ length (held s') < K /\ ret_ok s' a r /\
    Ts s' None + (match r with None => length (cur_l cur) | Some _ => 0 end) <= Ts s cur /\
    (forall k, c_error (getc A s' k) = c_error (getc A s k)).
Proof.
  induction fuel as [|f IH]; intros s a cur R HK HF.
  - destruct cur as [cid|]; [cbn [cur_l length] in HF; lia|].
    exists s, None. split; [reflexivity|]. split; [exact R|]. split; [apply HK; reflexivity|].
    split; [exact I|]. split; [cbn [cur_l length]; lia|reflexivity].
  - destruct cur as [cid|].
    2:{ exists s, None. split; [reflexivity|]. split; [exact R|]. split; [apply HK; reflexivity|].
        split; [exact I|]. split; [cbn [cur_l length]; lia|reflexivity]. }
    cbn [resubmit].
    pose proof R as (L & S1 & (D1 & D2 & D3)).
    destruct (RI_cur_in_flight _ _ _ _ _ _ R) as (Hc & Hf & Hni).
    destruct (D2 cid eq_refl) as (l & Ph & Pr).
    pose proof (next_ok A WF _ _ _ Pr) as NX. change (gc A (ctxs s) cid) with (getc A s cid) in NX.
    destruct (ctx_next A (getc A s cid)) as [c' [blocks|]].
    + (* a job is emitted *)
      destruct NX as (Pr' & Hrem & Herr).
      unfold submit_job.
      assert (Eg : getc A (setc s cid c') cid = c').
      { unfold getc, setc. cbn [ctxs]. apply nth_upd_eq. rewrite L. exact Hc. }
      rewrite Eg.
      assert (R1 : RI A K (ctxs (setc s cid c')) (held (setc s cid c') ++
                    [{| j_ctx := cid; j_blocks := blocks; j_chain := c_digest c' |}]) a None).
      { unfold setc. cbn [ctxs held]. apply RI_emit; [exact R|]. intros l' Ph'.
        rewrite Ph in Ph'. injection Ph' as <-. exact Pr'. }
      destruct (mgr_submit_ok _ _ _ R1) as (s2 & r2 & E2 & R2 & K2 & T2 & Er2 & L2).
      rewrite E2.
      assert (TT : Ts s2 r2 + 1 = Ts s (Some cid)).
      { rewrite T2. unfold setc. cbn [ctxs held]. unfold idsof. cbn [cur_l].
        rewrite map_app. cbn [map j_ctx]. rewrite !T_app.
        rewrite (T_ext A (ctxs s) (upd cid c' (ctxs s)) (map j_ctx (held s))).
        - unfold T. cbn [map list_sum]. rewrite gc_upd_eq by (rewrite L; exact Hc).
          rewrite !list_sum_cons. change (list_sum []) with 0.
          change (gc A (ctxs s) cid) with (getc A s cid). lia.
        - intros k Hk. rewrite gc_upd_neq; [reflexivity|]. intros ->. contradiction. }
      destruct (IH s2 a r2 R2 K2) as (s' & r & E & R' & K' & RO & T' & Er').
      { assert (length (cur_l r2) <= 1) by (destruct r2; cbn; lia). cbn [cur_l length] in HF. lia. }
      exists s', r. split; [exact E|]. split; [exact R'|]. split; [exact K'|]. split; [exact RO|].
      split.
      * cbn [cur_l length]. destruct r; lia.
      * intros k. rewrite Er', Er2. unfold getc, setc. cbn [ctxs].
        destruct (gc_upd_cases (ctxs s) cid c' k) as [E0|(-> & _ & E0)]; unfold gc in E0; rewrite E0;
          [reflexivity|exact Herr].
    + (* the context goes back to the caller *)
      destruct NX as (Herr & Hlen & Htot & Hl).
      exists (setc s cid c'), (Some cid). split; [reflexivity|].
      assert (Eg : getc A (setc s cid c') cid = c').
      { unfold getc, setc. cbn [ctxs]. apply nth_upd_eq. rewrite L. exact Hc. }
      split; [|split; [|split; [|split]]].
      * unfold setc. cbn [ctxs held retire]. apply RI_return; [exact R| |].
        -- apply retired_not_in_flight. exact Hf.
        -- unfold rest_ok, retired. cbn [s_phase s_stream]. rewrite Ph. split; [exact Hlen|].
           destruct l; [destruct Hl; auto|destruct Hl as (? & ? & ?); auto].
      * unfold setc. cbn [held]. destruct S1 as (_ & _ & _ & K1).
        unfold idsof in K1. rewrite app_length, map_length in K1. cbn [cur_l length] in K1. lia.
      * cbn [ret_ok]. split; [exact Hc|]. exists l. split; [exact Ph|]. rewrite Eg.
        destruct l; [destruct Hl as [Hs Hd]|destruct Hl as (Hs & _)]; repeat split; auto; discriminate.
      * unfold setc. cbn [ctxs held]. rewrite idsof_None. unfold idsof. rewrite T_app.
        rewrite (T_ext A (ctxs s) (upd cid c' (ctxs s)) (map j_ctx (held s))); [lia|].
        intros k Hk. rewrite gc_upd_neq; [reflexivity|]. intros ->. contradiction.
      * intros k. unfold getc, setc. cbn [ctxs].
        destruct (gc_upd_cases (ctxs s) cid c' k) as [E0|(-> & _ & E0)]; unfold gc in E0; rewrite E0;
          [reflexivity|exact Herr].
Qed.

(* ---- between calls ------------------------------------------------------------------------- *)

Definition R (s : st) (a : list actx) : Prop := RIs s a None /\ length (held s) < K.

Definition smalls (a : list actx) : Prop := forall i, i < length a -> small (s_stream (nth i a dummy)).

Lemma proc_ok_processing c sg l d : proc_ok A c sg l d -> has (c_status c) STS_PROCESSING = true.
Proof.
  intros (_ & _ & [(-> & _)|(-> & _)]); [destruct l|]; reflexivity.
Qed.

Lemma R_status s a cid : R s a -> cid < length a ->
  match s_phase (nth cid a dummy) with
  | AFlight _ => has (c_status (getc A s cid)) STS_PROCESSING = true
  | ANew | AComplete => c_status (getc A s cid) = 4%N
  | AIdle => c_status (getc A s cid) = 0%N
  end.
Proof.
  intros [RI1 _] Hc. pose proof RI1 as (L & (N1 & I1 & _) & (D1 & _ & D3)).
  destruct (in_flight (nth cid a dummy)) eqn:F.
  - assert (Hin : In cid (idsof (held s) None)) by (apply I1; split; assumption).
    rewrite idsof_None in Hin. apply in_map_iff in Hin. destruct Hin as (j & <- & Hj).
    destruct (D1 j Hj) as (l & Ph & Pr). rewrite Ph. eapply proc_ok_processing. exact Pr.
  - pose proof (D3 cid Hc F) as (_ & Hr). unfold in_flight in F.
    destruct (s_phase (nth cid a dummy)); try discriminate; try (destruct Hr; assumption); exact Hr.
Qed.

Lemma spec_hand_back a r o l :
  s_phase (nth r a dummy) = AFlight l ->
  o_status o = (if l then 4 else 0)%N ->
  o_total o = w64 (N.of_nat (length (s_stream (nth r a dummy)))) ->
  (l = true -> o_digest o = md_hash A (s_stream (nth r a dummy))) ->
  hand_back_ok A a r o = Some (retire a (Some r)).
Proof.
  intros Ph Hs Ht Hd. unfold hand_back_ok, retire, retired. rewrite Ph, Hs, Ht.
  destruct l.
  - rewrite (Hd eq_refl). rewrite !N.eqb_refl. cbn [andb].
    destruct (list_eq_dec N.eq_dec _ _) as [_|Hne]; [reflexivity|contradiction].
  - rewrite !N.eqb_refl. reflexivity.
Qed.

Lemma ret_ok_spec s' a r rc :
  ret_ok s' a (Some r) -> small (s_stream (nth r a dummy)) ->
  exists o, obs_of A s' (Ret (Some r)) rc = Some o /\ o_ret o = Some r /\ o_rc o = rc /\
            o_error o = c_error (getc A s' r) /\
            hand_back_ok A a r o = Some (retire a (Some r)).
Proof.
  intros (Hr & l & Ph & Hs & Ht & Hd) Hsm. eexists. split; [reflexivity|]. cbn [o_ret o_rc o_error].
  repeat split. eapply spec_hand_back; cbn [o_status o_total o_digest]; eauto.
Qed.

Lemma retire_small a r : smalls (retire a (Some r)) -> r < length a -> small (s_stream (nth r a dummy)).
Proof.
  intros H Hr. specialize (H r). cbn [retire] in H. rewrite length_upd in H. specialize (H Hr).
  rewrite nth_upd_eq in H by exact Hr. exact H.
Qed.

Lemma R_n_flight s a : R s a -> n_flight a = length (held s).
Proof.
  intros [(_ & (_ & _ & C & _) & _) _]. rewrite C, idsof_None. apply map_length.
Qed.

Lemma fuel_enough s cur : T A (ctxs s) (idsof (held s) cur) + length (cur_l cur) <= fuel_for s.
Proof.
  pose proof (T_le2 A (ctxs s) (idsof (held s) cur)) as H. unfold fuel_for.
  unfold idsof in *. rewrite app_length, map_length in H.
  assert (length (cur_l cur) <= 1) by (destruct cur; cbn; lia). lia.
Qed.

(* ---- submit -------------------------------------------------------------------------------- *)

Lemma api_submit_ok s a cid buf flags : R s a -> cid < length a ->
  exists s' r rc, api_submit A K sched s cid buf flags = (s', Ret r, rc) /\
    R s' (abs_step a (CSubmit cid buf flags) r) /\
    (forall ob, obs_of A s' (Ret r) rc = Some ob -> step_struct a (CSubmit cid buf flags) ob) /\
    (smalls a -> smalls (abs_step a (CSubmit cid buf flags) r) ->
     exists o, obs_of A s' (Ret r) rc = Some o /\
               spec_check A K a (CSubmit cid buf flags) o = Some (abs_step a (CSubmit cid buf flags) r)).
Proof.
  intros HR Hc. pose proof (R_status s a cid HR Hc) as Hst.
  pose proof (accept_rejection A (getc A s cid) (nth cid a dummy) buf flags Hst) as AR.
  destruct HR as [RI1 HK]. pose proof RI1 as (L & S1 & (D1 & D2 & D3)).
  assert (Hcl : (cid <? length a) = true) by (apply Nat.ltb_lt; exact Hc).
  unfold api_submit, ctx_submit, abs_step.
  destruct (rejection (nth cid a dummy) flags) as [e|] eqn:Rej.
  - (* rejected *)
    rewrite AR.
    assert (Eg : getc A (setc s cid (set_error (getc A s cid) e)) cid = set_error (getc A s cid) e).
    { unfold getc at 1, setc. cbn [ctxs]. apply nth_upd_eq. rewrite L. exact Hc. }
    eexists. eexists. eexists. split; [reflexivity|]. rewrite Nat.eqb_refl, Eg. cbn [set_error c_error].
    split; [|split].
    + split; [|exact HK]. unfold setc. cbn [ctxs held]. apply RI_set_error. exact RI1.
    + intros ob Eo. cbn [obs_of] in Eo. rewrite Eg in Eo. injection Eo as <-.
      unfold step_struct. split; [exact Hc|]. rewrite Rej.
      cbn [o_rc o_ret o_error set_error c_error]. repeat split; reflexivity.
    + intros Hsm _. eexists. split; [reflexivity|]. rewrite Eg.
      unfold spec_check. rewrite Hcl. cbn [negb]. rewrite Rej.
      cbn [o_ret o_error o_rc o_status o_digest set_error c_status c_error c_digest].
      rewrite Nat.eqb_refl, N.eqb_refl. change (map_error e) with (rc_of e). rewrite N.eqb_refl.
      cbn [andb].
      destruct (in_flight (nth cid a dummy)) eqn:F.
      * unfold in_flight in F. destruct (s_phase (nth cid a dummy)); try discriminate.
        unfold has, STS_PROCESSING in Hst. rewrite Hst. reflexivity.
      * pose proof (D3 cid Hc F) as (_ & Hr). unfold in_flight in F.
        change (gc A (ctxs s) cid) with (getc A s cid) in Hr.
        destruct (s_phase (nth cid a dummy)); try discriminate.
        -- rewrite Hr. reflexivity.
        -- destruct Hr as (E1 & _ & E3). rewrite E1, (E3 (Hsm cid Hc)). cbn [N.eqb Pos.eqb andb].
           destruct (list_eq_dec N.eq_dec _ _) as [_|Hne]; [reflexivity|contradiction].
        -- destruct Hr as (E1 & _). rewrite E1. reflexivity.
  - (* accepted *)
    destruct AR as (c' & jo & EA). rewrite EA.
    assert (Hnf : in_flight (nth cid a dummy) = false).
    { unfold rejection in Rej. unfold in_flight. destruct (flag_bad flags); [discriminate|].
      destruct (s_phase (nth cid a dummy)); try reflexivity. discriminate. }
    pose proof (D3 cid Hc Hnf) as (Hpl & Hr). change (gc A (ctxs s) cid) with (getc A s cid) in *.
    set (sg' := (if flag_first flags then [] else s_stream (nth cid a dummy)) ++ buf).
    set (a1 := upd cid {| s_stream := sg'; s_phase := AFlight (flag_last flags) |} a).
    assert (AO : c_error c' = 0%N /\
       match jo with
       | None => proc_ok A c' sg' (flag_last flags) (c_digest c')
       | Some blocks => proc_ok A c' sg' (flag_last flags) (fold_left (a_compress A) blocks (c_digest c'))
       end).
    { apply (accept_ok A WF _ (s_stream (nth cid a dummy)) _ _ _ _ EA Hpl).
      change (has flags FLAG_FIRST) with (flag_first flags). intros Hff.
      unfold rejection in Rej. destruct (flag_bad flags); [discriminate|]. rewrite Hff in Rej.
      destruct (s_phase (nth cid a dummy)); try discriminate.
      destruct Hr as (_ & E2 & E3 & E4). auto. }
    destruct AO as (Herr & AO).
    assert (Eg : getc A (setc s cid c') cid = c').
    { unfold getc, setc. cbn [ctxs]. apply nth_upd_eq. rewrite L. exact Hc. }
    (* both paths end in a call of resubmit from a state satisfying the loop invariant *)
    assert (LOOP : forall s2 r2 fuel, RIs s2 a1 r2 -> (r2 = None -> length (held s2) < K) ->
              Ts s2 r2 + length (cur_l r2) <= fuel ->
              c_error (getc A s2 cid) = 0%N ->
              exists s' r rc,
                (let '(s', o) := resubmit A K sched fuel s2 r2 in
                 (s', o, match o with
                         | Ret (Some r) => if r =? cid then map_error (c_error (getc A s' r)) else 0%N
                         | _ => 0%N
                         end)) = (s', Ret r, rc) /\
                R s' (retire a1 r) /\
                (forall ob, obs_of A s' (Ret r) rc = Some ob -> step_struct a (CSubmit cid buf flags) ob) /\
                (smalls a -> smalls (retire a1 r) ->
                 exists o, obs_of A s' (Ret r) rc = Some o /\
                   spec_check A K a (CSubmit cid buf flags) o = Some (retire a1 r))).
    { intros s2 r2 fuel R2 K2 F2 E2.
      destruct (resubmit_ok fuel s2 a1 r2 R2 K2 F2) as (s' & r & E & R' & K' & RO & _ & Er).
      rewrite E. eexists. eexists. eexists. split; [reflexivity|]. split; [split; assumption|].
      split.
      { intros ob Eo. unfold step_struct. split; [exact Hc|]. rewrite Rej. fold sg'. fold a1.
        destruct r as [r|].
        - assert (Erc : (if r =? cid then map_error (c_error (getc A s' r)) else 0%N) = 0%N).
          { destruct (r =? cid) eqn:Eq; [|reflexivity]. apply Nat.eqb_eq in Eq. subst r.
            rewrite Er, E2. reflexivity. }
          rewrite Erc in Eo. cbn [obs_of] in Eo. injection Eo as <-.
          cbn [o_rc o_ret o_error]. split; [reflexivity|]. split.
          + intros r' Hr'. injection Hr' as <-. destruct RO as (_ & l & Ph & Hs & Ht & _).
            exists l. cbn [o_status o_total]. auto.
          + intros Hr'. injection Hr' as ->. rewrite Er, E2. reflexivity.
        - cbn [obs_of] in Eo. injection Eo as <-. cbn [o_rc o_ret o_error].
          split; [reflexivity|]. split; [intros r' [=]|intros [=]]. }
      intros Hsm Hsm'.
      assert (NF : n_flight (retire a1 r) = length (held s')).
      { apply (R_n_flight s'). split; assumption. }
      unfold spec_check. rewrite Hcl. cbn [negb]. rewrite Rej. fold sg'. fold a1.
      destruct r as [r|].
      - assert (Hr' : r < length a1) by (destruct RO; assumption).
        assert (Erc : (if r =? cid then map_error (c_error (getc A s' r)) else 0%N) = 0%N).
        { destruct (r =? cid) eqn:Eq; [|reflexivity]. apply Nat.eqb_eq in Eq. subst r.
          rewrite Er, E2. reflexivity. }
        rewrite Erc.
        destruct (ret_ok_spec s' a1 r 0%N RO (retire_small a1 r Hsm' Hr')) as (o & Eo & O1 & O2 & O3 & O4).
        exists o. split; [exact Eo|]. rewrite O2. cbn [N.eqb negb]. rewrite O1.
        assert (Ee : ((r =? cid) && negb (o_error o =? 0)%N)%bool = false).
        { destruct (r =? cid) eqn:Eq; [|reflexivity]. apply Nat.eqb_eq in Eq. subst r.
          rewrite O3, Er, E2. reflexivity. }
        rewrite Ee, O4, NF. apply Nat.ltb_lt in K'. rewrite K'. reflexivity.
      - eexists. split; [reflexivity|]. cbn [o_rc o_ret N.eqb negb]. cbn [retire] in NF.
        rewrite NF. apply Nat.ltb_lt in K'. rewrite K'. reflexivity. }
    destruct jo as [blocks|].
    + (* the partial block filled up: its job goes to the manager first *)
      unfold submit_job. rewrite Eg.
      assert (R1 : RI A K (ctxs (setc s cid c')) (held (setc s cid c') ++
                    [{| j_ctx := cid; j_blocks := blocks; j_chain := c_digest c' |}]) a1 None).
      { unfold setc. cbn [ctxs held]. apply RI_accept_emit; assumption. }
      destruct (mgr_submit_ok _ _ _ R1) as (s2 & r2 & E2 & R2 & K2 & T2 & Er2 & L2).
      rewrite E2. apply LOOP; try assumption; [apply fuel_enough|].
      rewrite Er2, Eg. exact Herr.
    + apply LOOP.
      * unfold setc. cbn [ctxs held]. apply RI_accept; assumption.
      * discriminate.
      * unfold setc. cbn [ctxs held].
        pose proof (T_le2 A (upd cid c' (ctxs s)) (idsof (held s) (Some cid))) as H. unfold fuel_for.
        unfold idsof in *. rewrite app_length, map_length in H. cbn [cur_l length] in *. lia.
      * rewrite Eg. exact Herr.
Qed.

(* ---- flush --------------------------------------------------------------------------------- *)

Lemma mgr_flush_cases s :
  (held s = [] /\ mgr_flush A sched s = (s, None)) \/
  (exists i, i < length (held s) /\ mgr_flush A sched s = hand_back A s i).
Proof.
  unfold mgr_flush. destruct (held s) as [|j0 hs] eqn:Eh; [left; split; reflexivity|right].
  destruct (choose sched s) as [i|] eqn:Ch.
  - exists i. split; [rewrite <- Eh; apply choose_lt; exact Ch|reflexivity].
  - exists 0. split; [cbn; lia|reflexivity].
Qed.

Lemma ctx_flush_f_ok : forall fuel s a, R s a -> Ts s None < fuel ->
  exists s' r, ctx_flush_f A K sched fuel s = (s', Ret r) /\ R s' (retire a r) /\ ret_ok s' a r /\
               (r = None -> n_flight a = 0).
Proof.
  induction fuel as [|f IH]; intros s a HR HF; [lia|].
  pose proof HR as [RI1 HK]. cbn [ctx_flush_f].
  destruct (mgr_flush_cases s) as [[Eh ->]|(i & Hi & ->)].
  - exists s, None. split; [reflexivity|]. split; [exact HR|]. split; [exact I|].
    intros _. rewrite (R_n_flight s a HR), Eh. reflexivity.
  - destruct (hand_back_inv s a i RI1 Hi) as (s1 & c & E1 & R1 & L1 & T1 & Er1).
    rewrite E1.
    destruct (resubmit_ok (fuel_for s1) s1 a (Some c) R1 ltac:(discriminate) (fuel_enough s1 (Some c)))
      as (s2 & r & E2 & R2 & K2 & RO & T2 & _).
    rewrite E2. destruct r as [r|].
    + exists s2, (Some r). split; [reflexivity|]. split; [split; assumption|]. split; [exact RO|].
      discriminate.
    + cbn [retire] in R2. cbn [cur_l length] in T2.
      destruct (IH s2 a (conj R2 K2)) as (s' & r' & E & R' & RO' & N').
      { rewrite T1 in T2. lia. }
      exists s', r'. split; [exact E|]. split; [exact R'|]. split; [exact RO'|].
      intros ->. specialize (N' eq_refl).
      (* the manager still holds something: nothing was returned to the caller *)
      rewrite (R_n_flight s a HR) in N'. lia.
Qed.

Lemma ctx_flush_ok s a : R s a ->
  exists s' r, ctx_flush A K sched s = (s', Ret r) /\ R s' (retire a r) /\ ret_ok s' a r /\
               (r = None -> n_flight a = 0).
Proof.
  intros HR. apply ctx_flush_f_ok; [exact HR|].
  pose proof (T_le2 A (ctxs s) (idsof (held s) None)) as H. rewrite idsof_None in *.
  rewrite map_length in H. unfold fuel_for. lia.
Qed.

(* ---- one call, a whole history ---------------------------------------------------------------- *)

Definition op_ok (n : nat) (o : op) : Prop :=
  match o with Submit cid _ _ => cid < n | Flush => True end.

Lemma obs_of_Ret s' r rc : exists ob, obs_of A s' (Ret r) rc = Some ob /\ o_ret ob = r /\ o_rc ob = rc.
Proof. destruct r; eexists; (split; [reflexivity|]); split; reflexivity. Qed.

Lemma step_ok s a o : R s a -> op_ok (length a) o ->
  exists s' r rc ob, step A K sched s o = (s', Ret r, rc) /\
    obs_of A s' (Ret r) rc = Some ob /\ o_ret ob = r /\ o_rc ob = rc /\
    R s' (abs_step a (call_of o) r) /\
    step_struct a (call_of o) ob /\
    (smalls a -> smalls (abs_step a (call_of o) r) ->
     spec_check A K a (call_of o) ob = Some (abs_step a (call_of o) r)).
Proof.
  intros HR Hop. destruct o as [cid buf flags|]; cbn [step call_of].
  - destruct (api_submit_ok s a cid buf flags HR Hop) as (s' & r & rc & E & R' & SS & SP).
    destruct (obs_of_Ret s' r rc) as (ob & Eo & Or & Oc).
    exists s', r, rc, ob. repeat (split; [first [reflexivity|assumption]|]).
    split; [apply SS; exact Eo|].
    intros H1 H2. destruct (SP H1 H2) as (o & Eo' & SC). rewrite Eo in Eo'. injection Eo' as ->. exact SC.
  - destruct (ctx_flush_ok s a HR) as (s' & r & E & R' & RO & N0). rewrite E.
    destruct (obs_of_Ret s' r 0%N) as (ob & Eo & Or & Oc).
    exists s', r, 0%N, ob. repeat (split; [first [reflexivity|assumption]|]). cbn [abs_step].
    split.
    { cbn [step_struct]. split; [exact Oc|]. split.
      - intros r' Hr'. rewrite Or in Hr'. rewrite Hr' in *. unfold obs_of in Eo. injection Eo as <-.
        destruct RO as (_ & l & Ph & Hs & Ht & _). exists l. cbn [o_status o_total]. auto.
      - intros Hn. rewrite Or in Hn. apply N0. exact Hn. }
    intros H1 H2. unfold spec_check. rewrite Oc. cbn [N.eqb negb]. rewrite Or.
    destruct r as [r|].
    + assert (Hr : r < length a) by (destruct RO; assumption).
      destruct (ret_ok_spec s' a r 0%N RO (retire_small a r H2 Hr)) as (o & Eo' & _ & _ & _ & HB).
      rewrite Eo in Eo'. injection Eo' as ->. exact HB.
    + rewrite (N0 eq_refl). reflexivity.
Qed.

(* every stream the acceptor tracks along the trace stays below 2^61 bytes *)
Fixpoint bounded (a : list actx) (tr : list (call * obs)) : Prop :=
  match tr with
  | [] => True
  | (c, o) :: rest => smalls (abs_step a c (o_ret o)) /\ bounded (abs_step a c (o_ret o)) rest
  end.

Lemma run_ok : forall ops s a, R s a -> Forall (op_ok (length a)) ops ->
  exists tr, run_obs A K sched s ops = Some tr /\ map fst tr = map call_of ops /\
    trace_struct a tr /\ R (fst (run A K sched s ops)) (abs_run a tr) /\
    (smalls a -> bounded a tr -> accepts A K a tr = true).
Proof.
  induction ops as [|o ops IH]; intros s a HR Hops.
  - exists []. split; [reflexivity|]. split; [reflexivity|]. split; [exact I|]. split; [exact HR|].
    reflexivity.
  - inversion Hops as [|? ? Ho Hops']; subst.
    destruct (step_ok s a o HR Ho) as (s' & r & rc & ob & E & Eo & Or & Oc & R' & SS & SC).
    destruct (IH s' (abs_step a (call_of o) r) R') as (tr & Et & Em & TS & RF & Acc).
    { rewrite length_abs_step. exact Hops'. }
    exists ((call_of o, ob) :: tr). cbn [run_obs]. unfold step_obs. rewrite E, Eo, Et.
    split; [reflexivity|]. split; [cbn [map fst]; rewrite Em; reflexivity|].
    split; [cbn [trace_struct]; rewrite Or; split; assumption|].
    split.
    { cbn [run abs_run]. rewrite E, Or. destruct (run A K sched s' ops) as [s2 outs]. exact RF. }
    intros Hsm [Hb1 Hb2]. rewrite Or in *. cbn [accepts]. rewrite (SC Hsm Hb1). apply Acc; assumption.
Qed.

(* ---- the initial state ------------------------------------------------------------------------ *)

Definition ctx_typed (c : ctx) : Prop := length (c_pbuf c) = 2 * B A.

Lemma init_R junk : 1 <= K -> Forall ctx_typed junk ->
  R (model_init A junk) (spec_init (length junk)).
Proof.
  intros HK Hty. unfold model_init, mgr_init, spec_init. split; [|cbn [held length]; lia].
  cbn [ctxs held]. split; [rewrite map_length, repeat_length; reflexivity|]. split.
  - unfold idsof. cbn [map cur_l app]. split; [constructor|]. split; [|split].
    + intros i. split; [intros []|]. intros [_ H]. rewrite nth_repeat_dummy in H. discriminate.
    + apply n_flight_repeat_dummy.
    + cbn [length]. lia.
  - split; [intros j []|]. split; [intros c [=]|].
    intros i Hi _. rewrite repeat_length in Hi. rewrite nth_repeat_dummy.
    unfold gc. rewrite (nth_indep _ _ (ctx_init (dflt_ctx A))) by (rewrite map_length; exact Hi).
    rewrite map_nth. unfold rest_ok. cbn [dummy s_phase ctx_init set_error set_status c_pbuf c_status].
    split; [|reflexivity]. rewrite Forall_forall in Hty. apply Hty. apply nth_In. exact Hi.
Qed.

Lemma init_smalls n : smalls (spec_init n).
Proof. intros i _. unfold spec_init. rewrite nth_repeat_dummy. reflexivity. Qed.

(* THE REFINEMENT THEOREM *)
Theorem hash_refines_run junk ops :
  1 <= K -> Forall ctx_typed junk -> Forall (op_ok (length junk)) ops ->
  exists tr, run_obs A K sched (model_init A junk) ops = Some tr /\
    map fst tr = map call_of ops /\
    trace_struct (spec_init (length junk)) tr /\
    R (fst (run A K sched (model_init A junk) ops)) (abs_run (spec_init (length junk)) tr) /\
    (bounded (spec_init (length junk)) tr -> accepts A K (spec_init (length junk)) tr = true).
Proof.
  intros HK Hty Hops.
  destruct (run_ok ops (model_init A junk) (spec_init (length junk)) (init_R junk HK Hty))
    as (tr & E & Em & TS & RF & Acc).
  { unfold spec_init. rewrite repeat_length. exact Hops. }
  exists tr. split; [exact E|]. split; [exact Em|]. split; [exact TS|]. split; [exact RF|].
  intros Hb. apply Acc; [apply init_smalls|exact Hb].
Qed.

End Refine.
