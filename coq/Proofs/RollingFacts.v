(* Proofs about the rolling hash: the window hash is a closed-form function of the
   window, the model of rolling_hash2_run refines run_spec for every state, buffer,
   mask and trigger, and boundaries are independent of how a stream is cut. *)
From Coq Require Import NArith List Arith Lia Bool.
From ISAL Require Import Base.Words Base.ListUtil Spec.Rolling Model.RollRun
  Proofs.WordsFacts Proofs.ListFacts.
Import ListNotations.

Section RF.
Variable T1 : N -> N.
Hypothesis T1_bound : forall b, (T1 b < 2 ^ 64)%N.

Local Notation H := (H T1).
Local Notation Hx := (Hx T1).
Local Notation hstep := (hstep T1).

Local Open Scope N_scope.

Lemma lxor_cancel3 a b c : N.lxor (N.lxor a b) (N.lxor c a) = N.lxor b c.
Proof.
  apply N.bits_inj. intros i. rewrite !N.lxor_spec.
  destruct (N.testbit a i), (N.testbit b i), (N.testbit c i); reflexivity.
Qed.

Lemma Hx_lt win : Hx win < 2 ^ 64.
Proof.
  induction win as [|b r IH]; cbn [Rolling.Hx]; [reflexivity|].
  apply lxor_lt; [apply rol_lt|exact IH].
Qed.

Lemma hstep_lt h b : hstep h b < 2 ^ 64.
Proof. unfold Rolling.hstep. apply lxor_lt; [apply rol_lt|apply T1_bound]. Qed.

Lemma fold_hstep_closed win : forall h0,
  h0 < 2 ^ 64 -> (length win <= 64)%nat ->
  fold_left hstep win h0 = N.lxor (rol64 h0 (N.of_nat (length win))) (Hx win).
Proof.
  induction win as [|b r IH]; intros h0 Hh Hl; cbn [fold_left length Rolling.Hx].
  - unfold rol64. rewrite rol_0 by (try exact Hh; lia). rewrite N.lxor_0_r. reflexivity.
  - cbn [length] in Hl. rewrite IH by (try apply hstep_lt; lia).
    unfold Rolling.hstep at 1. unfold rol64.
    rewrite rol_lxor by (try apply rol_lt; try apply T1_bound; lia).
    rewrite rol_rol by (try exact Hh; lia).
    rewrite Nat2N.inj_succ. rewrite <- N.add_1_l.
    rewrite N.lxor_assoc. reflexivity.
Qed.

Lemma H_Hx win : (length win <= 64)%nat -> H win = Hx win.
Proof.
  intros Hl. unfold Rolling.H. rewrite fold_hstep_closed by (try exact Hl; reflexivity).
  unfold rol64. rewrite rol_0_l. apply N.lxor_0_l.
Qed.

Lemma H_snoc win b : H (win ++ [b]) = hstep (H win) b.
Proof. unfold Rolling.H. rewrite fold_left_app. reflexivity. Qed.

(* the leaving byte cancels: this is why the hash depends on the window only *)
Lemma slide_hash w o t b :
  length (o :: t) = w -> (w <= 63)%nat ->
  hash_fn T1 w (H (o :: t)) b o = H (t ++ [b]).
Proof.
  intros Hlen Hw. cbn [length] in Hlen.
  rewrite H_snoc. unfold Rolling.hstep, hash_fn, T2.
  rewrite !H_Hx by (cbn [length]; lia).
  cbn [Rolling.Hx]. unfold rol64.
  rewrite rol_lxor by (try apply rol_lt; try apply Hx_lt; lia).
  rewrite rol_rol by (try apply T1_bound; lia).
  replace (N.of_nat (length t) + 1) with (N.of_nat w) by lia.
  apply lxor_cancel3.
Qed.

Section Run.
Variables (w : nat) (mask trig : N).
Hypothesis w_lo : (1 <= w)%nat.
Hypothesis w_hi : (w <= 63)%nat.

Local Notation first_hit := (first_hit T1 w mask trig).
Local Notation hit := (hitb mask trig).

Lemma win_hit_step seen o t b :
  lastn w seen = o :: t -> length (o :: t) = w ->
  lastn w (seen ++ [b]) = t ++ [b] /\
  win_hit T1 w mask trig (seen ++ [b]) = hit (hash_fn T1 w (H (o :: t)) b o).
Proof.
  intros Hl Hlen.
  assert (E : lastn w (seen ++ [b]) = t ++ [b]).
  { rewrite lastn_app_lastn, Hl. apply lastn_cons_snoc. exact Hlen. }
  split; [exact E|]. unfold win_hit. rewrite E.
  rewrite (slide_hash w o t b Hlen w_hi). reflexivity.
Qed.

Lemma phase1_spec : forall hrest brest tail i h seen n0,
  length (hrest ++ tail) = w -> lastn w seen = hrest ++ tail -> h = H (hrest ++ tail) ->
  match phase1 T1 w mask trig hrest brest i h with
  | P1Max j h' =>
      (length brest < length hrest)%nat /\ j = (i + length brest)%nat /\
      first_hit seen brest n0 = None /\
      h' = H (skipn (length brest) hrest ++ tail ++ brest)
  | P1Hit j h' =>
      exists k, (1 <= k)%nat /\ (k <= length hrest)%nat /\ (k <= length brest)%nat /\
      j = (i + k)%nat /\ first_hit seen brest n0 = Some (n0 + k)%nat /\
      h' = H (skipn k hrest ++ tail ++ firstn k brest) /\ hit h' = true
  | P1Go j h' =>
      (length hrest <= length brest)%nat /\ j = (i + length hrest)%nat /\
      first_hit seen brest n0 =
        first_hit (seen ++ firstn (length hrest) brest) (skipn (length hrest) brest)
                  (n0 + length hrest)%nat /\
      h' = H (tail ++ firstn (length hrest) brest) /\
      (hrest <> [] -> hit h' = false)
  end.
Proof.
  induction hrest as [|old hr IH]; intros brest tail i h seen n0 Hlen Hlast Hh.
  - cbn [phase1 length firstn skipn app]. rewrite !app_nil_r, !Nat.add_0_r.
    repeat split; try lia; try assumption. intros C; contradiction C; reflexivity.
  - destruct brest as [|b br].
    + cbn [phase1 length skipn app]. rewrite Nat.add_0_r, app_nil_r.
      repeat split; try lia. exact Hh.
    + cbn [phase1].
      assert (Hlen' : length (old :: (hr ++ tail)) = w) by exact Hlen.
      assert (Hlast' : lastn w seen = old :: (hr ++ tail)) by exact Hlast.
      destruct (win_hit_step seen old (hr ++ tail) b Hlast' Hlen') as [E1 E2].
      assert (Hh' : h = H (old :: hr ++ tail)) by exact Hh.
      rewrite <- Hh' in E2.
      remember (hash_fn T1 w h b old) as h1 eqn:Eh1.
      assert (Hh1 : h1 = H (hr ++ tail ++ [b])).
      { rewrite Eh1, Hh'. rewrite (slide_hash w old (hr ++ tail) b Hlen' w_hi).
        rewrite app_assoc. reflexivity. }
      destruct (hit h1) eqn:Ehit.
      * exists 1%nat. cbn [length firstn skipn]. repeat split; try lia; try assumption.
        cbn [Rolling.first_hit]. rewrite E2. f_equal; lia.
      * specialize (IH br (tail ++ [b]) (S i) h1 (seen ++ [b]) (S n0)).
        rewrite <- !app_assoc in IH. cbn [app] in IH.
        assert (L1 : length (hr ++ tail ++ [b]) = w).
        { rewrite !app_length in *. cbn [length] in *. lia. }
        assert (L2 : lastn w (seen ++ [b]) = hr ++ tail ++ [b]).
        { rewrite E1, app_assoc. reflexivity. }
        specialize (IH L1 L2 Hh1).
        assert (FH : first_hit seen (b :: br) n0 = first_hit (seen ++ [b]) br (S n0)).
        { cbn [Rolling.first_hit]. rewrite E2. reflexivity. }
        destruct (phase1 T1 w mask trig hr br (S i) h1) as [j h'|j h'|j h'] eqn:Ep.
        -- destruct IH as (A & B & C & D). cbn [length skipn].
           split; [lia|]. split; [lia|]. split; [rewrite FH; exact C|first [exact D | rewrite <- app_assoc in D; exact D]].
        -- destruct IH as (k & A & B & C & D & E & F & G).
           exists (S k). cbn [length skipn firstn].
           split; [lia|]. split; [lia|]. split; [lia|]. split; [lia|].
           split; [rewrite FH, E; f_equal; lia|]. split; [first [exact F | rewrite <- app_assoc in F; exact F]|exact G].
        -- destruct IH as (A & B & C & D & E). cbn [length skipn firstn].
           split; [lia|]. split; [lia|].
           split; [rewrite FH, C; rewrite <- ?app_assoc; cbn [app]; f_equal; lia|].
           split; [first [exact D | rewrite <- app_assoc in D; exact D]|].
           intros _. destruct hr as [|x hr'].
           ++ cbn [phase1] in Ep. injection Ep as _ Eh2. rewrite <- Eh2. exact Ehit.
           ++ apply E. discriminate.
Qed.

Lemma scan_spec : forall news win i h seen n0,
  length win = w -> lastn w seen = win -> h = H win ->
  match scan T1 w mask trig news (win ++ news) i h with
  | (idx, h', true) =>
      exists k, (k < length news)%nat /\ idx = (i + k)%nat /\
      first_hit seen news n0 = Some (n0 + S k)%nat /\
      h' = H (lastn w (win ++ firstn (S k) news)) /\ hit h' = true
  | (idx, h', false) =>
      idx = (i + length news)%nat /\ first_hit seen news n0 = None /\
      h' = H (lastn w (win ++ news)) /\ (news <> [] -> hit h' = false)
  end.
Proof.
  induction news as [|b nr IH]; intros win i h seen n0 Hlen Hlast Hh.
  - cbn [scan length]. rewrite app_nil_r, Nat.add_0_r. rewrite lastn_all by lia.
    repeat split; try assumption. intros C; contradiction C; reflexivity.
  - destruct win as [|o t]; [cbn [length] in Hlen; lia|].
    cbn [scan app].
    destruct (win_hit_step seen o t b Hlast Hlen) as [E1 E2]. rewrite <- Hh in E2.
    remember (hash_fn T1 w h b o) as h1 eqn:Eh1.
    assert (Hh1 : h1 = H (t ++ [b])).
    { rewrite Eh1, Hh. apply (slide_hash w o t b Hlen w_hi). }
    assert (Lw : length (t ++ [b]) = w).
    { rewrite app_length in *. cbn [length] in *. lia. }
    destruct (hit h1) eqn:Ehit.
    + exists 0%nat. cbn [length firstn].
      split; [lia|]. split; [lia|].
      split; [cbn [Rolling.first_hit]; rewrite E2; f_equal; lia|].
      split; [|exact Ehit].
      rewrite Hh1. f_equal. symmetry. apply (lastn_cons_snoc w o t b Hlen).
    + specialize (IH (t ++ [b]) (S i) h1 (seen ++ [b]) (S n0) Lw E1 Hh1).
      rewrite <- app_assoc in IH. cbn [app] in IH.
      assert (FH : first_hit seen (b :: nr) n0 = first_hit (seen ++ [b]) nr (S n0)).
      { cbn [Rolling.first_hit]. rewrite E2. reflexivity. }
      assert (LL : forall X, lastn w (o :: t ++ b :: X) = lastn w (t ++ b :: X)).
      { intros X. change (o :: t ++ b :: X) with ((o :: t) ++ [b] ++ X).
        change (t ++ b :: X) with (t ++ [b] ++ X). rewrite !app_assoc.
        rewrite lastn_app_lastn. rewrite (lastn_cons_snoc w o t b Hlen). reflexivity. }
      destruct (scan T1 w mask trig nr (t ++ b :: nr) (S i) h1) as [[idx h'] [|]] eqn:Es.
      * destruct IH as (k & A & B & C & D & E).
        exists (S k). cbn [length].
        split; [lia|]. split; [lia|]. split; [rewrite FH, C; f_equal; lia|].
        split; [|exact E].
        rewrite D. f_equal. cbn [firstn]. rewrite <- ?app_assoc. cbn [app]. symmetry. apply LL.
      * destruct IH as (A & B & C & D). cbn [length].
        split; [lia|]. split; [rewrite FH; exact B|].
        split; [rewrite C; f_equal; rewrite <- ?app_assoc; cbn [app]; symmetry; apply LL|].
        intros _. destruct nr as [|x nr'].
        -- cbn [scan] in Es. injection Es as _ Eh2. rewrite <- Eh2. exact Ehit.
        -- apply D. discriminate.
Qed.

Definition Inv (s : rh_state) (seen : list N) : Prop :=
  rw s = w /\ (w <= length seen)%nat /\ rhist s = lastn w seen /\ rhash s = H (rhist s).

Lemma firstn_plus {A} (l : list A) a b : firstn (a + b) l = firstn a l ++ firstn b (skipn a l).
Proof.
  revert l; induction a as [|a IH]; intros l; [reflexivity|].
  destruct l as [|x l]; [cbn; rewrite firstn_nil; reflexivity|].
  cbn [plus firstn skipn app]. f_equal. apply IH.
Qed.

Lemma hist_after (buf seen : list N) j :
  (w <= j)%nat -> (j <= length buf)%nat ->
  firstn w (skipn (j - w) buf) = lastn w (seen ++ firstn j buf).
Proof.
  intros H1 H2. rewrite lastn_app_r by (rewrite firstn_length; lia).
  unfold lastn. rewrite firstn_length. replace (Nat.min j (length buf)) with j by lia.
  rewrite firstn_skipn_comm. f_equal. f_equal. lia.
Qed.

Theorem rh_run_correct s seen buf :
  Inv s seen ->
  let '(s', off, v) := rh_run T1 s buf mask trig in
  (v, off) = run_spec T1 w mask trig seen buf /\
  (off <= length buf)%nat /\
  Inv s' (seen ++ firstn off buf).
Proof.
  intros (Hw & Hseen & Hhist & Hhash).
  assert (Lh : length (rhist s) = w).
  { rewrite Hhist, length_lastn. lia. }
  unfold rh_run. rewrite Hw.
  pose proof (phase1_spec (rhist s) buf [] 0 (rhash s) seen 0) as P1.
  rewrite app_nil_r in P1. specialize (P1 Lh (eq_sym Hhist) Hhash).
  unfold run_spec.
  destruct (phase1 T1 w mask trig (rhist s) buf 0 (rhash s)) as [j h'|j h'|j h'].
  - destruct P1 as (A & B & C & D). cbn [plus] in B. subst j.
    rewrite C. rewrite firstn_all. split; [reflexivity|]. split; [lia|].
    unfold Inv. cbn [rw rhash rhist]. repeat split.
    + rewrite app_length; lia.
    + rewrite lastn_app_lastn, <- Hhist. unfold lastn at 1.
      rewrite app_length. f_equal.
      rewrite skipn_app_le by lia. f_equal. f_equal. lia.
    + cbn [app] in D. exact D.
  - destruct P1 as (k & A & B & C & D & E & F & G). cbn [plus] in D, E. subst j.
    rewrite E. split; [reflexivity|]. split; [lia|].
    unfold Inv. cbn [rw rhash rhist]. repeat split.
    + rewrite app_length; lia.
    + rewrite lastn_app_lastn, <- Hhist. unfold lastn at 1.
      rewrite app_length, firstn_length. replace (Nat.min k (length buf)) with k by lia.
      rewrite skipn_app_le by lia. f_equal. f_equal. lia.
    + cbn [app] in F. exact F.
  - destruct P1 as (A & B & C & D & E). cbn [plus] in B, C. rewrite Lh in *. subst j.
    cbn [app] in D.
    set (win := firstn w buf) in *.
    assert (Lwin : length win = w) by (unfold win; rewrite firstn_length; lia).
    assert (Hl2 : lastn w (seen ++ win) = win).
    { rewrite lastn_app_r by lia. apply lastn_all; lia. }
    pose proof (scan_spec (skipn w buf) win w h' (seen ++ win) w Lwin Hl2 D) as P2.
    unfold win in P2 at 1. rewrite firstn_skipn in P2.
    assert (Hne : rhist s <> []) by (intros C0; rewrite C0 in Lh; cbn in Lh; lia).
    specialize (E Hne).
    destruct (scan T1 w mask trig (skipn w buf) buf w h') as [[idx h2] [|]].
    + destruct P2 as (k & K1 & K2 & K3 & K4 & K5). rewrite K5. rewrite skipn_length in K1.
      rewrite C, K3. subst idx.
      split; [f_equal; lia|]. split; [lia|].
      assert (EE : seen ++ firstn (S (w + k)) buf = (seen ++ win) ++ firstn (S k) (skipn w buf)).
      { replace (S (w + k)) with (w + S k)%nat by lia. rewrite firstn_plus, app_assoc. reflexivity. }
      unfold Inv. cbn [rw rhash rhist]. repeat split.
      * rewrite app_length; lia.
      * apply hist_after; lia.
      * rewrite K4. f_equal. rewrite (hist_after buf seen) by lia.
        rewrite EE. rewrite (lastn_app_lastn w (seen ++ win)), Hl2. reflexivity.
    + destruct P2 as (K1 & K2 & K3 & K4). rewrite skipn_length in K1.
      rewrite C, K2.
      assert (Hno : hit h2 = false).
      { destruct (skipn w buf) as [|x xs] eqn:Esk.
        - rewrite app_nil_r in K3. rewrite lastn_all in K3 by lia. rewrite K3, <- D. exact E.
        - apply K4. discriminate. }
      rewrite Hno. subst idx. replace (w + (length buf - w))%nat with (length buf) by lia.
      split; [reflexivity|]. split; [lia|].
      unfold Inv. cbn [rw rhash rhist]. repeat split.
      * rewrite app_length; lia.
      * apply hist_after; lia.
      * rewrite K3. f_equal. rewrite (hist_after buf seen) by lia.
        rewrite firstn_all. rewrite <- (firstn_skipn w buf) at 2. fold win.
        rewrite app_assoc, (lastn_app_lastn w (seen ++ win)), Hl2. reflexivity.
Qed.

Lemma rh_reset_inv s init_bytes :
  rw s = w -> (w <= length init_bytes)%nat -> Inv (rh_reset T1 s init_bytes) (firstn w init_bytes).
Proof.
  intros Hw Hl. unfold Inv, rh_reset. cbn [rw rhash rhist]. rewrite Hw.
  repeat split.
  - rewrite firstn_length; lia.
  - symmetry. apply lastn_all. rewrite firstn_length; lia.
Qed.

Local Notation boundaries := (boundaries T1 w mask trig).

Lemma first_hit_bounds : forall rest seen n k,
  first_hit seen rest n = Some k -> (n < k <= n + length rest)%nat.
Proof.
  induction rest as [|b r IH]; intros seen n k Hk; cbn [Rolling.first_hit] in Hk; [discriminate|].
  cbn [length]. destruct (win_hit T1 w mask trig (seen ++ [b])).
  - inversion Hk; lia.
  - apply IH in Hk. lia.
Qed.

Lemma first_hit_shift : forall rest seen n m,
  first_hit seen rest (n + m) = option_map (fun k => (k + m)%nat) (first_hit seen rest n).
Proof.
  induction rest as [|b r IH]; intros seen n m; cbn [Rolling.first_hit]; [reflexivity|].
  destruct (win_hit T1 w mask trig (seen ++ [b])); [reflexivity|].
  change (S (n + m)) with (S n + m)%nat. apply IH.
Qed.

Lemma boundaries_first_hit : forall rest seen pos,
  boundaries seen rest pos =
  match first_hit seen rest 0 with
  | None => []
  | Some k => (pos + k)%nat :: boundaries (seen ++ firstn k rest) (skipn k rest) (pos + k)
  end.
Proof.
  induction rest as [|b r IH]; intros seen pos; cbn [Rolling.boundaries Rolling.first_hit]; [reflexivity|].
  destruct (win_hit T1 w mask trig (seen ++ [b])) eqn:E.
  - cbn [firstn skipn]. replace (pos + 1)%nat with (S pos) by lia. reflexivity.
  - rewrite IH. change 1%nat with (0 + 1)%nat. rewrite first_hit_shift.
    destruct (first_hit (seen ++ [b]) r 0) as [k|]; cbn [option_map]; [|reflexivity].
    replace (k + 1)%nat with (S k) by lia. cbn [firstn skipn].
    rewrite <- app_assoc. cbn [app]. replace (S pos + k)%nat with (pos + S k)%nat by lia.
    reflexivity.
Qed.

Lemma boundaries_none : forall rest seen pos,
  first_hit seen rest 0 = None -> boundaries seen rest pos = [].
Proof. intros rest seen pos E. rewrite boundaries_first_hit, E. reflexivity. Qed.

Lemma boundaries_app : forall a b seen pos,
  boundaries seen (a ++ b) pos = boundaries seen a pos ++ boundaries (seen ++ a) b (pos + length a).
Proof.
  induction a as [|x a IH]; intros b seen pos; cbn [app Rolling.boundaries length].
  - rewrite app_nil_r, Nat.add_0_r. reflexivity.
  - rewrite IH. rewrite <- app_assoc. cbn [app].
    replace (S pos + length a)%nat with (pos + S (length a))%nat by lia.
    destruct (win_hit T1 w mask trig (seen ++ [x])); reflexivity.
Qed.

Lemma run_segment_f_correct : forall fuel seg s seen pos,
  (length seg < fuel)%nat -> Inv s seen ->
  let '(s', bs) := run_segment_f T1 fuel s seg pos mask trig in
  bs = boundaries seen seg pos /\ Inv s' (seen ++ seg).
Proof.
  induction fuel as [|f IH]; intros seg s seen pos Hf HI; [lia|].
  cbn [run_segment_f].
  pose proof (rh_run_correct s seen seg HI) as R.
  destruct (rh_run T1 s seg mask trig) as [[s1 off] v].
  destruct R as (R1 & R2 & R3). unfold run_spec in R1.
  rewrite boundaries_first_hit.
  destruct (first_hit seen seg 0) as [k|] eqn:Ek.
  - injection R1 as -> ->.
    pose proof (first_hit_bounds _ _ _ _ Ek) as Hb. cbn [plus] in Hb.
    specialize (IH (skipn k seg) s1 (seen ++ firstn k seg) (pos + k)%nat).
    rewrite skipn_length in IH. specialize (IH ltac:(lia) R3).
    destruct (run_segment_f T1 f s1 (skipn k seg) (pos + k) mask trig) as [s2 bs].
    destruct IH as [I1 I2]. split; [rewrite I1; reflexivity|].
    rewrite <- app_assoc, firstn_skipn in I2. exact I2.
  - injection R1 as -> ->. rewrite firstn_all in R3. split; [reflexivity|exact R3].
Qed.

Theorem run_stream_correct : forall segs s seen pos,
  Inv s seen ->
  let '(s', bs) := run_stream T1 s segs pos mask trig in
  bs = boundaries seen (concat segs) pos /\ Inv s' (seen ++ concat segs).
Proof.
  induction segs as [|seg rest IH]; intros s seen pos HI; cbn [run_stream concat].
  - cbn [Rolling.boundaries]. rewrite app_nil_r. split; [reflexivity|exact HI].
  - unfold run_segment.
    pose proof (run_segment_f_correct (S (length seg)) seg s seen pos ltac:(lia) HI) as R.
    destruct (run_segment_f T1 (S (length seg)) s seg pos mask trig) as [s1 bs1].
    destruct R as [R1 R2].
    specialize (IH s1 (seen ++ seg) (pos + length seg)%nat R2).
    destruct (run_stream T1 s1 rest (pos + length seg) mask trig) as [s2 bs2].
    destruct IH as [I1 I2]. rewrite boundaries_app, R1, I1, app_assoc. split; [reflexivity|exact I2].
Qed.

(* the consequence the property names: two ways of cutting the same stream give the
   same boundaries *)
Corollary split_independent segsA segsB s seen :
  Inv s seen -> concat segsA = concat segsB ->
  snd (run_stream T1 s segsA 0 mask trig) = snd (run_stream T1 s segsB 0 mask trig).
Proof.
  intros HI E.
  pose proof (run_stream_correct segsA s seen 0%nat HI) as A.
  pose proof (run_stream_correct segsB s seen 0%nat HI) as B.
  destruct (run_stream T1 s segsA 0 mask trig) as [sa ba].
  destruct (run_stream T1 s segsB 0 mask trig) as [sb bb].
  cbn [snd]. destruct A as [A _], B as [B _]. rewrite A, B, E. reflexivity.
Qed.

End Run.
End RF.
