(* Concrete histories for the non-vacuity Examples of C01/C06/C11/C15 and the vm_compute
   witnesses of the two refutations. *)
From Coq Require Import String Ascii.
From Coq Require Import NArith List Arith Lia.
From ISAL Require Import Base.Words Base.ListUtil Spec.MD Spec.SHA256 Spec.SHA512 Spec.MD5 Spec.HashApiSpec
  Model.HashCtx Model.HashObs Model.HashVariants
  Proofs.HashPadFacts Proofs.HashSpecFacts Proofs.HashRefine Proofs.HashProps Proofs.HashReject Proofs.HashInst.
Import ListNotations.
Local Open Scope N_scope.

Definition str (s : string) : list N := map N_of_ascii (list_ascii_of_string s).

(* what the memory of a context held before isal_hash_ctx_init: arbitrary values in every
   field, only the array size is right *)
Definition ex_junk : ctx :=
  {| c_digest := [1; 2; 3]; c_status := 77; c_error := 9; c_total := 12345;
     c_inc := [5; 5; 5]; c_pbuf := repeat 170 128; c_plen := 99 |}.

Definition ex_msg56 : list N := str "abcdbcdecdefdefgefghfghighijhijkijkljklmklmnlmnomnopnopq".

(* three contexts sharing a manager that holds at most one job between calls (K = 2) *)
Definition ex_ops : list op :=
  [Submit 0 (str "ab") 1;        (* unaligned FIRST (2 bytes) *)
   Submit 1 (str "abc") 3;       (* ENTIRE: stays in the manager *)
   Submit 0 (str "c") 0;         (* 1-byte UPDATE *)
   Submit 2 ex_msg56 1;          (* FIRST, 56 bytes: padding will need two blocks *)
   Submit 1 (str "x") 0;         (* rejected: context 1 is in flight *)
   Submit 0 [] 2;                (* empty LAST: hands back context 1, complete *)
   Submit 2 [] 2;                (* empty LAST: hands back context 0, complete *)
   Submit 2 (str "zz") 4;        (* rejected: invalid flags *)
   Flush;                        (* hands back context 2, complete *)
   Flush;                        (* nothing held *)
   Submit 1 (str "abc") 2;       (* rejected: completed, no FIRST *)
   Submit 1 (str "abc") 3;       (* reuse of context 1 *)
   Flush].

Definition ex_sched (t : nat) (ids : list nat) : option nat := None.

Definition ex_view (co : call * obs) := (o_ret (snd co), o_status (snd co), o_rc (snd co), o_digest (snd co)).

Definition sha256_abc : list N :=
  [0xba7816bf; 0x8f01cfea; 0x414140de; 0x5dae2223; 0xb00361a3; 0x96177a9c; 0xb410ff61; 0xf20015ad].
Definition sha256_msg56 : list N :=
  [0x248d6a61; 0xd20638b8; 0xe5c02693; 0x0c3e6039; 0xa33ce459; 0x64ff2167; 0xf6ecedd4; 0x19db06c1].

Lemma ex_wf : wf_history sha256_algo 2 [ex_junk; ex_junk; ex_junk] ex_ops.
Proof.
  split; [lia|]. split.
  - repeat constructor.
  - unfold ex_ops. repeat constructor; cbn; lia.
Qed.

Lemma ex_bytes : (N.of_nat (ops_bytes ex_ops) < 2 ^ 61)%N.
Proof. vm_compute. reflexivity. Qed.

(* the observed trace: FIPS 180-4 digests of "abc" (three times, by three different
   segmentations) and of the 56-byte message *)
Lemma ex_trace :
  option_map (map ex_view)
    (run_obs sha256_algo 2 ex_sched (model_init sha256_algo [ex_junk; ex_junk; ex_junk]) ex_ops) =
  Some [(Some 0%nat, 0, 0, sha256_iv);
        (None, 0, 0, []);
        (Some 0%nat, 0, 0, sha256_iv);
        (Some 2%nat, 0, 0, sha256_iv);
        (Some 1%nat, 5, 2012, sha256_iv);
        (Some 1%nat, 4, 0, sha256_abc);
        (Some 0%nat, 4, 0, sha256_abc);
        (Some 2%nat, 5, 2011, sha256_iv);
        (Some 2%nat, 4, 0, sha256_msg56);
        (None, 0, 0, []);
        (Some 1%nat, 4, 2013, sha256_abc);
        (None, 0, 0, []);
        (Some 1%nat, 4, 0, sha256_abc)].
Proof. vm_compute. reflexivity. Qed.

Lemma ex_accepted :
  match run_obs sha256_algo 2 ex_sched (model_init sha256_algo [ex_junk; ex_junk; ex_junk]) ex_ops with
  | Some tr => accepts sha256_algo 2 (spec_init 3) tr = true /\ pending tr = [] /\
               stream_of 0 tr = str "abc" /\ stream_of 1 tr = str "abc" /\ stream_of 2 tr = ex_msg56
  | None => False
  end.
Proof. vm_compute. repeat split; reflexivity. Qed.

(* ---- C11: the wrapper that reports the error of whatever context is handed back -------- *)

(* one job in flight for context 0 *)
Definition ex11_ops0 : list op := [Submit 0 (repeat 97 64) 1].
Definition ex11_state : st :=
  fst (run sha256_algo 2 ex_sched (model_init sha256_algo [ex_junk; ex_junk]) ex11_ops0).
(* the rejected call: an UPDATE while context 0 is being processed *)
Definition ex11_cont : list op := [Submit 1 (str "abc") 3].

Lemma ex11_wf : wf_history sha256_algo 2 [ex_junk; ex_junk] ex11_ops0.
Proof.
  split; [lia|]. split; [repeat constructor|]. unfold ex11_ops0. repeat constructor; cbn; lia.
Qed.

Lemma ex11_rejected :
  ctx_accept sha256_algo (getc sha256_algo ex11_state 0) [] 0 = Reject ERR_ALREADY_PROCESSING.
Proof. vm_compute. reflexivity. Qed.

Lemma ex11_stale_differs :
  let s' := fst (fst (api_submit_stale sha256_algo 2 ex_sched ex11_state 0 [] 0)) in
  option_map (map (fun co => o_rc (snd co))) (run_obs_stale sha256_algo 2 ex_sched s' ex11_cont) = Some [2012] /\
  option_map (map (fun co => o_rc (snd co))) (run_obs_stale sha256_algo 2 ex_sched ex11_state ex11_cont) = Some [0].
Proof. vm_compute. split; reflexivity. Qed.

(* with the fixed wrapper the same continuation is unaffected *)
Lemma ex11_fixed_same :
  let s' := fst (fst (api_submit sha256_algo 2 ex_sched ex11_state 0 [] 0)) in
  option_map (map (fun co => o_rc (snd co))) (run_obs sha256_algo 2 ex_sched s' ex11_cont) = Some [0] /\
  option_map (map (fun co => o_rc (snd co))) (run_obs sha256_algo 2 ex_sched ex11_state ex11_cont) = Some [0].
Proof. vm_compute. split; reflexivity. Qed.

(* ---- C15: the pad function at the historical thresholds (never a gigabyte of data) ------ *)

Definition ex15_totals : list N := [2 ^ 29 - 1; 2 ^ 29; 2 ^ 32 - 1; 2 ^ 32; 2 ^ 32 + 2 ^ 29 + 5].

(* number of extra blocks and the bytes of the length field *)
Definition pad_view (A : algo) (pad : list N -> N -> list N * nat) (total : N) : nat * list N :=
  let '(buf, nblk) := pad (repeat 170 (2 * a_bsize A)) total in
  (nblk, firstn (a_lenfld A) (skipn (nblk * a_bsize A - a_lenfld A) buf)).

Lemma ex15_sha256 :
  map (pad_view sha256_algo (hash_pad sha256_algo)) ex15_totals =
  [(2%nat, [0; 0; 0; 0; 0xff; 0xff; 0xff; 0xf8]);
   (1%nat, [0; 0; 0; 1; 0; 0; 0; 0]);
   (2%nat, [0; 0; 0; 7; 0xff; 0xff; 0xff; 0xf8]);
   (1%nat, [0; 0; 0; 8; 0; 0; 0; 0]);
   (1%nat, [0; 0; 0; 9; 0; 0; 0; 0x28])].
Proof. vm_compute. reflexivity. Qed.

Lemma ex15_md5_le :
  map (pad_view md5_algo (hash_pad md5_algo)) ex15_totals =
  [(2%nat, [0xf8; 0xff; 0xff; 0xff; 0; 0; 0; 0]);
   (1%nat, [0; 0; 0; 0; 1; 0; 0; 0]);
   (2%nat, [0xf8; 0xff; 0xff; 0xff; 7; 0; 0; 0]);
   (1%nat, [0; 0; 0; 0; 8; 0; 0; 0]);
   (1%nat, [0x28; 0; 0; 0; 9; 0; 0; 0])].
Proof. vm_compute. reflexivity. Qed.

Lemma ex15_sha512 :
  map (pad_view sha512_algo (hash_pad sha512_algo)) ex15_totals =
  [(2%nat, [0; 0; 0; 0; 0; 0; 0; 0; 0; 0; 0; 0; 0xff; 0xff; 0xff; 0xf8]);
   (1%nat, [0; 0; 0; 0; 0; 0; 0; 0; 0; 0; 0; 1; 0; 0; 0; 0]);
   (2%nat, [0; 0; 0; 0; 0; 0; 0; 0; 0; 0; 0; 7; 0xff; 0xff; 0xff; 0xf8]);
   (1%nat, [0; 0; 0; 0; 0; 0; 0; 0; 0; 0; 0; 8; 0; 0; 0; 0]);
   (1%nat, [0; 0; 0; 0; 0; 0; 0; 0; 0; 0; 0; 9; 0; 0; 0; 0x28])].
Proof. vm_compute. reflexivity. Qed.

(* the whole padded tail equals the standard's padding (md_pad_N of Model/HashObs.v) *)
Lemma ex15_pad_is_md_pad :
  forallb (fun total =>
    let '(buf, nblk) := hash_pad sha256_algo (repeat 170 128) total in
    if list_eq_dec N.eq_dec (firstn (nblk * 64) buf)
         (firstn (N.to_nat (total mod 64)) (repeat 170 128) ++ md_pad_N sha256_algo total)
    then true else false) ex15_totals = true.
Proof. vm_compute. reflexivity. Qed.

(* a 32-bit (total << 3) loses the high bits from 2^29 bytes on *)
Lemma ex15_narrow_differs :
  pad_view sha256_algo (hash_pad_narrow sha256_algo) (2 ^ 29) = (1%nat, [0; 0; 0; 0; 0; 0; 0; 0]) /\
  pad_view sha256_algo (hash_pad sha256_algo) (2 ^ 29) = (1%nat, [0; 0; 0; 1; 0; 0; 0; 0]).
Proof. vm_compute. split; reflexivity. Qed.

Lemma ex11_stale_neq :
  let s := fst (run sha256_algo 2 ex_sched (model_init sha256_algo [ex_junk; ex_junk]) ex11_ops0) in
  let s' := fst (fst (api_submit_stale sha256_algo 2 ex_sched s 0 [] 0)) in
  option_map (map (fun co => o_rc (snd co))) (run_obs_stale sha256_algo 2 ex_sched s' ex11_cont) <>
  option_map (map (fun co => o_rc (snd co))) (run_obs_stale sha256_algo 2 ex_sched s ex11_cont).
Proof.
  cbv zeta. fold ex11_state. destruct ex11_stale_differs as [E1 E2]. cbv zeta in E1. rewrite E1, E2.
  discriminate.
Qed.

Lemma c11_stale_refuted :
  exists (A : algo) (K : nat) (sched : nat -> list nat -> option nat) (junk : list ctx) (ops0 : list op)
         (cid : nat) (buf : list N) (flags e : N) (ops : list op),
    wf_history A K junk ops0 /\
    let s := fst (run A K sched (model_init A junk) ops0) in
    ctx_accept A (getc A s cid) buf flags = Reject e /\
    let s' := fst (fst (api_submit_stale A K sched s cid buf flags)) in
    option_map (map (fun co => o_rc (snd co))) (run_obs_stale A K sched s' ops) <>
    option_map (map (fun co => o_rc (snd co))) (run_obs_stale A K sched s ops).
Proof.
  exists sha256_algo, 2%nat, ex_sched, [ex_junk; ex_junk], ex11_ops0, 0%nat, [], 0, ERR_ALREADY_PROCESSING, ex11_cont.
  split; [exact ex11_wf|]. split; [exact ex11_rejected|exact ex11_stale_neq].
Qed.

Lemma c15_narrow_refuted :
  exists (A : algo) (pbuf : list N) (total : N),
    algo_wf A /\ length pbuf = (2 * B A)%nat /\ (total < 2 ^ 61)%N /\
    let '(buf, nblk) := hash_pad_narrow A pbuf total in
    firstn (a_lenfld A) (skipn (nblk * B A - a_lenfld A) buf) <> a_lenbytes A (8 * total)%N.
Proof.
  exists sha256_algo, (repeat 170 128), (2 ^ 29). split; [exact sha256_wf|]. split; [reflexivity|].
  split; [reflexivity|]. vm_compute. discriminate.
Qed.
