(* CBC (SP 800-38A 6.2) facts used by C04, generic in the block permutation:
   - the spec's recursions are the instances E := cipher rks, D := inv_cipher rks;
   - round trip for every number of blocks;
   - decryption is blockwise: P_j = D(C_j) xor C_(j-1)  (what every by-8 / by-16
     implementation relies on; in-place processing is a pure reordering of these);
   - chaining across calls: the last ciphertext block is the next IV;
   - the entry-point model on the expanded schedules equals the spec. *)
From Coq Require Import NArith List Bool Arith Lia.
From ISAL Require Import Base.Words Base.ListUtil Spec.AES Spec.CBC Model.KeyExp Model.Cbc
  Proofs.WordsFacts Proofs.ListFacts Proofs.ChunkFacts.
From ISAL Require Import Proofs.AesFacts Proofs.XtsFacts.
Import ListNotations.
Local Open Scope N_scope.

Definition full_blocks (bs : list (list N)) : Prop := Forall (fun b => length b = 16%nat) bs.

Lemma last_cons_default {A} (c : A) r d : last (c :: r) d = last r c.
Proof.
  revert c d. induction r as [|x r IH]; intros c d; [reflexivity|].
  change (last (c :: x :: r) d) with (last (x :: r) d). rewrite (IH x d), (IH x c). reflexivity.
Qed.

Section Generic.
  Variables E D : list N -> list N.

  (* blockwise decryption: no hypothesis at all *)
  Lemma cbc_dec_g_par iv bs : cbc_dec_g D iv bs = cbc_dec_par D iv bs.
  Proof.
    unfold cbc_dec_par. revert iv. induction bs as [|b r IH]; intros iv; [reflexivity|].
    cbn [cbc_dec_g combine map concat fst snd]. rewrite IH. reflexivity.
  Qed.

  (* block j of the plaintext depends on ciphertext blocks j and j-1 only *)
  Lemma cbc_dec_g_nth iv bs j : (j < length bs)%nat ->
    nth j (map (fun p => xorb_list (D (fst p)) (snd p)) (combine bs (iv :: bs))) [] =
    xorb_list (D (nth j bs [])) (nth j (iv :: bs) []).
  Proof.
    revert iv j. induction bs as [|b r IH]; intros iv j Hj; [cbn in Hj; lia|].
    destruct j as [|j]; [reflexivity|].
    cbn [combine map nth]. cbn [length] in Hj. rewrite IH by lia. reflexivity.
  Qed.

  (* chaining across calls *)
  Fixpoint cbc_last_g (prev : list N) (blocks : list (list N)) : list N :=
    match blocks with [] => prev | b :: r => cbc_last_g (E (xorb_list b prev)) r end.

  Lemma cbc_enc_g_app' iv b1 b2 :
    cbc_enc_g E iv (b1 ++ b2) = cbc_enc_g E iv b1 ++ cbc_enc_g E (cbc_last_g iv b1) b2.
  Proof.
    revert iv. induction b1 as [|b r IH]; intros iv; [reflexivity|].
    cbn [app cbc_enc_g cbc_last_g]. rewrite IH, app_assoc. reflexivity.
  Qed.

  Lemma cbc_dec_g_app iv c1 c2 :
    cbc_dec_g D iv (c1 ++ c2) = cbc_dec_g D iv c1 ++ cbc_dec_g D (last c1 iv) c2.
  Proof.
    revert iv. induction c1 as [|c r IH]; intros iv; [reflexivity|].
    cbn [app cbc_dec_g]. rewrite IH, <- app_assoc, last_cons_default. reflexivity.
  Qed.

  Hypothesis E_len : forall x, length x = 16%nat -> length (E x) = 16%nat.

  Lemma cbc_last_g_len16 iv bs : length iv = 16%nat -> full_blocks bs -> length (cbc_last_g iv bs) = 16%nat.
  Proof.
    intros Hi Hb. revert iv Hi. induction Hb as [|b r Hb Hr IH]; intros iv Hi; [exact Hi|].
    cbn [cbc_last_g]. apply IH, E_len, xorb_list_len16; assumption.
  Qed.

  Lemma cbc_enc_g_length iv bs : length iv = 16%nat -> full_blocks bs -> length (cbc_enc_g E iv bs) = (16 * length bs)%nat.
  Proof.
    intros Hi Hb. revert iv Hi. induction Hb as [|b r Hb Hr IH]; intros iv Hi; [reflexivity|].
    cbn [cbc_enc_g length]. assert (L : length (E (xorb_list b iv)) = 16%nat) by (apply E_len, xorb_list_len16; assumption).
    rewrite app_length, L, IH by exact L. lia.
  Qed.

  (* the value cbc_last_g is the last 16 bytes of the ciphertext produced so far *)
  Lemma cbc_last_g_lastn iv bs : length iv = 16%nat -> full_blocks bs -> bs <> [] ->
    cbc_last_g iv bs = lastn 16 (cbc_enc_g E iv bs).
  Proof.
    intros Hi Hb. revert iv Hi. induction Hb as [|b r Hb Hr IH]; intros iv Hi Hne; [contradiction|].
    cbn [cbc_last_g cbc_enc_g]. set (c := E (xorb_list b iv)).
    assert (L : length c = 16%nat) by (apply E_len, xorb_list_len16; assumption).
    destruct r as [|b' r'].
    - cbn [cbc_last_g cbc_enc_g]. rewrite app_nil_r, lastn_all by lia. reflexivity.
    - rewrite IH by (try exact L; discriminate).
      rewrite lastn_app_r; [reflexivity|]. rewrite cbc_enc_g_length by assumption. cbn [length]. lia.
  Qed.

  Hypothesis E_wfb : forall b, wfb b -> wfb (E b).
  Hypothesis D_E : forall b, wfb b -> D (E b) = b.

  Lemma cbc_round_trip_g bs : Forall wfb bs -> forall iv, wfb iv ->
    let c := cbc_enc_g E iv bs in
    bytes c /\ cbc_dec_g D iv (chunks 16 c) = concat bs.
  Proof.
    intros H. induction H as [|b r Hb Hr IH]; intros iv Hiv; cbv zeta; [split; [constructor|reflexivity]|].
    cbn [cbc_enc_g concat]. set (c := E (xorb_list b iv)).
    assert (Wx : wfb (xorb_list b iv)) by (apply xorb_list_wfb; assumption).
    assert (Wc : wfb c) by (apply E_wfb; exact Wx).
    destruct (IH c Wc) as [B R].
    split; [apply Forall_app; split; [apply Wc|exact B]|].
    rewrite chunks_app by (try lia; exists 1%nat; destruct Wc; lia).
    rewrite chunks_exact by (try lia; apply Wc). cbn [app cbc_dec_g].
    rewrite R. subst c. rewrite D_E by exact Wx.
    rewrite xorb_list_cancel by (destruct Hb, Hiv; congruence). reflexivity.
  Qed.
End Generic.

(* ------------------------------------------------------------------ *)
(* the spec is the instance *)

Lemma cbc_enc_blocks_g rks iv bs : cbc_enc_blocks rks iv bs = cbc_enc_g (cipher rks) iv bs.
Proof. revert iv. induction bs as [|b r IH]; intros iv; [reflexivity|]. cbn [cbc_enc_blocks cbc_enc_g]. rewrite IH. reflexivity. Qed.

Lemma cbc_dec_blocks_g rks iv bs : cbc_dec_blocks rks iv bs = cbc_dec_g (inv_cipher rks) iv bs.
Proof. revert iv. induction bs as [|b r IH]; intros iv; [reflexivity|]. cbn [cbc_dec_blocks cbc_dec_g]. rewrite IH. reflexivity. Qed.

Lemma chunks_full_blocks (p : list N) n : length p = (16 * n)%nat -> length (chunks 16 p) = n /\ full_blocks (chunks 16 p).
Proof. intros H. apply chunks_mult; lia. Qed.

Lemma chunks_wfb (p : list N) n : length p = (16 * n)%nat -> bytes p -> Forall wfb (chunks 16 p).
Proof.
  intros H B. destruct (chunks_full_blocks p n H) as [_ F].
  pose proof (chunks_Forall _ 16 p ltac:(lia) B) as FB.
  unfold full_blocks in F. rewrite Forall_forall in *. intros c Hc. split; [apply F|apply FB]; exact Hc.
Qed.

(* ------------------------------------------------------------------ *)
(* the C04 statements *)

Lemma c_cbc_dec_enc : forall k iv p n, valid_key k -> wfb iv -> bytes p -> length p = (16 * n)%nat ->
  cbc_dec k iv (cbc_enc k iv p) = p.
Proof.
  intros k iv p n [V B] Hiv Bp Hp. unfold cbc_dec, cbc_enc, cbc_dec_rk, cbc_enc_rk.
  rewrite cbc_enc_blocks_g, cbc_dec_blocks_g.
  assert (W : wf_sched (key_expansion k)) by (apply key_expansion_wf; assumption).
  destruct (cbc_round_trip_g (cipher (key_expansion k)) (inv_cipher (key_expansion k))
              (fun b Hb => cipher_wfb _ b W Hb) (fun b Hb => c_inv_cipher_cipher _ b W Hb)
              (chunks 16 p) (chunks_wfb p n Hp Bp) iv Hiv) as [_ R].
  rewrite R. apply concat_chunks. lia.
Qed.

Lemma c_cbc_enc_length : forall k iv p n, valid_key_len (length k) = true -> length iv = 16%nat -> length p = (16 * n)%nat ->
  length (cbc_enc k iv p) = length p.
Proof.
  intros k iv p n V Hiv Hp. unfold cbc_enc, cbc_enc_rk. rewrite cbc_enc_blocks_g.
  destruct (chunks_full_blocks p n Hp) as [L F].
  rewrite cbc_enc_g_length; [lia| |exact Hiv|exact F].
  intros x Hx. apply cipher_len16; [apply key_expansion_len_sched; exact V|exact Hx].
Qed.

(* P_j = D(C_j) xor C_(j-1), C_0 = IV: as a whole and block by block *)
Lemma c_cbc_dec_blockwise : forall k iv c,
  cbc_dec k iv c = cbc_dec_par (aes_dec k) iv (chunks 16 c).
Proof.
  intros. unfold cbc_dec, cbc_dec_rk. rewrite cbc_dec_blocks_g, cbc_dec_g_par. reflexivity.
Qed.

Lemma c_cbc_dec_block_j : forall k iv c n j, valid_key_len (length k) = true -> length iv = 16%nat ->
  length c = (16 * n)%nat -> (j < n)%nat ->
  nth j (chunks 16 (cbc_dec k iv c)) [] =
  xorb_list (aes_dec k (nth j (chunks 16 c) [])) (nth j (iv :: chunks 16 c) []).
Proof.
  intros k iv c n j V Hiv Hc Hj. rewrite c_cbc_dec_blockwise. unfold cbc_dec_par.
  destruct (chunks_full_blocks c n Hc) as [L F].
  rewrite chunks_concat; [apply cbc_dec_g_nth; lia|lia|].
  rewrite Forall_map. rewrite Forall_forall. intros [x y] Hin. cbn [fst snd].
  pose proof (in_combine_l _ _ _ _ Hin) as Hx. pose proof (in_combine_r _ _ _ _ Hin) as Hy.
  unfold full_blocks in F. rewrite Forall_forall in F.
  apply xorb_list_len16.
  - apply inv_cipher_len16; [apply key_expansion_len_sched; exact V|apply F; exact Hx].
  - destruct Hy as [<-|Hy]; [exact Hiv|apply F; exact Hy].
Qed.

(* chaining: a message encrypted / decrypted in two calls, the IV of the second being the
   last ciphertext block of the first *)
Lemma c_cbc_enc_append : forall k iv p1 p2 n1, valid_key_len (length k) = true -> length iv = 16%nat ->
  length p1 = (16 * n1)%nat ->
  cbc_enc k iv (p1 ++ p2) = cbc_enc k iv p1 ++ cbc_enc k (cbc_next_iv iv (cbc_enc k iv p1)) p2.
Proof.
  intros k iv p1 p2 n1 V Hiv H1. unfold cbc_enc, cbc_enc_rk.
  rewrite chunks_app by (try lia; exists n1; lia). rewrite !cbc_enc_blocks_g, cbc_enc_g_app'.
  f_equal. f_equal.
  destruct (chunks_full_blocks p1 n1 H1) as [L F].
  assert (EL : forall x, length x = 16%nat -> length (cipher (key_expansion k) x) = 16%nat).
  { intros x Hx. apply cipher_len16; [apply key_expansion_len_sched; exact V|exact Hx]. }
  unfold cbc_next_iv. rewrite cbc_enc_g_length by assumption. rewrite L.
  destruct n1 as [|n1].
  - destruct p1; [reflexivity|discriminate].
  - replace (Nat.ltb (16 * S n1) 16) with false by (symmetry; apply Nat.ltb_ge; lia).
    apply cbc_last_g_lastn; try assumption. intros E0. rewrite E0 in L. discriminate.
Qed.

Lemma c_cbc_dec_append : forall k iv c1 c2 n1, length c1 = (16 * n1)%nat ->
  cbc_dec k iv (c1 ++ c2) = cbc_dec k iv c1 ++ cbc_dec k (cbc_next_iv iv c1) c2.
Proof.
  intros k iv c1 c2 n1 H1. unfold cbc_dec, cbc_dec_rk.
  rewrite chunks_app by (try lia; exists n1; lia). rewrite !cbc_dec_blocks_g, cbc_dec_g_app.
  f_equal. f_equal. unfold cbc_next_iv.
  destruct n1 as [|n1].
  - destruct c1; [reflexivity|discriminate].
  - replace (Nat.ltb (length c1) 16) with false by (symmetry; apply Nat.ltb_ge; lia).
    (* the last chunk of a non-empty multiple of 16 is its last 16 bytes *)
    clear c2. revert c1 H1. induction n1 as [|n IH]; intros c1 H1.
    + rewrite chunks_exact by lia. rewrite lastn_all by lia. reflexivity.
    + assert (Hne : c1 <> []) by (intros ->; discriminate).
      rewrite chunks_cons by (try lia; exact Hne).
      assert (Hs : length (skipn 16 c1) = (16 * S n)%nat) by (rewrite skipn_length; lia).
      specialize (IH _ Hs).
      destruct (chunks 16 (skipn 16 c1)) as [|x y] eqn:Ec.
      * pose proof (chunks_full_blocks _ _ Hs) as [L _]. rewrite Ec in L. discriminate.
      * change (last (firstn 16 c1 :: x :: y) iv) with (last (x :: y) iv). rewrite IH.
        rewrite <- (firstn_skipn 16 c1) at 2. rewrite lastn_app_r by lia. reflexivity.
Qed.

(* entry-point models on the schedules written by the key expansion *)
Lemma c_cbc_enc_model_eq_spec : forall k iv p, cbc_enc_model (keyexp_enc k) iv p = cbc_enc k iv p.
Proof.
  intros. unfold cbc_enc_model, cbc_enc, cbc_enc_rk. rewrite sched_of_bytes_keyexp_enc, cbc_enc_blocks_g. reflexivity.
Qed.

Lemma cbc_dec_g_ext F G bs : (forall x, length x = 16%nat -> F x = G x) -> full_blocks bs ->
  forall iv, cbc_dec_g F iv bs = cbc_dec_g G iv bs.
Proof.
  intros HFG H. induction H as [|b r Hb Hr IH]; intros iv; [reflexivity|].
  cbn [cbc_dec_g]. rewrite HFG, IH by exact Hb. reflexivity.
Qed.

Lemma c_cbc_dec_model_eq_spec : forall k iv c n, length c = (16 * n)%nat ->
  cbc_dec_model (keyexp_dec k) iv c = cbc_dec k iv c.
Proof.
  intros k iv c n Hc. unfold cbc_dec_model, cbc_dec, cbc_dec_rk. rewrite sched_of_bytes_keyexp_dec, cbc_dec_blocks_g.
  apply cbc_dec_g_ext; [|apply (chunks_full_blocks c n Hc)].
  intros x Hx. apply c_eq_inv_cipher; [apply key_expansion_len_sched_any|exact Hx].
Qed.

(* decrypting with the schedule the key expansion stores for decryption inverts encryption *)
Lemma c_dec_schedule_decrypts : forall k blk : list N, valid_key k -> wfb blk ->
  eq_inv_cipher (dec_schedule (key_expansion k)) (cipher (key_expansion k) blk) = blk.
Proof.
  intros k blk [V B] Hb.
  rewrite c_eq_inv_cipher; [apply c_inv_cipher_cipher; [apply key_expansion_wf; assumption|exact Hb]|apply key_expansion_len_sched; exact V|].
  apply cipher_len16; [apply key_expansion_len_sched; exact V|apply Hb].
Qed.
