(* L6, context level: the context layer re-run over the lane manager (Model.LaneMgr.lstep /
   lrun_obs) produces, for every history of API calls, the observed trace Model.HashObs.run_obs
   produces over the ABSTRACT manager under a suitable scheduling oracle.  Hence every theorem
   of Properties/C01, C06, C11, C15 - all of the form "for every sched, run_obs A K sched ... " -
   holds of the composition context layer o LaneMgr. *)
From Coq Require Import NArith List Arith Bool Lia ZifyBool ZifyNat ZifyN Permutation.
From ISAL Require Import Base.Words Base.ListUtil Spec.MD Spec.HashApiSpec Model.HashCtx Model.HashObs Model.HashCfg
     Model.LaneMgr Proofs.ChunkFacts Proofs.HashPadFacts
     Proofs.LaneMgrBits Proofs.LaneMgrLists Proofs.LaneMgrInv Proofs.LaneMgrRefine.
Import ListNotations.

Section Ctx.
Variable A : algo.
Variable K : nat.
Variable F : family_cfg.
Hypothesis Hwf : cfg_wf F = true.
Hypothesis HK : f_nlanes F < K.
Hypothesis Hshape : algo_shape A = true.
Hypothesis HB : f_bsize F = N.of_nat (a_bsize A).

Local Notation cmp := (a_compress A).
Local Notation Bz := (a_bsize A).

(* incoming_buffer_length is a uint32 *)
Definition small_inc (c : ctx) : Prop := (N.of_nat (length (c_inc c)) < 2 ^ 32)%N.
Definition op_small (n : nat) (o : op) : Prop :=
  match o with Submit cid buf _ => cid < n /\ (N.of_nat (length buf) < 2 ^ 32)%N | Flush => True end.

Lemma Bz_cases : (Bz = 64 /\ a_lenfld A = 8) \/ (Bz = 128 /\ a_lenfld A = 16).
Proof.
  unfold algo_shape in Hshape. apply orb_true_iff in Hshape.
  destruct Hshape as [H | H]; apply andb_true_iff in H; destruct H as [H1 H2];
    apply Nat.eqb_eq in H1; apply Nat.eqb_eq in H2; [left|right]; split; assumption.
Qed.
Lemma Bz_pos : Bz > 0.
Proof. destruct Bz_cases as [[H _] | [H _]]; lia. Qed.

(* ---- sizes of the jobs the context layer builds ---------------------------------------- *)

Lemma chunks_le {X} k : forall (l : list X), length l <= k * Bz -> length (chunks Bz l) <= k.
Proof.
  induction k as [|k IH]; intros l H.
  - destruct l; [cbn; lia|cbn in H; lia].
  - destruct l as [|x l']; [cbn; lia|].
    rewrite chunks_cons by (try apply Bz_pos; discriminate). cbn [length].
    apply le_n_S. apply IH. rewrite skipn_length. lia.
Qed.

Lemma blocks_small len (l : list N) : (N.of_nat len < 2 ^ 32)%N -> length l <= (len / Bz) * Bz ->
  (N.of_nat (length (chunks Bz l)) < max_blocks F)%N.
Proof.
  intros Hlen Hl. pose proof (chunks_le (len / Bz) l Hl) as Hc.
  assert (Hq : (N.of_nat (len / Bz) < max_blocks F)%N).
  { unfold max_blocks. rewrite HB.
    destruct Bz_cases as [[E _] | [E _]]; rewrite E in *.
    - change (2 ^ 32 / N.of_nat 64)%N with 67108864%N. pose proof (Nat.mul_div_le len 64). lia.
    - change (2 ^ 32 / N.of_nat 128)%N with 33554432%N. pose proof (Nat.mul_div_le len 128). lia. }
  lia.
Qed.

Lemma small_blocks_2 (l : list N) k : k <= 2 -> length l <= k * Bz -> (N.of_nat (length (chunks Bz l)) < max_blocks F)%N.
Proof.
  intros Hk Hl. pose proof (chunks_le k l Hl) as Hc.
  assert (Hi : f_immediate F = true \/ f_immediate F = false) by (destruct (f_immediate F); auto).
  assert (H3 : (3 <= max_blocks F)%N).
  { destruct Hi as [Hi | Hi].
    - unfold max_blocks. rewrite HB. destruct Bz_cases as [[-> _] | [-> _]]; vm_compute; discriminate.
    - apply (wf_mb3 F (cfg_wf_facts F Hwf Hi)). }
  lia.
Qed.

Lemma land_low x : (N.land x (N.of_nat Bz - 1) < N.of_nat Bz)%N.
Proof.
  destruct Bz_cases as [[-> _] | [-> _]].
  - change (N.of_nat 64 - 1)%N with (N.ones 6). rewrite N.land_ones. apply N.mod_lt. discriminate.
  - change (N.of_nat 128 - 1)%N with (N.ones 7). rewrite N.land_ones. apply N.mod_lt. discriminate.
Qed.

Lemma hash_pad_nblk pbuf total : snd (hash_pad A pbuf total) <= 2.
Proof.
  unfold hash_pad. cbn [snd]. unfold B.
  set (Bn := N.of_nat Bz). set (Fn := N.of_nat (a_lenfld A)).
  pose proof (land_low total) as H1. fold Bn in H1.
  pose proof (land_low (w64 (2 ^ 64 - w64 (total + Fn + 1)))) as H2. fold Bn in H2.
  rewrite (N.land_comm (Bn - 1)).
  assert (HF : (Fn < Bn)%N) by (unfold Fn, Bn; destruct Bz_cases as [[-> ->] | [-> ->]]; lia).
  assert (HBn : (0 < Bn)%N) by (unfold Bn; pose proof Bz_pos; lia).
  set (i2 := (N.land total (Bn - 1) + N.land (w64 (2 ^ 64 - w64 (total + Fn + 1))) (Bn - 1) + 1 + Fn)%N).
  assert (Hi2 : (i2 < 3 * Bn)%N) by (unfold i2; lia).
  assert (Hq : (i2 / Bn < 3)%N) by (apply N.div_lt_upper_bound; lia).
  lia.
Qed.

Lemma ctx_next_small c c' jo : small_inc c -> ctx_next A c = (c', jo) ->
  small_inc c' /\ (forall blocks, jo = Some blocks -> (N.of_nat (length blocks) < max_blocks F)%N).
Proof.
  unfold ctx_next, small_inc. intros Hs H.
  destruct (has (c_status c) STS_COMPLETE).
  { inversion H. subst. cbn. split; [assumption|discriminate]. }
  destruct ((c_plen c =? 0) && negb (length (c_inc c) =? 0))%bool eqn:E1.
  - fold (B A) in *. unfold B in *.
    destruct (negb ((length (c_inc c) - length (c_inc c) mod Bz) / Bz =? 0)) eqn:E2.
    + inversion H. subst. cbn [c_inc length]. split; [cbn; lia|].
      intros blocks Hb. inversion Hb. subst. eapply blocks_small; [exact Hs|].
      rewrite firstn_length. pose proof Bz_pos.
      assert (length (c_inc c) - length (c_inc c) mod Bz = (length (c_inc c) / Bz) * Bz).
      { pose proof (Nat.div_mod (length (c_inc c)) Bz ltac:(lia)). nia. }
      lia.
    + cbn [c_status c_pbuf c_total] in H.
      match type of H with context [has ?st STS_LAST] => destruct (has st STS_LAST) end.
      * match type of H with context [hash_pad A ?p ?t] =>
          pose proof (hash_pad_nblk p t) as Hn; destruct (hash_pad A p t) as [buf nblk] end.
        inversion H. subst. cbn [c_inc length snd] in *. split; [cbn; lia|].
        intros blocks Hb. inversion Hb. subst. apply (small_blocks_2 _ nblk Hn).
        rewrite firstn_length. unfold B. lia.
      * inversion H. subst. cbn. split; [lia|discriminate].
  - cbn [c_status c_pbuf c_total] in H.
    destruct (has (c_status c) STS_LAST).
    + pose proof (hash_pad_nblk (c_pbuf c) (c_total c)) as Hn. destruct (hash_pad A (c_pbuf c) (c_total c)) as [buf nblk].
      inversion H. subst. cbn [c_inc snd] in *. split; [assumption|].
      intros blocks Hb. inversion Hb. subst. apply (small_blocks_2 _ nblk Hn).
      rewrite firstn_length. unfold B. lia.
    + inversion H. subst. cbn. split; [assumption|discriminate].
Qed.

Lemma ctx_accept_small c buf flags c' jo : (N.of_nat (length buf) < 2 ^ 32)%N ->
  ctx_accept A c buf flags = Accept c' jo ->
  small_inc c' /\ (forall blocks, jo = Some blocks -> (N.of_nat (length blocks) < max_blocks F)%N).
Proof.
  unfold ctx_accept, small_inc. intros Hb H.
  destruct (negb (N.land flags (N.lnot FLAG_ENTIRE 32) =? 0)%N); [discriminate|].
  destruct (has (c_status c) STS_PROCESSING); [discriminate|].
  destruct (has (c_status c) STS_COMPLETE && negb (has flags FLAG_FIRST))%bool; [discriminate|].
  assert (Hone : forall x : list N, (N.of_nat (length [x]) < max_blocks F)%N).
  { intros x. apply (small_blocks_2 [] 0) || idtac. cbn [length].
    pose proof (small_blocks_2 (repeat 0%N Bz) 1) as Hx.
    assert (Hi : f_immediate F = true \/ f_immediate F = false) by (destruct (f_immediate F); auto).
    assert (H3 : (3 <= max_blocks F)%N).
    { destruct Hi as [Hi | Hi].
      - unfold max_blocks. rewrite HB. destruct Bz_cases as [[-> _] | [-> _]]; vm_compute; discriminate.
      - apply (wf_mb3 F (cfg_wf_facts F Hwf Hi)). }
    lia. }
  match type of H with (if ?cnd then _ else _) = _ => destruct cnd end.
  - match type of H with context [if (?n =? 0) then ?a else ?b] => destruct (n =? 0) end.
    + match type of H with (if ?cnd then _ else _) = _ => destruct cnd end; inversion H; subst; cbn [c_inc];
        (split; [assumption|]); intros blocks Hq; inversion Hq; subst; try apply Hone.
    + match type of H with (if ?cnd then _ else _) = _ => destruct cnd end; inversion H; subst; cbn [c_inc];
        (split; [rewrite skipn_length; lia|]); intros blocks Hq; inversion Hq; subst; try apply Hone.
  - inversion H. subst. cbn [c_inc]. split; [assumption|discriminate].
Qed.

(* ---- the simulation --------------------------------------------------------------------- *)

Definition SimC (s : st) (cs : lst) : Prop :=
  ctxs s = lctxs cs /\ SimM A F s (lmgr cs) /\ Forall small_inc (ctxs s).

Lemma getc_eq s cs cid : ctxs s = lctxs cs -> lgetc A cs cid = getc A s cid.
Proof. intros H. unfold lgetc, getc. rewrite H. reflexivity. Qed.

Lemma Forall_upd {X} (P : X -> Prop) i x l : Forall P l -> P x -> Forall P (upd i x l).
Proof.
  intros H Hx. revert i. induction H as [|a l Ha H IH]; intros [|i]; cbn; constructor; auto.
Qed.

Lemma Forall_nth_dflt (P : ctx -> Prop) l i : Forall P l -> P (dflt_ctx A) -> P (nth i l (dflt_ctx A)).
Proof.
  intros H Hd. destruct (Nat.lt_ge_cases i (length l)) as [Hl | Hl].
  - rewrite Forall_forall in H. apply H. apply nth_In. assumption.
  - rewrite nth_overflow by assumption. assumption.
Qed.

Lemma small_dflt : small_inc (dflt_ctx A).
Proof. unfold small_inc, dflt_ctx. cbn. lia. Qed.

Lemma SimC_setc s cs cid c : SimC s cs -> small_inc c -> SimC (setc s cid c) (lsetc cs cid c).
Proof.
  intros [Hc [[HR Hids] Hs]] Hsm. unfold SimC, setc, lsetc. cbn [ctxs held lctxs lmgr].
  split; [rewrite Hc; reflexivity|]. split; [|apply Forall_upd; assumption].
  split; cbn [held ctxs]; [assumption|]. rewrite lm_length_upd. assumption.
Qed.

Lemma SimC_fuel s cs : SimC s cs -> lfuel_for cs = fuel_for s.
Proof.
  intros [_ [[HR _] _]]. unfold lfuel_for, fuel_for, held_count. f_equal. f_equal.
  unfold MRel in HR. destruct (f_immediate F) eqn:Hi.
  - destruct HR as [-> ->]. reflexivity.
  - destruct HR as [ls [st HR]].
    destruct (rel_invariant cmp F (held s) ls st (lmgr cs) (cfg_wf_facts F Hwf Hi) HR) as [_ [_ [_ [_ [Hl [Hu _]]]]]].
    rewrite Hu, Nat2N.id. assumption.
Qed.

(* a step of the simulation: the abstract side is a function of the oracle's next decisions [lg] *)
Definition sim_result (s : st) (lg : list (option nat)) (s' : st) (cs' : lst) : Prop :=
  SimC s' cs' /\ tick s' = tick s + length lg /\ length (ctxs s') = length (ctxs s).

Lemma sim_submit_job s cs cid blocks : SimC s cs -> cid < length (ctxs s) ->
  (N.of_nat (length blocks) < max_blocks F)%N ->
  exists lg s' cs' r, lsubmit_job A F cs cid blocks = (cs', Ret r) /\ sim_result s lg s' cs' /\
     forall sched, agrees sched (tick s) lg -> submit_job A K sched s cid blocks = (s', r).
Proof.
  intros [Hc [HM Hs]] Hcid Hb.
  set (j := {| j_ctx := cid; j_blocks := blocks; j_chain := c_digest (getc A s cid) |}).
  destruct (sim_mstep A K F Hwf HK s (lmgr cs) (MSubmit j) HM Hb Hcid)
    as [lg [s' [m' [r [Hstep [HM' [Ht [Hl [Hctx Ha]]]]]]]]].
  cbn [lm_step] in Hstep.
  exists lg, s'.
  unfold lsubmit_job. rewrite (getc_eq s cs cid Hc). fold j. rewrite Hstep.
  destruct r as [id|]; cbn [view land_result].
  - eexists. exists (Some id). split; [reflexivity|]. split.
    + split; [|split; assumption]. unfold SimC. cbn [lctxs lmgr].
      unfold ctxs_after in Hctx. split; [rewrite Hctx, (getc_eq s cs id Hc), Hc; reflexivity|]. split; [assumption|].
      rewrite Hctx. apply Forall_upd; [assumption|].
      unfold small_inc, set_digest. cbn [c_inc]. apply (Forall_nth_dflt small_inc); [assumption|apply small_dflt].
    + intros sched Hag. unfold submit_job. fold j. apply (Ha sched Hag).
  - eexists. exists None. split; [reflexivity|]. split.
    + split; [|split; assumption]. unfold SimC. cbn [lctxs lmgr]. unfold ctxs_after in Hctx.
      split; [rewrite Hctx; assumption|]. split; [assumption|]. rewrite Hctx. assumption.
    + intros sched Hag. unfold submit_job. fold j. apply (Ha sched Hag).
Qed.

Lemma sim_result_trans s lg1 s1 lg2 s2 cs2 cs1 :
  sim_result s lg1 s1 cs1 -> sim_result s1 lg2 s2 cs2 -> sim_result s (lg1 ++ lg2) s2 cs2.
Proof.
  intros [_ [Ht1 Hl1]] [HS [Ht2 Hl2]]. split; [assumption|]. rewrite app_length. split; lia.
Qed.

Lemma sim_resubmit fuel : forall s cs cur, SimC s cs -> (forall cid, cur = Some cid -> cid < length (ctxs s)) ->
  exists lg s' cs' out, lresubmit A F fuel cs cur = (cs', out) /\ sim_result s lg s' cs' /\
     forall sched, agrees sched (tick s) lg -> resubmit A K sched fuel s cur = (s', out).
Proof.
  induction fuel as [|fuel IH]; intros s cs cur HS Hcur.
  - destruct cur as [cid|]; cbn [lresubmit resubmit].
    + exists [], s, cs, OutOfFuel. split; [reflexivity|]. split; [split; [assumption|split; cbn; lia]|reflexivity].
    + exists [], s, cs, (Ret None). split; [reflexivity|]. split; [split; [assumption|split; cbn; lia]|reflexivity].
  - destruct cur as [cid|]; cbn [lresubmit resubmit].
    2:{ exists [], s, cs, (Ret None). split; [reflexivity|]. split; [split; [assumption|split; cbn; lia]|reflexivity]. }
    pose proof (Hcur cid eq_refl) as Hcid.
    destruct HS as [Hc [HM Hs]]. rewrite (getc_eq s cs cid Hc).
    assert (Hsm : small_inc (getc A s cid)) by (apply (Forall_nth_dflt small_inc); [assumption|apply small_dflt]).
    destruct (ctx_next A (getc A s cid)) as [c' jo] eqn:En.
    destruct (ctx_next_small _ _ _ Hsm En) as [Hsm' Hjo].
    assert (HS1 : SimC (setc s cid c') (lsetc cs cid c')) by (apply SimC_setc; [split; [|split]; assumption|assumption]).
    destruct jo as [blocks|].
    + assert (Hcid1 : cid < length (ctxs (setc s cid c'))) by (unfold setc; cbn [ctxs]; rewrite lm_length_upd; assumption).
      destruct (sim_submit_job _ _ cid blocks HS1 Hcid1 (Hjo blocks eq_refl)) as [lg1 [s1 [cs1 [r [Hl1 [Hr1 Ha1]]]]]].
      rewrite Hl1.
      destruct (IH s1 cs1 r) as [lg2 [s2 [cs2 [out [Hl2 [Hr2 Ha2]]]]]].
      * apply Hr1.
      * intros id ->. destruct Hr1 as [[_ [[_ Hids] _]] [_ Hlen]].
        (* the context handed back is that of a job that was held or just submitted *)
        destruct HS1 as [_ [[_ Hids1] _]].
        assert (Hx : submit_job A K (fun t _ => nth (t - tick (setc s cid c')) lg1 None) (setc s cid c') cid blocks = (s1, Some id)).
        { apply Ha1. intros k ids Hk. f_equal. lia. }
        unfold submit_job, mgr_submit in Hx.
        match type of Hx with context [choose ?sch ?st] => destruct (choose sch st) as [i|] end.
        -- unfold hand_back in Hx. cbn [held] in Hx.
           destruct (nth_error (held (setc s cid c') ++ [_]) i) as [jq|] eqn:Ei; [|discriminate].
           inversion Hx. subst. cbn [ctxs]. rewrite lm_length_upd.
           apply nth_error_In in Ei. apply in_app_or in Ei. destruct Ei as [Ei | [<- | []]].
           ++ rewrite Forall_forall in Hids1. apply Hids1. assumption.
           ++ cbn [j_ctx]. assumption.
        -- match type of Hx with context [if ?cnd then _ else _] => destruct cnd end; [|discriminate].
           unfold hand_back in Hx. cbn [held] in Hx.
           destruct (nth_error (held (setc s cid c') ++ [_]) 0) as [jq|] eqn:Ei; [|discriminate].
           inversion Hx. subst. cbn [ctxs]. rewrite lm_length_upd.
           apply nth_error_In in Ei. apply in_app_or in Ei. destruct Ei as [Ei | [<- | []]].
           ++ rewrite Forall_forall in Hids1. apply Hids1. assumption.
           ++ cbn [j_ctx]. assumption.
      * exists (lg1 ++ lg2), s2, cs2, out. split; [exact Hl2|]. split.
        -- eapply sim_result_trans; [|exact Hr2]. destruct Hr1 as [H1 [H2 H3]]. split; [exact H1|]. split.
           ++ unfold setc in H2. cbn [tick] in H2. exact H2.
           ++ unfold setc in H3. cbn [ctxs] in H3. rewrite lm_length_upd in H3. exact H3.
        -- intros sched Hag. apply (agrees_app K F Hwf HK) in Hag. destruct Hag as [Hag1 Hag2].
           change (tick s) with (tick (setc s cid c')) in Hag1.
           rewrite (Ha1 sched Hag1). apply Ha2.
           destruct Hr1 as [_ [Ht _]]. rewrite Ht. unfold setc. cbn [tick]. exact Hag2.
    + exists [], (setc s cid c'), (lsetc cs cid c'), (Ret (Some cid)). split; [reflexivity|].
      split; [|intros; reflexivity]. split; [assumption|]. unfold setc. cbn [tick ctxs length]. rewrite lm_length_upd. split; lia.
Qed.

(* the context the abstract manager hands back is that of a held (or the submitted) job *)
Lemma hand_back_lt s i s1 id : Forall (fun j => j_ctx j < length (ctxs s)) (held s) ->
  hand_back A s i = (s1, Some id) -> id < length (ctxs s1).
Proof.
  intros Hids H. unfold hand_back in H. destruct (nth_error (held s) i) as [jq|] eqn:Ei; [|discriminate].
  inversion H. subst. cbn [ctxs]. rewrite lm_length_upd. rewrite Forall_forall in Hids. apply Hids.
  eapply nth_error_In. exact Ei.
Qed.

Lemma astep_ret_lt sched s o s1 id : Forall (fun j => j_ctx j < length (ctxs s)) (held s) ->
  mop_in (length (ctxs s)) o -> astep A K sched s o = (s1, Some id) -> id < length (ctxs s1).
Proof.
  intros Hids Hin H. destruct o as [j|]; cbn [astep] in H.
  - unfold mgr_submit in H.
    set (s0 := {| ctxs := ctxs s; held := held s ++ [j]; tick := tick s |}) in *.
    assert (Hids0 : Forall (fun j0 => j_ctx j0 < length (ctxs s0)) (held s0)).
    { cbn [ctxs held s0]. apply Forall_app. split; [assumption|]. constructor; [exact Hin|constructor]. }
    destruct (choose sched s0) as [i|].
    + eapply hand_back_lt; eassumption.
    + destruct (K <=? length (held s0)); [eapply hand_back_lt; eassumption|discriminate].
  - unfold mgr_flush in H. destruct (held s) eqn:Eh; [discriminate|]. rewrite <- Eh in *.
    destruct (choose sched s) as [i|]; eapply hand_back_lt; eassumption.
Qed.

(* one manager call of the context layer *)
Lemma sim_mcall s cs o : SimC s cs -> mop_ok F o -> mop_in (length (ctxs s)) o ->
  exists lg s' cs' r,
     (let '(m', x) := lm_step cmp F (lmgr cs) o in land_result A cs m' x) = (cs', Ret r) /\ sim_result s lg s' cs' /\
     (forall id, r = Some id -> id < length (ctxs s')) /\
     forall sched, agrees sched (tick s) lg -> astep A K sched s o = (s', r).
Proof.
  intros [Hc [HM Hs]] Hok Hin.
  destruct (sim_mstep A K F Hwf HK s (lmgr cs) o HM Hok Hin)
    as [lg [s' [m' [r [Hstep [HM' [Ht [Hl [Hctx Ha]]]]]]]]].
  exists lg, s'. rewrite Hstep.
  assert (Hlt : forall id, r = Some id -> id < length (ctxs s')).
  { intros id ->. destruct HM as [_ Hids].
    apply (astep_ret_lt (fun t _ => nth (t - tick s) lg None) s o s' id Hids Hin).
    apply Ha. intros k ids Hk. f_equal. lia. }
  destruct r as [id|]; cbn [view land_result].
  - eexists. exists (Some id). split; [reflexivity|]. split; [|split; [exact Hlt|exact Ha]].
    split; [|split; assumption]. unfold SimC. cbn [lctxs lmgr].
    unfold ctxs_after in Hctx. split; [rewrite Hctx, (getc_eq s cs id Hc), Hc; reflexivity|]. split; [assumption|].
    rewrite Hctx. apply Forall_upd; [assumption|].
    unfold small_inc, set_digest. cbn [c_inc]. apply (Forall_nth_dflt small_inc); [assumption|apply small_dflt].
  - eexists. exists None. split; [reflexivity|]. split; [|split; [exact Hlt|exact Ha]].
    split; [|split; assumption]. unfold SimC. cbn [lctxs lmgr]. unfold ctxs_after in Hctx.
    split; [rewrite Hctx; assumption|]. split; [assumption|]. rewrite Hctx. assumption.
Qed.

Lemma sim_ctx_submit s cs cid buf flags : SimC s cs -> cid < length (ctxs s) -> (N.of_nat (length buf) < 2 ^ 32)%N ->
  exists lg s' cs' out, lctx_submit A F cs cid buf flags = (cs', out) /\ sim_result s lg s' cs' /\
     forall sched, agrees sched (tick s) lg -> ctx_submit A K sched s cid buf flags = (s', out).
Proof.
  intros HS Hcid Hbuf. pose proof HS as [Hc [HM Hs]].
  unfold lctx_submit, ctx_submit. rewrite (getc_eq s cs cid Hc), (SimC_fuel s cs HS).
  assert (Hsm : small_inc (getc A s cid)) by (apply (Forall_nth_dflt small_inc); [assumption|apply small_dflt]).
  destruct (ctx_accept A (getc A s cid) buf flags) as [e | c' jo] eqn:Ea.
  - exists [], (setc s cid (set_error (getc A s cid) e)), (lsetc cs cid (set_error (getc A s cid) e)), (Ret (Some cid)).
    split; [reflexivity|]. split; [|intros; reflexivity].
    split; [apply SimC_setc; [assumption|exact Hsm]|]. unfold setc. cbn [tick ctxs length]. rewrite lm_length_upd. split; lia.
  - destruct (ctx_accept_small _ _ _ _ _ Hbuf Ea) as [Hsm' Hjo].
    assert (HS1 : SimC (setc s cid c') (lsetc cs cid c')) by (apply SimC_setc; assumption).
    assert (Hcid1 : cid < length (ctxs (setc s cid c'))) by (unfold setc; cbn [ctxs]; rewrite lm_length_upd; assumption).
    destruct jo as [blocks|].
    + destruct (sim_submit_job _ _ cid blocks HS1 Hcid1 (Hjo blocks eq_refl)) as [lg1 [s1 [cs1 [r [Hl1 [Hr1 Ha1]]]]]].
      rewrite Hl1.
      assert (Hrlt : forall id, r = Some id -> id < length (ctxs s1)).
      { intros id ->. destruct HS1 as [_ [[_ Hids1] _]].
        apply (astep_ret_lt (fun t _ => nth (t - tick (setc s cid c')) lg1 None) (setc s cid c')
                 (MSubmit {| j_ctx := cid; j_blocks := blocks; j_chain := c_digest (getc A (setc s cid c') cid) |}) s1 id Hids1 Hcid1).
        apply Ha1. intros k ids Hk. f_equal. lia. }
      destruct (sim_resubmit (fuel_for s1) s1 cs1 r (proj1 Hr1) Hrlt) as [lg2 [s2 [cs2 [out [Hl2 [Hr2 Ha2]]]]]].
      rewrite (SimC_fuel s1 cs1 (proj1 Hr1)), Hl2.
      exists (lg1 ++ lg2), s2, cs2, out. split; [reflexivity|]. split.
      * eapply sim_result_trans; [|exact Hr2]. destruct Hr1 as [H1 [H2 H3]]. split; [exact H1|]. split.
        -- unfold setc in H2. cbn [tick] in H2. exact H2.
        -- unfold setc in H3. cbn [ctxs] in H3. rewrite lm_length_upd in H3. exact H3.
      * intros sched Hag. apply (agrees_app K F Hwf HK) in Hag. destruct Hag as [Hag1 Hag2].
        change (tick s) with (tick (setc s cid c')) in Hag1.
        rewrite (Ha1 sched Hag1). apply Ha2.
        destruct Hr1 as [_ [Ht _]]. rewrite Ht. unfold setc. cbn [tick]. exact Hag2.
    + destruct (sim_resubmit (fuel_for s) (setc s cid c') (lsetc cs cid c') (Some cid) HS1) as [lg [s2 [cs2 [out [Hl2 [Hr2 Ha2]]]]]].
      { intros id Hid. inversion Hid. subst. assumption. }
      rewrite Hl2. exists lg, s2, cs2, out. split; [reflexivity|]. split.
      * destruct Hr2 as [H1 [H2 H3]]. split; [exact H1|]. unfold setc in H2, H3. cbn [tick ctxs] in H2, H3.
        rewrite lm_length_upd in H3. split; assumption.
      * intros sched Hag. apply Ha2. exact Hag.
Qed.

Lemma sim_ctx_flush_f fuel : forall s cs, SimC s cs ->
  exists lg s' cs' out, lctx_flush_f A F fuel cs = (cs', out) /\ sim_result s lg s' cs' /\
     forall sched, agrees sched (tick s) lg -> ctx_flush_f A K sched fuel s = (s', out).
Proof.
  induction fuel as [|fuel IH]; intros s cs HS; cbn [lctx_flush_f ctx_flush_f].
  - exists [], s, cs, OutOfFuel. split; [reflexivity|]. split; [split; [assumption|split; cbn; lia]|intros; reflexivity].
  - destruct (sim_mcall s cs MFlush HS I I) as [lg1 [s1 [cs1 [r [Hl1 [Hr1 [Hlt Ha1]]]]]]].
    cbn [lm_step] in Hl1. destruct (lm_flush cmp F (lmgr cs)) as [m' x]. rewrite Hl1.
    destruct r as [cid|].
    + destruct (sim_resubmit (fuel_for s1) s1 cs1 (Some cid) (proj1 Hr1)) as [lg2 [s2 [cs2 [out [Hl2 [Hr2 Ha2]]]]]].
      { intros id Hid. apply Hlt. assumption. }
      rewrite (SimC_fuel s1 cs1 (proj1 Hr1)), Hl2.
      assert (Hr12 : sim_result s (lg1 ++ lg2) s2 cs2) by (eapply sim_result_trans; eassumption).
      assert (Hab : forall sched, agrees sched (tick s) (lg1 ++ lg2) ->
                 mgr_flush A sched s = (s1, Some cid) /\ resubmit A K sched (fuel_for s1) s1 (Some cid) = (s2, out)).
      { intros sched Hag. apply (agrees_app K F Hwf HK) in Hag. destruct Hag as [Hag1 Hag2].
        split; [apply (Ha1 sched Hag1)|]. apply Ha2. destruct Hr1 as [_ [Ht _]]. rewrite Ht. exact Hag2. }
      destruct out as [[rid|]|].
      * exists (lg1 ++ lg2), s2, cs2, (Ret (Some rid)). split; [reflexivity|]. split; [exact Hr12|].
        intros sched Hag. destruct (Hab sched Hag) as [E1 E2]. rewrite E1, E2. reflexivity.
      * destruct (IH s2 cs2 (proj1 Hr2)) as [lg3 [s3 [cs3 [out3 [Hl3 [Hr3 Ha3]]]]]].
        exists ((lg1 ++ lg2) ++ lg3), s3, cs3, out3. split; [exact Hl3|]. split; [eapply sim_result_trans; eassumption|].
        intros sched Hag. apply (agrees_app K F Hwf HK) in Hag. destruct Hag as [Hag12 Hag3].
        destruct (Hab sched Hag12) as [E1 E2]. rewrite E1, E2. apply Ha3.
        destruct Hr12 as [_ [Ht _]]. rewrite Ht. exact Hag3.
      * exists (lg1 ++ lg2), s2, cs2, OutOfFuel. split; [reflexivity|]. split; [exact Hr12|].
        intros sched Hag. destruct (Hab sched Hag) as [E1 E2]. rewrite E1, E2. reflexivity.
    + exists lg1, s1, cs1, (Ret None). split; [reflexivity|]. split; [exact Hr1|].
      intros sched Hag. cbn [astep] in Ha1. rewrite (Ha1 sched Hag). reflexivity.
Qed.

Lemma sim_step s cs o : SimC s cs -> op_small (length (ctxs s)) o ->
  exists lg s' cs' out rc, lstep A F cs o = (cs', out, rc) /\ sim_result s lg s' cs' /\
     lobs_of A cs' out rc = obs_of A s' out rc /\
     forall sched, agrees sched (tick s) lg -> step A K sched s o = (s', out, rc).
Proof.
  intros HS Ho. destruct o as [cid buf flags|]; cbn [lstep step].
  - destruct Ho as [Hcid Hbuf].
    destruct (sim_ctx_submit s cs cid buf flags HS Hcid Hbuf) as [lg [s' [cs' [out [Hl [Hr Ha]]]]]].
    unfold lapi_submit, api_submit. rewrite Hl.
    assert (Hg : forall r, lgetc A cs' r = getc A s' r) by (intros r; apply getc_eq; apply Hr).
    eexists lg, s', cs', out, _. split; [reflexivity|]. split; [exact Hr|]. split.
    + unfold lobs_of, obs_of. destruct out as [[r|]|]; try reflexivity. rewrite !Hg. reflexivity.
    + intros sched Hag. rewrite (Ha sched Hag). destruct out as [[r|]|]; try reflexivity. rewrite Hg. reflexivity.
  - unfold lctx_flush, ctx_flush. rewrite (SimC_fuel s cs HS).
    destruct (sim_ctx_flush_f (fuel_for s) s cs HS) as [lg [s' [cs' [out [Hl [Hr Ha]]]]]].
    rewrite Hl. assert (Hg : forall r, lgetc A cs' r = getc A s' r) by (intros r; apply getc_eq; apply Hr).
    exists lg, s', cs', out, 0%N. split; [reflexivity|]. split; [exact Hr|]. split.
    + unfold lobs_of, obs_of. destruct out as [[r|]|]; try reflexivity. rewrite !Hg. reflexivity.
    + intros sched Hag. rewrite (Ha sched Hag). reflexivity.
Qed.

Lemma sim_run_obs ops : forall s cs, SimC s cs -> Forall (op_small (length (ctxs s))) ops ->
  exists lg, forall sched, agrees sched (tick s) lg -> run_obs A K sched s ops = lrun_obs A F cs ops.
Proof.
  induction ops as [|o ops IH]; intros s cs HS Hops.
  - exists []. intros. reflexivity.
  - inversion Hops as [|? ? Ho Hops']. subst.
    destruct (sim_step s cs o HS Ho) as [lg1 [s1 [cs1 [out [rc [Hl [Hr [Hobs Ha]]]]]]]].
    destruct (IH s1 cs1 (proj1 Hr)) as [lg2 H2].
    { destruct Hr as [_ [_ Hlen]]. rewrite Hlen. assumption. }
    exists (lg1 ++ lg2). intros sched Hag. apply (agrees_app K F Hwf HK) in Hag. destruct Hag as [Hag1 Hag2].
    cbn [run_obs lrun_obs]. unfold step_obs. rewrite (Ha sched Hag1), Hl, Hobs.
    destruct (obs_of A s1 out rc); [|reflexivity].
    rewrite H2; [reflexivity|]. destruct Hr as [_ [Ht _]]. rewrite Ht. exact Hag2.
Qed.

(* L6: the composition context layer o lane manager is the context layer over the abstract manager
   under some scheduling oracle *)
Theorem lanes_refine_abstract (junk : list ctx) (ops : list op) :
  Forall small_inc junk -> Forall (op_small (length junk)) ops ->
  exists sched, lrun_obs A F (linit F junk) ops = run_obs A K sched (model_init A junk) ops.
Proof.
  intros Hj Hops.
  destruct (sim_run_obs ops (model_init A junk) (linit F junk)) as [lg H].
  - unfold SimC, model_init, linit, mgr_init. cbn [ctxs lctxs lmgr held]. split; [reflexivity|]. split.
    + split; cbn [held]; [apply MRel_init; assumption|constructor].
    + apply Forall_forall. intros c Hc. apply in_map_iff in Hc. destruct Hc as [c0 [<- Hc0]].
      rewrite Forall_forall in Hj. unfold small_inc, ctx_init, set_error, set_status. cbn [c_inc]. apply Hj. assumption.
  - unfold model_init, mgr_init. cbn [ctxs]. rewrite map_length. assumption.
  - exists (fun t _ => nth t lg None). symmetry. apply H. intros k ids _. reflexivity.
Qed.

End Ctx.

(* ---- transfer: theorems about run_obs for every oracle are theorems about the composition ---- *)
From ISAL Require Import Proofs.HashSpecFacts Proofs.HashRefine Proofs.HashProps.

Lemma lanes_transfer_refines_spec (A : algo) (K : nat) (F : family_cfg) (junk : list ctx) (ops : list op) :
  algo_wf A -> cfg_wf F = true -> f_nlanes F < K -> f_bsize F = N.of_nat (a_bsize A) ->
  wf_history A K junk ops -> Forall small_inc junk -> Forall (op_small (length junk)) ops ->
  exists tr, lrun_obs A F (linit F junk) ops = Some tr /\
    (bounded (spec_init (length junk)) tr -> accepts A K (spec_init (length junk)) tr = true).
Proof.
  intros WA Hwf HK HB Hh Hj Hops.
  destruct (lanes_refine_abstract A K F Hwf HK (wf_shape A WA) HB junk ops Hj Hops) as [sched E].
  rewrite E. apply hash_refines; assumption.
Qed.

Lemma lanes_transfer_conservation (A : algo) (K : nat) (F : family_cfg) (junk : list ctx) (ops : list op)
      (tr : list (call * obs)) :
  algo_wf A -> cfg_wf F = true -> f_nlanes F < K -> f_bsize F = N.of_nat (a_bsize A) ->
  wf_history A K junk ops -> Forall small_inc junk -> Forall (op_small (length junk)) ops ->
  lrun_obs A F (linit F junk) ops = Some tr ->
  NoDup (pending tr) /\ length (pending tr) < K /\
  (forall t1 c o t2 r, tr = t1 ++ (c, o) :: t2 -> o_ret o = Some r -> o_rc o = 0%N ->
     (In r (pending t1) \/ exists buf flags, c = CSubmit r buf flags) /\
     ~ In r (pending (t1 ++ [(c, o)]))).
Proof.
  intros WA Hwf HK HB Hh Hj Hops Hrun.
  destruct (lanes_refine_abstract A K F Hwf HK (wf_shape A WA) HB junk ops Hj Hops) as [sched E].
  rewrite E in Hrun.
  destruct (c06_conservation A WA K sched junk ops tr Hh Hrun) as [_ H]. exact H.
Qed.
