(* List facts used by the lane-manager proofs (upd, map_upto, remove_nth, nodupb, last_occ). *)
From Coq Require Import NArith List Arith Bool Lia Permutation.
From ISAL Require Import Base.Words Base.ListUtil Model.HashCtx Model.HashCfg Model.LaneMgr.
Import ListNotations.

Lemma lm_length_upd {X} i (x : X) l : length (upd i x l) = length l.
Proof. revert i. induction l as [|a l IH]; intros [|i]; cbn; auto. Qed.

Lemma lm_nth_upd_eq {X} i (x d : X) l : i < length l -> nth i (upd i x l) d = x.
Proof. revert i. induction l as [|a l IH]; intros [|i] H; cbn in *; try lia; auto. apply IH. lia. Qed.

Lemma lm_nth_upd_neq {X} i j (x d : X) l : i <> j -> nth j (upd i x l) d = nth j l d.
Proof. revert i j. induction l as [|a l IH]; intros [|i] [|j] H; cbn; auto; try congruence. Qed.

Lemma lm_length_map_upto {X} (f : X -> X) n l : length (map_upto f n l) = length l.
Proof. revert l. induction n as [|n IH]; intros [|a l]; cbn; auto. Qed.

Lemma lm_nth_map_upto {X} (f : X -> X) n l i d :
  i < length l -> nth i (map_upto f n l) d = if i <? n then f (nth i l d) else nth i l d.
Proof.
  revert l i. induction n as [|n IH]; intros l i H.
  - destruct l; cbn; destruct i; reflexivity.
  - destruct l as [|a l]; [cbn in H; lia|]. destruct i as [|i]; cbn [map_upto nth].
    + reflexivity.
    + rewrite IH by (cbn in H; lia). reflexivity.
Qed.

Lemma lm_nth_firstn {X} n (l : list X) i d : i < n -> nth i (firstn n l) d = nth i l d.
Proof.
  revert l i. induction n as [|n IH]; intros l i H; [lia|].
  destruct l as [|a l]; [destruct i; reflexivity|]. destruct i as [|i]; cbn; [reflexivity|]. apply IH. lia.
Qed.

Lemma lm_In_firstn_nth {X} n (l : list X) x d :
  In x (firstn n l) -> exists i, i < n /\ i < length l /\ nth i l d = x.
Proof.
  intros H. destruct (In_nth _ _ d H) as [i [Hi Hn]].
  rewrite firstn_length in Hi. exists i. split; [lia|]. split; [lia|].
  rewrite <- Hn. symmetry. apply lm_nth_firstn. lia.
Qed.

Lemma lm_nodupb_NoDup l : nodupb l = true -> NoDup l.
Proof.
  induction l as [|a l IH]; cbn; intros H; constructor.
  - apply andb_true_iff in H. destruct H as [H _]. intros Hin.
    apply negb_true_iff in H. assert (existsb (Nat.eqb a) l = true); [|congruence].
    apply existsb_exists. exists a. split; [assumption|apply Nat.eqb_refl].
  - apply IH. apply andb_true_iff in H. tauto.
Qed.

Lemma lm_remove_nth_length {X} (l : list X) i x : nth_error l i = Some x -> S (length (remove_nth i l)) = length l.
Proof.
  revert i. induction l as [|a l IH]; intros [|i] H; cbn in *; try discriminate; auto.
Qed.

Lemma lm_remove_nth_perm {X} (l : list X) i x : nth_error l i = Some x -> Permutation l (x :: remove_nth i l).
Proof.
  revert i. induction l as [|a l IH]; intros [|i] H; cbn in *; try discriminate.
  - inversion H. subst. reflexivity.
  - etransitivity; [apply perm_skip, IH; exact H|]. apply perm_swap.
Qed.

Lemma lm_Forall2_remove_nth {X Y} (R : X -> Y -> Prop) l1 l2 i :
  Forall2 R l1 l2 -> Forall2 R (remove_nth i l1) (remove_nth i l2).
Proof.
  intros H. revert i. induction H as [|a b l1 l2 Hab H IH]; intros [|i]; cbn; try constructor; auto.
Qed.

Lemma lm_Forall2_nth_error {X Y} (R : X -> Y -> Prop) l1 l2 i x :
  Forall2 R l1 l2 -> nth_error l1 i = Some x -> exists y, nth_error l2 i = Some y /\ R x y.
Proof.
  intros H. revert i. induction H as [|a b l1 l2 Hab H IH]; intros [|i] Hn; cbn in *; try discriminate.
  - inversion Hn. subst. eauto.
  - apply IH. assumption.
Qed.

Lemma lm_Forall2_impl_In {X Y} (R Q : X -> Y -> Prop) l1 l2 :
  (forall x y, In x l1 -> R x y -> Q x y) -> Forall2 R l1 l2 -> Forall2 Q l1 l2.
Proof.
  intros H F. induction F as [|a b l1 l2 Hab F IH]; constructor.
  - apply H; [left; reflexivity|assumption].
  - apply IH. intros x y Hx. apply H. right. assumption.
Qed.

Lemma lm_In_remove_nth {X} (l : list X) i x : In x (remove_nth i l) -> In x l.
Proof.
  revert i. induction l as [|a l IH]; intros [|i] H; cbn in *; auto. destruct H; [left|right]; eauto.
Qed.

(* position of an element *)
Lemma lm_In_nth_error {X} (l : list X) x : In x l -> exists i, nth_error l i = Some x.
Proof. apply In_nth_error. Qed.

(* last_occ: the copy source of flush is an occupied lane whenever one exists *)
Lemma lm_last_occ_spec l : forall i acc,
  (exists k, k < length l /\ occupied (nth k l idle_lane) = true) ->
  let r := last_occ i l acc in i <= r /\ r < i + length l /\ occupied (nth (r - i) l idle_lane) = true.
Proof.
  induction l as [|x l IH]; intros i acc [k [Hk Ho]]; [cbn in Hk; lia|].
  cbn [last_occ].
  destruct (existsb occupied l) eqn:He.
  - apply existsb_exists in He. destruct He as [y [Hy Hoy]].
    destruct (In_nth _ _ idle_lane Hy) as [k' [Hk' Hn']].
    destruct (IH (S i) (if occupied x then i else acc)) as [H1 [H2 H3]].
    { exists k'. split; [assumption|]. rewrite Hn'. assumption. }
    cbn zeta in *. split; [lia|]. split; [cbn [length]; lia|].
    replace (last_occ (S i) l (if occupied x then i else acc) - i) with (S (last_occ (S i) l (if occupied x then i else acc) - S i)) by lia.
    cbn [nth]. assumption.
  - (* no occupied lane in the tail: x itself is, and the tail leaves acc alone *)
    assert (Hall : forall y, In y l -> occupied y = false).
    { intros y Hy. destruct (occupied y) eqn:E; [|reflexivity].
      assert (existsb occupied l = true) by (apply existsb_exists; eauto). congruence. }
    assert (Hk0 : k = 0).
    { destruct k as [|k]; [reflexivity|]. cbn [nth] in Ho. cbn [length] in Hk.
      assert (In (nth k l idle_lane) l) by (apply nth_In; lia). rewrite Hall in Ho by assumption. discriminate. }
    subst k. cbn [nth] in Ho. rewrite Ho.
    assert (Hkeep : forall l' j a, (forall y, In y l' -> occupied y = false) -> last_occ j l' a = a).
    { induction l' as [|y l' IH']; intros j a Hy; cbn [last_occ]; [reflexivity|].
      rewrite (Hy y) by (left; reflexivity). apply IH'. intros z Hz. apply Hy. right. assumption. }
    rewrite Hkeep by assumption. cbn zeta. split; [lia|]. split; [cbn [length]; lia|].
    rewrite Nat.sub_diag. cbn [nth]. assumption.
Qed.

Lemma lm_copy_src_occ lanes :
  (exists k, k < length lanes /\ occupied (nth k lanes idle_lane) = true) ->
  copy_src lanes < length lanes /\ occupied (nth (copy_src lanes) lanes idle_lane) = true.
Proof.
  intros H. unfold copy_src. destruct (lm_last_occ_spec lanes 0 0 H) as [_ [H2 H3]].
  rewrite Nat.sub_0_r in H3. split; [lia|assumption].
Qed.

Lemma lm_nth_map {X Y} (f : X -> Y) l i dx dy : i < length l -> nth i (map f l) dy = f (nth i l dx).
Proof. intros H. rewrite (nth_indep _ dy (f dx)) by (rewrite map_length; assumption). apply map_nth. Qed.

Lemma lm_nth_combine {X Y} (a : list X) (b : list Y) i dx dy :
  length a = length b -> nth i (combine a b) (dx, dy) = (nth i a dx, nth i b dy).
Proof. intros H. apply combine_nth. assumption. Qed.

Lemma lm_NoDup_app {X} (a b : list X) : NoDup (a ++ b) -> NoDup a /\ NoDup b /\ (forall x, In x a -> ~ In x b).
Proof.
  induction a as [|y a IH]; cbn; intros H.
  - split; [constructor|]. split; [assumption|]. intros x [].
  - inversion H as [|? ? Hn Hnd]. subst. destruct (IH Hnd) as [Ha [Hb Hd]]. split; [|split].
    + constructor; [|assumption]. intros Hc. apply Hn. apply in_or_app. left. assumption.
    + assumption.
    + intros x [-> | Hx]; [|apply Hd; assumption]. intros Hc. apply Hn. apply in_or_app. right. assumption.
Qed.

Lemma lm_Forall2_length {X Y} (R : X -> Y -> Prop) l1 l2 : Forall2 R l1 l2 -> length l1 = length l2.
Proof. induction 1; cbn; congruence. Qed.
