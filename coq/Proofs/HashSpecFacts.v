(* Facts about the L0 trace acceptor Spec/HashApiSpec.v alone (no model): what a successful
   spec_check says about an observation, the abstract state as a function of the calls and
   of who was handed back, and trace-level notions (the stream of a context, the set of
   pending contexts) in which properties C01/C06/C15 are stated. *)
From Coq Require Import NArith List Arith Lia Bool.
From ISAL Require Import Base.Words Base.ListUtil Spec.MD Spec.HashApiSpec Proofs.ChunkFacts.
Import ListNotations.

(* ---- the abstract state as a function of the calls and of who was handed back -------- *)

Definition retired (ac : actx) : actx :=
  {| s_stream := s_stream ac;
     s_phase := match s_phase ac with AFlight true => AComplete | AFlight false => AIdle | p => p end |}.

Definition retire (a : list actx) (r : option nat) : list actx :=
  match r with Some i => upd i (retired (nth i a dummy)) a | None => a end.

Definition abs_step (a : list actx) (c : call) (r : option nat) : list actx :=
  match c with
  | CSubmit cid buf flags =>
      match rejection (nth cid a dummy) flags with
      | Some _ => a
      | None =>
          retire (upd cid {| s_stream := (if flag_first flags then [] else s_stream (nth cid a dummy)) ++ buf;
                             s_phase := AFlight (flag_last flags) |} a) r
      end
  | CFlush => retire a r
  end.

Fixpoint abs_run (a : list actx) (tr : list (call * obs)) : list actx :=
  match tr with
  | [] => a
  | (c, o) :: rest => abs_run (abs_step a c (o_ret o)) rest
  end.

Lemma length_retire a r : length (retire a r) = length a.
Proof. destruct r; [apply length_upd|reflexivity]. Qed.

Lemma length_abs_step a c r : length (abs_step a c r) = length a.
Proof.
  destruct c as [cid buf flags|]; cbn [abs_step]; [|apply length_retire].
  destruct (rejection (nth cid a dummy) flags); [reflexivity|].
  rewrite length_retire. apply length_upd.
Qed.

Lemma length_abs_run tr : forall a, length (abs_run a tr) = length a.
Proof.
  induction tr as [|[c o] tr IH]; intros a; [reflexivity|]. cbn [abs_run]. rewrite IH. apply length_abs_step.
Qed.

Lemma abs_run_app t1 t2 a : abs_run a (t1 ++ t2) = abs_run (abs_run a t1) t2.
Proof. revert a. induction t1 as [|[c o] t1 IH]; intros a; [reflexivity|]. cbn [app abs_run]. apply IH. Qed.

Lemma stream_retire a r i : s_stream (nth i (retire a r) dummy) = s_stream (nth i a dummy).
Proof.
  destruct r as [r|]; [|reflexivity]. cbn [retire].
  destruct (Nat.lt_ge_cases r (length a)) as [H|H].
  - destruct (Nat.eq_dec r i) as [<-|E]; [rewrite nth_upd_eq by exact H; reflexivity|].
    rewrite nth_upd_neq by exact E. reflexivity.
  - destruct (Nat.eq_dec r i) as [<-|E]; [|rewrite nth_upd_neq by exact E; reflexivity].
    rewrite !nth_overflow; rewrite ?length_upd; try lia. reflexivity.
Qed.

(* ---- trace-level notions ---------------------------------------------------------------- *)

(* a call succeeded (was not rejected) iff its return code is 0 *)
Definition stream_step (r : nat) (acc : list N) (co : call * obs) : list N :=
  match fst co with
  | CSubmit cid buf flags =>
      if ((cid =? r) && (o_rc (snd co) =? 0)%N)%bool then (if flag_first flags then [] else acc) ++ buf
      else acc
  | CFlush => acc
  end.

(* the bytes accepted for context r since its last accepted FIRST, along a trace *)
Definition stream_of (r : nat) (tr : list (call * obs)) : list N := fold_left (stream_step r) tr [].

Definition remove_id (r : option nat) (p : list nat) : list nat :=
  match r with Some i => filter (fun x => negb (x =? i)) p | None => p end.

(* contexts accepted and not yet handed back *)
Definition pending_step (p : list nat) (co : call * obs) : list nat :=
  match fst co with
  | CSubmit cid _ _ =>
      if (o_rc (snd co) =? 0)%N then remove_id (o_ret (snd co)) (p ++ [cid]) else p
  | CFlush => remove_id (o_ret (snd co)) p
  end.
Definition pending (tr : list (call * obs)) : list nat := fold_left pending_step tr [].

Section SpecFacts.
Variable A : algo.
Variable K : nat.

Lemma hand_back_ok_inv a r o a' : hand_back_ok A a r o = Some a' ->
  exists l, s_phase (nth r a dummy) = AFlight l /\ a' = retire a (Some r) /\
    o_status o = (if l then 4 else 0)%N /\
    o_total o = w64 (N.of_nat (length (s_stream (nth r a dummy)))) /\
    (l = true -> o_digest o = md_hash A (s_stream (nth r a dummy))).
Proof.
  unfold hand_back_ok, retire, retired.
  destruct (s_phase (nth r a dummy)) as [| | |[|]] eqn:Ph; try discriminate.
  - destruct (o_status o =? 4)%N eqn:E1; [|discriminate].
    destruct (o_total o =? _)%N eqn:E2; [|discriminate].
    destruct (list_eq_dec N.eq_dec _ _) as [E3|]; [|discriminate]. cbn [andb].
    intros [= <-]. apply N.eqb_eq in E1, E2. exists true. repeat split; auto.
  - destruct (o_status o =? 0)%N eqn:E1; [|discriminate].
    destruct (o_total o =? _)%N eqn:E2; [|discriminate]. cbn [andb].
    intros [= <-]. apply N.eqb_eq in E1, E2. exists false. repeat split; auto. discriminate.
Qed.

Lemma rejection_codes ac flags e : rejection ac flags = Some e -> (e = 1 \/ e = 2 \/ e = 3)%N.
Proof.
  unfold rejection. destruct (flag_bad flags); [intros [= <-]; auto|].
  destruct (s_phase ac); try (destruct (flag_first flags)); try discriminate; intros [= <-]; auto.
Qed.

Lemma rc_of_nonzero e : (e = 1 \/ e = 2 \/ e = 3)%N -> (rc_of e =? 0)%N = false.
Proof. intros [->|[->| ->]]; reflexivity. Qed.

Lemma spec_check_submit_inv a cid buf flags o a' :
  spec_check A K a (CSubmit cid buf flags) o = Some a' ->
  cid < length a /\
  match rejection (nth cid a dummy) flags with
  | Some e => a' = a /\ o_ret o = Some cid /\ o_error o = e /\ o_rc o = rc_of e
  | None =>
      o_rc o = 0%N /\
      let a1 := upd cid {| s_stream := (if flag_first flags then [] else s_stream (nth cid a dummy)) ++ buf;
                           s_phase := AFlight (flag_last flags) |} a in
      match o_ret o with
      | None => a' = a1 /\ n_flight a1 < K
      | Some r => hand_back_ok A a1 r o = Some a' /\ n_flight a' < K /\ (r = cid -> o_error o = 0%N)
      end
  end.
Proof.
  unfold spec_check. destruct (cid <? length a) eqn:Hc; [|discriminate]. cbn [negb].
  apply Nat.ltb_lt in Hc. intros H. split; [exact Hc|].
  destruct (rejection (nth cid a dummy) flags) as [e|].
  - destruct (o_ret o) as [r|]; [|discriminate].
    destruct (r =? cid) eqn:E1; [|discriminate]. destruct (o_error o =? e)%N eqn:E2; [|discriminate].
    destruct (o_rc o =? rc_of e)%N eqn:E3; [|discriminate]. cbn [andb] in H.
    apply Nat.eqb_eq in E1. apply N.eqb_eq in E2, E3. subst r.
    destruct (match s_phase (nth cid a dummy) with ANew => _ | _ => _ end); [|discriminate].
    injection H as <-. auto.
  - destruct (o_rc o =? 0)%N eqn:E0; [|discriminate]. cbn [negb] in H. apply N.eqb_eq in E0.
    split; [exact E0|]. cbv zeta. destruct (o_ret o) as [r|].
    + destruct ((r =? cid) && negb (o_error o =? 0)%N)%bool eqn:E1; [discriminate|].
      destruct (hand_back_ok A _ r o) as [a2|] eqn:HB; [|discriminate].
      destruct (n_flight a2 <? K) eqn:EK; [|discriminate]. injection H as <-.
      split; [reflexivity|]. split; [apply Nat.ltb_lt; exact EK|]. intros ->.
      rewrite Nat.eqb_refl in E1. cbn [andb] in E1. apply negb_false_iff, N.eqb_eq in E1. exact E1.
    + destruct (n_flight _ <? K) eqn:EK; [|discriminate]. injection H as <-.
      split; [reflexivity|apply Nat.ltb_lt; exact EK].
Qed.

Lemma spec_check_flush_inv a o a' :
  spec_check A K a CFlush o = Some a' ->
  o_rc o = 0%N /\
  match o_ret o with
  | None => a' = a /\ n_flight a = 0
  | Some r => hand_back_ok A a r o = Some a'
  end.
Proof.
  unfold spec_check. destruct (o_rc o =? 0)%N eqn:E0; [|discriminate]. cbn [negb].
  apply N.eqb_eq in E0. intros H. split; [exact E0|]. destruct (o_ret o) as [r|]; [exact H|].
  destruct (n_flight a =? 0) eqn:E; [|discriminate]. injection H as <-. apply Nat.eqb_eq in E. auto.
Qed.

Lemma spec_check_abs_step a c o a' : spec_check A K a c o = Some a' -> a' = abs_step a c (o_ret o).
Proof.
  intros H. destruct c as [cid buf flags|]; cbn [abs_step].
  - apply spec_check_submit_inv in H. destruct H as [_ H].
    destruct (rejection (nth cid a dummy) flags) as [e|]; [destruct H; assumption|].
    destruct H as [_ H]. cbv zeta in H. destruct (o_ret o) as [r|].
    + destruct H as [HB _]. apply hand_back_ok_inv in HB. destruct HB as (l & _ & -> & _). reflexivity.
    + destruct H as [-> _]. reflexivity.
  - apply spec_check_flush_inv in H. destruct H as [_ H]. destruct (o_ret o) as [r|].
    + apply hand_back_ok_inv in H. destruct H as (l & _ & -> & _). reflexivity.
    + destruct H as [-> _]. reflexivity.
Qed.

(* acceptance of a whole trace, split at any point *)
Lemma accepts_app t1 t2 : forall a, accepts A K a (t1 ++ t2) = true ->
  accepts A K a t1 = true /\ accepts A K (abs_run a t1) t2 = true.
Proof.
  induction t1 as [|[c o] t1 IH]; intros a H; [split; [reflexivity|exact H]|].
  cbn [app accepts abs_run] in *. destruct (spec_check A K a c o) as [a'|] eqn:E; [|discriminate].
  rewrite <- (spec_check_abs_step _ _ _ _ E). apply IH. exact H.
Qed.

Lemma accepts_cons a c o rest : accepts A K a ((c, o) :: rest) = true ->
  spec_check A K a c o = Some (abs_step a c (o_ret o)) /\ accepts A K (abs_step a c (o_ret o)) rest = true.
Proof.
  cbn [accepts]. destruct (spec_check A K a c o) as [a'|] eqn:E; [|discriminate].
  rewrite <- (spec_check_abs_step _ _ _ _ E). auto.
Qed.

(* the stream the acceptor tracks is the trace-level stream *)
Lemma stream_track_step a c o a' r : spec_check A K a c o = Some a' ->
  s_stream (nth r a' dummy) = stream_step r (s_stream (nth r a dummy)) (c, o).
Proof.
  intros H. pose proof (spec_check_abs_step _ _ _ _ H) as ->. unfold stream_step. cbn [fst snd].
  destruct c as [cid buf flags|]; cbn [abs_step]; [|apply stream_retire].
  apply spec_check_submit_inv in H. destruct H as [Hc H].
  destruct (rejection (nth cid a dummy) flags) as [e|] eqn:Rej.
  - destruct H as (_ & _ & _ & Hrc). rewrite Hrc, (rc_of_nonzero e (rejection_codes _ _ _ Rej)).
    rewrite andb_false_r. reflexivity.
  - destruct H as [Hrc _]. rewrite Hrc. cbn [N.eqb]. rewrite andb_true_r, stream_retire.
    destruct (Nat.eq_dec cid r) as [<-|E].
    + rewrite Nat.eqb_refl, nth_upd_eq by exact Hc. reflexivity.
    + rewrite nth_upd_neq by exact E. apply Nat.eqb_neq in E. rewrite E. reflexivity.
Qed.

Lemma stream_track tr r : forall a, accepts A K a tr = true ->
  s_stream (nth r (abs_run a tr) dummy) = fold_left (stream_step r) tr (s_stream (nth r a dummy)).
Proof.
  induction tr as [|[c o] tr IH]; intros a H; [reflexivity|].
  apply accepts_cons in H. destruct H as [H1 H2]. cbn [abs_run fold_left].
  rewrite (IH _ H2). rewrite (stream_track_step _ _ _ _ r H1). reflexivity.
Qed.

Lemma nth_repeat_dummy n i : nth i (repeat dummy n) dummy = dummy.
Proof. revert i. induction n; intros [|i]; cbn [repeat nth]; auto. Qed.

Lemma stream_track_init tr r n : accepts A K (repeat dummy n) tr = true ->
  s_stream (nth r (abs_run (repeat dummy n) tr) dummy) = stream_of r tr.
Proof. intros H. rewrite (stream_track tr r _ H), nth_repeat_dummy. reflexivity. Qed.

(* a context handed back by a call that succeeded (return code 0) was in flight; what the
   caller sees is what its phase demands *)
Lemma spec_check_handed_back a c o a' r :
  spec_check A K a c o = Some a' -> o_rc o = 0%N -> o_ret o = Some r ->
  (o_status o = 4%N \/ o_status o = 0%N) /\
  o_total o = w64 (N.of_nat (length (s_stream (nth r a' dummy)))) /\
  (o_status o = 4%N -> o_digest o = md_hash A (s_stream (nth r a' dummy))) /\
  in_flight (nth r a' dummy) = false.
Proof.
  intros H Hrc Hr.
  assert (G : forall a1, hand_back_ok A a1 r o = Some a' ->
    (o_status o = 4%N \/ o_status o = 0%N) /\
    o_total o = w64 (N.of_nat (length (s_stream (nth r a' dummy)))) /\
    (o_status o = 4%N -> o_digest o = md_hash A (s_stream (nth r a' dummy))) /\
    in_flight (nth r a' dummy) = false).
  { intros a1 HB. apply hand_back_ok_inv in HB. destruct HB as (l & Ph & -> & Hs & Ht & Hd).
    rewrite stream_retire.
    assert (Hlt : r < length a1).
    { destruct (Nat.lt_ge_cases r (length a1)) as [Hl|Hl]; [exact Hl|].
      rewrite nth_overflow in Ph by exact Hl. discriminate. }
    split; [destruct l; auto|]. split; [exact Ht|]. split.
    - intros H4. apply Hd. destruct l; [reflexivity|]. rewrite Hs in H4. discriminate.
    - cbn [retire]. rewrite nth_upd_eq by exact Hlt. unfold in_flight, retired. cbn [s_phase].
      rewrite Ph. destruct l; reflexivity. }
  destruct c as [cid buf flags|].
  - apply spec_check_submit_inv in H. destruct H as [Hc H].
    destruct (rejection (nth cid a dummy) flags) as [e|] eqn:Rej.
    + destruct H as (_ & _ & _ & Hrc'). rewrite Hrc in Hrc'.
      pose proof (rc_of_nonzero e (rejection_codes _ _ _ Rej)) as Hn. rewrite <- Hrc' in Hn. discriminate.
    + destruct H as [_ H]. cbv zeta in H. rewrite Hr in H. destruct H as [HB _]. eapply G. exact HB.
  - apply spec_check_flush_inv in H. destruct H as [_ H]. rewrite Hr in H. eapply G. exact H.
Qed.

End SpecFacts.
