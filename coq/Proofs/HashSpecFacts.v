(* Facts about the L0 trace acceptor Spec/HashApiSpec.v alone (no model): what a successful
   spec_check says about an observation, the abstract state as a function of the calls and
   of who was handed back, and trace-level notions (the stream of a context, the set of
   pending contexts) in which properties C01/C06/C15 are stated. *)
From Coq Require Import NArith List Arith Lia Bool.
From ISAL Require Import Base.Words Base.ListUtil Spec.MD Spec.HashApiSpec Proofs.ChunkFacts.
Import ListNotations.

Lemma upd_oob' {X} i (x : X) l : length l <= i -> upd i x l = l.
Proof.
  revert i. induction l as [|h t IH]; intros i H; [destruct i; reflexivity|].
  destruct i; cbn [length] in H; [lia|]. cbn [upd]. f_equal. apply IH. lia.
Qed.

(* ---- the abstract state as a function of the calls and of who was handed back -------- *)

Definition retired (ac : actx) : actx :=
  {| s_stream := s_stream ac;
     s_phase := match s_phase ac with AFlight true => AComplete | AFlight false => AIdle | p => p end |}.

Definition retire (a : list actx) (r : option nat) : list actx :=
  match r with Some i => upd i (retired (nth i a dummy)) a | None => a end.

Definition abs_step (a : list actx) (c : call) (r : option nat) : list actx :=
  match c with
  | CSubmit cid buf flags =>
      match rejection (nth cid a dummy) flags with
      | Some _ => a
      | None =>
          retire (upd cid {| s_stream := (if flag_first flags then [] else s_stream (nth cid a dummy)) ++ buf;
                             s_phase := AFlight (flag_last flags) |} a) r
      end
  | CFlush => retire a r
  end.

Fixpoint abs_run (a : list actx) (tr : list (call * obs)) : list actx :=
  match tr with
  | [] => a
  | (c, o) :: rest => abs_run (abs_step a c (o_ret o)) rest
  end.

Lemma length_retire a r : length (retire a r) = length a.
Proof. destruct r; [apply length_upd|reflexivity]. Qed.

Lemma length_abs_step a c r : length (abs_step a c r) = length a.
Proof.
  destruct c as [cid buf flags|]; cbn [abs_step]; [|apply length_retire].
  destruct (rejection (nth cid a dummy) flags); [reflexivity|].
  rewrite length_retire. apply length_upd.
Qed.

Lemma length_abs_run tr : forall a, length (abs_run a tr) = length a.
Proof.
  induction tr as [|[c o] tr IH]; intros a; [reflexivity|]. cbn [abs_run]. rewrite IH. apply length_abs_step.
Qed.

Lemma abs_run_app t1 t2 a : abs_run a (t1 ++ t2) = abs_run (abs_run a t1) t2.
Proof. revert a. induction t1 as [|[c o] t1 IH]; intros a; [reflexivity|]. cbn [app abs_run]. apply IH. Qed.

Lemma stream_retire a r i : s_stream (nth i (retire a r) dummy) = s_stream (nth i a dummy).
Proof.
  destruct r as [r|]; [|reflexivity]. cbn [retire].
  destruct (Nat.lt_ge_cases r (length a)) as [H|H].
  - destruct (Nat.eq_dec r i) as [<-|E]; [rewrite nth_upd_eq by exact H; reflexivity|].
    rewrite nth_upd_neq by exact E. reflexivity.
  - destruct (Nat.eq_dec r i) as [<-|E]; [|rewrite nth_upd_neq by exact E; reflexivity].
    rewrite !nth_overflow; rewrite ?length_upd; try lia. reflexivity.
Qed.

(* ---- trace-level notions ---------------------------------------------------------------- *)

(* a call succeeded (was not rejected) iff its return code is 0 *)
Definition stream_step (r : nat) (acc : list N) (co : call * obs) : list N :=
  match fst co with
  | CSubmit cid buf flags =>
      if ((cid =? r) && (o_rc (snd co) =? 0)%N)%bool then (if flag_first flags then [] else acc) ++ buf
      else acc
  | CFlush => acc
  end.

(* the bytes accepted for context r since its last accepted FIRST, along a trace *)
Definition stream_of (r : nat) (tr : list (call * obs)) : list N := fold_left (stream_step r) tr [].

Definition remove_id (r : option nat) (p : list nat) : list nat :=
  match r with Some i => filter (fun x => negb (x =? i)) p | None => p end.

(* contexts accepted and not yet handed back *)
Definition pending_step (p : list nat) (co : call * obs) : list nat :=
  match fst co with
  | CSubmit cid _ _ =>
      if (o_rc (snd co) =? 0)%N then remove_id (o_ret (snd co)) (p ++ [cid]) else p
  | CFlush => remove_id (o_ret (snd co)) p
  end.
Definition pending (tr : list (call * obs)) : list nat := fold_left pending_step tr [].

(* whether the most recent accepted submit to r carried the LAST flag *)
Definition last_step (r : nat) (acc : bool) (co : call * obs) : bool :=
  match fst co with
  | CSubmit cid buf flags => if ((cid =? r) && (o_rc (snd co) =? 0)%N)%bool then flag_last flags else acc
  | CFlush => acc
  end.
Definition last_of (r : nat) (tr : list (call * obs)) : bool := fold_left (last_step r) tr false.

(* ---- the structural part of a response: everything spec_check demands except the digest
        comparison and the lane bound.  It holds of every model trace WITHOUT any bound on
        the stream lengths. *)
Definition hb_struct (a1 : list actx) (o : obs) : Prop :=
  forall r, o_ret o = Some r ->
    exists l, s_phase (nth r a1 dummy) = AFlight l /\ o_status o = (if l then 4 else 0)%N /\
              o_total o = w64 (N.of_nat (length (s_stream (nth r a1 dummy)))).

Definition step_struct (a : list actx) (c : call) (o : obs) : Prop :=
  match c with
  | CSubmit cid buf flags =>
      cid < length a /\
      match rejection (nth cid a dummy) flags with
      | Some e => o_rc o = rc_of e /\ o_ret o = Some cid /\ o_error o = e
      | None => o_rc o = 0%N /\
                hb_struct (upd cid {| s_stream := (if flag_first flags then [] else s_stream (nth cid a dummy)) ++ buf;
                                      s_phase := AFlight (flag_last flags) |} a) o /\
                (o_ret o = Some cid -> o_error o = 0%N)
      end
  | CFlush => o_rc o = 0%N /\ hb_struct a o /\ (o_ret o = None -> n_flight a = 0)
  end.

Fixpoint trace_struct (a : list actx) (tr : list (call * obs)) : Prop :=
  match tr with
  | [] => True
  | (c, o) :: rest => step_struct a c o /\ trace_struct (abs_step a c (o_ret o)) rest
  end.

(* p lists exactly the contexts in flight *)
Definition flight_set (a : list actx) (p : list nat) : Prop :=
  NoDup p /\ forall i, In i p <-> in_flight (nth i a dummy) = true.

Definition phase_flag (p : aphase) (lf : bool) : Prop :=
  match p with
  | AFlight l => l = lf
  | AComplete => lf = true
  | AIdle => lf = false
  | ANew => True
  end.

Section SpecFacts.
Variable A : algo.
Variable K : nat.

Lemma hand_back_ok_inv a r o a' : hand_back_ok A a r o = Some a' ->
  exists l, s_phase (nth r a dummy) = AFlight l /\ a' = retire a (Some r) /\
    o_status o = (if l then 4 else 0)%N /\
    o_total o = w64 (N.of_nat (length (s_stream (nth r a dummy)))) /\
    (l = true -> o_digest o = md_hash A (s_stream (nth r a dummy))).
Proof.
  unfold hand_back_ok, retire, retired.
  destruct (s_phase (nth r a dummy)) as [| | |[|]] eqn:Ph; try discriminate.
  - destruct (o_status o =? 4)%N eqn:E1; [|discriminate].
    destruct (o_total o =? _)%N eqn:E2; [|discriminate].
    destruct (list_eq_dec N.eq_dec _ _) as [E3|]; [|discriminate]. cbn [andb].
    intros [= <-]. apply N.eqb_eq in E1, E2. exists true. repeat split; auto.
  - destruct (o_status o =? 0)%N eqn:E1; [|discriminate].
    destruct (o_total o =? _)%N eqn:E2; [|discriminate]. cbn [andb].
    intros [= <-]. apply N.eqb_eq in E1, E2. exists false. repeat split; auto. discriminate.
Qed.

Lemma rejection_codes ac flags e : rejection ac flags = Some e -> (e = 1 \/ e = 2 \/ e = 3)%N.
Proof.
  unfold rejection. destruct (flag_bad flags); [intros [= <-]; auto|].
  destruct (s_phase ac); try (destruct (flag_first flags)); try discriminate; intros [= <-]; auto.
Qed.

Lemma rc_of_nonzero e : (e = 1 \/ e = 2 \/ e = 3)%N -> (rc_of e =? 0)%N = false.
Proof. intros [->|[->| ->]]; reflexivity. Qed.

Lemma spec_check_submit_inv a cid buf flags o a' :
  spec_check A K a (CSubmit cid buf flags) o = Some a' ->
  cid < length a /\
  match rejection (nth cid a dummy) flags with
  | Some e => a' = a /\ o_ret o = Some cid /\ o_error o = e /\ o_rc o = rc_of e
  | None =>
      o_rc o = 0%N /\
      let a1 := upd cid {| s_stream := (if flag_first flags then [] else s_stream (nth cid a dummy)) ++ buf;
                           s_phase := AFlight (flag_last flags) |} a in
      match o_ret o with
      | None => a' = a1 /\ n_flight a1 < K
      | Some r => hand_back_ok A a1 r o = Some a' /\ n_flight a' < K /\ (r = cid -> o_error o = 0%N)
      end
  end.
Proof.
  unfold spec_check. destruct (cid <? length a) eqn:Hc; [|discriminate]. cbn [negb].
  apply Nat.ltb_lt in Hc. intros H. split; [exact Hc|].
  destruct (rejection (nth cid a dummy) flags) as [e|].
  - destruct (o_ret o) as [r|]; [|discriminate].
    destruct (r =? cid) eqn:E1; [|discriminate]. destruct (o_error o =? e)%N eqn:E2; [|discriminate].
    destruct (o_rc o =? rc_of e)%N eqn:E3; [|discriminate]. cbn [andb] in H.
    apply Nat.eqb_eq in E1. apply N.eqb_eq in E2, E3. subst r.
    destruct (match s_phase (nth cid a dummy) with ANew => _ | _ => _ end); [|discriminate].
    injection H as <-. auto.
  - destruct (o_rc o =? 0)%N eqn:E0; [|discriminate]. cbn [negb] in H. apply N.eqb_eq in E0.
    split; [exact E0|]. cbv zeta. destruct (o_ret o) as [r|].
    + destruct ((r =? cid) && negb (o_error o =? 0)%N)%bool eqn:E1; [discriminate|].
      destruct (hand_back_ok A _ r o) as [a2|] eqn:HB; [|discriminate].
      destruct (n_flight a2 <? K) eqn:EK; [|discriminate]. injection H as <-.
      split; [reflexivity|]. split; [apply Nat.ltb_lt; exact EK|]. intros ->.
      rewrite Nat.eqb_refl in E1. cbn [andb] in E1. apply negb_false_iff, N.eqb_eq in E1. exact E1.
    + destruct (n_flight _ <? K) eqn:EK; [|discriminate]. injection H as <-.
      split; [reflexivity|apply Nat.ltb_lt; exact EK].
Qed.

Lemma spec_check_flush_inv a o a' :
  spec_check A K a CFlush o = Some a' ->
  o_rc o = 0%N /\
  match o_ret o with
  | None => a' = a /\ n_flight a = 0
  | Some r => hand_back_ok A a r o = Some a'
  end.
Proof.
  unfold spec_check. destruct (o_rc o =? 0)%N eqn:E0; [|discriminate]. cbn [negb].
  apply N.eqb_eq in E0. intros H. split; [exact E0|]. destruct (o_ret o) as [r|]; [exact H|].
  destruct (n_flight a =? 0) eqn:E; [|discriminate]. injection H as <-. apply Nat.eqb_eq in E. auto.
Qed.

Lemma spec_check_abs_step a c o a' : spec_check A K a c o = Some a' -> a' = abs_step a c (o_ret o).
Proof.
  intros H. destruct c as [cid buf flags|]; cbn [abs_step].
  - apply spec_check_submit_inv in H. destruct H as [_ H].
    destruct (rejection (nth cid a dummy) flags) as [e|]; [destruct H; assumption|].
    destruct H as [_ H]. cbv zeta in H. destruct (o_ret o) as [r|].
    + destruct H as [HB _]. apply hand_back_ok_inv in HB. destruct HB as (l & _ & -> & _). reflexivity.
    + destruct H as [-> _]. reflexivity.
  - apply spec_check_flush_inv in H. destruct H as [_ H]. destruct (o_ret o) as [r|].
    + apply hand_back_ok_inv in H. destruct H as (l & _ & -> & _). reflexivity.
    + destruct H as [-> _]. reflexivity.
Qed.

(* acceptance of a whole trace, split at any point *)
Lemma accepts_app t1 t2 : forall a, accepts A K a (t1 ++ t2) = true ->
  accepts A K a t1 = true /\ accepts A K (abs_run a t1) t2 = true.
Proof.
  induction t1 as [|[c o] t1 IH]; intros a H; [split; [reflexivity|exact H]|].
  cbn [app accepts abs_run] in *. destruct (spec_check A K a c o) as [a'|] eqn:E; [|discriminate].
  rewrite <- (spec_check_abs_step _ _ _ _ E). apply IH. exact H.
Qed.

Lemma accepts_cons a c o rest : accepts A K a ((c, o) :: rest) = true ->
  spec_check A K a c o = Some (abs_step a c (o_ret o)) /\ accepts A K (abs_step a c (o_ret o)) rest = true.
Proof.
  cbn [accepts]. destruct (spec_check A K a c o) as [a'|] eqn:E; [|discriminate].
  rewrite <- (spec_check_abs_step _ _ _ _ E). auto.
Qed.

Lemma nth_repeat_dummy n i : nth i (repeat dummy n) dummy = dummy.
Proof. revert i. induction n; intros [|i]; cbn [repeat nth]; auto. Qed.

Lemma trace_struct_app t1 t2 : forall a, trace_struct a (t1 ++ t2) ->
  trace_struct a t1 /\ trace_struct (abs_run a t1) t2.
Proof.
  induction t1 as [|[c o] t1 IH]; intros a H; [split; [exact I|exact H]|].
  cbn [app trace_struct abs_run] in *. destruct H as [H1 H2]. destruct (IH _ H2). auto.
Qed.

(* ---- the stream and the LAST flag the acceptor tracks are the trace-level ones ------------ *)

Lemma stream_track_step a c o r : step_struct a c o ->
  s_stream (nth r (abs_step a c (o_ret o)) dummy) = stream_step r (s_stream (nth r a dummy)) (c, o).
Proof.
  intros H. unfold stream_step. cbn [fst snd].
  destruct c as [cid buf flags|]; cbn [abs_step step_struct] in *; [|apply stream_retire].
  destruct H as [Hc H]. destruct (rejection (nth cid a dummy) flags) as [e|] eqn:Rej.
  - destruct H as (Hrc & _). rewrite Hrc, (rc_of_nonzero e (rejection_codes _ _ _ Rej)).
    rewrite andb_false_r. reflexivity.
  - destruct H as [Hrc _]. rewrite Hrc. cbn [N.eqb]. rewrite andb_true_r, stream_retire.
    destruct (Nat.eq_dec cid r) as [<-|E].
    + rewrite Nat.eqb_refl, nth_upd_eq by exact Hc. reflexivity.
    + rewrite nth_upd_neq by exact E. apply Nat.eqb_neq in E. rewrite E. reflexivity.
Qed.

Lemma stream_track tr r : forall a, trace_struct a tr ->
  s_stream (nth r (abs_run a tr) dummy) = fold_left (stream_step r) tr (s_stream (nth r a dummy)).
Proof.
  induction tr as [|[c o] tr IH]; intros a H; [reflexivity|].
  destruct H as [H1 H2]. cbn [abs_run fold_left].
  rewrite (IH _ H2). rewrite (stream_track_step _ _ _ r H1). reflexivity.
Qed.

Lemma stream_track_init tr r n : trace_struct (repeat dummy n) tr ->
  s_stream (nth r (abs_run (repeat dummy n) tr) dummy) = stream_of r tr.
Proof. intros H. rewrite (stream_track tr r _ H), nth_repeat_dummy. reflexivity. Qed.

Lemma phase_retire a r i lf : phase_flag (s_phase (nth i a dummy)) lf ->
  phase_flag (s_phase (nth i (retire a r) dummy)) lf.
Proof.
  intros H. destruct r as [r|]; [|exact H]. cbn [retire].
  destruct (Nat.lt_ge_cases r (length a)) as [Hr|Hr]; [|rewrite upd_oob' by exact Hr; exact H].
  destruct (Nat.eq_dec r i) as [<-|E]; [|rewrite nth_upd_neq by exact E; exact H].
  rewrite nth_upd_eq by exact Hr. unfold retired. cbn [s_phase].
  destruct (s_phase (nth r a dummy)) as [| | |[|]]; cbn [phase_flag] in *; auto.
Qed.

Lemma phase_track_step a c o r lf : step_struct a c o ->
  phase_flag (s_phase (nth r a dummy)) lf ->
  phase_flag (s_phase (nth r (abs_step a c (o_ret o)) dummy)) (last_step r lf (c, o)).
Proof.
  intros H P. unfold last_step. cbn [fst snd].
  destruct c as [cid buf flags|]; cbn [abs_step step_struct] in *; [|apply phase_retire; exact P].
  destruct H as [Hc H]. destruct (rejection (nth cid a dummy) flags) as [e|] eqn:Rej.
  - destruct H as (Hrc & _). rewrite Hrc, (rc_of_nonzero e (rejection_codes _ _ _ Rej)).
    rewrite andb_false_r. exact P.
  - destruct H as [Hrc _]. rewrite Hrc. cbn [N.eqb]. rewrite andb_true_r. apply phase_retire.
    destruct (Nat.eq_dec cid r) as [<-|E].
    + rewrite Nat.eqb_refl, nth_upd_eq by exact Hc. reflexivity.
    + rewrite nth_upd_neq by exact E. apply Nat.eqb_neq in E. rewrite E. exact P.
Qed.

Lemma phase_track tr r : forall a lf, trace_struct a tr ->
  phase_flag (s_phase (nth r a dummy)) lf ->
  phase_flag (s_phase (nth r (abs_run a tr) dummy)) (fold_left (last_step r) tr lf).
Proof.
  induction tr as [|[c o] tr IH]; intros a lf H P; [exact P|].
  destruct H as [H1 H2]. cbn [abs_run fold_left].
  apply IH; [exact H2|]. apply phase_track_step; assumption.
Qed.

(* ---- the contexts in flight are the pending ones ----------------------------------------------- *)

Lemma in_remove_id r p x : In x (remove_id r p) <-> In x p /\ r <> Some x.
Proof.
  destruct r as [r|]; cbn [remove_id]; [|split; [intros H; split; [exact H|discriminate]|intros [H _]; exact H]].
  rewrite filter_In. split; intros [H1 H2]; (split; [exact H1|]).
  - apply negb_true_iff, Nat.eqb_neq in H2. intros [= ->]. contradiction.
  - apply negb_true_iff, Nat.eqb_neq. intros ->. contradiction.
Qed.

Lemma nodup_remove_id r p : NoDup p -> NoDup (remove_id r p).
Proof. destruct r; cbn [remove_id]; [apply NoDup_filter|auto]. Qed.

Lemma in_flight_retired ac : in_flight (retired ac) = false.
Proof. unfold in_flight, retired. cbn [s_phase]. destruct (s_phase ac) as [| | |[|]]; reflexivity. Qed.

Lemma flight_retire a p r : flight_set a p -> flight_set (retire a r) (remove_id r p).
Proof.
  intros [N1 I1]. split; [apply nodup_remove_id; exact N1|]. intros i. rewrite in_remove_id, I1.
  destruct r as [r|]; cbn [retire]; [|split; [intros [H _]; exact H|intros H; split; [exact H|discriminate]]].
  destruct (Nat.eq_dec r i) as [<-|E].
  - destruct (Nat.lt_ge_cases r (length a)) as [Hr|Hr].
    + rewrite nth_upd_eq by exact Hr. rewrite in_flight_retired. split; [intros [_ H]; contradiction|discriminate].
    + rewrite upd_oob' by exact Hr. rewrite nth_overflow by exact Hr. split; [intros [H _]; exact H|discriminate].
  - rewrite nth_upd_neq by exact E. split; [intros [H _]; exact H|].
    intros H; split; [exact H|]. intros [= ->]. contradiction.
Qed.

Lemma flight_step a p c o : step_struct a c o -> flight_set a p ->
  flight_set (abs_step a c (o_ret o)) (pending_step p (c, o)).
Proof.
  intros H FS. unfold pending_step. cbn [fst snd].
  destruct c as [cid buf flags|]; cbn [abs_step step_struct] in *; [|apply flight_retire; exact FS].
  destruct H as [Hc H]. destruct (rejection (nth cid a dummy) flags) as [e|] eqn:Rej.
  - destruct H as (Hrc & _). rewrite Hrc, (rc_of_nonzero e (rejection_codes _ _ _ Rej)). exact FS.
  - destruct H as [Hrc _]. rewrite Hrc. cbn [N.eqb]. apply flight_retire.
    destruct FS as [N1 I1].
    assert (Hnf : in_flight (nth cid a dummy) = false).
    { unfold rejection in Rej. unfold in_flight. destruct (flag_bad flags); [discriminate|].
      destruct (s_phase (nth cid a dummy)); try reflexivity. discriminate. }
    assert (Hni : ~ In cid p) by (intros Hin; apply I1 in Hin; congruence).
    split.
    + apply NoDup_rev in N1. rewrite <- (rev_involutive (p ++ [cid])). apply NoDup_rev.
      rewrite rev_app_distr. cbn [rev app]. constructor; [rewrite <- in_rev; exact Hni|exact N1].
    + intros i. rewrite in_app_iff. cbn [In]. destruct (Nat.eq_dec cid i) as [<-|E].
      * rewrite nth_upd_eq by exact Hc. split; [reflexivity|auto].
      * rewrite nth_upd_neq by exact E. rewrite <- I1. split; [intros [H|[H|[]]]; [exact H|contradiction]|auto].
Qed.

Lemma flight_track tr : forall a p, trace_struct a tr -> flight_set a p ->
  flight_set (abs_run a tr) (fold_left pending_step tr p).
Proof.
  induction tr as [|[c o] tr IH]; intros a p H FS; [exact FS|].
  destruct H as [H1 H2]. cbn [abs_run fold_left]. apply IH; [exact H2|]. apply flight_step; assumption.
Qed.

Lemma flight_track_init tr n : trace_struct (repeat dummy n) tr ->
  flight_set (abs_run (repeat dummy n) tr) (pending tr).
Proof.
  intros H. apply flight_track; [exact H|]. split; [constructor|].
  intros i. rewrite nth_repeat_dummy. split; [intros []|discriminate].
Qed.

(* ---- what the caller sees when a context comes back from a call that succeeded ---------- *)

(* a context handed back by a call that succeeded (return code 0) was in flight; what the
   caller sees is what its phase demands *)
Lemma spec_check_handed_back a c o a' r :
  spec_check A K a c o = Some a' -> o_rc o = 0%N -> o_ret o = Some r ->
  (o_status o = 4%N \/ o_status o = 0%N) /\
  o_total o = w64 (N.of_nat (length (s_stream (nth r a' dummy)))) /\
  (o_status o = 4%N -> o_digest o = md_hash A (s_stream (nth r a' dummy))) /\
  in_flight (nth r a' dummy) = false.
Proof.
  intros H Hrc Hr.
  assert (G : forall a1, hand_back_ok A a1 r o = Some a' ->
    (o_status o = 4%N \/ o_status o = 0%N) /\
    o_total o = w64 (N.of_nat (length (s_stream (nth r a' dummy)))) /\
    (o_status o = 4%N -> o_digest o = md_hash A (s_stream (nth r a' dummy))) /\
    in_flight (nth r a' dummy) = false).
  { intros a1 HB. apply hand_back_ok_inv in HB. destruct HB as (l & Ph & -> & Hs & Ht & Hd).
    rewrite stream_retire.
    assert (Hlt : r < length a1).
    { destruct (Nat.lt_ge_cases r (length a1)) as [Hl|Hl]; [exact Hl|].
      rewrite nth_overflow in Ph by exact Hl. discriminate. }
    split; [destruct l; auto|]. split; [exact Ht|]. split.
    - intros H4. apply Hd. destruct l; [reflexivity|]. rewrite Hs in H4. discriminate.
    - cbn [retire]. rewrite nth_upd_eq by exact Hlt. unfold in_flight, retired. cbn [s_phase].
      rewrite Ph. destruct l; reflexivity. }
  destruct c as [cid buf flags|].
  - apply spec_check_submit_inv in H. destruct H as [Hc H].
    destruct (rejection (nth cid a dummy) flags) as [e|] eqn:Rej.
    + destruct H as (_ & _ & _ & Hrc'). rewrite Hrc in Hrc'.
      pose proof (rc_of_nonzero e (rejection_codes _ _ _ Rej)) as Hn. rewrite <- Hrc' in Hn. discriminate.
    + destruct H as [_ H]. cbv zeta in H. rewrite Hr in H. destruct H as [HB _]. eapply G. exact HB.
  - apply spec_check_flush_inv in H. destruct H as [_ H]. rewrite Hr in H. eapply G. exact H.
Qed.

(* the abstract state of a successful call just before the hand-back *)
Definition pre_retire (a : list actx) (c : call) : list actx :=
  match c with
  | CSubmit cid buf flags =>
      match rejection (nth cid a dummy) flags with
      | Some _ => a
      | None => upd cid {| s_stream := (if flag_first flags then [] else s_stream (nth cid a dummy)) ++ buf;
                           s_phase := AFlight (flag_last flags) |} a
      end
  | CFlush => a
  end.

Lemma hb_of_step a c o : step_struct a c o -> o_rc o = 0%N ->
  (forall r, abs_step a c r = retire (pre_retire a c) r) /\ hb_struct (pre_retire a c) o /\
  (forall i, in_flight (nth i (pre_retire a c) dummy) = true ->
             in_flight (nth i a dummy) = true \/ exists buf flags, c = CSubmit i buf flags).
Proof.
  intros H Hrc. destruct c as [cid buf flags|]; cbn [abs_step step_struct pre_retire] in *.
  - destruct H as [Hc H]. destruct (rejection (nth cid a dummy) flags) as [e|] eqn:Rej.
    + destruct H as (Hrc' & _). rewrite Hrc in Hrc'.
      pose proof (rc_of_nonzero e (rejection_codes _ _ _ Rej)) as Hn. rewrite <- Hrc' in Hn. discriminate.
    + destruct H as (_ & HB & _). split; [reflexivity|]. split; [exact HB|].
      intros i Hi. destruct (Nat.eq_dec cid i) as [<-|E]; [right; eauto|].
      rewrite nth_upd_neq in Hi by exact E. left. exact Hi.
  - destruct H as (_ & HB & _). split; [reflexivity|]. split; [exact HB|]. auto.
Qed.

(* status and total length of a context handed back by a call that succeeded, and where it
   came from: no bound on the stream needed *)
Lemma handback_struct n tr t1 c o t2 r :
  trace_struct (repeat dummy n) tr -> tr = t1 ++ (c, o) :: t2 ->
  o_rc o = 0%N -> o_ret o = Some r ->
  let t := t1 ++ [(c, o)] in
  o_status o = (if last_of r t then 4 else 0)%N /\
  o_total o = w64 (N.of_nat (length (stream_of r t))) /\
  (In r (pending t1) \/ exists buf flags, c = CSubmit r buf flags) /\
  ~ In r (pending t).
Proof.
  intros TS -> Hrc Hr t.
  assert (TS1 : trace_struct (repeat dummy n) t).
  { replace (t1 ++ (c, o) :: t2) with (t ++ t2) in TS by (unfold t; rewrite <- app_assoc; reflexivity).
    apply trace_struct_app in TS. apply TS. }
  pose proof (stream_track_init t r n TS1) as ST.
  pose proof (phase_track t r (repeat dummy n) false TS1) as PT.
  rewrite nth_repeat_dummy in PT. specialize (PT I). change (fold_left (last_step r) t false) with (last_of r t) in PT.
  pose proof (flight_track_init t n TS1) as [_ FT].
  unfold t in TS1. apply trace_struct_app in TS1. destruct TS1 as [TS0 [SS _]].
  pose proof (flight_track_init t1 n TS0) as [_ FT0].
  unfold t in ST, PT, FT. rewrite abs_run_app in ST, PT, FT. cbn [abs_run] in ST, PT, FT.
  set (a1 := abs_run (repeat dummy n) t1) in *. rewrite Hr in ST, PT, FT.
  destruct (hb_of_step a1 c o SS Hrc) as (E0 & HB & Hfl).
  destruct (HB r Hr) as (l & Ph & Hs & Ht).
  set (a0 := pre_retire a1 c) in *.
  assert (Hlt : r < length a0).
  { destruct (Nat.lt_ge_cases r (length a0)) as [Hl|Hl]; [exact Hl|].
    rewrite nth_overflow in Ph by exact Hl. discriminate. }
  rewrite E0 in ST, PT, FT. rewrite stream_retire in ST.
  cbn [retire] in PT. rewrite nth_upd_eq in PT by exact Hlt.
  unfold retired in PT. cbn [s_phase] in PT. rewrite Ph in PT.
  split; [|split; [|split]].
  - rewrite Hs. unfold t. destruct l; cbn [phase_flag] in PT; rewrite PT; reflexivity.
  - rewrite Ht, ST. reflexivity.
  - destruct (Hfl r) as [H|H]; [unfold in_flight; rewrite Ph; reflexivity| |right; exact H].
    left. apply FT0. exact H.
  - intros Hin. apply FT in Hin. cbn [retire] in Hin. rewrite nth_upd_eq in Hin by exact Hlt.
    rewrite in_flight_retired in Hin. discriminate.
Qed.

(* the digest: needs the trace to be accepted (which the refinement theorem gives when the
   streams are below 2^61 bytes) *)
Lemma handback_digest n tr t1 c o t2 r :
  trace_struct (repeat dummy n) tr -> accepts A K (repeat dummy n) tr = true ->
  tr = t1 ++ (c, o) :: t2 -> o_rc o = 0%N -> o_ret o = Some r -> o_status o = 4%N ->
  o_digest o = md_hash A (stream_of r (t1 ++ [(c, o)])).
Proof.
  intros TS Acc -> Hrc Hr H4.
  assert (TS1 : trace_struct (repeat dummy n) (t1 ++ [(c, o)])).
  { replace (t1 ++ (c, o) :: t2) with ((t1 ++ [(c, o)]) ++ t2) in TS by (rewrite <- app_assoc; reflexivity).
    apply trace_struct_app in TS. apply TS. }
  pose proof (stream_track_init _ r n TS1) as ST.
  apply accepts_app in Acc. destruct Acc as [_ Acc]. apply accepts_cons in Acc. destruct Acc as [SC _].
  rewrite abs_run_app in ST. cbn [abs_run] in ST.
  destruct (spec_check_handed_back _ _ _ _ r SC Hrc Hr) as (_ & _ & S3 & _).
  rewrite ST in S3. apply S3. exact H4.
Qed.

End SpecFacts.

(* the lane bound is monotone: a trace accepted with bound K is accepted with any larger one
   (the checks run the acceptor with K = lanes + 1, the bound of the property text; the model
   theorems hold for the tighter K = lanes) *)
Lemma spec_check_mono A K K' a c o a' : K <= K' ->
  spec_check A K a c o = Some a' -> spec_check A K' a c o = Some a'.
Proof.
  intros HK. unfold spec_check. destruct c as [cid buf flags|]; [|auto].
  destruct (negb (cid <? length a)); [auto|].
  destruct (rejection (nth cid a dummy) flags); [auto|].
  destruct (negb (o_rc o =? 0)%N); [auto|].
  destruct (o_ret o) as [r|].
  - destruct ((r =? cid) && negb (o_error o =? 0)%N)%bool; [auto|].
    destruct (hand_back_ok A _ r o) as [a2|]; [|auto].
    destruct (n_flight a2 <? K) eqn:E; [|discriminate]. apply Nat.ltb_lt in E.
    assert (E' : (n_flight a2 <? K') = true) by (apply Nat.ltb_lt; lia). rewrite E'. auto.
  - match goal with |- context [n_flight ?x <? K] => destruct (n_flight x <? K) eqn:E; [|discriminate];
      apply Nat.ltb_lt in E; assert (E' : (n_flight x <? K') = true) by (apply Nat.ltb_lt; lia); rewrite E' end.
    auto.
Qed.

Lemma accepts_mono A K K' tr : K <= K' -> forall a, accepts A K a tr = true -> accepts A K' a tr = true.
Proof.
  intros HK. induction tr as [|[c o] tr IH]; intros a H; [reflexivity|]. cbn [accepts] in *.
  destruct (spec_check A K a c o) as [a'|] eqn:E; [|discriminate].
  rewrite (spec_check_mono A K K' a c o a' HK E). apply IH. exact H.
Qed.
