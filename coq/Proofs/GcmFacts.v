(* Basic facts used by the AES-GCM proofs: xorb_list algebra on equal-length lists, pad16 /
   place, GCTR and GHASH over an abstract block cipher, splitting at block boundaries. *)
From Coq Require Import NArith List Bool Arith Lia.
From ISAL Require Import Base.Words Base.ListUtil Spec.AES Spec.GF128 Spec.GCM Model.GcmStream
  Proofs.ListFacts Proofs.ChunkFacts.
Import ListNotations.
Local Open Scope nat_scope.

(* ------------------------------------------------------------------ xorb_list *)

Lemma xorb_nil_l b : xorb_list [] b = [].
Proof. reflexivity. Qed.

Lemma xorb_nil_r a : xorb_list a [] = [].
Proof. unfold xorb_list. destruct a; reflexivity. Qed.

Lemma xorb_cons x a y b : xorb_list (x :: a) (y :: b) = N.lxor x y :: xorb_list a b.
Proof. reflexivity. Qed.

Lemma xorb_length a b : length (xorb_list a b) = Nat.min (length a) (length b).
Proof. unfold xorb_list. rewrite map_length, combine_length. reflexivity. Qed.

Lemma xorb_app_l a b k : length a <= length k ->
  xorb_list (a ++ b) k = xorb_list a k ++ xorb_list b (skipn (length a) k).
Proof.
  revert k. induction a as [|x a IH]; intros k Hk.
  - reflexivity.
  - destruct k as [|y k]; [cbn in Hk; lia|].
    cbn [app length skipn]. rewrite !xorb_cons. cbn [app]. f_equal. apply IH. cbn in Hk. lia.
Qed.

Lemma xorb_app_r x k1 k2 :
  xorb_list x (k1 ++ k2) = xorb_list (firstn (length k1) x) k1 ++ xorb_list (skipn (length k1) x) k2.
Proof.
  revert x. induction k1 as [|y k1 IH]; intros x.
  - reflexivity.
  - destruct x as [|a x]; [reflexivity|].
    cbn [app length firstn skipn]. rewrite !xorb_cons. cbn [app]. f_equal. apply IH.
Qed.

Lemma xorb_firstn_r a k : xorb_list a (firstn (length a) k) = xorb_list a k.
Proof.
  revert k. induction a as [|x a IH]; intros k; [reflexivity|].
  destruct k as [|y k]; [reflexivity|]. cbn [length firstn]. rewrite !xorb_cons. f_equal. apply IH.
Qed.

Lemma xorb_assoc a b c : xorb_list (xorb_list a b) c = xorb_list a (xorb_list b c).
Proof.
  revert b c. induction a as [|x a IH]; intros b c; [reflexivity|].
  destruct b as [|y b]; [reflexivity|]. destruct c as [|z c]; [rewrite !xorb_nil_r; reflexivity|].
  rewrite !xorb_cons. f_equal; [apply N.lxor_assoc|apply IH].
Qed.

Lemma xorb_zeros_r a n : length a <= n -> xorb_list a (zeros n) = a.
Proof.
  revert n. induction a as [|x a IH]; intros n Hn; [reflexivity|].
  destruct n as [|n]; [cbn in Hn; lia|]. change (zeros (S n)) with (0%N :: zeros n).
  rewrite xorb_cons, N.lxor_0_r. f_equal. apply IH. cbn in Hn. lia.
Qed.

Lemma xorb_zeros_l a n : length a <= n -> xorb_list (zeros n) a = a.
Proof.
  revert n. induction a as [|x a IH]; intros n Hn; [apply xorb_nil_r|].
  destruct n as [|n]; [cbn in Hn; lia|]. change (zeros (S n)) with (0%N :: zeros n).
  rewrite xorb_cons, N.lxor_0_l. f_equal. apply IH. cbn in Hn. lia.
Qed.

(* x xor k xor k = x on the common length *)
Lemma xorb_cancel a k : length a <= length k -> xorb_list (xorb_list a k) k = a.
Proof.
  revert k. induction a as [|x a IH]; intros k Hk; [reflexivity|].
  destruct k as [|y k]; [cbn in Hk; lia|]. rewrite !xorb_cons.
  rewrite N.lxor_assoc, N.lxor_nilpotent, N.lxor_0_r. f_equal. apply IH. cbn in Hk. lia.
Qed.

(* ------------------------------------------------------------------ pad16 / place *)

Lemma length_pad16 b : length b <= 16 -> length (pad16 b) = 16.
Proof. intros. unfold pad16. rewrite app_length, length_zeros. lia. Qed.

Lemma pad16_full b : length b = 16 -> pad16 b = b.
Proof. intros Hb. unfold pad16. rewrite Hb. cbn. apply app_nil_r. Qed.

Lemma pad16_nil : pad16 [] = zeros 16.
Proof. reflexivity. Qed.

Lemma length_place off bs : off + length bs <= 16 -> length (place off bs) = 16.
Proof. intros. unfold place. rewrite !app_length, !length_zeros. lia. Qed.

Lemma place_0 bs : place 0 bs = pad16 bs.
Proof. unfold place, pad16. cbn [zeros repeat app]. rewrite Nat.sub_0_r. reflexivity. Qed.

(* appending d to the open block t: pad16 (t ++ d) = pad16 t xor (d placed at |t|) *)
Lemma pad16_app t d : length t + length d <= 16 ->
  pad16 (t ++ d) = xorb_list (pad16 t) (place (length t) d).
Proof.
  intros Hl. unfold pad16, place.
  rewrite xorb_app_l by (rewrite app_length, length_zeros; lia).
  rewrite skipn_app_exact by (rewrite length_zeros; reflexivity).
  rewrite xorb_app_r, length_zeros.
  rewrite firstn_all, skipn_all, xorb_nil_l.
  rewrite xorb_zeros_r by lia.
  rewrite xorb_zeros_l by (rewrite app_length, length_zeros; lia).
  rewrite app_length, app_nil_r, <- app_assoc. f_equal. f_equal. f_equal. lia.
Qed.

(* ------------------------------------------------------------------ blocks *)

Lemma length_N_to_le n x : length (N_to_le n x) = n.
Proof. revert x. induction n; intros; cbn; [reflexivity|f_equal; apply IHn]. Qed.

Lemma length_N_to_be n x : length (N_to_be n x) = n.
Proof. unfold N_to_be. rewrite rev_length. apply length_N_to_le. Qed.

Lemma length_gf128_mul_bytes x y : length (gf128_mul_bytes x y) = 16.
Proof. unfold gf128_mul_bytes, N_to_block. apply length_N_to_be. Qed.

Lemma length_gcm_len_block a b : length (gcm_len_block a b) = 16.
Proof. unfold gcm_len_block. rewrite app_length, !length_N_to_be. reflexivity. Qed.

Lemma chunks_short {A} (b : list A) : b <> [] -> length b <= 16 -> chunks 16 b = [b].
Proof.
  intros Hb Hl. rewrite chunks_cons by (try lia; exact Hb).
  rewrite firstn_all2 by lia. rewrite skipn_all2 by lia. reflexivity.
Qed.

Lemma length_chunks_exact {A} (l : list A) q : length l = q * 16 -> length (chunks 16 l) = q.
Proof.
  revert l. induction q as [|q IH]; intros l Hl.
  - destruct l; [reflexivity|cbn in Hl; lia].
  - rewrite chunks_cons by (try lia; intros ->; cbn in Hl; lia).
    cbn [length]. f_equal. apply IH. rewrite skipn_length. lia.
Qed.

Lemma Forall_chunks_exact {A} (l : list A) q : length l = q * 16 ->
  Forall (fun b => length b = 16) (chunks 16 l).
Proof.
  revert l. induction q as [|q IH]; intros l Hl.
  - destruct l; [constructor|cbn in Hl; lia].
  - rewrite chunks_cons by (try lia; intros ->; cbn in Hl; lia).
    constructor; [rewrite firstn_length; lia|]. apply IH. rewrite skipn_length. lia.
Qed.

Lemma concat_chunks {A} (l : list A) : concat (chunks 16 l) = l.
Proof.
  remember (length l) as n eqn:Hn. revert l Hn.
  induction n as [n IH] using lt_wf_ind. intros l Hn.
  destruct l as [|a l]; [reflexivity|].
  rewrite chunks_cons by (try lia; discriminate). cbn [concat].
  rewrite (IH (length (skipn 16 (a :: l)))); [apply firstn_skipn| |reflexivity].
  rewrite skipn_length. subst n. cbn [length]. lia.
Qed.

(* ------------------------------------------------------------------ GHASH *)

Section Ghash.
Variable H : list N.

Lemma ghash_blocks_nil y : ghash_blocks H y [] = y.
Proof. reflexivity. Qed.

Lemma ghash_blocks_app y a b : (exists q, length a = q * 16) ->
  ghash_blocks H y (a ++ b) = ghash_blocks H (ghash_blocks H y a) b.
Proof.
  intros Hq. unfold ghash_blocks. rewrite chunks_app by (try lia; exact Hq).
  apply fold_left_app.
Qed.

(* one (possibly short, non-empty) block *)
Lemma ghash_blocks_one y b : b <> [] -> length b <= 16 ->
  ghash_blocks H y b = gf128_mul_bytes (xorb_list y (pad16 b)) H.
Proof. intros Hb Hl. unfold ghash_blocks. rewrite chunks_short by assumption. reflexivity. Qed.

Lemma length_ghash_blocks y d : length y = 16 -> length (ghash_blocks H y d) = 16.
Proof.
  unfold ghash_blocks. generalize (chunks 16 d). intros l. revert y.
  induction l as [|b l IH]; intros y Hy; [exact Hy|].
  cbn [fold_left]. apply IH. unfold ghash_step. apply length_gf128_mul_bytes.
Qed.

Lemma ghash_blocks_fold y blocks : Forall (fun b => length b = 16) blocks ->
  fold_left (ghash_step H) blocks y = ghash_blocks H y (concat blocks).
Proof.
  revert y. induction blocks as [|b r IH]; intros y Hf; [reflexivity|].
  inversion Hf as [|? ? Hb Hr]; subst. cbn [fold_left concat].
  rewrite ghash_blocks_app by (exists 1; lia).
  rewrite IH by exact Hr. f_equal.
  rewrite ghash_blocks_one by (try lia; intros ->; discriminate). reflexivity.
Qed.

End Ghash.

(* GHASH of zero blocks from 0 stays 0 (used by the long-AAD probe of the check) *)
Lemma gf128_mul_f_zero n z v : gf128_mul_f n 0 z v = z.
Proof.
  revert z v. induction n as [|n IH]; intros z v; [reflexivity|].
  cbn [gf128_mul_f]. rewrite N.bits_0. apply IH.
Qed.
