(* Proofs/AbiCfgAll.v — the soundness theorems instantiated with the regenerated tables
   (Gen/AbiGen*.v): every function of the library that is not listed in c19_unproved /
   c14_unproved satisfies the conclusion of the soundness theorem.  The lists are theorems
   (c19_table, c14_table: computed by vm_compute in the generated files); checks/abistatic.py
   reports every listed symbol (finding, known finding, or dynamic-only). *)
From Coq Require Import ZArith NArith PArith List Bool Arith Lia.
From ISAL Require Import Model.AbiCfg Proofs.AbiCfgTables Proofs.AbiCfgFlow Proofs.AbiCfgVec Proofs.AbiCfgGpr
  Gen.AbiGenClaims Gen.AbiGenAll.
Import ListNotations.
Local Open Scope Z_scope.

Lemma c19_checked : forall f, In f all_funcs -> ~ In (fid f) c19_unproved -> chk19 f = true.
Proof. intros f Hin Hn. rewrite <- c19_table in Hn. exact (failing_spec chk19 all_funcs f Hin Hn). Qed.

Lemma c14_checked : forall f, In f all_funcs -> ~ In (fid f) c14_unproved -> chk14 f = true.
Proof. intros f Hin Hn. rewrite <- c14_table in Hn. exact (failing_spec chk14 all_funcs f Hin Hn). Qed.

(* C19, static half, for every entry point of the nasm-assembled objects *)
Lemma c19_entry_points : forall f,
  In f all_funcs -> In (fid f) entry_ids -> ~ In (fid f) c19_unproved ->
  forall (R0 : nat -> Z) (callrel : positive -> cstate -> cstate -> Prop),
  (forall g c c', callrel g c c' -> call_ok (claims g) c c') ->
  forall c tm c', entry_state R0 c ->
  run cstate (gbstep R0 callrel) gcond (cfg_of f) 1%positive c tm c' ->
  (tm = TRet \/ tm = TTailInd \/ exists g, tm = TTail g) ->
  cv (cr c' RSP) = R0 RSP /\
  cv (cr c' 3) = R0 3%nat /\ cv (cr c' 5) = R0 5%nat /\ cv (cr c' 12) = R0 12%nat /\
  cv (cr c' 13) = R0 13%nat /\ cv (cr c' 14) = R0 14%nat /\ cv (cr c' 15) = R0 15%nat /\
  cdf c' = false /\ cbad c' = false.
Proof.
  intros f Hin Hent Hn R0 callrel Hcall c tm c' Hes Hrun Htm.
  pose proof (c19_checked f Hin Hn) as H. unfold chk19 in H.
  apply mem_pos_In in Hent. rewrite Hent in H.
  eapply abi_check_sound; eauto.
Qed.

(* routines reached only by `call` from assembly keep their (inferred, then checked) claim *)
Lemma c19_internal : forall f,
  In f all_funcs -> ~ In (fid f) c19_unproved ->
  forall (R0 : nat -> Z) (callrel : positive -> cstate -> cstate -> Prop),
  (forall g c c', callrel g c c' -> call_ok (claims g) c c') ->
  forall c c', entry_state R0 c ->
  run cstate (gbstep R0 callrel) gcond (cfg_of f) 1%positive c TRet c' ->
  restored_conc R0 (cl_pres (claims (fid f))) c'.
Proof.
  intros f Hin Hn R0 callrel Hcall c c' Hes Hrun.
  pose proof (c19_checked f Hin Hn) as H. unfold chk19 in H.
  assert (Hg : check_gclaim claims f = true).
  { destruct (mem_pos entry_ids (fid f)); auto. unfold check_c19 in H. apply andb_true_iff in H. tauto. }
  exact (gclaim_sound claims R0 callrel Hcall f Hg c TRet c' Hes Hrun).
Qed.

(* C14, register half, for every AES entry point *)
Lemma c14_aes_entry_points : forall f,
  In f all_funcs -> In (fid f) aes_ids -> ~ In (fid f) c14_unproved ->
  forall (vcallrel : positive -> vconc -> vconc -> Prop),
  (forall g c c', vcallrel g c c' -> vcall_ok (cl_vd (claims g)) c c') ->
  forall c tm c', (forall r, c r = 0%nat) ->
  run vconc (vbstep vcallrel) vcond (cfg_of f) 1%positive c tm c' ->
  (tm = TRet \/ tm = TTailInd) ->
  forall r, (r < 32)%nat ->
  (c' r <= match lookup_res residue_list (fid f) with Some res => nth r res 0 | None => 0 end)%nat.
Proof.
  intros f Hin Haes Hn vcallrel Hcall c tm c' Hc Hrun Htm r Hr.
  pose proof (c14_checked f Hin Hn) as H. unfold chk14 in H.
  apply mem_pos_In in Haes. rewrite Haes in H. cbn [negb orb] in H.
  destruct (lookup_res residue_list (fid f)) as [res|].
  - eapply residue_check_sound; eauto.
  - rewrite (clear_check_sound claims vcallrel Hcall f H c tm c' Hc Hrun Htm r Hr). lia.
Qed.

(* ---- non-vacuity material: hand-written CFGs *)
Local Close Scope Z_scope.
Definition ex_claims (p : positive) : claim := {| cl_pres := ABI_SAVED; cl_vd := repeat 0%nat 32 |}.
(* push r12; push r13; <clobber r12 r13 rax>; pop r13; pop r12; ret  — with an early-out branch *)
Definition ex_good : func := Fn 1 [
  Bk 1 [GPush 12; GPush 13; GClob 12289 128] [] (TJcc 2 3);
  Bk 2 [GClob 1 0] [] (TJmp 3);
  Bk 3 [GPop 13; GPop 12] [] TRet].
(* the same, but the exit reached through block 2 restores r12 from r13's slot *)
Definition ex_bad : func := Fn 1 [
  Bk 1 [GLea 4 4 (-16); GStore 4 0 8 (Some 12); GStore 4 8 8 (Some 13); GClob 12289 128] [] (TJcc 2 3);
  Bk 2 [GLoad 12 4 8; GLoad 13 4 8; GLea 4 4 16] [] TRet;
  Bk 3 [GLoad 12 4 0; GLoad 13 4 8; GLea 4 4 16] [] TRet].
(* mov [rsp+k] saves instead of push/pop: accepted *)
Definition ex_good2 : func := Fn 1 [
  Bk 1 [GLea 4 4 (-16); GStore 4 0 8 (Some 12); GStore 4 8 8 (Some 13); GClob 12289 128] [] (TJcc 2 3);
  Bk 2 [GLoad 12 4 0; GLoad 13 4 8; GLea 4 4 16] [] TRet;
  Bk 3 [GLoad 13 4 8; GLoad 12 4 0; GLea 4 4 16] [] TRet].
(* a store above the frame, std without cld, an unbalanced stack: all rejected *)
Definition ex_bad_store : func := Fn 1 [Bk 1 [GStore 4 8 8 (Some 0)] [] TRet].
Definition ex_bad_df : func := Fn 1 [Bk 1 [GStd] [] TRet].
Definition ex_bad_rsp : func := Fn 1 [Bk 1 [GPush 3] [] TRet].

(* frame-relative indexed stores in a counted loop (the mh_sha1_block_* shape): r10 = 0,16,32,48 by
   `cmp r10,64 ; jb`, stores [rsp+r10+256] of 16 bytes into a 320-byte aligned frame below one push: accepted;
   the same loop bounded by 80 would reach the saved register: rejected; the double-buffer pointer pair
   swapped by xchg (md5_mb_x* shape) is accepted *)
Definition ex_idx_good : func := Fn 1 [
  Bk 1 [GPush 12; GMov 11 4; GLea 4 4 (-320); GAlign 4 7 4; GConst 10 0] [] (TJmp 2);
  Bk 2 [GStoreIdx 4 10 1 256 16; GLea 10 10 16] [] (TJcmp false true RLt 10 64 2 3);
  Bk 3 [GMov 4 11; GPop 12] [] TRet].
Definition ex_idx_bad : func := Fn 1 [
  Bk 1 [GPush 12; GMov 11 4; GLea 4 4 (-320); GAlign 4 7 4; GConst 10 0] [] (TJmp 2);
  Bk 2 [GStoreIdx 4 10 1 256 16; GLea 10 10 16] [] (TJcmp false true RLt 10 80 2 3);
  Bk 3 [GMov 4 11; GPop 12] [] TRet].
Definition ex_xchg_good : func := Fn 1 [
  Bk 1 [GLea 4 4 (-1160); GStore 4 1152 8 (Some 5); GMov 2 4; GLea 5 4 512] [] (TJmp 2);
  Bk 2 [GStore 2 496 16 None; GStore 5 496 16 None; GStore 4 1024 16 None] [] (TJcc 3 4);
  Bk 3 [GXchg 5 2] [] (TJmp 2);
  Bk 4 [GLoad 5 4 1152; GLea 4 4 1160] [] TRet].

Lemma ex_c19_ranges :
  check_c19 ex_claims ex_idx_good = true /\ check_c19 ex_claims ex_idx_bad = false /\
  check_c19 ex_claims ex_xchg_good = true.
Proof. vm_compute. repeat split; reflexivity. Qed.

Lemma ex_c19 :
  check_c19 ex_claims ex_good = true /\ check_c19 ex_claims ex_good2 = true /\
  check_c19 ex_claims ex_bad = false /\ check_c19 ex_claims ex_bad_store = false /\
  check_c19 ex_claims ex_bad_df = false /\ check_c19 ex_claims ex_bad_rsp = false.
Proof. vm_compute. repeat split; reflexivity. Qed.

(* two exits; the second forgets to clear ymm3 (written by a VEX instruction) *)
Definition ex_vgood : func := Fn 1 [
  Bk 1 [] [VW false 2 11; VW true 1 16] (TJcc 2 3);
  Bk 2 [] [VZeroAll; VClr false 1 4] TRet;
  Bk 3 [] [VClr false 1 0; VClr false 1 1; VMov false 1 3 0; VClr true 1 4] TRet].
Definition ex_vbad : func := Fn 1 [
  Bk 1 [] [VW false 2 11; VW true 1 16] (TJcc 2 3);
  Bk 2 [] [VZeroAll; VClr false 1 4] TRet;
  Bk 3 [] [VClr false 1 0; VClr false 1 1; VClr true 1 3; VClr true 1 4] TRet].   (* pxor xmm3 keeps ymm3's upper half *)

Lemma ex_c14 : check_c14 ex_claims ex_vgood = true /\ check_c14 ex_claims ex_vbad = false.
Proof. vm_compute. split; reflexivity. Qed.

(* the hypotheses of the soundness theorems are satisfiable: an entry state exists *)
Local Open Scope Z_scope.
Lemma ex_entry_state : exists c, entry_state (fun r => Z.of_nat r * 1000) c.
Proof.
  exists {| cr := fun r => {| cv := Z.of_nat r * 1000; ct := Nat.eqb r RSP |};
            cm := fun _ => {| cv := 0; ct := false |}; cal := fun _ => 0; cdf := false; cbad := false |}.
  repeat split; auto.
Qed.

(* the library is not vacuously covered: the tables are non-empty and most functions pass *)
Lemma ex_tables : Nat.leb 300 (length all_funcs) = true /\ Nat.leb (length c19_unproved) 40 = true /\
  Nat.leb (length c14_unproved) 40 = true.
Proof. vm_compute. repeat split; reflexivity. Qed.
