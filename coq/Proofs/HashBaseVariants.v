(* (B4) Sensitivity of the base-family theorems: the two historical / seeded defects, as
   model variants (Model/HashBase.v), are REFUTED with concrete witnesses by vm_compute; and
   concrete instances of the positive theorems (non-vacuity). *)
From Coq Require Import NArith List Arith Lia Bool.
From ISAL Require Import Base.Words Base.ListUtil Spec.MD Spec.SHA1 Spec.SHA256 Spec.SHA512 Spec.MD5 Spec.SM3
  Spec.HashApiSpec Model.HashCtx Model.HashObs Model.HashBase
  Proofs.HashPadFacts Proofs.HashSpecFacts Proofs.HashRefine Proofs.HashProps
  Proofs.HashBaseFacts Proofs.HashBaseGeneric Proofs.HashBaseSim Proofs.HashBaseRefine.
Import ListNotations.

(* one context whose memory held junk (incl. a partial length beyond the block size) *)
Definition exb_junk (B : nat) : list bctx :=
  [ {| b_digest := [1; 2; 3]%N; b_status := 77; b_error := 9; b_total := 12345;
       b_pbuf := repeat 238%N (2 * B); b_plen := 77 |} ].

(* FIRST of nothing; a submit with invalid flags (rejected); LAST "abc" *)
Definition exb_ops_sticky : list op := [Submit 0 [] 1; Submit 0 [] 4; Submit 0 [97; 98; 99]%N 2].

Lemma exb_history : base_history sha256_base (exb_junk 64) exb_ops_sticky.
Proof.
  split; [repeat constructor|]. repeat constructor; cbn; try lia; reflexivity.
Qed.

Lemma exb_bounded tr : map fst tr = map call_of exb_ops_sticky -> bounded (spec_init 1) tr.
Proof. intros E. eapply bounded_of_ops_bytes; [exact E|]. vm_compute. reflexivity. Qed.

(* the model of the code under test: accepted, error NONE and return code 0 on the LAST, digest of "abc" *)
Example exb_fixed_accepted :
  accepts sha256_algo 1 (spec_init 1) (base_run_obs sha256_base (base_model_init (exb_junk 64)) exb_ops_sticky) = true /\
  map (fun co => (o_error (snd co), o_rc (snd co), o_status (snd co)))
      (base_run_obs sha256_base (base_model_init (exb_junk 64)) exb_ops_sticky) =
    [(0, 0, 0); (1, 2011, 0); (0, 0, 4)]%N /\
  o_digest (snd (nth 2 (base_run_obs sha256_base (base_model_init (exb_junk 64)) exb_ops_sticky) (CFlush, base_obs_of sha256_base [] None 0))) =
    [0xba7816bf; 0x8f01cfea; 0x414140de; 0x5dae2223; 0xb00361a3; 0x96177a9c; 0xb410ff61; 0xf20015ad]%N.
Proof. vm_compute. repeat split. Qed.

(* /repo before d9c2f48 (error cleared only by FIRST): the valid LAST reports INVALID_FLAGS *)
Theorem base_sticky_refuted :
  exists BA junk ops, base_alg_ok BA /\ base_history BA junk ops /\
    let tr := base_run_obs_with BA (base_submit_sticky BA) (base_model_init junk) ops in
    bounded (spec_init (length junk)) tr /\
    accepts (ba_algo BA) 1 (spec_init (length junk)) tr = false /\
    map (fun co => o_rc (snd co)) tr = [0; 2011; 2011]%N.
Proof.
  exists sha256_base, (exb_junk 64), exb_ops_sticky. split; [exact sha256_base_ok|]. split; [exact exb_history|].
  cbv zeta. split; [apply exb_bounded; vm_compute; reflexivity|]. vm_compute. split; reflexivity.
Qed.

(* a context IDLE in the middle of a stream: total bytes accepted, the last [length part] not yet hashed *)
Definition exb_mid (BA : base_alg) (total : N) (part : list N) : bctx :=
  base_inject {| b_digest := []; b_status := 4; b_error := 0; b_total := 0;
                    b_pbuf := repeat 238%N (2 * a_bsize (ba_algo BA)); b_plen := 0 |}
              (a_iv (ba_algo BA)) total part.

Definition pad_view (BA : base_alg) (lv : N -> N) (c : bctx) : list N :=
  let '(buf, i2) := final_blocks BA lv c in firstn (N.to_nat i2) buf.

(* (B2) at totals 2^29 - 1, 2^29, 2^32 - 1, 2^32, 2^32 + 2^29 + 5: big-endian, little-endian (MD5),
   128-bit field (SHA-512) *)
Example exb_pad_instances :
  Forall (fun t => pad_view sha256_base lenval64 (exb_mid sha256_base t (repeat 7%N (N.to_nat (t mod 64)))) =
                   repeat 7%N (N.to_nat (t mod 64)) ++ md_pad_N sha256_algo t /\
                   pad_view md5_base lenval64 (exb_mid md5_base t (repeat 7%N (N.to_nat (t mod 64)))) =
                   repeat 7%N (N.to_nat (t mod 64)) ++ md_pad_N md5_algo t /\
                   pad_view sha512_base lenval64 (exb_mid sha512_base t (repeat 7%N (N.to_nat (t mod 128)))) =
                   repeat 7%N (N.to_nat (t mod 128)) ++ md_pad_N sha512_algo t)
         [536870911; 536870912; 4294967295; 4294967296; 4831838213]%N.
Proof. repeat constructor; vm_compute; reflexivity. Qed.

(* the seeded change c15b (md5_final: high length word = (uint32_t)(total >> 32) << 3): wrong from 2^29 on *)
Theorem base_narrow_refuted :
  exists BA c, base_alg_ok BA /\ (b_total c < 2 ^ 61)%N /\
    b_plen c = (b_total c mod N.of_nat (a_bsize (ba_algo BA)))%N /\ length (b_pbuf c) = 2 * a_bsize (ba_algo BA) /\
    pad_view BA lenval_narrow c <> firstn (N.to_nat (b_plen c)) (b_pbuf c) ++ md_pad_N (ba_algo BA) (b_total c) /\
    b_digest (final_with BA lenval_narrow c) <> md_continue (ba_algo BA) (b_digest c) (firstn (N.to_nat (b_plen c)) (b_pbuf c)) (b_total c) /\
    b_digest (base_final BA c) = md_continue (ba_algo BA) (b_digest c) (firstn (N.to_nat (b_plen c)) (b_pbuf c)) (b_total c).
Proof.
  exists md5_base, (exb_mid md5_base 536870912 []). split; [exact md5_base_ok|].
  split; [reflexivity|]. split; [reflexivity|]. split; [reflexivity|].
  split; [|split].
  - intros H. vm_compute in H. discriminate.
  - intros H. vm_compute in H. discriminate.
  - vm_compute. reflexivity.
Qed.

(* below 2^29 the narrow variant is indistinguishable (why the 37 baseline tests cannot see it) *)
Example exb_narrow_small :
  pad_view md5_base lenval_narrow (exb_mid md5_base 536870911 (repeat 7%N 63)) =
  pad_view md5_base lenval64 (exb_mid md5_base 536870911 (repeat 7%N 63)).
Proof. vm_compute. reflexivity. Qed.

(* a history over two contexts: unaligned FIRST, UPDATE that completes the partial block and
   carries whole blocks, empty LAST; ENTIRE; rejected UPDATE on a completed context; reuse.  SHA-1, SM3. *)
Definition exb_ops : list op :=
  [Submit 0 (repeat 97%N 5) 1; Submit 1 [97; 98; 99]%N 3; Submit 0 (repeat 97%N 200) 0; Flush;
   Submit 1 [1]%N 0; Submit 0 [] 2; Submit 1 (repeat 97%N 205) 3].

Example exb_history_accepted :
  accepts sha1_algo 1 (spec_init 2) (base_run_obs sha1_base (base_model_init (exb_junk 64 ++ exb_junk 64)) exb_ops) = true /\
  accepts sm3_algo 1 (spec_init 2) (base_run_obs sm3_base (base_model_init (exb_junk 64 ++ exb_junk 64)) exb_ops) = true /\
  accepts sha512_algo 1 (spec_init 2) (base_run_obs sha512_base (base_model_init (exb_junk 128 ++ exb_junk 128)) exb_ops) = true /\
  map (fun co => (o_ret (snd co), o_status (snd co), o_error (snd co), o_total (snd co)))
      (base_run_obs sha1_base (base_model_init (exb_junk 64 ++ exb_junk 64)) exb_ops) =
    [(Some 0, 0%N, 0%N, 5%N); (Some 1, 4%N, 0%N, 3%N); (Some 0, 0%N, 0%N, 205%N); (None, 0%N, 0%N, 0%N);
     (Some 1, 4%N, 3%N, 3%N); (Some 0, 4%N, 0%N, 205%N); (Some 1, 4%N, 0%N, 205%N)] /\
  (* the same 205-byte stream, two segmentations, the same digest: SHA-1 of 205 x 'a' *)
  o_digest (snd (nth 5 (base_run_obs sha1_base (base_model_init (exb_junk 64 ++ exb_junk 64)) exb_ops) (CFlush, base_obs_of sha1_base [] None 0))) =
  md_hash sha1_algo (repeat 97%N 205) /\
  o_digest (snd (nth 6 (base_run_obs sha1_base (base_model_init (exb_junk 64 ++ exb_junk 64)) exb_ops) (CFlush, base_obs_of sha1_base [] None 0))) =
  md_hash sha1_algo (repeat 97%N 205).
Proof. vm_compute. repeat split. Qed.
