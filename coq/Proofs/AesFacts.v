(* Facts about FIPS-197 used by C03 / C04:
   - well-formedness (16 bytes, each < 256) is preserved by every round transformation;
   - KeyExpansion of a 16/24/32-byte key yields Nk+7 round keys of 16 bytes;
   - InvCipher o Cipher = id on well-formed blocks for every well-formed schedule;
   - the Equivalent Inverse Cipher on dec_schedule rks equals InvCipher on rks (5.3.5);
   - the layout of dec_schedule. *)
From Coq Require Import NArith List Bool Arith Lia.
From ISAL Require Import Base.Words Base.ListUtil Spec.AES Proofs.WordsFacts Proofs.ListFacts Proofs.ChunkFacts.
Import ListNotations.
Local Open Scope N_scope.

Definition bytes (l : list N) : Prop := Forall (fun b => b < 256) l.
Definition wfb (l : list N) : Prop := length l = 16%nat /\ bytes l.
Definition len_sched (rks : list (list N)) : Prop := Forall (fun rk => length rk = 16%nat) rks.
Definition wf_sched (rks : list (list N)) : Prop := Forall wfb rks.

Lemma wf_sched_len rks : wf_sched rks -> len_sched rks.
Proof. intros H. eapply Forall_impl; [|exact H]. intros a [L _]. exact L. Qed.

(* ------------------------------------------------------------------ *)
(* bytes stay bytes *)

Lemma lxor_byte a b : a < 256 -> b < 256 -> N.lxor a b < 256.
Proof. intros. apply (lxor_lt 8); assumption. Qed.

Lemma xtime_byte b : xtime b < 256.
Proof.
  unfold xtime.
  assert (H : N.land (N.shiftl b 1) 255 < 256).
  { change 255 with (N.ones 8). rewrite N.land_ones. apply N.mod_lt. discriminate. }
  destruct (N.testbit b 7); [apply lxor_byte; [exact H|reflexivity]|exact H].
Qed.

Lemma mul2_byte b : mul2 b < 256. Proof. apply xtime_byte. Qed.
Lemma mul3_byte b : b < 256 -> mul3 b < 256.
Proof. intros. unfold mul3. apply lxor_byte; [apply xtime_byte|assumption]. Qed.
Lemma mul9_byte b : b < 256 -> mul9 b < 256.
Proof. intros. unfold mul9. apply lxor_byte; [apply xtime_byte|assumption]. Qed.
Lemma mul11_byte b : b < 256 -> mul11 b < 256.
Proof. intros. unfold mul11. repeat apply lxor_byte; try apply xtime_byte; assumption. Qed.
Lemma mul13_byte b : b < 256 -> mul13 b < 256.
Proof. intros. unfold mul13. repeat apply lxor_byte; try apply xtime_byte; assumption. Qed.
Lemma mul14_byte b : mul14 b < 256.
Proof. unfold mul14. repeat apply lxor_byte; apply xtime_byte. Qed.

Lemma xor4_byte a b c d : a < 256 -> b < 256 -> c < 256 -> d < 256 -> xor4 a b c d < 256.
Proof. intros. unfold xor4. repeat apply lxor_byte; assumption. Qed.

Lemma xorb_list_bytes a b : bytes a -> bytes b -> bytes (xorb_list a b).
Proof.
  unfold bytes, xorb_list. intros Ha. revert b.
  induction Ha as [|x a Hx Ha IH]; intros b Hb; [constructor|].
  destruct Hb as [|y b Hy Hb]; [constructor|].
  cbn [combine map fst snd]. constructor; [apply lxor_byte; assumption|apply IH; exact Hb].
Qed.

Lemma xorb_list_len16 a b : length a = 16%nat -> length b = 16%nat -> length (xorb_list a b) = 16%nat.
Proof. intros Ha Hb. rewrite xorb_list_length by lia. exact Ha. Qed.

Lemma xorb_list_wfb a b : wfb a -> wfb b -> wfb (xorb_list a b).
Proof. intros [La Ba] [Lb Bb]. split; [apply xorb_list_len16; assumption|apply xorb_list_bytes; assumption]. Qed.

Lemma add_round_key_wfb k s : wfb k -> wfb s -> wfb (add_round_key k s).
Proof. intros. unfold add_round_key. apply xorb_list_wfb; assumption. Qed.

Lemma add_round_key_len16 k s : length k = 16%nat -> length s = 16%nat -> length (add_round_key k s) = 16%nat.
Proof. intros. unfold add_round_key. apply xorb_list_len16; assumption. Qed.

Lemma sub_bytes_wfb s : wfb s -> wfb (sub_bytes s).
Proof. intros [L B]. split; [rewrite sub_bytes_length; exact L|apply sub_bytes_bytes; exact B]. Qed.
Lemma inv_sub_bytes_wfb s : wfb s -> wfb (inv_sub_bytes s).
Proof. intros [L B]. split; [rewrite inv_sub_bytes_length; exact L|apply inv_sub_bytes_bytes; exact B]. Qed.

Ltac forall16 :=
  repeat match goal with H : Forall _ (_ :: _) |- _ => inversion H; clear H; subst end.

Lemma shift_rows_wfb s : wfb s -> wfb (shift_rows s).
Proof.
  intros [L B]. split; [rewrite shift_rows_length; exact L|].
  unfold bytes in *. list16 s. forall16. cbn [shift_rows]. repeat constructor; assumption.
Qed.
Lemma inv_shift_rows_wfb s : wfb s -> wfb (inv_shift_rows s).
Proof.
  intros [L B]. split; [rewrite inv_shift_rows_length; exact L|].
  unfold bytes in *. list16 s. forall16. cbn [inv_shift_rows]. repeat constructor; assumption.
Qed.

Lemma mix_columns_len16 s : length s = 16%nat -> length (mix_columns s) = 16%nat.
Proof. intros L. list16 s. reflexivity. Qed.
Lemma inv_mix_columns_len16 s : length s = 16%nat -> length (inv_mix_columns s) = 16%nat.
Proof. intros L. list16 s. reflexivity. Qed.

Lemma mix_columns_wfb s : wfb s -> wfb (mix_columns s).
Proof.
  intros [L B]. split; [apply mix_columns_len16; exact L|].
  unfold bytes in *. list16 s. forall16. unfold mix_columns, mix_col. cbn [app].
  repeat constructor; apply xor4_byte; auto using mul2_byte, mul3_byte.
Qed.
Lemma inv_mix_columns_wfb s : wfb s -> wfb (inv_mix_columns s).
Proof.
  intros [L B]. split; [apply inv_mix_columns_len16; exact L|].
  unfold bytes in *. list16 s. forall16. unfold inv_mix_columns, inv_mix_col. cbn [app].
  repeat constructor; apply xor4_byte; auto using mul9_byte, mul11_byte, mul13_byte, mul14_byte.
Qed.

(* ------------------------------------------------------------------ *)
(* the rounds as folds *)

Definition enc_step (s rk : list N) : list N := add_round_key rk (mix_columns (shift_rows (sub_bytes s))).
Definition dec_step (s rk : list N) : list N := inv_mix_columns (add_round_key rk (inv_sub_bytes (inv_shift_rows s))).

Lemma enc_rounds_snoc mid rkN s :
  enc_rounds s (mid ++ [rkN]) = add_round_key rkN (shift_rows (sub_bytes (fold_left enc_step mid s))).
Proof.
  revert s. induction mid as [|rk m IH]; intros s; [reflexivity|].
  cbn [fold_left]. rewrite <- IH. destruct m; reflexivity.
Qed.

Lemma dec_rounds_snoc mid rk0 s :
  dec_rounds s (mid ++ [rk0]) = add_round_key rk0 (inv_sub_bytes (inv_shift_rows (fold_left dec_step mid s))).
Proof.
  revert s. induction mid as [|rk m IH]; intros s; [reflexivity|].
  cbn [fold_left]. rewrite <- IH. destruct m; reflexivity.
Qed.

Lemma enc_step_wfb s rk : wfb s -> wfb rk -> wfb (enc_step s rk).
Proof.
  intros Hs Hk. unfold enc_step.
  apply add_round_key_wfb; [exact Hk|]. apply mix_columns_wfb, shift_rows_wfb, sub_bytes_wfb, Hs.
Qed.

Lemma fold_enc_wfb mid s : wf_sched mid -> wfb s -> wfb (fold_left enc_step mid s).
Proof.
  intros Hm. revert s. induction Hm as [|rk m Hk Hm IH]; intros s Hs; [exact Hs|].
  cbn [fold_left]. apply IH. apply enc_step_wfb; assumption.
Qed.

Lemma enc_rounds_wfb rks s : wf_sched rks -> wfb s -> wfb (enc_rounds s rks).
Proof.
  intros Hk Hs. destruct rks as [|a l] using rev_ind; [exact Hs|]. clear IHl.
  rewrite enc_rounds_snoc. apply Forall_app in Hk. destruct Hk as [Hl Ha]. inversion Ha; subst.
  apply add_round_key_wfb; [assumption|]. apply shift_rows_wfb, sub_bytes_wfb, fold_enc_wfb; assumption.
Qed.

Lemma cipher_wfb rks b : wf_sched rks -> wfb b -> wfb (cipher rks b).
Proof.
  intros Hk Hb. destruct rks as [|rk0 r]; [exact Hb|]. inversion Hk; subst.
  cbn [cipher]. apply enc_rounds_wfb; [assumption|]. apply add_round_key_wfb; assumption.
Qed.

(* length of the cipher output needs only the lengths of the keys *)
Lemma enc_step_len16 s rk : length s = 16%nat -> length rk = 16%nat -> length (enc_step s rk) = 16%nat.
Proof.
  intros Hs Hk. unfold enc_step. apply add_round_key_len16; [exact Hk|].
  apply mix_columns_len16. rewrite shift_rows_length, sub_bytes_length. exact Hs.
Qed.

Lemma fold_enc_len16 mid s : len_sched mid -> length s = 16%nat -> length (fold_left enc_step mid s) = 16%nat.
Proof.
  intros Hm. revert s. induction Hm as [|rk m Hk Hm IH]; intros s Hs; [exact Hs|].
  cbn [fold_left]. apply IH. apply enc_step_len16; assumption.
Qed.

Lemma cipher_len16 rks b : len_sched rks -> length b = 16%nat -> length (cipher rks b) = 16%nat.
Proof.
  intros Hk Hb. destruct rks as [|rk0 r]; [exact Hb|]. inversion Hk; subst. cbn [cipher].
  assert (H0 : length (add_round_key rk0 b) = 16%nat) by (apply add_round_key_len16; assumption).
  revert H0. generalize (add_round_key rk0 b). intros s Hs.
  destruct r as [|a l] using rev_ind; [exact Hs|]. clear IHl.
  rewrite enc_rounds_snoc. match goal with H : Forall _ (l ++ [a]) |- _ => apply Forall_app in H; destruct H as [Hl Ha] end.
  inversion Ha; subst. apply add_round_key_len16; [assumption|].
  rewrite shift_rows_length, sub_bytes_length. apply fold_enc_len16; assumption.
Qed.

Lemma dec_step_len16 s rk : length s = 16%nat -> length rk = 16%nat -> length (dec_step s rk) = 16%nat.
Proof.
  intros Hs Hk. unfold dec_step. apply inv_mix_columns_len16, add_round_key_len16; [exact Hk|].
  rewrite inv_sub_bytes_length, inv_shift_rows_length. exact Hs.
Qed.

Lemma fold_dec_len16 mid s : len_sched mid -> length s = 16%nat -> length (fold_left dec_step mid s) = 16%nat.
Proof.
  intros Hm. revert s. induction Hm as [|rk m Hk Hm IH]; intros s Hs; [exact Hs|].
  cbn [fold_left]. apply IH. apply dec_step_len16; assumption.
Qed.

Lemma inv_cipher_len16 rks b : len_sched rks -> length b = 16%nat -> length (inv_cipher rks b) = 16%nat.
Proof.
  intros Hk Hb. unfold inv_cipher. assert (Hr : len_sched (rev rks)) by (apply Forall_rev; exact Hk).
  destruct (rev rks) as [|rkn r]; [exact Hb|]. inversion Hr; subst.
  assert (H0 : length (add_round_key rkn b) = 16%nat) by (apply add_round_key_len16; assumption).
  revert H0. generalize (add_round_key rkn b). intros s Hs.
  destruct r as [|a l] using rev_ind; [exact Hs|]. clear IHl.
  rewrite dec_rounds_snoc. match goal with H : Forall _ (l ++ [a]) |- _ => apply Forall_app in H; destruct H as [Hl Ha] end.
  inversion Ha; subst. apply add_round_key_len16; [assumption|].
  rewrite inv_sub_bytes_length, inv_shift_rows_length. apply fold_dec_len16; assumption.
Qed.

(* ------------------------------------------------------------------ *)
(* InvCipher o Cipher = id *)

Lemma dec_step_undoes_enc_step z rk : wfb z -> wfb rk ->
  dec_step (shift_rows (sub_bytes (enc_step z rk))) rk = shift_rows (sub_bytes z).
Proof.
  intros Hz Hk. unfold dec_step.
  assert (He : wfb (enc_step z rk)) by (apply enc_step_wfb; assumption).
  rewrite inv_shift_rows_shift_rows by (rewrite sub_bytes_length; apply He).
  rewrite inv_sub_bytes_sub_bytes by apply He.
  unfold enc_step.
  assert (Hm : wfb (mix_columns (shift_rows (sub_bytes z)))) by (apply mix_columns_wfb, shift_rows_wfb, sub_bytes_wfb, Hz).
  rewrite add_round_key_involutive by (destruct Hk, Hm; congruence).
  assert (Hs : wfb (shift_rows (sub_bytes z))) by (apply shift_rows_wfb, sub_bytes_wfb, Hz).
  apply inv_mix_columns_mix_columns; apply Hs.
Qed.

Lemma fold_dec_undoes_fold_enc mid s : wf_sched mid -> wfb s ->
  fold_left dec_step (rev mid) (shift_rows (sub_bytes (fold_left enc_step mid s))) = shift_rows (sub_bytes s).
Proof.
  intros Hm Hs. induction mid as [|rk m IH] using rev_ind; [reflexivity|].
  apply Forall_app in Hm. destruct Hm as [Hm Hk]. inversion Hk; subst.
  rewrite fold_left_app, rev_app_distr. cbn [rev app fold_left].
  rewrite dec_step_undoes_enc_step; [apply IH; exact Hm| apply fold_enc_wfb; assumption | assumption].
Qed.

Lemma c_inv_cipher_cipher : forall rks blk, wf_sched rks -> wfb blk -> inv_cipher rks (cipher rks blk) = blk.
Proof.
  intros rks blk Hk Hb. destruct rks as [|rk0 r]; [reflexivity|].
  inversion Hk as [|? ? H0 Hr]; subst.
  destruct r as [|rkN mid _] using rev_ind.
  - cbn [cipher enc_rounds inv_cipher rev app dec_rounds].
    apply add_round_key_involutive. destruct H0, Hb; congruence.
  - apply Forall_app in Hr. destruct Hr as [Hmid HN]. inversion HN as [|? ? HrkN _]; subst.
    unfold inv_cipher. cbn [cipher rev]. rewrite rev_app_distr. cbn [rev app].
    rewrite enc_rounds_snoc.
    set (s0 := add_round_key rk0 blk).
    assert (Hs0 : wfb s0) by (apply add_round_key_wfb; assumption).
    set (x := shift_rows (sub_bytes (fold_left enc_step mid s0))).
    assert (Hx : wfb x) by (apply shift_rows_wfb, sub_bytes_wfb, fold_enc_wfb; assumption).
    rewrite add_round_key_involutive by (destruct HrkN, Hx; congruence).
    rewrite dec_rounds_snoc. subst x. rewrite fold_dec_undoes_fold_enc by assumption.
    rewrite inv_shift_rows_shift_rows by (rewrite sub_bytes_length; apply Hs0).
    rewrite inv_sub_bytes_sub_bytes by apply Hs0.
    subst s0. apply add_round_key_involutive. destruct H0, Hb; congruence.
Qed.

(* ------------------------------------------------------------------ *)
(* Equivalent Inverse Cipher (FIPS-197 5.3.5): InvMixColumns is linear over xor, and
   InvShiftRows commutes with InvSubBytes *)

Lemma inv_mix_col_lxor a0 a1 a2 a3 b0 b1 b2 b3 :
  inv_mix_col (N.lxor a0 b0) (N.lxor a1 b1) (N.lxor a2 b2) (N.lxor a3 b3) =
  xorb_list (inv_mix_col a0 a1 a2 a3) (inv_mix_col b0 b1 b2 b3).
Proof.
  unfold inv_mix_col, xorb_list. cbn [combine map fst snd].
  rewrite !mul9_lxor, !mul11_lxor, !mul13_lxor, !mul14_lxor, !xor4_lxor. reflexivity.
Qed.

Lemma xorb_list_app a b c d : length a = length c ->
  xorb_list (a ++ b) (c ++ d) = xorb_list a c ++ xorb_list b d.
Proof.
  unfold xorb_list. revert c. induction a as [|x a IH]; intros [|y c] H; try discriminate; [reflexivity|].
  cbn [app combine map]. f_equal. apply IH. injection H; auto.
Qed.

Lemma inv_mix_columns_xor s k : length s = 16%nat -> length k = 16%nat ->
  inv_mix_columns (xorb_list s k) = xorb_list (inv_mix_columns s) (inv_mix_columns k).
Proof.
  intros Hs Hk. list16 s. list16 k.
  unfold xorb_list at 1. cbn [combine map fst snd]. unfold inv_mix_columns.
  rewrite !inv_mix_col_lxor. rewrite !xorb_list_app by reflexivity. reflexivity.
Qed.

Lemma inv_mix_columns_add_round_key k s : length s = 16%nat -> length k = 16%nat ->
  inv_mix_columns (add_round_key k s) = add_round_key (inv_mix_columns k) (inv_mix_columns s).
Proof. intros. unfold add_round_key. apply inv_mix_columns_xor; assumption. Qed.

Lemma eq_dec_rounds_cons2 s dk x y :
  eq_dec_rounds s (dk :: x :: y) = eq_dec_rounds (add_round_key dk (inv_mix_columns (inv_shift_rows (inv_sub_bytes s)))) (x :: y).
Proof. reflexivity. Qed.
Lemma dec_rounds_cons2 s rk x y :
  dec_rounds s (rk :: x :: y) = dec_rounds (inv_mix_columns (add_round_key rk (inv_sub_bytes (inv_shift_rows s)))) (x :: y).
Proof. reflexivity. Qed.

Lemma eq_dec_rounds_dec_rounds rest s : len_sched rest -> length s = 16%nat ->
  eq_dec_rounds s (map_but_last inv_mix_columns rest) = dec_rounds s rest.
Proof.
  intros Hr. revert s. induction Hr as [|rk r Hk Hr IH]; intros s Hs; [reflexivity|].
  destruct r as [|rk' r'].
  - cbn [map_but_last eq_dec_rounds dec_rounds]. rewrite inv_shift_rows_inv_sub_bytes. reflexivity.
  - cbn [map_but_last]. 
    assert (E : exists x y, map_but_last inv_mix_columns (rk' :: r') = x :: y).
    { destruct r'; cbn [map_but_last]; eauto. }
    destruct E as (x & y & E).
    change (eq_dec_rounds s (inv_mix_columns rk :: map_but_last inv_mix_columns (rk' :: r')) = dec_rounds s (rk :: rk' :: r')).
    rewrite E, eq_dec_rounds_cons2, dec_rounds_cons2. rewrite <- E.
    rewrite inv_shift_rows_inv_sub_bytes.
    rewrite <- inv_mix_columns_add_round_key by (rewrite ?inv_sub_bytes_length, ?inv_shift_rows_length; assumption).
    apply IH. apply inv_mix_columns_len16, add_round_key_len16; [assumption|].
    rewrite inv_sub_bytes_length, inv_shift_rows_length. exact Hs.
Qed.

Lemma c_eq_inv_cipher : forall rks blk, len_sched rks -> length blk = 16%nat ->
  eq_inv_cipher (dec_schedule rks) blk = inv_cipher rks blk.
Proof.
  intros rks blk Hk Hb. unfold dec_schedule, inv_cipher.
  assert (Hr : len_sched (rev rks)) by (apply Forall_rev; exact Hk).
  destruct (rev rks) as [|rkn rest]; [reflexivity|]. inversion Hr; subst.
  cbn [eq_inv_cipher]. apply eq_dec_rounds_dec_rounds; [assumption|].
  apply add_round_key_len16; assumption.
Qed.

(* ------------------------------------------------------------------ *)
(* layout of the decryption schedule (include/aes_xts.h): Key[0] = last encryption round key,
   Key[i] = InvMixColumns(encryption round key Nr-i), Key[Nr] = encryption round key 0 *)

Lemma map_but_last_snoc {A} (f : A -> A) l x : map_but_last f (l ++ [x]) = map f l ++ [x].
Proof.
  induction l as [|a l IH]; [reflexivity|].
  cbn [app map]. rewrite <- IH. destruct l; reflexivity.
Qed.

Lemma c_dec_schedule_layout : forall first inner last,
  dec_schedule (first :: inner ++ [last]) = last :: map inv_mix_columns (rev inner) ++ [first].
Proof.
  intros. unfold dec_schedule. cbn [rev]. rewrite rev_app_distr. cbn [rev app].
  rewrite map_but_last_snoc. reflexivity.
Qed.

Lemma dec_schedule_length rks : length (dec_schedule rks) = length rks.
Proof.
  destruct rks as [|first r]; [reflexivity|].
  destruct r as [|last inner _] using rev_ind; [reflexivity|].
  rewrite c_dec_schedule_layout. cbn [length]. rewrite !app_length, map_length, rev_length. reflexivity.
Qed.

(* the same, by index *)
Lemma c_dec_schedule_nth : forall rks n i, length rks = S n -> (i <= n)%nat ->
  nth i (dec_schedule rks) [] =
  if (Nat.eqb i 0 || Nat.eqb i n)%bool then nth (n - i) rks [] else inv_mix_columns (nth (n - i) rks []).
Proof.
  intros rks n i Hl Hi. destruct rks as [|first r]; [discriminate|].
  destruct r as [|last inner _] using rev_ind.
  - cbn in Hl. assert (n = 0)%nat by lia. subst. assert (i = 0)%nat by lia. subst. reflexivity.
  - rewrite c_dec_schedule_layout. cbn [length] in Hl. rewrite app_length in Hl. cbn [length] in Hl.
    assert (Hn : n = S (length inner)) by lia.
    destruct i as [|i].
    + cbn [Nat.eqb orb nth]. rewrite Nat.sub_0_r. subst n.
      change (first :: inner ++ [last]) with ((first :: inner) ++ [last]).
      rewrite app_nth2 by (cbn [length]; lia). cbn [length]. rewrite Nat.sub_diag. reflexivity.
    + change (Nat.eqb (S i) 0) with false. cbn [nth orb]. destruct (Nat.eqb_spec (S i) n) as [E|E].
      * rewrite E, Nat.sub_diag. cbn [nth].
        rewrite app_nth2 by (rewrite map_length, rev_length; lia).
        rewrite map_length, rev_length. replace (i - length inner)%nat with 0%nat by lia. reflexivity.
      * assert (Hi' : (i < length inner)%nat) by lia.
        rewrite app_nth1 by (rewrite map_length, rev_length; exact Hi').
        rewrite (nth_indep _ [] (inv_mix_columns [])) by (rewrite map_length, rev_length; exact Hi').
        rewrite map_nth. f_equal.
        rewrite rev_nth by exact Hi'.
        replace (n - S i)%nat with (S (length inner - S i)) by lia. cbn [nth].
        rewrite app_nth1 by lia. reflexivity.
Qed.

(* ------------------------------------------------------------------ *)
(* KeyExpansion produces Nk+7 round keys of 16 bytes *)

Lemma expand_words_length n nk j rc racc : length (expand_words n nk j rc racc) = (n + length racc)%nat.
Proof.
  revert j rc racc. induction n as [|n IH]; intros; [reflexivity|].
  cbn [expand_words]. rewrite IH. cbn [length]. lia.
Qed.

Definition word4 (w : list N) : Prop := length w = 4%nat.

Lemma xorb_list_len4 a b : length a = 4%nat -> length b = 4%nat -> length (xorb_list a b) = 4%nat.
Proof. intros Ha Hb. rewrite xorb_list_length by lia. exact Ha. Qed.

Lemma rot_word_length w : length (rot_word w) = length w.
Proof. destruct w; [reflexivity|]. cbn [rot_word]. rewrite app_length. cbn [length]. lia. Qed.

Lemma expand_words_word4 n nk j rc racc : (1 <= nk)%nat -> (nk <= length racc)%nat ->
  Forall word4 racc -> Forall word4 (expand_words n nk j rc racc).
Proof.
  intros Hnk. revert j rc racc. induction n as [|n IH]; intros j rc racc Hl Hw; [exact Hw|].
  cbn [expand_words]. apply IH; [cbn [length]; lia|].
  constructor; [|exact Hw].
  assert (Hprev : word4 (hd [] racc)).
  { destruct racc as [|p r]; [cbn in Hl; lia|]. inversion Hw; assumption. }
  assert (Hold : word4 (nth (Nat.pred nk) racc [])).
  { rewrite Forall_forall in Hw. apply Hw, nth_In. lia. }
  unfold word4 in *. apply xorb_list_len4; [exact Hold|].
  destruct (Nat.eqb j 0).
  - apply xorb_list_len4; [|reflexivity]. unfold sub_word. rewrite map_length, rot_word_length. exact Hprev.
  - destruct (Nat.ltb 6 nk && Nat.eqb j 4)%bool; [unfold sub_word; rewrite map_length|]; exact Hprev.
Qed.

Lemma rot_word_bytes w : bytes w -> bytes (rot_word w).
Proof.
  intros H. destruct w; [constructor|]. cbn [rot_word]. inversion H; subst.
  apply Forall_app. split; [assumption|]. constructor; [assumption|constructor].
Qed.

Lemma sub_word_bytes w : bytes w -> bytes (sub_word w).
Proof. apply sub_bytes_bytes. Qed.

Lemma expand_words_bytes n nk j rc racc : rc < 256 ->
  Forall bytes racc -> Forall bytes (expand_words n nk j rc racc).
Proof.
  revert j rc racc. induction n as [|n IH]; intros j rc racc Hrc Hw; [exact Hw|].
  cbn [expand_words]. apply IH; [destruct (Nat.eqb j 0); [apply xtime_byte|exact Hrc]|].
  constructor; [|exact Hw].
  assert (Hprev : bytes (hd [] racc)).
  { destruct racc as [|p r]; [constructor|]. inversion Hw; assumption. }
  assert (Hold : bytes (nth (Nat.pred nk) racc [])).
  { destruct (Nat.lt_ge_cases (Nat.pred nk) (length racc)) as [H|H].
    - rewrite Forall_forall in Hw. apply Hw, nth_In. exact H.
    - rewrite nth_overflow by exact H. constructor. }
  apply xorb_list_bytes; [exact Hold|].
  destruct (Nat.eqb j 0).
  - apply xorb_list_bytes; [apply sub_word_bytes, rot_word_bytes, Hprev|].
    repeat constructor; try exact Hrc; reflexivity.
  - destruct (Nat.ltb 6 nk && Nat.eqb j 4)%bool; [apply sub_word_bytes|]; exact Hprev.
Qed.

(* chunks of a list whose length is a multiple of n *)
Lemma chunks_mult {A} n k (l : list A) : (n > 0)%nat -> length l = (k * n)%nat ->
  length (chunks n l) = k /\ Forall (fun c => length c = n) (chunks n l).
Proof.
  intros Hn. revert l. induction k as [|k IH]; intros l Hl.
  - destruct l; [split; [reflexivity|constructor]|discriminate].
  - assert (Hne : l <> []) by (intros ->; cbn in Hl; lia).
    rewrite chunks_cons by assumption.
    destruct (IH (skipn n l)) as [L F]; [rewrite skipn_length; lia|].
    split; [cbn [length]; rewrite L; reflexivity|].
    constructor; [rewrite firstn_length; lia|exact F].
Qed.

Lemma Forall_firstn' {A} (P : A -> Prop) n (l : list A) : Forall P l -> Forall P (firstn n l).
Proof. intros H. revert n. induction H; intros [|n]; cbn [firstn]; constructor; auto. Qed.
Lemma Forall_skipn' {A} (P : A -> Prop) n (l : list A) : Forall P l -> Forall P (skipn n l).
Proof. intros H. revert n. induction H; intros [|n]; cbn [skipn]; try constructor; auto. Qed.

Lemma chunks_Forall {A} (P : A -> Prop) n (l : list A) : (n > 0)%nat -> Forall P l -> Forall (Forall P) (chunks n l).
Proof.
  intros Hn. remember (length l) as m eqn:Hm. revert l Hm.
  induction m as [m IH] using lt_wf_ind. intros l Hm Hl.
  destruct l as [|a l']; [constructor|].
  rewrite chunks_cons by (try assumption; discriminate).
  constructor; [apply Forall_firstn'; exact Hl|].
  eapply IH; [|reflexivity|apply Forall_skipn'; exact Hl].
  rewrite skipn_length. subst m. cbn [length]. lia.
Qed.

Lemma concat_len16 (ws : list (list N)) : length ws = 4%nat -> Forall word4 ws -> length (concat ws) = 16%nat.
Proof.
  intros L F. do 4 (destruct ws as [|? ws]; [discriminate|]). destruct ws; [|discriminate].
  forall16. unfold word4 in *. cbn [concat]. rewrite !app_length. cbn [length]. lia.
Qed.

Lemma concat_bytes (ws : list (list N)) : Forall bytes ws -> bytes (concat ws).
Proof. intros F. induction F; cbn [concat]; [constructor|]. apply Forall_app. split; assumption. Qed.

Lemma valid_key_len_cases n : valid_key_len n = true -> n = 16%nat \/ n = 24%nat \/ n = 32%nat.
Proof.
  unfold valid_key_len. intros H. apply orb_true_iff in H. destruct H as [H|H].
  - apply orb_true_iff in H. destruct H as [H|H]; apply Nat.eqb_eq in H; auto.
  - apply Nat.eqb_eq in H; auto.
Qed.

Lemma key_expansion_facts k : valid_key_len (length k) = true ->
  length (key_expansion k) = (length k / 4 + 7)%nat /\ len_sched (key_expansion k) /\
  (bytes k -> wf_sched (key_expansion k)).
Proof.
  intros Hv. unfold key_expansion. rewrite Hv.
  set (nk := (length k / 4)%nat).
  assert (Hk : length k = (nk * 4)%nat /\ (1 <= nk)%nat).
  { subst nk. destruct (valid_key_len_cases _ Hv) as [E|[E|E]]; rewrite E; split; cbn; lia. }
  destruct Hk as [Hk Hnk1].
  destruct (chunks_mult 4 nk k ltac:(lia) Hk) as [Lw0 Fw0].
  assert (Hkw : length (key_words k) = ((nk + 7) * 4)%nat).
  { unfold key_words. rewrite rev_length, expand_words_length, rev_length, Lw0. lia. }
  assert (Fkw : Forall word4 (key_words k)).
  { unfold key_words. apply Forall_rev. rewrite Lw0.
    apply expand_words_word4; [exact Hnk1|rewrite rev_length; lia|apply Forall_rev; exact Fw0]. }
  destruct (chunks_mult 4 (nk + 7) (key_words k) ltac:(lia) Hkw) as [Lc Fc].
  assert (FF : Forall (Forall word4) (chunks 4 (key_words k))) by (apply chunks_Forall; [lia|exact Fkw]).
  assert (Hlen : len_sched (map (@concat N) (chunks 4 (key_words k)))).
  { unfold len_sched. rewrite Forall_map. rewrite Forall_forall in *. intros c Hc.
    apply concat_len16; [apply Fc; exact Hc|]. apply FF. exact Hc. }
  split; [rewrite map_length; exact Lc|]. split; [exact Hlen|].
  intros Hb. unfold wf_sched.
  assert (Bkw : Forall bytes (key_words k)).
  { unfold key_words. apply Forall_rev. apply expand_words_bytes; [reflexivity|].
    apply Forall_rev. apply chunks_Forall; [lia|exact Hb]. }
  assert (BB : Forall (Forall bytes) (chunks 4 (key_words k))) by (apply chunks_Forall; [lia|exact Bkw]).
  unfold len_sched in Hlen. rewrite Forall_map in *. rewrite Forall_forall in *. intros c Hc.
  split; [apply Hlen; exact Hc|]. apply concat_bytes. apply BB. exact Hc.
Qed.

Lemma key_expansion_len_sched k : valid_key_len (length k) = true -> len_sched (key_expansion k).
Proof. intros H. apply key_expansion_facts. exact H. Qed.
Lemma key_expansion_wf k : valid_key_len (length k) = true -> bytes k -> wf_sched (key_expansion k).
Proof. intros H. apply key_expansion_facts. exact H. Qed.

(* AES with a key: decryption inverts encryption *)
Lemma c_aes_dec_enc : forall k blk, valid_key_len (length k) = true -> bytes k -> wfb blk ->
  aes_dec k (aes_enc k blk) = blk.
Proof. intros. unfold aes_dec, aes_enc. apply c_inv_cipher_cipher; [apply key_expansion_wf|]; assumption. Qed.
