(* C11: a rejected submit changes only the error field of the rejected context, and that
   field is never read by any later computation except as the error of that very context:
   the model run from the state after the rejection is, call by call, the run from the state
   before it with that one field overwritten ("poked").  Holds for EVERY state, reachable
   or not, every algorithm record, every oracle. *)
From Coq Require Import NArith List Arith Lia Bool.
From ISAL Require Import Base.Words Base.ListUtil Spec.MD Spec.HashApiSpec Model.HashCtx Model.HashObs
  Proofs.ListFacts Proofs.ChunkFacts Proofs.HashInv.
Import ListNotations.

Lemma upd_comm {X} i j (x y : X) l : i <> j -> upd i x (upd j y l) = upd j y (upd i x l).
Proof.
  revert i j. induction l as [|h t IH]; intros i j H; [destruct i, j; reflexivity|].
  destruct i, j; cbn [upd]; try reflexivity; [lia|]. f_equal. apply IH. lia.
Qed.

Lemma st_eq s1 s2 : ctxs s1 = ctxs s2 -> held s1 = held s2 -> tick s1 = tick s2 -> s1 = s2.
Proof. destruct s1, s2. cbn. intros -> -> ->. reflexivity. Qed.

Section Reject.
Variable A : algo.
Variable K : nat.
Variable sched : nat -> list nat -> option nat.

(* overwrite the error field of context k *)
Definition poke (s : st) (k : nat) (e : N) : st := setc s k (set_error (getc A s k) e).

Definition nctx (s : st) : nat := length (ctxs s).

Lemma nctx_setc s i c : nctx (setc s i c) = nctx s.
Proof. unfold nctx, setc. cbn [ctxs]. apply length_upd. Qed.

Lemma nctx_poke s k e : nctx (poke s k e) = nctx s.
Proof. apply nctx_setc. Qed.

Lemma getc_setc_eq s i c : i < nctx s -> getc A (setc s i c) i = c.
Proof. intros H. unfold getc, setc. cbn [ctxs]. apply nth_upd_eq. exact H. Qed.

Lemma getc_setc_neq s i j c : i <> j -> getc A (setc s i c) j = getc A s j.
Proof. intros H. unfold getc, setc. cbn [ctxs]. apply nth_upd_neq. exact H. Qed.

Lemma getc_poke_eq s k e : k < nctx s -> getc A (poke s k e) k = set_error (getc A s k) e.
Proof. apply getc_setc_eq. Qed.

Lemma getc_poke_neq s k e i : k <> i -> getc A (poke s k e) i = getc A s i.
Proof. apply getc_setc_neq. Qed.

Lemma setc_poke_same s k e c : setc (poke s k e) k c = setc s k c.
Proof. unfold poke, setc. cbn [ctxs held tick]. rewrite upd_upd. reflexivity. Qed.

Lemma setc_poke_other s k e i c : i <> k -> setc (poke s k e) i c = poke (setc s i c) k e.
Proof.
  intros H. unfold poke. rewrite (getc_setc_neq s i k c H). unfold setc. cbn [ctxs held tick].
  rewrite upd_comm by exact H. reflexivity.
Qed.

Lemma poke_setc_same s k e c : k < nctx s -> poke (setc s k c) k e = setc s k (set_error c e).
Proof.
  intros H. unfold poke. rewrite getc_setc_eq by exact H. unfold setc. cbn [ctxs held tick].
  rewrite upd_upd. reflexivity.
Qed.

(* ---- the two functions that look at a context never look at its error field ------------- *)

Lemma ctx_accept_err c e buf flags : ctx_accept A (set_error c e) buf flags = ctx_accept A c buf flags.
Proof. reflexivity. Qed.

Lemma ctx_next_err c e :
  ctx_next A (set_error c e) = (set_error (fst (ctx_next A c)) e, snd (ctx_next A c)).
Proof.
  destruct c as [dg st er tot inc pb pl]. unfold ctx_next.
  cbv [set_error set_status set_digest c_status c_plen c_inc c_digest c_error c_total c_pbuf].
  destruct (has st STS_COMPLETE); [reflexivity|].
  destruct ((pl =? 0) && negb (length inc =? 0))%bool.
  - destruct (negb ((length inc - length inc mod B A) / B A =? 0)); [reflexivity|].
    destruct (has st STS_LAST); [|reflexivity].
    destruct (hash_pad A _ tot). reflexivity.
  - destruct (has st STS_LAST); [|reflexivity].
    destruct (hash_pad A pb tot). reflexivity.
Qed.

(* ---- no function changes the number of contexts ---------------------------------------------- *)

Lemma nctx_hand_back s i : nctx (fst (hand_back A s i)) = nctx s.
Proof.
  unfold hand_back. destruct (nth_error (held s) i); cbn [fst]; [|reflexivity].
  unfold nctx. cbn [ctxs]. apply length_upd.
Qed.

Lemma nctx_mgr_submit s j : nctx (fst (mgr_submit A K sched s j)) = nctx s.
Proof.
  unfold mgr_submit. destruct (choose sched _); [rewrite nctx_hand_back; reflexivity|].
  destruct (K <=? _); [rewrite nctx_hand_back; reflexivity|reflexivity].
Qed.

Lemma nctx_mgr_flush s : nctx (fst (mgr_flush A sched s)) = nctx s.
Proof.
  unfold mgr_flush. destruct (held s); [reflexivity|]. destruct (choose sched s); apply nctx_hand_back.
Qed.

Lemma nctx_submit_job s cid blocks : nctx (fst (submit_job A K sched s cid blocks)) = nctx s.
Proof. apply nctx_mgr_submit. Qed.

Lemma nctx_resubmit : forall fuel s cur, nctx (fst (resubmit A K sched fuel s cur)) = nctx s.
Proof.
  induction fuel as [|f IH]; intros s cur; [destruct cur; reflexivity|].
  destruct cur as [cid|]; cbn [resubmit]; [|reflexivity].
  destruct (ctx_next A (getc A s cid)) as [c' [blocks|]]; cbn [fst]; [|apply nctx_setc].
  pose proof (nctx_submit_job (setc s cid c') cid blocks) as L1.
  destruct (submit_job A K sched (setc s cid c') cid blocks) as [s2 r]. cbn [fst] in L1.
  rewrite IH, L1. apply nctx_setc.
Qed.

Lemma nctx_ctx_flush_f : forall fuel s, nctx (fst (ctx_flush_f A K sched fuel s)) = nctx s.
Proof.
  induction fuel as [|f IH]; intros s; cbn [ctx_flush_f]; [reflexivity|].
  pose proof (nctx_mgr_flush s) as L1. destruct (mgr_flush A sched s) as [s1 r]. cbn [fst] in L1.
  destruct r as [cid|]; [|exact L1].
  pose proof (nctx_resubmit (fuel_for s1) s1 (Some cid)) as L2.
  destruct (resubmit A K sched (fuel_for s1) s1 (Some cid)) as [s2 o]. cbn [fst] in L2.
  destruct o as [[r|]|]; cbn [fst]; try (rewrite L2; exact L1). rewrite IH, L2. exact L1.
Qed.

Lemma nctx_ctx_submit s cid buf flags : nctx (fst (ctx_submit A K sched s cid buf flags)) = nctx s.
Proof.
  unfold ctx_submit. destruct (ctx_accept A (getc A s cid) buf flags) as [e|c' [blocks|]]; cbn [fst].
  - apply nctx_setc.
  - pose proof (nctx_submit_job (setc s cid c') cid blocks) as L1.
    destruct (submit_job A K sched (setc s cid c') cid blocks) as [s2 r]. cbn [fst] in L1.
    rewrite nctx_resubmit, L1. apply nctx_setc.
  - rewrite nctx_resubmit. apply nctx_setc.
Qed.

Lemma nctx_step s o : nctx (fst (fst (step A K sched s o))) = nctx s.
Proof.
  destruct o as [cid buf flags|]; cbn [step].
  - unfold api_submit. pose proof (nctx_ctx_submit s cid buf flags) as L.
    destruct (ctx_submit A K sched s cid buf flags) as [s' o]. exact L.
  - unfold ctx_flush. pose proof (nctx_ctx_flush_f (fuel_for s) s) as L.
    destruct (ctx_flush_f A K sched (fuel_for s) s) as [s' r]. exact L.
Qed.

(* ---- the manager ---------------------------------------------------------------------------- *)

Lemma hand_back_poke s k e i : k < nctx s ->
  hand_back A (poke s k e) i = (poke (fst (hand_back A s i)) k e, snd (hand_back A s i)).
Proof.
  intros Hk. unfold hand_back. change (held (poke s k e)) with (held s).
  destruct (nth_error (held s) i) as [j|]; cbn [fst snd]; [|reflexivity]. f_equal.
  apply st_eq; cbn [ctxs held tick poke setc]; try reflexivity.
  destruct (Nat.eq_dec (j_ctx j) k) as [E|E].
  - rewrite E. rewrite getc_poke_eq by exact Hk. unfold getc. cbn [ctxs].
    rewrite nth_upd_eq by exact Hk. rewrite !upd_upd. reflexivity.
  - rewrite getc_poke_neq by auto. unfold getc. cbn [ctxs]. rewrite nth_upd_neq by exact E.
    apply upd_comm. exact E.
Qed.

Lemma mgr_submit_poke s k e j : k < nctx s ->
  mgr_submit A K sched (poke s k e) j =
    (poke (fst (mgr_submit A K sched s j)) k e, snd (mgr_submit A K sched s j)).
Proof.
  intros Hk. unfold mgr_submit.
  set (s1 := {| ctxs := ctxs s; held := held s ++ [j]; tick := tick s |}).
  change {| ctxs := ctxs (poke s k e); held := held (poke s k e) ++ [j]; tick := tick (poke s k e) |}
    with (poke s1 k e).
  change (choose sched (poke s1 k e)) with (choose sched s1).
  change (held (poke s1 k e)) with (held s1).
  assert (Hk1 : k < nctx s1) by exact Hk.
  destruct (choose sched s1) as [i|]; [apply hand_back_poke; exact Hk1|].
  destruct (K <=? length (held s1)); [apply hand_back_poke; exact Hk1|]. reflexivity.
Qed.

Lemma mgr_flush_poke s k e : k < nctx s ->
  mgr_flush A sched (poke s k e) = (poke (fst (mgr_flush A sched s)) k e, snd (mgr_flush A sched s)).
Proof.
  intros Hk. unfold mgr_flush. change (held (poke s k e)) with (held s).
  change (choose sched (poke s k e)) with (choose sched s).
  destruct (held s); [reflexivity|].
  destruct (choose sched s); apply hand_back_poke; exact Hk.
Qed.

Lemma submit_job_poke s k e cid blocks : k < nctx s ->
  submit_job A K sched (poke s k e) cid blocks =
    (poke (fst (submit_job A K sched s cid blocks)) k e, snd (submit_job A K sched s cid blocks)).
Proof.
  intros Hk. unfold submit_job.
  assert (E : c_digest (getc A (poke s k e) cid) = c_digest (getc A s cid)).
  { destruct (Nat.eq_dec k cid) as [<-|Ne]; [rewrite getc_poke_eq by exact Hk; reflexivity|].
    rewrite getc_poke_neq by exact Ne. reflexivity. }
  rewrite E. apply mgr_submit_poke. exact Hk.
Qed.

(* ---- the loops ------------------------------------------------------------------------------- *)

Lemma resubmit_poke k e : forall fuel s cur, k < nctx s ->
  resubmit A K sched fuel (poke s k e) cur =
    (poke (fst (resubmit A K sched fuel s cur)) k e, snd (resubmit A K sched fuel s cur)).
Proof.
  induction fuel as [|f IH]; intros s cur Hk.
  - destruct cur; reflexivity.
  - destruct cur as [cid|]; cbn [resubmit]; [|reflexivity].
    destruct (Nat.eq_dec cid k) as [->|Ne].
    + rewrite getc_poke_eq by exact Hk. rewrite ctx_next_err.
      destruct (ctx_next A (getc A s k)) as [c' [blocks|]]; cbn [fst snd].
      * rewrite setc_poke_same. rewrite <- (poke_setc_same s k e c' Hk).
        assert (Hk' : k < nctx (setc s k c')) by (rewrite nctx_setc; exact Hk).
        rewrite (submit_job_poke (setc s k c') k e k blocks Hk').
        pose proof (nctx_submit_job (setc s k c') k blocks) as L1.
        destruct (submit_job A K sched (setc s k c') k blocks) as [s2 r]. cbn [fst snd] in *.
        apply IH. rewrite L1. exact Hk'.
      * rewrite setc_poke_same. rewrite poke_setc_same by exact Hk. reflexivity.
    + rewrite getc_poke_neq by auto.
      destruct (ctx_next A (getc A s cid)) as [c' [blocks|]]; cbn [fst snd].
      * rewrite setc_poke_other by exact Ne.
        assert (Hk' : k < nctx (setc s cid c')) by (rewrite nctx_setc; exact Hk).
        rewrite (submit_job_poke (setc s cid c') k e cid blocks Hk').
        pose proof (nctx_submit_job (setc s cid c') cid blocks) as L1.
        destruct (submit_job A K sched (setc s cid c') cid blocks) as [s2 r]. cbn [fst snd] in *.
        apply IH. rewrite L1. exact Hk'.
      * rewrite setc_poke_other by exact Ne. reflexivity.
Qed.

Lemma ctx_flush_f_poke k e : forall fuel s, k < nctx s ->
  ctx_flush_f A K sched fuel (poke s k e) =
    (poke (fst (ctx_flush_f A K sched fuel s)) k e, snd (ctx_flush_f A K sched fuel s)).
Proof.
  induction fuel as [|f IH]; intros s Hk; cbn [ctx_flush_f]; [reflexivity|].
  rewrite (mgr_flush_poke s k e Hk). pose proof (nctx_mgr_flush s) as L1.
  destruct (mgr_flush A sched s) as [s1 r]. cbn [fst snd] in *.
  destruct r as [cid|]; [|reflexivity].
  assert (Hk1 : k < nctx s1) by (rewrite L1; exact Hk).
  change (fuel_for (poke s1 k e)) with (fuel_for s1).
  rewrite (resubmit_poke k e (fuel_for s1) s1 (Some cid) Hk1).
  pose proof (nctx_resubmit (fuel_for s1) s1 (Some cid)) as L2.
  destruct (resubmit A K sched (fuel_for s1) s1 (Some cid)) as [s2 o]. cbn [fst snd] in *.
  destruct o as [[r|]|]; try reflexivity. apply IH. rewrite L2. exact Hk1.
Qed.

(* ---- the API calls ------------------------------------------------------------------------------ *)

(* a submit to another context commutes with the poke *)
Lemma ctx_submit_poke_other s k e cid buf flags : k < nctx s -> cid <> k ->
  ctx_submit A K sched (poke s k e) cid buf flags =
    (poke (fst (ctx_submit A K sched s cid buf flags)) k e, snd (ctx_submit A K sched s cid buf flags)).
Proof.
  intros Hk Ne. unfold ctx_submit. rewrite getc_poke_neq by auto.
  change (fuel_for (poke s k e)) with (fuel_for s).
  destruct (ctx_accept A (getc A s cid) buf flags) as [e'|c' [blocks|]]; cbn [fst snd].
  - rewrite setc_poke_other by exact Ne. reflexivity.
  - rewrite setc_poke_other by exact Ne.
    assert (Hk' : k < nctx (setc s cid c')) by (rewrite nctx_setc; exact Hk).
    rewrite (submit_job_poke (setc s cid c') k e cid blocks Hk').
    pose proof (nctx_submit_job (setc s cid c') cid blocks) as L1.
    destruct (submit_job A K sched (setc s cid c') cid blocks) as [s2 r]. cbn [fst snd] in *.
    change (fuel_for (poke s2 k e)) with (fuel_for s2).
    apply resubmit_poke. rewrite L1. exact Hk'.
  - rewrite setc_poke_other by exact Ne. apply resubmit_poke. rewrite nctx_setc. exact Hk.
Qed.

(* a submit to the poked context overwrites the poke: the results are EQUAL *)
Lemma ctx_submit_poke_same s k e buf flags : k < nctx s ->
  ctx_submit A K sched (poke s k e) k buf flags = ctx_submit A K sched s k buf flags.
Proof.
  intros Hk. unfold ctx_submit. rewrite getc_poke_eq by exact Hk. rewrite ctx_accept_err.
  change (fuel_for (poke s k e)) with (fuel_for s).
  destruct (ctx_accept A (getc A s k) buf flags) as [e'|c' [blocks|]]; rewrite setc_poke_same; reflexivity.
Qed.

Lemma step_poke_other s k e o : k < nctx s -> (forall buf flags, o <> Submit k buf flags) ->
  step A K sched (poke s k e) o =
    (poke (fst (fst (step A K sched s o))) k e, snd (fst (step A K sched s o)), snd (step A K sched s o)).
Proof.
  intros Hk Ho. destruct o as [cid buf flags|]; cbn [step].
  - assert (Ne : cid <> k) by (intros ->; eapply Ho; reflexivity).
    unfold api_submit. rewrite (ctx_submit_poke_other s k e cid buf flags Hk Ne).
    destruct (ctx_submit A K sched s cid buf flags) as [s' out]. cbn [fst snd].
    destruct out as [[r|]|]; try reflexivity.
    destruct (r =? cid) eqn:Er; [|reflexivity]. apply Nat.eqb_eq in Er. subst r.
    rewrite getc_poke_neq by auto. reflexivity.
  - unfold ctx_flush. change (fuel_for (poke s k e)) with (fuel_for s).
    rewrite (ctx_flush_f_poke k e (fuel_for s) s Hk).
    destruct (ctx_flush_f A K sched (fuel_for s) s) as [s' r]. reflexivity.
Qed.

Lemma step_poke_same s k e buf flags : k < nctx s ->
  step A K sched (poke s k e) (Submit k buf flags) = step A K sched s (Submit k buf flags).
Proof.
  intros Hk. cbn [step]. unfold api_submit. rewrite ctx_submit_poke_same by exact Hk. reflexivity.
Qed.

(* ---- observations ---------------------------------------------------------------------------------- *)

Definition obs_noerr (o : obs) : obs :=
  {| o_ret := o_ret o; o_status := o_status o; o_error := 0%N; o_total := o_total o;
     o_digest := o_digest o; o_rc := o_rc o |}.

(* equal in everything but possibly the error field, and equal in that too unless the
   context handed back is k *)
Definition obs_sim (k : nat) (o1 o2 : obs) : Prop :=
  obs_noerr o1 = obs_noerr o2 /\ (o_ret o1 <> Some k -> o1 = o2).

Definition optrel {X} (P : X -> X -> Prop) (x y : option X) : Prop :=
  match x, y with Some a, Some b => P a b | None, None => True | _, _ => False end.

Lemma obs_of_poke s' k e out rc : k < nctx s' ->
  optrel (obs_sim k) (obs_of A (poke s' k e) out rc) (obs_of A s' out rc).
Proof.
  intros Hk. destruct out as [[r|]|]; cbn [obs_of optrel]; [| |exact I].
  - destruct (Nat.eq_dec k r) as [<-|Ne].
    + rewrite getc_poke_eq by exact Hk. split; [reflexivity|]. intros H. contradiction H. reflexivity.
    + rewrite getc_poke_neq by exact Ne. split; reflexivity.
  - split; reflexivity.
Qed.

(* call by call: same call, observations equal except possibly the error field of context k;
   and from the first later submit to k on (included) the two traces are IDENTICAL *)
Fixpoint trace_sim (k : nat) (t1 t2 : list (call * obs)) : Prop :=
  match t1, t2 with
  | [], [] => True
  | x :: r1, y :: r2 =>
      fst x = fst y /\ obs_sim k (snd x) (snd y) /\
      match fst x with
      | CSubmit cid _ _ => if cid =? k then x :: r1 = y :: r2 else trace_sim k r1 r2
      | CFlush => trace_sim k r1 r2
      end
  | _, _ => False
  end.

(* the run from the poked state is the run from the unpoked state *)
Theorem run_obs_poke k e : forall ops s, k < nctx s ->
  optrel (trace_sim k) (run_obs A K sched (poke s k e) ops) (run_obs A K sched s ops).
Proof.
  induction ops as [|o ops IH]; intros s Hk; cbn [run_obs]; [exact I|].
  unfold step_obs.
  assert (D : (exists buf flags, o = Submit k buf flags) \/ (forall buf flags, o <> Submit k buf flags)).
  { destruct o as [cid buf flags|]; [|right; discriminate].
    destruct (Nat.eq_dec cid k) as [->|Ne]; [left; eauto|right; intros b f [= E _ _]; contradiction]. }
  destruct D as [(buf & flags & ->)|Ho].
  - rewrite step_poke_same by exact Hk.
    destruct (step A K sched s (Submit k buf flags)) as [[s' out] rc].
    destruct (obs_of A s' out rc) as [ob|]; [|exact I].
    destruct (run_obs A K sched s' ops) as [tr|]; [|exact I].
    cbn [optrel trace_sim fst snd call_of]. rewrite Nat.eqb_refl.
    split; [reflexivity|]. split; [split; reflexivity|reflexivity].
  - rewrite (step_poke_other s k e o Hk Ho). pose proof (nctx_step s o) as L.
    destruct (step A K sched s o) as [[s' out] rc]. cbn [fst snd] in *.
    assert (Hk' : k < nctx s') by (rewrite L; exact Hk).
    pose proof (obs_of_poke s' k e out rc Hk') as OS.
    destruct (obs_of A (poke s' k e) out rc) as [ob1|], (obs_of A s' out rc) as [ob2|];
      cbn [optrel] in OS; try contradiction; [|exact I].
    specialize (IH s' Hk').
    destruct (run_obs A K sched (poke s' k e) ops) as [t1|], (run_obs A K sched s' ops) as [t2|];
      cbn [optrel] in *; try contradiction; [|exact I].
    cbn [trace_sim fst snd]. split; [reflexivity|]. split; [exact OS|].
    destruct o as [cid buf flags|]; cbn [call_of]; [|exact IH].
    destruct (cid =? k) eqn:Ek; [|exact IH]. apply Nat.eqb_eq in Ek. subst cid.
    exfalso. eapply Ho. reflexivity.
Qed.

(* in particular: the API return codes of all later calls are those of the run without the
   rejected call *)
Lemma trace_sim_rc k : forall t1 t2, trace_sim k t1 t2 ->
  map (fun x => o_rc (snd x)) t1 = map (fun x => o_rc (snd x)) t2.
Proof.
  induction t1 as [|x r1 IH]; intros [|y r2] H; cbn [trace_sim] in H; try contradiction; [reflexivity|].
  destruct H as (_ & [Hn _] & H). cbn [map]. f_equal.
  - apply (f_equal o_rc) in Hn. exact Hn.
  - destruct (fst x) as [cid b f|]; [|apply IH; exact H].
    destruct (cid =? k); [injection H as _ ->; reflexivity|apply IH; exact H].
Qed.

(* ---- the frame of a rejected submit ------------------------------------------------------------- *)

Theorem reject_frame s cid buf flags e : cid < nctx s ->
  ctx_accept A (getc A s cid) buf flags = Reject e ->
  api_submit A K sched s cid buf flags = (poke s cid e, Ret (Some cid), map_error e).
Proof.
  intros Hc H. unfold api_submit, ctx_submit. rewrite H. fold (poke s cid e).
  rewrite Nat.eqb_refl, getc_poke_eq by exact Hc. reflexivity.
Qed.

Theorem poke_frame s cid e : cid < nctx s ->
  held (poke s cid e) = held s /\ tick (poke s cid e) = tick s /\
  (forall i, cid <> i -> getc A (poke s cid e) i = getc A s i) /\
  getc A (poke s cid e) cid = set_error (getc A s cid) e.
Proof.
  intros H. split; [reflexivity|]. split; [reflexivity|]. split; [|apply getc_poke_eq; exact H].
  intros i Hi. apply getc_poke_neq. exact Hi.
Qed.

(* when does the model reject: exactly the three conditions of the API *)
Theorem reject_conditions c buf flags :
  (negb (N.land flags (N.lnot FLAG_ENTIRE 32) =? 0)%N = true -> ctx_accept A c buf flags = Reject ERR_INVALID_FLAGS) /\
  (negb (N.land flags (N.lnot FLAG_ENTIRE 32) =? 0)%N = false -> has (c_status c) STS_PROCESSING = true ->
     ctx_accept A c buf flags = Reject ERR_ALREADY_PROCESSING) /\
  (negb (N.land flags (N.lnot FLAG_ENTIRE 32) =? 0)%N = false -> has (c_status c) STS_PROCESSING = false ->
     has (c_status c) STS_COMPLETE = true -> has flags FLAG_FIRST = false ->
     ctx_accept A c buf flags = Reject ERR_ALREADY_COMPLETED).
Proof.
  unfold ctx_accept. repeat split.
  - intros ->. reflexivity.
  - intros -> ->. reflexivity.
  - intros -> -> -> ->. reflexivity.
Qed.

(* C11_reject_transparent: after a rejected submit, every continuation observes what it
   would have observed without the rejected call *)
Theorem reject_transparent s cid buf flags e : cid < nctx s ->
  ctx_accept A (getc A s cid) buf flags = Reject e ->
  forall ops,
    optrel (trace_sim cid)
      (run_obs A K sched (fst (fst (api_submit A K sched s cid buf flags))) ops)
      (run_obs A K sched s ops).
Proof.
  intros Hc H ops. rewrite (reject_frame s cid buf flags e Hc H). cbn [fst]. apply run_obs_poke. exact Hc.
Qed.

End Reject.
