(* Proofs/AbiCfgVec.v — the vector-register machine (C14, register half).
   Reference semantics: every vector register carries the width (0, 1 = 128, 2 = 256, 3 = 512
   bits) of its low part that holds data written by the function ("dirty"); any write makes
   the written width dirty (a VEX/EVEX write zeroes the rest, a legacy-SSE or merge-masked
   write keeps it), the self-xor idioms / vzeroall / vzeroupper / a move from a clean
   register clean it.  clear_check_sound: if check_vclaim accepts a function then on every
   path to every exit the dirt is within the function's claim; for check_c14 the claim is
   "nothing", i.e. every register that was written has been cleared again. *)
From Coq Require Import ZArith NArith PArith List Bool Arith Lia FMapPositive.
From ISAL Require Import Model.AbiCfg Proofs.AbiCfgFlow.
Import ListNotations.

Definition vconc := nat -> nat.

(* what a call may do to the dirt, according to the callee's claim *)
Definition vcall_ok (vd : list nat) (c c' : vconc) : Prop :=
  forall r, c' r <= Nat.max (c r) (nth r vd 3).

Lemma nth_map_seq : forall (T : Type) (f : nat -> T) n r d, r < n -> nth r (map f (seq 0 n)) d = f r.
Proof.
  intros. rewrite (nth_indep _ d (f 0)) by (now rewrite map_length, seq_length).
  rewrite map_nth. now rewrite seq_nth.
Qed.

Lemma upd_length : forall (T : Type) (l : list T) n v, length (upd l n v) = length l.
Proof. induction l; destruct n; cbn; intros; auto. Qed.

Lemma nth_upd : forall (T : Type) (l : list T) n v r d,
  nth r (upd l n v) d = if Nat.eqb r n && Nat.ltb n (length l) then v else nth r l d.
Proof.
  induction l as [|h t IH]; intros n v r d.
  - cbn. destruct n, r; cbn; try reflexivity. all: try now rewrite andb_false_r.
  - destruct n, r; cbn [upd nth length]; try reflexivity.
    rewrite IH. cbn [Nat.eqb]. change (S n <? S (length t)) with (n <? length t). reflexivity.
Qed.

Lemma some_inj : forall (T : Type) (x y : T), Some x = Some y -> x = y.
Proof. intros. congruence. Qed.

Section Vec.
  Variable claims : positive -> claim.
  Variable vcallrel : positive -> vconc -> vconc -> Prop.
  Hypothesis vcallrel_ok : forall f c c', vcallrel f c c' -> vcall_ok (cl_vd (claims f)) c c'.

  Definition vstep (i : vinsn) (c c' : vconc) : Prop :=
    match i with
    | VW merge w m => forall r, c' r = if bit m r then (if merge then Nat.max (c r) w else w) else c r
    | VClr merge w r0 =>
      forall r, c' r = if Nat.eqb r r0 then (if merge then (if Nat.leb (c r) w then 0 else c r) else 0) else c r
    | VMov merge w d s =>
      forall r, c' r = if Nat.eqb r d
                       then (if merge then (if Nat.leb (c d) w then Nat.min (c s) w else c d) else Nat.min (c s) w)
                       else c r
    | VZeroAll => forall r, c' r = if Nat.ltb r 16 then 0 else c r
    | VZeroUpper => forall r, c' r = if Nat.ltb r 16 then Nat.min (c r) 1 else c r
    | VCall f => vcallrel f c c'
    | VUnknown => True
    end.

  Inductive vsteps : list vinsn -> vconc -> vconc -> Prop :=
  | vsteps_nil : forall c, vsteps [] c c
  | vsteps_cons : forall i l c c1 c2, vstep i c c1 -> vsteps l c1 c2 -> vsteps (i :: l) c c2.

  Definition vgamma (a : vstate) (c : vconc) : Prop :=
    length a = 32 /\ forall r, r < 32 -> c r <= getv a r.

  Lemma getv_map : forall f r, r < 32 -> getv (map f regs32) r = f r.
  Proof. intros. unfold getv, regs32. now apply nth_map_seq. Qed.

  Lemma vtf_sound : forall i a a' c c',
    vtf claims i a = Some a' -> vgamma a c -> vstep i c c' -> vgamma a' c'.
  Proof.
    intros i a a' c c' Htf [Hlen Hg] Hs. destruct i; cbn [vtf vstep] in *.
    - apply some_inj in Htf; subst a'. split; [now rewrite map_length|].
      intros r Hr. rewrite getv_map by auto. rewrite Hs. specialize (Hg r Hr).
      destruct (bit regs r); destruct merge; lia.
    - destruct (Nat.ltb r 32) eqn:Er; cbn [negb] in Htf; [|discriminate].
      apply some_inj in Htf; subst a'. apply Nat.ltb_lt in Er.
      split; [now rewrite upd_length|].
      intros x Hx. unfold getv. rewrite nth_upd. rewrite Hs. rewrite Hlen.
      replace (r <? 32) with true by (symmetry; now apply Nat.ltb_lt). rewrite andb_true_r.
      destruct (Nat.eqb x r) eqn:E.
      + apply Nat.eqb_eq in E. subst x. specialize (Hg r Hx). fold (getv a r).
        destruct merge; [|lia].
        destruct (Nat.leb (c r) w) eqn:E1; destruct (Nat.leb (getv a r) w) eqn:E2;
          try apply Nat.leb_le in E1; try apply Nat.leb_le in E2;
          try apply Nat.leb_gt in E1; try apply Nat.leb_gt in E2; lia.
      + apply Hg; auto.
    - destruct (Nat.ltb d 32) eqn:Ed; destruct (Nat.ltb s 32) eqn:Es; cbn [negb andb] in Htf; try discriminate.
      apply some_inj in Htf; subst a'. apply Nat.ltb_lt in Ed. apply Nat.ltb_lt in Es.
      split; [now rewrite upd_length|].
      intros x Hx. unfold getv. rewrite nth_upd. rewrite Hs. rewrite Hlen.
      replace (d <? 32) with true by (symmetry; now apply Nat.ltb_lt). rewrite andb_true_r.
      destruct (Nat.eqb x d) eqn:E.
      + apply Nat.eqb_eq in E. subst x. pose proof (Hg d Ed) as Hd. pose proof (Hg s Es) as Hss.
        fold (getv a d). fold (getv a s).
        destruct merge.
        * destruct (Nat.leb (c d) w) eqn:E1; destruct (Nat.leb (getv a d) w) eqn:E2;
            try apply Nat.leb_le in E1; try apply Nat.leb_le in E2;
            try apply Nat.leb_gt in E1; try apply Nat.leb_gt in E2; lia.
        * lia.
      + apply Hg; auto.
    - apply some_inj in Htf; subst a'. split; [now rewrite map_length|].
      intros r Hr. rewrite getv_map by auto. rewrite Hs. specialize (Hg r Hr).
      destruct (Nat.ltb r 16); lia.
    - apply some_inj in Htf; subst a'. split; [now rewrite map_length|].
      intros r Hr. rewrite getv_map by auto. rewrite Hs. specialize (Hg r Hr).
      destruct (Nat.ltb r 16); lia.
    - apply some_inj in Htf; subst a'. split; [now rewrite map_length|].
      intros r Hr. rewrite getv_map by auto. specialize (Hg r Hr).
      pose proof (vcallrel_ok _ _ _ Hs r). lia.
    - discriminate.
  Qed.

  Lemma vtf_list_sound : forall l a a' c c',
    vtf_list claims l a = Some a' -> vgamma a c -> vsteps l c c' -> vgamma a' c'.
  Proof.
    induction l as [|i l IH]; intros a a' c c' Htf Hg Hs; inversion Hs; subst; cbn in Htf.
    - now inversion Htf; subst.
    - destruct (vtf claims i a) as [a1|] eqn:E; [|discriminate].
      eapply IH; eauto. eapply vtf_sound; eauto.
  Qed.

  Lemma v_leq_sound : forall a b c, v_leq a b = true -> vgamma a c -> vgamma b c.
  Proof.
    intros a b c Hl [Hlen Hg]. unfold v_leq in Hl. apply andb_true_iff in Hl. destruct Hl as [Hb Hl].
    apply Nat.eqb_eq in Hb. split; auto. intros r Hr.
    rewrite forallb_forall in Hl.
    assert (In r regs32) by (apply in_seq; lia).
    specialize (Hl r H). apply Nat.leb_le in Hl. specialize (Hg r Hr). lia.
  Qed.

  Lemma v_init_gamma : forall c, (forall r, c r = 0) -> vgamma v_init c.
  Proof.
    intros c Hc. split; [reflexivity|]. intros r Hr. rewrite Hc. lia.
  Qed.

  Definition vbstep (b : block) (c c' : vconc) : Prop := vsteps (bv b) c c'.
  (* branch conditions do not concern the vector machine *)
  Definition vcond (t : term) (e : bool) (c : vconc) : Prop := True.

  (* every register's dirt at an exit is within the function's claim *)
  Theorem vclaim_sound : forall f,
    check_vclaim claims f = true ->
    forall c tm c', (forall r, c r = 0) ->
    run vconc vbstep vcond (cfg_of f) 1%positive c tm c' ->
    match tm with
    | TRet | TTailInd => forall r, r < 32 -> c' r <= nth r (cl_vd (claims (fid f))) 0
    | TTail g => forall r, r < 32 -> Nat.max (c' r) (nth r (cl_vd (claims g)) 3) <= nth r (cl_vd (claims (fid f))) 0
    | TBad => False
    | _ => True
    end.
  Proof.
    intros f Hchk c tm c' Hc Hrun. unfold check_vclaim in Hchk.
    destruct (analyse_sound vstate vconc (fun b => vtf_list claims (bv b)) (fun _ _ s => s) v_join v_join v_leq
                (v_term_ok claims (cl_vd (claims (fid f)))) vgamma vbstep vcond) with (f := f) (init := v_init)
                (c := c) (tm := tm) (c' := c') as [a' [[Hlen Hg] Hok]]; auto.
    - intros b a a0 c0 c1 H1 H2 H3. eapply vtf_list_sound; eauto.
    - apply v_leq_sound.
    - now apply v_init_gamma.
    - destruct tm; cbn [v_term_ok] in Hok; auto; try discriminate.
      + intros r Hr. unfold v_within in Hok. rewrite forallb_forall in Hok.
        assert (In r regs32) by (apply in_seq; lia). specialize (Hok r H). apply Nat.leb_le in Hok.
        specialize (Hg r Hr). lia.
      + intros r Hr. unfold v_within in Hok. rewrite forallb_forall in Hok.
        assert (In r regs32) by (apply in_seq; lia). specialize (Hok r H). apply Nat.leb_le in Hok.
        rewrite getv_map in Hok by auto. specialize (Hg r Hr). lia.
      + intros r Hr. unfold v_within in Hok. rewrite forallb_forall in Hok.
        assert (In r regs32) by (apply in_seq; lia). specialize (Hok r H). apply Nat.leb_le in Hok.
        specialize (Hg r Hr). lia.
  Qed.

  (* C14, register half: an accepted AES entry point returns with every vector register clean,
     whatever path was taken *)
  Theorem clear_check_sound : forall f,
    check_c14 claims f = true ->
    forall c tm c', (forall r, c r = 0) ->
    run vconc vbstep vcond (cfg_of f) 1%positive c tm c' ->
    (tm = TRet \/ tm = TTailInd) -> forall r, r < 32 -> c' r = 0.
  Proof.
    intros f Hchk c tm c' Hc Hrun Htm r Hr. unfold check_c14 in Hchk.
    apply andb_true_iff in Hchk. destruct Hchk as [Hcl Hv].
    pose proof (vclaim_sound f Hv c tm c' Hc Hrun) as H.
    unfold all_clean in Hcl. rewrite forallb_forall in Hcl.
    assert (In r regs32) by (apply in_seq; lia). specialize (Hcl r H0). apply Nat.eqb_eq in Hcl.
    assert (nth r (cl_vd (claims (fid f))) 0 = 0).
    { destruct (Nat.lt_ge_cases r (length (cl_vd (claims (fid f))))).
      - rewrite (nth_indep _ 0 3); auto.
      - now rewrite nth_overflow. }
    destruct Htm; subst tm; specialize (H r Hr); lia.
  Qed.

  (* with a residue table: at most the listed widths of the listed registers stay dirty *)
  Theorem residue_check_sound : forall f res,
    check_c14r claims res f = true ->
    forall c tm c', (forall r, c r = 0) ->
    run vconc vbstep vcond (cfg_of f) 1%positive c tm c' ->
    (tm = TRet \/ tm = TTailInd) -> forall r, r < 32 -> c' r <= nth r res 0.
  Proof.
    intros f res Hchk c tm c' Hc Hrun Htm r Hr. unfold check_c14r in Hchk.
    apply andb_true_iff in Hchk. destruct Hchk as [Hcl Hv].
    pose proof (vclaim_sound f Hv c tm c' Hc Hrun) as H.
    unfold v_within in Hcl. rewrite forallb_forall in Hcl.
    assert (In r regs32) by (apply in_seq; lia). specialize (Hcl r H0). apply Nat.leb_le in Hcl.
    assert (nth r (cl_vd (claims (fid f))) 0 <= getv (cl_vd (claims (fid f))) r).
    { unfold getv. destruct (Nat.lt_ge_cases r (length (cl_vd (claims (fid f))))).
      - rewrite (nth_indep _ 0 3); auto.
      - rewrite !nth_overflow by auto. lia. }
    destruct Htm; subst tm; specialize (H r Hr); lia.
  Qed.
End Vec.
