(* The lane manager of Model/LaneMgr.v: the representation invariant between the packed
   manager state and (the free-lane stack, the held jobs in submission order, the lanes they
   occupy), and the step lemmas for lm_init / lm_submit / lm_flush from which L1-L6 follow. *)
From Coq Require Import NArith List Arith Bool Lia ZifyBool ZifyNat ZifyN Permutation.
From ISAL Require Import Base.Words Base.ListUtil Spec.MD Model.HashCtx Model.HashCfg Model.LaneMgr
     Proofs.LaneMgrBits Proofs.LaneMgrLists.
Import ListNotations.
Local Open Scope N_scope.

(* ---- what cfg_wf says, as propositions ---------------------------------------------- *)

Record wf_facts (F : family_cfg) : Prop := {
  wf_scan1 : (1 <= f_submit_scan F)%nat;
  wf_scann : (f_submit_scan F <= f_nlanes F)%nat;
  wf_lens_len : length (f_init_lens F) = f_nlanes F;
  wf_bs1 : 1 <= f_bsize F;
  wf_mb1 : 1 <= max_blocks F;
  wf_mb3 : 3 <= max_blocks F;
  wf_bs_div : 2 ^ 32 mod f_bsize F = 0;
  wf_ent1 : 1 <= f_ent_bits F;
  wf_pop : f_pop_bits F <= f_ent_bits F;
  wf_npop : N.of_nat (f_nlanes F) <= 2 ^ f_pop_bits F;
  wf_n32 : N.of_nat (f_nlanes F) < 2 ^ 32;
  wf_s0_len : length (stack0 F) = f_nlanes F;
  wf_s0_nodup : NoDup (stack0 F);
  wf_s0_lt : forall l, In l (stack0 F) -> (l < f_nlanes F)%nat;
  wf_s0_all : forall l, (l < f_nlanes F)%nat -> In l (stack0 F);
  wf_p0_lt : forall l, In l (firstn (f_submit_scan F) (stack0 F)) -> (l < f_submit_scan F)%nat;
  wf_res_ge : forall l, In l (reserved F) -> (f_submit_scan F <= l)%nat;
  wf_init : if has_sentinel F
            then f_init_unused F = enc (f_ent_bits F) (stack0 F ++ [sent F]) /\
                 f_ent_bits F * (N.of_nat (f_nlanes F) + 1) <= f_stack_bits F
            else f_init_unused F = enc (f_ent_bits F) (stack0 F) /\
                 f_ent_bits F * N.of_nat (f_nlanes F) <= f_stack_bits F;
  wf_nidx : N.of_nat (f_nlanes F) <= 2 ^ f_idx_bits F;
  wf_idx_clear : f_idx_bits F <= f_clear_bits F;
  wf_clear_shift : f_clear_bits F <= f_shift F;
  wf_idle32 : f_idle_len F < 2 ^ 32;
  wf_mb_idle : max_blocks F <= f_idle_len F;
  wf_mb32 : max_blocks F <= 2 ^ 32;
  wf_pack : match f_pack F with
            | PackShiftOr => (max_blocks F - 1) * 2 ^ f_shift F + N.of_nat (f_nlanes F) <= f_idle_len F /\
                             f_idle_len F < 2 ^ f_W F
            | PackHighField => f_W F = f_shift F + 32 /\ f_init_lens F = iota_N 0 (f_nlanes F) /\
                               f_sb_threshold F = None /\ f_retire_idle F = false
            end;
  wf_run : match f_run F with
           | RunStackEq lit => has_sentinel F = true /\ lit = enc (f_ent_bits F) (reserved F ++ [sent F])
           | RunInuseEq k => k = N.of_nat (f_nlanes F) /\ f_submit_scan F = f_nlanes F
           end;
  wf_empty : match f_empty F with
             | EmptyInuse0 => True
             | EmptyBit k => has_sentinel F = true /\
                             k = f_ent_bits F * N.of_nat (f_nlanes F) + f_ent_bits F - 1
             end
}.

Lemma cfg_wf_facts F : cfg_wf F = true -> f_immediate F = false -> wf_facts F.
Proof.
  unfold cfg_wf. intros H Himm. rewrite Himm in H.
  repeat match goal with Hx : (_ && _)%bool = true |- _ => apply andb_true_iff in Hx; destruct Hx end.
  constructor;
    try (apply Nat.leb_le; assumption); try (apply N.leb_le; assumption); try (apply Nat.eqb_eq; assumption);
    try (apply N.ltb_lt; assumption); try (apply N.eqb_eq; assumption).
  - apply lm_nodupb_NoDup. assumption.
  - intros l Hl. match goal with Hx : forallb (fun l => (l <? f_nlanes F)%nat) _ = true |- _ =>
      rewrite forallb_forall in Hx; apply Nat.ltb_lt, Hx; assumption end.
  - intros l Hl. match goal with Hx : forallb _ (seq 0 _) = true |- _ =>
      rewrite forallb_forall in Hx; specialize (Hx l) end.
    match goal with Hx : In l (seq 0 _) -> _ |- _ =>
      assert (Hin : In l (seq 0 (f_nlanes F))) by (apply in_seq; lia); specialize (Hx Hin);
      apply existsb_exists in Hx; destruct Hx as [y [Hy Hey]]; apply Nat.eqb_eq in Hey; subst; assumption end.
  - intros l Hl. match goal with Hx : forallb _ (firstn _ _) = true |- _ =>
      rewrite forallb_forall in Hx; apply Nat.ltb_lt, Hx; assumption end.
  - intros l Hl. match goal with Hx : forallb _ (reserved F) = true |- _ =>
      rewrite forallb_forall in Hx; apply Nat.leb_le, Hx; assumption end.
  - destruct (has_sentinel F);
      match goal with Hx : (_ && _)%bool = true |- _ => apply andb_true_iff in Hx; destruct Hx as [Ha Hb] end;
      apply N.eqb_eq in Ha; apply N.leb_le in Hb; split; assumption.
  - destruct (f_pack F).
    + match goal with Hx : (_ && _)%bool = true |- _ => apply andb_true_iff in Hx; destruct Hx as [Ha Hb] end.
      apply N.leb_le in Ha. apply N.ltb_lt in Hb. split; assumption.
    + repeat match goal with Hx : (_ && _)%bool = true |- _ => apply andb_true_iff in Hx; destruct Hx end.
      repeat split.
      * apply N.eqb_eq. assumption.
      * match goal with Hx : list_N_eqb _ _ = true |- _ => unfold list_N_eqb in Hx;
          destruct (list_eq_dec N.eq_dec (f_init_lens F) (iota_N 0 (f_nlanes F))); [assumption|discriminate] end.
      * destruct (f_sb_threshold F); [discriminate|reflexivity].
      * apply negb_true_iff. assumption.
  - destruct (f_run F);
      match goal with Hx : (_ && _)%bool = true |- _ => apply andb_true_iff in Hx; destruct Hx as [Ha Hb] end.
    + apply N.eqb_eq in Hb. split; assumption.
    + apply N.eqb_eq in Ha. apply Nat.eqb_eq in Hb. split; assumption.
  - destruct (f_empty F); [exact I|].
    match goal with Hx : (_ && _)%bool = true |- _ => apply andb_true_iff in Hx; destruct Hx as [Ha Hb] end.
    apply N.eqb_eq in Hb. split; assumption.
Qed.

(* ---- the relation ---------------------------------------------------------------------- *)

Section LaneInv.
Variable compress : list N -> list N -> list N.
Variable F : family_cfg.
Hypothesis HW : wf_facts F.

Local Notation nl := (f_nlanes F).
Local Notation ent := (f_ent_bits F).
Local Notation sh := (f_shift F).

Definition lane_at (m : mgr) (l : nat) : lane := nth l (m_lanes m) idle_lane.
Definition len_at (m : mgr) (l : nat) : N := nth l (m_lens m) 0.
Definition rem_of (ln : lane) : N := N.of_nat (length (l_data ln)).
Definition packed (r : N) (l : nat) : N := r * 2 ^ sh + N.of_nat l.
(* what a job must come back with, and what a lane is going to end with *)
Definition jfinish (j : job) : list N := fold_left compress (j_blocks j) (j_chain j).
Definition lfinal (ln : lane) : list N := fold_left compress (l_data ln) (l_chain ln).
(* a job of fewer than 2^32 bytes *)
Definition job_ok (j : job) : Prop := N.of_nat (length (j_blocks j)) < max_blocks F.

Definition lane_holds (m : mgr) (l : nat) (j : job) : Prop :=
  l_job (lane_at m l) = Some (j_ctx j) /\ lfinal (lane_at m l) = jfinish j.

(* [held]: the jobs inside the manager, oldest first; [ls]: the lane of each; [st]: the
   free-lane stack, top first *)
Record RelW (held : list job) (ls st : list nat) (m : mgr) : Prop := {
  r_len_lanes : length (m_lanes m) = nl;
  r_len_lens : length (m_lens m) = nl;
  r_low : stack_low ent st (m_unused m);
  r_top : has_sentinel F = true -> stack_top ent st (m_unused m) = N.ones ent;
  r_perm : Permutation (st ++ ls) (seq 0 nl);
  r_res : exists p, st = p ++ reserved F;
  r_inuse : m_inuse m = N.of_nat (length ls);
  r_idle : forall l, In l st -> occupied (lane_at m l) = false;
  r_lens : forall l, In l ls -> len_at m l = packed (rem_of (lane_at m l)) l /\ rem_of (lane_at m l) < max_blocks F;
  r_high : f_pack F = PackHighField -> forall l, (l < nl)%nat -> len_at m l mod 2 ^ sh = N.of_nat l;
  r_jobs : Forall2 (lane_holds m) ls held
}.

(* between calls at least one poppable lane is free *)
Definition Rel (held : list job) (ls st : list nat) (m : mgr) : Prop :=
  RelW held ls st m /\ (length (reserved F) < length st)%nat.

(* ---- consequences of the permutation ---------------------------------------------------- *)

Lemma perm_facts st ls : Permutation (st ++ ls) (seq 0 nl) ->
  NoDup (st ++ ls) /\ (length st + length ls = nl)%nat /\
  (forall l, In l st \/ In l ls <-> (l < nl)%nat).
Proof.
  intros P. split; [|split].
  - eapply Permutation_NoDup; [symmetry; exact P|apply seq_NoDup].
  - rewrite <- app_length. rewrite (Permutation_length P). apply seq_length.
  - intros l. rewrite <- in_app_iff. split; intros H.
    + apply (Permutation_in _ P) in H. apply in_seq in H. lia.
    + apply (Permutation_in _ (Permutation_sym P)). apply in_seq. lia.
Qed.

Lemma lane_lt_pow l : (l < nl)%nat -> N.of_nat l < 2 ^ f_idx_bits F /\ N.of_nat l < 2 ^ f_clear_bits F /\
  N.of_nat l < 2 ^ sh /\ N.of_nat l < 2 ^ f_pop_bits F /\ N.of_nat l < 2 ^ ent.
Proof.
  intros H. pose proof (wf_nidx F HW). pose proof (wf_npop F HW).
  assert (2 ^ f_idx_bits F <= 2 ^ f_clear_bits F) by (apply N.pow_le_mono_r; [discriminate|apply (wf_idx_clear F HW)]).
  assert (2 ^ f_clear_bits F <= 2 ^ sh) by (apply N.pow_le_mono_r; [discriminate|apply (wf_clear_shift F HW)]).
  assert (2 ^ f_pop_bits F <= 2 ^ ent) by (apply N.pow_le_mono_r; [discriminate|apply (wf_pop F HW)]).
  lia.
Qed.

Lemma reserved_split : stack0 F = firstn (f_submit_scan F) (stack0 F) ++ reserved F.
Proof. unfold reserved. symmetry. apply firstn_skipn. Qed.

Lemma reserved_length : (length (reserved F) + f_submit_scan F = nl)%nat.
Proof.
  unfold reserved. rewrite skipn_length, (wf_s0_len F HW). pose proof (wf_scann F HW). lia.
Qed.

Lemma s0_perm : Permutation (stack0 F) (seq 0 nl).
Proof.
  apply NoDup_Permutation_bis.
  - apply (wf_s0_nodup F HW).
  - rewrite seq_length, (wf_s0_len F HW). lia.
  - intros x Hx. apply in_seq. pose proof (wf_s0_lt F HW x Hx). lia.
Qed.

(* a lane below scan is not reserved; a lane that is neither free-and-poppable nor reserved... *)
Lemma reserved_iff l : (l < nl)%nat -> (In l (reserved F) <-> (f_submit_scan F <= l)%nat).
Proof.
  intros Hl. split; [apply (wf_res_ge F HW)|]. intros Hge.
  pose proof (wf_s0_all F HW l Hl) as Hin. rewrite reserved_split in Hin.
  apply in_app_or in Hin. destruct Hin as [Hin | Hin]; [|assumption].
  pose proof (wf_p0_lt F HW l Hin). lia.
Qed.

Lemma nth_iota i0 k l : (l < k)%nat -> nth l (iota_N i0 k) 0 = i0 + N.of_nat l.
Proof.
  revert i0 l. induction k as [|k IH]; intros i0 l H; [lia|].
  destruct l as [|l]; cbn [iota_N nth]; [lia|]. rewrite IH by lia. lia.
Qed.

Lemma nth_repeat_idle k l : nth l (repeat idle_lane k) idle_lane = idle_lane.
Proof. revert l. induction k as [|k IH]; intros [|l]; cbn; auto. Qed.

(* ---- lm_init ----------------------------------------------------------------------------- *)

Lemma init_rel : Rel [] [] (stack0 F) (lm_init F).
Proof.
  pose proof (wf_s0_len F HW) as Hlen.
  assert (Hent : forall x, In x (stack0 F) -> N.of_nat x < 2 ^ ent).
  { intros x Hx. apply lane_lt_pow. apply (wf_s0_lt F HW). assumption. }
  split.
  - constructor; cbn [lm_init m_lanes m_lens m_unused m_inuse].
    + apply repeat_length.
    + apply (wf_lens_len F HW).
    + pose proof (wf_init F HW) as Hi. destruct (has_sentinel F); destruct Hi as [Hi _]; rewrite Hi.
      * rewrite enc_app. apply stack_low_enc. assumption.
      * replace (enc ent (stack0 F)) with (enc ent (stack0 F) + 2 ^ (ent * N.of_nat (length (stack0 F))) * 0) by lia.
        apply stack_low_enc. assumption.
    + intros Hs. pose proof (wf_init F HW) as Hi. rewrite Hs in Hi. destruct Hi as [Hi _]. rewrite Hi.
      rewrite enc_app. destruct (stack_low_enc ent (stack0 F) (enc ent [sent F]) Hent) as [_ Ht]. rewrite Ht.
      cbn [enc]. unfold sent. rewrite N2Nat.id. lia.
    + rewrite app_nil_r. apply s0_perm.
    + exists (firstn (f_submit_scan F) (stack0 F)). apply reserved_split.
    + reflexivity.
    + intros l _. unfold lane_at, lm_init. cbn [m_lanes]. rewrite nth_repeat_idle. reflexivity.
    + intros l [].
    + intros Hp l Hl. pose proof (wf_pack F HW) as Hk. rewrite Hp in Hk. destruct Hk as [_ [Hk _]].
      unfold len_at, lm_init. cbn [m_lens]. rewrite Hk, nth_iota by assumption.
      rewrite N.add_0_l. apply N.mod_small. apply lane_lt_pow. assumption.
    + constructor.
  - pose proof reserved_length. pose proof (wf_scan1 F HW). lia.
Qed.

(* ---- len_is_0: retiring a lane whose job has no blocks left ---------------------------- *)

Lemma nodup_remove_nth (l : list nat) p i : NoDup l -> nth_error l p = Some i -> ~ In i (remove_nth p l).
Proof.
  intros Hnd Hn Hin. pose proof (lm_remove_nth_perm l p i Hn) as P.
  pose proof (Permutation_NoDup P Hnd) as Hnd2. inversion Hnd2. contradiction.
Qed.

Lemma stack_word_lt st w : (forall x, In x st -> N.of_nat x < 2 ^ ent) ->
  stack_low ent st w -> stack_top ent st w = N.ones ent -> w < 2 ^ (ent * N.of_nat (S (length st))).
Proof.
  intros Hx Hl Ht. apply stack_value in Hl. rewrite Ht in Hl. rewrite Hl.
  pose proof (enc_lt ent st Hx) as He.
  rewrite Nat2N.inj_succ, N.mul_succ_r, N.pow_add_r.
  rewrite N.ones_equiv. assert (0 < 2 ^ ent) by apply pow2_pos.
  set (P := 2 ^ (ent * N.of_nat (length st))) in *. set (E := 2 ^ ent) in *.
  assert (P * N.pred E + P = P * E) by (rewrite <- (N.succ_pred E) at 2 by lia; lia). lia.
Qed.

Lemma retire_spec held ls st m i p jr :
  RelW held ls st m -> nth_error ls p = Some i -> nth_error held p = Some jr ->
  rem_of (lane_at m i) = 0 ->
  exists m', retire F m i = (m', RJob (j_ctx jr) (jfinish jr)) /\
             RelW (remove_nth p held) (remove_nth p ls) (i :: st) m'.
Proof.
  intros R Hp Hh Hrem.
  destruct (perm_facts st ls (r_perm _ _ _ _ R)) as [Hnd [Hcount Hall]].
  assert (Hin : In i ls) by (eapply nth_error_In; eassumption).
  assert (Hi : (i < nl)%nat) by (apply Hall; right; assumption).
  destruct (lm_Forall2_nth_error _ _ _ _ _ (r_jobs _ _ _ _ R) Hp) as [jr' [Hh' [Hjob Hfin]]].
  rewrite Hh in Hh'. inversion Hh'. subst jr'. clear Hh'.
  assert (Hdata : l_data (lane_at m i) = []).
  { unfold rem_of in Hrem. destruct (l_data (lane_at m i)); [reflexivity|cbn in Hrem; lia]. }
  assert (Hchain : l_chain (lane_at m i) = jfinish jr).
  { rewrite <- Hfin. unfold lfinal. rewrite Hdata. reflexivity. }
  unfold retire. fold (lane_at m i). rewrite Hjob. eexists. split; [rewrite Hchain; reflexivity|].
  assert (Hls1 : (1 <= length ls)%nat) by (destruct ls; [destruct p; discriminate|cbn; lia]).
  assert (Hst_lt : forall x, In x st -> N.of_nat x < 2 ^ ent).
  { intros x Hx. apply lane_lt_pow. apply Hall. left. assumption. }
  assert (Hsb : ent * N.of_nat nl <= f_stack_bits F /\ (has_sentinel F = true -> ent * (N.of_nat nl + 1) <= f_stack_bits F)).
  { pose proof (wf_init F HW) as Hi0. destruct (has_sentinel F); destruct Hi0 as [_ Hi0].
    - split; [lia|intros _; lia].
    - split; [lia|discriminate]. }
  destruct (lm_NoDup_app _ _ Hnd) as [Hndst [Hndls Hdisj]].
  assert (Hni : ~ In i st) by (intros Hx; exact (Hdisj i Hx Hin)).
  constructor; cbn [m_lanes m_lens m_unused m_inuse].
  - rewrite lm_length_upd. apply (r_len_lanes _ _ _ _ R).
  - destruct (f_retire_idle F); [rewrite lm_length_upd|]; apply (r_len_lens _ _ _ _ R).
  - apply push_low; [apply (r_low _ _ _ _ R)|apply lane_lt_pow; assumption|].
    destruct Hsb as [Hsb _]. etransitivity; [|exact Hsb]. apply N.mul_le_mono_l. lia.
  - intros Hs. rewrite push_top.
    + apply (r_top _ _ _ _ R Hs).
    + apply lane_lt_pow. assumption.
    + apply stack_word_lt; [assumption|apply (r_low _ _ _ _ R)|apply (r_top _ _ _ _ R Hs)].
    + destruct Hsb as [_ Hsb]. etransitivity; [|exact (Hsb Hs)]. apply N.mul_le_mono_l. lia.
  - etransitivity; [|apply (r_perm _ _ _ _ R)].
    cbn [app]. etransitivity; [apply Permutation_middle|].
    apply Permutation_app_head. symmetry. apply lm_remove_nth_perm. assumption.
  - destruct (r_res _ _ _ _ R) as [q Hq]. exists (i :: q). rewrite Hq. reflexivity.
  - rewrite (r_inuse _ _ _ _ R). rewrite <- (lm_remove_nth_length ls p i Hp).
    unfold w32. rewrite wrap_mod. pose proof (wf_n32 F HW).
    replace (N.of_nat (S (length (remove_nth p ls))) + (2 ^ 32 - 1))
      with (N.of_nat (length (remove_nth p ls)) + 1 * 2 ^ 32) by lia.
    rewrite N.mod_add by (apply pow2_nz). apply N.mod_small.
    pose proof (lm_remove_nth_length ls p i Hp). lia.
  - intros l [<- | Hl]; unfold lane_at; cbn [m_lanes].
    + rewrite lm_nth_upd_eq by (rewrite (r_len_lanes _ _ _ _ R); assumption). reflexivity.
    + rewrite lm_nth_upd_neq by (intros ->; contradiction). apply (r_idle _ _ _ _ R). assumption.
  - intros l Hl. assert (Hli : l <> i).
    { intros ->. exact (nodup_remove_nth ls p i Hndls Hp Hl). }
    apply lm_In_remove_nth in Hl.
    unfold len_at, lane_at. cbn [m_lens m_lanes].
    rewrite lm_nth_upd_neq by congruence.
    replace (nth l (if f_retire_idle F then upd i (f_idle_len F) (m_lens m) else m_lens m) 0) with (nth l (m_lens m) 0)
      by (destruct (f_retire_idle F); [rewrite lm_nth_upd_neq by congruence|]; reflexivity).
    apply (r_lens _ _ _ _ R). assumption.
  - intros Hpk l Hl. pose proof (wf_pack F HW) as Hk. rewrite Hpk in Hk. destruct Hk as [_ [_ [_ Hri]]].
    unfold len_at. cbn [m_lens]. rewrite Hri. apply (r_high _ _ _ _ R Hpk). assumption.
  - eapply lm_Forall2_impl_In; [|apply lm_Forall2_remove_nth; apply (r_jobs _ _ _ _ R)].
    intros l j Hl [Hj Hf]. assert (Hli : l <> i).
    { intros ->. exact (nodup_remove_nth ls p i Hndls Hp Hl). }
    unfold lane_holds, lane_at in *. cbn [m_lanes]. rewrite lm_nth_upd_neq by congruence. split; assumption.
Qed.

(* ---- the min search --------------------------------------------------------------------- *)

Lemma min_pick (ws : list N) (real : nat -> Prop) (r : nat -> N) :
  (forall l, {real l} + {~ real l}) ->
  (exists l, (l < length ws)%nat /\ real l) ->
  (forall l, (l < length ws)%nat -> real l -> nth l ws 0 = packed (r l) l /\ N.of_nat l < 2 ^ sh) ->
  (forall l l', (l < length ws)%nat -> (l' < length ws)%nat -> real l -> ~ real l' -> nth l ws 0 < nth l' ws 0) ->
  exists i, (i < length ws)%nat /\ real i /\ min_word ws = packed (r i) i /\
            forall l, (l < length ws)%nat -> real l -> r i <= r l.
Proof.
  intros Hdec [l0 [Hl0 Hr0]] Hreal Hidle.
  assert (Hne : ws <> []) by (destruct ws; [cbn in Hl0; lia|discriminate]).
  destruct (In_nth _ _ 0 (min_word_in ws Hne)) as [i0 [Hi0 Hn0]].
  destruct (Hdec i0) as [Hri | Hni].
  - exists i0. split; [assumption|]. split; [assumption|].
    destruct (Hreal i0 Hi0 Hri) as [Hw Hlt]. split; [congruence|].
    intros l Hl Hrl. destruct (Hreal l Hl Hrl) as [Hwl Hltl].
    assert (Hle : min_word ws <= nth l ws 0) by (apply min_word_le, nth_In; assumption).
    rewrite <- Hn0, Hw, Hwl in Hle. unfold packed in Hle. exact (packed_le _ _ _ _ _ Hlt Hltl Hle).
  - exfalso. pose proof (Hidle l0 i0 Hl0 Hi0 Hr0 Hni) as Hlt.
    assert (Hle : min_word ws <= nth l0 ws 0) by (apply min_word_le, nth_In; assumption).
    rewrite <- Hn0 in Hle. lia.
Qed.

(* ---- the kernels ------------------------------------------------------------------------- *)

Lemma adv_job k l : l_job (adv compress k l) = l_job l.
Proof. reflexivity. Qed.
Lemma adv_occupied k l : occupied (adv compress k l) = occupied l.
Proof. reflexivity. Qed.
Lemma adv_final k l : occupied l = true -> lfinal (adv compress k l) = lfinal l.
Proof.
  intros H. unfold lfinal, adv. cbn [l_data l_chain]. rewrite H.
  rewrite <- fold_left_app, firstn_skipn. reflexivity.
Qed.
Lemma adv_rem k l : rem_of (adv compress k l) = rem_of l - N.of_nat k.
Proof. unfold rem_of, adv. cbn [l_data]. rewrite skipn_length. lia. Qed.

Lemma held_occupied m l j : lane_holds m l j -> occupied (lane_at m l) = true.
Proof. intros [H _]. unfold occupied. rewrite H. reflexivity. Qed.

Lemma rel_occupied held ls st m l : RelW held ls st m -> In l ls -> occupied (lane_at m l) = true.
Proof.
  intros R Hl. destruct (In_nth_error _ _ Hl) as [p Hp].
  destruct (lm_Forall2_nth_error _ _ _ _ _ (r_jobs _ _ _ _ R) Hp) as [j [_ Hj]].
  eapply held_occupied. eassumption.
Qed.

Lemma packed_lt_W r l : r < max_blocks F -> (l < nl)%nat -> packed r l < 2 ^ f_W F.
Proof.
  intros Hr Hl. unfold packed. pose proof (wf_pack F HW) as Hk. pose proof (lane_lt_pow l Hl) as [_ [_ [Hls _]]].
  assert (0 < 2 ^ sh) by apply pow2_pos.
  destruct (f_pack F).
  - destruct Hk as [Hk Hw]. assert (r * 2 ^ sh <= (max_blocks F - 1) * 2 ^ sh) by (apply N.mul_le_mono_r; lia). lia.
  - destruct Hk as [Hk _]. rewrite Hk, N.pow_add_r. pose proof (wf_mb32 F HW).
    assert ((r + 1) * 2 ^ sh <= 2 ^ 32 * 2 ^ sh) by (apply N.mul_le_mono_r; lia). lia.
Qed.

(* the min lane run alone to its end (sha1_opt_x1 / sha1_ni_x1) *)
Lemma single_rel held ls st m i :
  RelW held ls st m -> In i ls -> f_pack F = PackShiftOr ->
  let m3 := {| m_lens := upd i (N.of_nat i) (m_lens m); m_unused := m_unused m; m_inuse := m_inuse m;
               m_lanes := upd i (adv compress (length (l_data (lane_at m i))) (lane_at m i)) (m_lanes m) |} in
  RelW held ls st m3 /\ rem_of (lane_at m3 i) = 0.
Proof.
  intros R Hin Hpk m3.
  destruct (perm_facts st ls (r_perm _ _ _ _ R)) as [Hnd [Hcount Hall]].
  assert (Hi : (i < nl)%nat) by (apply Hall; right; assumption).
  destruct (lm_NoDup_app _ _ Hnd) as [_ [_ Hdisj]].
  assert (Hocc : occupied (lane_at m i) = true) by (eapply rel_occupied; eassumption).
  assert (Hat : lane_at m3 i = adv compress (length (l_data (lane_at m i))) (lane_at m i)).
  { unfold lane_at, m3. cbn [m_lanes]. apply lm_nth_upd_eq. rewrite (r_len_lanes _ _ _ _ R). assumption. }
  assert (Hoth : forall l, l <> i -> lane_at m3 l = lane_at m l /\ len_at m3 l = len_at m l).
  { intros l Hl. unfold lane_at, len_at, m3. cbn [m_lanes m_lens]. rewrite !lm_nth_upd_neq by congruence. split; reflexivity. }
  assert (Hrem : rem_of (lane_at m3 i) = 0).
  { rewrite Hat, adv_rem. unfold rem_of. lia. }
  split; [|assumption].
  constructor; try (apply R); cbn [m_lanes m_lens m_unused m_inuse].
  - unfold m3. cbn [m_lanes]. rewrite lm_length_upd. apply R.
  - unfold m3. cbn [m_lens]. rewrite lm_length_upd. apply R.
  - intros l Hl. assert (l <> i) by (intros ->; exact (Hdisj i Hl Hin)).
    destruct (Hoth l H) as [-> _]. apply (r_idle _ _ _ _ R). assumption.
  - intros l Hl. destruct (Nat.eq_dec l i) as [-> | Hne].
    + rewrite Hrem. split.
      * unfold len_at, m3. cbn [m_lens]. rewrite lm_nth_upd_eq by (rewrite (r_len_lens _ _ _ _ R); assumption).
        unfold packed. lia.
      * pose proof (wf_mb1 F HW). lia.
    + destruct (Hoth l Hne) as [-> ->]. apply (r_lens _ _ _ _ R). assumption.
  - intros Hp. congruence.
  - eapply lm_Forall2_impl_In; [|apply (r_jobs _ _ _ _ R)].
    intros l j Hl [Hj Hf]. unfold lane_holds. destruct (Nat.eq_dec l i) as [-> | Hne].
    + rewrite Hat, adv_job, adv_final by assumption. split; assumption.
    + destruct (Hoth l Hne) as [-> _]. split; assumption.
Qed.

Lemma sub_word_low d r w : d = r * 2 ^ sh -> d <= 2 ^ f_W F -> sh <= f_W F ->
  sub_word F d w mod 2 ^ sh = w mod 2 ^ sh.
Proof.
  intros -> Hd Hs. unfold sub_word. rewrite wrap_mod.
  replace (f_W F) with (sh + (f_W F - sh)) by lia. rewrite N.pow_add_r.
  set (P := 2 ^ sh). set (Q := 2 ^ (f_W F - sh)).
  assert (HP : P <> 0) by apply pow2_nz. assert (HQ : Q <> 0) by apply pow2_nz.
  rewrite N.mod_mul_r by assumption.
  rewrite (N.mul_comm P (_ mod Q)), N.mod_add by assumption. rewrite N.mod_mod by assumption.
  assert (Hd' : r * P <= P * Q).
  { unfold P, Q. rewrite <- N.pow_add_r. replace (sh + (f_W F - sh)) with (f_W F) by lia. exact Hd. }
  assert (Hrq : r <= Q).
  { destruct (N.le_gt_cases r Q) as [H|H]; [assumption|]. exfalso.
    assert (P * (Q + 1) <= P * r) by (apply N.mul_le_mono_l; lia). assert (0 < P) by (apply pow2_pos). lia. }
  replace (w + P * Q - r * P) with (w + (Q - r) * P) by (rewrite N.mul_sub_distr_r; lia).
  apply N.mod_add. assumption.
Qed.

(* all scanned lanes advanced by the minimum (the multi-buffer kernels) *)
Lemma mb_rel held ls st m sc i :
  RelW held ls st m -> (sc <= nl)%nat -> (forall l, In l ls -> (l < sc)%nat) -> In i ls ->
  (forall l, In l ls -> rem_of (lane_at m i) <= rem_of (lane_at m l)) ->
  let k := length (l_data (lane_at m i)) in
  let m3 := {| m_lens := map_upto (sub_word F (rem_of (lane_at m i) * 2 ^ sh)) sc (m_lens m);
               m_unused := m_unused m; m_inuse := m_inuse m;
               m_lanes := map_upto (adv compress k) sc (m_lanes m) |} in
  RelW held ls st m3 /\ rem_of (lane_at m3 i) = 0.
Proof.
  intros R Hsc Hlt Hin Hmin k m3.
  destruct (perm_facts st ls (r_perm _ _ _ _ R)) as [Hnd [Hcount Hall]].
  assert (Hlane : forall l, (l < nl)%nat ->
            lane_at m3 l = if (l <? sc)%nat then adv compress k (lane_at m l) else lane_at m l).
  { intros l Hl. unfold lane_at, m3. cbn [m_lanes]. apply lm_nth_map_upto. rewrite (r_len_lanes _ _ _ _ R). assumption. }
  assert (Hlen : forall l, (l < nl)%nat ->
            len_at m3 l = if (l <? sc)%nat then sub_word F (rem_of (lane_at m i) * 2 ^ sh) (len_at m l) else len_at m l).
  { intros l Hl. unfold len_at, m3. cbn [m_lens]. apply lm_nth_map_upto. rewrite (r_len_lens _ _ _ _ R). assumption. }
  assert (Hreal : forall l, In l ls -> lane_at m3 l = adv compress k (lane_at m l) /\
             len_at m3 l = packed (rem_of (lane_at m l) - rem_of (lane_at m i)) l).
  { intros l Hl. assert (Hln : (l < nl)%nat) by (apply Hall; right; assumption).
    pose proof (Hlt l Hl) as Hls. apply Nat.ltb_lt in Hls.
    rewrite Hlane, Hlen, Hls by assumption. split; [reflexivity|].
    destruct (r_lens _ _ _ _ R l Hl) as [Hw Hb]. rewrite Hw.
    pose proof (Hmin l Hl) as Hm.
    assert (0 < 2 ^ sh) by apply pow2_pos.
    assert (rem_of (lane_at m i) * 2 ^ sh <= rem_of (lane_at m l) * 2 ^ sh) by (apply N.mul_le_mono_r; assumption).
    rewrite sub_word_exact; [|unfold packed; lia|apply packed_lt_W; assumption].
    unfold packed. rewrite N.mul_sub_distr_r. lia. }
  assert (Hrem : rem_of (lane_at m3 i) = 0).
  { destruct (Hreal i Hin) as [-> _]. rewrite adv_rem. unfold k, rem_of. lia. }
  split; [|assumption].
  constructor; try (apply R); cbn [m_lanes m_lens m_unused m_inuse].
  - unfold m3. cbn [m_lanes]. rewrite lm_length_map_upto. apply R.
  - unfold m3. cbn [m_lens]. rewrite lm_length_map_upto. apply R.
  - intros l Hl. assert (Hln : (l < nl)%nat) by (apply Hall; left; assumption).
    rewrite Hlane by assumption. pose proof (r_idle _ _ _ _ R l Hl). destruct (l <? sc)%nat; [rewrite adv_occupied|]; assumption.
  - intros l Hl. destruct (Hreal l Hl) as [Ha Hw]. rewrite Ha, Hw, adv_rem.
    destruct (r_lens _ _ _ _ R l Hl) as [_ Hb]. pose proof (Hmin l Hl).
    replace (N.of_nat k) with (rem_of (lane_at m i)) by reflexivity. split; [reflexivity|lia].
  - intros Hp l Hl. rewrite Hlen by assumption. destruct (l <? sc)%nat; [|apply (r_high _ _ _ _ R Hp); assumption].
    rewrite (sub_word_low _ (rem_of (lane_at m i))); [apply (r_high _ _ _ _ R Hp); assumption|reflexivity| |].
    + pose proof (wf_pack F HW) as Hk. rewrite Hp in Hk. destruct Hk as [Hk _]. rewrite Hk, N.pow_add_r.
      destruct (r_lens _ _ _ _ R i Hin) as [_ Hb]. pose proof (wf_mb32 F HW).
      rewrite (N.mul_comm (2 ^ sh)). apply N.mul_le_mono_r. lia.
    + pose proof (wf_pack F HW) as Hk. rewrite Hp in Hk. destruct Hk as [Hk _]. lia.
  - eapply lm_Forall2_impl_In; [|apply (r_jobs _ _ _ _ R)].
    intros l j Hl [Hj Hf]. unfold lane_holds. destruct (Hreal l Hl) as [-> _].
    rewrite adv_job, adv_final; [split; assumption|]. unfold occupied. rewrite Hj. reflexivity.
Qed.

(* ---- start_loop .. len_is_0 ------------------------------------------------------------- *)

Lemma finish_spec held ls st m sc single :
  RelW held ls st m -> ls <> [] -> (sc <= nl)%nat ->
  (forall l, In l ls -> (l < sc)%nat) ->
  (* scanned lanes without a job look idle: longer than every real word, pointing into a live lane's data *)
  (forall l, (l < sc)%nat -> ~ In l ls ->
      (forall l', In l' ls -> len_at m l' < len_at m l) /\
      (exists s, In s ls /\ l_data (lane_at m l) = l_data (lane_at m s))) ->
  (single = true -> f_pack F = PackShiftOr) ->
  exists p i jr m', nth_error ls p = Some i /\ nth_error held p = Some jr /\
     finish_min compress F m sc single = (m', RJob (j_ctx jr) (jfinish jr)) /\
     RelW (remove_nth p held) (remove_nth p ls) (i :: st) m' /\
     (forall l, In l ls -> rem_of (lane_at m i) <= rem_of (lane_at m l)).
Proof.
  intros R Hne Hsc Hlt Hidle Hsingle.
  destruct (perm_facts st ls (r_perm _ _ _ _ R)) as [Hnd [Hcount Hall]].
  set (ws := firstn sc (m_lens m)).
  assert (Hwsl : length ws = sc) by (unfold ws; rewrite firstn_length, (r_len_lens _ _ _ _ R); lia).
  assert (Hws : forall l, (l < sc)%nat -> nth l ws 0 = len_at m l).
  { intros l Hl. unfold ws, len_at. apply lm_nth_firstn. assumption. }
  destruct (min_pick ws (fun l => In l ls) (fun l => rem_of (lane_at m l))) as [i [Hi [Hin [Hmw Hmin]]]].
  - intros l. apply in_dec. apply Nat.eq_dec.
  - destruct ls as [|l0 ls']; [congruence|]. exists l0. split; [|left; reflexivity].
    rewrite Hwsl. apply Hlt. left. reflexivity.
  - intros l Hl Hr. rewrite Hwsl in Hl. rewrite Hws by assumption. split; [apply (r_lens _ _ _ _ R); assumption|].
    apply lane_lt_pow. apply Hall. right. assumption.
  - intros l l' Hl Hl' Hr Hnr. rewrite Hwsl in Hl, Hl'. rewrite !Hws by assumption.
    apply (Hidle l' Hl' Hnr). assumption.
  - rewrite Hwsl in Hi.
    assert (Hin' : (i < nl)%nat) by (apply Hall; right; assumption).
    destruct (In_nth_error _ _ Hin) as [p Hp].
    destruct (lm_Forall2_nth_error _ _ _ _ _ (r_jobs _ _ _ _ R) Hp) as [jr [Hh Hjr]].
    assert (Hmin' : forall l, In l ls -> rem_of (lane_at m i) <= rem_of (lane_at m l)).
    { intros l Hl. apply Hmin; [rewrite Hwsl; apply Hlt|]; assumption. }
    exists p, i, jr.
    unfold finish_min. fold ws. rewrite Hmw. unfold packed.
    destruct (lane_lt_pow i Hin') as [Hli [Hlc [Hls _]]].
    rewrite unpack_idx by (try assumption; pose proof (wf_idx_clear F HW); pose proof (wf_clear_shift F HW); lia).
    rewrite unpack_len by (try assumption; apply (wf_clear_shift F HW)).
    rewrite Nat2N.id. fold (lane_at m i).
    destruct (rem_of (lane_at m i) * 2 ^ sh =? 0) eqn:Hz.
    + apply N.eqb_eq in Hz. apply N.mul_eq_0 in Hz. destruct Hz as [Hz | Hz]; [|exfalso; exact (pow2_nz _ Hz)].
      destruct (retire_spec held ls st m i p jr R Hp Hh Hz) as [m' [Hret HR]].
      exists m'. split; [assumption|]. split; [assumption|]. split; [assumption|]. split; assumption.
    + rewrite unpack_blocks.
      replace (N.to_nat (rem_of (lane_at m i))) with (length (l_data (lane_at m i))) by (unfold rem_of; rewrite Nat2N.id; reflexivity).
      destruct single.
      * rewrite Nat.leb_refl.
        destruct (single_rel held ls st m i R Hin (Hsingle eq_refl)) as [R3 Hz3].
        destruct (retire_spec _ _ _ _ i p jr R3 Hp Hh Hz3) as [m' [Hret HR]].
        exists m'. split; [assumption|]. split; [assumption|]. split; [assumption|]. split; assumption.
      * assert (Hall_ok : forallb (fun l => (length (l_data (lane_at m i)) <=? length (l_data l))%nat) (firstn sc (m_lanes m)) = true).
        { apply forallb_forall. intros x Hx.
          destruct (lm_In_firstn_nth _ _ _ idle_lane Hx) as [l [Hl1 [Hl2 Hl3]]]. subst x. fold (lane_at m l).
          apply Nat.leb_le. destruct (in_dec Nat.eq_dec l ls) as [Hl | Hl].
          - pose proof (Hmin' l Hl) as Hm. unfold rem_of in Hm. lia.
          - destruct (Hidle l Hl1 Hl) as [_ [s [Hs Hd]]]. rewrite Hd.
            pose proof (Hmin' s Hs) as Hm. unfold rem_of in Hm. lia. }
        rewrite Hall_ok.
        destruct (mb_rel held ls st m sc i R Hsc Hlt Hin Hmin') as [R3 Hz3].
        destruct (retire_spec _ _ _ _ i p jr R3 Hp Hh Hz3) as [m' [Hret HR]].
        exists m'. split; [assumption|]. split; [assumption|]. split; [assumption|]. split; assumption.
Qed.

(* ---- *_mb_mgr_submit_* --------------------------------------------------------------------- *)

Lemma w32_small x : x < 2 ^ 32 -> w32 x = x.
Proof. intros H. unfold w32. rewrite wrap_mod. apply N.mod_small. assumption. Qed.

Lemma pack_submit_ok old nb l :
  nb < max_blocks F -> (l < nl)%nat -> (f_pack F = PackHighField -> old mod 2 ^ sh = N.of_nat l) ->
  pack_submit F old nb (N.of_nat l) = packed nb l.
Proof.
  intros Hnb Hl Hold. unfold pack_submit, packed. pose proof (wf_mb32 F HW).
  rewrite w32_small by lia. destruct (lane_lt_pow l Hl) as [_ [_ [Hls _]]].
  destruct (f_pack F) eqn:Hp.
  - rewrite lor_shiftl_add by assumption. rewrite wrap_mod. apply N.mod_small.
    apply packed_lt_W; assumption.
  - rewrite N.shiftl_mul_pow2, wrap_mod, Hold by reflexivity. reflexivity.
Qed.

Lemma lit_value lit : f_run F = RunStackEq lit ->
  has_sentinel F = true /\ lit = enc ent (reserved F) + 2 ^ (ent * N.of_nat (length (reserved F))) * N.ones ent /\ 0 < lit.
Proof.
  intros Hr. pose proof (wf_run F HW) as H. rewrite Hr in H. destruct H as [Hs Hl].
  split; [assumption|]. rewrite enc_app in Hl. cbn [enc] in Hl. unfold sent in Hl. rewrite N2Nat.id in Hl.
  rewrite N.mul_0_r, N.add_0_r in Hl. split; [assumption|].
  assert (0 < 2 ^ (ent * N.of_nat (length (reserved F)))) by apply pow2_pos.
  assert (1 <= N.ones ent).
  { rewrite N.ones_equiv. pose proof (wf_ent1 F HW).
    assert (2 ^ 1 <= 2 ^ ent) by (apply N.pow_le_mono_r; [discriminate|assumption]). cbn in *. lia. }
  nia.
Qed.

(* the run test after a pop: true exactly when nothing poppable is left *)
Lemma run_test_spec held ls st m :
  RelW held ls st m -> run_test F (m_unused m) (m_inuse m) = true <-> length st = length (reserved F).
Proof.
  intros R. destruct (perm_facts st ls (r_perm _ _ _ _ R)) as [Hnd [Hcount Hall]].
  destruct (r_res _ _ _ _ R) as [q Hq].
  unfold run_test. destruct (f_run F) as [lit | k] eqn:Hr.
  - destruct (lit_value lit Hr) as [Hs [Hlit Hpos]].
    assert (Hval : m_unused m = enc ent q + 2 ^ (ent * N.of_nat (length q)) * lit).
    { pose proof (r_low _ _ _ _ R) as Hl. apply stack_value in Hl. rewrite (r_top _ _ _ _ R Hs) in Hl.
      rewrite Hl, Hq, enc_app, app_length, Nat2N.inj_add, N.mul_add_distr_l, N.pow_add_r, Hlit. lia. }
    rewrite N.eqb_eq. split; intros H.
    + rewrite Hval in H. apply enc_prefix_nil in H; [|apply (wf_ent1 F HW)|assumption]. subst q st. reflexivity.
    + assert (q = []) by (destruct q; [reflexivity|subst st; rewrite app_length in H; cbn in H; lia]).
      subst q. rewrite Hval. cbn [enc length]. change (N.of_nat 0) with 0. rewrite N.mul_0_r, N.pow_0_r. lia.
  - pose proof (wf_run F HW) as H. rewrite Hr in H. destruct H as [Hk Hsc].
    pose proof reserved_length as Hrl. rewrite N.eqb_eq, (r_inuse _ _ _ _ R), Hk. lia.
Qed.

Lemma submit_spec held ls st m j :
  Rel held ls st m -> job_ok j -> f_immediate F = false ->
  exists x st' m' r, st = x :: st' /\ lm_submit compress F m j = (m', r) /\
    ((r = RNull /\ Rel (held ++ [j]) (ls ++ [x]) st' m') \/
     (exists p i jr, nth_error (held ++ [j]) p = Some jr /\ r = RJob (j_ctx jr) (jfinish jr) /\
                     Rel (remove_nth p (held ++ [j])) (remove_nth p (ls ++ [x])) (i :: st') m')).
Proof.
  intros [R Hfree] Hj Himm.
  destruct (perm_facts st ls (r_perm _ _ _ _ R)) as [Hnd [Hcount Hall]].
  destruct (lm_NoDup_app _ _ Hnd) as [Hndst [Hndls Hdisj]].
  destruct st as [|x st']; [cbn in Hfree; lia|].
  assert (Hx : (x < nl)%nat) by (apply Hall; left; left; reflexivity).
  destruct (lane_lt_pow x Hx) as [_ [_ [Hxs [Hxp Hxe]]]].
  exists x, st'.
  unfold lm_submit. rewrite Himm.
  rewrite (pop_head ent (f_pop_bits F) x st' (m_unused m) (r_low _ _ _ _ R) (wf_pop F HW) Hxp).
  destruct (pop_tail ent x st' (m_unused m) (r_low _ _ _ _ R) Hxe) as [Hlow' Htop'].
  set (m1 := {| m_lens := upd x (pack_submit F (nth x (m_lens m) 0) (N.of_nat (length (j_blocks j))) (N.of_nat x)) (m_lens m);
                m_unused := N.shiftr (m_unused m) ent; m_inuse := w32 (m_inuse m + 1);
                m_lanes := upd x {| l_job := Some (j_ctx j); l_data := j_blocks j; l_cur := 0; l_chain := j_chain j |} (m_lanes m) |}).
  assert (Hxst : ~ In x st') by (inversion Hndst; assumption).
  assert (Hxls : ~ In x ls) by (apply Hdisj; left; reflexivity).
  assert (Hat : lane_at m1 x = {| l_job := Some (j_ctx j); l_data := j_blocks j; l_cur := 0; l_chain := j_chain j |}).
  { unfold lane_at, m1. cbn [m_lanes]. apply lm_nth_upd_eq. rewrite (r_len_lanes _ _ _ _ R). assumption. }
  assert (Hlx : len_at m1 x = packed (N.of_nat (length (j_blocks j))) x).
  { unfold len_at, m1. cbn [m_lens]. rewrite lm_nth_upd_eq by (rewrite (r_len_lens _ _ _ _ R); assumption).
    apply pack_submit_ok; [exact Hj|assumption|]. intros Hp. apply (r_high _ _ _ _ R Hp). assumption. }
  assert (Hoth : forall l, l <> x -> lane_at m1 l = lane_at m l /\ len_at m1 l = len_at m l).
  { intros l Hl. unfold lane_at, len_at, m1. cbn [m_lanes m_lens]. rewrite !lm_nth_upd_neq by congruence. split; reflexivity. }
  assert (R1 : RelW (held ++ [j]) (ls ++ [x]) st' m1).
  { constructor; cbn [m_lanes m_lens m_unused m_inuse].
    - unfold m1. cbn [m_lanes]. rewrite lm_length_upd. apply R.
    - unfold m1. cbn [m_lens]. rewrite lm_length_upd. apply R.
    - exact Hlow'.
    - intros Hs. unfold m1. cbn [m_unused]. rewrite Htop'. apply (r_top _ _ _ _ R Hs).
    - etransitivity; [|apply (r_perm _ _ _ _ R)]. cbn [app].
      rewrite app_assoc. symmetry. apply Permutation_cons_append.
    - destruct (r_res _ _ _ _ R) as [q Hq]. destruct q as [|y q].
      + cbn [app] in Hq. rewrite <- Hq in Hfree. lia.
      + cbn [app] in Hq. inversion Hq. exists q. reflexivity.
    - unfold m1. cbn [m_inuse]. rewrite (r_inuse _ _ _ _ R), app_length. cbn [length].
      pose proof (wf_n32 F HW). rewrite w32_small by lia. lia.
    - intros l Hl. assert (l <> x) by (intros ->; contradiction). destruct (Hoth l H) as [-> _].
      apply (r_idle _ _ _ _ R). right. assumption.
    - intros l Hl. apply in_app_or in Hl. destruct Hl as [Hl | [<- | []]].
      + assert (l <> x) by (intros ->; contradiction). destruct (Hoth l H) as [-> ->]. apply (r_lens _ _ _ _ R). assumption.
      + rewrite Hlx, Hat. unfold rem_of. cbn [l_data]. split; [reflexivity|exact Hj].
    - intros Hp l Hl. destruct (Nat.eq_dec l x) as [-> | Hne].
      + rewrite Hlx. unfold packed. rewrite N.add_comm, N.mod_add by apply pow2_nz. apply N.mod_small. assumption.
      + destruct (Hoth l Hne) as [_ ->]. apply (r_high _ _ _ _ R Hp). assumption.
    - apply Forall2_app.
      + eapply lm_Forall2_impl_In; [|apply (r_jobs _ _ _ _ R)]. intros l j0 Hl [Ha Hb].
        assert (l <> x) by (intros ->; contradiction). unfold lane_holds. destruct (Hoth l H) as [-> _]. split; assumption.
      + constructor; [|constructor]. unfold lane_holds. rewrite Hat. split; reflexivity. }
  fold m1.
  destruct (run_test F (N.shiftr (m_unused m) ent) (w32 (m_inuse m + 1))) eqn:Hrun.
  - (* the lanes run *)
    assert (Hrl : length st' = length (reserved F)) by (apply (run_test_spec _ _ _ m1 R1); exact Hrun).
    assert (Hst' : st' = reserved F).
    { destruct (r_res _ _ _ _ R1) as [q Hq]. destruct q; [exact Hq|]. rewrite Hq, app_length in Hrl. cbn in Hrl. lia. }
    destruct (perm_facts st' (ls ++ [x]) (r_perm _ _ _ _ R1)) as [Hnd1 [Hcount1 Hall1]].
    destruct (lm_NoDup_app _ _ Hnd1) as [_ [_ Hdisj1]].
    assert (Hlt1 : forall l, In l (ls ++ [x]) -> (l < f_submit_scan F)%nat).
    { intros l Hl. assert (Hln : (l < nl)%nat) by (apply Hall1; right; assumption).
      destruct (Nat.lt_ge_cases l (f_submit_scan F)) as [H|H]; [assumption|]. exfalso.
      apply (reserved_iff l Hln) in H. rewrite <- Hst' in H. exact (Hdisj1 l H Hl). }
    destruct (finish_spec (held ++ [j]) (ls ++ [x]) st' m1 (f_submit_scan F) false R1) as [p [i [jr [m' [Hp [Hh [Hfin [HR _]]]]]]]].
    + destruct ls; discriminate.
    + apply (wf_scann F HW).
    + exact Hlt1.
    + intros l Hl Hnl. exfalso. assert (Hln : (l < nl)%nat) by (pose proof (wf_scann F HW); lia).
      apply Hall1 in Hln. destruct Hln as [Hin | Hin]; [|contradiction].
      rewrite Hst' in Hin. apply (wf_res_ge F HW) in Hin. lia.
    + discriminate.
    + exists m', (RJob (j_ctx jr) (jfinish jr)). split; [reflexivity|]. split; [exact Hfin|]. right.
      exists p, i, jr. split; [assumption|]. split; [reflexivity|]. split; [exact HR|]. cbn [length]. lia.
  - exists m1, RNull. split; [reflexivity|]. split; [reflexivity|]. left. split; [reflexivity|]. split; [exact R1|].
    destruct (r_res _ _ _ _ R1) as [q Hq]. destruct q as [|y q].
    + exfalso. assert (run_test F (m_unused m1) (m_inuse m1) = true).
      { apply (run_test_spec _ _ _ m1 R1). rewrite Hq. reflexivity. }
      unfold m1 in H. cbn [m_unused m_inuse] in H. congruence.
    + rewrite Hq, app_length. cbn [length]. lia.
Qed.

(* ---- *_mb_mgr_flush_* ---------------------------------------------------------------------- *)

Lemma empty_test_spec held ls st m :
  RelW held ls st m -> empty_test F m = true <-> ls = [].
Proof.
  intros R. destruct (perm_facts st ls (r_perm _ _ _ _ R)) as [Hnd [Hcount Hall]].
  unfold empty_test. destruct (f_empty F) as [|k] eqn:He.
  - rewrite N.eqb_eq, (r_inuse _ _ _ _ R). destruct ls; cbn [length]; split; intros H; try reflexivity; try discriminate; lia.
  - pose proof (wf_empty F HW) as H. rewrite He in H. destruct H as [Hs Hk].
    assert (Hst_lt : forall x, In x st -> N.of_nat x < 2 ^ ent).
    { intros x Hx. apply lane_lt_pow. apply Hall. left. assumption. }
    pose proof (r_low _ _ _ _ R) as Hl. apply stack_value in Hl. rewrite (r_top _ _ _ _ R Hs) in Hl.
    pose proof (wf_ent1 F HW) as He1.
    split; intros H.
    + destruct ls as [|l0 ls']; [reflexivity|]. exfalso. cbn [length] in Hcount.
      assert (Hlt : m_unused m < 2 ^ k).
      { eapply N.lt_le_trans; [apply (stack_word_lt st); [assumption|apply (r_low _ _ _ _ R)|apply (r_top _ _ _ _ R Hs)]|].
        apply N.pow_le_mono_r; [discriminate|]. rewrite Hk.
        assert (ent * N.of_nat (S (length st)) <= ent * N.of_nat nl) by (apply N.mul_le_mono_l; lia). lia. }
      rewrite (testbit_high_false _ _ Hlt) in H. discriminate.
    + subst ls. rewrite Nat.add_0_r in Hcount. rewrite Hl, Hk, Hcount.
      replace (ent * N.of_nat nl + ent - 1) with (ent * N.of_nat nl + ent - 1) by reflexivity.
      rewrite <- Hcount. apply testbit_sentinel; [assumption|]. apply enc_lt. assumption.
Qed.

Lemma pack_idle_low old : pack_idle F old mod 2 ^ sh = old mod 2 ^ sh \/ f_pack F = PackShiftOr.
Proof.
  unfold pack_idle. destruct (f_pack F); [right; reflexivity|left].
  rewrite N.shiftl_mul_pow2, wrap_mod, N.add_comm, N.mod_add by apply pow2_nz. apply N.mod_mod, pow2_nz.
Qed.

Lemma real_lt_idle r l old : r < max_blocks F -> (l < nl)%nat -> packed r l < pack_idle F old.
Proof.
  intros Hr Hl. unfold packed, pack_idle. pose proof (wf_pack F HW) as Hk.
  destruct (lane_lt_pow l Hl) as [_ [_ [Hls _]]]. assert (0 < 2 ^ sh) by apply pow2_pos.
  pose proof (wf_mb_idle F HW) as Hmi.
  destruct (f_pack F).
  - destruct Hk as [Hk _]. assert (r * 2 ^ sh <= (max_blocks F - 1) * 2 ^ sh) by (apply N.mul_le_mono_r; lia). lia.
  - rewrite N.shiftl_mul_pow2. assert ((r + 1) * 2 ^ sh <= f_idle_len F * 2 ^ sh) by (apply N.mul_le_mono_r; lia). lia.
Qed.

Lemma flush_spec held ls st m :
  Rel held ls st m -> f_immediate F = false ->
  exists m' r, lm_flush compress F m = (m', r) /\
    ((held = [] /\ r = RNull /\ m' = m) \/
     (exists p i jr, nth_error held p = Some jr /\ r = RJob (j_ctx jr) (jfinish jr) /\
                     Rel (remove_nth p held) (remove_nth p ls) (i :: st) m' /\
                     (forall l, In l ls -> rem_of (lane_at m i) <= rem_of (lane_at m l)))).
Proof.
  intros [R Hfree] Himm.
  destruct (perm_facts st ls (r_perm _ _ _ _ R)) as [Hnd [Hcount Hall]].
  destruct (lm_NoDup_app _ _ Hnd) as [Hndst [Hndls Hdisj]].
  unfold lm_flush. rewrite Himm.
  destruct (empty_test F m) eqn:Hemp.
  - apply (empty_test_spec _ _ _ _ R) in Hemp. subst ls.
    pose proof (r_jobs _ _ _ _ R) as Hj. inversion Hj. subst.
    exists m, RNull. split; [reflexivity|]. left. repeat split.
  - assert (Hne : ls <> []).
    { intros H. apply (empty_test_spec _ _ _ _ R) in H. congruence. }
    set (src := copy_src (m_lanes m)).
    set (s := nth src (m_lanes m) idle_lane).
    set (lanes' := map (fun l => if occupied l then l else
                         {| l_job := None; l_data := l_data s; l_cur := l_cur s; l_chain := l_chain l |}) (m_lanes m)).
    set (lens' := map (fun lw => if occupied (fst lw) then snd lw else pack_idle F (snd lw)) (combine (m_lanes m) (m_lens m))).
    set (m2 := {| m_lens := lens'; m_unused := m_unused m; m_inuse := m_inuse m; m_lanes := lanes' |}).
    assert (Hocc_ls : forall l, In l ls -> occupied (lane_at m l) = true) by (intros; eapply rel_occupied; eassumption).
    assert (Hsrc : (src < nl)%nat /\ In src ls).
    { destruct (lm_copy_src_occ (m_lanes m)) as [H1 H2].
      - destruct ls as [|l0 ls']; [congruence|]. exists l0. rewrite (r_len_lanes _ _ _ _ R). split.
        + apply Hall. right. left. reflexivity.
        + apply Hocc_ls. left. reflexivity.
      - fold src in H1, H2. rewrite (r_len_lanes _ _ _ _ R) in H1. split; [assumption|].
        apply Hall in H1. destruct H1 as [H1 | H1]; [|assumption].
        pose proof (r_idle _ _ _ _ R src H1) as Hi. unfold lane_at in Hi. congruence. }
    destruct Hsrc as [Hsrcn Hsrcin].
    assert (Hlane2 : forall l, (l < nl)%nat -> lane_at m2 l =
              if occupied (lane_at m l) then lane_at m l
              else {| l_job := None; l_data := l_data s; l_cur := l_cur s; l_chain := l_chain (lane_at m l) |}).
    { intros l Hl. unfold lane_at, m2, lanes'. cbn [m_lanes].
      rewrite (lm_nth_map _ _ _ idle_lane) by (rewrite (r_len_lanes _ _ _ _ R); assumption). reflexivity. }
    assert (Hlen2 : forall l, (l < nl)%nat -> len_at m2 l =
              if occupied (lane_at m l) then len_at m l else pack_idle F (len_at m l)).
    { intros l Hl. unfold len_at, lane_at, m2, lens'. cbn [m_lens].
      rewrite (lm_nth_map _ _ _ (idle_lane, 0)).
      - rewrite lm_nth_combine by (rewrite (r_len_lanes _ _ _ _ R), (r_len_lens _ _ _ _ R); reflexivity). reflexivity.
      - rewrite combine_length, (r_len_lanes _ _ _ _ R), (r_len_lens _ _ _ _ R). lia. }
    assert (Hkeep : forall l, In l ls -> lane_at m2 l = lane_at m l /\ len_at m2 l = len_at m l).
    { intros l Hl. assert (Hln : (l < nl)%nat) by (apply Hall; right; assumption).
      rewrite Hlane2, Hlen2, (Hocc_ls l Hl) by assumption. split; reflexivity. }
    assert (R2 : RelW held ls st m2).
    { constructor; try (apply R); cbn [m_lanes m_lens m_unused m_inuse].
      - unfold m2, lanes'. cbn [m_lanes]. rewrite map_length. apply R.
      - unfold m2, lens'. cbn [m_lens]. rewrite map_length, combine_length, (r_len_lanes _ _ _ _ R), (r_len_lens _ _ _ _ R). lia.
      - intros l Hl. assert (Hln : (l < nl)%nat) by (apply Hall; left; assumption).
        rewrite Hlane2 by assumption. rewrite (r_idle _ _ _ _ R l Hl). reflexivity.
      - intros l Hl. destruct (Hkeep l Hl) as [-> ->]. apply (r_lens _ _ _ _ R). assumption.
      - intros Hp l Hl. rewrite Hlen2 by assumption. destruct (occupied (lane_at m l)); [apply (r_high _ _ _ _ R Hp); assumption|].
        destruct (pack_idle_low (len_at m l)) as [-> | Hc]; [apply (r_high _ _ _ _ R Hp); assumption|congruence].
      - eapply lm_Forall2_impl_In; [|apply (r_jobs _ _ _ _ R)]. intros l j0 Hl [Ha Hb].
        unfold lane_holds. destruct (Hkeep l Hl) as [-> _]. split; assumption. }
    set (single := match f_sb_threshold F with Some t => m_inuse m <=? t | None => false end).
    destruct (finish_spec held ls st m2 nl single R2 Hne) as [p [i [jr [m' [Hp [Hh [Hfin [HR Hmin]]]]]]]].
    + lia.
    + intros l Hl. apply Hall. right. assumption.
    + intros l Hl Hnl. assert (Hlst : In l st) by (apply Hall in Hl; destruct Hl; [assumption|contradiction]).
      pose proof (r_idle _ _ _ _ R l Hlst) as Hidle. split.
      * intros l' Hl'. destruct (Hkeep l' Hl') as [_ ->]. rewrite Hlen2, Hidle by assumption.
        destruct (r_lens _ _ _ _ R l' Hl') as [-> Hb]. apply real_lt_idle; [assumption|]. apply Hall. right. assumption.
      * exists src. split; [assumption|]. destruct (Hkeep src Hsrcin) as [-> _].
        rewrite Hlane2, Hidle by assumption. reflexivity.
    + unfold single. intros Hs. pose proof (wf_pack F HW) as Hk. destruct (f_pack F); [reflexivity|].
      destruct Hk as [_ [_ [Hk _]]]. rewrite Hk in Hs. discriminate.
    + exists m', (RJob (j_ctx jr) (jfinish jr)). split; [exact Hfin|]. right.
      exists p, i, jr. split; [assumption|]. split; [reflexivity|]. split; [split; [exact HR|cbn [length]; lia]|].
      intros l Hl. pose proof (Hmin l Hl) as H. assert (Hil : In i ls) by (eapply nth_error_In; eassumption).
      destruct (Hkeep l Hl) as [Ha _]. destruct (Hkeep i Hil) as [Hb _]. rewrite Ha, Hb in H. exact H.
Qed.

End LaneInv.

(* ---- manager-level histories --------------------------------------------------------------- *)

Inductive mop := MSubmit (j : job) | MFlush.

Definition lm_step (compress : list N -> list N -> list N) (F : family_cfg) (m : mgr) (o : mop) : mgr * result :=
  match o with MSubmit j => lm_submit compress F m j | MFlush => lm_flush compress F m end.

Fixpoint lm_run (compress : list N -> list N -> list N) (F : family_cfg) (m : mgr) (ops : list mop) : mgr * list result :=
  match ops with
  | [] => (m, [])
  | o :: r => let '(m1, x) := lm_step compress F m o in
              let '(m2, xs) := lm_run compress F m1 r in (m2, x :: xs)
  end.

Definition mop_ok (F : family_cfg) (o : mop) : Prop :=
  match o with MSubmit j => job_ok F j | MFlush => True end.

(* the jobs inside the manager: nothing for a synchronous manager, the relation above otherwise *)
Definition MRel (compress : list N -> list N -> list N) (F : family_cfg) (held : list job) (m : mgr) : Prop :=
  if f_immediate F then held = [] /\ m_inuse m = 0%N else exists ls st, Rel compress F held ls st m.

Lemma MRel_init compress F : cfg_wf F = true -> MRel compress F [] (lm_init F).
Proof.
  intros H. unfold MRel. destruct (f_immediate F) eqn:Hi; [split; reflexivity|].
  exists [], (stack0 F). apply init_rel. apply cfg_wf_facts; assumption.
Qed.

(* one manager call: what comes back is a held job (or the submitted one), finished *)
Lemma MRel_step compress F held m o :
  cfg_wf F = true -> MRel compress F held m -> mop_ok F o ->
  let held1 := match o with MSubmit j => held ++ [j] | MFlush => held end in
  exists m' r, lm_step compress F m o = (m', r) /\
    ((r = RNull /\ MRel compress F held1 m' /\ (o = MFlush -> held = [] /\ m' = m)) \/
     (exists p jr, nth_error held1 p = Some jr /\ r = RJob (j_ctx jr) (jfinish compress jr) /\
                   MRel compress F (remove_nth p held1) m')).
Proof.
  intros Hwf HR Hok. unfold MRel in *. destruct (f_immediate F) eqn:Hi.
  - destruct HR as [-> Hz]. destruct o as [j|]; cbn [lm_step]; unfold lm_submit, lm_flush; rewrite Hi.
    + exists m, (RJob (j_ctx j) (fold_left compress (j_blocks j) (j_chain j))). split; [reflexivity|]. right.
      exists 0%nat, j. cbn. repeat split. assumption.
    + exists m, RNull. split; [reflexivity|]. left. repeat split. assumption.
  - pose proof (cfg_wf_facts F Hwf Hi) as HW. destruct HR as [ls [st HR]].
    destruct o as [j|]; cbn [lm_step].
    + destruct (submit_spec compress F HW held ls st m j HR Hok Hi) as [x [st' [m' [r [Hst [Hs Hcase]]]]]].
      exists m', r. split; [exact Hs|]. destruct Hcase as [[-> HR'] | [p [i [jr [Hp [-> HR']]]]]].
      * left. split; [reflexivity|]. split; [eauto|discriminate].
      * right. exists p, jr. split; [assumption|]. split; [reflexivity|]. eauto.
    + destruct (flush_spec compress F HW held ls st m HR Hi) as [m' [r [Hs Hcase]]].
      exists m', r. split; [exact Hs|]. destruct Hcase as [[-> [-> ->]] | [p [i [jr [Hp [-> [HR' _]]]]]]].
      * left. split; [reflexivity|]. split; [eauto|]. intros _. split; reflexivity.
      * right. exists p, jr. split; [assumption|]. split; [reflexivity|]. eauto.
Qed.

(* L1/L3/L4: every reachable state is related to some list of held jobs, and no call faults *)
Lemma lm_run_rel compress F ops : cfg_wf F = true -> Forall (mop_ok F) ops ->
  forall held m, MRel compress F held m ->
  exists held', MRel compress F held' (fst (lm_run compress F m ops)) /\
                Forall (fun r => r <> RFault) (snd (lm_run compress F m ops)).
Proof.
  intros Hwf Hok. induction Hok as [|o ops Ho Hops IH]; intros held m HR; cbn [lm_run].
  - exists held. split; [assumption|constructor].
  - destruct (MRel_step compress F held m o Hwf HR Ho) as [m' [r [Hs Hcase]]]. rewrite Hs.
    assert (Hnext : exists h1, MRel compress F h1 m' /\ r <> RFault).
    { destruct Hcase as [[-> [H _]] | [p [jr [_ [-> H]]]]]; eexists; (split; [eassumption|discriminate]). }
    destruct Hnext as [h1 [HR1 Hnf]]. destruct (IH h1 m' HR1) as [held' [HR' Hall]].
    destruct (lm_run compress F m' ops) as [m2 xs]. cbn [fst snd] in *.
    exists held'. split; [assumption|]. constructor; assumption.
Qed.

(* L5: flushing n held jobs out: n jobs come back, each a held one, each once; then NULL *)
Lemma flush_drains compress F : cfg_wf F = true -> forall n held m, length held = n -> MRel compress F held m ->
  exists rs m', lm_run compress F m (repeat MFlush (S n)) = (m', map (fun j => RJob (j_ctx j) (jfinish compress j)) rs ++ [RNull]) /\
                Permutation rs held /\ MRel compress F [] m'.
Proof.
  intros Hwf. induction n as [|n IH]; intros held m Hlen HR.
  - destruct held; [|discriminate]. cbn [repeat lm_run].
    destruct (MRel_step compress F [] m MFlush Hwf HR I) as [m' [r [Hs Hcase]]]. rewrite Hs.
    destruct Hcase as [[-> [HR' Hm]] | [p [jr [Hp _]]]]; [|destruct p; discriminate].
    exists [], m'. split; [reflexivity|]. split; [constructor|assumption].
  - change (repeat MFlush (S (S n))) with (MFlush :: repeat MFlush (S n)). cbn [lm_run].
    destruct (MRel_step compress F held m MFlush Hwf HR I) as [m' [r [Hs Hcase]]]. rewrite Hs.
    destruct Hcase as [[-> [_ Hm]] | [p [jr [Hp [-> HR']]]]].
    + destruct (Hm eq_refl) as [-> _]. discriminate.
    + assert (Hl' : length (remove_nth p held) = n).
      { pose proof (lm_remove_nth_length held p jr Hp). lia. }
      destruct (IH _ m' Hl' HR') as [rs [m2 [Hrun [Hperm HR2]]]].
      rewrite Hrun. exists (jr :: rs), m2. split; [reflexivity|]. split; [|assumption].
      etransitivity; [apply perm_skip; exact Hperm|]. symmetry. apply lm_remove_nth_perm. assumption.
Qed.

(* L1 spelled out: what the relation says about the packed manager state *)
Lemma rel_invariant compress F held ls st m : wf_facts F -> Rel compress F held ls st m ->
  NoDup st /\ NoDup ls /\ (forall l, In l st -> ~ In l ls) /\
  (length st + length ls = f_nlanes F)%nat /\ length ls = length held /\
  m_inuse m = N.of_nat (length ls) /\
  stack_low (f_ent_bits F) st (m_unused m) /\
  (forall l, In l st -> occupied (lane_at m l) = false) /\
  (forall l, In l ls -> occupied (lane_at m l) = true /\
                        len_at m l = packed F (rem_of (lane_at m l)) l /\ rem_of (lane_at m l) < max_blocks F).
Proof.
  intros HW [R _]. destruct (perm_facts F st ls (r_perm _ _ _ _ _ _ R)) as [Hnd [Hcount _]].
  destruct (lm_NoDup_app _ _ Hnd) as [H1 [H2 H3]].
  repeat split; try assumption; try (apply R; assumption).
  - apply (lm_Forall2_length _ _ _ (r_jobs _ _ _ _ _ _ R)).
  - eapply rel_occupied; eassumption.
Qed.

(* L2 (C15 packed_len_fits): a job of fewer than 2^32 bytes packs into the lens[] word without
   loss: below 2^W, strictly below the idle word, and the lane and the block count come back out *)
Lemma packed_len_fits F len lane old : cfg_wf F = true -> f_immediate F = false ->
  len < 2 ^ 32 -> (lane < f_nlanes F)%nat ->
  (f_pack F = PackHighField -> old mod 2 ^ f_shift F = N.of_nat lane) ->
  let w := pack_submit F old (len / f_bsize F) (N.of_nat lane) in
  w = (len / f_bsize F) * 2 ^ f_shift F + N.of_nat lane /\ w < 2 ^ f_W F /\ w < pack_idle F old /\
  N.to_nat (N.land w (N.ones (f_idx_bits F))) = lane /\
  N.shiftr (N.shiftl (N.shiftr w (f_clear_bits F)) (f_clear_bits F)) (f_shift F) = len / f_bsize F.
Proof.
  intros Hwf Hi Hlen Hlane Hold w. pose proof (cfg_wf_facts F Hwf Hi) as HW.
  assert (Hb : len / f_bsize F < max_blocks F).
  { unfold max_blocks. pose proof (wf_bs1 F HW). apply N.div_lt_upper_bound; [lia|].
    pose proof (N.div_mod (2 ^ 32) (f_bsize F)) as Hd. rewrite (wf_bs_div F HW) in Hd. lia. }
  assert (Hw : w = packed F (len / f_bsize F) lane) by (apply pack_submit_ok; assumption).
  destruct (lane_lt_pow F HW lane Hlane) as [Hli [Hlc [Hls _]]].
  split; [exact Hw|]. split; [rewrite Hw; apply packed_lt_W; assumption|].
  split; [rewrite Hw; apply real_lt_idle; assumption|].
  rewrite Hw. unfold packed. split.
  - rewrite unpack_idx by (try assumption; pose proof (wf_idx_clear F HW); pose proof (wf_clear_shift F HW); lia).
    apply Nat2N.id.
  - rewrite unpack_len by (try assumption; apply (wf_clear_shift F HW)). apply unpack_blocks.
Qed.

(* L1 for every reachable state of a lane manager *)
Lemma lanes_invariant compress F ops : cfg_wf F = true -> f_immediate F = false -> Forall (mop_ok F) ops ->
  let m := fst (lm_run compress F (lm_init F) ops) in
  exists (held : list job) (ls st : list nat),
    NoDup st /\ NoDup ls /\ (forall l, In l st -> ~ In l ls) /\
    (length st + length ls = f_nlanes F)%nat /\ length ls = length held /\
    m_inuse m = N.of_nat (length ls) /\
    stack_low (f_ent_bits F) st (m_unused m) /\
    (forall l, In l st -> occupied (lane_at m l) = false) /\
    (forall l, In l ls -> occupied (lane_at m l) = true /\
                          len_at m l = packed F (rem_of (lane_at m l)) l /\ rem_of (lane_at m l) < max_blocks F).
Proof.
  intros Hwf Hi Hok m.
  destruct (lm_run_rel compress F ops Hwf Hok [] (lm_init F) (MRel_init compress F Hwf)) as [held [HR _]].
  unfold MRel in HR. rewrite Hi in HR. destruct HR as [ls [st HR]].
  exists held, ls, st. apply (rel_invariant compress F held ls st _ (cfg_wf_facts F Hwf Hi) HR).
Qed.

(* L3: no reachable call dereferences a NULL job or runs a lane past the end of its buffer *)
Lemma lanes_no_fault compress F ops : cfg_wf F = true -> Forall (mop_ok F) ops ->
  Forall (fun r => r <> RFault) (snd (lm_run compress F (lm_init F) ops)).
Proof.
  intros Hwf Hok.
  destruct (lm_run_rel compress F ops Hwf Hok [] (lm_init F) (MRel_init compress F Hwf)) as [_ [_ H]]. exact H.
Qed.

Lemma lanes_reachable compress F ops : cfg_wf F = true -> Forall (mop_ok F) ops ->
  exists held, MRel compress F held (fst (lm_run compress F (lm_init F) ops)).
Proof.
  intros Hwf Hok.
  destruct (lm_run_rel compress F ops Hwf Hok [] (lm_init F) (MRel_init compress F Hwf)) as [held [H _]]. eauto.
Qed.

(* L5: flush returns NULL exactly when nothing is held, i.e. (lane managers) num_lanes_inuse = 0 *)
Lemma flush_null_iff compress F held m : cfg_wf F = true -> MRel compress F held m ->
  (snd (lm_flush compress F m) = RNull <-> held = []) /\
  (f_immediate F = false -> (held = [] <-> m_inuse m = 0%N)).
Proof.
  intros Hwf HR. split.
  - destruct (MRel_step compress F held m MFlush Hwf HR I) as [m' [r [Hs Hcase]]]. cbn [lm_step] in Hs. rewrite Hs. cbn [snd].
    destruct Hcase as [[-> [_ Hfl]] | [p [jr [Hp [-> _]]]]].
    + split; [intros _; apply Hfl; reflexivity|reflexivity].
    + split; [discriminate|]. intros ->. destruct p; discriminate.
  - intros Hi. unfold MRel in HR. rewrite Hi in HR. destruct HR as [ls [st HR]].
    destruct (rel_invariant compress F held ls st m (cfg_wf_facts F Hwf Hi) HR) as [_ [_ [_ [_ [Hl [Hu _]]]]]].
    rewrite Hu. destruct held, ls; cbn in *; try discriminate; split; intros; try reflexivity; try discriminate; lia.
Qed.
