(* Extraction of the executable models and specs (ExtrOcamlBasic only: bool, option,
   unit, list, prod, sumbool, sumor map to OCaml's; nat, positive, N, Z stay inductive). *)
From Coq Require Extraction ExtrOcamlBasic.
From Coq Require Import NArith List.
From ISAL Require Import Base.Words Base.ListUtil Spec.Rolling Spec.RollingPinned Model.RollRun Model.RollInst.

Extraction Language OCaml.
Extraction "Extract/out/Roll.ml"
  c_rh_init c_rh_reset c_rh_run c_run_spec c_H c_boundaries mask_gen
  rh_reset rh_run tbl pinned_table.
