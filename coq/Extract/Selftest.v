(* Extraction of the C17 self-test protocol model (interpreter, property predicates, the
   regenerated program) for the schedule explorer / replay driver; and of the C18 stub-race
   model.  Models only. *)
From Coq Require Extraction ExtrOcamlBasic.
From Coq Require Import NArith List.
From ISAL Require Import Base.ListUtil Model.SelfTestSys Model.SelfTest Gen.SelfTestGen.

Extraction Language OCaml.
Extraction "Extract/out/Selftest.ml"
  prog entry init_status errv translate_ok aes_returns sha_returns boolean_verdicts
  tstep t0 g0 st_init st_exec sstep safety_violation all_retd retd faulted returned did_crypto
  pass set_pc set_stk set_status N.add.
