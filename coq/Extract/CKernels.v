(* Extraction of the translated C kernels (Gen/CKernelGen.v run by the interpreter of
   Model/CKernel.v) and of the specifications they are compared with.  ExtrOcamlBasic only;
   no Proofs file is imported: the kernels still extract when an obligation is broken. *)
From Coq Require Extraction ExtrOcamlBasic.
From Coq Require Import NArith List.
From ISAL Require Import Base.Words Base.ListUtil Spec.MD Spec.SHA1 Spec.SHA256 Spec.SHA512 Spec.MD5
  Spec.Murmur3 Model.CKernel Gen.CKernelGen Model.CKernelMurmur.

Extraction Language OCaml.
Extraction "Extract/out/CKernels.ml"
  c_murmur3_block c_murmur3_tail c_murmur3_x64_128 c_sha256_single c_sha1_single c_sha512_single c_md5_single
  le_words le_bytes chunks
  mur_body mur_tail murmur3_x64_128 sha256_compress sha1_compress sha512_compress md5_compress.
