(* Extraction of the hash specs (5 algorithms over Spec.MD), the L0 trace acceptor
   (Spec.HashApiSpec), the L1 context-layer model (Model.HashCtx) and the observation
   projection (Model.HashObs).  Models and specs only: no Proofs file is imported, so this
   still builds when a proof is broken. *)
From Coq Require Extraction ExtrOcamlBasic.
From Coq Require Import NArith List.
From ISAL Require Import Base.Words Base.ListUtil Spec.MD Spec.SHA1 Spec.SHA256 Spec.SHA512 Spec.MD5 Spec.SM3
     Spec.HashApiSpec Model.HashCtx Model.HashObs.

Extraction Language OCaml.
Extraction "Extract/out/Hash.ml"
  sha1_algo sha256_algo sha512_algo md5_algo sm3_algo
  md_hash md_hash_bytes md_chain
  spec_check accepts dummy rejection n_flight
  step run ctx_init mgr_init getc dflt_ctx
  call_of obs_of step_obs run_obs spec_init model_init
  inject_ctx md_pad_N md_continue shift_algo spec_injected.
