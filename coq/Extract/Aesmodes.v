(* Extraction of the AES key expansion / XTS / CBC specs and models (ExtrOcamlBasic only:
   bool, option, unit, list, prod, sumbool, sumor map to OCaml's; nat, positive, N, Z stay
   inductive).  Models and specs only: no Proofs file is imported here. *)
From Coq Require Extraction ExtrOcamlBasic.
From Coq Require Import NArith List.
From ISAL Require Import Base.Words Base.ListUtil Spec.AES Spec.XTS Spec.CBC
  Model.KeyExp Model.Xts Model.Cbc.

Extraction Language OCaml.
Extraction "Extract/out/Aesmodes.ml"
  key_expansion dec_schedule cipher inv_cipher eq_inv_cipher aes_enc aes_dec
  keyexp_enc keyexp_dec sched_of_bytes
  xts_enc xts_dec xts_enc_raw xts_dec_raw xts_enc_exp xts_dec_exp
  xts_enc_chunks xts_dec_chunks xts_mul_alpha xts_tweak0 xts_tweak_pow
  cbc_enc cbc_dec cbc_enc_model cbc_dec_model chunks.
