(* Extraction of the BASE-family hash model (Model.HashBase: the five *_ctx_base.c files) and
   what its driver needs around it.  Models and specs only: no Proofs file is imported, so
   this still builds when a proof is broken. *)
From Coq Require Extraction ExtrOcamlBasic.
From Coq Require Import NArith List.
From ISAL Require Import Base.Words Base.ListUtil Spec.MD Spec.SHA1 Spec.SHA256 Spec.SHA512 Spec.MD5 Spec.SM3
     Spec.HashApiSpec Model.HashCtx Model.HashObs Model.HashBase.

Extraction Language OCaml.
Extraction "Extract/out/HashBase.ml"
  sha1_base sha256_base sha512_base md5_base sm3_base
  base_init base_update base_final base_submit base_step base_obs_of base_run_obs
  base_ctx_init base_model_init base_inject bgetc dflt_bctx bA
  md_hash chunks le_to_N upd firstn skipn nth length.
