(* Extraction of the lane-level manager model (Model.LaneMgr: lm_init, lm_submit, lm_flush,
   cfg_wf, the context layer over it) together with the five hash algorithms whose [a_compress]
   plays the kernels.  Models and specs only: no Proofs file is imported, so this still builds
   when a proof is broken.  The configurations are read by the driver from its input lines
   (checks/lanemgr.py sends what tr/lane_cfg.py regenerated), not from Gen/LaneCfgGen.v. *)
From Coq Require Extraction ExtrOcamlBasic.
From Coq Require Import NArith List.
From ISAL Require Import Base.Words Base.ListUtil Spec.MD Spec.SHA1 Spec.SHA256 Spec.SHA512 Spec.MD5 Spec.SM3
     Model.HashCtx Model.LaneMgr.

Extraction Language OCaml.
Extraction "Extract/out/Lanes.ml"
  sha1_algo sha256_algo sha512_algo md5_algo sm3_algo
  lm_init lm_submit lm_flush cfg_wf idle_lane occupied
  linit lstep lrun_obs.
