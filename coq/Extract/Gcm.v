(* Extraction of the AES-GCM spec and streaming model (ExtrOcamlBasic only: bool, option,
   unit, list, prod, sumbool, sumor map to OCaml's; nat, positive, N, Z stay inductive). *)
From Coq Require Extraction ExtrOcamlBasic.
From Coq Require Import NArith List.
From ISAL Require Import Base.Words Base.ListUtil Spec.AES Spec.GF128 Spec.GCM Model.GcmStream.

Extraction Language OCaml.
Extraction "Extract/out/Gcm.ml"
  key_expansion cipher gcm_ae_rk gcm_ad_rk gcm_hash_key_rk
  gcm_ctx_bytes gcm_precomp gcm_init gcm_update gcm_finalize gcm_oneshot gcm_stream
  gcm_oneshot_aes gcm_stream_aes defer_none defer_vaes.
