(* Extraction of the mini-C interpreter, the regenerated wrapper tables and the checkers
   (ExtrOcamlBasic only). *)
From Coq Require Extraction ExtrOcamlBasic.
From Coq Require Import NArith List.
From ISAL Require Import Model.MiniC Model.MiniCCheck Model.MiniCInst Gen.WrappersGen Spec.WrapperSpec.

Extraction Language OCaml.
Extraction "Extract/out/Wrappers.ml"
  run_entry c13 c13_cex c16 c16_cex c16_legacy spec_of specs entries legacy cands16 cands13
  unsupported16 unsupported13 class_n spec_covers spec_view entry_tree tab judge_16 judge_13 Build_obs.
