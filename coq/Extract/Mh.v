(* Extraction of the multi-hash models and specs (C05, C10).  ExtrOcamlBasic only. *)
From Coq Require Extraction ExtrOcamlBasic.
From Coq Require Import NArith List.
From ISAL Require Import Base.Words Base.ListUtil Spec.MD Spec.SHA1 Spec.SHA256 Spec.MH Spec.Murmur3
  Model.MhCtx Model.MhMurmur.

Extraction Language OCaml.
Extraction "Extract/out/Mh.ml"
  mh1_init mh1_update mh1_finalize mh256_init mh256_update mh256_finalize
  mhm_init mhm_update mhm_finalize mh1_tail mh256_tail mhm_tail
  mc_total mc_partial mc_state
  mh_sha1 mh_sha256 murmur3_x64_128 mur_words.
