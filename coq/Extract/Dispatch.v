(* Extraction of the dispatch model (ExtrOcamlBasic only; string/ascii, nat, positive, N stay
   inductive).  Models and regenerated data only — no proof file is imported. *)
From Coq Require Extraction ExtrOcamlBasic.
From Coq Require Import NArith List String.
From ISAL Require Import Model.Dispatch Gen.DispatchGen Gen.IsaReqGen.

Extraction Language OCaml.
Extraction "Extract/out/Dispatch.ml"
  dispatchers isa_requires data_refs foreign_refs group_names
  exec sexec eval tree_of paths check_disp stub_ok unsafe_of has_witness counterexample candidates witness
  bound_okb first_missing requires_of consistentb doc_min doc_min_okb availb need baseline rules
  env_of_words words_of_env k_of_feats k0 family famo fam_eqb group_checked resolve lookup ref_ok
  feat_id cpu_bit.
