"""Translate a C array initialiser of integer literals into a Coq `list N` definition.
Deliberately dumb: strip comments, find `<name>[...] = { ... }`, one literal -> one element.
Anything that is not an integer literal inside the braces makes the translator fail closed."""
import re, sys

def strip_comments(src):
    src = re.sub(r"/\*.*?\*/", " ", src, flags=re.S)
    return re.sub(r"//[^\n]*", " ", src)

def parse_array(src, name):
    src = strip_comments(src)
    m = re.search(r"\b" + re.escape(name) + r"\s*\[[^\]]*\]\s*=\s*\{(.*?)\}\s*;", src, re.S)
    if not m:
        raise ValueError("array %s not found" % name)
    vals = []
    for tok in m.group(1).split(","):
        tok = tok.strip()
        if not tok:
            continue
        mm = re.fullmatch(r"(0[xX][0-9a-fA-F]+|[0-9]+)[uUlL]*", tok)
        if not mm:
            raise ValueError("not an integer literal: %r" % tok)
        vals.append(int(mm.group(1), 0))
    return vals

def coq_list(name, vals, per_line=4):
    lines = []
    for i in range(0, len(vals), per_line):
        lines.append("  " + "; ".join("0x%x" % v for v in vals[i:i + per_line]))
    return "Definition %s : list N := [\n%s\n]%%N.\n" % (name, ";\n".join(lines))
