"""C08 translator: include/memcpy_inline.h -> coq/Gen/MemcpyGen.v.

Deliberately dumb: every inline copy/clear function of the header is matched, after comments
and white space are removed, against a fixed template of the function's text in which only
the numeric constants and the offset expressions of the head/tail moves are holes.  The holes
become the constants of two configuration records (copy, clear) that Model/FootprintMemcpy.v
interprets.  Any other change of shape raises (the check then fails closed:
`no-failing-input-found` unless the guard-page grid finds an out-of-range access)."""
import os, re


class Shape(Exception):
    pass


def strip(src):
    src = re.sub(r"/\*.*?\*/", "", src, flags=re.S)
    src = re.sub(r"//[^\n]*", "", src)
    src = src.replace("\\\n", " ")
    return src


def nows(s):
    return re.sub(r"\s+", "", s)


def body_of(src, name):
    """text between the braces of the definition of `name` (not its prototype)"""
    for m in re.finditer(r"\b%s\s*\(([^)]*)\)\s*\{" % re.escape(name), src):
        i = m.end()
        depth = 1
        while i < len(src) and depth:
            depth += {"{": 1, "}": -1}.get(src[i], 0)
            i += 1
        if depth == 0:
            return nows(src[m.end():i - 1])
    raise Shape("definition of %s not found" % name)


def macro_of(src, name):
    m = re.search(r"#define\s+%s\s*\(([^)]*)\)(.*?)\n\s*\n" % re.escape(name), src, re.S)
    if not m:
        raise Shape("macro %s not found" % name)
    return nows(m.group(1)), nows(m.group(2))


def affine(e, what):
    """'nbytes-N+1' -> (coef nbytes, coef N, const)"""
    toks = re.findall(r"[+-]|nbytes|N|\d+|.", e)
    cn = cN = c0 = 0
    sign = 1
    expect_term = True
    for t in toks:
        if t in "+-" and not expect_term:
            sign = 1 if t == "+" else -1
            expect_term = True
        elif t == "-" and expect_term:
            sign = -sign
        elif expect_term and t == "nbytes":
            cn += sign; sign = 1; expect_term = False
        elif expect_term and t == "N":
            cN += sign; sign = 1; expect_term = False
        elif expect_term and t.isdigit():
            c0 += sign * int(t); sign = 1; expect_term = False
        else:
            raise Shape("%s: offset expression not affine in nbytes and N: %r" % (what, e))
    if expect_term:
        raise Shape("%s: dangling operator in %r" % (what, e))
    return (cn, cN, c0)


E = r"([A-Za-z0-9+\-]+)"          # an offset expression without parentheses

# equivalent spellings of one threshold test are accepted: nbytes >= K, nbytes > K-1,
# K <= nbytes, K-1 < nbytes (optionally parenthesised); likewise i + K <= nbytes, nbytes >= i + K
GE_NBYTES = r"\(?(?:nbytes>=(?P<ge_a>\d+)|nbytes>(?P<ge_b>\d+)|(?P<ge_c>\d+)<=nbytes|(?P<ge_d>\d+)<nbytes)\)?"
I_PLUS_LE = r"\(?(?:i\+(?P<ip_a>\d+)<=nbytes|nbytes>=i\+(?P<ip_b>\d+)|(?P<ip_c>\d+)\+i<=nbytes|nbytes-i>=(?P<ip_d>\d+))\)?"


def ge_value(m):
    g = m.groupdict()
    if g.get("ge_a") is not None: return int(g["ge_a"])
    if g.get("ge_b") is not None: return int(g["ge_b"]) + 1
    if g.get("ge_c") is not None: return int(g["ge_c"])
    return int(g["ge_d"]) + 1


def ip_value(m):
    g = m.groupdict()
    for k in ("ip_a", "ip_b", "ip_c", "ip_d"):
        if g.get(k) is not None:
            return int(g[k])


def between(src, clr):
    name = "MEMCLR_BETWEEN_N_AND_2N_BYTES" if clr else "MEMCPY_BETWEEN_N_AND_2N_BYTES"
    params, body = macro_of(src, name)
    if clr:
        if params != "N,fixedwidth,dst,nbytes":
            raise Shape(name + " parameters " + params)
        t = (r"^do\{constintrinreg##Nzero=\{0\};assert\(N<=nbytes&&nbytes<=2\*N\);"
             r"if\(N==1\|\|\(fixedwidth&&nbytes==N\)\)\{store_intrinreg##N\(dst,zero\);\}"
             r"else\{store_intrinreg##N\(dst,zero\);store_intrinreg##N\(\(void\*\)\(\(char\*\)dst\+\(" + E + r"\)\),zero\);\}\}while\(0\)$")
        m = re.match(t, body)
        if not m:
            raise Shape(name + " body does not match the template")
        return {"single_ld": [], "single_st": [(0, 0, 0)], "both_ld": [], "both_st": [(0, 0, 0), affine(m.group(1), name)]}
    if params != "N,fixedwidth,dst,src,nbytes":
        raise Shape(name + " parameters " + params)
    t = (r"^do\{intrinreg##Nhead;intrinreg##Ntail;assert\(N<=nbytes&&nbytes<=2\*N\);"
         r"if\(N==1\|\|\(fixedwidth&&nbytes==N\)\)\{head=load_intrinreg##N\(src\);store_intrinreg##N\(dst,head\);\}"
         r"else\{head=load_intrinreg##N\(src\);tail=load_intrinreg##N\(\(constvoid\*\)\(\(constchar\*\)src\+\(" + E + r"\)\)\);"
         r"store_intrinreg##N\(dst,head\);store_intrinreg##N\(\(void\*\)\(\(char\*\)dst\+\(" + E + r"\)\),tail\);\}\}while\(0\)$")
    m = re.match(t, body)
    if not m:
        raise Shape(name + " body does not match the template")
    return {"single_ld": [(0, 0, 0)], "single_st": [(0, 0, 0)],
            "both_ld": [(0, 0, 0), affine(m.group(1), name)], "both_st": [(0, 0, 0), affine(m.group(2), name)]}


def ladder(src, fn, clr, fixed):
    b = body_of(src, fn)
    mac = "MEMCLR_BETWEEN_N_AND_2N_BYTES" if clr else "MEMCPY_BETWEEN_N_AND_2N_BYTES"
    args = r"dst,nbytes" if clr else r"dst,src,nbytes"
    m = re.match(r"^assert\(nbytes<=(\d+)\);(.*)$", b)
    if not m:
        raise Shape(fn + ": missing leading assert")
    rest, out = m.group(2), []
    first = True
    while rest:
        m = re.match(r"^%sif\(%s\)\{?%s\((?P<N>\d+),(?P<fw>[01]),%s\);\}?(?P<rest>.*)$" % ("" if first else "else", GE_NBYTES, mac, args), rest)
        if not m:
            raise Shape(fn + ": size-class ladder not recognised at " + rest[:60])
        T, N, fw = ge_value(m), int(m.group("N")), int(m.group("fw"))
        if fw != (1 if fixed else 0):
            raise Shape(fn + ": fixedwidth flag %d" % fw)
        out.append((T, N, bool(fw)))
        rest = m.group("rest")
        first = False
    return out


def gte16_fixed(src, fn, clr):
    b = body_of(src, fn)
    if clr:
        t = (r"^size_ti;size_tj;constintrinreg16zero=\{0\};size_tremaining_moves;size_ttail_offset;intdo_tail;assert\(nbytes>=(?P<lo>\d+)\);"
             r"for\(i=0;i\+(?P<w1>\d+)\*(?P<u1>\d+)<=nbytes;i\+=(?P<w2>\d+)\*(?P<u2>\d+)\)for\(j=0;j<(?P<u3>\d+);j\+\+\)"
             r"store_intrinreg16\(\(void\*\)\(\(char\*\)dst\+i\+(?P<w3>\d+)\*j\),zero\);"
             r"remaining_moves=\(nbytes-i\)/(?P<w4>\d+);tail_offset=nbytes-(?P<ts>\d+);do_tail=\(tail_offset&\((?P<m1>\d+)-(?P<m2>\d+)\)\);"
             r"for\(j=0;j<remaining_moves;j\+\+\)store_intrinreg16\(\(void\*\)\(\(char\*\)dst\+i\+(?P<w5>\d+)\*j\),zero\);"
             r"if\(do_tail\)store_intrinreg16\(\(void\*\)\(\(char\*\)dst\+tail_offset\),zero\);$")
    else:
        t = (r"^size_ti;size_tj;intrinreg16pool\[(?P<u0>\d+)\];size_tremaining_moves;size_ttail_offset;intdo_tail;assert\(nbytes>=(?P<lo>\d+)\);"
             r"for\(i=0;i\+(?P<w1>\d+)\*(?P<u1>\d+)<=nbytes;i\+=(?P<w2>\d+)\*(?P<u2>\d+)\)\{"
             r"for\(j=0;j<(?P<u3>\d+);j\+\+\)pool\[j\]=load_intrinreg16\(\(constvoid\*\)\(\(constchar\*\)src\+i\+(?P<w3>\d+)\*j\)\);"
             r"for\(j=0;j<(?P<u4>\d+);j\+\+\)store_intrinreg16\(\(void\*\)\(\(char\*\)dst\+i\+(?P<w6>\d+)\*j\),pool\[j\]\);\}"
             r"remaining_moves=\(nbytes-i\)/(?P<w4>\d+);tail_offset=nbytes-(?P<ts>\d+);do_tail=\(tail_offset&\((?P<m1>\d+)-(?P<m2>\d+)\)\);"
             r"for\(j=0;j<remaining_moves;j\+\+\)pool\[j\]=load_intrinreg16\(\(constvoid\*\)\(\(constchar\*\)src\+i\+(?P<w5>\d+)\*j\)\);"
             r"if\(do_tail\)pool\[j\]=load_intrinreg16\(\(constvoid\*\)\(\(constchar\*\)src\+tail_offset\)\);"
             r"for\(j=0;j<remaining_moves;j\+\+\)store_intrinreg16\(\(void\*\)\(\(char\*\)dst\+i\+(?P<w7>\d+)\*j\),pool\[j\]\);"
             r"if\(do_tail\)store_intrinreg16\(\(void\*\)\(\(char\*\)dst\+tail_offset\),pool\[j\]\);$")
    m = re.match(t, b)
    if not m:
        raise Shape(fn + " body does not match the template")
    g = {k: int(v) for k, v in m.groupdict().items()}
    ws = {g[k] for k in g if k.startswith("w")}
    us = {g[k] for k in g if k.startswith("u")}
    if len(ws) != 1 or len(us) != 1:
        raise Shape(fn + ": move width / unroll constants disagree: %s %s" % (sorted(ws), sorted(us)))
    if g["m2"] != 1:
        raise Shape(fn + ": tail mask")
    return {"w": ws.pop(), "unroll": us.pop(), "tail_sub": g["ts"], "tail_mask": g["m1"] - 1, "lo": g["lo"]}


def gte16_var(src, fn, clr):
    b = body_of(src, fn)
    callee = "memclr_gte16_sse_fixedlen" if clr else "memcpy_gte16_sse_fixedlen"
    call = (r"%s\(\(void\*\)\(\(char\*\)dst\+i\),(\d+)\);" % callee) if clr else \
           (r"%s\(\(void\*\)\(\(char\*\)dst\+i\),\(constvoid\*\)\(\(constchar\*\)src\+i\),(\d+)\);" % callee)
    head = r"^size_ti=0;constintrinreg16zero=\{0\};assert\(nbytes>=(\d+)\);" if clr else r"^size_ti=0;intrinreg16tail;assert\(nbytes>=(\d+)\);"
    call_l = call.replace("(\\d+)", "(?P<lc>\\d+)")
    m = re.match(head.replace("(\\d+)", "(?P<lo>\\d+)") + r"while\(" + I_PLUS_LE + r"\)\{" + call_l + r"i\+=(?P<ld>\d+);\}(?P<rest>.*)$", b)
    if not m:
        raise Shape(fn + ": loop not recognised")
    lo, a, c, d, rest = int(m.group("lo")), ip_value(m), int(m.group("lc")), int(m.group("ld")), m.group("rest")
    if not (a == c == d):
        raise Shape(fn + ": loop constants disagree")
    steps = []
    while True:
        m = re.match(r"^if\(" + I_PLUS_LE + r"\)\{" + call_l + r"(?P<adv>i\+=(?P<k3>\d+);)?\}(?P<rest>.*)$", rest)
        if not m:
            break
        k, k2, adv, k3, rest = ip_value(m), int(m.group("lc")), m.group("adv"), m.group("k3"), m.group("rest")
        if k != k2 or (adv and int(k3) != k):
            raise Shape(fn + ": step constants disagree")
        steps.append((k, bool(adv)))
    if clr:
        m = re.match(r"^i=" + E + r";store_intrinreg16\(\(void\*\)\(\(char\*\)dst\+i\),zero\);$", rest)
    else:
        m = re.match(r"^i=" + E + r";tail=load_intrinreg16\(\(constvoid\*\)\(\(constchar\*\)src\+i\)\);store_intrinreg16\(\(void\*\)\(\(char\*\)dst\+i\),tail\);$", rest)
    if not m:
        raise Shape(fn + ": tail move not recognised at " + rest[:80])
    return {"lo": lo, "loop": a, "steps": steps, "tail": affine(m.group(1), fn), "tail_w": 16}


def top(src, fn, hi, lo_fn, clr):
    b = body_of(src, fn)
    args = r"dst,nbytes" if clr else r"dst,src,nbytes"
    m = re.match(r"^if\(%s\)\{?%s\(%s\);\}?else\{?%s\(%s\);\}?$" % (GE_NBYTES, hi, args, lo_fn, args), b)
    if not m:
        # the same split written the other way round: if (nbytes < K) lte32 else gte16
        m2 = re.match(r"^if\(\(?(?:nbytes<(?P<lt>\d+)|nbytes<=(?P<le>\d+))\)?\)\{?%s\(%s\);\}?else\{?%s\(%s\);\}?$" % (lo_fn, args, hi, args), b)
        if not m2:
            raise Shape(fn + " body does not match the template")
        return int(m2.group("lt")) if m2.group("lt") is not None else int(m2.group("le")) + 1
    return ge_value(m)


def parse(repo):
    raw = open(os.path.join(repo, "include", "memcpy_inline.h")).read()
    src = strip(raw)
    in_use = {}
    for mac in ("memcpy_varlen", "memcpy_fixedlen", "memclr_varlen", "memclr_fixedlen"):
        m = re.search(r"#define\s+%s(\([^)]*\))?\s+(\S.*)" % mac, src)
        if not m:
            raise Shape("no #define of " + mac)
        in_use[mac] = m.group(2).strip()
    cfg = {}
    for clr, key in ((False, "copy"), (True, "clear")):
        p = "memclr" if clr else "memcpy"
        cfg[key] = {
            "between": between(src, clr),
            "lte32_var": ladder(src, p + "_lte32_sse_varlen", clr, False),
            "lte32_fix": ladder(src, p + "_lte32_sse_fixedlen", clr, True),
            "fx": gte16_fixed(src, p + "_gte16_sse_fixedlen", clr),
            "vl": gte16_var(src, p + "_gte16_sse_varlen", clr),
            "top_var": top(src, p + "_sse_varlen", p + "_gte16_sse_varlen", p + "_lte32_sse_varlen", clr),
            "top_fix": top(src, p + "_sse_fixedlen", p + "_gte16_sse_fixedlen", p + "_lte32_sse_fixedlen", clr),
        }
    return in_use, cfg


def zl(l):
    return "[" + "; ".join("(%d, %d, %d)" % t for t in l) + "]"


def generate(repo):
    in_use, cfg = parse(repo)
    out = ["(* generated by tr/memcpy_classes.py from include/memcpy_inline.h - do not edit *)",
           "From Coq Require Import ZArith List.", "From ISAL Require Import Model.FootprintMemcpy.",
           "Import ListNotations.", "Local Open Scope Z_scope.", ""]
    for mac, val in sorted(in_use.items()):
        out.append("(* #define %s %s *)" % (mac, val))
    out.append("Definition inline_copies_in_use : bool := %s." % ("true" if in_use["memcpy_varlen"] == "memcpy_sse_varlen" else "false"))
    for key in ("copy", "clear"):
        c = cfg[key]
        b = c["between"]
        out.append("")
        out.append("Definition mc_%s : mc_cfg := {|" % key)
        out.append("  b_single_ld := %s; b_single_st := %s;" % (zl(b["single_ld"]), zl(b["single_st"])))
        out.append("  b_both_ld := %s; b_both_st := %s;" % (zl(b["both_ld"]), zl(b["both_st"])))
        out.append("  is_copy := %s;" % ("true" if key == "copy" else "false"))
        out.append("  lte32_var := [%s];" % "; ".join("(%d, %d, %s)" % (t, n, "true" if f else "false") for t, n, f in c["lte32_var"]))
        out.append("  lte32_fix := [%s];" % "; ".join("(%d, %d, %s)" % (t, n, "true" if f else "false") for t, n, f in c["lte32_fix"]))
        out.append("  fx_w := %d; fx_unroll := %d; fx_tail_sub := %d; fx_tail_mask := %d;" % (c["fx"]["w"], c["fx"]["unroll"], c["fx"]["tail_sub"], c["fx"]["tail_mask"]))
        out.append("  vl_loop := %d; vl_steps := [%s];" % (c["vl"]["loop"], "; ".join("(%d, %s)" % (k, "true" if a else "false") for k, a in c["vl"]["steps"])))
        out.append("  vl_tail := (%d, %d, %d); vl_tail_w := %d;" % (c["vl"]["tail"] + (c["vl"]["tail_w"],)))
        out.append("  top_var := %d; top_fix := %d |}." % (c["top_var"], c["top_fix"]))
    return "\n".join(out) + "\n"


if __name__ == "__main__":
    import sys
    print(generate(sys.argv[1] if len(sys.argv) > 1 else "/repo"))
