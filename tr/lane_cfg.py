"""Translator for the lane-level configuration of the multi-buffer hash managers:
Gen/LaneCfgGen.v (records of Model/LaneMgr.v's family_cfg, one per (algorithm, family)).

Read from /repo's current tree on every run, one source construct -> one field:
  * <algo>_mb/<algo>_mb_mgr_init_*.c (the init function the family's context layer calls):
    the unused_lanes literal(s), the initial lens[] values;
  * <algo>_mb/<algo>_mb_mgr_submit_<fam>.asm: how a lane is popped (mask, entry width), how the
    length word is packed (shl/or + dword store, or a store of the high dword only), when the
    lanes are run (cmp unused_lanes, literal / cmp num_lanes_inuse, n), how many lens[] entries the
    min search covers, the index mask, the cleared low bits of the subtrahend, the retire block
    (push width, num_lanes_inuse decrement on the len_is_0 path, lens[idx] := 0xFFFFFFFF or not);
  * <algo>_mb/<algo>_mb_mgr_flush_<fam>.asm: the emptiness test (counter / bt unused_lanes, k), the
    number of lanes, the idle-lane length store, the single-buffer threshold compare (macro value
    from <algo>_job.asm) and the same min/retire facts, which must agree with submit's;
  * sha512_sb_mgr_*_sse4.c and the base contexts: immediate (no lanes).
Which manager entry points a family uses comes from tr/hash_cfg.py (undefined symbols of the
context-layer object).  The translator is deliberately dumb and FAILS CLOSED: a construct it
does not recognise raises LaneCfgError (reported by the check as a broken correspondence);
what the fields must satisfy is decided by Model/LaneMgr.v's cfg_wf, in Coq."""
import os, re, subprocess, tempfile

import hash_cfg


class LaneCfgError(RuntimeError):
    pass


def _read(p):
    with open(p, errors="replace") as fh:
        return fh.read()


def _num(s):
    s = s.strip()
    return int(s, 16) if s.lower().startswith("0x") else int(s)


def _expr(s):
    """tiny constant expression: a+b, a*b with decimal/hex literals"""
    s = s.strip()
    if not re.fullmatch(r"[0-9a-fA-FxX+* ]+", s):
        raise LaneCfgError("constant expression not understood: %r" % s)
    tot = 0
    for term in s.split("+"):
        v = 1
        for f in term.split("*"):
            v *= _num(f)
        tot += v
    return tot


_REGS = set("rax rbx rcx rdx rsi rdi rbp rsp r8 r9 r10 r11 r12 r13 r14 r15".split())
_NASM_DEFS = ["-f", "elf64", "-DINTEL_CET_ENABLED", "-DSAFE_DATA", "-DSAFE_PARAM", "-DAS_FEATURE_LEVEL=10"]
_pp_cache = {}


def preprocess(repo, path):
    """The assembler's own view of a manager file: `nasm -E` (the build's format, defines and include
    path) expands every macro, %if / %elif / %else / %error on assemble-time constants (the
    START_FIELDS/FIELD arithmetic of the included *_datastruct.asm / *_job.asm), %rep, %assign and the
    threshold / status constants - so none of that source-level structure matters to the translator.
    Only the ROLE names survive: the file's own `%define <name> <register or other role>` lines are
    commented out first and DWORD()/BYTE()/WORD() are made to expand to themselves, so the text still
    says `mov unused_lanes, [state + _unused_lanes]` and not `mov rbx, [rdi + _unused_lanes]` (field
    offsets are `equ` symbols, which the preprocessor leaves alone).
    -> (normalised instruction lines, assemble-time _LANE_DATA_size)"""
    with open(path, errors="replace") as fh:
        text = fh.read()
    key = (path, hash(text))
    if key in _pp_cache:
        return _pp_cache[key]
    src = text.split("\n")
    last_inc = max([k for k, l in enumerate(src) if re.match(r"\s*%include\b", l)] or [-1])
    alias, out = set(), []
    for k, l in enumerate(src):
        m = re.match(r"\s*%define\s+(\w+)\s+(\w+)\s*(;.*)?$", l)
        if m and (m.group(2) in _REGS or m.group(2) in alias):
            alias.add(m.group(1))
            out.append(";" + l)
        else:
            out.append(l)
        if k == last_inc:
            for w in ("DWORD", "BYTE", "WORD"):
                out += ["%%undef %s" % w, "%%define %s(r) %s(r)" % (w, w)]
    out.append("LANE_DATA_SIZE_IS _LANE_DATA_size")
    d = os.path.dirname(path)
    with tempfile.NamedTemporaryFile("w", suffix=".asm", prefix="lanecfg-", dir="/var/tmp", delete=False) as fh:
        fh.write("\n".join(out) + "\n")
        tmp = fh.name
    try:
        pr = subprocess.run(["nasm", "-E"] + _NASM_DEFS + ["-I" + repo + "/", "-I" + d + "/", "-I" + os.path.join(repo, "include") + "/", tmp],
                            stdout=subprocess.PIPE, stderr=subprocess.PIPE, text=True, timeout=120, errors="replace")
    finally:
        os.unlink(tmp)
    if pr.returncode != 0:
        raise LaneCfgError("%s: nasm -E fails: %s" % (os.path.basename(path), " ".join(pr.stderr.split())[:300]))
    lines, lds = [], None
    for raw in pr.stdout.split("\n"):
        l = re.sub(r"\s+", " ", raw.split(";", 1)[0]).strip()
        if not l or l.startswith("%line"):
            continue
        m = re.fullmatch(r"LANE_DATA_SIZE_IS (\w+)", l)
        if m:
            lds = int(m.group(1)) if m.group(1).isdigit() else None
            continue
        l = re.sub(r"\s*,\s*", ", ", l)
        # a label and an instruction on one line
        m = re.fullmatch(r"(\w+:) (.+)", l)
        if m and not m.group(2).startswith(("equ", "=")):
            lines += [m.group(1), m.group(2)]
        else:
            lines.append(l)
    if lds is None:
        raise LaneCfgError("%s: _LANE_DATA_size is not an assemble-time constant" % os.path.basename(path))
    _pp_cache[key] = (lines, lds)
    return lines, lds


def _body(lines, sym):
    """-> (instructions of function `sym` up to the next section, {data label: [values]})"""
    try:
        i = lines.index(sym + ":")
    except ValueError:
        raise LaneCfgError("label %s: not found" % sym)
    j = i + 1
    while j < len(lines) and not lines[j].startswith("[section"):
        j += 1
    body = lines[i + 1:j]
    data, cur = {}, None
    for l in lines[j:]:
        m = re.fullmatch(r"(\w+):", l)
        if m:
            cur = m.group(1)
            data[cur] = []
            continue
        m = re.fullmatch(r"d[qd] (.+)", l)
        if m and cur is not None:
            try:
                data[cur] += [_num(x) for x in m.group(1).split(",")]
            except ValueError:
                pass
    if "return:" not in body or "ret" not in body[body.index("return:"):]:
        raise LaneCfgError("%s: no return: label / ret" % sym)
    return body, data


def _one(pat, lines, what, sym, allow_none=False):
    hits = [(k, m) for k, l in enumerate(lines) for m in [re.fullmatch(pat, l)] if m]
    if not hits:
        if allow_none:
            return None, None
        raise LaneCfgError("%s: %s not found" % (sym, what))
    return hits[0]


def _lowbits(mask, what):
    """mask = 2^k - 1 -> k"""
    k = mask.bit_length()
    if mask != (1 << k) - 1:
        raise LaneCfgError("%s: mask 0x%x is not of the form 2^k-1" % (what, mask))
    return k


def _prod(a, b, lds):
    """`I * size` / `size*I` with size = _LANE_DATA_size -> I (None if neither factor is the size)"""
    a, b = _num(a), _num(b)
    if b == lds:
        return a
    if a == lds:
        return b
    return None


def _lane_slot(lines, index, lds, sym, what):
    """is `lane_data` the address of ldata[<index>] in these lines - imul+lea, or one scaled lea?"""
    if "imul lane_data, %s, %d" % (index, lds) in lines and "lea lane_data, [state + _ldata + lane_data]" in lines:
        return True
    if "lea lane_data, [state + _ldata + %d*%s]" % (lds, index) in lines or "lea lane_data, [state + _ldata + %s*%d]" % (index, lds) in lines:
        return True
    return False


def _job_slot_forms(index, lds):
    """the ways ldata[<index>].job_in_lane is addressed directly"""
    return ["[state + _ldata + %d*%s + _job_in_lane]" % (lds, index), "[state + _ldata + %s*%d + _job_in_lane]" % (index, lds),
            "[state + _ldata + _job_in_lane + %d*%s]" % (lds, index)]


def _null_exit(body, k, sym):
    """the conditional jump body[k] leaves the function returning NULL: to the return_null trampoline
    (xor job_rax ; jmp return), or straight to `return` with rax zeroed just before the compare"""
    m = re.fullmatch(r"j\w+ (\w+)", body[k])
    tgt = m.group(1)
    if tgt == "return_null":
        if "return_null:" not in body:
            raise LaneCfgError("%s: jump to a return_null label that does not exist" % sym)
        t = body.index("return_null:")
        if body[t + 1:t + 3] != ["xor job_rax, job_rax", "jmp return"] and body[t + 1:t + 3] != ["xor DWORD(job_rax), DWORD(job_rax)", "jmp return"]:
            raise LaneCfgError("%s: return_null does not return NULL" % sym)
        return
    if tgt == "return":
        j = k - 1
        while j >= 0 and re.match(r"(cmp|test|bt) ", body[j]):
            j -= 1
        if j >= 0 and body[j] in ("xor job_rax, job_rax", "xor DWORD(job_rax), DWORD(job_rax)"):
            return
        raise LaneCfgError("%s: jump to the epilogue without a zeroed return value" % sym)
    raise LaneCfgError("%s: exit %r not understood" % (sym, body[k]))


JUNK, ZERO = "junk", "zero"


def _vec_min(body, data, W, sym):
    """Symbolic evaluation of the VECTOR min search on dword lanes: which lens[] elements the value that
    becomes idx/len2 is the minimum of, and what is subtracted from every lane.  A lane value is JUNK, ZERO
    or (frozenset of lens[] element indices, part, cleared low bits) with part 'w' (a 32-bit element) or
    'lo'/'hi' (the halves of a 64-bit element).  Instruction selection, shuffles, whether the minimum ends
    up in one lane or in all, whether the mask constant covers one dword or all - none of it matters:
    -> (set of elements the extracted minimum ranges over, cleared bits of the subtrahend, elements
    subtracted from).  Anything it cannot follow is an error that names the instruction."""
    regs = {}                                   # register number -> 8 dword lanes
    loaded = {}                                 # register number -> (byte offset, size) while it still holds lens[] unchanged
    epd = W // 32                               # dwords per element

    def rn(x):
        m = re.fullmatch(r"([xy])mm(\d+)", x)
        if not m:
            raise LaneCfgError("%s: operand %r not understood in the min search" % (sym, x))
        return int(m.group(2)), (4 if m.group(1) == "x" else 8)

    def get(x):
        n, w = rn(x)
        return list(regs.get(n, [JUNK] * 8))[:w]

    def put(x, lanes, vex):
        n, w = rn(x)
        old = list(regs.get(n, [JUNK] * 8))
        regs[n] = lanes + ([ZERO] * 4 if vex else old[4:]) if w == 4 else lanes
        loaded.pop(n, None)

    def vmin(a, b):
        out = []
        for k in range(0, len(a), epd):
            x, y = a[k:k + epd], b[k:k + epd]
            ok = all(isinstance(v, tuple) and v[2] == 0 for v in x + y) and \
                [v[1] for v in x] == [v[1] for v in y] == (["w"] if epd == 1 else ["lo", "hi"]) and \
                len({v[0] for v in x}) == 1 and len({v[0] for v in y}) == 1
            out += [(x[0][0] | y[0][0], v[1], 0) for v in x] if ok else [JUNK] * epd
        return out

    idx_src, sub_clear, sub_from = None, None, set()
    for l in body:
        m = re.fullmatch(r"(v?)movdq[au] ([xy]mm\d+), \[state \+ _lens \+ (\d+)\*(16|32)\]", l)
        if m:
            off, sz = int(m.group(3)) * int(m.group(4)), int(m.group(4))
            lanes = [(frozenset([(off + 4 * d) // (W // 8)]), "w" if epd == 1 else ("lo", "hi")[d % 2], 0) for d in range(sz // 4)]
            put(m.group(2), lanes, bool(m.group(1)))
            loaded[rn(m.group(2))[0]] = (off, sz)
            continue
        m = re.fullmatch(r"(v?)movdq[au] \[state \+ _lens \+ (\d+)\*(16|32)\], ([xy]mm\d+)", l)
        if m:
            continue                            # the stores are checked against the loads by the caller
        m = re.fullmatch(r"(v?)movdqa ([xy]mm\d+), ([xy]mm\d+)", l)
        if m:
            put(m.group(2), get(m.group(3)), bool(m.group(1)))
            continue
        m = re.fullmatch(r"vpminu([dq]) ([xy]mm\d+), ([xy]mm\d+), ([xy]mm\d+)", l) or None
        m2 = re.fullmatch(r"pminu([dq]) (xmm\d+), (xmm\d+)", l)
        if m or m2:
            t, d, a, b = (m.group(1), m.group(2), m.group(3), m.group(4)) if m else (m2.group(1), m2.group(2), m2.group(2), m2.group(3))
            if (t == "d") != (W == 32):
                raise LaneCfgError("%s: %r on %d-bit lens[] elements" % (sym, l, W))
            put(d, vmin(get(a), get(b)), bool(m))
            continue
        m = re.fullmatch(r"vpalignr ([xy]mm\d+), ([xy]mm\d+), ([xy]mm\d+), (\d+)", l)
        m2 = re.fullmatch(r"palignr (xmm\d+), (xmm\d+), (\d+)", l)
        if m or m2:
            d, a, b, imm = (m.group(1), m.group(2), m.group(3), int(m.group(4))) if m else (m2.group(1), m2.group(1), m2.group(2), int(m2.group(3)))
            if imm % 4:
                raise LaneCfgError("%s: %r: byte shift not a multiple of 4" % (sym, l))
            A, B = get(a), get(b)
            out = []
            for h in range(0, len(B), 4):
                cat = B[h:h + 4] + A[h:h + 4] + [ZERO] * 4
                out += cat[imm // 4:imm // 4 + 4]
            put(d, out, bool(m))
            continue
        m = re.fullmatch(r"(v?)pshufd ([xy]mm\d+), ([xy]mm\d+), (\w+)", l)
        if m:
            imm, S = _num(m.group(4)), get(m.group(3))
            out = []
            for h in range(0, len(S), 4):
                out += [S[h + ((imm >> (2 * k)) & 3)] for k in range(4)]
            put(m.group(2), out, bool(m.group(1)))
            continue
        m = re.fullmatch(r"vperm2i128 (ymm\d+), (ymm\d+), (ymm\d+), (\w+)", l)
        if m:
            imm, A, B = _num(m.group(4)), get(m.group(2)), get(m.group(3))
            if imm & 0x88:
                raise LaneCfgError("%s: %r: zeroing form not understood" % (sym, l))
            halves = [A[:4], A[4:], B[:4], B[4:]]
            put(m.group(1), halves[imm & 3] + halves[(imm >> 4) & 3], True)
            continue
        m = re.fullmatch(r"vextracti128 (xmm\d+), (ymm\d+), (\w+)", l)
        if m:
            S = get(m.group(2))
            put(m.group(1), S[4:] if _num(m.group(3)) & 1 else S[:4], True)
            continue
        m = re.fullmatch(r"v?movd DWORD\(idx\), (xmm\d+)", l)
        if m:
            v = get(m.group(1))[0]
            if W != 32 or not isinstance(v, tuple) or v[1] != "w" or v[2]:
                raise LaneCfgError("%s: idx is not taken from a minimum of lens[] words (%s)" % (sym, v))
            idx_src = v[0]
            continue
        m = re.fullmatch(r"v?movq idx, (xmm\d+)", l)
        if m:
            v = get(m.group(1))[:2]
            if W != 64 or not all(isinstance(x, tuple) and x[2] == 0 for x in v) or [x[1] for x in v] != ["lo", "hi"] or v[0][0] != v[1][0]:
                raise LaneCfgError("%s: idx is not taken from a minimum of lens[] words (%s)" % (sym, v))
            idx_src = v[0][0]
            continue
        m = re.fullmatch(r"vpand ([xy]mm\d+), ([xy]mm\d+), \[rel (\w+)\]", l)
        m2 = re.fullmatch(r"pand (xmm\d+), \[rel (\w+)\]", l)
        if m or m2:
            d, a, lab = (m.group(1), m.group(2), m.group(3)) if m else (m2.group(1), m2.group(1), m2.group(2))
            A = get(a)
            vals = data.get(lab) or []
            dw = [x for q in vals for x in (q & 0xFFFFFFFF, q >> 32)]
            if len(dw) < len(A):
                raise LaneCfgError("%s: mask constant %s is shorter than the register it masks" % (sym, lab))
            out = []
            for v, mk in zip(A, dw):
                if mk == 0 or v == ZERO:
                    out.append(ZERO)
                elif v == JUNK:
                    out.append(JUNK)
                elif mk == 0xFFFFFFFF:
                    out.append(v)
                else:
                    low = (mk & -mk).bit_length() - 1
                    if mk != (0xFFFFFFFF >> low << low) or v[2]:
                        raise LaneCfgError("%s: mask constant %s: dword 0x%x is not of the form ~(2^k-1)" % (sym, lab, mk))
                    out.append((v[0], v[1], low))
            put(d, out, bool(m))
            continue
        m = re.fullmatch(r"vpsub([dq]) ([xy]mm\d+), ([xy]mm\d+), ([xy]mm\d+)", l)
        m2 = re.fullmatch(r"psub([dq]) (xmm\d+), (xmm\d+)", l)
        if m or m2:
            t, d, a, b = (m.group(1), m.group(2), m.group(3), m.group(4)) if m else (m2.group(1), m2.group(2), m2.group(2), m2.group(3))
            n = rn(a)[0]
            if d != a or n not in loaded:
                raise LaneCfgError("%s: %r does not subtract from an unchanged lens[] vector" % (sym, l))
            off, sz = loaded[n]
            Bv = get(b)
            for k in range(0, sz // 4, epd):
                e = Bv[k:k + epd]
                if epd == 1:
                    ok = isinstance(e[0], tuple) and e[0][1] == "w"
                    cl = e[0][2] if ok else None
                    src = e[0][0] if ok else None
                else:
                    # (dword-wise subtraction of {0, hi} is the 64-bit subtraction: no borrow out of the zero half)
                    ok = isinstance(e[1], tuple) and e[1][1] == "hi" and (e[0] == ZERO or (isinstance(e[0], tuple) and e[0][1] == "lo" and e[0][0] == e[1][0] and t == "q"))
                    cl = (32 + e[1][2] if e[0] == ZERO else (e[0][2] if ok and e[1][2] == 0 else None)) if ok else None
                    src = e[1][0] if ok else None
                if not ok or cl is None or (t == "d" and epd == 2 and e[0] != ZERO):
                    raise LaneCfgError("%s: %r: lane %d is not reduced by the masked minimum (%s)" % (sym, l, (off + 4 * k) // (W // 8), e))
                if sub_clear not in (None, cl) or (idx_src is not None and src != idx_src):
                    raise LaneCfgError("%s: %r: lanes are reduced by different amounts" % (sym, l))
                sub_clear = cl
                sub_from.add((off + 4 * k) // (W // 8))
            regs_n = list(regs[n])
            regs[n] = regs_n                    # (value now lens - min: only stored back)
            continue
        if re.search(r"\b[xy]mm\d+\b", l):
            raise LaneCfgError("%s: vector instruction %r not understood in the min search" % (sym, l))
    if idx_src is None or sub_clear is None:
        raise LaneCfgError("%s: vector min search: no extraction of the minimum / no subtraction found" % sym)
    return idx_src, sub_clear, sub_from


def _scan_and_min(body, data, sym):
    """facts of the min search / subtraction block"""
    r = {}
    loaded = {}
    W = None
    for l in body:
        m = re.fullmatch(r"mov DWORD\(lens(\d)\), \[state \+ _lens \+ (\d+)\*4\]", l)
        if m:
            loaded[int(m.group(2)) * 4] = 4
            W = 32 if W in (None, 32) else "mixed"
        m = re.fullmatch(r"mov lens(\d), \[state \+ _lens \+ (\d+)\*8\]", l)
        if m:
            loaded[int(m.group(2)) * 8] = 8
            W = 64 if W in (None, 64) else "mixed"
        m = re.fullmatch(r"v?movdq[au] xmm\d+, \[state \+ _lens \+ (\d+)\*16\]", l)
        if m:
            loaded[int(m.group(1)) * 16] = 16
        m = re.fullmatch(r"vmovdq[au] ymm\d+, \[state \+ _lens \+ (\d+)\*32\]", l)
        if m:
            loaded[int(m.group(1)) * 32] = 32
    if not loaded:
        raise LaneCfgError("%s: no lens[] loads found in the min search" % sym)
    offs = sorted(loaded)
    nbytes = sum(loaded.values())
    if offs[0] != 0 or any(offs[k] + loaded[offs[k]] != offs[k + 1] for k in range(len(offs) - 1)):
        raise LaneCfgError("%s: min search does not cover a prefix of lens[]: %s" % (sym, loaded))
    r["scan_bytes"] = nbytes
    vector = W is None
    if W is None:
        if any(re.match(r"v?pminud ", l) for l in body):
            W = 32
        elif any(re.match(r"vpminuq ", l) for l in body):
            W = 64
    if W not in (32, 64):
        raise LaneCfgError("%s: cannot tell the lens[] element width" % sym)
    r["W"] = W
    stored = {}
    for l in body:
        for pat, sz in ((r"mov \[state \+ _lens \+ (\d+)\*4\], DWORD\(lens\d\)", 4), (r"mov \[state \+ _lens \+ (\d+)\*8\], lens\d", 8),
                        (r"v?movdq[au] \[state \+ _lens \+ (\d+)\*16\], xmm\d+", 16), (r"vmovdq[au] \[state \+ _lens \+ (\d+)\*32\], ymm\d+", 32)):
            m = re.fullmatch(pat, l)
            if m:
                stored[int(m.group(1)) * sz] = sz
    if stored != loaded:
        raise LaneCfgError("%s: subtraction stores %s differ from min-search loads %s" % (sym, stored, loaded))
    _, m = _one(r"and idx, (0x[0-9A-Fa-f]+)", body, "and idx, mask", sym)
    r["idx_bits"] = _lowbits(_num(m.group(1)), sym + " idx mask")
    nelem = nbytes // (W // 8)
    if vector:
        src, clear, sub_from = _vec_min(body, data, W, sym)
        if src != frozenset(range(nelem)):
            raise LaneCfgError("%s: the value idx/len2 are taken from is the minimum of lens[%s] only, not of all %d scanned lanes" % (
                sym, ",".join(str(x) for x in sorted(src)), nelem))
        if sub_from != set(range(nelem)):
            raise LaneCfgError("%s: the minimum is subtracted from lanes %s only" % (sym, sorted(sub_from)))
        r["clear_bits"] = clear
    else:
        # unsigned minimum by a cmovb chain that starts from lens0 and visits every loaded word
        scal = [l for l in body if re.fullmatch(r"cmovb idx, lens\d", l)]
        if len(scal) != nelem - 1 or "mov idx, lens0" not in body or \
                sorted(scal) != ["cmovb idx, lens%d" % k for k in range(1, nelem)] or \
                any("cmp lens%d, idx" % k not in body for k in range(1, nelem)):
            raise LaneCfgError("%s: scalar min chain does not visit every loaded lens[] word" % sym)
        if any(re.match(r"cmov\w+ idx, lens", l) and not l.startswith("cmovb ") for l in body):
            raise LaneCfgError("%s: min search uses an unexpected comparison" % sym)
        if any("sub lens%d, len2" % k not in body for k in range(nelem)):
            raise LaneCfgError("%s: the minimum is not subtracted from every scanned lane" % sym)
        _, m = _one(r"and len2, ~(0x[0-9A-Fa-f]+)", body, "and len2, ~mask", sym)
        r["clear_bits"] = _lowbits(_num(m.group(1)), sym + " len2 mask")
    _, m2 = _one(r"shr len2, (\d+)", body, "shr len2", sym)
    r["shift"] = int(m2.group(1))
    if len({mm.group(1) for l in body for mm in [re.fullmatch(r"shr len2, (\d+)", l)] if mm}) != 1:
        raise LaneCfgError("%s: len2 is shifted by different amounts" % sym)
    r["kernels"] = [mm.group(1) for l in body for mm in [re.fullmatch(r"call (\w+)", l)] if mm]
    return r


def _retire(body, lds, sym):
    """facts of the len_is_0 block (any order of its independent loads and stores)"""
    try:
        k = body.index("len_is_0:")
    except ValueError:
        raise LaneCfgError("%s: no len_is_0: label" % sym)
    blk = body[k + 1:body.index("return:")] if "return:" in body[k:] else body[k + 1:]
    r = {}
    via_reg = _lane_slot(blk, "idx", lds, sym, "retire") and "mov job_rax, [lane_data + _job_in_lane]" in blk and \
        "mov qword [lane_data + _job_in_lane], 0" in blk
    direct = any("mov job_rax, " + f in blk and "mov qword " + f + ", 0" in blk for f in _job_slot_forms("idx", lds))
    if not (via_reg or direct):
        raise LaneCfgError("%s: the retire block does not fetch and clear job_in_lane[idx]" % sym)
    _, m = _one(r"shl unused_lanes, (\d+)", blk, "", sym, allow_none=True)
    if m:
        if "mov unused_lanes, [state + _unused_lanes]" not in blk or "or unused_lanes, idx" not in blk or \
                "mov [state + _unused_lanes], unused_lanes" not in blk:
            raise LaneCfgError("%s: push onto unused_lanes not understood" % sym)
        r["push_bits"], r["stack_bits"] = int(m.group(1)), 64
    else:
        _, m = _one(r"shl lane, (\d+)", blk, "push onto unused_lanes", sym)
        if "mov lane, [state + _unused_lanes]" not in blk or "or lane, idx" not in blk or "mov [state + _unused_lanes], lane" not in blk or \
                not any(re.fullmatch(r"vmovdqu \w+, \[\(state \+ _unused_lanes\)-1\]", l) for l in blk) or \
                not any(re.fullmatch(r"vmovdqu \[\(state \+ _unused_lanes\)\], \w+", l) for l in blk):
            raise LaneCfgError("%s: byte-stack push not understood" % sym)
        r["push_bits"], r["stack_bits"] = int(m.group(1)), 256
    dec = ("sub dword [state + _num_lanes_inuse], 1" in blk or
           ("sub num_lanes_inuse, 1" in blk and "mov [state + _num_lanes_inuse], DWORD(num_lanes_inuse)" in blk and
            "mov DWORD(num_lanes_inuse), [state + _num_lanes_inuse]" in blk))
    if not dec:
        raise LaneCfgError("%s: num_lanes_inuse is not decremented on the len_is_0 path" % sym)
    if any(re.match(r"j\w+ ", l) for l in blk):
        raise LaneCfgError("%s: the retire block branches" % sym)
    r["retire_idle"] = None
    _, m = _one(r"mov dword \[state \+ _lens \+ 4\*idx\], (0x[0-9A-Fa-f]+)", blk, "", sym, allow_none=True)
    if m:
        r["retire_idle"] = _num(m.group(1))
    return r


def parse_submit(repo, path, sym):
    lines, lds = preprocess(repo, path)
    body, data = _body(lines, sym)
    if "len_is_0:" not in body:
        raise LaneCfgError("%s: no len_is_0: label" % sym)
    pre = body[:body.index("len_is_0:")]
    r = {"sym": sym}
    # pop
    if "mov unused_lanes, [state + _unused_lanes]" in pre:
        _, m = _one(r"shr unused_lanes, (\d+)", pre, "shr unused_lanes", sym)
        r["ent_bits"], r["stack_bits"] = int(m.group(1)), 64
        _, ma = _one(r"and lane, (0x[0-9A-Fa-f]+)", pre, "", sym, allow_none=True)
        if "movzx lane, BYTE(unused_lanes)" in pre:
            r["pop_bits"] = min(8, _lowbits(_num(ma.group(1)), sym + " lane mask")) if ma else 8
        elif "mov lane, unused_lanes" in pre and ma:
            r["pop_bits"] = _lowbits(_num(ma.group(1)), sym + " lane mask")
        else:
            raise LaneCfgError("%s: pop of unused_lanes not understood" % sym)
        if "mov [state + _unused_lanes], unused_lanes" not in pre:
            raise LaneCfgError("%s: popped stack is not stored back" % sym)
    elif "mov lane, [state + _unused_lanes]" in pre and \
            any(re.fullmatch(r"vmovdqu \w+, \[\(state \+ _unused_lanes\) \+ 1\]", l) for l in pre) and \
            any(re.fullmatch(r"vmovdqu \[\(state \+ _unused_lanes\)\], \w+", l) for l in pre):
        _, ma = _one(r"and lane, (0x[0-9A-Fa-f]+)", pre, "and lane, mask", sym)
        r["ent_bits"], r["stack_bits"], r["pop_bits"] = 8, 256, _lowbits(_num(ma.group(1)), sym + " lane mask")
    else:
        raise LaneCfgError("%s: pop of unused_lanes not understood" % sym)
    # pack
    if "mov [state + _lens + 4*lane], DWORD(len)" in pre:
        _, m = _one(r"shl len, ?(\d+)", pre, "shl len", sym)
        if "or len, lane" not in pre:
            raise LaneCfgError("%s: lane is not or-ed into the length word" % sym)
        r["pack"], r["pack_shift"], r["pack_W"] = "PackShiftOr", int(m.group(1)), 32
    elif "mov [state + _lens + 4 + 8*lane], DWORD(len)" in pre:
        r["pack"], r["pack_shift"], r["pack_W"] = "PackHighField", 32, 64
    else:
        raise LaneCfgError("%s: store of the length word not understood" % sym)
    if "mov DWORD(len), [job + _len]" not in pre:
        raise LaneCfgError("%s: the job length is not loaded as a dword" % sym)
    if not ((_lane_slot(pre, "lane", lds, sym, "submit") and "mov [lane_data + _job_in_lane], job" in pre) or
            any("mov " + f + ", job" in pre for f in _job_slot_forms("lane", lds))):
        raise LaneCfgError("%s: job_in_lane[lane] := job not understood" % sym)
    if "mov p, [job + _buffer]" not in pre or "mov [state + _args_data_ptr + 8*lane], p" not in pre:
        raise LaneCfgError("%s: data pointer of the lane not understood" % sym)
    if not ("add dword [state + _num_lanes_inuse], 1" in pre or
            ("add num_lanes_inuse, 1" in pre and "mov [state + _num_lanes_inuse], DWORD(num_lanes_inuse)" in pre and
             "mov DWORD(num_lanes_inuse), [state + _num_lanes_inuse]" in pre)):
        raise LaneCfgError("%s: num_lanes_inuse is not incremented" % sym)
    # run rule: the compare in front of the first conditional exit
    k, _m = _one(r"jne (return_null|return)", pre, "conditional NULL exit", sym)
    m1 = re.fullmatch(r"cmp unused_lanes, (0x[0-9A-Fa-f]+)", pre[k - 1])
    m2 = re.fullmatch(r"cmp num_lanes_inuse, (\d+)", pre[k - 1])
    if m1:
        r["run"] = ("RunStackEq", _num(m1.group(1)))
    elif m2:
        r["run"] = ("RunInuseEq", int(m2.group(1)))
    else:
        raise LaneCfgError("%s: run condition %r not understood" % (sym, pre[k - 1]))
    _null_exit(body, k, sym)
    if any(re.fullmatch(r"j\w+ (return_null|return)", l) for l in pre[k + 1:]) or any(re.match(r"j\w+ ", l) for l in pre[:k]):
        raise LaneCfgError("%s: unexpected branch structure" % sym)
    loop = pre[k + 1:]
    if [l for l in loop if re.match(r"j\w+ ", l)] != ["jz len_is_0"]:
        raise LaneCfgError("%s: unexpected branches in the min search: %s" % (sym, [l for l in loop if re.match(r"j\w+ ", l)]))
    r.update(_scan_and_min(loop, data, sym))
    r.update(_retire(body, lds, sym))
    _, m = _one(r"v?pextr[dq] \[state \+ _args_digest \+ ([48])\*lane \+ 1\*([0-9*]+)\], xmm\d+, 1", pre, "digest row stride", sym)
    r["digest_stride"] = _expr(m.group(2)) // int(m.group(1))
    return r


def parse_flush(repo, path, sym):
    lines, lds = preprocess(repo, path)
    body, data = _body(lines, sym)
    r = {"sym": sym}
    if "len_is_0:" not in body or "copy_lane_data:" not in body:
        raise LaneCfgError("%s: no len_is_0: / copy_lane_data: label" % sym)
    k, _m = _one(r"j[zc] (return_null|return)", body, "conditional NULL exit", sym)
    head = body[:k + 1]
    if body[k].startswith("jz ") and body[k - 1] in ("cmp dword [state + _num_lanes_inuse], 0", "cmp num_lanes_inuse, 0"):
        if body[k - 1] == "cmp num_lanes_inuse, 0" and "mov DWORD(num_lanes_inuse), [state + _num_lanes_inuse]" not in head:
            raise LaneCfgError("%s: emptiness test not understood" % sym)
        r["empty"] = ("EmptyInuse0", 0)
    elif body[k].startswith("jc ") and re.fullmatch(r"bt unused_lanes, ([0-9+ ]+)", body[k - 1]) and \
            "mov unused_lanes, [state + _unused_lanes]" in head:
        r["empty"] = ("EmptyBit", _expr(re.fullmatch(r"bt unused_lanes, ([0-9+ ]+)", body[k - 1]).group(1)))
    else:
        raise LaneCfgError("%s: emptiness test %r / %r not understood" % (sym, body[k - 1], body[k]))
    _null_exit(body, k, sym)
    c = body.index("copy_lane_data:")
    z = body.index("len_is_0:")
    if not (k < c < z) or any(re.fullmatch(r"j\w+ (return_null|return)", l) for l in body[k + 1:z]):
        raise LaneCfgError("%s: unexpected branch structure" % sym)
    # find a lane with a non-null job: idx := the highest occupied among 1..n-1, else 0
    find = body[k + 1:c]
    if not find or find[0] != "xor idx, idx":
        raise LaneCfgError("%s: lane search does not start from idx = 0" % sym)
    regval, want, pend = {}, 1, None
    for l in find[1:]:
        m = re.fullmatch(r"mov (?:DWORD\()?(\w+?)\)?, (\d+)", l)
        if m:
            regval[m.group(1)] = int(m.group(2))
            continue
        m = re.fullmatch(r"cmp qword \[state \+ _ldata \+ (\d+) ?\* ?(\d+) \+ _job_in_lane\], 0", l)
        if m:
            pend = _prod(m.group(1), m.group(2), lds)
            continue
        m = re.fullmatch(r"cmovne idx, (\[?\w+\]?)", l)
        if m:
            src = m.group(1)
            val = (data.get(src[1:-1]) or [None])[0] if src.startswith("[") else regval.get(src)
            if pend is None or pend != want or val != want:
                raise LaneCfgError("%s: lane search step %d not understood (lane %s, value %s)" % (sym, want, pend, val))
            want, pend = want + 1, None
            continue
        raise LaneCfgError("%s: lane search: %r not understood" % (sym, l))
    nsearch = want
    # copy the live pointer into idle lanes, give them the idle length
    copy = body[c + 1:z]
    if "mov tmp, [state + _args + _data_ptr + 8*idx]" not in copy[:2]:
        raise LaneCfgError("%s: copy_lane_data does not start from the live lane's pointer" % sym)
    pos = copy.index("mov tmp, [state + _args + _data_ptr + 8*idx]") + 1
    n, idle = 0, None
    while pos < len(copy):
        m = re.fullmatch(r"cmp qword \[state \+ _ldata \+ (\d+) ?\* ?(\d+) \+ _job_in_lane\], 0", copy[pos])
        mj = re.fullmatch(r"jne (\w+)", copy[pos + 1]) if m and pos + 1 < len(copy) else None
        if not m or not mj or _prod(m.group(1), m.group(2), lds) != n or (mj.group(1) + ":") not in copy[pos + 2:]:
            break
        e = copy.index(mj.group(1) + ":", pos + 2)
        blk = copy[pos + 2:e]
        stores = set(blk)
        ptr = "mov [state + _args + _data_ptr + 8*%d], tmp" % n
        m1 = [re.fullmatch(r"mov dword \[state \+ _lens \+ 4\*%d\], (0x[0-9A-Fa-f]+)" % n, x) for x in blk]
        m2 = [re.fullmatch(r"mov dword \[state \+ _lens \+ 4 \+ 8\*%d\], (0x[0-9A-Fa-f]+)" % n, x) for x in blk]
        if len(blk) != 2 or ptr not in stores:
            raise LaneCfgError("%s: idle-lane block %d not understood: %s" % (sym, n, blk))
        if any(m1):
            this = ("PackShiftOr", _num([x for x in m1 if x][0].group(1)))
        elif any(m2):
            this = ("PackHighField", _num([x for x in m2 if x][0].group(1)))
        else:
            raise LaneCfgError("%s: idle-lane length store of lane %d not understood: %s" % (sym, n, blk))
        if idle not in (None, this):
            raise LaneCfgError("%s: idle lanes get different lengths" % sym)
        idle = this
        n += 1
        pos = e + 1
    if n == 0:
        raise LaneCfgError("%s: copy_lane_data loop not understood" % sym)
    r["nlanes"], r["idle"] = n, idle
    if nsearch != n:
        raise LaneCfgError("%s: lane search covers %d lanes, the copy loop %d" % (sym, nsearch, n))
    after = copy[pos:]
    # single-buffer threshold
    r["threshold"] = None
    hit = [(i, m) for i, l in enumerate(after) for m in [re.fullmatch(r"cmp dword \[state \+ _num_lanes_inuse\], (\d+)", l)] if m]
    if hit:
        i, m = hit[0]
        if len(hit) != 1 or after[i + 1] != "ja mb_processing" or "mb_processing:" not in after:
            raise LaneCfgError("%s: threshold compare not understood" % sym)
        sb = after[i + 2:after.index("mb_processing:")]
        if "mov [state + _lens + idx*4], DWORD(idx)" not in sb or sb[-1] != "jmp len_is_0" or \
                len([l for l in sb if l.startswith("call ")]) != 1 or any(re.match(r"j\w+ ", l) for l in sb[:-1]):
            raise LaneCfgError("%s: single-buffer path not understood: %s" % (sym, sb))
        r["threshold"] = ("num_lanes_inuse <=", int(m.group(1)))
        minpart = after[:i] + after[after.index("mb_processing:") + 1:]
        jumps = [l for l in after[:i] + after[after.index("mb_processing:"):] if re.match(r"j\w+ ", l)]
    else:
        minpart = [l for l in after if l != "mb_processing:"]       # (a bare label nothing jumps to is a fall-through)
        jumps = [l for l in after if re.match(r"j\w+ ", l)]
    if jumps != ["jz len_is_0"]:
        raise LaneCfgError("%s: unexpected branches in the min search: %s" % (sym, jumps))
    r.update(_scan_and_min(minpart, data, sym))
    r.update(_retire(body, lds, sym))
    return r


def native_init(repo, libdir, hcfg):
    """{(algo, fam): {"ul": [words], "n": int, "lens": [...], "jobs": "0101.."} | {"error": text}}: what each family's
    manager init function really leaves behind - harness/lanes_drv.c `I` lines: the init function of the freshly
    built library EXECUTED on two different junk fills - so that how the C source writes it (literals, loops, a
    table) does not matter.  The probe binary is cached next to the library."""
    import hashlib
    here = os.path.dirname(os.path.dirname(os.path.abspath(__file__)))
    drv = os.path.join(here, "harness", "lanes_drv.c")
    rows = []
    for f in hcfg["fams"]:
        subs = [x for x in f["mgr"] if "_mgr_submit_" in x]
        fls = [x for x in f["mgr"] if "_mgr_flush_" in x]
        if f["mgr"] and f.get("init") and len(subs) == 1 and len(fls) == 1:
            rows.append("LF(%s, %s, %s, %s, %s, 0, 0, 0)" % (f["algo"], f["fam"], f["init"], subs[0], fls[0]))
    txt = "\n".join(rows) + "\n"
    with open(drv, "rb") as fh:
        key = hashlib.sha256(fh.read() + txt.encode()).hexdigest()[:12]
    inc = os.path.join(libdir, "lanes_init-%s.inc" % key)
    exe = os.path.join(libdir, "bin-lanesinit-%s" % key)
    if not os.path.exists(exe):
        with open(inc, "w") as fh:
            fh.write(txt)
        tmp = exe + ".tmp%d" % os.getpid()
        pr = subprocess.run(["gcc", "-O1", "-w", "-I", os.path.join(repo, "include"), "-I", repo, "-I", os.path.join(here, "harness"),
                             '-DLANES_FAMS_INC="%s"' % inc, drv, os.path.join(libdir, "isa-l_crypto.a"), "-lpthread", "-o", tmp],
                            stdout=subprocess.PIPE, stderr=subprocess.STDOUT, text=True, timeout=300)
        if pr.returncode != 0:
            return {"*": {"error": "init probe does not build: " + pr.stdout[-300:]}}
        os.replace(tmp, exe)
    fams = [(f["algo"], f["fam"]) for f in hcfg["fams"] if f["mgr"] and f.get("init")]
    pr = subprocess.run([exe], input="".join("I i%d %s %s\n" % (k, a, b) for k, (a, b) in enumerate(fams)), stdout=subprocess.PIPE,
                        stderr=subprocess.PIPE, text=True, timeout=120)
    out = {}
    for line in pr.stdout.split("\n"):
        t = line.split(" | ")
        h = t[0].split()
        if len(h) < 3:
            continue
        dumps = []
        for seg in t[1:]:
            kv = dict(x.split("=", 1) for x in seg.split() if "=" in x)
            if seg.startswith("init ") and "ul" in kv:
                dumps.append({"ul": [int(x, 16) for x in kv["ul"].split(",")], "n": int(kv["n"], 16),
                              "lens": [int(x, 16) for x in kv["lens"].split(",")], "jobs": kv.get("jobs", "")})
        if len(dumps) != 2:
            out[(h[1], h[2])] = {"error": "init probe gave no dump: " + line[:120]}
        else:
            out[(h[1], h[2])] = {"a": dumps[0], "b": dumps[1]}
    return out


def _init_native(nat, n, stack_bits, init):
    """the init facts from the executed init function, for the n lanes / stack words the asm uses; whatever these
    depend on must not depend on what the memory held before"""
    a, b = nat["a"], nat["b"]
    w = max(1, stack_bits // 64)
    for what, x, y in (("unused_lanes", a["ul"][:w], b["ul"][:w]), ("num_lanes_inuse", a["n"], b["n"]),
                       ("lens[]", a["lens"][:n], b["lens"][:n]), ("job_in_lane[]", a["jobs"][:n], b["jobs"][:n])):
        if x != y:
            raise LaneCfgError("%s leaves %s undefined (it depends on what the memory held before)" % (init, what))
    if a["n"] != 0 or "1" in a["jobs"][:n]:
        raise LaneCfgError("%s does not leave an empty manager (num_lanes_inuse=%d, job_in_lane=%s)" % (init, a["n"], a["jobs"][:n]))
    if len(a["ul"]) < w or len(a["lens"]) < n:
        raise LaneCfgError("%s: the manager has fewer unused_lanes words / lens[] elements than the asm uses" % init)
    return {"unused": sum(v << (64 * i) for i, v in enumerate(a["ul"][:w])), "lens": a["lens"][:n]}


def _init_facts(repo, algo, init):
    d = os.path.join(repo, algo + "_mb")
    body = None
    for f in sorted(os.listdir(d)):
        if f.endswith(".c"):
            body = hash_cfg._func_body(hash_cfg._strip_comments(_read(os.path.join(d, f))), init)
            if body is not None:
                break
    if body is None:
        raise LaneCfgError("no C definition of %s" % init)
    lits = [(int(i or 0), int(v, 16)) for i, v in
            re.findall(r"unused_lanes\s*(?:\[\s*(\d+)\s*\])?\s*=\s*(0[xX][0-9a-fA-F]+)", body)]
    if not lits or sorted(i for i, _ in lits) != list(range(len(lits))):
        raise LaneCfgError("%s: unused_lanes literal(s) not understood" % init)
    word = sum(v << (64 * i) for i, v in lits)
    if not re.search(r"memset\s*\(\s*state\s*,\s*0\s*,\s*sizeof", body):
        raise LaneCfgError("%s: no memset of the manager" % init)
    if not re.search(r"num_lanes_inuse\s*=\s*0\s*;", body):
        raise LaneCfgError("%s: num_lanes_inuse is not zeroed" % init)
    # lens: explicit elements and `lens[j] = <0 | 0xFFFFFFFF | j>` in a loop over the lanes
    lens = {}
    loopv = None
    for idx, val in re.findall(r"lens\s*\[\s*(\w+)\s*\]\s*=\s*(\w+)\s*;", body):
        if idx.isdigit():
            lens[int(idx)] = _num(val)
        elif idx == "j":
            if val == "j":
                loopv = "j"
            else:
                try:
                    loopv = _num(val)
                except ValueError:
                    raise LaneCfgError("%s: lens[j] = %s not understood" % (init, val))
        else:
            raise LaneCfgError("%s: lens[%s] not understood" % (init, idx))
    return {"unused": word, "nwords": len(lits), "lens_explicit": lens, "lens_loop": loopv}


def config(repo, libdir, hcfg=None):
    hcfg = hcfg or hash_cfg.config(repo, libdir)
    try:
        inits = native_init(repo, libdir, hcfg)
    except (OSError, subprocess.SubprocessError) as ex:
        inits = {"*": {"error": "init probe failed: %s" % ex}}
    out = []
    for f in hcfg["fams"]:
        algo, fam = f["algo"], f["fam"]
        bsize = hcfg["algos"][algo]["bsize"]
        ent = {"algo": algo, "fam": fam, "bsize": bsize, "immediate": False, "mgr": f["mgr"], "init": f["init"]}
        subs = [s for s in f["mgr"] if "_mgr_submit_" in s]
        fls = [s for s in f["mgr"] if "_mgr_flush_" in s]
        if not f["mgr"]:
            ent["immediate"], ent["why"] = True, "no manager (base context layer)"
            out.append(ent)
            continue
        if len(subs) != 1 or len(fls) != 1:
            raise LaneCfgError("%s/%s: expected one submit and one flush manager entry, got %s" % (algo, fam, f["mgr"]))
        d = os.path.join(repo, algo + "_mb")
        sp, fp = os.path.join(d, subs[0][1:] + ".asm"), os.path.join(d, fls[0][1:] + ".asm")
        if not os.path.exists(sp) and os.path.exists(os.path.join(d, subs[0][1:] + ".c")):
            src = hash_cfg._strip_comments(_read(os.path.join(d, subs[0][1:] + ".c")))
            fsrc = hash_cfg._strip_comments(_read(os.path.join(d, fls[0][1:] + ".c")))
            sb, fb = hash_cfg._func_body(src, subs[0]), hash_cfg._func_body(fsrc, fls[0])
            if sb is None or fb is None or not re.search(r"return\s+job\s*;", sb) or not re.fullmatch(r"\s*return\s+NULL\s*;\s*", fb):
                raise LaneCfgError("%s/%s: C manager is not the synchronous single-buffer shape" % (algo, fam))
            ent["immediate"], ent["why"] = True, "single-buffer manager in C: submit finishes the job, flush returns NULL"
            out.append(ent)
            continue
        try:
            _family(repo, hcfg, f, ent, sp, fp, subs, fls, inits.get((algo, fam)) or inits.get("*"))
        except LaneCfgError as ex:
            ent = {"algo": algo, "fam": fam, "bsize": bsize, "immediate": False, "mgr": f["mgr"], "init": f["init"],
                   "error": str(ex), "lanes_hint": f["lanes"]}
        out.append(ent)
    return out


def _family(repo, hcfg, f, ent, sp, fp, subs, fls, nat=None):
        algo, fam = f["algo"], f["fam"]
        s = parse_submit(repo, sp, subs[0])
        fl = parse_flush(repo, fp, fls[0])
        # init: the executed function decides; the parsed source (when the translator can read it) must agree
        try:
            ini = _init_facts(repo, algo, f["init"])
        except LaneCfgError as ex:
            ini, ini_err = None, str(ex)
        # submit and flush must tell the same story about the shared layout
        for a, b, what in (("ent_bits", "push_bits", "stack entry width (submit pop / flush push)"),):
            if s[a] != fl[b] or s[a] != s["push_bits"]:
                raise LaneCfgError("%s/%s: %s differ" % (algo, fam, what))
        for k in ("W", "shift", "idx_bits", "stack_bits"):
            if s[k] != fl[k]:
                raise LaneCfgError("%s/%s: submit and flush disagree on %s (%s / %s)" % (algo, fam, k, s[k], fl[k]))
        if s["pack_shift"] != s["shift"] or s["pack_W"] != s["W"] or fl["idle"][0] != s["pack"]:
            raise LaneCfgError("%s/%s: packing of the length word is not the one the min search unpacks" % (algo, fam))
        if s["clear_bits"] != fl["clear_bits"]:
            # harmless as long as both are <= shift and >= idx_bits (cfg_wf checks the one used); keep submit's but say so
            ent["note_clear"] = "submit clears %d low bits, flush %d" % (s["clear_bits"], fl["clear_bits"])
        if s["retire_idle"] != fl["retire_idle"]:
            raise LaneCfgError("%s/%s: submit and flush differ on lens[idx] after retiring" % (algo, fam))
        n = fl["nlanes"]
        Wb = s["W"] // 8
        plens = None
        if ini is not None:
            plens = []
            for j in range(n):
                if j in ini["lens_explicit"]:
                    plens.append(ini["lens_explicit"][j])
                elif ini["lens_loop"] == "j":
                    plens.append(j)
                elif ini["lens_loop"] is not None:
                    plens.append(ini["lens_loop"])
                else:
                    plens.append(0)
        if nat is not None and not nat.get("error"):
            got = _init_native(nat, n, s["stack_bits"], f["init"])
            if ini is not None and (ini["unused"] & ((1 << s["stack_bits"]) - 1) != got["unused"] or plens != got["lens"]):
                raise LaneCfgError("%s/%s: %s leaves unused_lanes=0x%x lens=%s but its source reads as unused_lanes=0x%x lens=%s" % (
                    algo, fam, f["init"], got["unused"], got["lens"], ini["unused"], plens))
            init_unused, lens = got["unused"], got["lens"]
            ent["init_from"] = "executed" + ("" if ini is not None else " (source not parsed: %s)" % ini_err)
        elif ini is not None:
            if ini["nwords"] * 64 < s["stack_bits"] and s["stack_bits"] != 64:
                raise LaneCfgError("%s/%s: init writes %d words of unused_lanes, the asm shifts through %d bits" % (algo, fam, ini["nwords"], s["stack_bits"]))
            init_unused, lens = ini["unused"], plens
            ent["init_from"] = "parsed (init probe: %s)" % ((nat or {}).get("error") or "not available")
        else:
            raise LaneCfgError("%s/%s: initial state unknown: %s; %s" % (algo, fam, (nat or {}).get("error") or "no init probe", ini_err))
        ent.update({"nlanes": n, "stack_bits": s["stack_bits"], "ent_bits": s["ent_bits"], "pop_bits": s["pop_bits"],
                    "init_unused": init_unused, "init_lens": lens, "W": s["W"], "shift": s["shift"],
                    "idx_bits": s["idx_bits"], "clear_bits": max(s["clear_bits"], fl["clear_bits"]) if s["pack"] == "PackHighField" else s["clear_bits"],
                    "pack": s["pack"], "idle_len": fl["idle"][1], "run": s["run"],
                    "submit_scan": s["scan_bytes"] // Wb, "flush_scan": fl["scan_bytes"] // Wb,
                    "empty": fl["empty"], "threshold": fl["threshold"], "retire_idle": s["retire_idle"],
                    "kernels": {"submit": s["kernels"], "flush": fl["kernels"]}, "digest_stride": s["digest_stride"]})
        if ent["flush_scan"] != n:
            raise LaneCfgError("%s/%s: flush min search covers %d lanes of %d" % (algo, fam, ent["flush_scan"], n))
        if s["clear_bits"] != fl["clear_bits"] and s["pack"] != "PackHighField":
            raise LaneCfgError("%s/%s: submit and flush clear different low bits (%d / %d)" % (algo, fam, s["clear_bits"], fl["clear_bits"]))
        if ent["retire_idle"] is not None and ent["retire_idle"] != ent["idle_len"]:
            raise LaneCfgError("%s/%s: retire stores 0x%x, flush 0x%x for idle lanes" % (algo, fam, ent["retire_idle"], ent["idle_len"]))


def coq_cfg(e):
    if e.get("error"):
        # not translated: a record that is NOT cfg_wf, so the obligation breaks and names the family
        return ("(* NOT TRANSLATED: %s *)\n    "
                "{| f_immediate := false; f_bsize := %d; f_nlanes := 0; f_stack_bits := 0; f_ent_bits := 0; f_pop_bits := 0;\n"
                "       f_init_unused := 0; f_init_lens := []; f_W := 0; f_shift := 0; f_idx_bits := 0; f_clear_bits := 0;\n"
                "       f_pack := PackShiftOr; f_idle_len := 0; f_run := RunInuseEq 0; f_submit_scan := 0; f_empty := EmptyInuse0;\n"
                "       f_sb_threshold := None; f_retire_idle := false |}" % (e["error"].replace("*)", "* )").replace("(*", "( *"), e["bsize"]))
    if e["immediate"]:
        return ("{| f_immediate := true; f_bsize := %d; f_nlanes := 0; f_stack_bits := 0; f_ent_bits := 0; f_pop_bits := 0;\n"
                "       f_init_unused := 0; f_init_lens := []; f_W := 0; f_shift := 0; f_idx_bits := 0; f_clear_bits := 0;\n"
                "       f_pack := PackShiftOr; f_idle_len := 0; f_run := RunInuseEq 0; f_submit_scan := 0; f_empty := EmptyInuse0;\n"
                "       f_sb_threshold := None; f_retire_idle := false |}" % e["bsize"])
    run = "%s 0x%x" % e["run"] if e["run"][0] == "RunStackEq" else "RunInuseEq %d" % e["run"][1]
    emp = "EmptyInuse0" if e["empty"][0] == "EmptyInuse0" else "EmptyBit %d" % e["empty"][1]
    thr = "Some %d" % e["threshold"][1] if e["threshold"] else "None"
    return ("{| f_immediate := false; f_bsize := %d; f_nlanes := %d; f_stack_bits := %d; f_ent_bits := %d; f_pop_bits := %d;\n"
            "       f_init_unused := 0x%x; f_init_lens := [%s];\n"
            "       f_W := %d; f_shift := %d; f_idx_bits := %d; f_clear_bits := %d; f_pack := %s; f_idle_len := 0x%x;\n"
            "       f_run := %s; f_submit_scan := %d; f_empty := %s; f_sb_threshold := %s; f_retire_idle := %s |}" % (
                e["bsize"], e["nlanes"], e["stack_bits"], e["ent_bits"], e["pop_bits"], e["init_unused"],
                "; ".join("0x%x" % x for x in e["init_lens"]), e["W"], e["shift"], e["idx_bits"], e["clear_bits"], e["pack"],
                e["idle_len"], run, e["submit_scan"], emp, thr, "true" if e["retire_idle"] is not None else "false"))


def generate(repo, libdir, cfgs=None, hcfg=None):
    cfgs = cfgs if cfgs is not None else config(repo, libdir, hcfg)
    L = ["(* GENERATED by tr/lane_cfg.py from *_mb/*_mb_mgr_init_*.c, *_mb/*_mb_mgr_{submit,flush}_*.asm, *_mb/*_job.asm,",
         "   sha512_mb/sha512_sb_mgr_*_sse4.c and the built archive - do not edit. *)",
         "From Coq Require Import NArith List String.",
         "From ISAL Require Import Model.HashCfg Model.LaneMgr Gen.HashCfgGen.",
         "Import ListNotations.", "Local Open Scope string_scope.", "Local Open Scope N_scope.", "",
         "Definition gen_lane_cfgs : list (string * string * family_cfg) := ["]
    rows = []
    for e in cfgs:
        rows.append('  ("%s", "%s",\n    %s)' % (e["algo"], e["fam"], coq_cfg(e)))
    L.append(";\n".join(rows) + "].")
    L += ["",
          "(* obligations: every regenerated configuration is well formed (the hypothesis of every theorem of",
          "   Proofs/LaneMgr*.v), and the lane tables are about the same (algorithm, family) pairs and the same",
          "   initial free-lane stacks as Gen/HashCfgGen.v *)",
          "Lemma gen_lane_cfgs_wf : forallb (fun x => cfg_wf (snd x)) gen_lane_cfgs = true.",
          "Proof. vm_compute. reflexivity. Qed.",
          "Lemma gen_lane_cfgs_pairs : lane_cfgs_match gen_hfams gen_lane_cfgs = true.",
          "Proof. vm_compute. reflexivity. Qed.", ""]
    return "\n".join(L)


if __name__ == "__main__":
    import sys, json
    sys.path.insert(0, os.path.join(os.path.dirname(os.path.abspath(__file__)), "..", "lib"))
    import vlib
    d = vlib.build("hook")
    c = config(vlib.REPO, d)
    if len(sys.argv) > 1 and sys.argv[1] == "json":
        print(json.dumps(c, indent=1))
    elif len(sys.argv) > 1 and sys.argv[1] == "table":
        for e in c:
            if e.get("error"):
                print("%-7s %-10s NOT TRANSLATED: %s" % (e["algo"], e["fam"], e["error"]))
            elif e["immediate"]:
                print("%-7s %-10s immediate (%s)" % (e["algo"], e["fam"], e["why"]))
            else:
                print("%-7s %-10s lanes=%-2d stack=%d/%d pop=%d init=0x%x W=%d shift=%d idx=%d clear=%d %s run=%s scan=%d empty=%s thr=%s retire_idle=%s kernels=%s" % (
                    e["algo"], e["fam"], e["nlanes"], e["ent_bits"], e["stack_bits"], e["pop_bits"], e["init_unused"], e["W"], e["shift"],
                    e["idx_bits"], e["clear_bits"], e["pack"], e["run"], e["submit_scan"], e["empty"], e["threshold"], e["retire_idle"], e["kernels"]))
    else:
        print(generate(vlib.REPO, d, c))
