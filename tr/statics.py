"""C18 translator: every object of the built (plain) library -> coq/Gen/StaticsGen.v

(a) `stores`: every instruction whose DESTINATION operand is a memory reference that a
    relocation resolves into a writable section of the same object or to a symbol defined in
    a writable section of another object (RIP-relative or absolute), with the function it
    sits in and the symbol it hits;
(b) `bss_syms` / `n_data_syms`: symbols of zero-initialised writable sections (every one is
    listed) and the number of symbols in initialised writable sections (hundreds of nasm
    constant tables: counted, listed in the evidence, not judged);
(c) `c_statics`: file-scope and function-local `static` variables of the library's C sources
    that are not const-qualified (clang AST), with the section the compiler put them in;
(d) `addr_taken`: how many instructions take the ADDRESS of something in a writable section
    (lea / mov imm): stores through such pointers are invisible here (run-time half).

One source construct -> one constructor; nothing is judged here."""
import concurrent.futures as cf
import json, os, re, subprocess


class TranslateError(Exception):
    pass


def sh(cmd, timeout=300):
    p = subprocess.run(cmd, stdout=subprocess.PIPE, stderr=subprocess.PIPE, text=True, timeout=timeout, errors="replace")
    if p.returncode != 0:
        raise TranslateError("command failed: %s\n%s" % (" ".join(cmd), p.stderr[-1000:]))
    return p.stdout


def sections(obj):
    """-> {name: {"w": bool, "bss": bool, "size": int, "alloc": bool}}"""
    out = {}
    lines = sh(["objdump", "-h", "-w", obj]).split("\n")
    for l in lines:
        m = re.match(r"^\s*\d+\s+(\S+)\s+([0-9a-f]+)\s+[0-9a-f]+\s+[0-9a-f]+\s+[0-9a-f]+\s+2\*\*(\d+)\s+(.*)$", l)
        if m:
            flags = [f.strip() for f in m.group(4).split(",")]
            align = int(m.group(3))
            # .data.rel.ro / .data.rel.ro.local hold const-qualified objects that need relocations (tables of
            # pointers): writable only for the dynamic loader, read-only afterwards (RELRO) - "relro", not "w"
            relro = m.group(1) == ".data.rel.ro" or m.group(1).startswith(".data.rel.ro.")
            out[m.group(1)] = {"w": "ALLOC" in flags and "READONLY" not in flags and "CODE" not in flags and not relro,
                               "relro": relro,
                               "bss": "ALLOC" in flags and "CONTENTS" not in flags and "LOAD" not in flags,
                               "size": int(m.group(2), 16), "alloc": "ALLOC" in flags, "align": align}
    return out


def symbols(obj):
    """-> list of dict(name, sec, value, size, kind)  (defined symbols only)"""
    out = []
    for l in sh(["objdump", "-t", obj]).split("\n"):
        m = re.match(r"^([0-9a-f]{16}) (.{7}) (\S+)\t([0-9a-f]{16}) +(?:\.hidden |\.protected |\.internal )?(\S+)$", l)
        if m and m.group(3) not in ("*UND*", "*ABS*", "*COM*"):
            out.append({"name": m.group(5), "sec": m.group(3), "value": int(m.group(1), 16), "size": int(m.group(4), 16), "flags": m.group(2)})
    return out


READ_ONLY_MNEM = re.compile(r"^(cmp|test|bt|push|call|jmp|nop|nopw|nopl|lea|prefetch\w*|v?u?comis[sd]|v?ptest|vtestp[sd]|"
                            r"vpcmp\w*|v?pcmp\w*|v?cmp[ps][sd]|clflush\w*|cldemote|bound)$")


def scan_object(obj):
    name = os.path.basename(obj)
    secs = sections(obj)
    syms = symbols(obj)
    wsecs = {s for s, f in secs.items() if f["w"]}
    store_secs = wsecs | {s for s, f in secs.items() if f.get("relro")}     # a store into const data is still reported
    by_sec = {}
    for s in syms:
        if s["sec"] in wsecs and s["name"] != s["sec"]:
            by_sec.setdefault(s["sec"], []).append(s)
    for l in by_sec.values():
        l.sort(key=lambda s: (s["value"], s["name"]))
    symsec = {s["name"]: (s["sec"], s["value"]) for s in syms}

    def covering(sec, off):
        best = None
        for s in by_sec.get(sec, []):
            if s["value"] <= off:
                best = s
        return best["name"] if best else "%s+0x%x" % (sec, off)

    stores, addr_taken, undefined_targets = [], 0, []
    refs = set()          # (enclosing label, referenced symbol name or writable symbol of this object)
    if not any(f.get("alloc") and n.startswith(".text") for n, f in secs.items()):
        pass
    txt = sh(["objdump", "-dr", "-M", "intel", "--insn-width=16", obj])
    cur_fn, last = None, None
    text_sec = None

    def finish(i):
        nonlocal addr_taken
        if i is None or not i["relocs"]:
            return
        for (off, rtype, sym, add) in i["relocs"]:
            if sym in secs:
                if sym in wsecs:
                    refs.add((i["func"] or "?", covering(sym, add + (i["end"] - off) if rtype in ("PC32", "PC64") else add)))
            else:
                refs.add((i["func"] or "?", sym))
            if rtype in ("PLT32", "GOTPCREL", "GOTPCRELX", "REX_GOTPCRELX", "GOTPCREL64", "TPOFF32", "GOTTPOFF"):
                if rtype.startswith("GOT") or "TPOFF" in rtype:
                    # GOT loads yield an address: stores through it are indirect (run-time half);
                    # thread-local storage is per-thread, not shared
                    addr_taken += 1 if rtype.startswith("GOT") else 0
                continue
            pcrel = rtype in ("PC32", "PC64")
            eff = add + (i["end"] - off) if pcrel else add
            if sym in secs:
                sec, soff = sym, eff
                defined_here = True
            elif sym in symsec:
                sec, soff = symsec[sym][0], symsec[sym][1] + eff
                defined_here = True
            else:
                sec, soff, defined_here = None, eff, False
            ops = i["ops"]
            mem_first = False
            parts = split_ops(ops)
            has_mem = [("[" in p) for p in parts]
            if not any(has_mem):
                # an immediate / address operand (mov reg, imm64 with R_X86_64_64; push imm32)
                if defined_here and sec in wsecs:
                    addr_taken += 1
                continue
            mem_first = has_mem[0]
            mnem = i["mnem"].split()[-1]
            if defined_here and sec not in store_secs:
                continue
            if mnem == "lea":
                if defined_here:
                    addr_taken += 1
                continue
            is_store = mem_first and not READ_ONLY_MNEM.match(mnem)
            if mnem in ("xchg", "xadd", "cmpxchg", "cmpxchg8b", "cmpxchg16b") and any(has_mem):
                is_store = True
            if mnem.startswith(("movs", "stos")) and mnem in ("movsb", "movsw", "movsd", "movsq", "stosb", "stosw", "stosd", "stosq"):
                is_store = True
            if not is_store:
                continue
            tgt = covering(sec, soff) if defined_here else sym
            rec = {"obj": name, "func": i["func"] or "?", "insn": (i["mnem"] + " " + ops).strip(), "target": tgt,
                   "section": sec if defined_here else "*UND*", "offset": soff - (symsec.get(tgt, (None, 0))[1] if defined_here and tgt in symsec else 0),
                   "addr": i["addr"]}
            if defined_here:
                stores.append(rec)
            else:
                undefined_targets.append(rec)

    # only instructions that carry a relocation matter: remember the previous raw line and
    # parse it when a relocation line follows (644 k instruction lines otherwise)
    prev_raw = None
    for l in txt.split("\n"):
        if "R_X86_64_" in l:
            m = re.match(r"^\s*([0-9a-f]+):\s+R_X86_64_(\w+)\s+(\S+?)([+-]0x[0-9a-f]+)?$", l)
            if not m:
                continue
            if last is None and prev_raw is not None:
                mi = re.match(r"^\s*([0-9a-f]+):\t((?:[0-9a-f]{2} )+)\s*\t?(.*)$", prev_raw)
                if mi:
                    text = re.sub(r"\s+#.*$", "", mi.group(3).strip())
                    parts = text.split(None, 1)
                    mnem = parts[0] if parts else ""
                    ops = parts[1].strip() if len(parts) > 1 else ""
                    while mnem.split() and mnem.split()[-1] in ("lock", "rep", "repz", "repnz", "notrack", "data16", "cs", "ds", "es", "fs", "gs", "bnd") and ops:
                        p2 = ops.split(None, 1)
                        mnem = mnem + " " + p2[0]
                        ops = p2[1].strip() if len(p2) > 1 else ""
                    addr = int(mi.group(1), 16)
                    last = {"addr": addr, "end": addr + len(mi.group(2).split()), "mnem": mnem, "ops": ops, "relocs": [], "func": cur_fn}
            if last is not None:
                last["relocs"].append((int(m.group(1), 16), m.group(2), m.group(3), int(m.group(4) or "0", 16)))
            continue
        if last is not None:
            finish(last)
            last = None
        if l.endswith(">:"):
            m = re.match(r"^([0-9a-f]{16}) <([^>]+)>:$", l)
            if m:
                cur_fn = m.group(2)
            prev_raw = None
            continue
        prev_raw = l
    finish(last)

    wsyms = []
    for sec, l in by_sec.items():
        for k, s in enumerate(l):
            nxt = [t["value"] for t in l if t["value"] > s["value"]]
            size = s["size"] or ((min(nxt) if nxt else secs[sec]["size"]) - s["value"])
            wsyms.append({"obj": name, "name": s["name"], "section": sec, "size": size, "bss": secs[sec]["bss"],
                          "global": s["flags"][0] == "g", "offset": s["value"], "align": secs[sec]["align"]})
    anon = [{"obj": name, "name": sec, "section": sec, "size": f["size"], "bss": f["bss"], "global": False, "offset": 0, "align": f["align"]}
            for sec, f in secs.items() if f["w"] and f["size"] > 0 and not by_sec.get(sec)]
    defs = sorted({x["name"] for x in syms if x["sec"].startswith(".text") and x["flags"][0] == "g"})
    return {"obj": name, "refs": sorted(refs), "defs": defs, "stores": stores, "und_stores": undefined_targets, "wsyms": wsyms + anon, "addr_taken": addr_taken,
            "wsecs": {s: secs[s]["size"] for s in wsecs if secs[s]["size"]},
            "relro_syms": [x["name"] for x in syms if secs.get(x["sec"], {}).get("relro") and x["name"] != x["sec"]]}


def split_ops(ops):
    out, depth, cur = [], 0, ""
    for c in ops:
        if c in "[{(":
            depth += 1
        elif c in "]})":
            depth -= 1
        if c == "," and depth == 0:
            out.append(cur.strip())
            cur = ""
        else:
            cur += c
    if cur.strip():
        out.append(cur.strip())
    return out


def scan_library(objdir):
    objs = sorted(os.path.join(objdir, f) for f in os.listdir(objdir) if f.endswith(".o"))
    if not objs:
        raise TranslateError("no objects in " + objdir)
    with cf.ProcessPoolExecutor(16) as ex:
        res = list(ex.map(scan_object, objs, chunksize=4))
    # stores whose target is defined in another object: resolve against the global writable symbols
    gl = {}
    for r in res:
        for s in r["wsyms"]:
            if s["global"]:
                gl[s["name"]] = s
    for r in res:
        for u in r["und_stores"]:
            if u["target"] in gl:
                u["section"] = gl[u["target"]]["section"] + "@" + gl[u["target"]]["obj"]
                r["stores"].append(u)
    return res

# ----------------------------------------------------------------------------- (c) C statics


def c_sources(repo, objdir):
    """library C sources = tracked *.c files whose basename matches a built object"""
    objs = {f[:-2] for f in os.listdir(objdir) if f.endswith(".o")}
    out = []
    for f in subprocess.run(["git", "-C", repo, "ls-files", "*.c"], stdout=subprocess.PIPE, text=True).stdout.split("\n"):
        b = os.path.basename(f)[:-2]
        if f and b in objs and not re.search(r"(_test|_perf|_example)\.c$", f) and not f.startswith(("tests/", "examples/")):
            out.append(f)
    return sorted(out)


def _walk(n, fn=None):
    k = n.get("kind")
    if k == "FunctionDecl":
        fn = n.get("name")
    yield n, fn
    for c in n.get("inner", []) or []:
        if isinstance(c, dict):
            yield from _walk(c, fn)


def top_const(qt):
    q = qt
    q = re.sub(r"\[[^\]]*\]", "", q).strip()     # array of T: constness of T
    if "*" in q:
        return "const" in q[q.rindex("*"):]
    return re.search(r"\bconst\b", q) is not None


def c_statics_of(repo, f, defs):
    src = os.path.join(repo, f)
    incs = []
    for d in sorted(os.listdir(repo)):
        dd = os.path.join(repo, d)
        if os.path.isdir(dd) and not d.startswith(".") and any(x.endswith(".h") for x in os.listdir(dd)):
            incs += ["-I", dd]
    p = subprocess.run(["clang", "-fsyntax-only", "-Xclang", "-ast-dump=json"] + defs +
                       ["-I", os.path.join(repo, "include"), "-I", repo, "-I", os.path.dirname(src)] + incs + [src],
                       stdout=subprocess.PIPE, stderr=subprocess.PIPE, text=True, timeout=300)
    if p.returncode != 0:
        raise TranslateError("clang failed on %s: %s" % (f, p.stderr[-800:]))
    ast = json.loads(p.stdout)
    out = []
    infile = True
    for top in ast.get("inner", []):
        loc = top.get("loc", {})
        if "file" in loc:
            infile = os.path.abspath(loc["file"]) == os.path.abspath(src)
        elif loc.get("includedFrom") is not None and "file" not in loc:
            pass
        if "includedFrom" in loc or (top.get("range", {}).get("begin", {}).get("includedFrom")):
            # declaration comes from a header
            continue
        if not infile:
            continue
        for n, fn in _walk(top):
            if n.get("kind") != "VarDecl":
                continue
            sc = n.get("storageClass")
            if fn is None:
                if sc == "extern" and not any(c.get("kind", "").endswith("Expr") or c.get("kind") == "InitListExpr" for c in n.get("inner", []) or []):
                    continue
            else:
                if sc != "static":
                    continue
            if n.get("tls"):
                continue
            qt = n.get("type", {}).get("qualType", "")
            out.append({"file": f, "name": n["name"], "func": fn or "", "type": qt, "const": top_const(qt)})
    return out


def scan_c(repo, objdir, fips):
    defs = ["-DSAFE_PARAM", "-DSAFE_DATA", "-DNDEBUG"] + (["-DFIPS_MODE"] if fips else [])
    srcs = c_sources(repo, objdir)
    with cf.ThreadPoolExecutor(16) as ex:
        res = list(ex.map(lambda f: c_statics_of(repo, f, defs), srcs))
    return srcs, [x for r in res for x in r]

# ----------------------------------------------------------------------------- output


def q(s):
    return '"' + s.replace('"', '""') + '"'


def generate(objdir, repo, fips=False):
    info = {}
    try:
        res = scan_library(objdir)
        srcs = c_sources(repo, objdir)
        err = None
    except TranslateError as e:
        res, srcs, err = [], [], str(e)
    cobj = {os.path.basename(f)[:-2] + ".o" for f in srcs}
    stores = [s for r in res for s in r["stores"]]
    wsyms = [s for r in res for s in r["wsyms"]]
    bss = [s for s in wsyms if s["bss"]]
    lines = ["(* GENERATED by tr/statics.py from the built library objects and the C sources — do not edit *)",
             "From Coq Require Import String List NArith.", "From ISAL Require Import Model.Statics.", "Import ListNotations.",
             "Local Open Scope string_scope.", ""]
    if err:
        lines.append("(* TRANSLATION FAILED (fail closed): %s *)" % err.replace("*)", "* )").replace("(*", "( *"))
    lines.append("Definition translate_ok : bool := %s." % ("false" if err else "true"))
    lines.append("Definition n_objects : nat := %d." % len(res))
    lines.append("(* (a) instructions that store into a writable section *)")
    lines.append("Definition stores : list store := [\n  " + ";\n  ".join(
        "mkStore %s %s %s %s %s" % (q(s["obj"]), q(s["func"]), q(s["target"]), q(s["section"]), q(s["insn"])) for s in stores) + "\n]." if stores
        else "Definition stores : list store := [].")
    lines.append("(* (b) symbols in zero-initialised writable sections (all of them), and the number in initialised ones *)")
    lines.append("Definition bss_syms : list wsym := [\n  " + ";\n  ".join(
        "mkWsym %s %s %s %d" % (q(s["obj"]), q(s["name"]), q(s["section"]), s["size"]) for s in bss) + "\n]." if bss
        else "Definition bss_syms : list wsym := [].")
    lines.append("Definition n_data_syms : nat := %d." % len([s for s in wsyms if not s["bss"]]))
    lines.append("(* the dispatch pointers: name, object, offset within its section, size *)")
    disp = [s for s in wsyms if s["name"].endswith("_dispatched")]
    lines.append("Definition dispatch_ptrs : list (string * string * N * N * N) := [\n  " + ";\n  ".join(
        "(%s, %s, %d%%N, %d%%N, %d%%N)" % (q(s["name"]), q(s["obj"]), s["offset"], s["size"], s["align"]) for s in disp) + "\n]." if disp
        else "Definition dispatch_ptrs : list (string * string * N * N * N) := [].")
    lines.append("(* (c) writable-section symbols of the objects compiled from C (= the non-const statics of the C sources) *)")
    nc = [w for w in wsyms if w["obj"] in cobj]
    lines.append("Definition c_statics : list wsym := [\n  " + ";\n  ".join(
        "mkWsym %s %s %s %d" % (q(c["obj"]), q(c["name"]), q(c["section"]), c["size"]) for c in nc) + "\n]." if nc
        else "Definition c_statics : list wsym := [].")
    lines.append("Definition n_c_objects : nat := %d." % len(cobj))
    lines.append("Definition n_addr_taken : nat := %d." % sum(r["addr_taken"] for r in res))
    info = {"error": err, "n_objects": len(res), "stores": stores, "bss": bss, "n_data_syms": len([s for s in wsyms if not s["bss"]]),
            "data_syms_by_obj": {r["obj"]: len([s for s in r["wsyms"] if not s["bss"]]) for r in res if r["wsyms"]},
            "wsyms": wsyms, "c_sources": len(srcs), "c_statics_nonconst": nc,
            "addr_taken": sum(r["addr_taken"] for r in res), "dispatch_ptrs": disp,
            "graph": {r["obj"]: {"refs": r["refs"], "defs": r["defs"]} for r in res},
            "relro_const_symbols": sorted("%s:%s" % (r["obj"], n) for r in res for n in r["relro_syms"])}
    return "\n".join(lines) + "\n", info


if __name__ == "__main__":
    import sys
    txt, info = generate(sys.argv[1], sys.argv[2] if len(sys.argv) > 2 else "/repo", fips=len(sys.argv) > 3)
    sys.stdout.write(txt)
    sys.stderr.write(json.dumps({k: (v if not isinstance(v, list) or len(v) < 40 else "%d entries" % len(v)) for k, v in info.items() if k not in ("wsyms", "data_syms_by_obj")}, indent=1)[:6000] + "\n")
