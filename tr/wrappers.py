#!/usr/bin/env python3
"""Gen/WrappersGen.v and Gen/WrappersFipsGen.v: the isal_* wrapper bodies, the deprecated
legacy bodies and the helpers they take decisions on, translated from the clang AST
(`clang -Xclang -ast-dump=json -fsyntax-only -DSAFE_PARAM [-DFIPS_MODE]`) into the mini-C
deep embedding of coq/Model/MiniC.v.

Deliberately dumb: one AST node kind -> one constructor.  Anything outside the subset raises
Unsupported (the check then reports a broken translator obligation): nothing is approximated.
The only lossy constructor is SOpaque for a loop statement, whose Coq semantics is "arbitrary
reads and writes happened; every variable assigned in the loop is forgotten" — an
over-approximation that can only make a checker fail, never pass.

The list of entry points comes from `nm` of the built archive, the list of legacy entry
points from isa-l_crypto.def; a new exported isal_ symbol without a translated body is an error."""
import json, os, re, subprocess, sys

FILES = ["aes/aes_gcm.c", "aes/gcm_pre.c", "aes/aes_cbc.c", "aes/aes_xts.c", "aes/aes_keyexp.c",
         "sha1_mb/sha1_mb.c", "sha256_mb/sha256_mb.c", "sha512_mb/sha512_mb.c", "md5_mb/md5_mb.c",
         "sm3_mb/sm3_mb.c", "mh_sha1/mh_sha1.c", "mh_sha256/mh_sha256.c",
         "mh_sha1_murmur3_x64_128/mh_sha1_murmur3_x64_128.c", "rolling_hash/rolling_hash2.c",
         "rolling_hash/rolling_hashx_base.c", "fips/self_tests.c", "misc/version.c"]

# helpers (not entry points) whose result a wrapper branches on: translated and executed in line
INLINE = ["isal_self_tests", "_rolling_hash2_init"]

BUILTINS = {"memcmp": 1, "__builtin_expect": 2, "asm_check_self_tests_status": 3,
            "asm_set_self_tests_status": 4}
FIRST_ID = 100


class Unsupported(Exception):
    pass


def clang_ast(repo, rel, fips):
    cmd = ["clang", "-Xclang", "-ast-dump=json", "-fsyntax-only", "-w", "-I", os.path.join(repo, "include"),
           "-I", os.path.join(repo, os.path.dirname(rel))] + [x for d in sorted({os.path.dirname(f) for f in FILES})
                                                              for x in ("-I", os.path.join(repo, d))] + [
           "-I", repo, "-DSAFE_PARAM", "-DSAFE_DATA"] + (["-DFIPS_MODE"] if fips else []) + [os.path.join(repo, rel)]
    p = subprocess.run(cmd, stdout=subprocess.PIPE, stderr=subprocess.PIPE, timeout=120)
    if p.returncode != 0:
        raise Unsupported("clang failed on %s: %s" % (rel, p.stderr.decode(errors="replace")[-800:]))
    return json.loads(p.stdout)


BASE_TYPES = {"unsigned long": (64, False), "unsigned long long": (64, False), "long": (64, True),
              "long long": (64, True), "unsigned int": (32, False), "int": (32, True),
              "unsigned short": (16, False), "short": (16, True), "unsigned char": (8, False),
              "char": (8, True), "signed char": (8, True), "_Bool": (8, False), "unsigned": (32, False),
              "size_t": (64, False)}


class TU:
    """one translation unit: enum constants, enum typedefs, function definitions"""
    def __init__(self, ast, rel):
        self.rel = rel
        self.enumval = {}
        self.enumsigned = {}          # EnumDecl id -> bool
        self.typedef_enum = {}        # typedef name / enum name -> signed?
        self.typedefs = {}
        self.statics = set()
        self.funcs = {}
        for n in ast.get("inner", []):
            k = n.get("kind")
            if k == "EnumDecl":
                self._enum(n)
            elif k == "TypedefDecl":
                self._typedef(n)
            elif k == "FunctionDecl" and any(c.get("kind") == "CompoundStmt" for c in n.get("inner", [])):
                self.funcs[n["name"]] = n
                if n.get("storageClass") == "static":
                    self.statics.add(n["name"])

    def _enum(self, n):
        cur = -1
        neg = False
        for c in n.get("inner", []):
            if c.get("kind") != "EnumConstantDecl":
                continue
            val = None
            for i in c.get("inner", []):
                if i.get("kind") == "ConstantExpr" and "value" in i:
                    val = int(i["value"])
            cur = val if val is not None else cur + 1
            if cur < 0:
                neg = True
            if c["name"] in self.enumval and self.enumval[c["name"]] != cur:
                raise Unsupported("enum constant %s redefined" % c["name"])
            self.enumval[c["name"]] = cur
        self.enumsigned[n["id"]] = neg
        if n.get("name"):
            self.typedef_enum[n["name"]] = neg
            self.typedef_enum["enum " + n["name"]] = neg

    def _typedef(self, n):
        def find_enum(x):
            d = x.get("decl") or x.get("ownedTagDecl")
            if d and d.get("kind") == "EnumDecl":
                return d["id"]
            for c in x.get("inner", []):
                r = find_enum(c)
                if r:
                    return r
            return None
        e = find_enum(n)
        if e is not None and e in self.enumsigned:
            self.typedef_enum[n["name"]] = self.enumsigned[e]
        else:
            self.typedefs[n["name"]] = n["type"].get("desugaredQualType") or n["type"].get("qualType")

    def cty(self, t):
        """clang type json -> Coq cty text"""
        q = t.get("desugaredQualType") or t.get("qualType")
        q = re.sub(r"\b(const|volatile|restrict)\b", "", q).strip()
        q = re.sub(r"\s+", " ", q)
        if q.endswith("*") or "(*)" in q or q.endswith("]"):
            return "CPtr"
        if q == "void":
            return "CVoid"
        if q in BASE_TYPES:
            b, s = BASE_TYPES[q]
            return "(CInt %d %s)" % (b, "true" if s else "false")
        if q in self.typedef_enum:
            return "(CInt 32 %s)" % ("true" if self.typedef_enum[q] else "false")
        if q in self.typedefs and self.typedefs[q] != q:
            return self.cty({"qualType": self.typedefs[q]})
        q2 = re.sub(r"\b(const|volatile)\b", "", t.get("qualType", "")).strip()
        if q2 in self.typedef_enum:
            return "(CInt 32 %s)" % ("true" if self.typedef_enum[q2] else "false")
        raise Unsupported("type %r (%s)" % (q, self.rel))


def width_of(cty):
    m = re.match(r"\(CInt (\d+) ", cty)
    return int(m.group(1)) if m else 64


UNOPS = {"-": "ONeg", "~": "OBNot"}
BINOPS = {"+": "OAdd", "-": "OSub", "*": "OMul", "<<": "OShl", ">>": "OShr", "&": "OAnd", "|": "OOr", "^": "OXor",
          "/": "ODiv", "%": "ORem"}
CMPOPS = {"==": "CEq", "!=": "CNe", "<": "CLt", "<=": "CLe", ">": "CGt", ">=": "CGe"}
VALUE_CASTS = {"NoOp", "BitCast", "NullToPointer", "IntegralCast", "IntegralToPointer", "PointerToIntegral"}
LOOPS = {"ForStmt": 1, "WhileStmt": 2, "DoStmt": 3}


class Names:
    """identifier interning shared by the two tables"""
    def __init__(self):
        self.fn = dict(BUILTINS)
        self.field = {}
        self.glob = {}

    def fid(self, name):
        if name not in self.fn:
            self.fn[name] = None
        return "id_" + sanitize(name)

    def fieldid(self, name):
        self.field.setdefault(name, None)
        return "fld_" + sanitize(name)

    def globid(self, name):
        self.glob.setdefault(name, None)
        return "glb_" + sanitize(name)

    def freeze(self):
        n = FIRST_ID
        for k in sorted(k for k, v in self.fn.items() if v is None):
            self.fn[k] = n
            n += 1
        for i, k in enumerate(sorted(self.field)):
            self.field[k] = i + 1
        for i, k in enumerate(sorted(self.glob)):
            self.glob[k] = i + 1


def sanitize(s):
    """Coq/OCaml identifier part: no leading or doubled underscore (reserved by extraction)"""
    s = re.sub(r"[^A-Za-z0-9_]", "_", s)
    if s.startswith("__"):
        s = "uu_" + s[2:]
    elif s.startswith("_"):
        s = "u_" + s[1:]
    return s.replace("__", "_u_")


def static_name(rel, name):
    """table name of a `static` function: unique per translation unit"""
    return "static_%s_%s" % (os.path.splitext(os.path.basename(rel))[0], name)


def is_zero_literal(n):
    while n.get("kind") in ("ParenExpr", "ImplicitCastExpr", "CStyleCastExpr"):
        n = n["inner"][0]
    return n.get("kind") == "IntegerLiteral" and int(n.get("value", "1")) == 0


class FnTranslator:
    def __init__(self, tu, names, node):
        self.tu, self.names, self.node = tu, names, node
        self.vars = {}        # decl id -> index
        self.varnames = []
        self.params = []      # (name, cty, pointee_const)
        self.callees = []
        self.static_callees = []
        for c in node.get("inner", []):
            if c.get("kind") == "ParmVarDecl":
                self.vars[c["id"]] = len(self.varnames)
                self.varnames.append(c.get("name", "_"))
                q = c["type"].get("qualType", "")
                self.params.append((c.get("name", "_"), tu.cty(c["type"]), q.startswith("const ") and q.endswith("*"), q))
        ft = node["type"]["qualType"]
        self.ret_q = ft[:ft.index("(")].strip()
        self.ret = tu.cty({"qualType": self.ret_q}) if not self.ret_q.endswith("*") else "CPtr"

    def fail(self, n, what=""):
        raise Unsupported("%s: function %s: unsupported construct %s %s (line %s)" % (
            self.tu.rel, self.node["name"], n.get("kind"), what, n.get("range", {}).get("begin", {}).get("line", "?")))

    # -- expressions
    def lvalue(self, n):
        """-> ('var', idx) | ('deref', ptr-expr-text) | ('member', ptr-expr-text, fieldid) | ('global', id)"""
        k = n.get("kind")
        if k == "ParenExpr":
            return self.lvalue(n["inner"][0])
        if k == "DeclRefExpr":
            rd = n["referencedDecl"]
            if rd["kind"] in ("ParmVarDecl", "VarDecl"):
                if rd["id"] in self.vars:
                    return ("var", self.vars[rd["id"]])
                if rd["kind"] == "VarDecl":
                    return ("global", self.names.globid(rd["name"]))
            self.fail(n, "lvalue ref " + rd.get("kind", ""))
        if k == "UnaryOperator" and n.get("opcode") == "*":
            return ("deref", self.expr(n["inner"][0]))
        if k == "MemberExpr" and n.get("isArrow"):
            return ("member", self.expr(n["inner"][0]), self.names.fieldid(n["name"]))
        self.fail(n, "as lvalue")

    def expr(self, n):
        k = n.get("kind")
        if k == "ParenExpr":
            return self.expr(n["inner"][0])
        if k == "IntegerLiteral":
            w = width_of(self.tu.cty(n["type"]))
            return "(EConst %d)" % (int(n["value"]) % (1 << w))
        if k == "DeclRefExpr":
            rd = n["referencedDecl"]
            if rd["kind"] == "EnumConstantDecl":
                v = self.tu.enumval[rd["name"]]
                return "(EConst %d (* %s *))" % (v % (1 << 32), rd["name"])
            self.fail(n, "rvalue ref " + rd.get("kind", ""))
        if k in ("ImplicitCastExpr", "CStyleCastExpr"):
            ck = n.get("castKind")
            sub = n["inner"][0]
            if ck == "LValueToRValue":
                lv = self.lvalue(sub)
                if lv[0] == "var":
                    return "(EVar %d (* %s *))" % (lv[1], self.varnames[lv[1]])
                if lv[0] == "global":
                    return "(EGlobal %s)" % lv[1]
                if lv[0] == "deref":
                    return "(EDeref %s)" % lv[1]
                return "(EMember %s %s)" % (lv[1], lv[2])
            if ck in VALUE_CASTS:
                return "(ECast %s %s %s)" % (self.tu.cty(sub["type"]), self.tu.cty(n["type"]), self.expr(sub))
            if ck == "ToVoid":
                return self.expr(sub)
            self.fail(n, "castKind " + str(ck))
        if k == "UnaryOperator":
            op = n.get("opcode")
            if op == "!":
                return "(ELNot %s)" % self.expr(n["inner"][0])
            if op in UNOPS:
                return "(EUn %s %s %s)" % (UNOPS[op], self.tu.cty(n["type"]), self.expr(n["inner"][0]))
            self.fail(n, "unary " + str(op))
        if k == "BinaryOperator":
            op = n.get("opcode")
            a, b = n["inner"]
            if op == "&&":
                return "(ELAnd %s %s)" % (self.expr(a), self.expr(b))
            if op == "||":
                return "(ELOr %s %s)" % (self.expr(a), self.expr(b))
            if op in CMPOPS:
                ta, tb = self.tu.cty(a["type"]), self.tu.cty(b["type"])
                if ta != tb:
                    self.fail(n, "comparison of different types %s %s" % (ta, tb))
                return "(ECmp %s %s %s %s)" % (CMPOPS[op], ta, self.expr(a), self.expr(b))
            if op == "+" and self.tu.cty(n["type"]) == "CPtr":
                q = re.sub(r"\b(const|volatile)\b", "", n["type"].get("desugaredQualType") or n["type"]["qualType"])
                q = re.sub(r"\s+", " ", q).strip()
                if q not in ("unsigned char *", "char *", "void *", "uint8_t *") or self.tu.cty(a["type"]) != "CPtr":
                    self.fail(n, "pointer arithmetic on %s" % q)
                return "(EPtrAdd %s %s)" % (self.expr(a), self.expr(b))
            if op in BINOPS:
                if self.tu.cty(n["type"]) == "CPtr":
                    self.fail(n, "pointer arithmetic")
                return "(EBin %s %s %s %s)" % (BINOPS[op], self.tu.cty(n["type"]), self.expr(a), self.expr(b))
            self.fail(n, "binary " + str(op))
        if k == "ConditionalOperator":
            c, a, b = n["inner"]
            return "(ECond %s %s %s)" % (self.expr(c), self.expr(a), self.expr(b))
        if k == "CallExpr":
            callee = n["inner"][0]
            while callee.get("kind") in ("ImplicitCastExpr", "ParenExpr"):
                callee = callee["inner"][0]
            if callee.get("kind") != "DeclRefExpr" or callee["referencedDecl"]["kind"] != "FunctionDecl":
                self.fail(n, "indirect call")
            name = callee["referencedDecl"]["name"]
            if name in self.tu.statics:
                self.static_callees.append(name)
                name = static_name(self.tu.rel, name)
            self.callees.append(name)
            return "(ECall %s [%s])" % (self.names.fid(name), "; ".join(self.expr(a) for a in n["inner"][1:]))
        self.fail(n)

    # -- statements
    def assigned_vars(self, n, acc):
        k = n.get("kind")
        tgt = None
        if k in ("BinaryOperator", "CompoundAssignOperator") and (n.get("opcode") == "=" or k == "CompoundAssignOperator"):
            tgt = n["inner"][0]
        if k == "UnaryOperator" and n.get("opcode") in ("++", "--", "&"):
            tgt = n["inner"][0]
        while tgt is not None and tgt.get("kind") in ("ParenExpr", "ImplicitCastExpr"):
            tgt = tgt["inner"][0]
        if tgt is not None and tgt.get("kind") == "DeclRefExpr" and tgt["referencedDecl"]["id"] in self.vars:
            acc.add(self.vars[tgt["referencedDecl"]["id"]])
        if k == "VarDecl":
            self.declare(n)
            acc.add(self.vars[n["id"]])
        for c in n.get("inner", []):
            self.assigned_vars(c, acc)

    def declare(self, n):
        if n["id"] not in self.vars:
            self.vars[n["id"]] = len(self.varnames)
            self.varnames.append(n.get("name", "_"))
        return self.vars[n["id"]]

    def stmt(self, n):
        k = n.get("kind")
        if k == "CompoundStmt":
            return self.seq([self.stmt(c) for c in n.get("inner", [])])
        if k == "NullStmt":
            return "SSkip"
        if k == "IfStmt":
            parts = n["inner"]
            if n.get("hasInit") or n.get("hasVar"):
                self.fail(n, "if with init")
            c = self.expr(parts[0])
            t = self.stmt(parts[1])
            e = self.stmt(parts[2]) if len(parts) > 2 else "SSkip"
            return "(SIf %s\n      %s\n      %s)" % (c, t, e)
        if k == "ReturnStmt":
            if n.get("inner"):
                return "(SReturn %s)" % self.expr(n["inner"][0])
            return "SReturnVoid"
        if k == "DeclStmt":
            out = []
            for d in n["inner"]:
                if d.get("kind") != "VarDecl" or d.get("storageClass") == "static":
                    self.fail(d, "declaration")
                x = self.declare(d)
                init = [c for c in d.get("inner", []) if "Comment" not in c.get("kind", "")]
                if init:
                    out.append("(SSet %d (* %s *) %s)" % (x, self.varnames[x], self.expr(init[0])))
                else:
                    out.append("(SDecl %d (* %s *))" % (x, self.varnames[x]))
            return self.seq(out)
        if k == "BreakStmt":
            return "SBreak"
        if k == "DoStmt" and is_zero_literal(n["inner"][1]):
            return "(SOnce %s)" % self.stmt(n["inner"][0])
        if k == "SwitchStmt":
            return self.switch(n)
        if k in LOOPS:
            acc = set()
            self.assigned_vars(n, acc)
            return "(SOpaque %d [%s])" % (LOOPS[k], "; ".join(str(v) for v in sorted(acc)))
        if k == "BinaryOperator" and n.get("opcode") == "=":
            lv = self.lvalue(n["inner"][0])
            e = self.expr(n["inner"][1])
            if lv[0] == "var":
                return "(SSet %d (* %s *) %s)" % (lv[1], self.varnames[lv[1]], e)
            if lv[0] == "deref":
                return "(SStore %s %s)" % (lv[1], e)
            if lv[0] == "member":
                return "(SStoreMember %s %s %s)" % (lv[1], lv[2], e)
            self.fail(n, "assignment target")
        if k == "CompoundAssignOperator":
            op = n.get("opcode", "")[:-1]
            lv = self.lvalue(n["inner"][0])
            if lv[0] != "var" or op not in BINOPS:
                self.fail(n, "compound assignment")
            return "(SSetOp %s %s %d (* %s *) %s)" % (BINOPS[op], self.tu.cty(n["type"]), lv[1], self.varnames[lv[1]],
                                                       self.expr(n["inner"][1]))
        if k in ("CallExpr", "ImplicitCastExpr", "CStyleCastExpr", "ParenExpr"):
            return "(SExpr %s)" % self.expr(n)
        self.fail(n, "as statement")

    def const_value(self, n):
        """value of an integer constant expression (case label)"""
        k = n.get("kind")
        if "value" in n and k in ("ConstantExpr", "IntegerLiteral"):
            return int(n["value"])
        if k in ("ConstantExpr", "ParenExpr", "ImplicitCastExpr", "CStyleCastExpr"):
            return self.const_value(n["inner"][0])
        if k == "DeclRefExpr" and n["referencedDecl"]["kind"] == "EnumConstantDecl":
            return self.tu.enumval[n["referencedDecl"]["name"]]
        if k == "UnaryOperator" and n.get("opcode") in ("-", "+", "~"):
            v = self.const_value(n["inner"][0])
            return {"-": -v, "+": v, "~": ~v}[n["opcode"]]
        if k == "BinaryOperator" and n.get("opcode") in ("+", "-", "*", "<<", "|", "&"):
            a, b = (self.const_value(x) for x in n["inner"])
            return {"+": a + b, "-": a - b, "*": a * b, "<<": a << b, "|": a | b, "&": a & b}[n["opcode"]]
        self.fail(n, "constant expression")

    def switch(self, n):
        """switch (e) { labels and statements }: one arm per label group, each arm carrying the
        statements from its label to the end of the switch body (fall-through written out; a
        `break` / `return` inside ends it)"""
        parts = [c for c in n["inner"] if "Comment" not in c.get("kind", "")]
        if n.get("hasInit") or n.get("hasVar") or len(parts) != 2 or parts[1].get("kind") != "CompoundStmt":
            self.fail(n, "switch shape")
        cond, body = parts
        t = self.tu.cty(cond["type"])
        w = width_of(t)
        segs = []          # [labels (ints or None for default), [stmts]]
        def add_label(node):
            while node.get("kind") in ("CaseStmt", "DefaultStmt"):
                if not segs or segs[-1][1]:
                    segs.append([[], []])
                if node["kind"] == "CaseStmt":
                    kids = node["inner"]
                    if len(kids) != 2:
                        self.fail(node, "case range")
                    segs[-1][0].append(self.const_value(kids[0]) % (1 << w))
                    node = kids[1]
                else:
                    segs[-1][0].append(None)
                    node = node["inner"][0]
            return node
        for c in body.get("inner", []):
            if c.get("kind") in ("CaseStmt", "DefaultStmt"):
                c = add_label(c)
            if not segs:
                self.fail(c, "statement before the first case label")
            segs[-1][1].append(self.stmt(c))
        arms, dflt = [], "SSkip"
        for i, (labels, _) in enumerate(segs):
            run = self.seq([st for _, sts in segs[i:] for st in sts])
            cs = [l for l in labels if l is not None]
            if cs:
                arms.append("([%s], %s)" % ("; ".join(str(c) for c in cs), run))
            if None in labels:
                dflt = run
        return "(SSwitch %s %s\n      [%s]\n      %s)" % (t, self.expr(cond), ";\n       ".join(arms), dflt)

    @staticmethod
    def seq(l):
        if not l:
            return "SSkip"
        out = l[-1]
        for s in reversed(l[:-1]):
            out = "(SSeq %s\n    %s)" % (s, out)
        return out

    def translate(self):
        body = [c for c in self.node["inner"] if c.get("kind") == "CompoundStmt"][0]
        text = self.stmt(body)
        return text


def exported_entries(libdir):
    out = subprocess.run(["nm", "-g", "--defined-only", os.path.join(libdir, "isa-l_crypto.a")],
                         stdout=subprocess.PIPE, stderr=subprocess.DEVNULL, text=True, timeout=120).stdout
    names = sorted({l.split()[2] for l in out.split("\n") if len(l.split()) == 3 and l.split()[1] == "T"
                    and l.split()[2].startswith("isal_")})
    return names


def legacy_entries(repo):
    txt = open(os.path.join(repo, "isa-l_crypto.def")).read()
    names = re.findall(r"^\s*([A-Za-z_][A-Za-z0-9_]*)\s+@\d+", txt, re.M)
    return [n for n in names if not n.startswith("isal_")]


def translate_all(repo, libdir):
    """-> model dict {names, fields, tables: {False: {fn: info}, True: {...}}, entries, legacy}"""
    entries = exported_entries(libdir)
    legacy = legacy_entries(repo)
    wanted = set(entries) | set(legacy) | set(INLINE)
    names = Names()
    tables = {}
    unsupported = {}
    for fips in (False, True):
        tab = {}
        for rel in FILES:
            if not os.path.exists(os.path.join(repo, rel)):
                continue
            tu = TU(clang_ast(repo, rel, fips), rel)
            todo = [(f, f) for f in tu.funcs if f in wanted]
            done = set()
            while todo:
                fname, tname = todo.pop(0)          # name in the source, name in the table
                if tname in done:
                    continue
                done.add(tname)
                node = tu.funcs[fname]
                if tname in tab:
                    raise Unsupported("function %s defined twice (%s, %s)" % (tname, tab[tname]["file"], rel))
                ft = FnTranslator(tu, names, node)
                try:
                    body = ft.translate()
                except Unsupported as e:
                    # degrade gracefully: the function is in the table with an opaque body (arbitrary
                    # effects, unknown result), so every obligation about it fails closed
                    unsupported.setdefault(tname, str(e))
                    body = "(SSeq (SOpaque 99 []) (SReturn (EGlobal %s)))" % names.globid("untranslated")
                    ft.callees, ft.static_callees = [], []
                names.fid(tname)
                tab[tname] = {"file": rel, "params": ft.params, "ret": ft.ret, "ret_q": ft.ret_q, "body": body,
                              "callees": ft.callees, "line": node.get("loc", {}).get("line", 0),
                              "static": fname in tu.statics}
                # static helpers of the same translation unit are translated too and executed in line
                for c in ft.static_callees:
                    todo.append((c, static_name(rel, c)))
        missing = [e for e in entries if e not in tab]
        if missing:
            raise Unsupported("exported entry points without a translated body: %s" % missing)
        tables[fips] = tab
    names.freeze()
    return {"names": names, "tables": tables, "entries": entries, "unsupported": unsupported,
            "legacy": [l for l in legacy if l in tables[False]], "legacy_missing": [l for l in legacy if l not in tables[False]]}


HEADER = ("(* GENERATED by tr/wrappers.py from the clang AST of the wrapper C files of %s — do not edit *)\n"
          "From Coq Require Import NArith List String.\nFrom ISAL Require Import Model.MiniC.\n"
          "Import ListNotations.\nLocal Open Scope N_scope.\n\n")


def coq_names(m):
    n = m["names"]
    out = []
    for k in sorted(n.fn, key=lambda k: n.fn[k]):
        out.append("Definition id_%s : N := %d.\n" % (sanitize(k), n.fn[k]))
    for k in sorted(n.field, key=lambda k: n.field[k]):
        out.append("Definition fld_%s : N := %d.\n" % (sanitize(k), n.field[k]))
    for k in sorted(n.glob, key=lambda k: n.glob[k]):
        out.append("Definition glb_%s : N := %d.\n" % (sanitize(k), n.glob[k]))
    out.append("\nDefinition names : list (string * N) := [\n  " +
               ";\n  ".join('("%s"%%string, %d)' % (k, n.fn[k]) for k in sorted(n.fn, key=lambda k: n.fn[k])) + "].\n")
    out.append("\n(* the isal_-prefixed text symbols exported by the built archive (nm) *)\n"
               "Definition entries : list N := [" + "; ".join("id_" + sanitize(e) for e in m["entries"]) + "].\n")
    out.append("\n(* deprecated entry points listed in isa-l_crypto.def that have a body in the wrapper files *)\n"
               "Definition legacy : list N := [" + "; ".join("id_" + sanitize(e) for e in m["legacy"]) + "].\n")
    return "".join(out)


def coq_table(m, fips):
    tab = m["tables"][fips]
    out = []
    order = sorted(tab, key=lambda k: (tab[k]["file"], tab[k]["line"]))
    for f in order:
        i = tab[f]
        out.append("(* %s:%s  %s(%s) *)\n" % (i["file"], i["line"], f, ", ".join(p[0] for p in i["params"])))
        out.append("Definition fn_%s : fundef := {| f_id := id_%s; f_params := [%s]; f_ret := %s; f_body :=\n    %s |}.\n\n" % (
            sanitize(f), sanitize(f), "; ".join(p[1] for p in i["params"]), i["ret"], i["body"]))
    out.append("Definition table : ftab := [\n  " + ";\n  ".join("(id_%s, fn_%s)" % (sanitize(f), sanitize(f)) for f in order) + "].\n")
    return "".join(out)


def generate(repo, libdir):
    m = translate_all(repo, libdir)
    g = HEADER % "the current tree (-DSAFE_PARAM)" + coq_names(m) + "\n" + coq_table(m, False)
    gf = (HEADER % "the current tree (-DSAFE_PARAM -DFIPS_MODE)" + "From ISAL Require Import Gen.WrappersGen.\n\n" +
          coq_table(m, True))
    return m, {"Gen/WrappersGen.v": g, "Gen/WrappersFipsGen.v": gf}


if __name__ == "__main__":
    repo = sys.argv[1] if len(sys.argv) > 1 else "/repo"
    lib = sys.argv[2]
    m, files = generate(repo, lib)
    for k, v in files.items():
        sys.stdout.write("(* ==== %s ==== *)\n%s\n" % (k, v))
