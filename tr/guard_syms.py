"""C08: enumerate the global text symbols of the freshly built archive, type each one by its
naming pattern (-> operation class + parameters + the helper symbols its harness thunk
needs), compute the static call graph between them from the relocations of the objects, and
emit the C table the guard-page driver is compiled against.

Nothing is decided here about the property: a symbol that matches no pattern is reported
as *untyped* (uncovered) in the evidence; a symbol the table names that is not in the archive
makes the link fail (vanished family = error)."""
import os, re, subprocess

ALGOS = {"md5": "MD5", "sha1": "SHA1", "sha256": "SHA256", "sha512": "SHA512", "sm3": "SM3"}
HASH_FAMS = ["base", "sse", "avx", "avx2", "avx512", "sse_ni", "avx512_ni", "sb_sse4"]
MH_FAMS = ["base", "sse", "avx", "avx2", "avx512"]
GCM_FAMS = ["sse", "avx_gen2", "avx_gen4", "vaes_avx512"]
XTS_FAMS = ["sse", "avx", "vaes"]

# operation classes (must match enum gop in harness/guard_drv.c)
OPS = ["HASH_CTX", "HASH_API", "MH", "MH_API", "MH_BLOCK", "MH_TAIL", "ROLL_UNTIL", "ROLL_API",
       "GCM_ONESHOT", "GCM_INIT", "GCM_UPDATE", "GCM_FINALIZE", "GCM_PRECOMP", "GCM_PRE",
       "XTS", "CBC_ENC", "CBC_DEC", "KEYEXP", "KEYEXP_ENC", "CBC_PRECOMP", "SHA_FOR_MH", "MURMUR_BLOCK", "MURMUR_TAIL"]


def nm_text_symbols(archive):
    out = subprocess.run(["nm", archive], stdout=subprocess.PIPE, stderr=subprocess.DEVNULL, text=True).stdout
    syms = {}
    obj = None
    for l in out.split("\n"):
        if l.endswith(":") and " " not in l:
            obj = l[:-1]
            continue
        t = l.split()
        if len(t) == 3 and t[1] == "T":
            syms.setdefault(t[2], obj)
    return syms


def call_graph(objdir, syms):
    """edges between global text symbols from objdump -dr of every object:
    (calls, refs) with calls = {caller: set(callee)} for relocations of call/jmp/jcc
    instructions and refs = the same for every other instruction (address taken: lea/mov).
    Local labels are attributed to the closest preceding global."""
    calls, refs = {}, {}
    objs = sorted(f for f in os.listdir(objdir) if f.endswith(".o"))
    hdr = re.compile(r"^[0-9a-f]+ <([^>]+)>:$")
    ins = re.compile(r"^\s*[0-9a-f]+:\s+([a-z][a-z0-9]*)")
    rel = re.compile(r"R_X86_64_(?:PLT32|PC32|GOTPCREL\w*|REX_GOTPCRELX|GOTPCRELX|32S?|64)\s+([A-Za-z_.][\w.]*)")
    for o in objs:
        p = subprocess.run(["objdump", "-dr", "--no-show-raw-insn", os.path.join(objdir, o)],
                           stdout=subprocess.PIPE, stderr=subprocess.DEVNULL, text=True, errors="replace")
        cur, mn = None, ""
        for l in p.stdout.split("\n"):
            m = hdr.match(l)
            if m:
                if m.group(1) in syms:
                    cur = m.group(1)
                continue
            if cur is None:
                continue
            m = rel.search(l)
            if m:
                if m.group(1) in syms and m.group(1) != cur:
                    d = calls if (mn.startswith("call") or mn.startswith("j")) else refs
                    d.setdefault(cur, set()).add(m.group(1))
                continue
            m = ins.match(l)
            if m:
                mn = m.group(1)
    return calls, refs


def classify(syms, repo):
    """-> (rows, markers, untyped).  rows: list of dicts {sym, op, fam, algo, bits, dir, nt, xk, aux[], api}"""
    rows, markers, untyped = [], {}, []
    S = set(syms)

    def have(*names):
        return all(n in S for n in names)

    def row(sym, op, fam, aux=(), **kw):
        for a in aux:
            if a and a not in S:
                return False
        r = {"sym": sym, "op": op, "fam": fam, "aux": list(aux), "algo": 0, "bits": 0, "dir": 0, "nt": 0, "xk": 0, "api": 0}
        r.update(kw)
        rows.append(r)
        return True

    algo_ix = {a: i for i, a in enumerate(ALGOS)}
    mh_ix = {"mh_sha1": 0, "mh_sha256": 1, "mh_sha1_murmur3_x64_128": 2}
    done = set()

    def mark(*names):
        done.update(names)

    for s in sorted(S):
        if s in done:
            continue
        if re.search(r"_slver(_[0-9a-f]{8})?$", s):
            markers[s] = "version marker (struct slver placed in .text by the slversion macro; data, never called)"
            continue
        if s.endswith("_mbinit"):
            markers[s] = "dispatcher resolver stub (runs once per entry point, then jumps; CPUID logic is C12's subject)"
            continue
        if re.search(r"_dispatch_init$", s):
            markers[s] = "dispatcher resolver"
            continue
        # ---------------- multi-buffer hash context layer
        m = re.match(r"^_(md5|sha1|sha256|sha512|sm3)_ctx_mgr_submit_(%s)$" % "|".join(HASH_FAMS), s)
        if m:
            a, f = m.groups()
            ini, flu = "_%s_ctx_mgr_init_%s" % (a, f), "_%s_ctx_mgr_flush_%s" % (a, f)
            if row(s, "HASH_CTX", f, [ini, flu], algo=algo_ix[a]):
                mark(ini, flu)
                continue
        m = re.match(r"^(_|isal_|)(md5|sha1|sha256|sha512|sm3)_ctx_mgr_submit$", s)
        if m:
            pre, a = m.groups()
            ini, flu = "%s%s_ctx_mgr_init" % (pre, a), "%s%s_ctx_mgr_flush" % (pre, a)
            op = "HASH_API" if pre == "isal_" else "HASH_CTX"
            if row(s, op, {"_": "dispatched", "isal_": "api", "": "legacy"}[pre], [ini, flu], algo=algo_ix[a], api=1):
                mark(ini, flu)
                continue
        if re.match(r"^(_|isal_|)(md5|sha1|sha256|sha512|sm3)_ctx_mgr_(init|flush)(_\w+)?$", s):
            # typed together with its submit (handled above when the triple is complete)
            sub = re.sub(r"_ctx_mgr_(init|flush)", "_ctx_mgr_submit", s)
            if sub in S:
                continue
        # ---------------- multi-hash
        m = re.match(r"^(_|isal_|)(mh_sha1_murmur3_x64_128|mh_sha1|mh_sha256)_update(?:_(%s))?$" % "|".join(MH_FAMS), s)
        if m:
            pre, a, f = m.groups()
            if pre == "isal_" and f:
                pass
            else:
                suffix = ("_" + f) if f else ""
                fin = "%s%s_finalize%s" % (pre, a, suffix)
                ini = "%s%s_init" % (pre if pre != "" else "", a)
                if ini not in S:
                    ini = "_%s_init" % a
                fam = f if (f and pre == "_") else ({"_": "dispatched", "isal_": "api", "": "legacy"}[pre] + (("-" + f) if f else ""))
                if row(s, "MH_API" if pre == "isal_" else "MH", fam, [ini, fin], algo=mh_ix[a], api=0 if (f and pre == "_") else 1):
                    mark(fin)
                    continue
        m = re.match(r"^(_|isal_|)(mh_sha1_murmur3_x64_128|mh_sha1|mh_sha256)_(finalize(?:_\w+)?|init)$", s)
        if m:
            pre, a, what = m.groups()
            upd = "%s%s_%s" % (pre, a, what.replace("finalize", "update")) if what != "init" else None
            if what == "init" or upd in S:
                if what == "init":
                    markers.setdefault(s, "")  # placeholder, replaced below
                    del markers[s]
                    done.add(s)
                    rows.append({"sym": s, "op": None, "fam": "init", "via": "called by every MH/MH_API group as its init helper"})
                continue
        m = re.match(r"^_(mh_sha1_murmur3_x64_128|mh_sha1|mh_sha256)_block_(%s)$" % "|".join(MH_FAMS), s)
        if m:
            a, f = m.groups()
            if row(s, "MH_BLOCK", f, [], algo=mh_ix[a]):
                continue
        m = re.match(r"^_(mh_sha1|mh_sha256)_tail_(%s)$" % "|".join(MH_FAMS), s)
        if m:
            a, f = m.groups()
            if row(s, "MH_TAIL", f, [], algo=mh_ix[a]):
                continue
        m = re.match(r"^_?(sha1_for_mh_sha1|sha256_for_mh_sha256)$", s)
        if m:
            if row(s, "SHA_FOR_MH", "c", [], algo=0 if "sha1" in s else 1):
                continue
        if s == "_murmur3_x64_128_block" and row(s, "MURMUR_BLOCK", "c"):
            continue
        if s == "_murmur3_x64_128_tail" and row(s, "MURMUR_TAIL", "c"):
            continue
        # ---------------- rolling hash
        m = re.match(r"^_rolling_hash2_run_until_(base|00|04)$", s)
        if m:
            if row(s, "ROLL_UNTIL", m.group(1), ["_rolling_hash2_init", "_rolling_hash2_reset"]):
                continue
        m = re.match(r"^(_|isal_|)rolling_hash2_run$", s)
        if m:
            pre = m.group(1)
            ini, rst = pre + "rolling_hash2_init", pre + "rolling_hash2_reset"
            if row(s, "ROLL_API", {"_": "internal", "isal_": "api", "": "legacy"}[pre], [ini, rst], api=1 if pre == "isal_" else 0):
                mark(ini, rst)
                continue
        if re.match(r"^(_|isal_|)rolling_hash2_(init|reset)$", s) and re.sub(r"(init|reset)$", "run", s) in S:
            continue
        # ---------------- AES-GCM
        m = re.match(r"^(_|isal_|)aes_gcm_(enc|dec)_(128|256)(?:_(%s))?(_nt)?$" % "|".join(GCM_FAMS), s)
        if m:
            pre, d, bits, f, nt = m.groups()
            if not (f and pre != "_"):
                pc = "_aes_gcm_precomp_%s%s" % (bits, ("_" + f) if f else "")
                ke = "_aes_keyexp_%s_enc_sse" % bits if bits == "128" else "_aes_keyexp_256_sse"
                fam = f if f else {"_": "dispatched", "isal_": "api", "": "legacy"}[pre]
                if row(s, "GCM_ONESHOT", fam, [pc, ke], bits=int(bits), dir=0 if d == "enc" else 1, nt=1 if nt else 0, api=0 if f else 1):
                    continue
        m = re.match(r"^(_|isal_|)aes_gcm_(enc|dec)_(128|256)_update(?:_(%s))?(_nt)?$" % "|".join(GCM_FAMS), s)
        if m:
            pre, d, bits, f, nt = m.groups()
            if not (f and pre != "_"):
                sf = ("_" + f) if f else ""
                pc = "_aes_gcm_precomp_%s%s" % (bits, sf)
                ke = "_aes_keyexp_%s_enc_sse" % bits if bits == "128" else "_aes_keyexp_256_sse"
                ini = "%saes_gcm_init_%s%s" % (pre, bits, sf)
                fin = "%saes_gcm_%s_%s_finalize%s" % (pre, d, bits, sf)
                fam = f if f else {"_": "dispatched", "isal_": "api", "": "legacy"}[pre]
                if row(s, "GCM_UPDATE", fam, [pc, ke, ini, fin], bits=int(bits), dir=0 if d == "enc" else 1, nt=1 if nt else 0, api=0 if f else 1):
                    continue
        m = re.match(r"^(_|isal_|)aes_gcm_(enc|dec)_(128|256)_finalize(?:_(%s))?$" % "|".join(GCM_FAMS), s)
        if m:
            pre, d, bits, f = m.groups()
            if not (f and pre != "_"):
                sf = ("_" + f) if f else ""
                pc = "_aes_gcm_precomp_%s%s" % (bits, sf)
                ke = "_aes_keyexp_%s_enc_sse" % bits if bits == "128" else "_aes_keyexp_256_sse"
                ini = "%saes_gcm_init_%s%s" % (pre, bits, sf)
                upd = "%saes_gcm_%s_%s_update%s" % (pre, d, bits, sf)
                fam = f if f else {"_": "dispatched", "isal_": "api", "": "legacy"}[pre]
                if row(s, "GCM_FINALIZE", fam, [pc, ke, ini, upd], bits=int(bits), dir=0 if d == "enc" else 1, api=0 if f else 1):
                    continue
        m = re.match(r"^(_|isal_|)aes_gcm_init_(128|256)(?:_(%s))?$" % "|".join(GCM_FAMS), s)
        if m:
            pre, bits, f = m.groups()
            if not (f and pre != "_"):
                sf = ("_" + f) if f else ""
                pc = "_aes_gcm_precomp_%s%s" % (bits, sf)
                ke = "_aes_keyexp_%s_enc_sse" % bits if bits == "128" else "_aes_keyexp_256_sse"
                fam = f if f else {"_": "dispatched", "isal_": "api", "": "legacy"}[pre]
                if row(s, "GCM_INIT", fam, [pc, ke], bits=int(bits), api=0 if f else 1):
                    continue
        m = re.match(r"^_aes_gcm_precomp_(128|256)(?:_(%s))?$" % "|".join(GCM_FAMS), s)
        if m:
            bits, f = m.groups()
            ke = "_aes_keyexp_%s_enc_sse" % bits if bits == "128" else "_aes_keyexp_256_sse"
            if row(s, "GCM_PRECOMP", f or "dispatched", [ke], bits=int(bits), api=0 if f else 1):
                continue
        m = re.match(r"^(_|isal_|)aes_gcm_pre_(128|256)$", s)
        if m:
            pre, bits = m.groups()
            if row(s, "GCM_PRE", {"_": "internal", "isal_": "api", "": "legacy"}[pre], [], bits=int(bits), api=1):
                continue
        # ---------------- AES-XTS
        m = re.match(r"^(_|)XTS_AES_(128|256)_(enc|dec)(_expanded_key)?(?:_(%s))?$" % "|".join(XTS_FAMS), s)
        if m:
            pre, bits, d, xk, f = m.groups()
            if not (f and pre != "_"):
                ke = "_aes_keyexp_%s_sse" % bits
                fam = f if f else {"_": "dispatched", "": "legacy"}[pre]
                if row(s, "XTS", fam, [ke], bits=int(bits), dir=0 if d == "enc" else 1, xk=1 if xk else 0, api=0 if f else 1):
                    continue
        m = re.match(r"^isal_aes_xts_(enc|dec)_(128|256)(_expanded_key)?$", s)
        if m:
            d, bits, xk = m.groups()
            if row(s, "XTS", "api", ["_aes_keyexp_%s_sse" % bits], bits=int(bits), dir=0 if d == "enc" else 1, xk=1 if xk else 0, api=1):
                continue
        # ---------------- AES-CBC
        m = re.match(r"^(_|isal_|)aes_cbc_(enc|dec)_(128|192|256)(?:_(x4|x8|sse|avx|vaes_avx512))?$", s)
        if m:
            pre, d, bits, f = m.groups()
            if not (f and pre != "_"):
                fam = f if f else {"_": "dispatched", "isal_": "api", "": "legacy"}[pre]
                if row(s, "CBC_ENC" if d == "enc" else "CBC_DEC", fam, ["_aes_keyexp_%s_sse" % bits], bits=int(bits),
                       dir=0 if d == "enc" else 1, api=0 if f else (2 if pre == "isal_" else 1)):
                    continue
        if s == "aes_cbc_precomp" and row(s, "CBC_PRECOMP", "legacy", [], api=1):
            continue
        # ---------------- key expansion
        m = re.match(r"^(_|isal_|)aes_keyexp_(128|192|256)(?:_(sse|avx))?$", s)
        if m:
            pre, bits, f = m.groups()
            if not (f and pre != "_"):
                fam = f if f else {"_": "dispatched", "isal_": "api", "": "legacy"}[pre]
                if row(s, "KEYEXP", fam, [], bits=int(bits), api=0 if f else 1):
                    continue
        m = re.match(r"^_aes_keyexp_128_enc(?:_(sse|avx))?$", s)
        if m:
            if row(s, "KEYEXP_ENC", m.group(1) or "dispatched", [], bits=128, api=0 if m.group(1) else 1):
                continue
        untyped.append(s)
    # init/flush etc. that were typed together with their primary symbol
    helper_rows = []
    prim = {r["sym"] for r in rows}
    for r in rows:
        if r.get("op") is None:
            continue
        for a in r["aux"]:
            if a not in prim:
                helper_rows.append(a)
    return rows, markers, untyped, sorted(set(helper_rows))


def reach(edges, start):
    seen, todo = set(), list(start)
    while todo:
        x = todo.pop()
        for y in edges.get(x, ()):
            if y not in seen:
                seen.add(y)
                todo.append(y)
    return seen


def c_table(rows):
    """C source of the symbol table (included by harness/guard_drv.c as guard_syms.h)"""
    real = [r for r in rows if r.get("op")]
    names = []
    for r in real:
        for n in [r["sym"]] + r["aux"]:
            if n and n not in names:
                names.append(n)
    out = ["/* generated by tr/guard_syms.py from nm of the built archive - do not edit */"]
    cid = {n: "GS_%d" % i for i, n in enumerate(names)}
    for n in names:
        out.append('extern char %s[] __asm__("%s");' % (cid[n], n))
    out.append("static const gsym_t GSYMS[] = {")
    for i, r in enumerate(real):
        aux = ["(void *) %s" % cid[a] if a else "0" for a in (r["aux"] + [None] * 4)[:4]]
        out.append('  { "%s", OP_%s, "%s", (void *) %s, { %s }, %d, %d, %d, %d, %d, %d },' % (
            r["sym"], r["op"], r["fam"], cid[r["sym"]], ", ".join(aux), r["algo"], r["bits"], r["dir"], r["nt"], r["xk"], r["api"]))
    out.append("};")
    out.append("#define NGSYMS %d" % len(real))
    return "\n".join(out) + "\n"


def c_trace(names):
    out = ["/* generated by tr/guard_syms.py: internal routines traced at entry (int3) */",
           "typedef struct { const char *name; void *addr; } gtrace_t;"]
    for i, n in enumerate(names):
        out.append('extern char GT_%d[] __asm__("%s");' % (i, n))
    out.append("static const gtrace_t TRACE[] = {")
    for i, n in enumerate(names):
        out.append('  { "%s", (void *) GT_%d },' % (n, i))
    out.append("  { 0, 0 } };")
    out.append("#define NTRACE %d" % len(names))
    return "\n".join(out) + "\n"


if __name__ == "__main__":
    import sys, json
    d = sys.argv[1]
    syms = nm_text_symbols(os.path.join(d, "isa-l_crypto.a"))
    rows, markers, untyped, helpers = classify(syms, None)
    print(len(syms), "text symbols;", len([r for r in rows if r.get("op")]), "typed rows;", len(helpers), "helpers;", len(markers), "markers;", len(untyped), "untyped")
    print("untyped:", " ".join(untyped))
