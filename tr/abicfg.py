"""tr/abicfg.py — translator for C19 / C14 (static half).

Reads `objdump -d -r --no-show-raw-insn -M intel` and `nm` of every nasm-assembled object of the
built library and produces, per function, a control-flow graph of ABSTRACT instructions
(coq/Model/AbiCfg.v: type `insn`).  What is decided about these graphs is decided in Coq
(`check_c19`, `check_c14`, with soundness theorems); this file only says what the binary says.

Trusted content of this file (documented in docs/abi-static.md):
  * the register WRITE SET (and GPR read set) of each mnemonic: first-operand rule for the
    mnemonics listed in FIRSTOP, nothing for those in NOWRITE, the explicit table IMPLICIT,
    anything else => `IUnknown` (the Coq checker fails the function: conservative);
  * the projection: an instruction that writes no GPR, is not a store, and touches no
    vector register is dropped; the rest of a basic block is split into the subsequence that
    concerns the GPR/stack machine and the subsequence that concerns the vector-register
    machine; adjacent `Clob`/`StoreNS`/`VW` instructions are merged by union of their masks;
  * CFG recovery: direct branches only (the library has no jump tables; an indirect jump
    other than `jmp [rip+x]` is `IUnknown`).
"""
import os, re, subprocess, sys, hashlib, json

GPR64 = ["rax", "rcx", "rdx", "rbx", "rsp", "rbp", "rsi", "rdi"] + ["r%d" % i for i in range(8, 16)]
RSP, RBP = 4, 5
CALLEE_SAVED = [3, 5, 12, 13, 14, 15]
REGS = {}
for i, n in enumerate(GPR64):
    REGS[n] = (i, 64)
for i, n in enumerate(["eax", "ecx", "edx", "ebx", "esp", "ebp", "esi", "edi"]):
    REGS[n] = (i, 32)
for i, n in enumerate(["ax", "cx", "dx", "bx", "sp", "bp", "si", "di"]):
    REGS[n] = (i, 16)
for i, n in enumerate(["al", "cl", "dl", "bl", "spl", "bpl", "sil", "dil"]):
    REGS[n] = (i, 8)
for i, n in enumerate(["ah", "ch", "dh", "bh"]):
    REGS[n] = (i, 8)
for i in range(8, 16):
    REGS["r%dd" % i] = (i, 32)
    REGS["r%dw" % i] = (i, 16)
    REGS["r%db" % i] = (i, 8)
VEC_RE = re.compile(r"^([xyz])mm(\d+)$")
MASK_RE = re.compile(r"^k[0-7]$")
PTR_SIZE = {"BYTE": 1, "WORD": 2, "DWORD": 4, "QWORD": 8, "XMMWORD": 16, "YMMWORD": 32, "ZMMWORD": 64,
            "TBYTE": 10, "FWORD": 6, "OWORD": 16}

# ---------------------------------------------------------------------------- mnemonic tables
# mnemonics that write no register (flags only / nothing)
NOWRITE = set("""cmp test bt nop endbr64 prefetcht0 prefetcht1 prefetcht2 prefetchnta prefetchw ptest vptest
 pause clc stc cmc sfence lfence mfence comiss comisd ucomiss ucomisd vcomiss vcomisd vucomiss vucomisd
 int3 ud2 hlt""".split())
# mnemonics whose only register/memory destination is their first operand (plus flags)
FIRSTOP = set("""mov movzx movsx movsxd movabs lea add sub adc sbb and or xor not neg inc dec shl shr sar sal rol ror rcl rcr
 shld shrd imul3 bswap cmova cmovae cmovb cmovbe cmove cmovne cmovg cmovge cmovl cmovle cmovs cmovns cmovc cmovnc
 cmovz cmovnz cmovp cmovnp cmovo cmovno
 seta setae setb setbe sete setne setg setge setl setle sets setns setc setnc setz setnz
 bsf bsr tzcnt lzcnt popcnt andn blsi blsr blsmsk bextr bzhi pext pdep rorx sarx shlx shrx crc32 movbe
 movd movq movdqa movdqu movaps movups movapd movupd movntdq movntdqa movnti movss movsd_x movlps movhps movlpd movhpd
 movhlps movlhps lddqu
 pxor por pand pandn paddb paddw paddd paddq psubb psubw psubd psubq pmuludq pmulld pmullw pmaddwd
 pshufb pshufd pshufhw pshuflw shufps shufpd palignr pslld psrld psllq psrlq psllw psrlw psrad psraw pslldq psrldq
 pcmpeqb pcmpeqw pcmpeqd pcmpeqq pcmpgtb pcmpgtw pcmpgtd pcmpgtq pminud pminsw pminub pmaxud pminsd pmaxsd
 punpcklbw punpcklwd punpckldq punpcklqdq punpckhbw punpckhwd punpckhdq punpckhqdq unpcklps unpckhps unpcklpd unpckhpd
 pinsrb pinsrw pinsrd pinsrq pextrb pextrw pextrd pextrq pblendw pblendvb blendps blendpd blendvps
 xorps xorpd andps andpd orps orpd andnps andnpd pmovzxbd pmovzxbw pmovzxwd pmovzxdq
 aesenc aesenclast aesdec aesdeclast aesimc aeskeygenassist pclmulqdq pclmullqlqdq pclmulhqlqdq pclmullqhqdq pclmulhqhqdq
 sha1rnds4 sha1nexte sha1msg1 sha1msg2 sha256rnds2 sha256msg1 sha256msg2
 vmovd vmovq vmovdqa vmovdqu vmovaps vmovups vmovapd vmovupd vmovntdq vmovntdqa vmovdqa32 vmovdqa64
 vmovdqu8 vmovdqu16 vmovdqu32 vmovdqu64 vlddqu vmovss vmovsd vmovlps vmovhps vmovlpd vmovhpd vmovhlps vmovlhps
 vpxor vpxord vpxorq vpor vpord vporq vpand vpandd vpandq vpandn vpandnd vpandnq
 vpaddb vpaddw vpaddd vpaddq vpsubb vpsubw vpsubd vpsubq vpmuludq vpmulld vpmullw vpmaddwd
 vpshufb vpshufd vpshufhw vpshuflw vshufps vshufpd vpalignr valignd valignq
 vpslld vpsrld vpsllq vpsrlq vpsllw vpsrlw vpsrad vpsraw vpsraq vpslldq vpsrldq vpsllvd vpsrlvd vpsllvq vpsrlvq
 vprold vprord vprolq vprorq vprolvd vprorvd vpshldq vpshrdq vpshldd vpshrdd
 vpcmpeqb vpcmpeqw vpcmpeqd vpcmpeqq vpcmpgtd vpminud vpminuq vpmaxud vpminsd vpmaxsd
 vpunpcklbw vpunpcklwd vpunpckldq vpunpcklqdq vpunpckhbw vpunpckhwd vpunpckhdq vpunpckhqdq
 vunpcklps vunpckhps vunpcklpd vunpckhpd
 vpinsrb vpinsrw vpinsrd vpinsrq vpextrb vpextrw vpextrd vpextrq vpblendd vpblendw vpblendvb vpblendmd vpblendmq
 vblendps vblendpd vxorps vxorpd vandps vandpd vorps vorpd
 vpternlogd vpternlogq vpermq vpermd vpermi2q vpermi2d vpermt2q vpermt2d vperm2f128 vperm2i128 vpermilps vpermilpd
 vpermb vpermw
 vbroadcastf64x2 vbroadcasti32x4 vbroadcasti64x2 vbroadcastf32x4 vbroadcasti128 vbroadcastf128 vbroadcastss vbroadcastsd
 vpbroadcastb vpbroadcastw vpbroadcastd vpbroadcastq vbroadcasti64x4 vbroadcastf64x4
 vextracti32x4 vextracti64x2 vextracti64x4 vextracti128 vextractf128 vextractf32x4 vextractf64x2 vextractf64x4 vextracti32x8
 vinserti32x4 vinserti64x2 vinserti64x4 vinserti128 vinsertf128 vinsertf32x4 vinsertf64x2 vinsertf64x4
 vshufi32x4 vshufi64x2 vshuff32x4 vshuff64x2
 vaesenc vaesenclast vaesdec vaesdeclast vaesimc vaeskeygenassist
 vpclmulqdq vpclmullqlqdq vpclmulhqlqdq vpclmullqhqdq vpclmulhqhqdq
 vpmovzxbd vpmovzxbw vpmovzxwd vpmovzxdq vpcmpd vpcmpq vpcmpud vpcmpuq vpcmpb vpcmpub vpcmpw vpcmpuw vptestmd vptestmq vptestnmd
 kmovb kmovw kmovd kmovq kandw kandq korw korq kxorw kxorq knotw knotq kshiftlw kshiftrw kshiftlq kshiftrq kaddq
 vpcompressd vpexpandd vpsadbw psadbw
""".split())
# clearing idioms (self-xor): mnemonic -> True
SELFXOR = set("pxor xorps xorpd vpxor vpxord vpxorq vxorps vxorpd".split())
# full-register vector moves (dest := src)
VMOVES = set("""movdqa movdqu movaps movups movapd movupd vmovdqa vmovdqu vmovaps vmovups vmovapd vmovupd
 vmovdqa32 vmovdqa64 vmovdqu8 vmovdqu16 vmovdqu32 vmovdqu64""".split())
# implicit writers: mnemonic -> (gpr write set, gpr read set); operands are added by the first-operand
# rule when 'first' is in the third field
RAX, RCX, RDX, RBX, RSI, RDI = 0, 1, 2, 3, 6, 7
IMPLICIT = {
    "cpuid": ({RAX, RBX, RCX, RDX}, {RAX, RCX}, ""),
    "xgetbv": ({RAX, RDX}, {RCX}, ""),
    "rdtsc": ({RAX, RDX}, set(), ""),
    "mul": ({RAX, RDX}, {RAX}, ""),
    "imul1": ({RAX, RDX}, {RAX}, ""),
    "div": ({RAX, RDX}, {RAX, RDX}, ""),
    "idiv": ({RAX, RDX}, {RAX, RDX}, ""),
    "cmpxchg": ({RAX}, {RAX}, "first"),
    "cmpxchg16b": ({RAX, RDX}, {RAX, RBX, RCX, RDX}, "first"),
    "xchg": (set(), set(), "both"),
    "xadd": (set(), set(), "both"),
    "mulx": (set(), {RDX}, "first2"),
    "cwde": ({RAX}, {RAX}, ""), "cdqe": ({RAX}, {RAX}, ""), "cbw": ({RAX}, {RAX}, ""),
    "cdq": ({RDX}, {RAX}, ""), "cqo": ({RDX}, {RAX}, ""), "cwd": ({RDX}, {RAX}, ""),
    "lahf": ({RAX}, set(), ""),
    "sahf": (set(), {RAX}, ""),
    "loop": ({RCX}, {RCX}, ""), "loope": ({RCX}, {RCX}, ""), "loopne": ({RCX}, {RCX}, ""),
    "pcmpestri": ({RCX}, {RAX, RDX}, ""), "pcmpistri": ({RCX}, set(), ""),
    "vpcmpestri": ({RCX}, {RAX, RDX}, ""), "vpcmpistri": ({RCX}, set(), ""),
}
# string instructions: (gpr writes, gpr reads, stores through rdi?)
STRING = {
    "movs": ({RSI, RDI}, {RSI, RDI}, True), "stos": ({RDI}, {RDI, RAX}, True),
    "lods": ({RSI, RAX}, {RSI}, False), "scas": ({RDI}, {RDI, RAX}, False), "cmps": ({RSI, RDI}, {RSI, RDI}, False),
}
CTL_WRITERS = set("ldmxcsr vldmxcsr fldcw fninit finit fxrstor fxrstor64 xrstor xrstor64 fldenv frstor".split())
# conditional jumps after `cmp r, k`: (signed?, relation that holds between r and k when TAKEN)
JCC_REL = {"jb": (False, "RLt"), "jc": (False, "RLt"), "jnae": (False, "RLt"),
           "jae": (False, "RGe"), "jnb": (False, "RGe"), "jnc": (False, "RGe"),
           "jbe": (False, "RLe"), "jna": (False, "RLe"), "ja": (False, "RGt"), "jnbe": (False, "RGt"),
           "jl": (True, "RLt"), "jnge": (True, "RLt"), "jge": (True, "RGe"), "jnl": (True, "RGe"),
           "jle": (True, "RLe"), "jng": (True, "RLe"), "jg": (True, "RGt"), "jnle": (True, "RGt")}
JCC = set("""ja jae jb jbe jc je jg jge jl jle jna jnae jnb jnbe jnc jne jng jnge jnl jnle jno jnp jns jnz jo jp jpe jpo js jz
 jrcxz jecxz loop loope loopne""".split())


class Insn:
    __slots__ = ("addr", "mn", "ops", "reloc", "target", "raw", "next")

    def __repr__(self):
        return "%x: %s %s" % (self.addr, self.mn, ",".join(self.ops))


def split_ops(s):
    out, depth, cur = [], 0, ""
    for ch in s:
        if ch in "[{(":
            depth += 1
        elif ch in "]})":
            depth -= 1
        if ch == "," and depth == 0:
            out.append(cur.strip())
            cur = ""
        else:
            cur += ch
    if cur.strip():
        out.append(cur.strip())
    return out


LINE_RE = re.compile(r"^\s*([0-9a-f]+):\t(.*)$")
LABEL_RE = re.compile(r"^([0-9a-f]{16}) <(.+)>:$")
RELOC_RE = re.compile(r"^\t\t\t([0-9a-f]+): (R_X86_64_\w+)\t(\S+)$")
PREFIXES = ("lock", "notrack", "bnd")


def disassemble(path):
    """-> (insns by address (dict), labels {addr: [names]}) for section .text of one object"""
    out = subprocess.run(["objdump", "-d", "-r", "--no-show-raw-insn", "-M", "intel", "-j", ".text", path],
                         stdout=subprocess.PIPE, text=True, check=True, timeout=300).stdout
    insns, labels, last = {}, {}, None
    order = []
    for line in out.split("\n"):
        m = LINE_RE.match(line)
        if m:
            addr = int(m.group(1), 16)
            text = m.group(2).split("#")[0].strip()
            if not text:
                continue
            i = Insn()
            i.addr, i.raw, i.reloc, i.target = addr, text, None, None
            cm = re.search(r"#\s*([0-9a-f]+)\s*<", m.group(2))
            if cm:
                i.target = int(cm.group(1), 16)
            toks = text.split(None, 1)
            mn = toks[0]
            rest = toks[1] if len(toks) > 1 else ""
            while mn in PREFIXES and rest:
                toks = rest.split(None, 1)
                mn, rest = toks[0], (toks[1] if len(toks) > 1 else "")
            if mn in ("rep", "repz", "repnz", "repe", "repne") and rest:
                toks = rest.split(None, 1)
                mn, rest = "rep " + toks[0], (toks[1] if len(toks) > 1 else "")
            tm = re.search(r"\s*<([^>]+)>\s*$", rest)
            if tm:
                rest = rest[:tm.start()]
            i.mn, i.ops = mn, split_ops(rest)
            insns[addr] = i
            order.append(addr)
            last = i
            continue
        m = RELOC_RE.match(line)
        if m and last is not None:
            last.reloc = (m.group(2), m.group(3))
            continue
        m = LABEL_RE.match(line)
        if m:
            labels.setdefault(int(m.group(1), 16), []).append(m.group(2))
    for a, b in zip(order, order[1:]):
        insns[a].next = b
    if order:
        insns[order[-1]].next = None
    return insns, labels


def nm_symbols(path):
    """-> (global text symbols {name: addr}, local text symbols {name: addr}, undefined set)"""
    out = subprocess.run(["nm", path], stdout=subprocess.PIPE, text=True, check=True, timeout=60).stdout
    g, l, u = {}, {}, set()
    for line in out.split("\n"):
        p = line.split()
        if len(p) == 3 and p[1] == "T":
            g[p[2]] = int(p[0], 16)
        elif len(p) == 3 and p[1] == "t":
            l[p[2]] = int(p[0], 16)
        elif len(p) == 2 and p[0] == "U":
            u.add(p[1])
    return g, l, u


def data_text_pointers(path):
    """text addresses stored (by relocation) in writable/readonly data sections: function pointers"""
    out = subprocess.run(["objdump", "-r", path], stdout=subprocess.PIPE, text=True, check=True, timeout=60).stdout
    res, sec = set(), None
    for line in out.split("\n"):
        m = re.match(r"RELOCATION RECORDS FOR \[(.+)\]:", line)
        if m:
            sec = m.group(1)
            continue
        p = line.split()
        if sec and sec != ".text" and len(p) == 3 and p[1] == "R_X86_64_64" and p[2].startswith(".text"):
            off = p[2][5:]
            res.add(int(off, 16) if off else 0)
    return res


def is_asm_object(path):
    out = subprocess.run(["readelf", "-p", ".comment", path], stdout=subprocess.PIPE, stderr=subprocess.DEVNULL, text=True).stdout
    return "GCC" not in out and "clang" not in out


# ---------------------------------------------------------------------------- operand parsing

class Mem:
    def __init__(self, size, base, index, scale, disp, rip, seg):
        self.size, self.base, self.index, self.scale, self.disp, self.rip, self.seg = size, base, index, scale, disp, rip, seg

    def regs(self):
        return {r for r in (self.base, self.index) if r is not None}


def parse_operand(op):
    """-> ('gpr', idx, width) | ('vec', idx, widthcode 1/2/3, masked, zeroing) | ('kreg',) | ('mem', Mem) | ('imm', v) | ('other', text)"""
    o = op.strip()
    deco = re.findall(r"\{([^}]*)\}", o)
    o0 = re.sub(r"\{[^}]*\}", "", o).strip()
    if o0 in REGS:
        return ("gpr",) + REGS[o0]
    m = VEC_RE.match(o0)
    if m:
        masked = any(MASK_RE.match(d) for d in deco)
        return ("vec", int(m.group(2)), {"x": 1, "y": 2, "z": 3}[m.group(1)], masked, "z" in deco)
    if MASK_RE.match(o0):
        return ("kreg",)
    if "[" in o0:
        size = None
        pm = re.match(r"^(\w+) PTR (.*)$", o0)
        body = o0
        if pm:
            size = PTR_SIZE.get(pm.group(1))
            body = pm.group(2)
        seg = None
        sm = re.match(r"^([a-z]s):(.*)$", body)
        if sm:
            seg, body = sm.group(1), sm.group(2)
        inner = body[body.index("[") + 1: body.rindex("]")]
        base = index = None
        scale, disp, rip, bad, a32 = 1, 0, False, False, False
        for sign, term in re.findall(r"([+-]?)([^+-]+)", inner):
            term = term.strip()
            if "*" in term:
                r, s = term.split("*")
                if r in REGS and REGS[r][1] >= 32:
                    index, scale = REGS[r][0], int(s, 0)
                    a32 = a32 or REGS[r][1] == 32
                else:
                    bad = True       # vector index (gather)
            elif term == "rip":
                rip = True
            elif term in REGS:
                if REGS[term][1] < 32:
                    bad = True
                elif REGS[term][1] == 32 and not (a32 or (base is None and index is None)):
                    bad = True
                elif base is None:
                    a32 = a32 or REGS[term][1] == 32
                    base = REGS[term][0]
                elif index is None:
                    index = REGS[term][0]
                else:
                    bad = True
            else:
                try:
                    v = int(term, 0)
                    disp += -v if sign == "-" else v
                except ValueError:
                    bad = True
        if bad:
            return ("other", o)
        return ("mem", Mem(size, base, index, scale, disp, rip, seg or ("a32" if a32 else None)))
    try:
        return ("imm", int(o0, 0))
    except ValueError:
        return ("other", o)


def gpr_reads(pops):
    s = set()
    for p in pops:
        if p[0] == "gpr":
            s.add(p[1])
        elif p[0] == "mem":
            s |= p[1].regs()
    return s


def mask(regs):
    m = 0
    for r in regs:
        m |= 1 << r
    return m


# ---------------------------------------------------------------------------- abstract instructions
# GPR/stack machine: tuples whose first element is the constructor name of AbiCfg.ginsn
# vector machine:    tuples whose first element is the constructor name of AbiCfg.vinsn

def is_align_mask(v):
    """and r, imm with imm = -(2^m): returns m, else None"""
    if v >= 1 << 63:
        v -= 1 << 64
    if v >= 0:
        return None
    n = -v
    if n & (n - 1):
        return None
    return n.bit_length() - 1


def translate(i, uid):
    """one instruction -> (list of ginsn, list of vinsn, notes).  Branches/calls/rets are handled by
    the CFG builder, not here."""
    mn = i.mn
    pops = [parse_operand(o) for o in i.ops]
    g, v, notes = [], [], []
    if mn in NOWRITE:
        return g, v, notes
    if any(p[0] == "other" for p in pops):
        return [("GUnknown",)], [("VUnknown",)], ["operand not understood: " + i.raw]
    if mn == "std":
        return [("GStd",)], v, notes
    if mn == "cld":
        return [("GCld",)], v, notes
    if mn in CTL_WRITERS:
        return [("GCtl",)], v, ["control-word writer: " + i.raw]
    if mn == "vzeroall":
        return g, [("VZeroAll",)], notes
    if mn == "vzeroupper":
        return g, [("VZeroUpper",)], notes
    if mn == "push":
        if len(pops) == 1 and pops[0][0] == "gpr" and pops[0][2] == 64:
            return [("GPush", pops[0][1])], v, notes
        if len(pops) == 1 and pops[0][0] in ("imm", "mem"):
            return [("GPushX", mask(gpr_reads(pops)))], v, notes
        return [("GUnknown",)], [], ["push form: " + i.raw]
    if mn == "pop":
        if len(pops) == 1 and pops[0][0] == "gpr" and pops[0][2] == 64:
            return [("GPop", pops[0][1])], v, notes
        return [("GUnknown",)], [], ["pop form: " + i.raw]
    if mn == "leave":
        return [("GMov", RSP, RBP), ("GPop", RBP)], v, notes
    # string instructions
    sm = re.match(r"^(rep |repz |repnz |repe |repne )?(movs|stos|lods|scas|cmps)[bwdq]?$", mn)
    if sm and not (sm.group(2) == "movs" and pops and pops[0][0] == "vec"):
        w, r, st = STRING[sm.group(2)]
        w, r = set(w), set(r)
        if sm.group(1):
            w.add(RCX)
            r.add(RCX)
        if st:
            g.append(("GStoreNS", mask({RDI})))
        g.append(("GClob", mask(w), mask(r)))
        return g, v, notes
    name = mn
    if mn == "imul":
        name = "imul1" if len(pops) == 1 else "imul3"
    if mn == "movsd" and pops and pops[0][0] in ("vec", "mem") and len(pops) == 2:
        name = "movsd_x"
    if name == "xchg" and len(pops) == 2 and all(p[0] == "gpr" and p[2] == 64 for p in pops):
        return [("GXchg", pops[0][1], pops[1][1])], v, notes
    if name in IMPLICIT:
        w, r, how = IMPLICIT[name]
        w, r = set(w), set(r) | gpr_reads(pops)
        dsts = []
        if how == "first":
            dsts = pops[:1]
        elif how == "both":
            dsts = pops[:2]
        elif how == "first2":
            dsts = pops[:2]
        for d in dsts:
            if d[0] == "gpr":
                w.add(d[1])
            elif d[0] == "mem":
                g += store_insn(d[1], None)
            elif d[0] == "vec":
                return [("GUnknown",)], [("VUnknown",)], ["implicit-table form: " + i.raw]
        if w:
            g.append(("GClob", mask(w), mask(r)))
        return g, v, notes
    if name not in FIRSTOP:
        return [("GUnknown",)], [("VUnknown",)], ["unknown mnemonic: " + i.raw]
    if not pops:
        return [("GUnknown",)], [("VUnknown",)], ["no operands: " + i.raw]
    d = pops[0]
    srcs = pops[1:]
    reads = gpr_reads(pops[1:]) | (d[1].regs() if d[0] == "mem" else set())
    # ---- precise GPR forms
    if d[0] == "gpr":
        r, w = d[1], d[2]
        rmw = name not in ("mov", "movzx", "movsx", "movsxd", "movabs", "lea", "movd", "movq", "vmovd", "vmovq",
                           "pextrb", "pextrw", "pextrd", "pextrq", "vpextrb", "vpextrw", "vpextrd", "vpextrq",
                           "kmovb", "kmovw", "kmovd", "kmovq", "imul3", "rorx", "bsf", "bsr", "tzcnt", "lzcnt",
                           "popcnt", "andn", "pext", "pdep", "sarx", "shlx", "shrx", "bextr", "bzhi", "blsi",
                           "blsr", "blsmsk", "movbe", "seta", "setae", "setb", "setbe", "sete", "setne", "setg",
                           "setge", "setl", "setle", "sets", "setns", "setc", "setnc", "setz", "setnz")
        if rmw or w < 32:
            reads = reads | {r}        # result depends on the old value of the destination
        if name.startswith("cmov"):
            reads = reads | {r}
        if w == 32:
            reads = set()              # (A4) a zero-extended 32-bit result is not a frame pointer
        if name in ("mov", "movabs") and w >= 32 and len(srcs) == 1 and srcs[0][0] == "imm" and 0 <= srcs[0][1] < (1 << 31):
            return [("GConst", r, srcs[0][1])], v, notes
        if name == "xor" and w >= 32 and len(srcs) == 1 and srcs[0][0] == "gpr" and srcs[0][1] == r and srcs[0][2] == w:
            return [("GConst", r, 0)], v, notes
        if name == "mov" and w == 64 and len(srcs) == 1:
            s = srcs[0]
            if s[0] == "gpr" and s[2] == 64:
                return [("GMov", r, s[1])], v, notes
            if s[0] == "mem" and s[1].size == 8 and s[1].index is None and s[1].base is not None and not s[1].rip and not s[1].seg:
                return [("GLoad", r, s[1].base, s[1].disp)], v, notes
        keep_precise = lambda dst, src: dst in CALLEE_SAVED or dst == RSP or src in CALLEE_SAVED or src == RSP
        if name == "lea" and w == 64 and len(srcs) == 1 and srcs[0][0] == "mem":
            m = srcs[0][1]
            if m.index is None and m.base is not None and not m.rip and not m.seg and keep_precise(r, m.base):
                return [("GLea", r, m.base, m.disp)], v, notes
        if name in ("add", "sub") and w == 64 and len(srcs) == 1 and srcs[0][0] == "imm":
            k = srcs[0][1]
            if k >= 1 << 63:
                k -= 1 << 64
            return [("GLea", r, r, k if name == "add" else -k)], v, notes
        if name == "and" and w == 64 and len(srcs) == 1 and srcs[0][0] == "imm" and keep_precise(r, r):
            al = is_align_mask(srcs[0][1])
            if al is not None:
                return [("GAlign", r, uid, al)], v, notes
        if name == "xor" and len(srcs) == 1 and srcs[0][0] == "gpr" and srcs[0][1] == r and w >= 32:
            return [("GClob", mask({r}), 0)], v, notes      # xor r,r : constant zero, depends on nothing
        return [("GClob", mask({r}), mask(reads))], v, notes
    if d[0] == "mem":
        src = None
        if name == "mov" and len(srcs) == 1 and srcs[0][0] == "gpr" and srcs[0][2] == 64 and d[1].size == 8:
            src = srcs[0][1]
        return store_insn(d[1], src), v, notes
    if d[0] == "kreg":
        return g, v, notes          # mask registers are not tracked (noted in docs)
    if d[0] == "vec":
        idx, wc, masked, zeroing = d[1], d[2], d[3], d[4]
        legacy = not name.startswith("v")
        if name in SELFXOR and not masked:
            vs = [p for p in srcs if p[0] == "vec"]
            if len(vs) == len(srcs) and all(p[1] == idx and p[2] == wc for p in vs):
                return g, [("VClr", legacy, wc, idx)], notes
        if name in VMOVES and not masked and len(srcs) == 1 and srcs[0][0] == "vec" and srcs[0][2] == wc:
            return g, [("VMov", legacy, wc, idx, srcs[0][1])], notes
        if masked and not zeroing:
            # merge-masking keeps old bits of the whole destination register: treated as a legacy-style
            # write of the operand width on top of whatever was there
            return g, [("VW", True, wc, 1 << idx)], notes
        return g, [("VW", legacy, wc, 1 << idx)], notes
    return [("GUnknown",)], [("VUnknown",)], ["destination not understood: " + i.raw]


def store_insn(m, src):
    """a store to memory operand m (src = GPR index for a 64-bit register store, else None)"""
    if m.rip or (m.base is None and m.index is None):
        return []                                  # absolute / rip-relative: a static, not the stack (C18)
    if m.seg:
        return [("GUnknown",)]
    if m.index is None and m.size is not None:
        return [("GStore", m.base, m.disp, m.size, src)]
    if m.size is None:
        return [("GUnknown",)]
    if m.base is not None and m.index is not None:
        return [("GStoreIdx", m.base, m.index, m.scale, m.disp, m.size)]
    return [("GStoreNS", mask(m.regs()))]       # index without base: only admissible through non-stack registers


# ---------------------------------------------------------------------------- CFG

class Func:
    def __init__(self, obj, addr, name, is_global):
        self.obj, self.addr, self.name, self.is_global = obj, addr, name, is_global
        self.blocks = []         # list of dict(addr, g, v, term)
        self.notes = []
        self.ninsn = 0
        self.callees = []


class Obj:
    def __init__(self, path):
        self.path = path
        self.name = os.path.basename(path)
        self.insns, self.labels = disassemble(path)
        self.globals_, self.locals_, self.undef = nm_symbols(path)
        self.ptrs = data_text_pointers(path)
        # addresses of .text used as DATA by a rip-relative operand resolved by the assembler
        self.datarefs = {i.target for i in self.insns.values()
                         if i.target is not None and i.reloc is None and i.mn not in ("jmp", "call") and i.mn not in JCC}

    def sym_at(self, addr):
        names = [n for n, a in self.globals_.items() if a == addr]
        if names:
            return sorted(names, key=lambda n: (len(n), n))[0], True
        names = [n for n, a in self.locals_.items() if a == addr and not n.startswith("..@")]
        if names:
            return sorted(names, key=lambda n: (len(n), n))[0], False
        return "L%x" % addr, False


def branch_target(o, i):
    """-> ('local', addr) | ('ext', symbol) | ('ind',) | None"""
    if len(i.ops) == 1 and "[" in i.ops[0]:
        p = parse_operand(i.ops[0])
        return ("ind",) if p[0] == "mem" and p[1].rip and p[1].base is None and p[1].index is None else None
    if len(i.ops) != 1 or i.ops[0] in REGS:
        return None
    if i.reloc:
        sym = i.reloc[1]
        m = re.match(r"^(.+?)([+-]0x[0-9a-f]+)?$", sym)
        name, add = m.group(1), int(m.group(2), 16) if m.group(2) else 0
        if name == ".text":
            return ("local", add + 4)
        if name in o.globals_:
            return ("local", o.globals_[name] + add + 4)
        if name in o.locals_:
            return ("local", o.locals_[name] + add + 4)
        return ("ext", name)
    if len(i.ops) == 1:
        try:
            return ("local", int(i.ops[0], 16))
        except ValueError:
            pass
    return None


def build_function(o, entry, fname, is_global, want_call):
    """explore from `entry`; want_call(kind, target) -> function key used in GCall/TTail"""
    f = Func(o.name, entry, fname, is_global)
    insns = o.insns
    leaders, seen, work = {entry}, set(), [entry]
    bad = False
    while work:
        a = work.pop()
        while a is not None and a not in seen:
            if a not in insns:
                f.notes.append("control reaches non-code address %x" % a)
                bad = True
                break
            seen.add(a)
            i = insns[a]
            mn = i.mn
            if mn == "jmp":
                t = branch_target(o, i)
                if t and t[0] == "local":
                    leaders.add(t[1])
                    work.append(t[1])
                break
            if mn in JCC:
                t = branch_target(o, i)
                if t and t[0] == "local":
                    leaders.add(t[1])
                    work.append(t[1])
                if i.next is not None:
                    leaders.add(i.next)
                a = i.next
                continue
            if mn in ("ret", "rep ret", "repz ret", "ud2", "hlt"):
                break
            a = i.next
    addrs = sorted(seen)
    f.ninsn = len(addrs)
    # split into blocks
    starts = sorted(l for l in leaders if l in seen)
    index = {a: k for k, a in enumerate(starts)}
    for k, s in enumerate(starts):
        g, v = [], []
        a = s
        term = None
        prev = None
        while True:
            if a != s:
                prev = i
            i = insns[a]
            mn = i.mn
            if mn == "jmp":
                t = branch_target(o, i)
                if t is None:
                    term = ("TBad",)
                    f.notes.append("indirect jump: " + i.raw)
                elif t[0] == "local":
                    term = ("TJmp", index[t[1]]) if t[1] in index else ("TBad",)
                elif t[0] == "ext":
                    term = ("TTail", want_call("ext", t[1]))
                else:
                    term = ("TTailInd",)
                break
            if mn in JCC:
                t = branch_target(o, i)
                if mn in IMPLICIT:
                    w, r, _ = IMPLICIT[mn]
                    g.append(("GClob", mask(w), mask(r)))
                if t and t[0] == "local" and t[1] in index and i.next in index:
                    term = ("TJcc", index[t[1]], index[i.next])
                    cc = JCC_REL.get(mn)
                    if cc and prev is not None and prev.mn == "cmp" and len(prev.ops) == 2:
                        pa, pb = parse_operand(prev.ops[0]), parse_operand(prev.ops[1])
                        if pa[0] == "gpr" and pa[2] in (32, 64) and pb[0] == "imm":
                            k = pb[1] - (1 << 64) if pb[1] >= (1 << 63) else pb[1]
                            term = ("TJcmp", cc[0], pa[2] == 64, cc[1], pa[1], k, index[t[1]], index[i.next])
                else:
                    term = ("TBad",)
                    f.notes.append("conditional branch not understood: " + i.raw)
                break
            if mn in ("ret", "rep ret", "repz ret"):
                term = ("TRet",) if not i.ops else ("TBad",)
                break
            if mn in ("ud2", "hlt"):
                term = ("THalt",)
                break
            if mn == "call":
                t = branch_target(o, i)
                if t is None or t[0] == "ind":
                    g.append(("GUnknown",))
                    v.append(("VUnknown",))
                    f.notes.append("indirect call: " + i.raw)
                else:
                    key = want_call(*t)
                    f.callees.append(key)
                    g.append(("GCall", key))
                    v.append(("VCall", key))
            else:
                gi, vi, notes = translate(i, a)
                g += gi
                v += vi
                f.notes += notes
            nx = i.next
            if nx is None or nx not in seen:
                term = ("TBad",)
                f.notes.append("falls off the explored code after %x" % a)
                break
            if nx in index:
                term = ("TJmp", index[nx])
                break
            a = nx
        f.blocks.append({"addr": s, "g": merge_g(g), "v": merge_v(v), "term": term})
    return f


def merge_g(g):
    out = []
    for x in g:
        if out and x[0] == "GClob" and out[-1][0] == "GClob":
            out[-1] = ("GClob", out[-1][1] | x[1], out[-1][2] | x[2])
        elif out and x[0] == "GStoreNS" and out[-1][0] == "GStoreNS":
            out[-1] = ("GStoreNS", out[-1][1] | x[1])
        else:
            out.append(x)
    return out


def merge_v(v):
    out = []
    for x in v:
        if out and x[0] == "VW" and out[-1][0] == "VW" and out[-1][1:3] == x[1:3]:
            out[-1] = ("VW", x[1], x[2], out[-1][3] | x[3])
        else:
            out.append(x)
    return out


# ---------------------------------------------------------------------------- whole library

def _translate_object(path):
    """worker: everything that needs the disassembly of ONE object.  Functions are keyed
    (object, address); callees in other objects stay ("ext", symbol) and are resolved by the parent."""
    o = Obj(path)
    funcs, pending = {}, []

    def want_call(kind, t):
        if kind == "local":
            key = (o.name, t)
            if key not in funcs and key not in pending:
                pending.append(key)
            return key
        return ("ext", t)

    roots = []
    for n, a in sorted(o.globals_.items(), key=lambda kv: kv[1]):
        if "_slver" in n:
            continue                 # version markers: 4 data bytes in .text, not code
        if (o.name, a) not in roots:
            roots.append((o.name, a))
    for a in sorted(o.ptrs):
        if (o.name, a) not in roots:
            roots.append((o.name, a))
    pending += roots
    while pending:
        key = pending.pop(0)
        if key in funcs:
            continue
        name, isg = o.sym_at(key[1])
        funcs[key] = build_function(o, key[1], name, isg, want_call)
    taken = set()
    for i in o.insns.values():
        if i.reloc and i.mn != "call":
            taken.add(re.sub(r"[+-]0x[0-9a-f]+$", "", i.reloc[1]))
    meta = {"name": o.name, "globals": o.globals_, "undef": o.undef, "ptrs": o.ptrs, "datarefs": o.datarefs,
            "taken": taken, "roots": roots}
    return meta, funcs


def load_library(objdir, parallel=True):
    """-> (metas {objname: meta}, funcs {key: Func}, roots [key], unresolved external callees, info)"""
    paths, c_undef, c_objs = [], set(), []
    for fn in sorted(os.listdir(objdir)):
        p = os.path.join(objdir, fn)
        if not fn.endswith(".o"):
            continue
        if is_asm_object(p):
            paths.append(p)
        else:
            c_objs.append(fn)
            c_undef |= nm_symbols(p)[2]
    if parallel:
        import multiprocessing
        with multiprocessing.Pool(min(16, os.cpu_count() or 4)) as pool:
            res = pool.map(_translate_object, paths, chunksize=1)
    else:
        res = [_translate_object(p) for p in paths]
    metas = {m["name"]: m for m, _ in res}
    funcs = {}
    for _, fs in res:
        funcs.update(fs)
    gdef, undef_all = {}, set()
    for m in metas.values():
        undef_all |= m["undef"]
        for n, a in m["globals"].items():
            gdef.setdefault(n, (m["name"], a))
    roots, skipped = [], []
    for m in metas.values():
        for key in m["roots"]:
            names = [n for n, a in m["globals"].items() if a == key[1]]
            if names and key[1] not in m["ptrs"] and key[1] in m["datarefs"] and \
                    not any(n in undef_all or n in c_undef for n in names):
                skipped.append((m["name"], names[0]))      # a table placed in .text and read rip-relatively
                funcs.pop(key, None)
                continue
            roots.append(key)
    ext = set()

    def resolve(k):
        if isinstance(k, tuple) and k[0] == "ext":
            if k[1] in gdef:
                return gdef[k[1]]
            ext.add(k[1])
        return k
    for f in funcs.values():
        f.callees = [resolve(k) for k in f.callees]
        for b in f.blocks:
            b["g"] = [("GCall", resolve(i[1])) if i[0] == "GCall" else i for i in b["g"]]
            b["v"] = [("VCall", resolve(i[1])) if i[0] == "VCall" else i for i in b["v"]]
            if b["term"][0] == "TTail":
                b["term"] = ("TTail", resolve(b["term"][1]))
    info = {"c_objects": c_objs, "data_in_text": skipped, "c_referenced": c_undef}
    return metas, funcs, roots, sorted(ext), info


if __name__ == "__main__":
    import time
    t0 = time.time()
    objs, funcs, roots, ext, info = load_library(sys.argv[1])
    print(info['data_in_text'])
    nb = sum(len(f.blocks) for f in funcs.values())
    ng = sum(len(b["g"]) for f in funcs.values() for b in f.blocks)
    nv = sum(len(b["v"]) for f in funcs.values() for b in f.blocks)
    ni = sum(f.ninsn for f in funcs.values())
    print("objects", len(objs), "functions", len(funcs), "roots", len(roots), "blocks", nb, "ginsn", ng, "vinsn", nv,
          "machine insns", ni, "ext", ext, "%.1fs" % (time.time() - t0))
    notes = {}
    for f in funcs.values():
        for n in f.notes:
            notes.setdefault(n.split(":")[0], []).append((f.name, n))
    for k, v in notes.items():
        print(k, len(v), v[:5])
    big = sorted(funcs.values(), key=lambda f: -len(f.blocks))[:8]
    for f in big:
        print(f.obj, f.name, len(f.blocks), f.ninsn, sum(len(b["g"]) for b in f.blocks), sum(len(b["v"]) for b in f.blocks))
