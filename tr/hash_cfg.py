"""Translator for the multi-buffer hash configuration: Gen/HashCfgGen.v.

Regenerated from /repo's current tree on every run:
  * the (algorithm, family) pairs: `nm` of the freshly built archive (T _<algo>_ctx_mgr_submit_<family>),
  * the manager entry points each family's context layer calls: undefined symbols of
    <algo>_ctx_<family>.o (used by the native driver to interpose the manager),
  * flags / status / error constants, block size, length-field size, digest words, IV and
    the widths of the context's length fields: a probe C program compiled against the
    headers (so implicit enum values and typedefs are resolved by the compiler, not by a
    regular expression),
  * the initial free-lane stack of every family: the `unused_lanes` literals of the manager
    init function its context layer calls (#define aliases resolved),
  * the single-buffer thresholds of <algo>_job.asm.
Deliberately dumb: one source construct -> one record field; everything decided about the
records is decided by Model/HashCfg.v (hconsts_ok, halgo_ok, hfam_ok, hfams_expected)."""
import os, re, subprocess, tempfile

ALGOS = ["md5", "sha1", "sha256", "sha512", "sm3"]
_NOT_FAM = {"dispatch_init", "dispatched", "mbinit", "slver"}


def _nm(path, undefined=False):
    out = subprocess.run(["nm", "-u" if undefined else "--defined-only", path], stdout=subprocess.PIPE,
                         stderr=subprocess.DEVNULL, text=True).stdout
    return out


def families(libdir):
    """sorted [(algo, family)] present in the built archive"""
    txt = _nm(os.path.join(libdir, "isa-l_crypto.a"))
    have = {}
    for m in re.finditer(r"^[0-9a-f]+ T _(%s)_ctx_mgr_(init|submit|flush)_([a-z0-9_]+)$" % "|".join(ALGOS), txt, re.M):
        algo, what, fam = m.groups()
        if fam in _NOT_FAM or fam.startswith("slver") or fam.endswith("_slver"):
            continue
        have.setdefault((algo, fam), set()).add(what)
    bad = [k for k, v in have.items() if v != {"init", "submit", "flush"}]
    if bad:
        raise RuntimeError("hash families with an incomplete init/submit/flush triple: %s" % bad)
    return sorted(have)


def mgr_symbols(libdir, algo, fam):
    """manager-level submit/flush entry points the context layer of (algo, fam) calls"""
    obj = os.path.join(libdir, "obj", "%s_ctx_%s.o" % (algo, fam))
    if not os.path.exists(obj):
        return []
    txt = _nm(obj, undefined=True)
    return sorted(set(re.findall(r"\bU (_%s_[ms]b_mgr_(?:submit|flush)_[a-z0-9_]+)" % algo, txt)))


PROBE = r"""
#include <stdio.h>
#include <stdint.h>
#include <stddef.h>
#include "isal_crypto_api.h"
#include "multi_buffer.h"
#include "md5_mb.h"
#include "sha1_mb.h"
#include "sha256_mb.h"
#include "sha512_mb.h"
#include "sm3_mb.h"
#include "md5_mb_internal.h"
#include "sha1_mb_internal.h"
#include "sha256_mb_internal.h"
#include "sha512_mb_internal.h"
#include "sm3_mb_internal.h"
#define P(k, v) printf("%s=%lld\n", k, (long long) (v))
#define ALG(lc, UC) do { \
        static const ISAL_##UC##_WORD_T iv[] = { ISAL_##UC##_INITIAL_DIGEST }; \
        ISAL_##UC##_HASH_CTX *c = 0; \
        P(#lc ".bsize", ISAL_##UC##_BLOCK_SIZE); P(#lc ".lenfld", ISAL_##UC##_PADLENGTHFIELD_SIZE); \
        P(#lc ".nwords", ISAL_##UC##_DIGEST_NWORDS); P(#lc ".max_lanes", ISAL_##UC##_MAX_LANES); \
        P(#lc ".wordbits", 8 * sizeof(ISAL_##UC##_WORD_T)); \
        P(#lc ".total_bits", 8 * sizeof(c->total_length)); P(#lc ".inclen_bits", 8 * sizeof(c->incoming_buffer_length)); \
        P(#lc ".plen_bits", 8 * sizeof(c->partial_block_buffer_length)); \
        P(#lc ".pbuf_bytes", sizeof(c->partial_block_buffer)); \
        P(#lc ".digest_bytes", sizeof(c->job.result_digest)); \
        P(#lc ".job_offset", offsetof(ISAL_##UC##_HASH_CTX, job)); \
        P(#lc ".ivn", sizeof iv / sizeof iv[0]); \
        for (unsigned i = 0; i < sizeof iv / sizeof iv[0]; i++) printf(#lc ".iv%u=%llu\n", i, (unsigned long long) iv[i]); \
} while (0)
int main(void)
{
        P("flag_update", ISAL_HASH_UPDATE); P("flag_first", ISAL_HASH_FIRST); P("flag_last", ISAL_HASH_LAST);
        P("flag_entire", ISAL_HASH_ENTIRE);
        P("sts_idle", ISAL_HASH_CTX_STS_IDLE); P("sts_processing", ISAL_HASH_CTX_STS_PROCESSING);
        P("sts_last", ISAL_HASH_CTX_STS_LAST); P("sts_complete", ISAL_HASH_CTX_STS_COMPLETE);
        P("err_none", ISAL_HASH_CTX_ERROR_NONE); P("err_invalid_flags", -(ISAL_HASH_CTX_ERROR_INVALID_FLAGS));
        P("err_already_processing", -(ISAL_HASH_CTX_ERROR_ALREADY_PROCESSING));
        P("err_already_completed", -(ISAL_HASH_CTX_ERROR_ALREADY_COMPLETED));
        P("rc_invalid_flags", ISAL_CRYPTO_ERR_INVALID_FLAGS); P("rc_already_processing", ISAL_CRYPTO_ERR_ALREADY_PROCESSING);
        P("rc_already_completed", ISAL_CRYPTO_ERR_ALREADY_COMPLETED);
        ALG(md5, MD5); ALG(sha1, SHA1); ALG(sha256, SHA256); ALG(sha512, SHA512); ALG(sm3, SM3);
        return 0;
}
"""


def probe(repo):
    with tempfile.TemporaryDirectory(prefix="hashcfg-", dir="/var/tmp") as d:
        src = os.path.join(d, "probe.c")
        with open(src, "w") as fh:
            fh.write(PROBE)
        exe = os.path.join(d, "probe")
        p = subprocess.run(["gcc", "-O0", "-w", "-I", os.path.join(repo, "include"), "-I", repo, src, "-o", exe],
                           stdout=subprocess.PIPE, stderr=subprocess.STDOUT, text=True, timeout=120)
        if p.returncode != 0:
            raise RuntimeError("hash_cfg probe does not compile against the headers:\n" + p.stdout[-3000:])
        out = subprocess.run([exe], stdout=subprocess.PIPE, text=True, timeout=30).stdout
    kv = {}
    for l in out.split("\n"):
        if "=" in l:
            k, v = l.split("=")
            kv[k] = int(v)
    return kv


def _read(p):
    with open(p, errors="replace") as fh:
        return fh.read()


def _strip_comments(s):
    s = re.sub(r"/\*.*?\*/", " ", s, flags=re.S)
    return re.sub(r"//[^\n]*", "", s)


def _func_body(src, name):
    """body text of the definition of function `name` in C source `src` (None if absent)"""
    for m in re.finditer(r"\b%s\s*\([^;{)]*\)\s*\{" % re.escape(name), src):
        i = m.end()
        depth = 1
        while i < len(src) and depth:
            depth += {"{": 1, "}": -1}.get(src[i], 0)
            i += 1
        return src[m.end():i - 1]
    return None


def decode_free(lits):
    """lits: [(index, value, ndigits)] of the unused_lanes literal(s) -> free-lane list, top of
    stack first.  Nibble-packed (terminator 0xF) or byte-packed (terminator 0xFF): whichever
    decoding is a permutation of 0..n-1."""
    lits = sorted(lits)
    for width in (4, 8):
        ents = []
        for _, v, nd in lits:
            for k in range(max(1, (nd * 4 + width - 1) // width)):
                ents.append((v >> (k * width)) & ((1 << width) - 1))
        if sorted(ents) == list(range(len(ents))):
            return ents, width                     # every entry is a lane (no terminator fits)
        if ents and ents[-1] == (1 << width) - 1 and sorted(ents[:-1]) == list(range(len(ents) - 1)):
            return ents[:-1], width
    raise RuntimeError("cannot decode unused_lanes literal(s) %s" % [(i, hex(v)) for i, v, _ in lits])


def lane_stack(repo, algo, fam):
    """-> (free list, pack width, init function name) for the manager this family's context
    layer initialises; ([], 0, name) when the init function sets up no lanes (base, single buffer)"""
    d = os.path.join(repo, algo + "_mb")
    ctx_src = _strip_comments(_read(os.path.join(d, "%s_ctx_%s.c" % (algo, fam))))
    body = _func_body(ctx_src, "_%s_ctx_mgr_init_%s" % (algo, fam))
    if body is None:
        raise RuntimeError("no definition of _%s_ctx_mgr_init_%s" % (algo, fam))
    m = re.search(r"\b(_%s_[ms]b_mgr_init_[a-z0-9_]+)\s*\(" % algo, body)
    if not m:
        return [], 0, None
    init = m.group(1)
    # #define aliases in the internal headers
    hdrs = "".join(_read(os.path.join(repo, "include", h)) for h in ("%s_mb.h" % algo, "%s_mb_internal.h" % algo)
                   if os.path.exists(os.path.join(repo, "include", h)))
    for _ in range(4):
        a = re.search(r"#\s*define\s+%s\s+(_[a-z0-9_]+)" % re.escape(init), hdrs)
        if not a:
            break
        init = a.group(1)
    ibody = None
    for f in sorted(os.listdir(d)):
        if f.endswith(".c"):
            ibody = _func_body(_strip_comments(_read(os.path.join(d, f))), init)
            if ibody is not None:
                break
    if ibody is None:
        raise RuntimeError("no C definition of %s" % init)
    lits = [(int(i or 0), int(v, 16), len(v) - 2) for i, v in
            re.findall(r"unused_lanes\s*(?:\[\s*(\d+)\s*\])?\s*=\s*(0[xX][0-9a-fA-F]+)", ibody)]
    if not lits:
        return [], 0, init
    free, width = decode_free(lits)
    return free, width, init


def thresholds(repo, algo):
    p = os.path.join(repo, algo + "_mb", algo + "_job.asm")
    if not os.path.exists(p):
        return {}
    return {k: int(v) for k, v in re.findall(r"^%define\s+(\w*SB_THRESHOLD\w*)\s+(\d+)", _read(p), re.M)}


def fam_threshold(thr, algo, fam):
    a = algo.upper()
    if fam in ("sse_ni",):
        return thr.get("%s_NI_SB_THRESHOLD_SSE" % a, 0)
    if fam in ("avx512_ni",):
        return thr.get("%s_NI_SB_THRESHOLD_AVX512" % a, 0)
    return thr.get("%s_SB_THRESHOLD_%s" % (a, fam.upper()), 0)


def config(repo, libdir):
    """everything, as one python dict (the checks use it too)"""
    kv = probe(repo)
    fams = []
    for algo, fam in families(libdir):
        free, width, init = lane_stack(repo, algo, fam)
        thr = fam_threshold(thresholds(repo, algo), algo, fam)
        fams.append({"algo": algo, "fam": fam, "free": free, "pack": width, "init": init, "lanes": len(free),
                     "sync": len(free) == 0, "thr": min(thr, len(free)) if free else 0, "thr_src": thr,
                     "mgr": mgr_symbols(libdir, algo, fam)})
    algos = {}
    for a in ALGOS:
        n = kv[a + ".ivn"]
        algos[a] = {"bsize": kv[a + ".bsize"], "lenfld": kv[a + ".lenfld"], "nwords": kv[a + ".nwords"],
                    "wordbits": kv[a + ".wordbits"], "iv": [kv["%s.iv%d" % (a, i)] for i in range(n)],
                    "total_bits": kv[a + ".total_bits"], "inclen_bits": kv[a + ".inclen_bits"],
                    "plen_bits": kv[a + ".plen_bits"], "pbuf_bytes": kv[a + ".pbuf_bytes"],
                    "max_lanes": kv[a + ".max_lanes"], "job_offset": kv[a + ".job_offset"]}
    consts = {k: v for k, v in kv.items() if "." not in k}
    return {"consts": consts, "algos": algos, "fams": fams}


def generate(repo, libdir, cfg=None):
    cfg = cfg or config(repo, libdir)
    c = cfg["consts"]
    L = ["(* GENERATED by tr/hash_cfg.py from %s and the built archive - do not edit. *)" % "include/*.h, *_mb/*_mgr_init_*.c, *_mb/*_job.asm",
         "From Coq Require Import NArith List String.",
         "From ISAL Require Import Spec.MD Model.HashCtx Model.HashCfg.",
         "Import ListNotations.", "Local Open Scope string_scope.", "",
         "Definition gen_hconsts : hconsts := {|"]
    names = ["flag_update", "flag_first", "flag_last", "flag_entire", "sts_idle", "sts_processing", "sts_last",
             "sts_complete", "err_none", "err_invalid_flags", "err_already_processing", "err_already_completed",
             "rc_invalid_flags", "rc_already_processing", "rc_already_completed"]
    L.append(";\n".join("  hc_%s := %d%%N" % (n, c[n]) for n in names) + " |}.")
    L.append("")
    L.append("Definition gen_halgos : list halgo := [")
    rows = []
    for a in ALGOS:
        h = cfg["algos"][a]
        rows.append('  {| ha_name := "%s"; ha_bsize := %d; ha_lenfld := %d; ha_nwords := %d; ha_wordbits := %d%%N;\n'
                    '     ha_iv := [%s]%%N;\n     ha_total_bits := %d%%N; ha_inclen_bits := %d%%N; ha_plen_bits := %d%%N; '
                    'ha_pbuf_blocks := %d; ha_max_lanes := %d |}' % (
                        a, h["bsize"], h["lenfld"], h["nwords"], h["wordbits"], "; ".join("0x%x" % w for w in h["iv"]),
                        h["total_bits"], h["inclen_bits"], h["plen_bits"],
                        h["pbuf_bytes"] // h["bsize"] if h["pbuf_bytes"] % h["bsize"] == 0 else 0, h["max_lanes"]))
    L.append(";\n".join(rows) + "].")
    L.append("")
    L.append("Definition gen_hfams : list hfam := [")
    rows = []
    for f in cfg["fams"]:
        rows.append('  {| hf_algo := "%s"; hf_fam := "%s"; hf_free := [%s]%%nat; hf_sync := %s; hf_sb_threshold := %d |}' % (
            f["algo"], f["fam"], "; ".join(str(x) for x in f["free"]), "true" if f["sync"] else "false", f["thr_src"] if f["free"] else 0))
    L.append(";\n".join(rows) + "].")
    L += ["",
          "(* obligations: what Model/HashCtx.v, Spec/HashApiSpec.v and the Spec/<algo>.v records assume *)",
          "Lemma gen_hconsts_ok : hconsts_ok gen_hconsts = true. Proof. vm_compute. reflexivity. Qed.",
          "Lemma gen_halgos_ok : forallb halgo_ok gen_halgos = true. Proof. vm_compute. reflexivity. Qed.",
          "Lemma gen_hfams_ok : forallb (hfam_ok gen_halgos) gen_hfams = true. Proof. vm_compute. reflexivity. Qed.",
          "Lemma gen_hfams_expected : hfams_expected gen_hfams = true. Proof. vm_compute. reflexivity. Qed.", ""]
    return "\n".join(L)


if __name__ == "__main__":
    import sys, json
    sys.path.insert(0, os.path.join(os.path.dirname(os.path.abspath(__file__)), "..", "lib"))
    import vlib
    d = vlib.build("hook")
    cfg = config(vlib.REPO, d)
    if len(sys.argv) > 1 and sys.argv[1] == "json":
        print(json.dumps(cfg, indent=1))
    else:
        print(generate(vlib.REPO, d, cfg))
