"""Translator for the multi-buffer hash configuration: Gen/HashCfgGen.v.

Regenerated from /repo's current tree on every run:
  * the (algorithm, family) pairs: `nm` of the freshly built archive (T _<algo>_ctx_mgr_submit_<family>),
  * the manager entry points each family's context layer calls: undefined symbols of
    <algo>_ctx_<family>.o (used by the native driver to interpose the manager),
  * flags / status / error constants, block size, length-field size, digest words, IV and
    the widths of the context's length fields: a probe C program compiled against the
    headers (so implicit enum values and typedefs are resolved by the compiler, not by a
    regular expression),
  * the initial free-lane stack of every family: by EXECUTING the family's real
    _<algo>_ctx_mgr_init_<family> (a probe program linked against the freshly built archive) on
    a junk-filled manager, twice with different junk, and reading the bytes of
    mgr.unused_lanes back: the bytes ARE the configuration, no source text is parsed.  A field
    the init leaves untouched (both junk patterns survive) means "no lane manager" (base,
    single buffer).  Bytes that cannot be decoded as a stack of lane indices (nibble- or
    byte-packed, 0xF/0xFF terminated or full) are NOT guessed at: the family is marked
    not-understood, hfam_ok fails (the obligation over Gen/HashCfgGen.v is reported broken) and
    the checks continue with the header bound ISAL_<A>_MAX_LANES (an upper bound on what any
    manager of that algorithm can hold), never with a smaller guessed value,
  * the manager init symbol each context layer uses: `nm` of <algo>_ctx_<family>.o (the
    compiler has resolved the #define aliases),
  * the single-buffer thresholds of <algo>_job.asm: informational only (nothing in the model,
    the acceptor or the obligations depends on them; an unparsed one is reported as 0).
Deliberately dumb: one source construct -> one record field; everything decided about the
records is decided by Model/HashCfg.v (hconsts_ok, halgo_ok, hfam_ok, hfams_expected)."""
import os, re, subprocess, tempfile

ALGOS = ["md5", "sha1", "sha256", "sha512", "sm3"]
_NOT_FAM = {"dispatch_init", "dispatched", "mbinit", "slver"}


def _nm(path, undefined=False):
    out = subprocess.run(["nm", "-u" if undefined else "--defined-only", path], stdout=subprocess.PIPE,
                         stderr=subprocess.DEVNULL, text=True).stdout
    return out


def families(libdir):
    """sorted [(algo, family)] present in the built archive"""
    txt = _nm(os.path.join(libdir, "isa-l_crypto.a"))
    have = {}
    for m in re.finditer(r"^[0-9a-f]+ T _(%s)_ctx_mgr_(init|submit|flush)_([a-z0-9_]+)$" % "|".join(ALGOS), txt, re.M):
        algo, what, fam = m.groups()
        if fam in _NOT_FAM or fam.startswith("slver") or fam.endswith("_slver"):
            continue
        have.setdefault((algo, fam), set()).add(what)
    bad = [k for k, v in have.items() if v != {"init", "submit", "flush"}]
    if bad:
        raise RuntimeError("hash families with an incomplete init/submit/flush triple: %s" % bad)
    return sorted(have)


def mgr_symbols(libdir, algo, fam):
    """manager-level submit/flush entry points the context layer of (algo, fam) calls"""
    obj = os.path.join(libdir, "obj", "%s_ctx_%s.o" % (algo, fam))
    if not os.path.exists(obj):
        return []
    txt = _nm(obj, undefined=True)
    return sorted(set(re.findall(r"\bU (_%s_[ms]b_mgr_(?:submit|flush)_[a-z0-9_]+)" % algo, txt)))


PROBE = r"""
#include <stdio.h>
#include <stdint.h>
#include <stddef.h>
#include "isal_crypto_api.h"
#include "multi_buffer.h"
#include "md5_mb.h"
#include "sha1_mb.h"
#include "sha256_mb.h"
#include "sha512_mb.h"
#include "sm3_mb.h"
#include "md5_mb_internal.h"
#include "sha1_mb_internal.h"
#include "sha256_mb_internal.h"
#include "sha512_mb_internal.h"
#include "sm3_mb_internal.h"
#define P(k, v) printf("%s=%lld\n", k, (long long) (v))
#define ALG(lc, UC) do { \
        static const ISAL_##UC##_WORD_T iv[] = { ISAL_##UC##_INITIAL_DIGEST }; \
        ISAL_##UC##_HASH_CTX *c = 0; \
        P(#lc ".bsize", ISAL_##UC##_BLOCK_SIZE); P(#lc ".lenfld", ISAL_##UC##_PADLENGTHFIELD_SIZE); \
        P(#lc ".nwords", ISAL_##UC##_DIGEST_NWORDS); P(#lc ".max_lanes", ISAL_##UC##_MAX_LANES); \
        P(#lc ".wordbits", 8 * sizeof(ISAL_##UC##_WORD_T)); \
        P(#lc ".total_bits", 8 * sizeof(c->total_length)); P(#lc ".inclen_bits", 8 * sizeof(c->incoming_buffer_length)); \
        P(#lc ".plen_bits", 8 * sizeof(c->partial_block_buffer_length)); \
        P(#lc ".pbuf_bytes", sizeof(c->partial_block_buffer)); \
        P(#lc ".digest_bytes", sizeof(c->job.result_digest)); \
        P(#lc ".job_offset", offsetof(ISAL_##UC##_HASH_CTX, job)); \
        P(#lc ".ivn", sizeof iv / sizeof iv[0]); \
        for (unsigned i = 0; i < sizeof iv / sizeof iv[0]; i++) printf(#lc ".iv%u=%llu\n", i, (unsigned long long) iv[i]); \
} while (0)
int main(void)
{
        P("flag_update", ISAL_HASH_UPDATE); P("flag_first", ISAL_HASH_FIRST); P("flag_last", ISAL_HASH_LAST);
        P("flag_entire", ISAL_HASH_ENTIRE);
        P("sts_idle", ISAL_HASH_CTX_STS_IDLE); P("sts_processing", ISAL_HASH_CTX_STS_PROCESSING);
        P("sts_last", ISAL_HASH_CTX_STS_LAST); P("sts_complete", ISAL_HASH_CTX_STS_COMPLETE);
        P("err_none", ISAL_HASH_CTX_ERROR_NONE); P("err_invalid_flags", -(ISAL_HASH_CTX_ERROR_INVALID_FLAGS));
        P("err_already_processing", -(ISAL_HASH_CTX_ERROR_ALREADY_PROCESSING));
        P("err_already_completed", -(ISAL_HASH_CTX_ERROR_ALREADY_COMPLETED));
        P("rc_invalid_flags", ISAL_CRYPTO_ERR_INVALID_FLAGS); P("rc_already_processing", ISAL_CRYPTO_ERR_ALREADY_PROCESSING);
        P("rc_already_completed", ISAL_CRYPTO_ERR_ALREADY_COMPLETED);
        ALG(md5, MD5); ALG(sha1, SHA1); ALG(sha256, SHA256); ALG(sha512, SHA512); ALG(sm3, SM3);
        return 0;
}
"""


def probe(repo):
    with tempfile.TemporaryDirectory(prefix="hashcfg-", dir="/var/tmp") as d:
        src = os.path.join(d, "probe.c")
        with open(src, "w") as fh:
            fh.write(PROBE)
        exe = os.path.join(d, "probe")
        p = subprocess.run(["gcc", "-O0", "-w", "-I", os.path.join(repo, "include"), "-I", repo, src, "-o", exe],
                           stdout=subprocess.PIPE, stderr=subprocess.STDOUT, text=True, timeout=120)
        if p.returncode != 0:
            raise RuntimeError("hash_cfg probe does not compile against the headers:\n" + p.stdout[-3000:])
        out = subprocess.run([exe], stdout=subprocess.PIPE, text=True, timeout=30).stdout
    kv = {}
    for l in out.split("\n"):
        if "=" in l:
            k, v = l.split("=")
            kv[k] = int(v)
    return kv


def _read(p):
    with open(p, errors="replace") as fh:
        return fh.read()


def _strip_comments(s):
    s = re.sub(r"/\*.*?\*/", " ", s, flags=re.S)
    return re.sub(r"//[^\n]*", "", s)


def _func_body(src, name):
    """body text of the definition of function `name` in C source `src` (None if absent)"""
    for m in re.finditer(r"\b%s\s*\([^;{)]*\)\s*\{" % re.escape(name), src):
        i = m.end()
        depth = 1
        while i < len(src) and depth:
            depth += {"{": 1, "}": -1}.get(src[i], 0)
            i += 1
        return src[m.end():i - 1]
    return None


def decode_stack(raw):
    """raw bytes of mgr.unused_lanes after init -> (free-lane list top of stack first, pack width)
    or None when the bytes are not a stack of lane indices in either packing (nibbles, then
    bytes).  The stack is the LONGEST prefix of entries that is a permutation of 0..k-1; it must
    be followed by the all-ones terminator, by the end of the field, or end on a 64-bit word
    boundary with nothing but zeros behind it (md5 keeps a 4-word field and the 16-lane family
    fills exactly one word).  Anything else is not understood."""
    v = int.from_bytes(raw, "little")
    for width in (4, 8):
        n = len(raw) * 8 // width
        ents = [(v >> (k * width)) & ((1 << width) - 1) for k in range(n)]
        term = (1 << width) - 1
        best = 0
        seen = set()
        for k, e in enumerate(ents):
            if e in seen:
                break
            seen.add(e)
            if max(seen) == k:
                best = k + 1
        if best == 0:
            continue
        rest = ents[best:]
        if not rest or rest[0] == term or ((best * width) % 64 == 0 and not any(rest)):
            return ents[:best], width
    return None


def init_symbol(libdir, algo, fam):
    """the manager init function the context layer of (algo, fam) uses, from its object file"""
    obj = os.path.join(libdir, "obj", "%s_ctx_%s.o" % (algo, fam))
    if not os.path.exists(obj):
        return None
    txt = subprocess.run(["nm", obj], stdout=subprocess.PIPE, stderr=subprocess.DEVNULL, text=True).stdout
    m = sorted(set(re.findall(r"\b[UTt] (_%s_[ms]b_mgr_init_[a-z0-9_]+)" % algo, txt)))
    return m[0] if m else None


INIT_PROBE_HEAD = r"""
#include <stdio.h>
#include <stdint.h>
#include <stdlib.h>
#include <string.h>
#include "multi_buffer.h"
#include "md5_mb.h"
#include "sha1_mb.h"
#include "sha256_mb.h"
#include "sha512_mb.h"
#include "sm3_mb.h"
#define RUN(lc, UC, fam) do { \
        extern void _##lc##_ctx_mgr_init_##fam(void *); \
        for (int j = 0; j < 2; j++) { \
                ISAL_##UC##_HASH_CTX_MGR *m = aligned_alloc(64, (sizeof *m + 63) / 64 * 64); \
                memset(m, j ? 0x11 : 0xEE, sizeof *m); \
                _##lc##_ctx_mgr_init_##fam(m); \
                printf(#lc " " #fam " %d ", j); \
                const unsigned char *p = (const unsigned char *) &m->mgr.unused_lanes; \
                for (size_t k = 0; k < sizeof m->mgr.unused_lanes; k++) printf("%02x", p[k]); \
                printf("\n"); fflush(stdout); free(m); \
        } } while (0)
int main(void)
{
"""


def executed_init(repo, libdir, pairs):
    """{(algo, fam): (bytes after init on 0xEE junk, bytes after init on 0x11 junk)}; a pair is
    missing when the probe could not be built or died before reaching it"""
    src = INIT_PROBE_HEAD + "".join("        RUN(%s, %s, %s);\n" % (a, a.upper(), f) for a, f in pairs) + "        return 0;\n}\n"
    out = ""
    with tempfile.TemporaryDirectory(prefix="hashcfg-", dir="/var/tmp") as d:
        c = os.path.join(d, "initprobe.c")
        with open(c, "w") as fh:
            fh.write(src)
        exe = os.path.join(d, "initprobe")
        p = subprocess.run(["gcc", "-O0", "-w", "-I", os.path.join(repo, "include"), "-I", repo, c,
                            os.path.join(libdir, "isa-l_crypto.a"), "-o", exe],
                           stdout=subprocess.PIPE, stderr=subprocess.STDOUT, text=True, timeout=300)
        if p.returncode == 0:
            try:
                out = subprocess.run([exe], stdout=subprocess.PIPE, stderr=subprocess.DEVNULL, text=True, timeout=60).stdout
            except subprocess.TimeoutExpired as e:
                out = (e.stdout or b"").decode() if isinstance(e.stdout, bytes) else (e.stdout or "")
    res = {}
    for l in out.split("\n"):
        t = l.split()
        if len(t) == 4:
            res.setdefault((t[0], t[1]), {})[int(t[2])] = bytes.fromhex(t[3])
    return {k: (v[0], v[1]) for k, v in res.items() if 0 in v and 1 in v}


def lane_facts(raw_pair, max_lanes):
    """-> dict(free, pack, understood, why) from the two read-backs of unused_lanes"""
    if raw_pair is None:
        return {"free": [], "pack": 0, "understood": False, "why": "the init function could not be executed"}
    a, b = raw_pair
    if a == bytes([0xEE]) * len(a) and b == bytes([0x11]) * len(b):
        return {"free": [], "pack": 0, "understood": True, "why": "init leaves unused_lanes untouched: no lane manager"}
    if a != b:
        return {"free": [], "pack": 0, "understood": False, "why": "init defines unused_lanes only partly (%s / %s)" % (a.hex(), b.hex())}
    d = decode_stack(a)
    if d is None:
        return {"free": [], "pack": 0, "understood": False, "why": "unused_lanes after init is not a stack of lane indices: %s" % a.hex()}
    free, width = d
    if len(free) > max_lanes:
        return {"free": [], "pack": 0, "understood": False, "why": "%d lanes after init but the header says MAX_LANES = %d" % (len(free), max_lanes)}
    return {"free": free, "pack": width, "understood": True, "why": "read back after executing init: %s" % a.hex()}


def thresholds(repo, algo):
    p = os.path.join(repo, algo + "_mb", algo + "_job.asm")
    if not os.path.exists(p):
        return {}
    return {k: int(v) for k, v in re.findall(r"^%define\s+(\w*SB_THRESHOLD\w*)\s+(\d+)", _read(p), re.M)}


def fam_threshold(thr, algo, fam):
    a = algo.upper()
    if fam in ("sse_ni",):
        return thr.get("%s_NI_SB_THRESHOLD_SSE" % a, 0)
    if fam in ("avx512_ni",):
        return thr.get("%s_NI_SB_THRESHOLD_AVX512" % a, 0)
    return thr.get("%s_SB_THRESHOLD_%s" % (a, fam.upper()), 0)


def config(repo, libdir):
    """everything, as one python dict (the checks use it too)"""
    kv = probe(repo)
    fams = []
    prs = families(libdir)
    ex = executed_init(repo, libdir, prs)
    for algo, fam in prs:
        lf = lane_facts(ex.get((algo, fam)), kv[algo + ".max_lanes"])
        free = lf["free"]
        thr = fam_threshold(thresholds(repo, algo), algo, fam)
        mgr = mgr_symbols(libdir, algo, fam)
        if lf["understood"] and not free and mgr and not any("_sb_mgr_" in x for x in mgr):
            # a context layer that calls a multi-buffer manager whose init set up no lane: not understood
            lf = dict(lf, understood=False, why="calls %s but its init defines no free lane" % mgr)
        # what the checks use as the number of lanes: the decoded stack when understood, otherwise
        # the header's upper bound (never a smaller guess)
        bound = len(free) if lf["understood"] else kv[algo + ".max_lanes"]
        fams.append({"algo": algo, "fam": fam, "free": free, "pack": lf["pack"], "init": init_symbol(libdir, algo, fam),
                     "lanes": bound, "understood": lf["understood"], "why": lf["why"],
                     "sync": lf["understood"] and len(free) == 0, "thr": min(thr, bound), "thr_src": thr, "mgr": mgr})
    algos = {}
    for a in ALGOS:
        n = kv[a + ".ivn"]
        algos[a] = {"bsize": kv[a + ".bsize"], "lenfld": kv[a + ".lenfld"], "nwords": kv[a + ".nwords"],
                    "wordbits": kv[a + ".wordbits"], "iv": [kv["%s.iv%d" % (a, i)] for i in range(n)],
                    "total_bits": kv[a + ".total_bits"], "inclen_bits": kv[a + ".inclen_bits"],
                    "plen_bits": kv[a + ".plen_bits"], "pbuf_bytes": kv[a + ".pbuf_bytes"],
                    "max_lanes": kv[a + ".max_lanes"], "job_offset": kv[a + ".job_offset"]}
    consts = {k: v for k, v in kv.items() if "." not in k}
    return {"consts": consts, "algos": algos, "fams": fams}


def generate(repo, libdir, cfg=None):
    cfg = cfg or config(repo, libdir)
    c = cfg["consts"]
    L = ["(* GENERATED by tr/hash_cfg.py from %s and the built archive - do not edit. *)" % "include/*.h, the executed manager init functions, *_mb/*_job.asm",
         "From Coq Require Import NArith List String.",
         "From ISAL Require Import Spec.MD Model.HashCtx Model.HashCfg.",
         "Import ListNotations.", "Local Open Scope string_scope.", "",
         "Definition gen_hconsts : hconsts := {|"]
    names = ["flag_update", "flag_first", "flag_last", "flag_entire", "sts_idle", "sts_processing", "sts_last",
             "sts_complete", "err_none", "err_invalid_flags", "err_already_processing", "err_already_completed",
             "rc_invalid_flags", "rc_already_processing", "rc_already_completed"]
    L.append(";\n".join("  hc_%s := %d%%N" % (n, c[n]) for n in names) + " |}.")
    L.append("")
    L.append("Definition gen_halgos : list halgo := [")
    rows = []
    for a in ALGOS:
        h = cfg["algos"][a]
        rows.append('  {| ha_name := "%s"; ha_bsize := %d; ha_lenfld := %d; ha_nwords := %d; ha_wordbits := %d%%N;\n'
                    '     ha_iv := [%s]%%N;\n     ha_total_bits := %d%%N; ha_inclen_bits := %d%%N; ha_plen_bits := %d%%N; '
                    'ha_pbuf_blocks := %d; ha_max_lanes := %d |}' % (
                        a, h["bsize"], h["lenfld"], h["nwords"], h["wordbits"], "; ".join("0x%x" % w for w in h["iv"]),
                        h["total_bits"], h["inclen_bits"], h["plen_bits"],
                        h["pbuf_bytes"] // h["bsize"] if h["pbuf_bytes"] % h["bsize"] == 0 else 0, h["max_lanes"]))
    L.append(";\n".join(rows) + "].")
    L.append("")
    L.append("Definition gen_hfams : list hfam := [")
    rows = []
    for f in cfg["fams"]:
        rows.append('  {| hf_algo := "%s"; hf_fam := "%s"; hf_free := [%s]%%nat; hf_sync := %s; hf_understood := %s; hf_sb_threshold := %d |}' % (
            f["algo"], f["fam"], "; ".join(str(x) for x in f["free"]), "true" if f["sync"] else "false",
            "true" if f["understood"] else "false", f["thr_src"] if f["free"] else 0))
    L.append(";\n".join(rows) + "].")
    L += ["",
          "(* obligations: what Model/HashCtx.v, Spec/HashApiSpec.v and the Spec/<algo>.v records assume *)",
          "Lemma gen_hconsts_ok : hconsts_ok gen_hconsts = true. Proof. vm_compute. reflexivity. Qed.",
          "Lemma gen_halgos_ok : forallb halgo_ok gen_halgos = true. Proof. vm_compute. reflexivity. Qed.",
          "Lemma gen_hfams_ok : forallb (hfam_ok gen_halgos) gen_hfams = true. Proof. vm_compute. reflexivity. Qed.",
          "Lemma gen_hfams_expected : hfams_expected gen_hfams = true. Proof. vm_compute. reflexivity. Qed.", ""]
    return "\n".join(L)


if __name__ == "__main__":
    import sys, json
    sys.path.insert(0, os.path.join(os.path.dirname(os.path.abspath(__file__)), "..", "lib"))
    import vlib
    d = vlib.build("hook")
    cfg = config(vlib.REPO, d)
    if len(sys.argv) > 1 and sys.argv[1] == "json":
        print(json.dumps(cfg, indent=1))
    else:
        print(generate(vlib.REPO, d, cfg))
