"""C17 translator: built objects -> coq/Gen/SelfTestGen.v

* asm_self_tests.o, self_tests.o (FIPS build): `objdump -dr -M intel` of the functions
  asm_check_self_tests_status, asm_set_self_tests_status, isal_self_tests -> one constructor
  of ISAL.Model.SelfTest.instr per machine instruction.  Padding (nop forms, endbr64) is
  dropped; branch / call targets are resolved to list indices (a target that is padding
  resolves to the next kept instruction).  The only memory operand accepted is a
  RIP-relative reference that its relocation resolves to the status word (the dword object
  at the start of asm_self_tests.o's .data named self_test_status); the initial value of
  that word is read from the section contents.  Anything else fails closed (TranslateError).
* fips/aes_self_tests.c, fips/sha_self_tests.c (clang AST): for every function, either the
  list of integer literals its return statements return, or "returns the OR of calls to
  f1..fk" (the shape `ret = f1(); ret |= f2(); ...; return ret;`), else unknown.  What
  values _aes_self_tests/_sha_self_tests can return is then computed in Coq (ret_values).
* include/isal_crypto_api.h: the value of ISAL_CRYPTO_ERR_SELF_TEST.

Deliberately dumb: no decision about the protocol is taken here.
"""
import json, os, re, subprocess

FUNCS_ASM = ["asm_check_self_tests_status", "asm_set_self_tests_status"]
FUNC_GLUE = "isal_self_tests"
EXT = {"_aes_self_tests": "XAes", "_sha_self_tests": "XSha"}
STATUS_SYM = "self_test_status"


class TranslateError(Exception):
    pass


def sh(cmd):
    p = subprocess.run(cmd, stdout=subprocess.PIPE, stderr=subprocess.PIPE, text=True, timeout=120)
    if p.returncode != 0:
        raise TranslateError("command failed: %s\n%s" % (" ".join(cmd), p.stderr[-2000:]))
    return p.stdout


REG64 = ["rax", "rcx", "rdx", "rbx", "rsp", "rbp", "rsi", "rdi", "r8", "r9", "r10", "r11", "r12", "r13", "r14", "r15"]
REG32 = ["eax", "ecx", "edx", "ebx", "esp", "ebp", "esi", "edi"] + ["r%dd" % i for i in range(8, 16)]
REG8 = ["al", "cl", "dl", "bl", "spl", "bpl", "sil", "dil"] + ["r%db" % i for i in range(8, 16)]
COQREG = ["RAX", "RCX", "RDX", "RBX", "RSP", "RBP", "RSI", "RDI", "R8", "R9", "R10", "R11", "R12", "R13", "R14", "R15"]
CC = {"e": "CE", "z": "CE", "ne": "CNE", "nz": "CNE", "b": "CB", "c": "CB", "nae": "CB", "ae": "CAE", "nb": "CAE", "nc": "CAE",
      "be": "CBE", "na": "CBE", "a": "CA", "nbe": "CA", "s": "CS", "ns": "CNS", "l": "CL", "nge": "CL", "ge": "CGE", "nl": "CGE",
      "le": "CLE", "ng": "CLE", "g": "CG", "nle": "CG"}
ALU = {"mov": "OMov", "and": "OAnd", "or": "OOr", "xor": "OXor", "add": "OAdd", "sub": "OSub", "cmp": "OCmp", "test": "OTest"}


def symtab(obj):
    """-> list of (name, section, value, type)"""
    out = []
    for l in sh(["objdump", "-t", obj]).split("\n"):
        m = re.match(r"^([0-9a-f]{16}) (.{7}) (\S+)\t([0-9a-f]{16}) +(?:\.hidden )?(\S+)$", l)
        if m:
            out.append((m.group(5), m.group(3), int(m.group(1), 16), m.group(2)))
    return out


def sections_of(obj):
    out = {}
    for l in sh(["objdump", "-h", "-w", obj]).split("\n"):
        m = re.match(r"^\s*\d+\s+(\S+)\s+([0-9a-f]+)\s", l)
        if m:
            out[m.group(1)] = int(m.group(2), 16)
    return out


def section_bytes(obj, sec):
    data = {}
    cur = False
    for l in sh(["objdump", "-s", "-j", sec, obj]).split("\n"):
        m = re.match(r"^ ([0-9a-f]+) ((?:[0-9a-f]+ ?)+) ", l)
        if m:
            off = int(m.group(1), 16)
            hx = m.group(2).replace(" ", "")
            for i in range(0, len(hx), 2):
                data[off + i // 2] = int(hx[i:i + 2], 16)
    return data


def disasm(obj):
    """-> {function: [insn]}, insn = dict(addr, end, mnem, ops(str), relocs=[(off,type,sym,addend)])"""
    txt = sh(["objdump", "-dr", "-M", "intel", "--insn-width=16", "-j", ".text", obj])
    funcs, cur, last = {}, None, None
    syms_at = {}
    for name, sec, val, _ in symtab(obj):
        if sec == ".text":
            syms_at.setdefault(val, []).append(name)
    for l in txt.split("\n"):
        m = re.match(r"^([0-9a-f]{16}) <([^>]+)>:$", l)
        if m:
            cur = m.group(2)
            continue
        m = re.match(r"^\s*([0-9a-f]+):\s+R_X86_64_(\w+)\s+(\S+?)([+-]0x[0-9a-f]+)?$", l)
        if m and last is not None:
            last["relocs"].append((int(m.group(1), 16), m.group(2), m.group(3), int(m.group(4) or "0", 16)))
            continue
        m = re.match(r"^\s*([0-9a-f]+):\t((?:[0-9a-f]{2} )+)\s*\t?(.*)$", l)
        if m and cur is not None:
            addr = int(m.group(1), 16)
            nbytes = len(m.group(2).split())
            text = m.group(3).strip()
            text = re.sub(r"\s+#.*$", "", text)
            if not text:
                raise TranslateError("wrapped instruction bytes at %x in %s" % (addr, obj))
            parts = text.split(None, 1)
            mnem = parts[0]
            ops = parts[1].strip() if len(parts) > 1 else ""
            while mnem in ("lock", "rep", "repz", "repnz", "notrack", "data16", "cs", "ds") and ops:
                p2 = ops.split(None, 1)
                mnem = mnem + " " + p2[0]
                ops = p2[1].strip() if len(p2) > 1 else ""
            last = {"addr": addr, "end": addr + nbytes, "mnem": mnem, "ops": ops, "relocs": [], "func": cur, "obj": os.path.basename(obj)}
            funcs.setdefault(cur, []).append(last)
    return funcs


def is_padding(i):
    m = i["mnem"]
    base = m.split()[-1]
    if base in ("nop", "nopw", "nopl", "endbr64", "int3"):
        return True
    if m == "xchg" and i["ops"].replace(" ", "") in ("ax,ax",):
        return True
    return False


def function_extent(funcs_by_label, obj, fname):
    """nasm emits local labels as separate symbols: a function extends from its label to the
    next GLOBAL/function-level symbol.  Collect the instructions of all labels from fname up
    to the next global text symbol."""
    syms = [(v, n, t) for n, sec, v, t in symtab(obj) if sec == ".text" and n not in (".text",)]
    glob = sorted(v for v, n, t in syms if t[0] == "g" and True)
    start = [v for v, n, t in syms if n == fname]
    if not start:
        raise TranslateError("function %s not found in %s" % (fname, obj))
    start = start[0]
    later = [v for v in glob if v > start]
    end = later[0] if later else 1 << 62
    insns = []
    for f, l in funcs_by_label.items():
        for i in l:
            if start <= i["addr"] < end:
                insns.append(i)
    insns.sort(key=lambda i: i["addr"])
    return insns


def translate_program(objdir):
    asm_o = os.path.join(objdir, "asm_self_tests.o")
    glue_o = os.path.join(objdir, "self_tests.o")
    for o in (asm_o, glue_o):
        if not os.path.exists(o):
            raise TranslateError("missing object %s (not a FIPS build?)" % o)
    # the status word
    st = [(n, sec, v) for n, sec, v, _ in symtab(asm_o) if n == STATUS_SYM]
    if len(st) != 1:
        raise TranslateError("symbol %s not found in asm_self_tests.o" % STATUS_SYM)
    _, st_sec, st_off = st[0]
    if st_sec not in (".data", ".bss"):
        raise TranslateError("%s lives in section %s" % (STATUS_SYM, st_sec))
    if st_off % 4:
        raise TranslateError("%s is not 4-byte aligned within its section (offset %d)" % (STATUS_SYM, st_off))
    if st_sec == ".data":
        b = section_bytes(asm_o, ".data")
        try:
            init_status = sum(b[st_off + k] << (8 * k) for k in range(4))
        except KeyError:
            raise TranslateError("cannot read initial value of %s" % STATUS_SYM)
    else:
        init_status = 0
    # other data symbols of the same section must not overlap the dword
    for n, sec, v, _ in symtab(asm_o):
        if sec == st_sec and n not in (STATUS_SYM, st_sec) and st_off < v < st_off + 4:
            raise TranslateError("symbol %s overlaps the status word" % n)

    # every instruction of .text of both objects (a static helper that gcc did not inline is a
    # local function of self_tests.o; nasm local labels are symbols too); every .text symbol is a
    # possible call / jump target by name
    seq = []
    d_asm, d_glue = disasm(asm_o), disasm(glue_o)
    fstart = {}
    for objname, objpath, dis in (("asm_self_tests.o", asm_o, d_asm), ("self_tests.o", glue_o, d_glue)):
        ins = sorted((i for l in dis.values() for i in l), key=lambda i: i["addr"])
        seq += ins
        for n, sec, v, _ in symtab(objpath):
            if sec == ".text" and n != ".text":
                fstart.setdefault(n, (objname, v))
        for sec, f in sections_of(objpath).items():
            if sec.startswith(".text") and sec != ".text" and f > 0:
                raise TranslateError("%s has code outside .text (section %s): not translated" % (objname, sec))
    for fn in FUNCS_ASM + [FUNC_GLUE]:
        if fn not in fstart:
            raise TranslateError("function %s not found" % fn)

    kept = [i for i in seq if not is_padding(i)]
    index = {}
    for k, i in enumerate(kept):
        index[(i["obj"], i["addr"])] = k
    # a target that is padding resolves to the next kept instruction of the same object
    def resolve(obj, addr):
        cands = [(i["addr"], k) for k, i in enumerate(kept) if i["obj"] == obj and i["addr"] >= addr]
        allof = [i for i in seq if i["obj"] == obj and i["addr"] == addr]
        if not allof or not cands:
            raise TranslateError("branch target %x outside the translated functions of %s" % (addr, obj))
        # everything between addr and the chosen instruction must be padding
        tgt_addr, k = min(cands)
        for i in seq:
            if i["obj"] == obj and addr <= i["addr"] < tgt_addr and not is_padding(i):
                raise TranslateError("internal: non-padding skipped")
        return k

    def reg_of(s):
        s = s.strip()
        if s in REG32:
            return 32, COQREG[REG32.index(s)]
        if s in REG64:
            return 64, COQREG[REG64.index(s)]
        if s in REG8:
            return 8, COQREG[REG8.index(s)]
        return None

    def imm_of(s):
        s = s.strip()
        if re.fullmatch(r"-?0x[0-9a-f]+", s) or re.fullmatch(r"-?\d+", s):
            return int(s, 0) & 0xFFFFFFFF
        return None

    def mem_status(i, opnd):
        """operand is a memory reference: accept only dword [rip+disp] relocated to the status word"""
        m = re.fullmatch(r"(DWORD PTR )?\[rip\+0x[0-9a-f]+\]", opnd.strip())
        if not m or not m.group(1):
            raise TranslateError("unsupported memory operand `%s` in `%s %s` at %s:%x" % (opnd, i["mnem"], i["ops"], i["obj"], i["addr"]))
        rl = [r for r in i["relocs"] if r[1] in ("PC32", "PLT32", "GOTPCREL", "GOTPCRELX", "REX_GOTPCRELX")]
        if len(rl) != 1 or rl[0][1] != "PC32":
            raise TranslateError("memory operand without a PC32 relocation at %s:%x" % (i["obj"], i["addr"]))
        off, _, sym, add = rl[0]
        eff = add + (i["end"] - off)
        if i["obj"] != "asm_self_tests.o":
            raise TranslateError("memory operand in %s" % i["obj"])
        if sym == STATUS_SYM:
            tgt = (st_sec, st_off + eff)
        else:
            tgt = (sym, eff)
        if tgt != (st_sec, st_off):
            raise TranslateError("memory operand at %s:%x refers to %s+%d, not to the status word" % (i["obj"], i["addr"], tgt[0], tgt[1]))
        return True

    def is_mem(s):
        return "[" in s

    out = []
    for i in kept:
        m, ops = i["mnem"], i["ops"]
        where = "%s:%x `%s %s`" % (i["obj"], i["addr"], m, ops)
        opl = [o.strip() for o in ops.split(",")] if ops else []
        locked = False
        if m.startswith("lock "):
            locked = True
            m = m[5:]
        if locked and m not in ("cmpxchg", "xchg"):
            raise TranslateError("unsupported locked instruction " + where)
        if m in ("test", "cmp") and len(opl) == 2 and reg_of(opl[0]) and reg_of(opl[0])[0] == 8 and \
                ((reg_of(opl[1]) and reg_of(opl[1])[0] == 8) or imm_of(opl[1]) is not None):
            cs = "(SReg %s)" % reg_of(opl[1])[1] if reg_of(opl[1]) else "(SImm %d)" % (imm_of(opl[1]) & 0xFF)
            out.append("IAlu8 %s %s %s" % (ALU[m], reg_of(opl[0])[1], cs))
        elif m in ALU and len(opl) == 2:
            d, s = opl
            if is_mem(d) and is_mem(s):
                raise TranslateError("two memory operands " + where)
            if is_mem(d):
                mem_status(i, d)
                if m not in ("mov", "cmp", "test"):
                    raise TranslateError("read-modify-write on the status word " + where)
                cd = "DMem"
            else:
                r = reg_of(d)
                if r is None:
                    raise TranslateError("unsupported destination " + where)
                if r[0] == 64 and m == "mov" and reg_of(s) and reg_of(s)[0] == 64:
                    out.append("IMov64 %s %s" % (r[1], reg_of(s)[1]))
                    continue
                if r[0] != 32:
                    raise TranslateError("unsupported operand width " + where)
                cd = "(DReg %s)" % r[1]
            if is_mem(s):
                mem_status(i, s)
                cs = "SMem"
            elif reg_of(s):
                if reg_of(s)[0] != 32:
                    raise TranslateError("unsupported operand width " + where)
                cs = "(SReg %s)" % reg_of(s)[1]
            elif imm_of(s) is not None:
                cs = "(SImm %d)" % imm_of(s)
            else:
                raise TranslateError("unsupported source " + where)
            out.append("IAlu %s %s %s" % (ALU[m], cd, cs))
        elif m == "cmpxchg" and len(opl) == 2:
            mem_status(i, opl[0])
            r = reg_of(opl[1])
            if r is None or r[0] != 32:
                raise TranslateError("unsupported cmpxchg source " + where)
            out.append("ICmpxchg %s %s" % ("true" if locked else "false", r[1]))
        elif m == "xchg" and len(opl) == 2 and (is_mem(opl[0]) != is_mem(opl[1])):
            mo, ro = (opl[0], opl[1]) if is_mem(opl[0]) else (opl[1], opl[0])
            mem_status(i, mo)
            r = reg_of(ro)
            if r is None or r[0] != 32:
                raise TranslateError("unsupported xchg operand " + where)
            out.append("IXchg %s" % r[1])
        elif m.startswith("set") and m[3:] in CC and len(opl) == 1 and reg_of(opl[0]) and reg_of(opl[0])[0] == 8:
            out.append("ISetcc %s %s" % (CC[m[3:]], reg_of(opl[0])[1]))
        elif m == "movzx" and len(opl) == 2 and reg_of(opl[0]) and reg_of(opl[1]) and reg_of(opl[0])[0] == 32 and reg_of(opl[1])[0] == 8:
            out.append("IMovzx8 %s %s" % (reg_of(opl[0])[1], reg_of(opl[1])[1]))
        elif m.startswith("cmov") and m[4:] in CC and len(opl) == 2 and reg_of(opl[0]) and reg_of(opl[1]) and reg_of(opl[0])[0] == 32 and reg_of(opl[1])[0] == 32:
            out.append("ICmov %s %s %s" % (CC[m[4:]], reg_of(opl[0])[1], reg_of(opl[1])[1]))
        elif m == "jmp" or (m.startswith("j") and m[1:] in CC):
            t = re.match(r"^([0-9a-f]+) <", ops)
            rl = [r for r in i["relocs"] if r[1] in ("PLT32", "PC32")]
            if rl and len(rl) == 1 and rl[0][2] in fstart and rl[0][3] in (-4, -4 & 0xFFFFFFFFFFFFFFFF):
                k = resolve(*fstart[rl[0][2]])          # tail call / jump to a function by name
            elif t and not i["relocs"]:
                k = resolve(i["obj"], int(t.group(1), 16))
            else:
                raise TranslateError("unsupported jump " + where)
            out.append("IJmp %d" % k if m == "jmp" else "IJcc %s %d" % (CC[m[1:]], k))
        elif m == "call":
            rl = [r for r in i["relocs"] if r[1] in ("PLT32", "PC32")]
            if len(rl) == 1:
                sym = rl[0][2]
                if rl[0][3] != -4 & 0xFFFFFFFFFFFFFFFF and rl[0][3] != -4:
                    raise TranslateError("call with unusual addend " + where)
                if sym in EXT:
                    out.append("ICallExt %s" % EXT[sym])
                elif sym in fstart:
                    out.append("ICall %d" % resolve(*fstart[sym]))
                else:
                    raise TranslateError("call to unknown function %s: %s" % (sym, where))
            else:
                t = re.match(r"^([0-9a-f]+) <", ops)
                if not t:
                    raise TranslateError("unsupported call " + where)
                out.append("ICall %d" % resolve(i["obj"], int(t.group(1), 16)))
        elif m == "ret" and not opl:
            out.append("IRet")
        elif m in ("push", "pop") and len(opl) == 1 and reg_of(opl[0]) and reg_of(opl[0])[0] == 64:
            out.append("%s %s" % ("IPush" if m == "push" else "IPop", reg_of(opl[0])[1]))
        elif m in ("sub", "add") and len(opl) == 2 and opl[0] == "rsp" and imm_of(opl[1]) is not None and imm_of(opl[1]) % 8 == 0 and imm_of(opl[1]) < 4096:
            out.append("IStackAdj %s %d" % ("true" if m == "sub" else "false", imm_of(opl[1]) // 8))
        elif m == "pause" and not opl:
            out.append("IPause")
        else:
            raise TranslateError("unsupported instruction " + where)
    # `reg_of` on ALU 64-bit sub/add rsp handled above only when first operand is rsp: make sure
    # the generic ALU branch did not swallow it (it rejects 64-bit registers)
    labels = []
    for fn, key in fstart.items():
        try:
            labels.append((index[key] if key in index else resolve(*key), fn))
        except TranslateError:
            pass
    listing = ["%3d  %-22s ; %s:%x  %s %s" % (k, out[k].split()[0], i["obj"], i["addr"], i["mnem"], i["ops"]) for k, i in enumerate(kept)]
    return {"prog": out, "entry": dict((fn, k) for k, fn in labels)[FUNC_GLUE], "labels": sorted(labels),
            "init_status": init_status, "listing": listing,
            "dropped_padding": len(seq) - len(kept)}

# ----------------------------------------------------------------------------- return values of the bodies


def _walk(n):
    yield n
    for c in n.get("inner", []) or []:
        if isinstance(c, dict):
            yield from _walk(c)


def _strip(e):
    while e.get("kind") in ("ImplicitCastExpr", "ParenExpr", "CStyleCastExpr", "ConstantExpr") and e.get("inner"):
        e = e["inner"][-1]
    return e


def _intlit(e):
    e = _strip(e)
    if e.get("kind") == "IntegerLiteral":
        return int(e["value"])
    if e.get("kind") == "UnaryOperator" and e.get("opcode") in ("-", "~", "+") and e.get("inner"):
        v = _intlit(e["inner"][0])
        if v is None:
            return None
        return {"-": -v, "~": ~v, "+": v}[e["opcode"]]
    return None


def _callee(e):
    e = _strip(e)
    if e.get("kind") == "CallExpr" and e.get("inner"):
        f = _strip(e["inner"][0])
        if f.get("kind") == "DeclRefExpr":
            return f["referencedDecl"]["name"]
    return None


BOOL_OPS = ("==", "!=", "<", ">", "<=", ">=", "&&", "||")


def _rexp(e, var_exp, depth=0):
    """clang expression -> rexp term (nested tuples); variables through var_exp(name)"""
    if depth > 40:
        return ("unknown",)
    e = _strip(e)
    k = e.get("kind")
    v = _intlit(e)
    if v is not None:
        return ("lit", v & 0xFFFFFFFF)
    if k == "BinaryOperator" and e.get("opcode") in BOOL_OPS:
        return ("bool",)
    if k == "UnaryOperator" and e.get("opcode") == "!":
        return ("bool",)
    if k == "BinaryOperator" and e.get("opcode") == "|" and len(e.get("inner", [])) == 2:
        return ("or", _rexp(e["inner"][0], var_exp, depth + 1), _rexp(e["inner"][1], var_exp, depth + 1))
    if k == "BinaryOperator" and e.get("opcode") == "," and len(e.get("inner", [])) == 2:
        return _rexp(e["inner"][1], var_exp, depth + 1)
    if k == "ConditionalOperator" and len(e.get("inner", [])) == 3:
        return ("cond", _rexp(e["inner"][1], var_exp, depth + 1), _rexp(e["inner"][2], var_exp, depth + 1))
    if k == "CallExpr":
        c = _callee(e)
        return ("call", c) if c else ("unknown",)
    if k == "DeclRefExpr" and e.get("referencedDecl", {}).get("kind") in ("VarDecl",):
        return var_exp(e["referencedDecl"]["name"], depth + 1)
    return ("unknown",)


def return_shapes(repo, files=("fips/aes_self_tests.c", "fips/sha_self_tests.c")):
    """-> {function name: [rexp, ...] (one per return statement) | None (unknown)}.
    A local int variable is summarised flow-insensitively: the expressions it is assigned
    (initialiser, `v = e`) and the expressions OR-ed into it (`v |= e`); any other write to it
    (other compound assignment, ++/--, address taken) makes it unknown."""
    shapes = {}
    for f in files:
        src = os.path.join(repo, f)
        if not os.path.exists(src):
            raise TranslateError("missing source " + src)
        p = subprocess.run(["clang", "-fsyntax-only", "-Xclang", "-ast-dump=json", "-DFIPS_MODE", "-DSAFE_PARAM", "-DSAFE_DATA",
                            "-I", os.path.join(repo, "include"), "-I", repo, "-I", os.path.join(repo, "fips"), src],
                           stdout=subprocess.PIPE, stderr=subprocess.PIPE, text=True, timeout=120)
        if p.returncode != 0:
            raise TranslateError("clang failed on %s: %s" % (f, p.stderr[-1500:]))
        ast = json.loads(p.stdout)
        for fd in ast.get("inner", []):
            if fd.get("kind") != "FunctionDecl" or not any(c.get("kind") == "CompoundStmt" for c in fd.get("inner", []) or []):
                continue
            if fd.get("loc", {}).get("includedFrom") or fd.get("range", {}).get("begin", {}).get("includedFrom"):
                continue
            name = fd["name"]
            body = [c for c in fd["inner"] if c.get("kind") == "CompoundStmt"][0]
            nodes = list(_walk(body))
            rets = [n for n in nodes if n.get("kind") == "ReturnStmt"]
            if not rets:
                continue
            local_vars = {n["name"] for n in nodes if n.get("kind") == "VarDecl" and n.get("storageClass") != "static"}
            inits, ors, bad = {}, {}, set()
            for n in nodes:
                k = n.get("kind")
                if k == "VarDecl" and n.get("name") in local_vars and n.get("inner"):
                    ini = [c for c in n["inner"] if c.get("kind", "").endswith(("Expr", "Operator", "Literal"))]
                    if ini:
                        inits.setdefault(n["name"], []).append(ini[-1])
                elif k in ("BinaryOperator", "CompoundAssignOperator") and n.get("inner") and len(n["inner"]) == 2:
                    lhs = _strip(n["inner"][0])
                    if lhs.get("kind") == "DeclRefExpr" and lhs.get("referencedDecl", {}).get("name") in local_vars:
                        v = lhs["referencedDecl"]["name"]
                        if k == "BinaryOperator" and n.get("opcode") == "=":
                            inits.setdefault(v, []).append(n["inner"][1])
                        elif k == "CompoundAssignOperator" and n.get("opcode") == "|=":
                            ors.setdefault(v, []).append(n["inner"][1])
                        elif k == "CompoundAssignOperator":
                            bad.add(v)
                elif k == "UnaryOperator" and n.get("opcode") in ("++", "--", "&") and n.get("inner"):
                    t = _strip(n["inner"][0])
                    if t.get("kind") == "DeclRefExpr" and t.get("referencedDecl", {}).get("name") in local_vars:
                        bad.add(t["referencedDecl"]["name"])
            active = set()

            def var_exp(v, depth):
                if v in bad or v not in inits or v in active or v not in local_vars:
                    return ("unknown",)
                active.add(v)
                r = ("var", [_rexp(e, var_exp, depth) for e in inits[v]], [_rexp(e, var_exp, depth) for e in ors.get(v, [])])
                active.discard(v)
                return r
            shapes[name] = [_rexp(r["inner"][0], var_exp) if r.get("inner") else ("unknown",) for r in rets]
    return shapes


def rexp_coq(e, idx):
    k = e[0]
    if k == "lit":
        return "(ELit %d)" % e[1]
    if k == "bool":
        return "EBool"
    if k == "call":
        return "(ECall %d%%nat)" % idx[e[1]] if e[1] in idx else "EUnknown"
    if k == "or":
        return "(EOr %s %s)" % (rexp_coq(e[1], idx), rexp_coq(e[2], idx))
    if k == "cond":
        return "(ECond %s %s)" % (rexp_coq(e[1], idx), rexp_coq(e[2], idx))
    if k == "var":
        return "(EVar [%s] [%s])" % ("; ".join(rexp_coq(x, idx) for x in e[1]), "; ".join(rexp_coq(x, idx) for x in e[2]))
    return "EUnknown"


def rexp_vals(e, shapes, depth=0):
    """the same value-set computation as Model/SelfTest.rexp_vals (used only to choose what to
    explore; the obligation is checked by Coq) -> sorted list or None"""
    if depth > 30:
        return None
    k = e[0]
    if k == "lit":
        return [e[1]]
    if k == "bool":
        return [0, 1]
    if k == "call":
        l = shapes.get(e[1])
        if not l:
            return None
        vs = [rexp_vals(x, shapes, depth + 1) for x in l]
        return None if any(v is None for v in vs) else sorted({y for v in vs for y in v})
    if k in ("or", "cond"):
        a, b = rexp_vals(e[1], shapes, depth + 1), rexp_vals(e[2], shapes, depth + 1)
        if a is None or b is None:
            return None
        return sorted({x | y for x in a for y in b}) if k == "or" else sorted(set(a) | set(b))
    if k == "var":
        if not e[1]:
            return None
        i = [rexp_vals(x, shapes, depth + 1) for x in e[1]]
        o = [rexp_vals(x, shapes, depth + 1) for x in e[2]]
        if any(v is None for v in i + o):
            return None
        acc, os_ = {y for v in i for y in v}, {y for v in o for y in v}
        for _ in range(len(os_) + 1):
            acc |= {x | y for x in acc for y in os_}
        return sorted(acc)
    return None


def err_self_test(repo):
    """value of the enumerator ISAL_CRYPTO_ERR_SELF_TEST"""
    src = os.path.join(repo, "include", "isal_crypto_api.h")
    p = subprocess.run(["clang", "-fsyntax-only", "-Xclang", "-ast-dump=json", "-x", "c", src],
                       stdout=subprocess.PIPE, stderr=subprocess.PIPE, text=True, timeout=120)
    if p.returncode != 0:
        raise TranslateError("clang failed on isal_crypto_api.h")
    ast = json.loads(p.stdout)
    for n in _walk(ast):
        if n.get("kind") == "EnumDecl":
            val = -1
            for c in n.get("inner", []):
                if c.get("kind") != "EnumConstantDecl":
                    continue
                v = None
                for e in _walk(c):
                    if e.get("kind") == "ConstantExpr" and "value" in e:
                        v = int(e["value"])
                        break
                    if e.get("kind") == "IntegerLiteral":
                        v = int(e["value"])
                        break
                val = v if v is not None else val + 1
                if c["name"] == "ISAL_CRYPTO_ERR_SELF_TEST":
                    return val
    raise TranslateError("ISAL_CRYPTO_ERR_SELF_TEST not found")


def generate(objdir, repo):
    """-> (text of Gen/SelfTestGen.v, info dict).  On a translation failure the generated file
    still compiles: prog = [] with translate_error set, so that the obligation fails (closed)."""
    info = {}
    try:
        tp = translate_program(objdir)
        shapes = return_shapes(repo)
        errv = err_self_test(repo)
        err = None
    except TranslateError as e:
        tp = {"prog": [], "entry": 0, "labels": [], "init_status": 2, "listing": [], "dropped_padding": 0}
        shapes, errv, err = {}, 0, str(e)
    names = sorted(shapes)
    idx = {n: k for k, n in enumerate(names)}
    tab = ["RExps [%s]" % "; ".join(rexp_coq(e, idx) for e in shapes[n]) for n in names]
    lines = ["(* GENERATED by tr/selftest.py from the built FIPS objects and fips/*.c — do not edit *)",
             "From Coq Require Import NArith List.", "From ISAL Require Import Model.SelfTest.", "Import ListNotations.",
             "Local Open Scope N_scope.", ""]
    if err:
        lines.append("(* TRANSLATION FAILED (fail closed): %s *)" % err.replace("*)", "* )").replace("(*", "( *"))
    lines.append("Definition translate_ok : bool := %s." % ("false" if err else "true"))
    lines.append("(*\n" + "\n".join(tp["listing"]) + "\n*)")
    lines.append("Definition prog : list instr := [\n  " + ";\n  ".join(tp["prog"]) + "\n]." if tp["prog"] else "Definition prog : list instr := [].")
    lines.append("Definition entry : nat := %d%%nat." % tp["entry"])
    lines.append("Definition init_status : N := %d." % tp["init_status"])
    lines.append("Definition errv : N := %d.  (* ISAL_CRYPTO_ERR_SELF_TEST *)" % errv)
    lines.append("(* return shapes of the functions of fips/aes_self_tests.c, fips/sha_self_tests.c: " + ", ".join("%d=%s" % (k, n) for k, n in enumerate(names)) + " *)")
    lines.append("Definition ret_tab : list retshape := [\n  " + ";\n  ".join(tab) + "\n]." if tab else "Definition ret_tab : list retshape := [].")
    lines.append("Definition aes_fn : nat := %d%%nat." % idx.get("_aes_self_tests", 9999))
    lines.append("Definition sha_fn : nat := %d%%nat." % idx.get("_sha_self_tests", 9999))
    lines.append("Definition aes_returns : option (list N) := ret_values 40 ret_tab aes_fn.")
    lines.append("Definition sha_returns : option (list N) := ret_values 40 ret_tab sha_fn.")
    info = {"error": err, "n_instr": len(tp["prog"]), "dropped_padding": tp["dropped_padding"], "labels": tp["labels"],
            "listing": tp["listing"], "entry": tp["entry"], "init_status": tp["init_status"], "errv": errv,
            "shapes": {n: shapes[n] for n in names}, "prog": tp["prog"],
            "aes_values": rexp_vals(("call", "_aes_self_tests"), shapes), "sha_values": rexp_vals(("call", "_sha_self_tests"), shapes)}
    return "\n".join(lines) + "\n", info


if __name__ == "__main__":
    import sys
    txt, info = generate(sys.argv[1], sys.argv[2] if len(sys.argv) > 2 else "/repo")
    sys.stdout.write(txt)
    sys.stderr.write(json.dumps({k: v for k, v in info.items() if k != "prog"}, indent=1) + "\n")
