"""C08 translator: the width in which the multi-hash update template evaluates its
"not enough data" test -> coq/Gen/MhCarryGen.v (mh_sum_bits: 32 = the test can wrap in uint32_t,
64 = the test is exact for every uint32_t len).

The test is located structurally: the `if (COND) { memcpy(BUF + P, SRC, LEN); return ...` whose
copy length LEN is the function's length parameter.  P must be defined (once, before the test)
as `ctx->total_length % BLOCK`, so P < BLOCK.  Locals that are assigned exactly once before the
test (e.g. `fill_len = BLOCK - P`) are substituted into COND; names are canonicalised
(L = length parameter, P, B = block-size macro), so renamed locals and statements moved around
without crossing the test do not matter.  Recognised conditions:

  wrap-prone (32):  L + P < B   (either operand order, or written B > L + P), all uint32_t
  exact (64):       the same with a (uint64_t) cast on L and/or P
                    L < B - P   (or B - P > L): cannot wrap because P < B (checked above)

The three update templates must agree; anything else raises (the check fails closed)."""
import os, re

FILES = [("mh_sha1/mh_sha1_update_base.c", "ISAL_MH_SHA1_BLOCK_SIZE"),
         ("mh_sha256/mh_sha256_update_base.c", "ISAL_MH_SHA256_BLOCK_SIZE"),
         ("mh_sha1_murmur3_x64_128/mh_sha1_murmur3_x64_128_update_base.c", "ISAL_MH_SHA1_BLOCK_SIZE")]

WRAP32 = {"L+P<B", "P+L<B", "B>L+P", "B>P+L"}
EXACT = {"L<B-P", "B-P>L"}


def strip(src):
    src = re.sub(r"/\*.*?\*/", "", src, flags=re.S)
    src = re.sub(r"//[^\n]*", "", src)
    return src


def width_of(path, blk):
    src = strip(open(path).read())
    # the update function: the one whose parameter list ends with `uint32_t <len>)`
    m = re.search(r"\(\s*struct\s+\w+\s*\*\s*(\w+)\s*,\s*const\s+void\s*\*\s*(\w+)\s*,\s*(uint32_t|uint64_t|size_t)\s+(\w+)\s*\)\s*\{", src)
    if not m:
        raise ValueError("%s: update function signature not recognised" % path)
    ctx, _, lentype, L = m.groups()
    body = src[m.end():]
    t = re.search(r"if\s*\(([^{};]*)\)\s*\{\s*memcpy\s*\(\s*(\w+)\s*\+\s*(\w+)\s*,\s*(\w+)\s*,\s*(\w+)\s*\)\s*;\s*return\b", body)
    if not t:
        raise ValueError("%s: the 'not enough data' branch (if (...) { memcpy(buf + partial, src, len); return) was not recognised" % path)
    cond, _buf, P, _src, cplen = t.groups()
    if cplen != L:
        raise ValueError("%s: the short-input branch copies %r bytes, not the length parameter %r" % (path, cplen, L))
    pre = body[:t.start()]
    # the length parameter must reach the test unmodified
    if re.search(r"\b%s\s*(=(?!=)|[-+*/%%&|^]=|\+\+|--)" % re.escape(L), pre) or re.search(r"(\+\+|--)\s*%s\b" % re.escape(L), pre):
        raise ValueError("%s: the length parameter is modified before the test" % path)
    # single assignments before the test
    assigns = {}
    for a in re.finditer(r"(?<![\w>.])(\w+)\s*=(?!=)\s*([^;{}]+);", pre):
        assigns.setdefault(a.group(1), []).append(re.sub(r"\s+", "", a.group(2)))
    for name in list(assigns):
        if re.search(r"\b%s\s*([-+*/%%&|^]=|\+\+|--)" % re.escape(name), pre):
            assigns[name].append("<modified>")
    pdef = assigns.get(P, [])
    ok_p = {"%s->total_length%%%s" % (ctx, blk), "(uint32_t)(%s->total_length%%%s)" % (ctx, blk),
            "(uint32_t)%s->total_length%%%s" % (ctx, blk), "%s->total_length&(%s-1)" % (ctx, blk)}
    if len(pdef) != 1 or pdef[0] not in ok_p:
        raise ValueError("%s: %s is not defined once as total_length %% %s before the test (%s)" % (path, P, blk, pdef))
    # declared widths of the two operands (for the wrap-prone reading)
    def decl32(name):
        return bool(re.search(r"\buint32_t\b[^;()]*\b%s\b[^;()]*;" % re.escape(name), src)) or (name == L and lentype == "uint32_t")
    c = re.sub(r"\s+", "", cond)
    for _ in range(4):                                   # substitute single-assignment locals
        changed = False
        for name, defs in assigns.items():
            if name in (P, L) or len(defs) != 1:
                continue
            if re.search(r"\b%s\b" % re.escape(name), c):
                c = re.sub(r"\b%s\b" % re.escape(name), "(" + defs[0] + ")", c)
                changed = True
        if not changed:
            break
    c = re.sub(r"\b%s\b" % re.escape(L), "L", c)
    c = re.sub(r"\b%s\b" % re.escape(P), "P", c)
    c = re.sub(r"\b%s\b" % re.escape(blk), "B", c)
    casted = "(uint64_t)" in c
    c = c.replace("(uint64_t)", "")
    c = c.replace("(", "").replace(")", "")
    if c in WRAP32:
        if casted:
            return 64
        if decl32(L) and decl32(P):
            return 32
        raise ValueError("%s: operand types of %r are not both uint32_t and there is no uint64_t cast" % (path, cond))
    if c in EXACT and not casted:
        return 64                                        # L < B - P with P < B: no wrap-around
    if c in EXACT and casted:
        return 64
    raise ValueError("%s: condition %r (canonical %r) not recognised" % (path, cond.strip(), c))


def width(repo):
    ws = {}
    for f, blk in FILES:
        ws[f] = width_of(os.path.join(repo, f), blk)
    if len(set(ws.values())) != 1:
        raise ValueError("the three update templates disagree on whether the test can wrap: %s" % ws)
    return set(ws.values()).pop()


def generate(repo):
    w = width(repo)
    return ("(* generated by tr/mh_carry.py from mh_sha1/mh_sha256/mh_sha1_murmur3_x64_128 *_update_base.c - do not edit *)\n"
            "From Coq Require Import NArith.\n"
            "(* width, in bits, in which the `not enough data` test of the update template is exact:\n"
            "   32 = a plain uint32_t sum len + partial_block_len (wraps); 64 = a 64-bit sum or the\n"
            "   subtraction form len < BLOCK_SIZE - partial_block_len (no uint32_t len can wrap) *)\n"
            "Definition mh_sum_bits : N := %d%%N.\n" % w)


if __name__ == "__main__":
    import sys
    print(generate(sys.argv[1] if len(sys.argv) > 1 else "/repo"))
