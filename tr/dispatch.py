"""C12 translator: built *_multibinary*.o  ->  coq/Gen/DispatchGen.v

Deliberately dumb: one disassembled instruction -> one constructor of Model/Dispatch.v's
mini-ISA; anything it does not recognise becomes `Unsupported "<text>"`, which is stuck in
the model (fail closed).  Everything that is *decided* about the instruction lists is
decided by Coq functions.

Reads `objdump -dr -M intel` and `nm` of every object that defines a `*_dispatched` data
symbol.  In the hook build `cpuid`/`xgetbv` are `call isal_verif_cpuid/xgetbv`; both forms
map to the Cpuid/Xgetbv constructors, and translate() of the hook and of the plain build
must produce the same lists (checked by the caller)."""
import os, re, subprocess

_R = ["rax", "rbx", "rcx", "rdx", "rsi", "rdi", "rbp"] + ["r%d" % i for i in range(8, 16)]
REG64 = {r: r.upper() for r in _R}
REG32 = dict({"eax": "RAX", "ebx": "RBX", "ecx": "RCX", "edx": "RDX", "esi": "RSI", "edi": "RDI", "ebp": "RBP"},
             **{"r%dd" % i: "R%d" % i for i in range(8, 16)})
REG8 = dict({"al": "RAX", "bl": "RBX", "cl": "RCX", "dl": "RDX", "sil": "RSI", "dil": "RDI", "bpl": "RBP"},
            **{"r%db" % i: "R%d" % i for i in range(8, 16)})      # low bytes only (no ah/bh/ch/dh)
HOOKS = {"isal_verif_cpuid": "Cpuid", "isal_verif_xgetbv": "Xgetbv"}


def sh(cmd):
    return subprocess.run(cmd, stdout=subprocess.PIPE, stderr=subprocess.STDOUT, text=True, check=True,
                          timeout=120).stdout


def q(s):
    return '"%s"' % s.replace('"', '""')


class Obj:
    """parsed object: .text instructions with their relocations, symbols"""
    def __init__(self, path):
        self.path = path
        self.name = os.path.basename(path)
        self.text_syms = {}     # name -> addr
        self.text_at = {}       # addr -> [names]
        self.data_at = {}       # offset in .data -> name
        self.undef = set()
        for l in sh(["nm", path]).splitlines():
            t = l.split()
            if len(t) == 2 and t[0] == "U":
                self.undef.add(t[1])
            elif len(t) == 3:
                a, ty, n = int(t[0], 16), t[1], t[2]
                if ty in "tT":
                    self.text_syms[n] = a
                    self.text_at.setdefault(a, []).append(n)
                elif ty in "dD":
                    self.data_at[a] = n
        self.insns = []         # (addr, text, reloc or None)
        sect = None
        for l in sh(["objdump", "-dr", "-M", "intel", "--no-show-raw-insn", path]).splitlines():
            m = re.match(r"Disassembly of section (\S+):", l)
            if m:
                sect = m.group(1)
                continue
            if sect != ".text":
                continue
            m = re.match(r"\s+([0-9a-f]+):\s+(R_X86_64_\w+)\s+(\S+)\s*$", l)
            if m and self.insns:
                a, t, _ = self.insns[-1]
                self.insns[-1] = (a, t, (m.group(2), m.group(3)))
                continue
            m = re.match(r"\s+([0-9a-f]+):\t(.*)$", l)
            if m:
                txt = re.sub(r"\s*#.*$", "", m.group(2))
                txt = re.sub(r"\s*<[^>]*>", "", txt)
                txt = " ".join(txt.split())
                self.insns.append((int(m.group(1), 16), txt, None))
        self.idx = {a: i for i, (a, _, _) in enumerate(self.insns)}

    def reloc_target(self, rel, pcrel_adj=4):
        """-> ('sym', name) | ('data', slot-name or '.data+off') | ('text', name) | None"""
        if rel is None:
            return None
        kind, expr = rel
        m = re.match(r"^(.*?)([+-]0x[0-9a-f]+)?$", expr)
        base, add = m.group(1), int(m.group(2) or "0", 16)
        add += pcrel_adj        # PC-relative field at the end of the instruction: S + A - P, P = next - 4
        if base == ".data":
            return ("data", self.data_at.get(add, ".data+0x%x" % add))
        if base == ".text":
            names = self.text_at.get(add)
            return ("text", names[0] if names else ".text+0x%x" % add)
        if add != 0:
            return ("sym", "%s+0x%x" % (base, add))
        if base in self.data_at.values():
            return ("data", base)
        return ("sym", base)


def imm(s):
    if re.fullmatch(r"0x[0-9a-f]+", s):
        return int(s, 16)
    if re.fullmatch(r"[0-9]+", s):
        return int(s)
    return None


def trans_insn(o, k, lo, hi):
    """instruction k of object o -> Coq constructor text; jump targets must lie in
    insns[lo:hi] and are emitted as indices relative to lo"""
    addr, txt, rel = o.insns[k]
    bad = "Unsupported %s" % q(txt + (" {%s %s}" % rel if rel else ""))
    t = txt.split(None, 1)
    mn = t[0]
    ops = [x.strip() for x in t[1].split(",")] if len(t) > 1 else []
    tgt = o.reloc_target(rel)
    if mn in ("push", "pop") and len(ops) == 1 and ops[0] in REG64 and rel is None:
        return "%s %s" % (mn.capitalize(), REG64[ops[0]])
    if mn == "lea" and len(ops) == 2 and ops[0] in REG64 and ops[1] == "[rip+0x0]" and tgt and tgt[0] == "sym":
        return "LeaSym %s %s" % (REG64[ops[0]], q(tgt[1]))
    if mn == "mov" and len(ops) == 2 and rel is None:
        if ops[0] in REG32 and imm(ops[1]) is not None and imm(ops[1]) < 2 ** 32:
            return "MovRI %s %d" % (REG32[ops[0]], imm(ops[1]))
        if ops[0] in REG32 and ops[1] in REG32:
            return "MovRR32 %s %s" % (REG32[ops[0]], REG32[ops[1]])
        if ops[0] in REG64 and ops[1] in REG64:
            return "MovRR64 %s %s" % (REG64[ops[0]], REG64[ops[1]])
    if mn == "mov" and len(ops) == 2 and ops[0] == "QWORD PTR [rip+0x0]" and ops[1] in REG64 and tgt and tgt[0] == "data":
        return "Store %s %s" % (q(tgt[1]), REG64[ops[1]])
    if mn == "xor" and len(ops) == 2 and ops[0] in REG32 and ops[0] == ops[1] and rel is None:
        return "XorSelf %s" % REG32[ops[0]]
    if mn in ("and", "or", "xor", "test", "cmp") and len(ops) == 2 and ops[0] in REG32 and imm(ops[1]) is not None \
            and imm(ops[1]) < 2 ** 32 and rel is None:
        return "%sRI %s %d" % (mn.capitalize(), REG32[ops[0]], imm(ops[1]))
    if mn in ("and", "test", "cmp") and len(ops) == 2 and ops[0] in REG8 and imm(ops[1]) is not None \
            and imm(ops[1]) < 256 and rel is None:
        return "%sRI8 %s %d" % (mn.capitalize(), REG8[ops[0]], imm(ops[1]))
    if mn in ("and", "or", "xor", "test") and len(ops) == 2 and ops[0] in REG32 and ops[1] in REG32 and rel is None:
        return "%sRR %s %s" % (mn.capitalize(), REG32[ops[0]], REG32[ops[1]])
    if mn == "test" and len(ops) == 2 and ops[0] in REG8 and ops[1] in REG8 and rel is None:
        return "TestRR8 %s %s" % (REG8[ops[0]], REG8[ops[1]])
    if mn == "not" and len(ops) == 1 and ops[0] in REG32 and rel is None:
        return "NotR %s" % REG32[ops[0]]
    if mn in ("je", "jne", "jmp") and len(ops) == 1 and re.fullmatch(r"[0-9a-f]+", ops[0]) and rel is None:
        a = int(ops[0], 16)
        if a in o.idx and lo <= o.idx[a] < hi:
            j = o.idx[a] - lo
            return {"je": "Jcc CE %d", "jne": "Jcc CNE %d", "jmp": "Jmp %d"}[mn] % j
        return bad
    if mn in ("cmove", "cmovne") and len(ops) == 2 and ops[0] in REG64 and ops[1] in REG64 and rel is None:
        return "Cmov %s %s %s" % ("CE" if mn == "cmove" else "CNE", REG64[ops[0]], REG64[ops[1]])
    if mn in ("cpuid", "xgetbv") and not ops and rel is None:
        return mn.capitalize()
    if mn == "call" and tgt and tgt[0] == "sym" and tgt[1] in HOOKS:
        return HOOKS[tgt[1]]
    if mn == "call" and rel is None and len(ops) == 1 and re.fullmatch(r"[0-9a-f]+", ops[0]):
        names = o.text_at.get(int(ops[0], 16))
        return "CallSym %s" % q(names[0]) if names else bad
    if mn == "jmp" and ops == ["QWORD PTR [rip+0x0]"] and tgt and tgt[0] == "data":
        return "JmpSlot %s" % q(tgt[1])
    if mn == "ret" and not ops:
        return "Ret"
    if (mn in ("endbr64", "nop") and rel is None) or txt in ("xchg ax,ax", "data16 nop"):
        return "Nop"
    return bad


def reach(o, start):
    """indices reachable from insns[start] following direct branches; stops at ret, at an
    indirect jump and at anything that leaves the object"""
    seen, work = set(), [start]
    while work:
        k = work.pop()
        while 0 <= k < len(o.insns) and k not in seen:
            seen.add(k)
            _, txt, rel = o.insns[k]
            mn = txt.split()[0]
            m = re.fullmatch(r"(j\w+|loop\w*) ([0-9a-f]+)", txt)
            if m and int(m.group(2), 16) in o.idx:
                work.append(o.idx[int(m.group(2), 16)])
                if mn == "jmp":
                    break
            elif mn in ("ret", "jmp", "hlt", "ud2", "(bad)"):
                break
            k += 1
    return seen


def translate(objdir):
    """-> dict(entries=[{entry,obj,stub,code}], data_refs=[(obj,slot,kind,where)], foreign=[...],
    candidates={entry: [symbols it can bind]})"""
    objs = sorted(f for f in os.listdir(objdir) if f.endswith(".o"))
    entries, data_refs, owners = [], [], {}
    parsed = {}
    undef_of = {f: set() for f in objs}
    has_slot = set()
    for l in subprocess.run("nm -A *.o", shell=True, cwd=objdir, stdout=subprocess.PIPE, stderr=subprocess.DEVNULL,
                            text=True, timeout=300).stdout.splitlines():
        f, _, rest = l.partition(":")
        t = rest.split()
        if len(t) == 2 and t[0] == "U":
            undef_of.setdefault(f, set()).add(t[1])
        elif len(t) == 3 and t[1] in "dD" and t[2].endswith("_dispatched"):
            has_slot.add(f)
    for f in sorted(has_slot):
        parsed[f] = Obj(os.path.join(objdir, f))
    for f, o in parsed.items():
        ranges = []      # (lo, hi, entry, kind)
        for off in sorted(o.data_at):
            slot = o.data_at[off]
            if not slot.endswith("_dispatched"):
                continue
            e = slot[:-len("_dispatched")]
            owners[e] = f
            di, mb = o.text_syms.get(e + "_dispatch_init"), o.text_syms.get(e + "_mbinit")
            code, stub = ['Unsupported "no %s_dispatch_init symbol"' % e], ['Unsupported "no %s_mbinit symbol"' % e]
            if di is not None and di in o.idx:
                lo = o.idx[di]
                hi = max(reach(o, lo)) + 1
                code = [trans_insn(o, k, lo, hi) for k in range(lo, hi)]
                ranges.append((lo, hi, e, "code"))
            if mb is not None and mb in o.idx:
                lo = o.idx[mb]
                hi = lo
                while hi < len(o.insns) and hi - lo < 6 and not o.insns[hi][1].startswith("jmp"):
                    hi += 1
                hi = min(hi + 1, len(o.insns))
                stub = [trans_insn(o, k, lo, hi) for k in range(lo, hi)]
                ranges.append((lo, hi, e, "stub"))
            entries.append({"entry": e, "obj": f, "stub": stub, "code": code})
        # every reference from .text into .data: who touches the slots, and how
        for k, (a, txt, rel) in enumerate(o.insns):
            tgt = o.reloc_target(rel)
            if not tgt or tgt[0] != "data":
                continue
            where = "?"
            for lo, hi, e, kind in ranges:
                if lo <= k < hi:
                    where = e + ":" + kind
            kind = ("store" if re.match(r"mov QWORD PTR \[rip\+0x0\],r\w+$", txt) else
                    "jmp" if txt == "jmp QWORD PTR [rip+0x0]" else "other:" + txt)
            data_refs.append((f, tgt[1], kind, where))
    # nobody else may name a slot or a stub
    foreign = []
    for f in objs:
        for s in sorted(undef_of.get(f, ())):
            if s.endswith("_dispatched") or s.endswith("_mbinit") or s.endswith("_dispatch_init"):
                foreign.append("%s:%s" % (f, s))
    entries.sort(key=lambda d: (d["obj"], d["entry"]))
    cands = {}
    for d in entries:
        cands[d["entry"]] = sorted({m.group(1) for c in d["code"] for m in [re.match(r'LeaSym \w+ "(.*)"$', c)] if m})
    return {"entries": entries, "data_refs": data_refs, "foreign": foreign, "candidates": cands}


def ident(e):
    return "D" + re.sub(r"\W", "_", e).replace("__", "_")


def coq_list(items, indent="    "):
    if not items:
        return "[]"
    return "[ " + (";\n" + indent).join(items) + " ]"


def generate(tr):
    out = ["(* GENERATED by tr/dispatch.py from the built *_multibinary*.o — do not edit. *)",
           "From Coq Require Import NArith List String.",
           "From ISAL Require Import Model.Dispatch.",
           "Import ListNotations.", "Local Open Scope string_scope.", "Local Open Scope N_scope.", ""]
    for d in tr["entries"]:
        out.append("Definition %s : dispatcher := {|" % ident(d["entry"]))
        out.append("  d_entry := %s; d_obj := %s;" % (q(d["entry"]), q(d["obj"])))
        out.append("  d_stub := %s;" % coq_list(d["stub"]))
        out.append("  d_code := %s |}." % coq_list(d["code"]))
        out.append("")
    out.append("Definition dispatchers : list dispatcher :=\n  %s." % coq_list([ident(d["entry"]) for d in tr["entries"]], "    "))
    out.append("")
    out.append("(* every instruction of the dispatch objects that refers to their .data: (object, slot, kind, where) *)")
    out.append("Definition data_refs : list (string * string * string * string) :=\n  %s." %
               coq_list(["(%s, %s, %s, %s)" % tuple(q(x) for x in r) for r in tr["data_refs"]]))
    out.append("")
    out.append("(* undefined references to a slot, a stub or a dispatch routine from any object of the library *)")
    out.append("Definition foreign_refs : list string := %s." % coq_list([q(x) for x in tr["foreign"]]))
    out.append("")
    return "\n".join(out)


if __name__ == "__main__":
    import sys
    tr = translate(sys.argv[1])
    sys.stdout.write(generate(tr))
